// Extra extraction for the reuse family (C07, C08), written to Gen/ReuseFacts.lean.
//
// Facts read off the Go source as it is now (go/ast, no type checker):
//
//   - entries: for every reusable entry point (oj.Parser.Parse, …, pretty.Writer.Write) each call site
//     of the function that does the work (parseBuffer, validateBuffer, tokenizeBuffer, appendJSON,
//     colorJSON, appendSEN, colorSEN, build) together with the receiver fields that are DEFINITELY
//     assigned (on every path) before that call, and the fields assigned on some path only.
//     Definite assignment: straight-line `recv.a.b = …`; both branches of an if/else; every clause of
//     a switch with a default; nothing from loop bodies; a branch that returns or panics does not
//     constrain; calls of other methods of the same receiver are followed (depth ≤ 4).
//   - structFields: the fields of each receiver type (embedded structs of the same package flattened).
//   - pooled: every package-level function of oj/oj.go and sen/sen.go that takes an instance from a
//     sync.Pool: the pool, whether the Put is deferred, and whether what it returns on the pooled path
//     is a copy ("copy": string(...) conversion, make+copy, append([]byte{}, …), bytes.Clone), the
//     pooled instance's own buffer ("alias": a receiver field returned as is) or no buffer at all
//     ("value": no []byte or string among the results).
//   - poolNew: the fields set in the composite literal of each pool's New function.
//   - strictAssigns: every assignment to a `.strict` field in package oj (function, right-hand side).
//   - cache*: for oj, sen and alt: functions that touch structMap/structEmptyMap, whether every path
//     to them goes through a function that holds structMut (call graph by name), what is touched
//     before the Lock call, whether the map variables are ever reassigned, and whether getTypeStruct
//     consults structEmptyMap at all.
//   - scriptTemplateWriters: functions of package jp that assign to a `.template` field or copy into it.
//   - recomposerWalkKinds: the reflect kinds named in the `switch ft.Kind()` of the field walk of
//     alt.(*Recomposer).registerComposer (the container kinds whose element type is registered together
//     with a struct), recomposerWalkLoops: whether that step is repeated (containers of containers);
//     recomposerWriters / recomposerLazyCallers: the functions of package alt that
//     write `.composers[...]`, and those among the callers of registerComposer / registerAnyComposer
//     that are neither constructors nor Register* methods (registration on the fly during Recompose).
//
// It fails loudly on source shapes it cannot read.
package main

import (
	"bytes"
	"fmt"
	"go/ast"
	"go/parser"
	"go/printer"
	"go/token"
	"os"
	"path/filepath"
	"sort"
	"strconv"
	"strings"
)

func init() { registerExtra(extractReuse) }

type ruPkg struct {
	dir   string
	fset  *token.FileSet
	files map[string]*ast.File // base name -> file
	funcs map[string]*ast.FuncDecl
	types map[string]*ast.StructType
}

func ruLoad(repo, dir string) (*ruPkg, error) {
	p := &ruPkg{dir: dir, fset: token.NewFileSet(), files: map[string]*ast.File{}, funcs: map[string]*ast.FuncDecl{}, types: map[string]*ast.StructType{}}
	ents, err := os.ReadDir(filepath.Join(repo, dir))
	if err != nil {
		return nil, fmt.Errorf("reuse: %v", err)
	}
	for _, e := range ents {
		n := e.Name()
		if e.IsDir() || !strings.HasSuffix(n, ".go") || strings.HasSuffix(n, "_test.go") {
			continue
		}
		f, err := parser.ParseFile(p.fset, filepath.Join(repo, dir, n), nil, 0)
		if err != nil {
			return nil, fmt.Errorf("reuse: %v", err)
		}
		p.files[n] = f
		for _, d := range f.Decls {
			switch t := d.(type) {
			case *ast.FuncDecl:
				p.funcs[ruFuncKey(t)] = t
			case *ast.GenDecl:
				for _, s := range t.Specs {
					if ts, ok := s.(*ast.TypeSpec); ok {
						if st, ok := ts.Type.(*ast.StructType); ok {
							p.types[ts.Name.Name] = st
						}
					}
				}
			}
		}
	}
	return p, nil
}

func ruRecvType(fd *ast.FuncDecl) string {
	if fd.Recv == nil || len(fd.Recv.List) == 0 {
		return ""
	}
	t := fd.Recv.List[0].Type
	if s, ok := t.(*ast.StarExpr); ok {
		t = s.X
	}
	if id, ok := t.(*ast.Ident); ok {
		return id.Name
	}
	return "?"
}

func ruRecvName(fd *ast.FuncDecl) string {
	if fd.Recv == nil || len(fd.Recv.List) == 0 || len(fd.Recv.List[0].Names) == 0 {
		return ""
	}
	return fd.Recv.List[0].Names[0].Name
}

func ruFuncKey(fd *ast.FuncDecl) string {
	if r := ruRecvType(fd); r != "" {
		return r + "." + fd.Name.Name
	}
	return fd.Name.Name
}

func (p *ruPkg) src(n ast.Node) string {
	var b bytes.Buffer
	_ = printer.Fprint(&b, p.fset, n)
	return strings.Join(strings.Fields(b.String()), " ")
}

// ruPath reads `recv.a.b` and returns "a.b".
func ruPath(x ast.Expr, recv string) (string, bool) {
	var parts []string
	for {
		switch t := x.(type) {
		case *ast.SelectorExpr:
			parts = append([]string{t.Sel.Name}, parts...)
			x = t.X
			continue
		case *ast.Ident:
			if t.Name == recv && len(parts) > 0 {
				return strings.Join(parts, "."), true
			}
			return "", false
		case *ast.ParenExpr:
			x = t.X
			continue
		}
		return "", false
	}
}

type ruSet map[string]bool

func (s ruSet) clone() ruSet {
	c := ruSet{}
	for k := range s {
		c[k] = true
	}
	return c
}

func ruInter(a, b ruSet) ruSet {
	c := ruSet{}
	for k := range a {
		if b[k] {
			c[k] = true
		}
	}
	return c
}

func (s ruSet) sorted() []string {
	out := make([]string, 0, len(s))
	for k := range s {
		out = append(out, k)
	}
	sort.Strings(out)
	return out
}

type ruSite struct {
	callee   string
	assigned []string
	values   []string // "field=token" for every value assigned to a definitely assigned field so far
}

// ruDA is the definite-assignment walk over one entry point.
type ruDA struct {
	p        *ruPkg
	recvType string
	targets  map[string]bool
	sites    []ruSite
	ever     ruSet
	active   map[string]bool
	order    []string // fields in order of first assignment (for readable output)
	vals     map[string]ruSet // every value token assigned to a field so far (in traversal order, never killed)
	err      error
}

// ruValueToken classifies the right-hand side of a reset: lit:<n>, nil, ident:<name>, empty (a
// zero-length reslice `x[:0]` or `make(T, 0[, n])`), other.
func ruValueToken(x ast.Expr) string {
	switch t := x.(type) {
	case *ast.ParenExpr:
		return ruValueToken(t.X)
	case *ast.BasicLit:
		return "lit:" + t.Value
	case *ast.UnaryExpr:
		if bl, ok := t.X.(*ast.BasicLit); ok && (t.Op == token.SUB || t.Op == token.ADD) {
			if t.Op == token.SUB {
				return "lit:-" + bl.Value
			}
			return "lit:" + bl.Value
		}
	case *ast.Ident:
		switch t.Name {
		case "nil":
			return "nil"
		case "true", "false":
			return "lit:" + t.Name
		}
		return "ident:" + t.Name
	case *ast.SliceExpr:
		if t.Low == nil && t.Max == nil {
			if bl, ok := t.High.(*ast.BasicLit); ok && bl.Value == "0" {
				return "empty"
			}
		}
	case *ast.CallExpr:
		if id, ok := t.Fun.(*ast.Ident); ok && id.Name == "make" && len(t.Args) >= 2 {
			if bl, ok := t.Args[1].(*ast.BasicLit); ok && bl.Value == "0" {
				return "empty"
			}
		}
	}
	return "other"
}

// ruLeanPairs writes "field=token" strings as a list of pairs.
func ruLeanPairs(xs []string) string {
	q := make([]string, len(xs))
	for i, x := range xs {
		k := strings.IndexByte(x, '=')
		q[i] = "(" + ruLeanStr(x[:k]) + ", " + ruLeanStr(x[k+1:]) + ")"
	}
	return "[" + strings.Join(q, ", ") + "]"
}

func (d *ruDA) siteValues(a ruSet) []string {
	var out []string
	for _, f := range a.sorted() {
		for _, v := range d.vals[f].sorted() {
			out = append(out, f+"="+v)
		}
	}
	return out
}

func (d *ruDA) note(path string) {
	if !d.ever[path] {
		d.ever[path] = true
		d.order = append(d.order, path)
	}
}

// calls scans an expression for calls in evaluation order (approximately: inner first).
func (d *ruDA) calls(x ast.Node, recv string, a ruSet, depth int) ruSet {
	if x == nil {
		return a
	}
	ast.Inspect(x, func(n ast.Node) bool {
		switch t := n.(type) {
		case *ast.FuncLit:
			return false // runs later, if at all
		case *ast.CallExpr:
			for _, arg := range t.Args {
				a = d.calls(arg, recv, a, depth)
			}
			if se, ok := t.Fun.(*ast.SelectorExpr); ok {
				if id, ok := se.X.(*ast.Ident); ok && id.Name == recv {
					name := se.Sel.Name
					if d.targets[name] {
						d.sites = append(d.sites, ruSite{callee: name, assigned: a.sorted(), values: d.siteValues(a)})
					} else if fd := d.p.funcs[d.recvType+"."+name]; fd != nil && fd.Body != nil && depth < 4 && !d.active[name] {
						// follow other methods of the receiver (not recursively, depth ≤ 4: beyond that
						// nothing is added, which under-approximates the assigned set)
						d.active[name] = true
						a2, _ := d.block(fd.Body.List, ruRecvName(fd), a.clone(), depth+1)
						d.active[name] = false
						a = a2
					}
				}
			}
			return false
		}
		return true
	})
	return a
}

func ruIsPanic(s ast.Stmt) bool {
	es, ok := s.(*ast.ExprStmt)
	if !ok {
		return false
	}
	ce, ok := es.X.(*ast.CallExpr)
	if !ok {
		return false
	}
	id, ok := ce.Fun.(*ast.Ident)
	return ok && id.Name == "panic"
}

// block returns the fields definitely assigned at the normal end of the statements and whether the
// statements always leave the function (return / panic).
func (d *ruDA) block(stmts []ast.Stmt, recv string, a ruSet, depth int) (ruSet, bool) {
	for _, s := range stmts {
		switch t := s.(type) {
		case *ast.AssignStmt:
			for _, r := range t.Rhs {
				a = d.calls(r, recv, a, depth)
			}
			for _, l := range t.Lhs {
				// index / slice expressions on the left evaluate calls too
				a = d.calls(l, recv, a, depth)
			}
			if t.Tok == token.ASSIGN {
				for i, l := range t.Lhs {
					if path, ok := ruPath(l, recv); ok {
						a[path] = true
						d.note(path)
						tok := "other"
						if len(t.Lhs) == len(t.Rhs) {
							tok = ruValueToken(t.Rhs[i])
						}
						if d.vals[path] == nil {
							d.vals[path] = ruSet{}
						}
						d.vals[path][tok] = true
					}
				}
			}
		case *ast.ExprStmt:
			if ruIsPanic(s) {
				a = d.calls(t.X, recv, a, depth)
				return a, true
			}
			a = d.calls(t.X, recv, a, depth)
		case *ast.ReturnStmt:
			for _, r := range t.Results {
				a = d.calls(r, recv, a, depth)
			}
			return a, true
		case *ast.IfStmt:
			if t.Init != nil {
				a, _ = d.block([]ast.Stmt{t.Init}, recv, a, depth)
			}
			a = d.calls(t.Cond, recv, a, depth)
			a1, t1 := d.block(t.Body.List, recv, a.clone(), depth)
			a2, t2 := a, false
			if t.Else != nil {
				a2, t2 = d.block([]ast.Stmt{t.Else}, recv, a.clone(), depth)
			}
			switch {
			case t1 && t2:
				return a, true
			case t1:
				a = a2
			case t2:
				a = a1
			default:
				a = ruInter(a1, a2)
			}
		case *ast.BlockStmt:
			var term bool
			a, term = d.block(t.List, recv, a, depth)
			if term {
				return a, true
			}
		case *ast.ForStmt:
			if t.Init != nil {
				a, _ = d.block([]ast.Stmt{t.Init}, recv, a, depth)
			}
			a = d.calls(t.Cond, recv, a, depth)
			_, _ = d.block(t.Body.List, recv, a.clone(), depth)
		case *ast.RangeStmt:
			a = d.calls(t.X, recv, a, depth)
			_, _ = d.block(t.Body.List, recv, a.clone(), depth)
		case *ast.SwitchStmt, *ast.TypeSwitchStmt:
			var body *ast.BlockStmt
			if sw, ok := t.(*ast.SwitchStmt); ok {
				if sw.Init != nil {
					a, _ = d.block([]ast.Stmt{sw.Init}, recv, a, depth)
				}
				a = d.calls(sw.Tag, recv, a, depth)
				body = sw.Body
			} else {
				sw := t.(*ast.TypeSwitchStmt)
				if sw.Init != nil {
					a, _ = d.block([]ast.Stmt{sw.Init}, recv, a, depth)
				}
				a, _ = d.block([]ast.Stmt{sw.Assign}, recv, a, depth)
				body = sw.Body
			}
			hasDefault := false
			var acc ruSet
			allTerm := true
			for _, c := range body.List {
				cc := c.(*ast.CaseClause)
				if cc.List == nil {
					hasDefault = true
				}
				ac, tc := d.block(cc.Body, recv, a.clone(), depth)
				if !tc {
					allTerm = false
					if acc == nil {
						acc = ac
					} else {
						acc = ruInter(acc, ac)
					}
				}
			}
			if hasDefault {
				if allTerm {
					return a, true
				}
				a = acc
			}
		case *ast.LabeledStmt:
			var term bool
			a, term = d.block([]ast.Stmt{t.Stmt}, recv, a, depth)
			if term {
				return a, true
			}
		case *ast.DeclStmt:
			a = d.calls(t.Decl, recv, a, depth)
		case *ast.BranchStmt:
			return a, false // break / continue / goto end this block without leaving the function
		case *ast.DeferStmt, *ast.GoStmt, *ast.IncDecStmt, *ast.EmptyStmt:
			// deferred calls run at exit; ++/-- read before they write
		case *ast.SelectStmt, *ast.SendStmt:
			// not used by the entry points; nothing assigned
		default:
			d.err = fmt.Errorf("reuse: statement %T not understood at %s", s, d.p.fset.Position(s.Pos()))
		}
		if d.err != nil {
			return a, false
		}
	}
	return a, false
}

type ruEntrySpec struct {
	dir, pkg, recv, method string
	targets                []string
}

var ruEntries = []ruEntrySpec{
	{"oj", "oj", "Parser", "Parse", []string{"parseBuffer"}},
	{"oj", "oj", "Parser", "ParseReader", []string{"parseBuffer"}},
	{"oj", "oj", "Parser", "Unmarshal", []string{"parseBuffer"}},
	{"oj", "oj", "Validator", "Validate", []string{"validateBuffer"}},
	{"oj", "oj", "Validator", "ValidateReader", []string{"validateBuffer"}},
	{"oj", "oj", "Tokenizer", "Parse", []string{"tokenizeBuffer"}},
	{"oj", "oj", "Tokenizer", "Load", []string{"tokenizeBuffer"}},
	{"gen", "gen", "Parser", "Parse", []string{"parseBuffer"}},
	{"gen", "gen", "Parser", "ParseReader", []string{"parseBuffer"}},
	{"oj", "oj", "Writer", "JSON", []string{"appendJSON", "colorJSON"}},
	{"oj", "oj", "Writer", "MustJSON", []string{"appendJSON", "colorJSON"}},
	{"oj", "oj", "Writer", "Write", []string{"appendJSON", "colorJSON"}},
	{"oj", "oj", "Writer", "MustWrite", []string{"appendJSON", "colorJSON"}},
	{"sen", "sen", "Writer", "SEN", []string{"appendSEN", "colorSEN"}},
	{"sen", "sen", "Writer", "MustSEN", []string{"appendSEN", "colorSEN"}},
	{"sen", "sen", "Writer", "Write", []string{"appendSEN", "colorSEN"}},
	{"sen", "sen", "Writer", "MustWrite", []string{"appendSEN", "colorSEN"}},
	{"pretty", "pretty", "Writer", "Encode", []string{"build", "fill"}},
	{"pretty", "pretty", "Writer", "Marshal", []string{"build", "fill"}},
	{"pretty", "pretty", "Writer", "Write", []string{"build", "fill"}},
}

func ruLeanStr(s string) string { return strconv.Quote(s) }

func ruLeanList(xs []string) string {
	q := make([]string, len(xs))
	for i, x := range xs {
		q[i] = ruLeanStr(x)
	}
	return "[" + strings.Join(q, ", ") + "]"
}

func ruLeanBool(b bool) string {
	if b {
		return "true"
	}
	return "false"
}

// ruStructFields flattens the fields of a struct type; embedded structs of the same package are
// expanded, an embedded type of another package is listed under its type name.
func ruStructFields(p *ruPkg, name string, depth int) ([]string, error) {
	st := p.types[name]
	if st == nil {
		return nil, fmt.Errorf("reuse: struct type %s.%s not found", p.dir, name)
	}
	var out []string
	for _, f := range st.Fields.List {
		if len(f.Names) == 0 {
			t := f.Type
			if s, ok := t.(*ast.StarExpr); ok {
				t = s.X
			}
			switch tt := t.(type) {
			case *ast.Ident:
				if _, ok := p.types[tt.Name]; ok && depth < 3 {
					sub, err := ruStructFields(p, tt.Name, depth+1)
					if err != nil {
						return nil, err
					}
					out = append(out, sub...)
				} else {
					out = append(out, tt.Name)
				}
			case *ast.SelectorExpr:
				out = append(out, tt.Sel.Name)
			default:
				return nil, fmt.Errorf("reuse: embedded field of %s.%s not understood", p.dir, name)
			}
			continue
		}
		for _, n := range f.Names {
			out = append(out, n.Name)
		}
	}
	return out, nil
}

// ---- pooled functions -----------------------------------------------------------------------

type ruPooled struct {
	name, pool  string
	deferredPut bool
	result      string
	gets        int // Get calls on a pool in the function
	putsDefer   int // `defer pool.Put(inst)` statements directly in the block that holds the Get, after it
	putsOther   int // every other Put call on a pool (explicit, in another block, inside a closure, another instance)
}

func ruHasBufResult(ft *ast.FuncType) bool {
	if ft.Results == nil {
		return false
	}
	for _, f := range ft.Results.List {
		switch t := f.Type.(type) {
		case *ast.Ident:
			if t.Name == "string" {
				return true
			}
		case *ast.ArrayType:
			if id, ok := t.Elt.(*ast.Ident); ok && id.Name == "byte" && t.Len == nil {
				return true
			}
		}
	}
	return false
}

// ruIsFreshBytes recognises expressions that allocate: make(...), []byte{...}, []byte(nil).
func ruIsFreshBytes(x ast.Expr) bool {
	switch t := x.(type) {
	case *ast.CompositeLit:
		return true
	case *ast.CallExpr:
		if id, ok := t.Fun.(*ast.Ident); ok && id.Name == "make" {
			return true
		}
		if _, ok := t.Fun.(*ast.ArrayType); ok && len(t.Args) == 1 {
			if id, ok := t.Args[0].(*ast.Ident); ok && id.Name == "nil" {
				return true
			}
		}
	}
	return false
}

// ruClassify says whether the expression is a copy or the instance's own buffer. inst is the name of
// the variable holding the pooled instance (or the receiver inside a method).
func ruClassify(p *ruPkg, fd *ast.FuncDecl, x ast.Expr, inst, instType string, depth int) (string, error) {
	if depth > 5 {
		return "", fmt.Errorf("reuse: result classification too deep in %s", ruFuncKey(fd))
	}
	switch t := x.(type) {
	case *ast.ParenExpr:
		return ruClassify(p, fd, t.X, inst, instType, depth)
	case *ast.CallExpr:
		switch f := t.Fun.(type) {
		case *ast.Ident:
			switch f.Name {
			case "string":
				return "copy", nil
			case "append":
				if len(t.Args) >= 1 && ruIsFreshBytes(t.Args[0]) {
					return "copy", nil
				}
				return "", fmt.Errorf("reuse: append onto %s in %s not understood", p.src(t.Args[0]), ruFuncKey(fd))
			case "make":
				return "copy", nil
			}
		case *ast.ArrayType:
			return "copy", nil // []byte(s) conversion of a string
		case *ast.SelectorExpr:
			if id, ok := f.X.(*ast.Ident); ok {
				if id.Name == "bytes" && f.Sel.Name == "Clone" {
					return "copy", nil
				}
				if id.Name == inst {
					m := p.funcs[instType+"."+f.Sel.Name]
					if m == nil || m.Body == nil {
						return "", fmt.Errorf("reuse: method %s.%s not found", instType, f.Sel.Name)
					}
					return ruClassifyReturns(p, m, m.Body.List, ruRecvName(m), instType, depth+1)
				}
			}
		}
		return "", fmt.Errorf("reuse: call %s in %s not understood", p.src(x), ruFuncKey(fd))
	case *ast.SelectorExpr:
		if id, ok := t.X.(*ast.Ident); ok && id.Name == inst {
			return "alias", nil
		}
		return "", fmt.Errorf("reuse: selector %s in %s not understood", p.src(x), ruFuncKey(fd))
	case *ast.Ident:
		if t.Name == "nil" {
			return "copy", nil
		}
		// a local or named result: every assignment to it decides
		res := ""
		var err error
		ast.Inspect(fd.Body, func(n ast.Node) bool {
			as, ok := n.(*ast.AssignStmt)
			if !ok || err != nil {
				return true
			}
			for i, l := range as.Lhs {
				id, ok := l.(*ast.Ident)
				if !ok || id.Name != t.Name {
					continue
				}
				var rhs ast.Expr
				if len(as.Rhs) == len(as.Lhs) {
					rhs = as.Rhs[i]
				} else {
					rhs = as.Rhs[0]
				}
				var c string
				c, err = ruClassify(p, fd, rhs, inst, instType, depth+1)
				if err != nil {
					return false
				}
				if res == "" || c == "alias" {
					res = c
				}
			}
			return true
		})
		if err != nil {
			return "", err
		}
		if res == "" {
			return "", fmt.Errorf("reuse: no assignment to %s found in %s", t.Name, ruFuncKey(fd))
		}
		return res, nil
	case *ast.BasicLit:
		return "copy", nil
	}
	return "", fmt.Errorf("reuse: result expression %s in %s not understood", p.src(x), ruFuncKey(fd))
}

// ruClassifyReturns combines the buffer-typed results of the return statements found in stmts.
func ruClassifyReturns(p *ruPkg, fd *ast.FuncDecl, stmts []ast.Stmt, inst, instType string, depth int) (string, error) {
	var bufIdx []int
	var named []string
	if fd.Type.Results != nil {
		i := 0
		for _, f := range fd.Type.Results.List {
			isBuf := false
			switch t := f.Type.(type) {
			case *ast.Ident:
				isBuf = t.Name == "string"
			case *ast.ArrayType:
				if id, ok := t.Elt.(*ast.Ident); ok && id.Name == "byte" && t.Len == nil {
					isBuf = true
				}
			}
			n := len(f.Names)
			if n == 0 {
				n = 1
			}
			for k := 0; k < n; k++ {
				if isBuf {
					bufIdx = append(bufIdx, i)
				}
				if len(f.Names) > 0 {
					named = append(named, f.Names[k].Name)
				} else {
					named = append(named, "")
				}
				i++
			}
		}
	}
	if len(bufIdx) == 0 {
		return "value", nil
	}
	res := ""
	var err error
	found := false
	for _, s := range stmts {
		ast.Inspect(s, func(n ast.Node) bool {
			if _, ok := n.(*ast.FuncLit); ok {
				return false
			}
			rs, ok := n.(*ast.ReturnStmt)
			if !ok || err != nil {
				return true
			}
			found = true
			for _, bi := range bufIdx {
				var x ast.Expr
				switch {
				case len(rs.Results) == 0:
					if named[bi] == "" {
						err = fmt.Errorf("reuse: naked return without named result in %s", ruFuncKey(fd))
						return false
					}
					x = ast.NewIdent(named[bi])
				case len(rs.Results) == len(named):
					x = rs.Results[bi]
				case len(rs.Results) == 1:
					x = rs.Results[0] // return f(...) spreading a multi-value call
				default:
					err = fmt.Errorf("reuse: return shape not understood in %s", ruFuncKey(fd))
					return false
				}
				var c string
				c, err = ruClassify(p, fd, x, inst, instType, depth)
				if err != nil {
					return false
				}
				if res == "" || c == "alias" {
					res = c
				}
			}
			return true
		})
		if err != nil {
			return "", err
		}
	}
	if !found {
		return "", nil
	}
	return res, nil
}

func ruPooledFuncs(p *ruPkg, file string) ([]ruPooled, map[string][]string, error) {
	f := p.files[file]
	if f == nil {
		return nil, nil, fmt.Errorf("reuse: %s/%s not found", p.dir, file)
	}
	// pools: package-level vars initialised with sync.Pool{New: func() any { return &T{...} }}
	pools := map[string]string{}       // pool var -> instance type
	poolNew := map[string][]string{}   // pool var -> "field=value" of the composite literal
	for _, d := range f.Decls {
		gd, ok := d.(*ast.GenDecl)
		if !ok || gd.Tok != token.VAR {
			continue
		}
		for _, s := range gd.Specs {
			vs := s.(*ast.ValueSpec)
			for i, n := range vs.Names {
				if i >= len(vs.Values) {
					continue
				}
				cl, ok := vs.Values[i].(*ast.CompositeLit)
				if !ok {
					continue
				}
				se, ok := cl.Type.(*ast.SelectorExpr)
				if !ok || se.Sel.Name != "Pool" {
					continue
				}
				var lit *ast.CompositeLit
				ast.Inspect(cl, func(x ast.Node) bool {
					if ue, ok := x.(*ast.UnaryExpr); ok && ue.Op == token.AND {
						if c, ok := ue.X.(*ast.CompositeLit); ok && lit == nil {
							lit = c
						}
					}
					return true
				})
				if lit == nil {
					return nil, nil, fmt.Errorf("reuse: New function of pool %s.%s not understood", p.dir, n.Name)
				}
				id, ok := lit.Type.(*ast.Ident)
				if !ok {
					return nil, nil, fmt.Errorf("reuse: instance type of pool %s.%s not understood", p.dir, n.Name)
				}
				pools[n.Name] = id.Name
				fields := []string{}
				for _, e := range lit.Elts {
					kv, ok := e.(*ast.KeyValueExpr)
					if !ok {
						return nil, nil, fmt.Errorf("reuse: literal of pool %s.%s not keyed", p.dir, n.Name)
					}
					fields = append(fields, p.src(kv.Key)+"="+p.src(kv.Value))
				}
				poolNew[p.dir+"."+n.Name] = fields
			}
		}
	}
	if len(pools) == 0 {
		return nil, nil, fmt.Errorf("reuse: no sync.Pool found in %s/%s", p.dir, file)
	}
	var out []ruPooled
	for _, d := range f.Decls {
		fd, ok := d.(*ast.FuncDecl)
		if !ok || fd.Recv != nil || fd.Body == nil {
			continue
		}
		// find `<inst>[, _] (:=|=) <pool>.Get()...` and the block that holds it
		var inst, pool string
		var holder []ast.Stmt
		var find func(stmts []ast.Stmt)
		find = func(stmts []ast.Stmt) {
			for _, s := range stmts {
				if as, ok := s.(*ast.AssignStmt); ok && len(as.Rhs) == 1 {
					var get *ast.CallExpr
					ast.Inspect(as.Rhs[0], func(n ast.Node) bool {
						if ce, ok := n.(*ast.CallExpr); ok {
							if se, ok := ce.Fun.(*ast.SelectorExpr); ok && se.Sel.Name == "Get" {
								if id, ok := se.X.(*ast.Ident); ok && pools[id.Name] != "" {
									get = ce
									pool = id.Name
								}
							}
						}
						return true
					})
					if get != nil {
						if id, ok := as.Lhs[0].(*ast.Ident); ok {
							inst = id.Name
							holder = stmts
						}
					}
				}
				if is, ok := s.(*ast.IfStmt); ok && inst == "" {
					find(is.Body.List)
					if is.Else != nil && inst == "" {
						if b, ok := is.Else.(*ast.BlockStmt); ok {
							find(b.List)
						}
					}
				}
			}
		}
		find(fd.Body.List)
		if inst == "" {
			continue
		}
		pf := ruPooled{name: p.dir + "." + fd.Name.Name, pool: p.dir + "." + pool}
		ast.Inspect(fd.Body, func(n ast.Node) bool {
			if ds, ok := n.(*ast.DeferStmt); ok {
				if se, ok := ds.Call.Fun.(*ast.SelectorExpr); ok && se.Sel.Name == "Put" {
					if id, ok := se.X.(*ast.Ident); ok && id.Name == pool {
						pf.deferredPut = true
					}
				}
			}
			return true
		})
		// the protocol: ONE Get, ONE Put, the Put deferred right after the Get in the same block, so that it
		// runs exactly once on every path out of the function (return, error return, panic)
		getSeen := false
		deferInHolder := map[*ast.CallExpr]bool{}
		for _, st := range holder {
			if as, ok := st.(*ast.AssignStmt); ok && len(as.Lhs) > 0 {
				if id, ok := as.Lhs[0].(*ast.Ident); ok && id.Name == inst {
					isGet := false
					ast.Inspect(as, func(n ast.Node) bool {
						if ce, ok := n.(*ast.CallExpr); ok {
							if se, ok := ce.Fun.(*ast.SelectorExpr); ok && se.Sel.Name == "Get" {
								isGet = true
							}
						}
						return true
					})
					if isGet {
						getSeen = true
					}
				}
			}
			if ds, ok := st.(*ast.DeferStmt); ok && getSeen {
				if se, ok := ds.Call.Fun.(*ast.SelectorExpr); ok && se.Sel.Name == "Put" && len(ds.Call.Args) == 1 {
					if id, ok := se.X.(*ast.Ident); ok && id.Name == pool {
						if a, ok := ds.Call.Args[0].(*ast.Ident); ok && a.Name == inst {
							deferInHolder[ds.Call] = true
							pf.putsDefer++
						}
					}
				}
			}
		}
		ast.Inspect(fd.Body, func(n ast.Node) bool {
			ce, ok := n.(*ast.CallExpr)
			if !ok {
				return true
			}
			if se, ok := ce.Fun.(*ast.SelectorExpr); ok {
				if id, ok := se.X.(*ast.Ident); ok && pools[id.Name] != "" {
					switch se.Sel.Name {
					case "Get":
						pf.gets++
					case "Put":
						if !deferInHolder[ce] {
							pf.putsOther++
						}
					}
				}
			}
			return true
		})
		if !ruHasBufResult(fd.Type) {
			pf.result = "value"
		} else {
			// returns inside the block that holds the Get are the pooled path; if there are none the
			// returns of the whole function apply
			res, err := ruClassifyReturns(p, fd, holder, inst, pools[pool], 0)
			if err != nil {
				return nil, nil, err
			}
			if res == "" {
				res, err = ruClassifyReturns(p, fd, fd.Body.List, inst, pools[pool], 0)
				if err != nil {
					return nil, nil, err
				}
			}
			if res == "" {
				return nil, nil, fmt.Errorf("reuse: no return found in %s", pf.name)
			}
			pf.result = res
		}
		out = append(out, pf)
	}
	if len(out) == 0 {
		return nil, nil, fmt.Errorf("reuse: no pooled function found in %s/%s", p.dir, file)
	}
	return out, poolNew, nil
}

// ---- struct-info cache ------------------------------------------------------------------------

type ruCache struct {
	pkg             string
	touchers        []string
	lockers         []string
	unlockedRoots   []string
	beforeLock      []string // statements that mention the maps before the Lock call in a locking function
	beforeLockPlain bool     // … and all of them only copy the map variable
	reassigned      []string
	typeStructEmpty string // "yes" | "no" | "absent"
}

func ruMentions(n ast.Node, names ...string) bool {
	found := false
	ast.Inspect(n, func(x ast.Node) bool {
		if id, ok := x.(*ast.Ident); ok {
			for _, nm := range names {
				if id.Name == nm {
					found = true
				}
			}
		}
		return !found
	})
	return found
}

func ruCacheFacts(p *ruPkg) (*ruCache, error) {
	c := &ruCache{pkg: p.dir, beforeLockPlain: true, typeStructEmpty: "absent"}
	touch := map[string]bool{}
	lock := map[string]bool{}
	callers := map[string]map[string]bool{} // callee simple name -> caller keys
	seenVar := false
	for _, f := range p.files {
		for _, d := range f.Decls {
			if gd, ok := d.(*ast.GenDecl); ok && gd.Tok == token.VAR {
				for _, s := range gd.Specs {
					for _, n := range s.(*ast.ValueSpec).Names {
						if n.Name == "structMap" || n.Name == "structEmptyMap" {
							seenVar = true
						}
					}
				}
			}
		}
	}
	if !seenVar {
		return nil, fmt.Errorf("reuse: structMap not declared in package %s", p.dir)
	}
	for key, fd := range p.funcs {
		if fd.Body == nil {
			continue
		}
		if ruMentions(fd.Body, "structMap", "structEmptyMap") {
			touch[key] = true
		}
		var lockPos token.Pos
		ast.Inspect(fd.Body, func(n ast.Node) bool {
			if ce, ok := n.(*ast.CallExpr); ok {
				if se, ok := ce.Fun.(*ast.SelectorExpr); ok {
					if id, ok := se.X.(*ast.Ident); ok && id.Name == "structMut" && se.Sel.Name == "Lock" {
						if lockPos == token.NoPos {
							lockPos = ce.Pos()
						}
					}
				}
				switch f := ce.Fun.(type) {
				case *ast.Ident:
					if callers[f.Name] == nil {
						callers[f.Name] = map[string]bool{}
					}
					callers[f.Name][key] = true
				case *ast.SelectorExpr:
					if callers[f.Sel.Name] == nil {
						callers[f.Sel.Name] = map[string]bool{}
					}
					callers[f.Sel.Name][key] = true
				}
			}
			return true
		})
		if lockPos != token.NoPos {
			lock[key] = true
			for _, s := range fd.Body.List {
				if s.Pos() < lockPos && ruMentions(s, "structMap", "structEmptyMap") {
					// top-level statements before the Lock; look one level into if bodies
					stmts := []ast.Stmt{s}
					if is, ok := s.(*ast.IfStmt); ok {
						stmts = is.Body.List
					}
					for _, st := range stmts {
						if !ruMentions(st, "structMap", "structEmptyMap") {
							continue
						}
						c.beforeLock = append(c.beforeLock, p.src(st))
						as, ok := st.(*ast.AssignStmt)
						plain := ok && len(as.Rhs) == 1
						if plain {
							id, ok := as.Rhs[0].(*ast.Ident)
							plain = ok && (id.Name == "structMap" || id.Name == "structEmptyMap")
						}
						if !plain {
							c.beforeLockPlain = false
						}
					}
				}
			}
		}
		// reassignment of the map variables themselves
		ast.Inspect(fd.Body, func(n ast.Node) bool {
			if as, ok := n.(*ast.AssignStmt); ok {
				for _, l := range as.Lhs {
					if id, ok := l.(*ast.Ident); ok && as.Tok == token.ASSIGN && (id.Name == "structMap" || id.Name == "structEmptyMap") {
						c.reassigned = append(c.reassigned, key)
					}
				}
			}
			return true
		})
	}
	if fd := p.funcs["getTypeStruct"]; fd != nil && fd.Body != nil {
		if ruMentions(fd.Body, "structEmptyMap") {
			c.typeStructEmpty = "yes"
		} else {
			c.typeStructEmpty = "no"
		}
	}
	// every path (callers upward) from a toucher that does not lock must reach a locker
	bad := map[string]bool{}
	for key := range touch {
		if lock[key] {
			continue
		}
		seen := map[string]bool{}
		var up func(k string)
		up = func(k string) {
			if seen[k] {
				return
			}
			seen[k] = true
			if lock[k] {
				return
			}
			simple := k
			if i := strings.LastIndexByte(k, '.'); i >= 0 {
				simple = k[i+1:]
			}
			cs := callers[simple]
			n := 0
			for ck := range cs {
				if ck == k {
					continue
				}
				n++
				up(ck)
			}
			if n == 0 {
				bad[k] = true
			}
		}
		up(key)
	}
	for k := range touch {
		c.touchers = append(c.touchers, k)
	}
	for k := range lock {
		c.lockers = append(c.lockers, k)
	}
	for k := range bad {
		c.unlockedRoots = append(c.unlockedRoots, k)
	}
	sort.Strings(c.touchers)
	sort.Strings(c.lockers)
	sort.Strings(c.unlockedRoots)
	sort.Strings(c.reassigned)
	sort.Strings(c.beforeLock)
	if len(c.touchers) == 0 || len(c.lockers) == 0 {
		return nil, fmt.Errorf("reuse: struct-info cache of package %s not understood (touchers %v, lockers %v)", p.dir, c.touchers, c.lockers)
	}
	return c, nil
}

// ---- main -------------------------------------------------------------------------------------

func extractReuse(repo, out string) ([]string, error) {
	pk := map[string]*ruPkg{}
	for _, dir := range []string{"oj", "gen", "sen", "pretty", "alt", "jp"} {
		p, err := ruLoad(repo, dir)
		if err != nil {
			return nil, err
		}
		pk[dir] = p
	}
	var b strings.Builder
	b.WriteString("/-! generated by tools/extract/reuse.go from the Go source — do not edit. -/\n")
	b.WriteString("namespace OjgVerif.Gen.ReuseFacts\n\n")
	b.WriteString("structure Site where\n  callee : String\n  assigned : List String\n  values : List (String × String)\n  deriving DecidableEq, Repr\n\n")
	b.WriteString("structure Entry where\n  name : String\n  recv : String\n  sites : List Site\n  ever : List String\n  deriving DecidableEq, Repr\n\n")
	b.WriteString("structure Pooled where\n  name : String\n  pool : String\n  deferredPut : Bool\n  result : String\n  gets : Nat\n  putsDefer : Nat\n  putsOther : Nat\n  deriving DecidableEq, Repr\n\n")
	b.WriteString("structure Cache where\n  pkg : String\n  touchers : List String\n  lockers : List String\n  unlockedRoots : List String\n" +
		"  beforeLock : List String\n  beforeLockPlain : Bool\n  reassigned : List String\n  typeStructEmpty : String\n  deriving DecidableEq, Repr\n\n")

	// entries
	b.WriteString("/-- per entry point: each call of the working function with the receiver fields definitely assigned before it;\n`ever` = fields assigned on some path (in order of first assignment) -/\n")
	b.WriteString("def entries : List Entry := [\n")
	recvTypes := map[string]bool{}
	var recvOrder []string
	for i, es := range ruEntries {
		p := pk[es.dir]
		fd := p.funcs[es.recv+"."+es.method]
		if fd == nil || fd.Body == nil {
			return nil, fmt.Errorf("reuse: entry point %s.%s.%s not found", es.pkg, es.recv, es.method)
		}
		d := &ruDA{p: p, recvType: es.recv, targets: map[string]bool{}, ever: ruSet{}, active: map[string]bool{}, vals: map[string]ruSet{}}
		for _, t := range es.targets {
			if p.funcs[es.recv+"."+t] == nil {
				return nil, fmt.Errorf("reuse: working function %s.%s.%s not found", es.pkg, es.recv, t)
			}
			d.targets[t] = true
		}
		d.block(fd.Body.List, ruRecvName(fd), ruSet{}, 0)
		if d.err != nil {
			return nil, d.err
		}
		if len(d.sites) == 0 {
			return nil, fmt.Errorf("reuse: no call of %v found in %s.%s.%s", es.targets, es.pkg, es.recv, es.method)
		}
		var ss []string
		for _, s := range d.sites {
			ss = append(ss, fmt.Sprintf("{ callee := %s, assigned := %s,\n                values := %s }", ruLeanStr(s.callee), ruLeanList(s.assigned), ruLeanPairs(s.values)))
		}
		sep := ","
		if i == len(ruEntries)-1 {
			sep = ""
		}
		fmt.Fprintf(&b, "  { name := %s, recv := %s,\n    sites := [%s],\n    ever := %s }%s\n",
			ruLeanStr(es.pkg+"."+es.recv+"."+es.method), ruLeanStr(es.pkg+"."+es.recv),
			strings.Join(ss, ",\n              "), ruLeanList(d.order), sep)
		if !recvTypes[es.pkg+"."+es.recv] {
			recvTypes[es.pkg+"."+es.recv] = true
			recvOrder = append(recvOrder, es.dir+"\x00"+es.recv)
		}
	}
	b.WriteString("]\n\n")

	// struct fields
	b.WriteString("/-- fields of each receiver type, embedded structs of the same package flattened -/\n")
	b.WriteString("def structFields : List (String × List String) := [\n")
	for i, ro := range recvOrder {
		parts := strings.SplitN(ro, "\x00", 2)
		fs, err := ruStructFields(pk[parts[0]], parts[1], 0)
		if err != nil {
			return nil, err
		}
		sep := ","
		if i == len(recvOrder)-1 {
			sep = ""
		}
		fmt.Fprintf(&b, "  (%s, %s)%s\n", ruLeanStr(parts[0]+"."+parts[1]), ruLeanList(fs), sep)
	}
	b.WriteString("]\n\n")

	// pooled functions
	var pooled []ruPooled
	poolNew := map[string][]string{}
	for _, pf := range []struct{ dir, file string }{{"oj", "oj.go"}, {"sen", "sen.go"}} {
		ps, pn, err := ruPooledFuncs(pk[pf.dir], pf.file)
		if err != nil {
			return nil, err
		}
		pooled = append(pooled, ps...)
		for k, v := range pn {
			poolNew[k] = v
		}
	}
	b.WriteString("/-- package-level functions that work on an instance taken from a sync.Pool -/\n")
	b.WriteString("def pooled : List Pooled := [\n")
	for i, pf := range pooled {
		sep := ","
		if i == len(pooled)-1 {
			sep = ""
		}
		fmt.Fprintf(&b, "  { name := %s, pool := %s, deferredPut := %s, result := %s, gets := %d, putsDefer := %d, putsOther := %d }%s\n",
			ruLeanStr(pf.name), ruLeanStr(pf.pool), ruLeanBool(pf.deferredPut), ruLeanStr(pf.result), pf.gets, pf.putsDefer, pf.putsOther, sep)
	}
	b.WriteString("]\n\n")
	b.WriteString("/-- the composite literal of each pool's New function -/\n")
	b.WriteString("def poolNew : List (String × List String) := [\n")
	var pnKeys []string
	for k := range poolNew {
		pnKeys = append(pnKeys, k)
	}
	sort.Strings(pnKeys)
	for i, k := range pnKeys {
		sep := ","
		if i == len(pnKeys)-1 {
			sep = ""
		}
		fmt.Fprintf(&b, "  (%s, %s)%s\n", ruLeanStr(k), ruLeanList(poolNew[k]), sep)
	}
	b.WriteString("]\n\n")

	// strict assignments in package oj
	type sa struct{ fn, rhs string }
	var sas []sa
	var fkeys []string
	for k := range pk["oj"].funcs {
		fkeys = append(fkeys, k)
	}
	sort.Strings(fkeys)
	for _, k := range fkeys {
		fd := pk["oj"].funcs[k]
		if fd.Body == nil {
			continue
		}
		ast.Inspect(fd.Body, func(n ast.Node) bool {
			if as, ok := n.(*ast.AssignStmt); ok && len(as.Lhs) == len(as.Rhs) {
				for i, l := range as.Lhs {
					if se, ok := l.(*ast.SelectorExpr); ok && se.Sel.Name == "strict" {
						sas = append(sas, sa{k, pk["oj"].src(as.Rhs[i])})
					}
				}
			}
			return true
		})
	}
	b.WriteString("/-- every assignment to a `.strict` field in package oj: (function, right-hand side) -/\n")
	b.WriteString("def strictAssigns : List (String × String) := [")
	for i, s := range sas {
		if i > 0 {
			b.WriteString(", ")
		}
		fmt.Fprintf(&b, "(%s, %s)", ruLeanStr(s.fn), ruLeanStr(s.rhs))
	}
	b.WriteString("]\n\n")

	// caches
	b.WriteString("/-- struct-info caches (structMap / structEmptyMap guarded by structMut) -/\n")
	b.WriteString("def caches : List Cache := [\n")
	for i, dir := range []string{"oj", "sen", "alt"} {
		c, err := ruCacheFacts(pk[dir])
		if err != nil {
			return nil, err
		}
		sep := ","
		if i == 2 {
			sep = ""
		}
		fmt.Fprintf(&b, "  { pkg := %s, touchers := %s, lockers := %s, unlockedRoots := %s,\n    beforeLock := %s, beforeLockPlain := %s, reassigned := %s, typeStructEmpty := %s }%s\n",
			ruLeanStr(c.pkg), ruLeanList(c.touchers), ruLeanList(c.lockers), ruLeanList(c.unlockedRoots),
			ruLeanList(c.beforeLock), ruLeanBool(c.beforeLockPlain), ruLeanList(c.reassigned), ruLeanStr(c.typeStructEmpty), sep)
	}
	b.WriteString("]\n\n")

	// script template writers
	var writers []string
	jp := pk["jp"]
	if jp.types["Script"] == nil {
		return nil, fmt.Errorf("reuse: jp.Script not found")
	}
	hasTemplate := false
	for _, f := range jp.types["Script"].Fields.List {
		for _, n := range f.Names {
			if n.Name == "template" {
				hasTemplate = true
			}
		}
	}
	if !hasTemplate {
		return nil, fmt.Errorf("reuse: jp.Script has no field `template`")
	}
	var jkeys []string
	for k := range jp.funcs {
		jkeys = append(jkeys, k)
	}
	sort.Strings(jkeys)
	isTemplate := func(x ast.Expr) bool {
		for {
			switch t := x.(type) {
			case *ast.IndexExpr:
				x = t.X
				continue
			case *ast.SliceExpr:
				x = t.X
				continue
			case *ast.ParenExpr:
				x = t.X
				continue
			case *ast.SelectorExpr:
				return t.Sel.Name == "template"
			}
			return false
		}
	}
	for _, k := range jkeys {
		fd := jp.funcs[k]
		if fd.Body == nil {
			continue
		}
		w := false
		ast.Inspect(fd.Body, func(n ast.Node) bool {
			switch t := n.(type) {
			case *ast.AssignStmt:
				for _, l := range t.Lhs {
					if isTemplate(l) {
						w = true
					}
				}
			case *ast.IncDecStmt:
				if isTemplate(t.X) {
					w = true
				}
			case *ast.CallExpr:
				if id, ok := t.Fun.(*ast.Ident); ok && id.Name == "copy" && len(t.Args) == 2 && isTemplate(t.Args[0]) {
					w = true
				}
			}
			return true
		})
		if w {
			writers = append(writers, "jp."+k)
		}
	}
	b.WriteString("/-- functions of package jp that assign to a `.template` field (or an element of it) after construction -/\n")
	fmt.Fprintf(&b, "def scriptTemplateWriters : List String := %s\n\n", ruLeanList(writers))
	// the recomposer's registry: which container kinds the field walk of registerComposer follows,
	// who writes the registry, and who registers on the fly
	alt := pk["alt"]
	rc := alt.funcs["Recomposer.registerComposer"]
	if rc == nil || rc.Body == nil {
		return nil, fmt.Errorf("reuse: alt.(*Recomposer).registerComposer not found")
	}
	var walkKinds []string
	foundWalk, walkLoops := false, false
	hasElem := func(n ast.Node) bool {
		found := false
		ast.Inspect(n, func(m ast.Node) bool {
			if ce, ok := m.(*ast.CallExpr); ok {
				if se, ok := ce.Fun.(*ast.SelectorExpr); ok && se.Sel.Name == "Elem" {
					found = true
				}
			}
			return !found
		})
		return found
	}
	reflectKinds := func(n ast.Node) []string {
		var ks []string
		ast.Inspect(n, func(m ast.Node) bool {
			if se, ok := m.(*ast.SelectorExpr); ok {
				if id, ok := se.X.(*ast.Ident); ok && id.Name == "reflect" {
					ks = append(ks, se.Sel.Name)
				}
			}
			return true
		})
		return ks
	}
	// The walk is, inside the loop over the fields, either
	//   switch ft.Kind() { case reflect.A, …: ft = ft.Elem() }         (one step, or repeated when it
	//   sits in a further for statement), or
	//   for ft.Kind() == reflect.A || … { ft = ft.Elem() }              (repeated).
	// depth counts the enclosing for/range statements.
	var visit func(n ast.Node, depth int)
	visit = func(n ast.Node, depth int) {
		if n == nil || foundWalk {
			return
		}
		switch t := n.(type) {
		case *ast.SwitchStmt:
			if t.Tag != nil && strings.HasSuffix(alt.src(t.Tag), ".Kind()") && depth >= 1 {
				var ks []string
				for _, c := range t.Body.List {
					cc := c.(*ast.CaseClause)
					takes := false
					for _, st := range cc.Body {
						if hasElem(st) {
							takes = true
						}
					}
					if takes {
						for _, l := range cc.List {
							ks = append(ks, reflectKinds(l)...)
						}
					}
				}
				if len(ks) > 0 {
					foundWalk, walkKinds, walkLoops = true, ks, depth >= 2
					return
				}
			}
		case *ast.ForStmt:
			if t.Cond != nil && strings.Contains(alt.src(t.Cond), ".Kind()") && depth >= 1 && hasElem(t.Body) {
				if ks := reflectKinds(t.Cond); len(ks) > 0 {
					foundWalk, walkKinds, walkLoops = true, ks, true
					return
				}
			}
			for _, st := range t.Body.List {
				visit(st, depth+1)
			}
			return
		case *ast.RangeStmt:
			for _, st := range t.Body.List {
				visit(st, depth+1)
			}
			return
		}
		// other statements: descend into their blocks at the same depth
		switch t := n.(type) {
		case *ast.BlockStmt:
			for _, st := range t.List {
				visit(st, depth)
			}
		case *ast.IfStmt:
			visit(t.Body, depth)
			visit(t.Else, depth)
		case *ast.LabeledStmt:
			visit(t.Stmt, depth)
		case *ast.SwitchStmt:
			for _, c := range t.Body.List {
				for _, st := range c.(*ast.CaseClause).Body {
					visit(st, depth)
				}
			}
		}
	}
	visit(rc.Body, 0)
	if !foundWalk {
		return nil, fmt.Errorf("reuse: the field walk (switch or loop on the field kind taking Elem()) of alt.(*Recomposer).registerComposer not found")
	}
	var regWriters, lazyCallers []string
	var akeys []string
	for k := range alt.funcs {
		akeys = append(akeys, k)
	}
	sort.Strings(akeys)
	for _, k := range akeys {
		fd := alt.funcs[k]
		if fd.Body == nil {
			continue
		}
		writes, callsReg := false, false
		ast.Inspect(fd.Body, func(n ast.Node) bool {
			switch t := n.(type) {
			case *ast.AssignStmt:
				for _, l := range t.Lhs {
					if ix, ok := l.(*ast.IndexExpr); ok {
						if se, ok := ix.X.(*ast.SelectorExpr); ok && se.Sel.Name == "composers" {
							writes = true
						}
					}
				}
			case *ast.CallExpr:
				if se, ok := t.Fun.(*ast.SelectorExpr); ok && (se.Sel.Name == "registerComposer" || se.Sel.Name == "registerAnyComposer") {
					callsReg = true
				}
				if id, ok := t.Fun.(*ast.Ident); ok && id.Name == "delete" && len(t.Args) == 2 {
					if se, ok := t.Args[0].(*ast.SelectorExpr); ok && se.Sel.Name == "composers" {
						writes = true
					}
				}
			}
			return true
		})
		if writes {
			regWriters = append(regWriters, "alt."+k)
		}
		name := fd.Name.Name
		if callsReg && !strings.HasPrefix(name, "Register") && !strings.HasPrefix(name, "register") &&
			!strings.HasPrefix(name, "New") && !strings.HasPrefix(name, "MustNew") {
			lazyCallers = append(lazyCallers, "alt."+k)
		}
	}
	b.WriteString("/-- reflect kinds named in the `switch ft.Kind()` of the field walk of alt.(*Recomposer).registerComposer -/\n")
	fmt.Fprintf(&b, "def recomposerWalkKinds : List String := %s\n\n", ruLeanList(walkKinds))
	b.WriteString("/-- the walk repeats the step until the type is no container (containers of containers are followed) -/\n")
	fmt.Fprintf(&b, "def recomposerWalkLoops : Bool := %s\n\n", ruLeanBool(walkLoops))
	b.WriteString("/-- functions of package alt that write `.composers[…]` -/\n")
	fmt.Fprintf(&b, "def recomposerWriters : List String := %s\n\n", ruLeanList(regWriters))
	b.WriteString("/-- callers of registerComposer/registerAnyComposer that are neither constructors nor Register* methods:\nregistration on the fly while a value is recomposed -/\n")
	fmt.Fprintf(&b, "def recomposerLazyCallers : List String := %s\n\n", ruLeanList(lazyCallers))
	b.WriteString("end OjgVerif.Gen.ReuseFacts\n")

	ch, err := writeIfChanged(filepath.Join(out, "ReuseFacts.lean"), b.String())
	if err != nil {
		return nil, err
	}
	if ch {
		return []string{"ReuseFacts"}, nil
	}
	return nil, nil
}
