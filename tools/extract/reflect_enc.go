// Extra extraction for the encoder half of the reflect family (C15): the plan-cache protocol of
// oj/sinfo.go, sen/sinfo.go and alt/sinfo.go, written as Lean data into Gen/ReflectEnc.lean.
//
// getTypeStruct (oj, sen), getSinfo and buildStruct (oj, sen, alt) are run symbolically, once with
// the parameter omitEmpty = false and once with omitEmpty = true. The result is the trace of cache
// events in execution order:
//
//	"lookup:<map>"          `if st = M[x]; st != nil { return }` (M resolved through `sm := …`)
//	"store:<map>"           `M[x] = st`
//	"build:<emb>:<omit>"    `return buildStruct(rt, x, <emb>, <omit>)` (alt: no embedded flag, "-")
//	"return"                a bare return at the end
//
// so that the cache selection (which map is consulted, in which order, under which flag; which map
// a new plan is stored into) is a generated fact. It fails loudly on statements it cannot read.
package main

import (
	"fmt"
	"go/ast"
	"go/token"
	"path/filepath"
	"strings"
)

func init() { registerExtra(extractReflectEnc) }

type encCacheEval struct {
	fset  *token.FileSet
	where string
	omit  bool
	vars  map[string]string
	trace []string
	done  bool
}

func encIsCacheMap(name string) bool { return name == "structMap" || name == "structEmptyMap" }

func (ev *encCacheEval) mapOf(x ast.Expr) (string, bool) {
	id, ok := x.(*ast.Ident)
	if !ok {
		return "", false
	}
	if encIsCacheMap(id.Name) {
		return id.Name, true
	}
	m, ok := ev.vars[id.Name]
	return m, ok
}

func encMentionsCache(n ast.Node, vars map[string]string) bool {
	found := false
	ast.Inspect(n, func(x ast.Node) bool {
		if id, ok := x.(*ast.Ident); ok {
			if _, isVar := vars[id.Name]; isVar || encIsCacheMap(id.Name) {
				found = true
			}
		}
		return !found
	})
	return found
}

func (ev *encCacheEval) errf(n ast.Node, format string, a ...any) error {
	return fmt.Errorf("reflect_enc extractor: %s (%s): %s", ev.where, ev.fset.Position(n.Pos()), fmt.Sprintf(format, a...))
}

// cond evaluates `omitEmpty` / `!omitEmpty`.
func (ev *encCacheEval) cond(x ast.Expr) (bool, bool) {
	switch t := x.(type) {
	case *ast.Ident:
		if t.Name == "omitEmpty" {
			return ev.omit, true
		}
	case *ast.UnaryExpr:
		if t.Op == token.NOT {
			if v, ok := ev.cond(t.X); ok {
				return !v, true
			}
		}
	case *ast.ParenExpr:
		return ev.cond(t.X)
	}
	return false, false
}

func (ev *encCacheEval) block(list []ast.Stmt) error {
	for _, s := range list {
		if ev.done {
			return nil
		}
		if err := ev.stmt(s); err != nil {
			return err
		}
	}
	return nil
}

func (ev *encCacheEval) stmt(s ast.Stmt) error {
	switch t := s.(type) {
	case *ast.AssignStmt:
		if len(t.Lhs) == 1 && len(t.Rhs) == 1 {
			// M[x] = st
			if ix, ok := t.Lhs[0].(*ast.IndexExpr); ok {
				if m, ok := ev.mapOf(ix.X); ok {
					ev.trace = append(ev.trace, "store:"+m)
					return nil
				}
			}
			// sm := structMap / sm = structEmptyMap
			if id, ok := t.Lhs[0].(*ast.Ident); ok {
				if m, ok := ev.mapOf(t.Rhs[0]); ok {
					ev.vars[id.Name] = m
					return nil
				}
			}
		}
		if encMentionsCache(t, ev.vars) {
			return ev.errf(t, "assignment touches a plan cache in a way the extractor cannot read")
		}
		return nil
	case *ast.IfStmt:
		if t.Init != nil {
			// if st = M[x]; st != nil { return }
			as, ok := t.Init.(*ast.AssignStmt)
			if !ok || len(as.Lhs) != 1 || len(as.Rhs) != 1 {
				return ev.errf(t, "unexpected if initialiser")
			}
			ix, ok := as.Rhs[0].(*ast.IndexExpr)
			if !ok {
				return ev.errf(t, "if initialiser is not a map lookup")
			}
			m, ok := ev.mapOf(ix.X)
			if !ok {
				return ev.errf(t, "lookup in something that is not a plan cache")
			}
			be, ok := t.Cond.(*ast.BinaryExpr)
			lhs, _ := as.Lhs[0].(*ast.Ident)
			cl, _ := be.X.(*ast.Ident)
			cr, _ := be.Y.(*ast.Ident)
			if !ok || be.Op != token.NEQ || lhs == nil || cl == nil || cr == nil || cl.Name != lhs.Name || cr.Name != "nil" {
				return ev.errf(t, "lookup is not followed by `!= nil`")
			}
			if t.Else != nil || len(t.Body.List) != 1 {
				return ev.errf(t, "the hit branch is not a plain return")
			}
			if r, ok := t.Body.List[0].(*ast.ReturnStmt); !ok || len(r.Results) != 0 {
				return ev.errf(t, "the hit branch is not a plain return")
			}
			ev.trace = append(ev.trace, "lookup:"+m)
			return nil
		}
		v, ok := ev.cond(t.Cond)
		if !ok {
			if encMentionsCache(t, ev.vars) {
				return ev.errf(t, "a condition other than omitEmpty guards a plan cache access")
			}
			return nil
		}
		if v {
			return ev.block(t.Body.List)
		}
		switch e := t.Else.(type) {
		case nil:
			return nil
		case *ast.BlockStmt:
			return ev.block(e.List)
		case *ast.IfStmt:
			return ev.stmt(e)
		}
		return ev.errf(t, "unexpected else")
	case *ast.ReturnStmt:
		ev.done = true
		if len(t.Results) == 0 {
			ev.trace = append(ev.trace, "return")
			return nil
		}
		if len(t.Results) == 1 {
			if ce, ok := t.Results[0].(*ast.CallExpr); ok {
				if id, ok := ce.Fun.(*ast.Ident); ok && id.Name == "buildStruct" {
					switch len(ce.Args) {
					case 4:
						ev.trace = append(ev.trace, "build:"+rflExprText(ev.fset, ce.Args[2])+":"+rflExprText(ev.fset, ce.Args[3]))
						return nil
					case 3:
						ev.trace = append(ev.trace, "build:-:"+rflExprText(ev.fset, ce.Args[2]))
						return nil
					}
				}
			}
		}
		return ev.errf(t, "unexpected return")
	case *ast.ExprStmt, *ast.DeferStmt, *ast.ForStmt, *ast.DeclStmt:
		if !encMentionsCache(t, ev.vars) {
			return nil
		}
		return ev.errf(t, "statement touches a plan cache in a way the extractor cannot read")
	}
	return ev.errf(s, "unexpected statement %T", s)
}

func extractReflectEnc(repo, out string) ([]string, error) {
	var b strings.Builder
	b.WriteString("/- GENERATED by /verif/tools/extract (reflect_enc.go) from oj/sinfo.go, sen/sinfo.go, alt/sinfo.go — do not edit; rewritten on every run. -/\n")
	b.WriteString("namespace OjgVerif.Gen.ReflectEnc\n\n")
	for _, pkg := range []string{"oj", "sen", "alt"} {
		fset, f, err := rflParse(repo, pkg, "sinfo.go")
		if err != nil {
			return nil, err
		}
		fns := []string{"getTypeStruct", "getSinfo", "buildStruct"}
		if pkg == "alt" {
			fns = fns[1:]
		}
		for _, fn := range fns {
			fd := rflFuncDecl(f, "", fn)
			if fd == nil || fd.Body == nil {
				return nil, fmt.Errorf("reflect_enc extractor: %s/sinfo.go: func %s not found", pkg, fn)
			}
			hasOmit := false
			for _, p := range fd.Type.Params.List {
				for _, n := range p.Names {
					if n.Name == "omitEmpty" {
						hasOmit = true
					}
				}
			}
			if !hasOmit {
				return nil, fmt.Errorf("reflect_enc extractor: %s.%s has no parameter omitEmpty", pkg, fn)
			}
			for _, omit := range []bool{false, true} {
				ev := &encCacheEval{fset: fset, where: pkg + "." + fn, omit: omit, vars: map[string]string{}}
				if err := ev.block(fd.Body.List); err != nil {
					return nil, err
				}
				suffix := "Off"
				if omit {
					suffix = "On"
				}
				fmt.Fprintf(&b, "/-- %s/sinfo.go %s with omitEmpty = %v: the plan-cache events in execution order -/\ndef %s%s%s : List String := %s\n\n",
					pkg, fn, omit, pkg, strings.ToUpper(fn[:1])+fn[1:], suffix, rflLeanList(ev.trace))
			}
		}
	}
	if err := encOmitTests(repo, &b); err != nil {
		return nil, err
	}
	b.WriteString("end OjgVerif.Gen.ReflectEnc\n")
	ch, err := writeIfChanged(filepath.Join(out, "ReflectEnc.lean"), b.String())
	if err != nil {
		return nil, err
	}
	if ch {
		return []string{"ReflectEnc"}, nil
	}
	return nil, nil
}

// ---- the omit tests of the writers ---------------------------------------------------------------

// encSkipCond: the body starts with `if COND { continue }` — COND, else "-".
func encSkipCond(fset *token.FileSet, body []ast.Stmt) string {
	if len(body) == 0 {
		return "-"
	}
	is, ok := body[0].(*ast.IfStmt)
	if !ok || is.Init != nil || is.Else != nil || len(is.Body.List) != 1 {
		return "-"
	}
	switch t := is.Body.List[0].(type) {
	case *ast.BranchStmt:
		if t.Tok != token.CONTINUE {
			return "-"
		}
	case *ast.ReturnStmt:
		if len(t.Results) != 0 {
			return "-"
		}
	default:
		return "-"
	}
	return rflExprText(fset, is.Cond)
}

func encCaseNames(fset *token.FileSet, cc *ast.CaseClause) string {
	if cc.List == nil {
		return "default"
	}
	var xs []string
	for _, e := range cc.List {
		xs = append(xs, rflExprText(fset, e))
	}
	return strings.Join(xs, ", ")
}

// encSwitchOn finds the first (type) switch in fd whose tag text is `tag` ("" for a type switch on
// `x.(type)` with x = typeOf).
func encSwitchCases(fset *token.FileSet, fd *ast.FuncDecl, tag, typeOf string) []*ast.CaseClause {
	var out []*ast.CaseClause
	ast.Inspect(fd.Body, func(n ast.Node) bool {
		if out != nil {
			return false
		}
		var body *ast.BlockStmt
		switch t := n.(type) {
		case *ast.SwitchStmt:
			if tag != "" && t.Tag != nil && rflExprText(fset, t.Tag) == tag {
				body = t.Body
			}
		case *ast.TypeSwitchStmt:
			if typeOf != "" && strings.Contains(rflExprText(fset, t.Assign), typeOf+".(type)") {
				body = t.Body
			}
		}
		if body != nil {
			for _, s := range body.List {
				if cc, ok := s.(*ast.CaseClause); ok {
					out = append(out, cc)
				}
			}
			return false
		}
		return true
	})
	return out
}

func encLeanPairs(ps [][2]string) string {
	var xs []string
	for _, p := range ps {
		xs = append(xs, fmt.Sprintf("(%q, %q)", p[0], p[1]))
	}
	return "[" + strings.Join(xs, ", ") + "]"
}

// encOmitTests writes, for oj and sen: the kind switch of appendMap / tightMap (case -> the test that
// skips the member), the nil-pointer test before it, the type switches of the four object writers,
// and the tests under which appendStruct / tightStruct take a key back for the kinds Ptr and Interface.
func encOmitTests(repo string, b *strings.Builder) error {
	for _, pkg := range []string{"oj", "sen"} {
		for _, w := range []struct{ file, fn, recv string }{{"writer.go", "appendMap", "Writer"}, {"tight.go", "tightMap", "Writer"}} {
			fset, f, err := rflParse(repo, pkg, w.file)
			if err != nil {
				return err
			}
			fd := rflFuncDecl(f, w.recv, w.fn)
			if fd == nil {
				return fmt.Errorf("reflect_enc extractor: %s/%s: func %s not found", pkg, w.file, w.fn)
			}
			ccs := encSwitchCases(fset, fd, "rm.Kind()", "")
			if len(ccs) == 0 {
				return fmt.Errorf("reflect_enc extractor: %s.%s: no `switch rm.Kind()`", pkg, w.fn)
			}
			var ps [][2]string
			for _, cc := range ccs {
				ps = append(ps, [2]string{encCaseNames(fset, cc), encSkipCond(fset, cc.Body)})
			}
			name := pkg + strings.ToUpper(w.fn[:1]) + w.fn[1:]
			fmt.Fprintf(b, "/-- %s/%s %s: `switch rm.Kind()`: (case, the test under which the member is skipped; \"-\": none) -/\ndef %sKinds : List (String × String) := %s\n\n",
				pkg, w.file, w.fn, name, encLeanPairs(ps))
			// the pointer prelude: `if rm.Kind() == reflect.Ptr { if rm.IsNil() { if wr.OmitNil { continue } } else { rm = rm.Elem() } }`
			var ptr []string
			ast.Inspect(fd.Body, func(n ast.Node) bool {
				is, ok := n.(*ast.IfStmt)
				if !ok || rflExprText(fset, is.Cond) != "rm.Kind() == reflect.Ptr" {
					return true
				}
				ast.Inspect(is.Body, func(m ast.Node) bool {
					if in, ok := m.(*ast.IfStmt); ok {
						txt := rflExprText(fset, in.Cond)
						if len(in.Body.List) == 1 {
							if br, ok := in.Body.List[0].(*ast.BranchStmt); ok && br.Tok == token.CONTINUE {
								txt += " -> continue"
							}
						}
						if in.Else != nil {
							txt += " | else " + rflExprText(fset, in.Else)
						}
						ptr = append(ptr, txt)
					}
					return true
				})
				return false
			})
			fmt.Fprintf(b, "/-- %s/%s %s: the tests inside `if rm.Kind() == reflect.Ptr`, outermost first -/\ndef %sPtr : List String := %s\n\n", pkg, w.file, w.fn, name, rflLeanList(ptr))
		}
		for _, w := range []struct{ file, fn string }{{"writer.go", "appendObject"}, {"writer.go", "appendSortObject"}, {"tight.go", "tightObject"}, {"tight.go", "tightSortObject"}} {
			fset, f, err := rflParse(repo, pkg, w.file)
			if err != nil {
				return err
			}
			fd := rflFuncDecl(f, "", w.fn)
			if fd == nil {
				return fmt.Errorf("reflect_enc extractor: %s/%s: func %s not found", pkg, w.file, w.fn)
			}
			ccs := encSwitchCases(fset, fd, "", "m")
			if len(ccs) == 0 {
				return fmt.Errorf("reflect_enc extractor: %s.%s: no type switch on the member", pkg, w.fn)
			}
			var ps [][2]string
			for _, cc := range ccs {
				ps = append(ps, [2]string{encCaseNames(fset, cc), encSkipCond(fset, cc.Body)})
			}
			fmt.Fprintf(b, "/-- %s/%s %s: the type switch on a member: (case, the test under which it is skipped) -/\ndef %s%sCases : List (String × String) := %s\n\n",
				pkg, w.file, w.fn, pkg, strings.ToUpper(w.fn[:1])+w.fn[1:], encLeanPairs(ps))
		}
		for _, w := range []struct{ file, fn string }{{"writer.go", "appendStruct"}, {"tight.go", "tightStruct"}} {
			fset, f, err := rflParse(repo, pkg, w.file)
			if err != nil {
				return err
			}
			fd := rflFuncDecl(f, "Writer", w.fn)
			if fd == nil {
				return fmt.Errorf("reflect_enc extractor: %s/%s: func %s not found", pkg, w.file, w.fn)
			}
			ccs := encSwitchCases(fset, fd, "kind", "")
			if len(ccs) == 0 {
				return fmt.Errorf("reflect_enc extractor: %s.%s: no `switch kind`", pkg, w.fn)
			}
			var ps [][2]string
			for _, cc := range ccs {
				var conds []string
				for _, st := range cc.Body {
					ast.Inspect(st, func(n ast.Node) bool {
						is, ok := n.(*ast.IfStmt)
						if !ok {
							return true
						}
						// an if whose own body (not a nested if) takes the key back
						for _, bs := range is.Body.List {
							if as, ok := bs.(*ast.AssignStmt); ok && strings.Contains(rflExprText(fset, as), "keyLen()") {
								conds = append(conds, rflExprText(fset, is.Cond))
							}
						}
						return true
					})
				}
				if len(conds) == 0 {
					conds = []string{"-"}
				}
				ps = append(ps, [2]string{encCaseNames(fset, cc), strings.Join(conds, " ; ")})
			}
			fmt.Fprintf(b, "/-- %s/%s %s: `switch kind` after aJustKey: (case, the tests under which the key is taken back) -/\ndef %s%sKinds : List (String × String) := %s\n\n",
				pkg, w.file, w.fn, pkg, strings.ToUpper(w.fn[:1])+w.fn[1:], encLeanPairs(ps))
		}
	}
	// alt: condMapSet, the type switch on the decomposed value
	{
		fset, f, err := rflParse(repo, "alt", "decompose.go")
		if err != nil {
			return err
		}
		fd := rflFuncDecl(f, "", "condMapSet")
		if fd == nil {
			return fmt.Errorf("reflect_enc extractor: alt/decompose.go: func condMapSet not found")
		}
		ccs := encSwitchCases(fset, fd, "", "value")
		if len(ccs) == 0 {
			return fmt.Errorf("reflect_enc extractor: alt.condMapSet: no type switch on the value")
		}
		var ps [][2]string
		for _, cc := range ccs {
			ps = append(ps, [2]string{encCaseNames(fset, cc), encSkipCond(fset, cc.Body)})
		}
		fmt.Fprintf(b, "/-- alt/decompose.go condMapSet: the type switch on the decomposed value: (case, the test under which the member is not stored) -/\ndef altCondMapSetCases : List (String × String) := %s\n\n", encLeanPairs(ps))
	}
	// pretty: every `skip` of a node, per builder function
	{
		fset, f, err := rflParse(repo, "pretty", "build.go")
		if err != nil {
			return err
		}
		var ps [][2]string
		for _, d := range f.Decls {
			fd, ok := d.(*ast.FuncDecl)
			if !ok || fd.Body == nil {
				continue
			}
			ast.Inspect(fd.Body, func(n ast.Node) bool {
				switch t := n.(type) {
				case *ast.KeyValueExpr:
					if id, ok := t.Key.(*ast.Ident); ok && id.Name == "skip" {
						ps = append(ps, [2]string{fd.Name.Name, rflExprText(fset, t.Value)})
					}
				case *ast.AssignStmt:
					if len(t.Lhs) == 1 && len(t.Rhs) == 1 {
						if se, ok := t.Lhs[0].(*ast.SelectorExpr); ok && se.Sel.Name == "skip" {
							ps = append(ps, [2]string{fd.Name.Name, rflExprText(fset, t.Rhs[0])})
						}
					}
				}
				return true
			})
		}
		if len(ps) == 0 {
			return fmt.Errorf("reflect_enc extractor: pretty/build.go: no skip test found")
		}
		fmt.Fprintf(b, "/-- pretty/build.go: every value given to a node's `skip`, per builder function, in source order -/\ndef prettySkips : List (String × String) := %s\n\n", encLeanPairs(ps))
	}
	return nil
}
