// Extra extraction for the JSON writer family (C04), written as Lean data into Gen/PrettyFill.lean:
//
//   - flatCs: the separator `cs` that (*pretty.Writer).fill uses for a flat container
//     (`if flat { cs = []byte{' '} }`), once per container kind (array, map) — both must agree;
//   - deepFlatCs: the separator it falls back to when the indentation no longer fits the `spaces`
//     constant (`if len(spaces) < x { flat = true; cs = []byte{' '} }`; no assignment = empty),
//     again once per container kind, both must agree.
//
// The model (lean/OjgVerif/Writer/Pretty.lean, `layoutOf`) reads these two byte strings, and
// Props/C04.lean proves they are white space, so a changed literal changes the model and, if it is
// not white space, breaks the proof. It fails loudly on source shapes it cannot read.
//
// Gen/WriterDispatch.lean (extractWriterDispatch): the arms of the type switches that route a value
// to the code that writes it — (*pretty.Writer).build in pretty/build.go and (*oj.Writer).appendJSON
// in oj/writer.go (the tight writer of oj/tight.go has no switch of its own: it is reached through
// the same appendJSON by wr.appendArray / wr.appendObject) — each as (case type, the outermost calls
// of the arm in source order), plus uintViaInt64: whether the uint / uint64 arm of build goes
// through buildInt(int64(…)) (the defect fixed in cb0e5e8). Props/C04.lean states which arm every
// leaf kind of the model has to have (C04_dispatch_pretty, C04_dispatch_oj, C04_pretty_uint_tripwire).
package main

import (
	"bytes"
	"fmt"
	"go/ast"
	"go/parser"
	"go/printer"
	"go/token"
	"path/filepath"
	"strconv"
	"strings"
)

func init() { registerExtra(extractPrettyFill); registerExtra(extractWriterDispatch) }

// byteSliceLit reads `[]byte{'x', 32, …}`.
func byteSliceLit(e ast.Expr) ([]byte, bool) {
	cl, ok := e.(*ast.CompositeLit)
	if !ok {
		return nil, false
	}
	at, ok := cl.Type.(*ast.ArrayType)
	if !ok || at.Len != nil {
		return nil, false
	}
	if id, ok := at.Elt.(*ast.Ident); !ok || id.Name != "byte" {
		return nil, false
	}
	out := []byte{}
	for _, el := range cl.Elts {
		bl, ok := el.(*ast.BasicLit)
		if !ok {
			return nil, false
		}
		switch bl.Kind {
		case token.CHAR:
			s, err := strconv.Unquote(bl.Value)
			if err != nil || len(s) != 1 {
				return nil, false
			}
			out = append(out, s[0])
		case token.INT:
			n, err := strconv.ParseUint(bl.Value, 0, 8)
			if err != nil {
				return nil, false
			}
			out = append(out, byte(n))
		default:
			return nil, false
		}
	}
	return out, true
}

// csAssigned returns the bytes assigned to `cs` directly in the block (nil, true if there is no
// such assignment).
func csAssigned(b *ast.BlockStmt) ([]byte, bool) {
	var out []byte
	for _, st := range b.List {
		as, ok := st.(*ast.AssignStmt)
		if !ok || len(as.Lhs) != 1 || len(as.Rhs) != 1 {
			continue
		}
		if id, ok := as.Lhs[0].(*ast.Ident); !ok || id.Name != "cs" {
			continue
		}
		bs, ok := byteSliceLit(as.Rhs[0])
		if !ok {
			return nil, false
		}
		out = bs
	}
	if out == nil {
		out = []byte{}
	}
	return out, true
}

func setsFlatTrue(b *ast.BlockStmt) bool {
	for _, st := range b.List {
		as, ok := st.(*ast.AssignStmt)
		if !ok || len(as.Lhs) != 1 || len(as.Rhs) != 1 {
			continue
		}
		l, ok1 := as.Lhs[0].(*ast.Ident)
		r, ok2 := as.Rhs[0].(*ast.Ident)
		if ok1 && ok2 && l.Name == "flat" && r.Name == "true" {
			return true
		}
	}
	return false
}

func prettyFillBytes(b []byte) string {
	parts := make([]string, len(b))
	for i, c := range b {
		parts[i] = strconv.Itoa(int(c))
	}
	return "#[" + strings.Join(parts, ",") + "]"
}

func extractPrettyFill(repo, out string) ([]string, error) {
	fset := token.NewFileSet()
	f, err := parser.ParseFile(fset, filepath.Join(repo, "pretty", "writer.go"), nil, 0)
	if err != nil {
		return nil, err
	}
	var fill *ast.FuncDecl
	for _, d := range f.Decls {
		if fd, ok := d.(*ast.FuncDecl); ok && fd.Name.Name == "fill" && fd.Recv != nil && fd.Body != nil {
			fill = fd
		}
	}
	if fill == nil {
		return nil, fmt.Errorf("pretty/writer.go: method fill not found")
	}
	var flatCs, deepCs [][]byte
	var bad error
	ast.Inspect(fill.Body, func(n ast.Node) bool {
		is, ok := n.(*ast.IfStmt)
		if !ok || bad != nil {
			return true
		}
		// `if flat { cs = … } else { … }`
		if id, ok := is.Cond.(*ast.Ident); ok && id.Name == "flat" && is.Else != nil {
			bs, ok := csAssigned(is.Body)
			if !ok {
				bad = fmt.Errorf("pretty/writer.go fill: cannot read the cs assigned under `if flat`")
				return false
			}
			flatCs = append(flatCs, bs)
		}
		// `if len(spaces) < x { flat = true … }`
		if be, ok := is.Cond.(*ast.BinaryExpr); ok && be.Op == token.LSS {
			if ce, ok := be.X.(*ast.CallExpr); ok {
				fn, ok1 := ce.Fun.(*ast.Ident)
				if ok1 && fn.Name == "len" && len(ce.Args) == 1 {
					if arg, ok := ce.Args[0].(*ast.Ident); ok && arg.Name == "spaces" {
						if !setsFlatTrue(is.Body) {
							bad = fmt.Errorf("pretty/writer.go fill: `if len(spaces) < x` no longer sets flat = true")
							return false
						}
						bs, ok := csAssigned(is.Body)
						if !ok {
							bad = fmt.Errorf("pretty/writer.go fill: cannot read the cs assigned under `if len(spaces) < x`")
							return false
						}
						deepCs = append(deepCs, bs)
					}
				}
			}
		}
		return true
	})
	if bad != nil {
		return nil, bad
	}
	same := func(name string, xs [][]byte) ([]byte, error) {
		if len(xs) != 2 {
			return nil, fmt.Errorf("pretty/writer.go fill: expected the %s block once for arrays and once for maps, found %d", name, len(xs))
		}
		if string(xs[0]) != string(xs[1]) {
			return nil, fmt.Errorf("pretty/writer.go fill: the %s separator differs between arrays (%v) and maps (%v); the model has one", name, xs[0], xs[1])
		}
		return xs[0], nil
	}
	fc, err := same("`if flat`", flatCs)
	if err != nil {
		return nil, err
	}
	dc, err := same("`if len(spaces) < x`", deepCs)
	if err != nil {
		return nil, err
	}
	var b strings.Builder
	b.WriteString("/- GENERATED by /verif/tools/extract (writer.go) from pretty/writer.go — do not edit; rewritten on every run. -/\n")
	b.WriteString("namespace OjgVerif.Gen.PrettyFill\n\n")
	fmt.Fprintf(&b, "/-- `cs` of a flat container in (*Writer).fill (arrays and maps agree) -/\ndef flatCs : Array UInt8 := %s\n\n", prettyFillBytes(fc))
	fmt.Fprintf(&b, "/-- `cs` when the indentation no longer fits `spaces` and fill falls back to flat (arrays and maps agree) -/\ndef deepFlatCs : Array UInt8 := %s\n\n", prettyFillBytes(dc))
	b.WriteString("end OjgVerif.Gen.PrettyFill\n")
	ch, err := writeIfChanged(filepath.Join(out, "PrettyFill.lean"), b.String())
	if err != nil {
		return nil, err
	}
	if ch {
		return []string{"PrettyFill"}, nil
	}
	return nil, nil
}

// ---- type-switch dispatch facts ----

func wrExprText(fset *token.FileSet, e ast.Node) string {
	var b bytes.Buffer
	_ = printer.Fprint(&b, fset, e)
	return strings.Join(strings.Fields(b.String()), " ")
}

// wrOuterCalls lists the outermost call expressions of the statements, in source order.
func wrOuterCalls(fset *token.FileSet, body []ast.Stmt) []string {
	out := []string{}
	for _, st := range body {
		ast.Inspect(st, func(n ast.Node) bool {
			if ce, ok := n.(*ast.CallExpr); ok {
				out = append(out, wrExprText(fset, ce))
				return false
			}
			return true
		})
	}
	return out
}

type wrDispatchArm struct {
	typ   string
	calls []string
}

// wrTypeSwitchArms reads the one type switch over `data` at the top level of method `name`.
func wrTypeSwitchArms(fset *token.FileSet, file, name string) ([]wrDispatchArm, error) {
	f, err := parser.ParseFile(fset, file, nil, 0)
	if err != nil {
		return nil, err
	}
	var sw *ast.TypeSwitchStmt
	n := 0
	for _, d := range f.Decls {
		fd, ok := d.(*ast.FuncDecl)
		if !ok || fd.Name.Name != name || fd.Recv == nil || fd.Body == nil {
			continue
		}
		for _, st := range fd.Body.List {
			if ts, ok := st.(*ast.TypeSwitchStmt); ok {
				sw = ts
				n++
			}
		}
	}
	if n != 1 {
		return nil, fmt.Errorf("%s: expected one top-level type switch in method %s, found %d", file, name, n)
	}
	as, ok := sw.Assign.(*ast.AssignStmt)
	if !ok || len(as.Rhs) != 1 {
		return nil, fmt.Errorf("%s %s: type switch is not of the form `switch td := data.(type)`", file, name)
	}
	if ta, ok := as.Rhs[0].(*ast.TypeAssertExpr); !ok || wrExprText(fset, ta.X) != "data" {
		return nil, fmt.Errorf("%s %s: type switch is not over `data`", file, name)
	}
	var arms []wrDispatchArm
	seen := map[string]bool{}
	for _, st := range sw.Body.List {
		cc := st.(*ast.CaseClause)
		calls := wrOuterCalls(fset, cc.Body)
		if cc.List == nil {
			arms = append(arms, wrDispatchArm{"default", calls})
			continue
		}
		for _, te := range cc.List {
			t := wrExprText(fset, te)
			if seen[t] {
				return nil, fmt.Errorf("%s %s: type %s has two arms", file, name, t)
			}
			seen[t] = true
			arms = append(arms, wrDispatchArm{t, calls})
		}
	}
	return arms, nil
}

func wrLeanStrList(xs []string) string {
	q := make([]string, len(xs))
	for i, x := range xs {
		q[i] = strconv.Quote(x)
	}
	return "[" + strings.Join(q, ", ") + "]"
}

func wrLeanArms(arms []wrDispatchArm) string {
	var b strings.Builder
	b.WriteString("[\n")
	for i, a := range arms {
		sep := ","
		if i == len(arms)-1 {
			sep = ""
		}
		fmt.Fprintf(&b, "  (%s, %s)%s\n", strconv.Quote(a.typ), wrLeanStrList(a.calls), sep)
	}
	b.WriteString("]")
	return b.String()
}

func extractWriterDispatch(repo, out string) ([]string, error) {
	fset := token.NewFileSet()
	pb, err := wrTypeSwitchArms(fset, filepath.Join(repo, "pretty", "build.go"), "build")
	if err != nil {
		return nil, err
	}
	oa, err := wrTypeSwitchArms(fset, filepath.Join(repo, "oj", "writer.go"), "appendJSON")
	if err != nil {
		return nil, err
	}
	// the leaf builders of pretty/build.go: (method, outermost calls of its body)
	bf, err := parser.ParseFile(fset, filepath.Join(repo, "pretty", "build.go"), nil, 0)
	if err != nil {
		return nil, err
	}
	var builders []wrDispatchArm
	for _, d := range bf.Decls {
		fd, ok := d.(*ast.FuncDecl)
		if !ok || fd.Recv == nil || fd.Body == nil {
			continue
		}
		switch fd.Name.Name {
		case "buildNull", "buildBool", "buildInt", "buildUint", "buildFloat32", "buildFloat64", "buildStringNode":
			builders = append(builders, wrDispatchArm{fd.Name.Name, wrOuterCalls(fset, fd.Body.List)})
		}
	}
	loop, err := wrStringLoop(fset, filepath.Join(repo, "string.go"), "AppendJSONString")
	if err != nil {
		return nil, err
	}
	var omit []wrDispatchArm
	for _, fn := range [][2]string{{"writer.go", "appendObject"}, {"writer.go", "appendSortObject"}, {"tight.go", "tightObject"}, {"tight.go", "tightSortObject"}} {
		arms, err := wrOmitSwitch(fset, filepath.Join(repo, "oj", fn[0]), fn[1])
		if err != nil {
			return nil, err
		}
		omit = append(omit, arms...)
	}
	viaInt64, found := false, 0
	for _, a := range pb {
		if a.typ != "uint" && a.typ != "uint64" {
			continue
		}
		found++
		for _, c := range a.calls {
			if strings.Contains(c, "buildInt(") && strings.Contains(c, "int64(") {
				viaInt64 = true
			}
		}
	}
	if found != 2 {
		return nil, fmt.Errorf("pretty/build.go build: expected an arm for uint and one for uint64, found %d", found)
	}
	var b strings.Builder
	b.WriteString("/- GENERATED by /verif/tools/extract (writer.go) from pretty/build.go and oj/writer.go — do not edit; rewritten on every run. -/\n")
	b.WriteString("namespace OjgVerif.Gen.WriterDispatch\n\n")
	fmt.Fprintf(&b, "/-- arms of `switch td := data.(type)` in (*pretty.Writer).build: (case type, outermost calls of the arm) -/\ndef prettyBuild : List (String × List String) := %s\n\n", wrLeanArms(pb))
	fmt.Fprintf(&b, "/-- arms of `switch td := data.(type)` in (*oj.Writer).appendJSON: (case type, outermost calls of the arm) -/\ndef ojAppendJSON : List (String × List String) := %s\n\n", wrLeanArms(oa))
	fmt.Fprintf(&b, "/-- the leaf builders of pretty/build.go: (method, outermost calls of its body) -/\ndef prettyBuilders : List (String × List String) := %s\n\n", wrLeanArms(builders))
	fmt.Fprintf(&b, "/-- the loop of ojg.AppendJSONString (string.go), statement by statement: (place, simple statements in source order; an `if c` line opens a block, `end` closes it). Places: `pre` (before the loop), `range` (the range clause), `head` (loop body before the switch), one per case of the switch over the jMap class (for '8': one per case of the inner switch over the rune), `post` (after the loop) -/\ndef appendJSONStringLoop : List (String × List String) := %s\n\n", wrLeanArms(loop))
	fmt.Fprintf(&b, "/-- the member filter of the four object writers of oj (appendObject, appendSortObject, tightObject, tightSortObject): the arms of the one `switch tm := m.(type)` of each, as (function/case type, statements of the arm) -/\ndef ojOmitSwitch : List (String × List String) := %s\n\n", wrLeanArms(omit))
	fmt.Fprintf(&b, "/-- the uint or uint64 arm of build converts to int64 and calls buildInt (the defect fixed in cb0e5e8) -/\ndef prettyUintViaInt64 : Bool := %v\n\n", viaInt64)
	b.WriteString("end OjgVerif.Gen.WriterDispatch\n")
	ch, err := writeIfChanged(filepath.Join(out, "WriterDispatch.lean"), b.String())
	if err != nil {
		return nil, err
	}
	if ch {
		return []string{"WriterDispatch"}, nil
	}
	return nil, nil
}

// ---- the loop of AppendJSONString, statement by statement ----

func wrFlatStmts(fset *token.FileSet, list []ast.Stmt) []string {
	out := []string{}
	for _, st := range list {
		switch t := st.(type) {
		case *ast.IfStmt:
			out = append(out, "if "+wrExprText(fset, t.Cond))
			out = append(out, wrFlatStmts(fset, t.Body.List)...)
			if t.Else != nil {
				out = append(out, "else")
				if eb, ok := t.Else.(*ast.BlockStmt); ok {
					out = append(out, wrFlatStmts(fset, eb.List)...)
				} else {
					out = append(out, wrFlatStmts(fset, []ast.Stmt{t.Else})...)
				}
			}
			out = append(out, "end")
		case *ast.SwitchStmt, *ast.TypeSwitchStmt, *ast.ForStmt, *ast.RangeStmt, *ast.BlockStmt:
			out = append(out, "<nested "+fmt.Sprintf("%T", st)+">")
		default:
			out = append(out, wrExprText(fset, st))
		}
	}
	return out
}

func wrCaseLabel(fset *token.FileSet, cc *ast.CaseClause) string {
	if cc.List == nil {
		return "default"
	}
	parts := make([]string, len(cc.List))
	for i, e := range cc.List {
		parts[i] = wrExprText(fset, e)
	}
	return strings.Join(parts, ",")
}

func wrStringLoop(fset *token.FileSet, file, name string) ([]wrDispatchArm, error) {
	f, err := parser.ParseFile(fset, file, nil, 0)
	if err != nil {
		return nil, err
	}
	var fn *ast.FuncDecl
	for _, d := range f.Decls {
		if fd, ok := d.(*ast.FuncDecl); ok && fd.Name.Name == name && fd.Recv == nil && fd.Body != nil {
			fn = fd
		}
	}
	if fn == nil {
		return nil, fmt.Errorf("%s: func %s not found", file, name)
	}
	var out []wrDispatchArm
	var pre, post []ast.Stmt
	var rng *ast.RangeStmt
	for _, st := range fn.Body.List {
		if r, ok := st.(*ast.RangeStmt); ok {
			if rng != nil {
				return nil, fmt.Errorf("%s %s: more than one range loop", file, name)
			}
			rng = r
			continue
		}
		if rng == nil {
			pre = append(pre, st)
		} else {
			post = append(post, st)
		}
	}
	if rng == nil {
		return nil, fmt.Errorf("%s %s: no range loop at the top level", file, name)
	}
	out = append(out, wrDispatchArm{"pre", wrFlatStmts(fset, pre)})
	out = append(out, wrDispatchArm{"range", []string{wrExprText(fset, rng.Key) + ", " + wrExprText(fset, rng.Value) + " := range " + wrExprText(fset, rng.X)}})
	var head []ast.Stmt
	var sw *ast.SwitchStmt
	for _, st := range rng.Body.List {
		if s, ok := st.(*ast.SwitchStmt); ok && sw == nil {
			sw = s
			continue
		}
		if sw != nil {
			return nil, fmt.Errorf("%s %s: statements after the switch of the loop body", file, name)
		}
		head = append(head, st)
	}
	if sw == nil {
		return nil, fmt.Errorf("%s %s: no switch in the loop body", file, name)
	}
	out = append(out, wrDispatchArm{"head", wrFlatStmts(fset, head)})
	out = append(out, wrDispatchArm{"switch", []string{wrExprText(fset, sw.Tag)}})
	for _, st := range sw.Body.List {
		cc := st.(*ast.CaseClause)
		label := wrCaseLabel(fset, cc)
		// an inner switch as the last statement: one place per inner case
		if n := len(cc.Body); n > 0 {
			if in, ok := cc.Body[n-1].(*ast.SwitchStmt); ok {
				out = append(out, wrDispatchArm{label, append(wrFlatStmts(fset, cc.Body[:n-1]), "switch "+wrExprText(fset, in.Tag))})
				for _, ist := range in.Body.List {
					icc := ist.(*ast.CaseClause)
					out = append(out, wrDispatchArm{label + "/" + wrCaseLabel(fset, icc), wrFlatStmts(fset, icc.Body)})
				}
				continue
			}
		}
		out = append(out, wrDispatchArm{label, wrFlatStmts(fset, cc.Body)})
	}
	out = append(out, wrDispatchArm{"post", wrFlatStmts(fset, post)})
	return out, nil
}

// wrOmitSwitch reads the one type switch over `m` (the member value) of an object writer of oj.
func wrOmitSwitch(fset *token.FileSet, file, name string) ([]wrDispatchArm, error) {
	f, err := parser.ParseFile(fset, file, nil, 0)
	if err != nil {
		return nil, err
	}
	var sws []*ast.TypeSwitchStmt
	for _, d := range f.Decls {
		fd, ok := d.(*ast.FuncDecl)
		if !ok || fd.Name.Name != name || fd.Recv != nil || fd.Body == nil {
			continue
		}
		ast.Inspect(fd.Body, func(n ast.Node) bool {
			if ts, ok := n.(*ast.TypeSwitchStmt); ok {
				sws = append(sws, ts)
			}
			return true
		})
	}
	if len(sws) != 1 {
		return nil, fmt.Errorf("%s: expected one type switch in func %s, found %d", file, name, len(sws))
	}
	as, ok := sws[0].Assign.(*ast.AssignStmt)
	if !ok || len(as.Rhs) != 1 {
		return nil, fmt.Errorf("%s %s: type switch is not of the form `switch tm := m.(type)`", file, name)
	}
	if ta, ok := as.Rhs[0].(*ast.TypeAssertExpr); !ok || wrExprText(fset, ta.X) != "m" {
		return nil, fmt.Errorf("%s %s: type switch is not over `m`", file, name)
	}
	var arms []wrDispatchArm
	for _, st := range sws[0].Body.List {
		cc := st.(*ast.CaseClause)
		arms = append(arms, wrDispatchArm{name + "/" + wrCaseLabel(fset, cc), wrFlatStmts(fset, cc.Body)})
	}
	return arms, nil
}
