// Extra extraction for the JSON writer family (C04), written as Lean data into Gen/PrettyFill.lean:
//
//   - flatCs: the separator `cs` that (*pretty.Writer).fill uses for a flat container
//     (`if flat { cs = []byte{' '} }`), once per container kind (array, map) — both must agree;
//   - deepFlatCs: the separator it falls back to when the indentation no longer fits the `spaces`
//     constant (`if len(spaces) < x { flat = true; cs = []byte{' '} }`; no assignment = empty),
//     again once per container kind, both must agree.
//
// The model (lean/OjgVerif/Writer/Pretty.lean, `layoutOf`) reads these two byte strings, and
// Props/C04.lean proves they are white space, so a changed literal changes the model and, if it is
// not white space, breaks the proof. It fails loudly on source shapes it cannot read.
package main

import (
	"fmt"
	"go/ast"
	"go/parser"
	"go/token"
	"path/filepath"
	"strconv"
	"strings"
)

func init() { registerExtra(extractPrettyFill) }

// byteSliceLit reads `[]byte{'x', 32, …}`.
func byteSliceLit(e ast.Expr) ([]byte, bool) {
	cl, ok := e.(*ast.CompositeLit)
	if !ok {
		return nil, false
	}
	at, ok := cl.Type.(*ast.ArrayType)
	if !ok || at.Len != nil {
		return nil, false
	}
	if id, ok := at.Elt.(*ast.Ident); !ok || id.Name != "byte" {
		return nil, false
	}
	out := []byte{}
	for _, el := range cl.Elts {
		bl, ok := el.(*ast.BasicLit)
		if !ok {
			return nil, false
		}
		switch bl.Kind {
		case token.CHAR:
			s, err := strconv.Unquote(bl.Value)
			if err != nil || len(s) != 1 {
				return nil, false
			}
			out = append(out, s[0])
		case token.INT:
			n, err := strconv.ParseUint(bl.Value, 0, 8)
			if err != nil {
				return nil, false
			}
			out = append(out, byte(n))
		default:
			return nil, false
		}
	}
	return out, true
}

// csAssigned returns the bytes assigned to `cs` directly in the block (nil, true if there is no
// such assignment).
func csAssigned(b *ast.BlockStmt) ([]byte, bool) {
	var out []byte
	for _, st := range b.List {
		as, ok := st.(*ast.AssignStmt)
		if !ok || len(as.Lhs) != 1 || len(as.Rhs) != 1 {
			continue
		}
		if id, ok := as.Lhs[0].(*ast.Ident); !ok || id.Name != "cs" {
			continue
		}
		bs, ok := byteSliceLit(as.Rhs[0])
		if !ok {
			return nil, false
		}
		out = bs
	}
	if out == nil {
		out = []byte{}
	}
	return out, true
}

func setsFlatTrue(b *ast.BlockStmt) bool {
	for _, st := range b.List {
		as, ok := st.(*ast.AssignStmt)
		if !ok || len(as.Lhs) != 1 || len(as.Rhs) != 1 {
			continue
		}
		l, ok1 := as.Lhs[0].(*ast.Ident)
		r, ok2 := as.Rhs[0].(*ast.Ident)
		if ok1 && ok2 && l.Name == "flat" && r.Name == "true" {
			return true
		}
	}
	return false
}

func prettyFillBytes(b []byte) string {
	parts := make([]string, len(b))
	for i, c := range b {
		parts[i] = strconv.Itoa(int(c))
	}
	return "#[" + strings.Join(parts, ",") + "]"
}

func extractPrettyFill(repo, out string) ([]string, error) {
	fset := token.NewFileSet()
	f, err := parser.ParseFile(fset, filepath.Join(repo, "pretty", "writer.go"), nil, 0)
	if err != nil {
		return nil, err
	}
	var fill *ast.FuncDecl
	for _, d := range f.Decls {
		if fd, ok := d.(*ast.FuncDecl); ok && fd.Name.Name == "fill" && fd.Recv != nil && fd.Body != nil {
			fill = fd
		}
	}
	if fill == nil {
		return nil, fmt.Errorf("pretty/writer.go: method fill not found")
	}
	var flatCs, deepCs [][]byte
	var bad error
	ast.Inspect(fill.Body, func(n ast.Node) bool {
		is, ok := n.(*ast.IfStmt)
		if !ok || bad != nil {
			return true
		}
		// `if flat { cs = … } else { … }`
		if id, ok := is.Cond.(*ast.Ident); ok && id.Name == "flat" && is.Else != nil {
			bs, ok := csAssigned(is.Body)
			if !ok {
				bad = fmt.Errorf("pretty/writer.go fill: cannot read the cs assigned under `if flat`")
				return false
			}
			flatCs = append(flatCs, bs)
		}
		// `if len(spaces) < x { flat = true … }`
		if be, ok := is.Cond.(*ast.BinaryExpr); ok && be.Op == token.LSS {
			if ce, ok := be.X.(*ast.CallExpr); ok {
				fn, ok1 := ce.Fun.(*ast.Ident)
				if ok1 && fn.Name == "len" && len(ce.Args) == 1 {
					if arg, ok := ce.Args[0].(*ast.Ident); ok && arg.Name == "spaces" {
						if !setsFlatTrue(is.Body) {
							bad = fmt.Errorf("pretty/writer.go fill: `if len(spaces) < x` no longer sets flat = true")
							return false
						}
						bs, ok := csAssigned(is.Body)
						if !ok {
							bad = fmt.Errorf("pretty/writer.go fill: cannot read the cs assigned under `if len(spaces) < x`")
							return false
						}
						deepCs = append(deepCs, bs)
					}
				}
			}
		}
		return true
	})
	if bad != nil {
		return nil, bad
	}
	same := func(name string, xs [][]byte) ([]byte, error) {
		if len(xs) != 2 {
			return nil, fmt.Errorf("pretty/writer.go fill: expected the %s block once for arrays and once for maps, found %d", name, len(xs))
		}
		if string(xs[0]) != string(xs[1]) {
			return nil, fmt.Errorf("pretty/writer.go fill: the %s separator differs between arrays (%v) and maps (%v); the model has one", name, xs[0], xs[1])
		}
		return xs[0], nil
	}
	fc, err := same("`if flat`", flatCs)
	if err != nil {
		return nil, err
	}
	dc, err := same("`if len(spaces) < x`", deepCs)
	if err != nil {
		return nil, err
	}
	var b strings.Builder
	b.WriteString("/- GENERATED by /verif/tools/extract (writer.go) from pretty/writer.go — do not edit; rewritten on every run. -/\n")
	b.WriteString("namespace OjgVerif.Gen.PrettyFill\n\n")
	fmt.Fprintf(&b, "/-- `cs` of a flat container in (*Writer).fill (arrays and maps agree) -/\ndef flatCs : Array UInt8 := %s\n\n", prettyFillBytes(fc))
	fmt.Fprintf(&b, "/-- `cs` when the indentation no longer fits `spaces` and fill falls back to flat (arrays and maps agree) -/\ndef deepFlatCs : Array UInt8 := %s\n\n", prettyFillBytes(dc))
	b.WriteString("end OjgVerif.Gen.PrettyFill\n")
	ch, err := writeIfChanged(filepath.Join(out, "PrettyFill.lean"), b.String())
	if err != nil {
		return nil, err
	}
	if ch {
		return []string{"PrettyFill"}, nil
	}
	return nil, nil
}
