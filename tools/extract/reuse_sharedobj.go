// Shared-object write inventory for C08, written to Gen/SharedObj.lean.
//
// C08 lets callers share already built objects (a parsed jp.Expr / Filter / Script, a Recomposer whose
// types were registered beforehand, a compiled asm.Plan) and use them at the same time on their own
// data. For each such object: the functions reached (call graph by NAME, inside the package) from its
// READ-ONLY entry points, and in those functions every write that goes THROUGH the shared object — through
// the receiver or through a local that may alias memory reachable from it:
//
//	tainted  := the receiver and, in package jp, every parameter of a shared type (rest Expr, *Filter, Frag …)
//	            other than the private location paths pp / path / cp;
//	            a local assigned (:=, =, var, range value, type assertion, type-switch binding) from an
//	            expression rooted at a tainted identifier: v, v[i], v[i:j], v.f, *v, &v.f, v.(T),
//	            append(v, …) — a slice of a shared slice shares its backing array AND its spare capacity;
//	write    := t.f = …, t[i] = …, *t = …, t.f op= …, t.f++, copy(t…, …), clear/delete(t…, …) with t tainted,
//	            and append(t…, …) with t tainted (it writes the backing array when there is capacity) —
//	            except `t = …` for a local t itself and, for a VALUE receiver, `r.f = …` (a copy).
//
// Each write is listed with the conditions of the enclosing if/else/case (source text), so that the Lean
// side can say under which guard it happens. Flow-insensitive and syntactic (no type checker): a write
// through a struct FIELD that was assigned an alias (af.Args = tv[1:]; af.compile()) is not followed —
// that pattern is listed separately for package asm (argsAliases). Fails loudly on unreadable source.
package main

import (
	"fmt"
	"go/ast"
	"go/token"
	"path/filepath"
	"sort"
	"strings"
)

func init() { registerExtra(extractSharedObj) }

type soWrite struct {
	fn, lhs string
	guards  []string
}

// soTaint computes the tainted objects of a function: start ∪ locals that may alias them.
// soHolders: locals that were assigned an alias of shared memory INTO A FIELD (`af.Args = tv[1:]`): a method
// that writes through its receiver, called on such a local, writes shared memory.
func soHolders(body *ast.BlockStmt, t map[*ast.Object]bool) map[*ast.Object]string {
	h := map[*ast.Object]string{}
	var aliases func(x ast.Expr) bool
	aliases = func(x ast.Expr) bool {
		switch e := x.(type) {
		case *ast.Ident:
			return e.Obj != nil && t[e.Obj]
		case *ast.ParenExpr:
			return aliases(e.X)
		case *ast.SelectorExpr:
			return aliases(e.X)
		case *ast.IndexExpr:
			return aliases(e.X)
		case *ast.SliceExpr:
			return aliases(e.X)
		case *ast.StarExpr:
			return aliases(e.X)
		case *ast.TypeAssertExpr:
			return aliases(e.X)
		}
		return false
	}
	ast.Inspect(body, func(n ast.Node) bool {
		as, ok := n.(*ast.AssignStmt)
		if !ok || len(as.Lhs) != len(as.Rhs) {
			return true
		}
		for i, l := range as.Lhs {
			sel, ok := l.(*ast.SelectorExpr)
			if !ok {
				continue
			}
			id, ok := sel.X.(*ast.Ident)
			if !ok || id.Obj == nil || t[id.Obj] {
				continue
			}
			if aliases(as.Rhs[i]) {
				h[id.Obj] = sel.Sel.Name
			}
		}
		return true
	})
	return h
}

func soTaint(body *ast.BlockStmt, start map[*ast.Object]bool) map[*ast.Object]bool {
	t := map[*ast.Object]bool{}
	for o := range start {
		t[o] = true
	}
	var aliases func(x ast.Expr) bool
	aliases = func(x ast.Expr) bool {
		switch e := x.(type) {
		case *ast.Ident:
			return e.Obj != nil && t[e.Obj]
		case *ast.ParenExpr:
			return aliases(e.X)
		case *ast.SelectorExpr:
			return aliases(e.X)
		case *ast.IndexExpr:
			return aliases(e.X)
		case *ast.SliceExpr:
			return aliases(e.X)
		case *ast.StarExpr:
			return aliases(e.X)
		case *ast.TypeAssertExpr:
			return aliases(e.X)
		case *ast.UnaryExpr:
			return e.Op == token.AND && aliases(e.X)
		case *ast.CallExpr:
			if id, ok := e.Fun.(*ast.Ident); ok && id.Name == "append" && len(e.Args) > 0 {
				return aliases(e.Args[0])
			}
		}
		return false
	}
	mark := func(l ast.Expr) bool {
		id, ok := l.(*ast.Ident)
		if !ok || id.Obj == nil || id.Name == "_" || t[id.Obj] {
			return false
		}
		t[id.Obj] = true
		return true
	}
	for changed := true; changed; {
		changed = false
		ast.Inspect(body, func(n ast.Node) bool {
			switch s := n.(type) {
			case *ast.AssignStmt:
				if len(s.Lhs) == len(s.Rhs) {
					for i := range s.Lhs {
						if aliases(s.Rhs[i]) && mark(s.Lhs[i]) {
							changed = true
						}
					}
				} else if len(s.Rhs) == 1 && len(s.Lhs) == 2 && aliases(s.Rhs[0]) { // v, ok := t.(T) / t[k]
					if mark(s.Lhs[0]) {
						changed = true
					}
				}
			case *ast.ValueSpec:
				if len(s.Names) == len(s.Values) {
					for i := range s.Names {
						if aliases(s.Values[i]) && mark(s.Names[i]) {
							changed = true
						}
					}
				}
			case *ast.RangeStmt:
				if aliases(s.X) && s.Value != nil && mark(s.Value) {
					changed = true
				}
			case *ast.TypeSwitchStmt:
				// switch tv := v.(type): the binding is an object per clause (implicit); taint them all
				if as, ok := s.Assign.(*ast.AssignStmt); ok && len(as.Rhs) == 1 && aliases(as.Rhs[0]) {
					if id, ok := as.Lhs[0].(*ast.Ident); ok {
						name := id.Name
						ast.Inspect(s.Body, func(m ast.Node) bool {
							if u, ok := m.(*ast.Ident); ok && u.Name == name && u.Obj != nil && !t[u.Obj] {
								if _, isAssign := u.Obj.Decl.(*ast.AssignStmt); isAssign && u.Obj.Decl == ast.Node(as) {
									t[u.Obj] = true
									changed = true
								}
							}
							return true
						})
					}
				}
			}
			return true
		})
	}
	return t
}

// soWrites lists the writes through tainted identifiers with their guards.
func soWrites(fset *token.FileSet, fnKey string, body *ast.BlockStmt, tainted map[*ast.Object]bool, recv *ast.Object, recvIsValue bool) []soWrite {
	var out []soWrite
	var guards []string
	isT := func(id *ast.Ident) bool { return id != nil && id.Obj != nil && tainted[id.Obj] }
	add := func(text string) {
		out = append(out, soWrite{fn: fnKey, lhs: text, guards: append([]string{}, guards...)})
	}
	lhs := func(x ast.Expr) {
		id, steps := roRootIdent(x)
		if !isT(id) || steps == 0 {
			return
		}
		if recvIsValue && id.Obj == recv && steps == 1 {
			if _, ok := x.(*ast.SelectorExpr); ok {
				return
			}
		}
		add(roSrc(fset, x))
	}
	leaf := func(n ast.Node) {
		ast.Inspect(n, func(m ast.Node) bool {
			switch t := m.(type) {
			case *ast.AssignStmt:
				if t.Tok != token.DEFINE {
					for _, l := range t.Lhs {
						lhs(l)
					}
				}
			case *ast.IncDecStmt:
				lhs(t.X)
			case *ast.CallExpr:
				if id, ok := t.Fun.(*ast.Ident); ok && len(t.Args) > 0 {
					switch id.Name {
					case "copy", "clear", "delete":
						if r, _ := roRootIdent(t.Args[0]); isT(r) {
							add(id.Name + "(" + roSrc(fset, t.Args[0]) + ", …)")
						}
					case "append":
						if r, _ := roRootIdent(t.Args[0]); isT(r) {
							add("append(" + roSrc(fset, t.Args[0]) + ", …)")
						}
					}
				}
			}
			return true
		})
	}
	var stmt func(s ast.Stmt)
	block := func(list []ast.Stmt) {
		for _, s := range list {
			stmt(s)
		}
	}
	with := func(g string, f func()) {
		guards = append(guards, g)
		f()
		guards = guards[:len(guards)-1]
	}
	stmt = func(s ast.Stmt) {
		switch t := s.(type) {
		case nil:
		case *ast.BlockStmt:
			block(t.List)
		case *ast.LabeledStmt:
			stmt(t.Stmt)
		case *ast.IfStmt:
			if t.Init != nil {
				stmt(t.Init)
			}
			leaf(t.Cond)
			c := roSrc(fset, t.Cond)
			with(c, func() { block(t.Body.List) })
			if t.Else != nil {
				with("!("+c+")", func() { stmt(t.Else) })
			}
		case *ast.ForStmt:
			if t.Init != nil {
				stmt(t.Init)
			}
			if t.Post != nil {
				stmt(t.Post)
			}
			block(t.Body.List)
		case *ast.RangeStmt:
			// `for _, f = range …` assigns f: a local
			block(t.Body.List)
		case *ast.SwitchStmt:
			if t.Init != nil {
				stmt(t.Init)
			}
			tag := ""
			if t.Tag != nil {
				tag = roSrc(fset, t.Tag) + " "
			}
			for _, c := range t.Body.List {
				cc := c.(*ast.CaseClause)
				lab := "default"
				if cc.List != nil {
					var parts []string
					for _, e := range cc.List {
						parts = append(parts, roSrc(fset, e))
					}
					lab = "case " + strings.Join(parts, ", ")
				}
				with("switch "+tag+lab, func() { block(cc.Body) })
			}
		case *ast.TypeSwitchStmt:
			for _, c := range t.Body.List {
				cc := c.(*ast.CaseClause)
				lab := "default"
				if cc.List != nil {
					var parts []string
					for _, e := range cc.List {
						parts = append(parts, roSrc(fset, e))
					}
					lab = "case " + strings.Join(parts, ", ")
				}
				with("typeswitch "+lab, func() { block(cc.Body) })
			}
		case *ast.SelectStmt:
			for _, c := range t.Body.List {
				block(c.(*ast.CommClause).Body)
			}
		default:
			leaf(s)
		}
	}
	block(body.List)
	return out
}

type soCall struct {
	caller, callee string
	args           []string
}

// soReach: call graph by name inside one package, from the entry functions.
func soReach(funcs []*roFunc, entry func(*roFunc) bool, skip func(*roFunc) bool) map[*roFunc]bool {
	byName := map[string][]*roFunc{}
	for _, f := range funcs {
		byName[f.decl.Name.Name] = append(byName[f.decl.Name.Name], f)
	}
	reach := map[*roFunc]bool{}
	var work []*roFunc
	for _, f := range funcs {
		if entry(f) && !skip(f) {
			reach[f] = true
			work = append(work, f)
		}
	}
	for len(work) > 0 {
		f := work[len(work)-1]
		work = work[:len(work)-1]
		ast.Inspect(f.decl.Body, func(n ast.Node) bool {
			ce, ok := n.(*ast.CallExpr)
			if !ok {
				return true
			}
			name := ""
			switch t := ce.Fun.(type) {
			case *ast.Ident:
				name = t.Name
			case *ast.SelectorExpr:
				name = t.Sel.Name
			}
			for _, g := range byName[name] {
				if !reach[g] && !skip(g) {
					reach[g] = true
					work = append(work, g)
				}
			}
			return true
		})
	}
	return reach
}

func soLeanList(ws []soWrite) string {
	var b strings.Builder
	b.WriteString("[")
	for i, w := range ws {
		if i > 0 {
			b.WriteString(",\n  ")
		}
		var gs []string
		for _, g := range w.guards {
			gs = append(gs, fmt.Sprintf("%q", g))
		}
		fmt.Fprintf(&b, "(%q, %q, [%s])", w.fn, w.lhs, strings.Join(gs, ", "))
	}
	b.WriteString("]")
	return b.String()
}

func extractSharedObj(repo, out string) ([]string, error) {
	var b strings.Builder
	b.WriteString("/-! generated by tools/extract/reuse_sharedobj.go from the Go source — do not edit. -/\n")
	b.WriteString("namespace OjgVerif.Gen.SharedObj\n\n")

	// ---- package jp: Expr / Filter / Script and the fragment types ------------------------------------
	fset, files, err := roLoad(repo, "jp")
	if err != nil {
		return nil, err
	}
	funcs := roFuncs(files)
	private := map[string]bool{"parser": true, "Equation": true, "Form": true, "MatchHandler": true}
	// the construction API of Expr (x.C("a").N(1) …): `return append(x, frag)`, documented as building a path
	builders := map[string]bool{}
	for pass := 0; pass < 2; pass++ {
		for _, f := range funcs {
			if f.recvType != "Expr" || !ast.IsExported(f.decl.Name.Name) || len(f.decl.Body.List) != 1 {
				continue
			}
			rs, ok := f.decl.Body.List[0].(*ast.ReturnStmt)
			if !ok || len(rs.Results) != 1 {
				continue
			}
			ce, ok := rs.Results[0].(*ast.CallExpr)
			if !ok {
				continue
			}
			if id, ok := ce.Fun.(*ast.Ident); ok && pass == 0 && id.Name == "append" && len(ce.Args) > 0 {
				if a0, ok := ce.Args[0].(*ast.Ident); ok && a0.Name == f.recvName {
					builders[f.decl.Name.Name] = true
				}
			} else if sel, ok := ce.Fun.(*ast.SelectorExpr); ok && pass == 1 && builders[sel.Sel.Name] { // x.A() is x.At()
				if a0, ok := sel.X.(*ast.Ident); ok && a0.Name == f.recvName {
					builders[f.decl.Name.Name] = true
				}
			}
		}
	}
	isEntry := func(f *roFunc) bool {
		return f.recvType != "" && ast.IsExported(f.decl.Name.Name) && !(f.recvType == "Expr" && builders[f.decl.Name.Name])
	}
	skip := func(f *roFunc) bool {
		return private[f.recvType] || (f.recvType == "Expr" && builders[f.decl.Name.Name])
	}
	reach := soReach(funcs, isEntry, skip)
	var jpW []soWrite
	var entries, reached []string
	privatePath := map[string]bool{"pp": true, "path": true, "cp": true}
	nParams, nPrivate := 0, 0
	for _, f := range funcs {
		if isEntry(f) && !skip(f) {
			entries = append(entries, f.key)
		}
		if !reach[f] {
			continue
		}
		reached = append(reached, f.key)
		// tainted to begin with: the receiver, and every parameter of a shared type (the remaining
		// fragments `rest Expr`, a `*Filter`, a `Frag` …) except the location path a Locate / Walk call
		// builds for its own caller (pp, path, cp: private to the call)
		start := map[*ast.Object]bool{}
		var recv *ast.Object
		if f.recvName != "" && f.recvName != "_" {
			recv = f.decl.Recv.List[0].Names[0].Obj
			start[recv] = true
		}
		for _, fld := range f.decl.Type.Params.List {
			ts := roSrc(fset, fld.Type)
			if ts != "Expr" && ts != "*Filter" && ts != "*Script" && ts != "Frag" && ts != "*Proc" && ts != "Union" {
				continue
			}
			for _, n := range fld.Names {
				if n.Obj == nil || n.Name == "_" {
					continue
				}
				if privatePath[n.Name] {
					nPrivate++
					continue
				}
				start[n.Obj] = true
				nParams++
			}
		}
		if len(start) == 0 {
			continue
		}
		t := soTaint(f.decl.Body, start)
		jpW = append(jpW, soWrites(fset, "jp."+f.key, f.decl.Body, t, recv, recv != nil && !f.recvPtr)...)
	}
	if len(reached) < 40 {
		return nil, fmt.Errorf("sharedobj: only %d functions of package jp reached", len(reached))
	}
	for _, must := range []string{"Expr.rootedFilters", "Filter.withRoot", "Expr.Locate", "Expr.Walk", "Expr.Get", "Script.Match"} {
		found := false
		for _, r := range reached {
			if r == must {
				found = true
			}
		}
		if !found {
			return nil, fmt.Errorf("sharedobj: jp.%s is not among the functions reached from the read-only entry points", must)
		}
	}
	var bl []string
	for k := range builders {
		bl = append(bl, k)
	}
	sort.Strings(bl)
	sort.Strings(entries)
	sort.SliceStable(jpW, func(i, j int) bool { return jpW[i].fn+jpW[i].lhs < jpW[j].fn+jpW[j].lhs })
	fmt.Fprintf(&b, "/-- the path-construction methods of jp.Expr (`return append(x, frag)`): not read-only entry points -/\ndef jpBuilders : List String := [")
	for i, k := range bl {
		if i > 0 {
			b.WriteString(", ")
		}
		fmt.Fprintf(&b, "%q", k)
	}
	b.WriteString("]\n\n")
	fmt.Fprintf(&b, "/-- read-only entry points: every other exported method of Expr, Filter, Script and the fragment types -/\ndef jpEntries : Nat := %d\n\n", len(entries))
	has := func(k string) bool {
		for _, e := range entries {
			if e == k {
				return true
			}
		}
		return false
	}
	b.WriteString("/-- entry points the model names are among them -/\ndef jpNamedEntries : List (String × Bool) := [")
	for i, k := range []string{"Expr.Get", "Expr.First", "Expr.FirstFound", "Expr.Has", "Expr.Locate", "Expr.Walk", "Expr.Set", "Expr.Del", "Expr.Remove", "Expr.Modify",
		"Expr.GetNodes", "Expr.FirstNode", "Expr.String", "Script.Match", "Script.Eval", "Filter.String"} {
		if i > 0 {
			b.WriteString(", ")
		}
		fmt.Fprintf(&b, "(%q, %v)", k, has(k))
	}
	b.WriteString("]\n\n")
	b.WriteString("/-- the read-only entry points of Expr, Script and Filter by name (the harness' shared-object inventory runs each of them) -/\ndef jpSharedTypeEntries : List String := [")
	first := true
	for _, k := range entries {
		if strings.HasPrefix(k, "Expr.") || strings.HasPrefix(k, "Script.") || strings.HasPrefix(k, "Filter.") {
			if !first {
				b.WriteString(", ")
			}
			first = false
			fmt.Fprintf(&b, "%q", k)
		}
	}
	b.WriteString("]\n\n")
	fmt.Fprintf(&b, "/-- functions of package jp reached from them (call graph by name) -/\ndef jpReached : Nat := %d\n\n", len(reached))
	fmt.Fprintf(&b, "/-- parameters of a shared type (Expr, *Filter, *Script, Frag, *Proc, Union) in those functions that are followed like the receiver -/\ndef jpSharedParams : Nat := %d\n\n", nParams)
	fmt.Fprintf(&b, "/-- … and those that are NOT, by name: the location path a Locate / Walk call builds for its own caller -/\ndef jpPrivatePathParams : List String := [\"cp\", \"path\", \"pp\"]\ndef jpPrivatePathParamCount : Nat := %d\n\n", nPrivate)
	fmt.Fprintf(&b, "/-- writes through the receiver or a local that may alias it: (function, what is written, enclosing conditions) -/\ndef jpSharedWrites : List (String × String × List String) :=\n  %s\n\n", soLeanList(jpW))

	// ---- package alt: a Recomposer whose types were registered beforehand -------------------------------
	fset, files, err = roLoad(repo, "alt")
	if err != nil {
		return nil, err
	}
	funcs = roFuncs(files)
	isEntry = func(f *roFunc) bool {
		return f.recvType == "Recomposer" && (f.decl.Name.Name == "Recompose" || f.decl.Name.Name == "MustRecompose")
	}
	reach = soReach(funcs, isEntry, func(*roFunc) bool { return false })
	var altW []soWrite
	var calls []soCall
	nReach, nEntry := 0, 0
	for _, f := range funcs {
		if isEntry(f) {
			nEntry++
		}
		if !reach[f] {
			continue
		}
		nReach++
		// calls of the register functions made from the reached functions
		ast.Inspect(f.decl.Body, func(n ast.Node) bool {
			ce, ok := n.(*ast.CallExpr)
			if !ok {
				return true
			}
			if sel, ok := ce.Fun.(*ast.SelectorExpr); ok && strings.HasPrefix(sel.Sel.Name, "register") {
				c := soCall{caller: f.key, callee: sel.Sel.Name}
				for _, a := range ce.Args {
					c.args = append(c.args, roSrc(fset, a))
				}
				calls = append(calls, c)
			}
			return true
		})
		if f.recvType != "Recomposer" || f.recvName == "" || f.recvName == "_" {
			continue
		}
		recv := f.decl.Recv.List[0].Names[0].Obj
		t := soTaint(f.decl.Body, map[*ast.Object]bool{recv: true})
		altW = append(altW, soWrites(fset, "alt."+f.key, f.decl.Body, t, recv, !f.recvPtr)...)
	}
	if nEntry != 2 || nReach < 10 {
		return nil, fmt.Errorf("sharedobj: alt.Recomposer entry points %d (want 2), reached %d", nEntry, nReach)
	}
	foundReg := false
	for _, f := range funcs {
		if f.key == "Recomposer.registerComposer" && reach[f] {
			foundReg = true
		}
	}
	if !foundReg {
		return nil, fmt.Errorf("sharedobj: alt.(*Recomposer).registerComposer is not reached from Recompose (on-the-fly registration moved?)")
	}
	sort.SliceStable(altW, func(i, j int) bool { return altW[i].fn+altW[i].lhs < altW[j].fn+altW[j].lhs })
	sort.SliceStable(calls, func(i, j int) bool { return calls[i].caller+calls[i].callee < calls[j].caller+calls[j].callee })
	fmt.Fprintf(&b, "/-- functions of package alt reached from (*Recomposer).Recompose / MustRecompose -/\ndef recomposerReached : Nat := %d\n\n", nReach)
	fmt.Fprintf(&b, "/-- writes through the *Recomposer receiver or a local that may alias memory reachable from it (a registry entry\n`c := r.composers[full]`), in the methods of Recomposer reached from Recompose -/\ndef recomposerSharedWrites : List (String × String × List String) :=\n  %s\n\n", soLeanList(altW))
	b.WriteString("/-- calls of the register functions from the functions reached from Recompose: (caller, callee, arguments) -/\ndef recomposerRegisterCalls : List (String × String × List String) := [")
	for i, c := range calls {
		if i > 0 {
			b.WriteString(", ")
		}
		var as []string
		for _, a := range c.args {
			as = append(as, fmt.Sprintf("%q", a))
		}
		fmt.Fprintf(&b, "(%q, %q, [%s])", c.caller, c.callee, strings.Join(as, ", "))
	}
	b.WriteString("]\n\n")

	// ---- root package: a shared *ojg.Converter ---------------------------------------------------------
	fset, files, err = roLoad(repo, ".")
	if err != nil {
		return nil, err
	}
	funcs = roFuncs(files)
	isEntry = func(f *roFunc) bool { return f.recvType == "Converter" && ast.IsExported(f.decl.Name.Name) }
	reach = soReach(funcs, isEntry, func(*roFunc) bool { return false })
	var cvW []soWrite
	nCv := 0
	for _, f := range funcs {
		if !reach[f] {
			continue
		}
		nCv++
		if f.recvType != "Converter" || f.recvName == "" || f.recvName == "_" {
			continue
		}
		recv := f.decl.Recv.List[0].Names[0].Obj
		t := soTaint(f.decl.Body, map[*ast.Object]bool{recv: true})
		cvW = append(cvW, soWrites(fset, "ojg."+f.key, f.decl.Body, t, recv, !f.recvPtr)...)
	}
	if nCv < 2 {
		return nil, fmt.Errorf("sharedobj: only %d functions reached from the exported methods of ojg.Converter", nCv)
	}
	fmt.Fprintf(&b, "/-- functions of the root package reached from the exported methods of Converter -/\ndef converterReached : Nat := %d\n\n", nCv)
	fmt.Fprintf(&b, "/-- writes through the *Converter receiver or a local that may alias it (the caller's DATA is converted in place: not the receiver) -/\ndef converterSharedWrites : List (String × String × List String) :=\n  %s\n\n", soLeanList(cvW))

	// ---- package asm: a compiled plan ------------------------------------------------------------------
	fset, files, err = roLoad(repo, "asm")
	if err != nil {
		return nil, err
	}
	funcs = roFuncs(files)
	type al struct{ fn, lhs, rhs string }
	var aliases []al
	var compileCallers []string
	sawExecute := false
	for _, f := range funcs {
		if f.key == "Plan.Execute" {
			sawExecute = true
		}
		calls := false
		ast.Inspect(f.decl.Body, func(n ast.Node) bool {
			switch t := n.(type) {
			case *ast.AssignStmt:
				if len(t.Lhs) == len(t.Rhs) {
					for i, l := range t.Lhs {
						sel, ok := l.(*ast.SelectorExpr)
						if !ok || sel.Sel.Name != "Args" {
							continue
						}
						switch t.Rhs[i].(type) {
						case *ast.SliceExpr, *ast.Ident, *ast.SelectorExpr, *ast.IndexExpr:
							aliases = append(aliases, al{f.key, roSrc(fset, l), roSrc(fset, t.Rhs[i])})
						}
					}
				}
			case *ast.CallExpr:
				if sel, ok := t.Fun.(*ast.SelectorExpr); ok && sel.Sel.Name == "compile" {
					calls = true
				}
			}
			return true
		})
		if calls {
			compileCallers = append(compileCallers, f.key)
		}
	}
	// the evaluation functions: everything assigned to an `Eval:` field, what they reach, and Plan.Execute;
	// shared memory enters them as the plan's arguments (args ...any, arg / value any: the caller's data are
	// root and at). A write through such a parameter (or an alias), and a call of a receiver-writing method
	// on a local that was given an alias of one as a field, are writes into the plan being executed.
	evalNames := map[string]bool{}
	for _, fl := range files {
		ast.Inspect(fl, func(n ast.Node) bool {
			kv, ok := n.(*ast.KeyValueExpr)
			if !ok {
				return true
			}
			if k, ok := kv.Key.(*ast.Ident); ok && k.Name == "Eval" {
				if v, ok := kv.Value.(*ast.Ident); ok {
					evalNames[v.Name] = true
				}
			}
			return true
		})
	}
	if len(evalNames) < 20 {
		return nil, fmt.Errorf("sharedobj: only %d asm functions are assigned to an Eval field", len(evalNames))
	}
	construction := map[string]bool{"NewPlan": true, "Define": true, "NewFn": true, "init": true}
	evReach := soReach(funcs, func(f *roFunc) bool {
		return (f.recvType == "" && evalNames[f.decl.Name.Name]) || f.key == "Plan.Execute"
	},
		func(f *roFunc) bool { return construction[f.decl.Name.Name] || f.key == "Fn.compile" })
	// methods that write through their receiver
	recvWriter := map[string]bool{}
	for _, f := range funcs {
		if f.recvName == "" || f.recvName == "_" {
			continue
		}
		recv := f.decl.Recv.List[0].Names[0].Obj
		if len(soWrites(fset, f.key, f.decl.Body, map[*ast.Object]bool{recv: true}, recv, !f.recvPtr)) > 0 {
			recvWriter[f.decl.Name.Name] = true
		}
	}
	var asmW []soWrite
	nEval := 0
	for _, f := range funcs {
		if !evReach[f] {
			continue
		}
		nEval++
		start := map[*ast.Object]bool{}
		for _, fld := range f.decl.Type.Params.List {
			for _, n := range fld.Names {
				if n.Obj != nil && (n.Name == "args" || n.Name == "arg" || n.Name == "value") {
					start[n.Obj] = true
				}
			}
		}
		if len(start) == 0 {
			continue
		}
		t := soTaint(f.decl.Body, start)
		asmW = append(asmW, soWrites(fset, "asm."+f.key, f.decl.Body, t, nil, false)...)
		holders := soHolders(f.decl.Body, t)
		ast.Inspect(f.decl.Body, func(n ast.Node) bool {
			ce, ok := n.(*ast.CallExpr)
			if !ok {
				return true
			}
			sel, ok := ce.Fun.(*ast.SelectorExpr)
			if !ok || !recvWriter[sel.Sel.Name] {
				return true
			}
			if id, ok := sel.X.(*ast.Ident); ok && id.Obj != nil {
				if fld, has := holders[id.Obj]; has {
					asmW = append(asmW, soWrite{fn: "asm." + f.key, lhs: id.Name + "." + sel.Sel.Name + "() with " + id.Name + "." + fld + " an alias of the plan's list"})
				}
			}
			return true
		})
	}
	sort.SliceStable(asmW, func(i, j int) bool { return asmW[i].fn+asmW[i].lhs < asmW[j].fn+asmW[j].lhs })
	fmt.Fprintf(&b, "/-- asm functions reached from the Eval functions and (*Plan).Execute (construction and compile apart) -/\ndef asmEvalReached : Nat := %d\n\n", nEval)
	fmt.Fprintf(&b, "/-- writes into the plan during evaluation: through the argument parameters (args, arg, value) or an alias, and calls of a\nreceiver-writing method on a local that holds an alias of them in a field -/\ndef asmSharedWrites : List (String × String × List String) :=\n  %s\n\n", soLeanList(asmW))
	if !sawExecute || len(compileCallers) == 0 {
		return nil, fmt.Errorf("sharedobj: asm.(*Plan).Execute / compile() not found")
	}
	sort.Strings(compileCallers)
	sort.Slice(aliases, func(i, j int) bool { return aliases[i].fn+aliases[i].rhs < aliases[j].fn+aliases[j].rhs })
	b.WriteString("/-- functions of package asm that call (*Fn).compile -/\ndef asmCompileCallers : List String := [")
	for i, k := range compileCallers {
		if i > 0 {
			b.WriteString(", ")
		}
		fmt.Fprintf(&b, "%q", k)
	}
	b.WriteString("]\n\n/-- `x.Args = <a slice, not a copy>`: (function, left, right) — the Fn then shares its argument list with whoever owns the right-hand side -/\ndef asmArgsAliases : List (String × String × String) := [")
	for i, a := range aliases {
		if i > 0 {
			b.WriteString(", ")
		}
		fmt.Fprintf(&b, "(%q, %q, %q)", a.fn, a.lhs, a.rhs)
	}
	b.WriteString("]\n\nend OjgVerif.Gen.SharedObj\n")
	ch, err := writeIfChanged(filepath.Join(out, "SharedObj.lean"), b.String())
	if err != nil {
		return nil, err
	}
	if ch {
		return []string{"SharedObj"}, nil
	}
	return nil, nil
}
