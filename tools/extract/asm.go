// Extra extraction for the assembly-plan family (C20), written as Lean data into Gen/AsmFacts.lean:
//
//   - the function registry: every `Define(&Fn{…})` (and `var x = Fn{…}` + `Define(&x)`) of package asm:
//     name, the identifier of its Eval function, whether it has a Compile hook, its Desc text;
//   - which exported functions/methods of package asm run their body under a deferred function literal
//     that calls recover();
//   - the expression the type switch of lt/lte/gt/gte looks at (`args[0]` = the unevaluated argument);
//   - the statements of the default clause of evalArg's type switch (`val = arg`: literals by reference);
//   - the last statement of the `[]any` clause of evalValue (`result = dupLiteral(tv)`: a list value of cond
//     is a copy);
//   - how often lt/lte/gt/gte/equalVals call the exact comparison helpers (cmpNum, cmpIntFloat) and asFloat;
//   - how many comparisons with a zero literal quotient() contains, `i == 0` aside (its float branches
//     have none).
//
// It fails loudly on source shapes it cannot read.
package main

import (
	"bytes"
	"fmt"
	"go/ast"
	"go/parser"
	"go/printer"
	"go/token"
	"os"
	"path/filepath"
	"sort"
	"strconv"
	"strings"
)

func init() { registerExtra(extractAsm) }

type asmFnRow struct {
	name, eval, desc string
	compile          bool
}

func asmLeanStr(s string) string {
	var b strings.Builder
	b.WriteByte('"')
	for _, r := range s {
		switch {
		case r == '\\':
			b.WriteString("\\\\")
		case r == '"':
			b.WriteString("\\\"")
		case r == '\n':
			b.WriteString("\\n")
		case r == '\t':
			b.WriteString("\\t")
		case r >= 0x20 && r < 0x7f:
			b.WriteRune(r)
		default:
			fmt.Fprintf(&b, "\\u{%x}", r)
		}
	}
	b.WriteByte('"')
	return b.String()
}

func asmLeanBytes(s string) string {
	parts := make([]string, 0, len(s))
	for _, c := range []byte(s) {
		parts = append(parts, strconv.Itoa(int(c)))
	}
	return "[" + strings.Join(parts, ", ") + "]"
}

func asmExprText(fset *token.FileSet, n any) string {
	var buf bytes.Buffer
	_ = printer.Fprint(&buf, fset, n)
	return strings.Join(strings.Fields(buf.String()), " ")
}

// asmFnLit reads the fields of a `Fn{…}` composite literal.
func asmFnLit(cl *ast.CompositeLit, where string) (asmFnRow, error) {
	var row asmFnRow
	for _, el := range cl.Elts {
		kv, ok := el.(*ast.KeyValueExpr)
		if !ok {
			return row, fmt.Errorf("asm extractor: %s: Fn literal is not keyed", where)
		}
		key, ok := kv.Key.(*ast.Ident)
		if !ok {
			return row, fmt.Errorf("asm extractor: %s: odd key in Fn literal", where)
		}
		switch key.Name {
		case "Name", "Desc":
			bl, ok := kv.Value.(*ast.BasicLit)
			if !ok || bl.Kind != token.STRING {
				return row, fmt.Errorf("asm extractor: %s: %s is not a string literal", where, key.Name)
			}
			s, err := strconv.Unquote(bl.Value)
			if err != nil {
				return row, fmt.Errorf("asm extractor: %s: %v", where, err)
			}
			if key.Name == "Name" {
				row.name = s
			} else {
				row.desc = s
			}
		case "Eval":
			id, ok := kv.Value.(*ast.Ident)
			if !ok {
				return row, fmt.Errorf("asm extractor: %s: Eval is not an identifier", where)
			}
			row.eval = id.Name
		case "Compile":
			row.compile = true
		}
	}
	if row.name == "" || row.eval == "" {
		return row, fmt.Errorf("asm extractor: %s: Fn literal without Name or Eval", where)
	}
	return row, nil
}

func asmIsFnType(e ast.Expr) bool {
	id, ok := e.(*ast.Ident)
	return ok && id.Name == "Fn"
}

// asmHasRecover: a `defer func() { … recover() … }()` directly in the body.
func asmHasRecover(body *ast.BlockStmt) bool {
	if body == nil {
		return false
	}
	for _, st := range body.List {
		ds, ok := st.(*ast.DeferStmt)
		if !ok {
			continue
		}
		fl, ok := ds.Call.Fun.(*ast.FuncLit)
		if !ok {
			continue
		}
		found := false
		ast.Inspect(fl.Body, func(n ast.Node) bool {
			if ce, ok := n.(*ast.CallExpr); ok {
				if id, ok := ce.Fun.(*ast.Ident); ok && id.Name == "recover" {
					found = true
				}
			}
			return true
		})
		if found {
			return true
		}
	}
	return false
}

func asmIsZeroLit(e ast.Expr) bool {
	bl, ok := e.(*ast.BasicLit)
	if !ok || (bl.Kind != token.INT && bl.Kind != token.FLOAT) {
		return false
	}
	f, err := strconv.ParseFloat(bl.Value, 64)
	return err == nil && f == 0
}

func extractAsm(repo, out string) ([]string, error) {
	dir := filepath.Join(repo, "asm")
	ents, err := os.ReadDir(dir)
	if err != nil {
		return nil, fmt.Errorf("asm extractor: %v", err)
	}
	fset := token.NewFileSet()
	var rows []asmFnRow
	vars := map[string]asmFnRow{}
	var defined []string
	var recovers []string
	funcs := map[string]*ast.FuncDecl{}
	var argWrites [][2]string
	for _, e := range ents {
		if e.IsDir() || !strings.HasSuffix(e.Name(), ".go") || strings.HasSuffix(e.Name(), "_test.go") {
			continue
		}
		f, err := parser.ParseFile(fset, filepath.Join(dir, e.Name()), nil, 0)
		if err != nil {
			return nil, fmt.Errorf("asm extractor: %v", err)
		}
		for _, d := range f.Decls {
			switch td := d.(type) {
			case *ast.GenDecl:
				for _, sp := range td.Specs {
					vs, ok := sp.(*ast.ValueSpec)
					if !ok || len(vs.Names) != 1 || len(vs.Values) != 1 {
						continue
					}
					if cl, ok := vs.Values[0].(*ast.CompositeLit); ok && asmIsFnType(cl.Type) {
						row, err := asmFnLit(cl, e.Name())
						if err != nil {
							return nil, err
						}
						vars[vs.Names[0].Name] = row
					}
				}
			case *ast.FuncDecl:
				name := td.Name.Name
				if td.Recv != nil && len(td.Recv.List) == 1 {
					t := td.Recv.List[0].Type
					if st, ok := t.(*ast.StarExpr); ok {
						t = st.X
					}
					if id, ok := t.(*ast.Ident); ok {
						name = id.Name + "." + name
					}
				} else {
					funcs[name] = td
				}
				exported := true
				for _, part := range strings.Split(name, ".") {
					if !ast.IsExported(part) {
						exported = false
					}
				}
				if exported && asmHasRecover(td.Body) {
					recovers = append(recovers, name)
				}
				// assignments into an argument list: `args[i] = …`, `x.Args[i] = …`, `x.Args = …` (the Eval functions get
				// fn.Args... as args: a write there edits the plan)
				ast.Inspect(td, func(n ast.Node) bool {
					var lhs []ast.Expr
					switch st := n.(type) {
					case *ast.AssignStmt:
						lhs = st.Lhs
					case *ast.IncDecStmt:
						lhs = []ast.Expr{st.X}
					}
					for _, l := range lhs {
						base := l
						if ix, ok := base.(*ast.IndexExpr); ok {
							base = ix.X
						} else if _, isSel := base.(*ast.SelectorExpr); !isSel {
							continue
						}
						hit := false
						switch b := base.(type) {
						case *ast.Ident:
							hit = b.Name == "args"
						case *ast.SelectorExpr:
							hit = b.Sel.Name == "Args"
						}
						if hit {
							argWrites = append(argWrites, [2]string{name, asmExprText(fset, n)})
						}
					}
					return true
				})
				// Define(&Fn{…}) / Define(&x) anywhere in a function body (the init functions)
				var ierr error
				ast.Inspect(td, func(n ast.Node) bool {
					ce, ok := n.(*ast.CallExpr)
					if !ok || len(ce.Args) != 1 {
						return true
					}
					id, ok := ce.Fun.(*ast.Ident)
					if !ok || id.Name != "Define" {
						return true
					}
					ue, ok := ce.Args[0].(*ast.UnaryExpr)
					if !ok || ue.Op != token.AND {
						ierr = fmt.Errorf("asm extractor: %s: Define argument is not &…", e.Name())
						return false
					}
					switch x := ue.X.(type) {
					case *ast.CompositeLit:
						if !asmIsFnType(x.Type) {
							ierr = fmt.Errorf("asm extractor: %s: Define of a non-Fn literal", e.Name())
							return false
						}
						row, err := asmFnLit(x, e.Name())
						if err != nil {
							ierr = err
							return false
						}
						rows = append(rows, row)
					case *ast.Ident:
						defined = append(defined, x.Name)
					default:
						ierr = fmt.Errorf("asm extractor: %s: Define argument has an unknown shape", e.Name())
						return false
					}
					return true
				})
				if ierr != nil {
					return nil, ierr
				}
			}
		}
	}
	for _, v := range defined {
		row, ok := vars[v]
		if !ok {
			return nil, fmt.Errorf("asm extractor: Define(&%s): no such Fn variable", v)
		}
		rows = append(rows, row)
	}
	if len(rows) == 0 {
		return nil, fmt.Errorf("asm extractor: no Define call found in %s", dir)
	}
	sort.Slice(rows, func(i, j int) bool { return rows[i].name < rows[j].name })
	for i := 1; i < len(rows); i++ {
		if rows[i].name == rows[i-1].name {
			return nil, fmt.Errorf("asm extractor: %q defined twice", rows[i].name)
		}
	}
	sort.Strings(recovers)

	// the subject of the type switch of the comparison functions
	var subjects [][2]string
	for _, fn := range []string{"lt", "lte", "gt", "gte"} {
		fd := funcs[fn]
		if fd == nil {
			return nil, fmt.Errorf("asm extractor: function %s not found", fn)
		}
		subj := ""
		ast.Inspect(fd.Body, func(n ast.Node) bool {
			ts, ok := n.(*ast.TypeSwitchStmt)
			if !ok || subj != "" {
				return true
			}
			var x ast.Expr
			switch a := ts.Assign.(type) {
			case *ast.AssignStmt:
				if len(a.Rhs) == 1 {
					x = a.Rhs[0]
				}
			case *ast.ExprStmt:
				x = a.X
			}
			if ta, ok := x.(*ast.TypeAssertExpr); ok {
				subj = asmExprText(fset, ta.X)
			}
			return true
		})
		if subj == "" {
			subj = "none"
		}
		subjects = append(subjects, [2]string{fn, subj})
	}
	// the default clause of evalArg
	evalArgDefault := "none"
	if fd := funcs["evalArg"]; fd != nil {
		ast.Inspect(fd.Body, func(n ast.Node) bool {
			ts, ok := n.(*ast.TypeSwitchStmt)
			if !ok {
				return true
			}
			for _, c := range ts.Body.List {
				cc := c.(*ast.CaseClause)
				if cc.List == nil {
					var parts []string
					for _, st := range cc.Body {
						parts = append(parts, asmExprText(fset, st))
					}
					evalArgDefault = strings.Join(parts, "; ")
				}
			}
			return false
		})
	} else {
		return nil, fmt.Errorf("asm extractor: function evalArg not found")
	}
	// the last statement of the []any clause of evalValue (cond): what a list value that is not a call becomes
	evalValueList := "none"
	if fd := funcs["evalValue"]; fd != nil {
		ast.Inspect(fd.Body, func(n ast.Node) bool {
			ts, ok := n.(*ast.TypeSwitchStmt)
			if !ok {
				return true
			}
			for _, c := range ts.Body.List {
				cc := c.(*ast.CaseClause)
				if len(cc.List) == 1 && asmExprText(fset, cc.List[0]) == "[]any" && len(cc.Body) > 0 {
					last := cc.Body[len(cc.Body)-1]
					if _, isIf := last.(*ast.IfStmt); isIf {
						evalValueList = "nothing" // falls out of the switch: result stays nil
					} else {
						evalValueList = asmExprText(fset, last)
					}
				}
			}
			return false
		})
	} else {
		return nil, fmt.Errorf("asm extractor: function evalValue not found")
	}
	// calls of the exact comparison helpers (cmpNum, cmpIntFloat) at the comparison sites
	var exactCalls [][2]string
	for _, fn := range []string{"lt", "lte", "gt", "gte", "equalVals"} {
		fd := funcs[fn]
		if fd == nil {
			return nil, fmt.Errorf("asm extractor: function %s not found", fn)
		}
		n, viaFloat := 0, 0
		ast.Inspect(fd.Body, func(nd ast.Node) bool {
			if ce, ok := nd.(*ast.CallExpr); ok {
				if id, ok := ce.Fun.(*ast.Ident); ok {
					switch id.Name {
					case "cmpNum", "cmpIntFloat":
						n++
					case "asFloat":
						viaFloat++
					}
				}
			}
			return true
		})
		exactCalls = append(exactCalls, [2]string{fn, fmt.Sprintf("%d exact, %d asFloat", n, viaFloat)})
	}
	// zero tests in quotient
	zeroTests := 0
	if fd := funcs["quotient"]; fd != nil {
		ast.Inspect(fd.Body, func(n ast.Node) bool {
			if be, ok := n.(*ast.BinaryExpr); ok && (be.Op == token.EQL || be.Op == token.NEQ) {
				// `i == 0` asks for the first argument, not for a zero divisor
				if id, ok := be.X.(*ast.Ident); ok && id.Name == "i" {
					return true
				}
				if asmIsZeroLit(be.X) || asmIsZeroLit(be.Y) {
					zeroTests++
				}
			}
			return true
		})
	} else {
		return nil, fmt.Errorf("asm extractor: function quotient not found")
	}

	var b strings.Builder
	b.WriteString("/- GENERATED by /verif/tools/extract (asm.go) from asm/*.go — do not edit; rewritten on every run. -/\n")
	b.WriteString("namespace OjgVerif.Gen.AsmFacts\n\n")
	b.WriteString("/-- every Define call: name, identifier of the Eval function, has a Compile hook, Desc; sorted by name -/\n")
	b.WriteString("def fns : List (List UInt8 × String × Bool × String) := [\n")
	for i, r := range rows {
		sep := ","
		if i == len(rows)-1 {
			sep = ""
		}
		fmt.Fprintf(&b, "  (%s, %s, %v, %s)%s\n", asmLeanBytes(r.name), asmLeanStr(r.eval), r.compile, asmLeanStr(r.desc), sep)
	}
	b.WriteString("]\n\n")
	b.WriteString("/-- exported functions and methods whose body starts a deferred function literal that calls recover() -/\n")
	q := make([]string, len(recovers))
	for i, r := range recovers {
		q[i] = asmLeanStr(r)
	}
	fmt.Fprintf(&b, "def recoverEntryPoints : List String := [%s]\n\n", strings.Join(q, ", "))
	b.WriteString("/-- what the type switch of each comparison function inspects -/\n")
	b.WriteString("def cmpSwitchSubjects : List (String × String) := [")
	for i, s := range subjects {
		if i > 0 {
			b.WriteString(", ")
		}
		fmt.Fprintf(&b, "(%s, %s)", asmLeanStr(s[0]), asmLeanStr(s[1]))
	}
	b.WriteString("]\n\n")
	b.WriteString("/-- the default clause of evalArg's type switch -/\n")
	fmt.Fprintf(&b, "def evalArgDefault : String := %s\n\n", asmLeanStr(evalArgDefault))
	b.WriteString("/-- the last statement of the `[]any` clause of evalValue's type switch (`nothing`: only the if) -/\n")
	fmt.Fprintf(&b, "def evalValueList : String := %s\n\n", asmLeanStr(evalValueList))
	b.WriteString("/-- per comparison function: calls of cmpNum/cmpIntFloat and of asFloat in its body -/\n")
	b.WriteString("def cmpExactCalls : List (String × String) := [")
	for i, e := range exactCalls {
		if i > 0 {
			b.WriteString(", ")
		}
		fmt.Fprintf(&b, "(%s, %s)", asmLeanStr(e[0]), asmLeanStr(e[1]))
	}
	b.WriteString("]\n\n")
	b.WriteString("/-- comparisons with a zero literal inside quotient() -/\n")
	fmt.Fprintf(&b, "def quotientZeroTests : Nat := %d\n\n", zeroTests)
	sort.Slice(argWrites, func(i, j int) bool {
		if argWrites[i][0] != argWrites[j][0] {
			return argWrites[i][0] < argWrites[j][0]
		}
		return argWrites[i][1] < argWrites[j][1]
	})
	b.WriteString("/-- every statement of package asm that assigns into an argument list (`args[i] = …`, `x.Args[i] = …`,\n`x.Args = …`): function, statement -/\n")
	b.WriteString("def argWrites : List (String × String) := [")
	for i, e := range argWrites {
		if i > 0 {
			b.WriteString(", ")
		}
		fmt.Fprintf(&b, "(%s, %s)", asmLeanStr(e[0]), asmLeanStr(e[1]))
	}
	b.WriteString("]\n\n")
	b.WriteString("end OjgVerif.Gen.AsmFacts\n")
	ch, err := writeIfChanged(filepath.Join(out, "AsmFacts.lean"), b.String())
	if err != nil {
		return nil, err
	}
	if ch {
		return []string{"AsmFacts"}, nil
	}
	return nil, nil
}
