// jpmut: extra extraction for the path-mutation family (C13), written to Gen/JpMutFacts.lean.
//
// Facts read off jp/slice.go, jp/set.go, jp/modify.go, jp/union.go as they are now (go/ast, no type
// checker) — one per repaired deviation of C13, so that undoing a repair changes a fact and breaks
// `OjgVerif.C13.current_is_source`:
//
//   - inStepFromStart: the negative-step branch of `inStep` tests `(start-i) % -step == 0`
//   - setEmptySliceGuarded: in Expr.set every `end = start + ((end - start) / step * step)` is directly
//     preceded by `if (0 < step && end < start) || (step < 0 && start < end) { continue }` (and there is one)
//   - setDescentClears / modifyDescentClears: the second pass of `case Descent:` in Expr.set / Expr.modify
//     assigns `di &^ descentFlag` to the marker
//   - unionRemoveFromEnd: Union.remove and Union.removeOne never call hasN, call hasNth, and hasNth adds the
//     size to a negative member
//   - genUnionGuarded: in Expr.set, Union / int64 / gen.Array: the clause consists of the from-the-end
//     normalisation and ONE `if 0 <= i && i < len(tv)` that holds everything else
//   - modifyNodeNullSafe: Expr.modify has no `nv.(gen.Node)` assertion and asNode returns nil for nil
//   - modifyReflectNullSafe: Expr.modify never hands `reflect.ValueOf(nv)` to Set / SetMapIndex
//   - modifyRootPushed: in Expr.modify, Nth / []any, the inner branch pushes `tv[i]` as it is when `fi == 0`
//   - delOneGuarded: in Expr.set every `delete(tv, string(tf))` and `delete(tv, tu)` (a name in last position, Child and
//     Union, map and gen.Object: four) is directly preceded by `if _, has = tv[<key>]; !has { continue }`
//   - filterRootDocument: Expr.modify never calls `tf.Match` and tests the elements of a final filter with
//     `tf.matchRoot(<v>, data)`; Filter.remove/removeOne never call `f.Match` but `f.match`; Filter.match hands
//     `f.root` to matchRoot when rooted; Script.matchRoot passes `root` to evalWithRoot; MustRemove and MustRemoveOne
//     replace a final *Filter by `tf.withRoot(data)` and withRoot sets `root: root, rooted: true`
//
// Fails loudly when a function or clause it looks for is missing.
package main

import (
	"bytes"
	"fmt"
	"go/ast"
	"go/parser"
	"go/printer"
	"go/token"
	"os"
	"path/filepath"
	"strings"
)

func init() { registerExtra(extractJpMut) }

type jmFile struct {
	fset *token.FileSet
	file *ast.File
}

func jmLoad(repo, name string) (*jmFile, error) {
	path := filepath.Join(repo, "jp", name)
	src, err := os.ReadFile(path)
	if err != nil {
		return nil, err
	}
	fset := token.NewFileSet()
	f, err := parser.ParseFile(fset, path, src, 0)
	if err != nil {
		return nil, err
	}
	return &jmFile{fset, f}, nil
}

// text of a node without blanks
func (j *jmFile) txt(n ast.Node) string {
	var b bytes.Buffer
	_ = printer.Fprint(&b, j.fset, n)
	return strings.Join(strings.Fields(b.String()), "")
}

func (j *jmFile) fn(recv, name string) (*ast.FuncDecl, error) {
	for _, d := range j.file.Decls {
		fd, ok := d.(*ast.FuncDecl)
		if !ok || fd.Name.Name != name || fd.Body == nil {
			continue
		}
		if recv == "" && fd.Recv == nil {
			return fd, nil
		}
		if recv != "" && fd.Recv != nil && len(fd.Recv.List) == 1 && strings.TrimPrefix(j.txt(fd.Recv.List[0].Type), "*") == recv {
			return fd, nil
		}
	}
	return nil, fmt.Errorf("jpmut: func (%s) %s not found", recv, name)
}

// the clause of a type switch below `root` whose case list (printed) is `want`, first match in source order
func (j *jmFile) clause(root ast.Node, want string) *ast.CaseClause {
	var found *ast.CaseClause
	ast.Inspect(root, func(n ast.Node) bool {
		if found != nil {
			return false
		}
		cc, ok := n.(*ast.CaseClause)
		if !ok {
			return true
		}
		var parts []string
		for _, e := range cc.List {
			parts = append(parts, j.txt(e))
		}
		if strings.Join(parts, ",") == want {
			found = cc
			return false
		}
		return true
	})
	return found
}

func extractJpMut(repo, out string) ([]string, error) {
	slice, err := jmLoad(repo, "slice.go")
	if err != nil {
		return nil, err
	}
	set, err := jmLoad(repo, "set.go")
	if err != nil {
		return nil, err
	}
	mod, err := jmLoad(repo, "modify.go")
	if err != nil {
		return nil, err
	}
	uni, err := jmLoad(repo, "union.go")
	if err != nil {
		return nil, err
	}
	facts := map[string]bool{}

	// inStep
	fd, err := slice.fn("", "inStep")
	if err != nil {
		return nil, err
	}
	if len(fd.Body.List) == 0 {
		return nil, fmt.Errorf("jpmut: inStep has no statements")
	}
	ret, ok := fd.Body.List[len(fd.Body.List)-1].(*ast.ReturnStmt)
	if !ok || len(ret.Results) != 1 {
		return nil, fmt.Errorf("jpmut: inStep does not end in a return of one value")
	}
	rt := slice.txt(ret.Results[0])
	if !strings.Contains(rt, "%-step==0") {
		return nil, fmt.Errorf("jpmut: the negative-step test of inStep has no `%% -step == 0`: %s", rt)
	}
	facts["inStepFromStart"] = strings.HasSuffix(rt, "&&(start-i)%-step==0")

	// Expr.set
	setFn, err := set.fn("Expr", "set")
	if err != nil {
		return nil, err
	}
	const rounding = "end=start+((end-start)/step*step)"
	const guard = "(0<step&&end<start)||(step<0&&start<end)"
	roundings, guarded := 0, 0
	ast.Inspect(setFn, func(n ast.Node) bool {
		var list []ast.Stmt
		switch t := n.(type) {
		case *ast.BlockStmt:
			list = t.List
		case *ast.CaseClause:
			list = t.Body
		default:
			return true
		}
		for i, st := range list {
			if as, ok := st.(*ast.AssignStmt); ok && set.txt(as) == rounding {
				roundings++
				if i > 0 {
					if is, ok := list[i-1].(*ast.IfStmt); ok && set.txt(is.Cond) == guard && is.Else == nil && len(is.Body.List) == 1 {
						if bs, ok := is.Body.List[0].(*ast.BranchStmt); ok && bs.Tok == token.CONTINUE {
							guarded++
						}
					}
				}
			}
		}
		return true
	})
	if roundings == 0 {
		return nil, fmt.Errorf("jpmut: Expr.set has no `%s`", rounding)
	}
	facts["setEmptySliceGuarded"] = roundings == guarded

	descentClears := func(j *jmFile, fn *ast.FuncDecl) (bool, error) {
		cc := j.clause(fn, "Descent")
		if cc == nil {
			return false, fmt.Errorf("jpmut: no `case Descent:` in %s", fn.Name.Name)
		}
		var outer *ast.IfStmt
		for _, st := range cc.Body {
			if is, ok := st.(*ast.IfStmt); ok && j.txt(is.Cond) == "(di&descentFlag)==0" {
				outer = is
			}
		}
		if outer == nil || outer.Else == nil {
			return false, fmt.Errorf("jpmut: `case Descent:` of %s has no `if (di & descentFlag) == 0 … else`", fn.Name.Name)
		}
		clears := false
		ast.Inspect(outer.Else, func(n ast.Node) bool {
			if as, ok := n.(*ast.AssignStmt); ok && j.txt(as) == "stack[len(stack)-1]=di&^descentFlag" {
				clears = true
			}
			return true
		})
		return clears, nil
	}
	if facts["setDescentClears"], err = descentClears(set, setFn); err != nil {
		return nil, err
	}
	modFn, err := mod.fn("Expr", "modify")
	if err != nil {
		return nil, err
	}
	if facts["modifyDescentClears"], err = descentClears(mod, modFn); err != nil {
		return nil, err
	}

	// Union.remove / removeOne
	hasN, hasNth := 0, 0
	for _, name := range []string{"remove", "removeOne"} {
		fd, err := uni.fn("Union", name)
		if err != nil {
			return nil, err
		}
		ast.Inspect(fd, func(n ast.Node) bool {
			if ce, ok := n.(*ast.CallExpr); ok {
				switch uni.txt(ce.Fun) {
				case "f.hasN":
					hasN++
				case "f.hasNth":
					hasNth++
				}
			}
			return true
		})
	}
	normalises := false
	if fd, err := uni.fn("Union", "hasNth"); err == nil {
		ast.Inspect(fd, func(n ast.Node) bool {
			if is, ok := n.(*ast.IfStmt); ok && uni.txt(is.Cond) == "n<0" && len(is.Body.List) == 1 && uni.txt(is.Body.List[0]) == "n+=size" {
				normalises = true
			}
			return true
		})
	}
	if hasN+hasNth == 0 {
		return nil, fmt.Errorf("jpmut: Union.remove/removeOne call neither hasN nor hasNth")
	}
	facts["unionRemoveFromEnd"] = hasN == 0 && hasNth > 0 && normalises

	// Expr.set, Union / int64 / gen.Array
	ucl := set.clause(setFn, "Union")
	if ucl == nil {
		return nil, fmt.Errorf("jpmut: no `case Union:` in Expr.set")
	}
	icl := set.clause(ucl, "int64")
	if icl == nil {
		return nil, fmt.Errorf("jpmut: no `case int64:` below `case Union:` in Expr.set")
	}
	gcl := set.clause(icl, "gen.Array")
	if gcl == nil {
		return nil, fmt.Errorf("jpmut: no `case gen.Array:` below Union/int64 in Expr.set")
	}
	gg := len(gcl.Body) == 2
	if gg {
		a, ok1 := gcl.Body[0].(*ast.IfStmt)
		b, ok2 := gcl.Body[1].(*ast.IfStmt)
		gg = ok1 && ok2 && set.txt(a.Cond) == "i<0" && set.txt(b.Cond) == "0<=i&&i<len(tv)" && b.Else == nil
	}
	facts["genUnionGuarded"] = gg

	// Expr.modify: null results
	asserts, reflectOfNv := 0, 0
	ast.Inspect(modFn, func(n ast.Node) bool {
		switch t := n.(type) {
		case *ast.TypeAssertExpr:
			if t.Type != nil && mod.txt(t) == "nv.(gen.Node)" {
				asserts++
			}
		case *ast.CallExpr:
			f := mod.txt(t.Fun)
			if (strings.HasSuffix(f, ".Set") || strings.HasSuffix(f, ".SetMapIndex")) && len(t.Args) > 0 &&
				mod.txt(t.Args[len(t.Args)-1]) == "reflect.ValueOf(nv)" {
				reflectOfNv++
			}
		}
		return true
	})
	asNodeOK := false
	if fd, err := mod.fn("", "asNode"); err == nil && len(fd.Body.List) > 0 {
		if is, ok := fd.Body.List[0].(*ast.IfStmt); ok && mod.txt(is.Cond) == "v==nil" && len(is.Body.List) == 1 && mod.txt(is.Body.List[0]) == "returnnil" {
			asNodeOK = true
		}
	}
	facts["modifyNodeNullSafe"] = asserts == 0 && asNodeOK
	facts["modifyReflectNullSafe"] = reflectOfNv == 0

	// Expr.modify, Nth / []any: the wrapped root is pushed as it is
	ncl := mod.clause(modFn, "Nth")
	if ncl == nil {
		return nil, fmt.Errorf("jpmut: no `case Nth:` in Expr.modify")
	}
	acl := mod.clause(ncl, "[]any")
	if acl == nil {
		return nil, fmt.Errorf("jpmut: no `case []any:` below `case Nth:` in Expr.modify")
	}
	rootPushed := false
	ast.Inspect(acl, func(n ast.Node) bool {
		if is, ok := n.(*ast.IfStmt); ok && mod.txt(is.Cond) == "fi==0" && len(is.Body.List) == 1 &&
			mod.txt(is.Body.List[0]) == "stack=append(stack,tv[i])" {
			rootPushed = true
		}
		return true
	})
	facts["modifyRootPushed"] = rootPushed

	// Expr.set: DelOne goes on past an object without the member
	deletes, delGuarded := 0, 0
	ast.Inspect(setFn, func(n ast.Node) bool {
		var list []ast.Stmt
		switch t := n.(type) {
		case *ast.BlockStmt:
			list = t.List
		case *ast.CaseClause:
			list = t.Body
		default:
			return true
		}
		for i, st := range list {
			es, ok := st.(*ast.ExprStmt)
			if !ok {
				continue
			}
			key := ""
			switch set.txt(es.X) {
			case "delete(tv,string(tf))":
				key = "string(tf)"
			case "delete(tv,tu)":
				key = "tu"
			default:
				continue
			}
			deletes++
			if i > 0 {
				if is, ok := list[i-1].(*ast.IfStmt); ok && is.Init != nil && set.txt(is.Init) == "_,has=tv["+key+"]" &&
					set.txt(is.Cond) == "!has" && is.Else == nil && len(is.Body.List) == 1 {
					if bs, ok := is.Body.List[0].(*ast.BranchStmt); ok && bs.Tok == token.CONTINUE && bs.Label == nil {
						delGuarded++
					}
				}
			}
		}
		return true
	})
	if deletes == 0 {
		return nil, fmt.Errorf("jpmut: Expr.set has no `delete(tv, string(tf))` / `delete(tv, tu)`")
	}
	facts["delOneGuarded"] = deletes == 4 && delGuarded == deletes

	// `$` inside a final filter of Modify/Remove is the document
	fil, err := jmLoad(repo, "filter.go")
	if err != nil {
		return nil, err
	}
	rem, err := jmLoad(repo, "remove.go")
	if err != nil {
		return nil, err
	}
	scr, err := jmLoad(repo, "script.go")
	if err != nil {
		return nil, err
	}
	calls := func(j *jmFile, root ast.Node, fun string) (n int, args [][]string) {
		ast.Inspect(root, func(x ast.Node) bool {
			if ce, ok := x.(*ast.CallExpr); ok && j.txt(ce.Fun) == fun {
				n++
				var a []string
				for _, e := range ce.Args {
					a = append(a, j.txt(e))
				}
				args = append(args, a)
			}
			return true
		})
		return
	}
	frd := true
	if n, _ := calls(mod, modFn, "tf.Match"); n != 0 {
		frd = false
	}
	nm, margs := calls(mod, modFn, "tf.matchRoot")
	if nm == 0 {
		frd = false
	}
	for _, a := range margs {
		if len(a) != 2 || a[1] != "data" {
			frd = false
		}
	}
	for _, name := range []string{"remove", "removeOne"} {
		fd, err := fil.fn("Filter", name)
		if err != nil {
			return nil, err
		}
		if n, _ := calls(fil, fd, "f.Match"); n != 0 {
			frd = false
		}
		if n, _ := calls(fil, fd, "f.match"); n == 0 {
			frd = false
		}
	}
	if fd, err := fil.fn("Filter", "match"); err != nil {
		frd = false
	} else {
		ok := false
		ast.Inspect(fd, func(x ast.Node) bool {
			if is, isIf := x.(*ast.IfStmt); isIf && fil.txt(is.Cond) == "f.rooted" && len(is.Body.List) == 1 &&
				fil.txt(is.Body.List[0]) == "returnf.matchRoot(v,f.root)" {
				ok = true
			}
			return true
		})
		frd = frd && ok
	}
	if fd, err := fil.fn("Filter", "withRoot"); err != nil {
		frd = false
	} else if !strings.Contains(fil.txt(fd.Body), "root:root,rooted:true") {
		frd = false
	}
	if fd, err := scr.fn("Script", "matchRoot"); err != nil {
		frd = false
	} else {
		n, args := calls(scr, fd, "s.evalWithRoot")
		if n == 0 {
			frd = false
		}
		for _, a := range args {
			if len(a) != 3 || a[2] != "root" {
				frd = false
			}
		}
	}
	for _, name := range []string{"MustRemove", "MustRemoveOne"} {
		fd, err := rem.fn("Expr", name)
		if err != nil {
			return nil, err
		}
		rooted := false
		ast.Inspect(fd, func(x ast.Node) bool {
			if is, isIf := x.(*ast.IfStmt); isIf && is.Init != nil && rem.txt(is.Init) == "tf,ok:=last.(*Filter)" && rem.txt(is.Cond) == "ok" &&
				len(is.Body.List) == 1 && rem.txt(is.Body.List[0]) == "last=tf.withRoot(data)" {
				rooted = true
			}
			return true
		})
		frd = frd && rooted
	}
	facts["filterRootDocument"] = frd

	var b strings.Builder
	b.WriteString("/-! GENERATED by tools/extract (jpmut.go) from jp/slice.go, set.go, modify.go, union.go, filter.go, remove.go, script.go — do not edit.\n")
	b.WriteString("One fact per repaired deviation of C13 (see tools/extract/jpmut.go for what each one reads). -/\n")
	b.WriteString("namespace OjgVerif.Gen.JpMut\n\n")
	for _, k := range []string{"inStepFromStart", "setEmptySliceGuarded", "setDescentClears", "modifyDescentClears", "unionRemoveFromEnd",
		"genUnionGuarded", "modifyNodeNullSafe", "modifyReflectNullSafe", "modifyRootPushed", "delOneGuarded", "filterRootDocument"} {
		fmt.Fprintf(&b, "def %s : Bool := %v\n", k, facts[k])
	}
	b.WriteString("\nend OjgVerif.Gen.JpMut\n")
	ch, err := writeIfChanged(filepath.Join(out, "JpMutFacts.lean"), b.String())
	if err != nil {
		return nil, err
	}
	if ch {
		return []string{"JpMutFacts"}, nil
	}
	return nil, nil
}
