// Map-pool facts for C07, written to Gen/MapPool.lean: the shape of the `Reuse` map pool code
// (p.maps / p.mi) of oj.Parser, gen.Parser and sen.Parser, which Reuse/MapPool.lean models.
//
// For each of oj/parser.go, gen/parser.go, sen/parser.go:
//   - the `case openObject:` clause of the `switch p.mode[b]` in parseBuffer: is there exactly one
//     `if p.Reuse {` statement; is `p.mi++` a DIRECT statement of its body (not nested in the inner
//     if/else); how many statements of the clause write p.mi at all; the inner condition; does the
//     then-branch take `p.maps[p.mi]` and clear it (`for k := range m { delete(m, k) }` or clear(m));
//     does the else-branch make a new map and append it to p.maps; does the no-Reuse branch make a map;
//   - every statement of parseBuffer that writes p.mi, with the case label it is in, or "doc-end" for
//     the `if depth == 0 && …` block behind the switch;
//   - every statement of the file that writes p.mi or p.maps, with the function and whether it is a
//     direct statement of the function body.
//
// It fails loudly on source it cannot read.
package main

import (
	"bytes"
	"fmt"
	"go/ast"
	"go/parser"
	"go/printer"
	"go/token"
	"path/filepath"
	"strings"
)

func init() { registerExtra(extractMapPool) }

func mpSrc(fset *token.FileSet, n ast.Node) string {
	var b bytes.Buffer
	_ = printer.Fprint(&b, fset, n)
	return strings.Join(strings.Fields(b.String()), " ")
}

// mpWrites reports whether statement s (itself, not its children) writes p.<field> for a field in
// fields: assignment (any operator), ++/--.
func mpWrites(fset *token.FileSet, s ast.Stmt, fields ...string) bool {
	is := func(x ast.Expr) bool {
		src := mpSrc(fset, x)
		for _, f := range fields {
			if src == "p."+f {
				return true
			}
		}
		return false
	}
	switch t := s.(type) {
	case *ast.AssignStmt:
		for _, l := range t.Lhs {
			if is(l) {
				return true
			}
		}
	case *ast.IncDecStmt:
		return is(t.X)
	}
	return false
}

type mpFile struct {
	file                                                                 string
	found, reuseIf, miIncDirect                                          bool
	miWritesInClause                                                     int
	innerCond                                                            string
	thenTakes, thenClears, thenWritesMi, elseMakes, elseAppends, offMakes bool
	miWrites                                                             [][2]string // label, src
	fileWrites                                                           [][3]string // func, src, "direct"/"nested"
}

func mpIsMake(fset *token.FileSet, s ast.Stmt) bool {
	a, ok := s.(*ast.AssignStmt)
	if !ok || len(a.Lhs) != 1 || len(a.Rhs) != 1 || mpSrc(fset, a.Lhs[0]) != "m" {
		return false
	}
	return strings.HasPrefix(mpSrc(fset, a.Rhs[0]), "make(")
}

func mpIsClear(fset *token.FileSet, s ast.Stmt) bool {
	switch t := s.(type) {
	case *ast.RangeStmt:
		// for k := range m { delete(m, k) }
		if mpSrc(fset, t.X) != "m" || t.Key == nil || len(t.Body.List) != 1 {
			return false
		}
		return mpSrc(fset, t.Body.List[0]) == "delete(m, "+mpSrc(fset, t.Key)+")"
	case *ast.ExprStmt:
		return mpSrc(fset, t.X) == "clear(m)"
	}
	return false
}

func mpOne(repo, rel string) (*mpFile, error) {
	fset := token.NewFileSet()
	f, err := parser.ParseFile(fset, filepath.Join(repo, rel), nil, 0)
	if err != nil {
		return nil, fmt.Errorf("mappool: %v", err)
	}
	r := &mpFile{file: rel}
	var pb *ast.FuncDecl
	for _, d := range f.Decls {
		fd, ok := d.(*ast.FuncDecl)
		if !ok || fd.Body == nil {
			continue
		}
		if fd.Name.Name == "parseBuffer" && fd.Recv != nil {
			pb = fd
		}
		// all writes of p.mi / p.maps in the file
		direct := map[ast.Stmt]bool{}
		for _, s := range fd.Body.List {
			direct[s] = true
		}
		ast.Inspect(fd.Body, func(n ast.Node) bool {
			if s, ok := n.(ast.Stmt); ok && mpWrites(fset, s, "mi", "maps") {
				how := "nested"
				if direct[s] {
					how = "direct"
				}
				r.fileWrites = append(r.fileWrites, [3]string{fd.Name.Name, mpSrc(fset, s), how})
			}
			return true
		})
	}
	if pb == nil {
		return nil, fmt.Errorf("mappool: %s: no method parseBuffer", rel)
	}
	// the switch p.mode[b]
	var sw *ast.SwitchStmt
	var swParentBody *ast.BlockStmt
	ast.Inspect(pb.Body, func(n ast.Node) bool {
		if blk, ok := n.(*ast.BlockStmt); ok {
			for _, s := range blk.List {
				if t, ok := s.(*ast.SwitchStmt); ok && t.Tag != nil && mpSrc(fset, t.Tag) == "p.mode[b]" {
					if sw != nil {
						sw = nil
						return false
					}
					sw, swParentBody = t, blk
				}
			}
		}
		return true
	})
	if sw == nil {
		return nil, fmt.Errorf("mappool: %s: parseBuffer has not exactly one `switch p.mode[b]`", rel)
	}
	// p.mi writes in parseBuffer with labels
	labelOf := map[ast.Stmt]string{}
	for _, c := range sw.Body.List {
		cc := c.(*ast.CaseClause)
		var ls []string
		for _, e := range cc.List {
			ls = append(ls, mpSrc(fset, e))
		}
		lab := strings.Join(ls, ",")
		if cc.List == nil {
			lab = "default"
		}
		for _, s := range cc.Body {
			ast.Inspect(s, func(n ast.Node) bool {
				if st, ok := n.(ast.Stmt); ok {
					labelOf[st] = lab
				}
				return true
			})
		}
	}
	for _, s := range swParentBody.List {
		if is, ok := s.(*ast.IfStmt); ok && strings.HasPrefix(mpSrc(fset, is.Cond), "depth == 0 &&") {
			ast.Inspect(is, func(n ast.Node) bool {
				if st, ok := n.(ast.Stmt); ok {
					labelOf[st] = "doc-end"
				}
				return true
			})
		}
	}
	ast.Inspect(pb.Body, func(n ast.Node) bool {
		if s, ok := n.(ast.Stmt); ok && mpWrites(fset, s, "mi") {
			lab, ok := labelOf[s]
			if !ok {
				lab = "other"
			}
			r.miWrites = append(r.miWrites, [2]string{lab, mpSrc(fset, s)})
		}
		return true
	})
	// the openObject clause
	var clause *ast.CaseClause
	for _, c := range sw.Body.List {
		cc := c.(*ast.CaseClause)
		if len(cc.List) == 1 && mpSrc(fset, cc.List[0]) == "openObject" {
			if clause != nil {
				return nil, fmt.Errorf("mappool: %s: two `case openObject:`", rel)
			}
			clause = cc
		}
	}
	if clause == nil {
		return r, nil
	}
	r.found = true
	for _, s := range clause.Body {
		ast.Inspect(s, func(n ast.Node) bool {
			if st, ok := n.(ast.Stmt); ok && mpWrites(fset, st, "mi") {
				r.miWritesInClause++
			}
			return true
		})
	}
	var reuse *ast.IfStmt
	n := 0
	for _, s := range clause.Body {
		if is, ok := s.(*ast.IfStmt); ok && is.Init == nil && mpSrc(fset, is.Cond) == "p.Reuse" {
			reuse = is
			n++
		}
	}
	if n != 1 {
		return r, nil
	}
	r.reuseIf = true
	var inner *ast.IfStmt
	for _, s := range reuse.Body.List {
		if mpSrc(fset, s) == "p.mi++" {
			r.miIncDirect = true
		}
		if is, ok := s.(*ast.IfStmt); ok && inner == nil {
			inner = is
		}
	}
	if inner != nil {
		r.innerCond = mpSrc(fset, inner.Cond)
		for _, s := range inner.Body.List {
			if mpSrc(fset, s) == "m = p.maps[p.mi]" {
				r.thenTakes = true
			}
			if mpIsClear(fset, s) {
				r.thenClears = true
			}
			ast.Inspect(s, func(n ast.Node) bool {
				if st, ok := n.(ast.Stmt); ok && mpWrites(fset, st, "mi", "maps") {
					r.thenWritesMi = true
				}
				return true
			})
		}
		if eb, ok := inner.Else.(*ast.BlockStmt); ok {
			for _, s := range eb.List {
				if mpIsMake(fset, s) {
					r.elseMakes = true
				}
				if mpSrc(fset, s) == "p.maps = append(p.maps, m)" {
					r.elseAppends = true
				}
			}
		}
	}
	if eb, ok := reuse.Else.(*ast.BlockStmt); ok {
		for _, s := range eb.List {
			if mpIsMake(fset, s) {
				r.offMakes = true
			}
		}
	}
	return r, nil
}

func extractMapPool(repo, out string) ([]string, error) {
	var b strings.Builder
	b.WriteString("-- GENERATED by tools/extract/reuse_mappool.go — do not edit\n")
	b.WriteString("namespace OjgVerif.Gen.MapPool\n\n")
	b.WriteString("structure Pool where\n  file : String\n  found : Bool\n  reuseIf : Bool\n  miIncDirect : Bool\n" +
		"  miWritesInClause : Nat\n  innerCond : String\n  thenTakes : Bool\n  thenClears : Bool\n  thenWritesIndexOrPool : Bool\n" +
		"  elseMakes : Bool\n  elseAppends : Bool\n  offMakes : Bool\n" +
		"  /-- (case label | \"doc-end\" | \"other\", statement) for every write of p.mi in parseBuffer -/\n" +
		"  miWrites : List (String × String)\n" +
		"  /-- (function, statement, \"direct\" | \"nested\") for every write of p.mi / p.maps in the file -/\n" +
		"  fileWrites : List (String × String × String)\n  deriving DecidableEq, Repr\n\n")
	bl := func(v bool) string {
		if v {
			return "true"
		}
		return "false"
	}
	b.WriteString("def pools : List Pool := [\n")
	files := []string{"oj/parser.go", "gen/parser.go", "sen/parser.go"}
	for i, rel := range files {
		r, err := mpOne(repo, rel)
		if err != nil {
			return nil, err
		}
		fmt.Fprintf(&b, "  { file := %q, found := %s, reuseIf := %s, miIncDirect := %s, miWritesInClause := %d,\n", r.file, bl(r.found), bl(r.reuseIf), bl(r.miIncDirect), r.miWritesInClause)
		fmt.Fprintf(&b, "    innerCond := %q, thenTakes := %s, thenClears := %s, thenWritesIndexOrPool := %s,\n", r.innerCond, bl(r.thenTakes), bl(r.thenClears), bl(r.thenWritesMi))
		fmt.Fprintf(&b, "    elseMakes := %s, elseAppends := %s, offMakes := %s,\n", bl(r.elseMakes), bl(r.elseAppends), bl(r.offMakes))
		b.WriteString("    miWrites := [")
		for j, w := range r.miWrites {
			if j > 0 {
				b.WriteString(", ")
			}
			fmt.Fprintf(&b, "(%q, %q)", w[0], w[1])
		}
		b.WriteString("],\n    fileWrites := [")
		for j, w := range r.fileWrites {
			if j > 0 {
				b.WriteString(", ")
			}
			fmt.Fprintf(&b, "(%q, %q, %q)", w[0], w[1], w[2])
		}
		b.WriteString("] }")
		if i+1 < len(files) {
			b.WriteString(",")
		}
		b.WriteString("\n")
	}
	b.WriteString("]\n\nend OjgVerif.Gen.MapPool\n")
	ch, err := writeIfChanged(filepath.Join(out, "MapPool.lean"), b.String())
	if err != nil {
		return nil, err
	}
	if ch {
		return []string{"MapPool"}, nil
	}
	return nil, nil
}
