// extract reads Go source files of ohler55/ojg as they are now and writes the
// tables and constants the behaviour is read from as Lean definitions.
//
// usage: extract -repo /repo -out /verif/lean/OjgVerif/Gen
//
// For each listed package it evaluates every package-level const/var whose
// initialiser is a constant expression over literals (string concatenation,
// chars, integers, iota, references to earlier constants) and emits
//   string  -> def name : Array UInt8 := #[...]
//   char    -> def name : UInt8 := n      (when 0 <= n < 256)
//   integer -> def name_int : Int := n     (every integer/char constant)
// Anything else is skipped silently; the Lean side fails to build when a name
// it needs has disappeared, which the runner reports as a broken tie.
// A file is rewritten only when its content changes.
package main

import (
	"bytes"
	"crypto/sha256"
	"encoding/hex"
	"encoding/json"
	"flag"
	"fmt"
	"go/ast"
	"go/parser"
	"go/token"
	"math/big"
	"os"
	"path/filepath"
	"sort"
	"strconv"
	"strings"
)

type pkgSpec struct {
	dir  string // relative to repo
	ns   string // Lean namespace suffix
	file string // output file (without .lean)
}

var pkgs = []pkgSpec{
	{"oj", "Oj", "Oj"},
	{"gen", "GenPkg", "GenPkg"},
	{"sen", "Sen", "Sen"},
	{".", "Root", "Root"},
	{"jp", "Jp", "Jp"},
	{"pretty", "Pretty", "Pretty"},
	{"alt", "Alt", "Alt"},
	{"asm", "Asm", "Asm"},
}

type value struct {
	isStr bool
	s     string
	n     *big.Int
	isChr bool
}

type evaluator struct {
	consts map[string]value
	iota   int64
}

func (e *evaluator) eval(x ast.Expr) (value, bool) {
	switch t := x.(type) {
	case *ast.BasicLit:
		switch t.Kind {
		case token.STRING:
			s, err := strconv.Unquote(t.Value)
			if err != nil {
				return value{}, false
			}
			return value{isStr: true, s: s}, true
		case token.CHAR:
			s, err := strconv.Unquote(t.Value)
			if err != nil {
				return value{}, false
			}
			r := []rune(s)
			if len(r) != 1 {
				return value{}, false
			}
			return value{n: big.NewInt(int64(r[0])), isChr: true}, true
		case token.INT:
			n, ok := new(big.Int).SetString(strings.ReplaceAll(t.Value, "_", ""), 0)
			if !ok {
				return value{}, false
			}
			return value{n: n}, true
		}
		return value{}, false
	case *ast.ParenExpr:
		return e.eval(t.X)
	case *ast.Ident:
		if t.Name == "iota" {
			return value{n: big.NewInt(e.iota)}, true
		}
		v, ok := e.consts[t.Name]
		return v, ok
	case *ast.SelectorExpr:
		// the few constants of package math the sources use
		if id, ok := t.X.(*ast.Ident); ok && id.Name == "math" {
			switch t.Sel.Name {
			case "MaxInt64":
				return value{n: new(big.Int).SetUint64(1<<63 - 1)}, true
			case "MinInt64":
				return value{n: new(big.Int).Neg(new(big.Int).SetUint64(1 << 63))}, true
			case "MaxInt32":
				return value{n: big.NewInt(1<<31 - 1)}, true
			case "MaxUint32":
				return value{n: big.NewInt(1<<32 - 1)}, true
			}
		}
		return value{}, false
	case *ast.UnaryExpr:
		v, ok := e.eval(t.X)
		if !ok || v.isStr {
			return value{}, false
		}
		switch t.Op {
		case token.SUB:
			return value{n: new(big.Int).Neg(v.n)}, true
		case token.ADD:
			return v, true
		}
		return value{}, false
	case *ast.CallExpr:
		// conversions such as byte('x'), int64(3), uint64(1)
		if id, ok := t.Fun.(*ast.Ident); ok && len(t.Args) == 1 {
			switch id.Name {
			case "byte", "int", "int64", "uint64", "uint", "rune", "uint8", "int32", "uint32":
				v, ok := e.eval(t.Args[0])
				if ok && !v.isStr {
					return value{n: v.n}, true
				}
			}
		}
		return value{}, false
	case *ast.BinaryExpr:
		a, ok1 := e.eval(t.X)
		b, ok2 := e.eval(t.Y)
		if !ok1 || !ok2 {
			return value{}, false
		}
		if a.isStr != b.isStr {
			return value{}, false
		}
		if a.isStr {
			if t.Op == token.ADD {
				return value{isStr: true, s: a.s + b.s}, true
			}
			return value{}, false
		}
		r := new(big.Int)
		switch t.Op {
		case token.ADD:
			r.Add(a.n, b.n)
		case token.SUB:
			r.Sub(a.n, b.n)
		case token.MUL:
			r.Mul(a.n, b.n)
		case token.QUO:
			if b.n.Sign() == 0 {
				return value{}, false
			}
			r.Quo(a.n, b.n)
		case token.REM:
			if b.n.Sign() == 0 {
				return value{}, false
			}
			r.Rem(a.n, b.n)
		case token.SHL:
			r.Lsh(a.n, uint(b.n.Int64()))
		case token.SHR:
			r.Rsh(a.n, uint(b.n.Int64()))
		case token.OR:
			r.Or(a.n, b.n)
		case token.AND:
			r.And(a.n, b.n)
		case token.XOR:
			r.Xor(a.n, b.n)
		default:
			return value{}, false
		}
		return value{n: r}, true
	}
	return value{}, false
}

type entry struct {
	name string
	v    value
	src  string
}

func extractPkg(repo string, p pkgSpec) ([]entry, error) {
	dir := filepath.Join(repo, p.dir)
	fset := token.NewFileSet()
	ents, err := os.ReadDir(dir)
	if err != nil {
		return nil, err
	}
	var files []string
	for _, de := range ents {
		n := de.Name()
		if de.IsDir() || !strings.HasSuffix(n, ".go") || strings.HasSuffix(n, "_test.go") {
			continue
		}
		files = append(files, n)
	}
	sort.Strings(files)
	ev := &evaluator{consts: map[string]value{}}
	var out []entry
	type pending struct {
		name string
		x    ast.Expr
		iota int64
		src  string
	}
	var pend []pending
	for _, fn := range files {
		src, err := os.ReadFile(filepath.Join(dir, fn))
		if err != nil {
			return nil, err
		}
		// files guarded by the verif build tag are hooks, not behaviour
		if bytes.Contains(src, []byte("//go:build verif")) {
			continue
		}
		f, err := parser.ParseFile(fset, fn, src, 0)
		if err != nil {
			return nil, fmt.Errorf("%s/%s: %v", p.dir, fn, err)
		}
		for _, d := range f.Decls {
			gd, ok := d.(*ast.GenDecl)
			if !ok || (gd.Tok != token.CONST && gd.Tok != token.VAR) {
				continue
			}
			var last []ast.Expr
			for i, sp := range gd.Specs {
				vs := sp.(*ast.ValueSpec)
				vals := vs.Values
				if gd.Tok == token.CONST {
					if len(vals) == 0 {
						vals = last
					} else {
						last = vals
					}
				}
				for j, id := range vs.Names {
					if j < len(vals) && id.Name != "_" {
						pend = append(pend, pending{id.Name, vals[j], int64(i), p.dir + "/" + fn})
					}
				}
			}
		}
	}
	// iterate to a fixed point so that order of files does not matter
	done := map[string]bool{}
	for changed := true; changed; {
		changed = false
		for _, pe := range pend {
			if done[pe.name] {
				continue
			}
			ev.iota = pe.iota
			if v, ok := ev.eval(pe.x); ok {
				ev.consts[pe.name] = v
				done[pe.name] = true
				out = append(out, entry{pe.name, v, pe.src})
				changed = true
			}
		}
	}
	sort.Slice(out, func(i, j int) bool { return out[i].name < out[j].name })
	return out, nil
}

var leanKeywords = map[string]bool{"end": true, "at": true, "from": true, "open": true, "in": true, "then": true, "else": true, "if": true,
	"do": true, "fun": true, "let": true, "have": true, "show": true, "by": true, "def": true, "theorem": true, "where": true, "with": true,
	"match": true, "namespace": true, "section": true, "instance": true, "structure": true, "class": true, "inductive": true, "import": true,
	"mutual": true, "for": true, "return": true, "set_option": true, "variable": true, "universe": true, "example": true, "abbrev": true,
	"hex": false}

func leanName(n string) string {
	if leanKeywords[n] {
		return "«" + n + "»"
	}
	return n
}

func render(p pkgSpec, es []entry) string {
	var b strings.Builder
	fmt.Fprintf(&b, "/- GENERATED by /verif/tools/extract from %s/*.go — do not edit; rewritten on every run. -/\n", p.dir)
	fmt.Fprintf(&b, "namespace OjgVerif.Gen.%s\n\n", p.ns)
	for _, e := range es {
		n := leanName(e.name)
		if e.v.isStr {
			bs := []byte(e.v.s)
			fmt.Fprintf(&b, "/-- %s, %d bytes -/\ndef %s : Array UInt8 := #[", e.src, len(bs), n)
			for i, c := range bs {
				if i > 0 {
					b.WriteByte(',')
					if i%32 == 0 {
						b.WriteString("\n ")
					}
				}
				fmt.Fprintf(&b, "%d", c)
			}
			b.WriteString("]\n\n")
			continue
		}
		if e.v.isChr && e.v.n.Sign() >= 0 && e.v.n.Cmp(big.NewInt(256)) < 0 {
			fmt.Fprintf(&b, "/-- %s -/\ndef %s : UInt8 := %s\n", e.src, n, e.v.n.String())
		}
		if e.v.n.Sign() < 0 {
			fmt.Fprintf(&b, "def %s : Int := (%s)\n\n", leanName(e.name+"_int"), e.v.n.String())
		} else {
			fmt.Fprintf(&b, "def %s : Int := %s\n\n", leanName(e.name+"_int"), e.v.n.String())
		}
	}
	fmt.Fprintf(&b, "end OjgVerif.Gen.%s\n", p.ns)
	return b.String()
}

func writeIfChanged(path, content string) (bool, error) {
	old, err := os.ReadFile(path)
	if err == nil && string(old) == content {
		return false, nil
	}
	return true, os.WriteFile(path, []byte(content), 0o644)
}

// extras are additional per-family extractors (one Go file each in this directory); each writes its
// own Gen/<Name>.lean through writeIfChanged and returns the names of the files it changed.
var extras []func(repo, out string) ([]string, error)

func registerExtra(f func(repo, out string) ([]string, error)) { extras = append(extras, f) }

func main() {
	repo := flag.String("repo", "/repo", "repository root")
	out := flag.String("out", "", "output directory for Gen/*.lean")
	flag.Parse()
	if *out == "" {
		fmt.Fprintln(os.Stderr, "need -out")
		os.Exit(2)
	}
	if err := os.MkdirAll(*out, 0o755); err != nil {
		panic(err)
	}
	summary := map[string]any{}
	changedAny := []string{}
	for _, p := range pkgs {
		es, err := extractPkg(*repo, p)
		if err != nil {
			fmt.Fprintln(os.Stderr, "extract:", err)
			os.Exit(1)
		}
		content := render(p, es)
		ch, err := writeIfChanged(filepath.Join(*out, p.file+".lean"), content)
		if err != nil {
			panic(err)
		}
		if ch {
			changedAny = append(changedAny, p.file)
		}
		h := sha256.Sum256([]byte(content))
		tabs := map[string]string{}
		for _, e := range es {
			if e.v.isStr {
				tabs[e.name] = hex.EncodeToString([]byte(e.v.s))
			} else {
				tabs[e.name] = e.v.n.String()
			}
		}
		summary[p.ns] = map[string]any{"sha256": hex.EncodeToString(h[:]), "count": len(es), "values": tabs}
	}
	for _, f := range extras {
		ch, err := f(*repo, *out)
		if err != nil {
			fmt.Fprintln(os.Stderr, "extract:", err)
			os.Exit(1)
		}
		changedAny = append(changedAny, ch...)
	}
	summary["changed"] = changedAny
	js, _ := json.MarshalIndent(summary, "", " ")
	if _, err := writeIfChanged(filepath.Join(*out, "tables.json"), string(js)+"\n"); err != nil {
		panic(err)
	}
	fmt.Printf("extract: %d packages, changed: %v\n", len(pkgs), changedAny)
}
