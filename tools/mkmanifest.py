import json,subprocess,os
props=[json.loads(l) for l in open('/verif/properties.jsonl')]
claimed={}
for p in props:
    rp=f'/verif/registry/{p["id"]}.json'
    if os.path.exists(rp):
        r=json.load(open(rp))
        if r.get('ready') and p['id'] in open('/verif/registry/_ready.txt').read().split():
            claimed[p['id']]=r
fixes=subprocess.run(['git','-C','/repo','log','--format=%h','5580934..HEAD'],capture_output=True,text=True).stdout.split()
m={"version":1,"setup_cmd":"./setup.sh",
 "hooks":{"guard":"verif","enable":"go build -tags verif (no hook files are needed so far: chunking uses a short-count io.Reader, panics are observed with recover, tables are read from source by tools/extract)",
          "baseline_off_cmd":"cd /repo && GOFLAGS=-mod=mod GOPROXY=off GOSUMDB=off GOTOOLCHAIN=local go test -json -vet=off -count=1 -timeout 25m ./...",
          "source_commits":[],"add_only":True},
 "engines":[{"name":"lean-proof+correspondence","path":"/verif/check","serves_properties":sorted(claimed),
             "kind_free_text":"Lean 4 theorems over models (lean/OjgVerif), Gen/* regenerated from source by tools/extract, Go harness (harness/) running model driver vs implementation vs specification"}],
 "checks":[],"not_applicable":[],
 "notes":"fix: commits in /repo (genuine defects found by the checks): "+" ".join(fixes)+". See known_findings.json and DESIGN.md."}
for p in props:
    pid=p['id']
    if pid in claimed:
        r=claimed[pid]
        scope=r.get("scope")
        prefix={"full":"PROOF of the statement as given (for the code as it is now; known findings listed in known_findings.json are the stated exceptions). ",
                "partial":"PARTIAL PROOF: theorems cover part of the statement (exclusions are named below and in DESIGN.md 11); the rest is decided by the model/implementation correspondence run, which is exploration, not proof. ",
                None:""}[scope]
        m['checks'].append({"property_id":pid,"quick_cmd":f"./check {pid} --tier quick","thorough_cmd":f"./check {pid} --tier thorough",
          "evidence_file":f"/verif/evidence/{pid}.json","replay_cmd_template":f"./check {pid} --replay {{path}}","engine":"lean-proof+correspondence",
          "level_claimed":{"category":r.get("level","proof"),"text":prefix+(r.get("level_text") or r.get("what_is_proved","")),"design_ref":r.get("design_ref","DESIGN.md sections 6 and 11")},
          "level_note":r.get("level_note","Trusted: Lean kernel (axioms propext, Classical.choice, Quot.sound only), tools/extract, the correspondence harness; modelled not verified: "+"; ".join(r.get("modelled_not_verified",[]))),
          "technique":r.get("technique","Lean 4 theorems over a model tied to the code by regenerated tables and a model/implementation correspondence run")})
    else:
        m['not_applicable'].append({"property_id":pid,"reason":"not yet claimed: model, theorems and correspondence for this property are still being built (see DESIGN.md section 10); nothing is decided by another technique"})
json.dump(m,open('/verif/MANIFEST.json','w'),indent=1)
print(len(m['checks']),len(m['not_applicable']))
