// Package lib holds what every correspondence harness shares: the line protocol to the Lean
// driver, the PRNG, canonical rendering of Go values, the report written for the runner.
package lib

import (
	"bufio"
	"fmt"
	"io"
	"os/exec"
	"strings"
	"sync"
	"time"
)

// Driver is one running Lean driver process (line in, line out).
type Driver struct {
	cmd *exec.Cmd
	in  io.WriteCloser
	out *bufio.Reader
	mu  sync.Mutex
}

// StartDriver launches the driver executable.
func StartDriver(exe string) (*Driver, error) {
	cmd := exec.Command(exe)
	in, err := cmd.StdinPipe()
	if err != nil {
		return nil, err
	}
	out, err := cmd.StdoutPipe()
	if err != nil {
		return nil, err
	}
	if err := cmd.Start(); err != nil {
		return nil, err
	}
	return &Driver{cmd: cmd, in: in, out: bufio.NewReaderSize(out, 1<<20)}, nil
}

// Ask sends the requests (each without id and newline) and returns the answers in order.
func (d *Driver) Ask(reqs []string) ([]string, error) {
	d.mu.Lock()
	defer d.mu.Unlock()
	res := make([]string, len(reqs))
	const batch = 256
	for s := 0; s < len(reqs); s += batch {
		e := s + batch
		if e > len(reqs) {
			e = len(reqs)
		}
		var sb strings.Builder
		for i := s; i < e; i++ {
			fmt.Fprintf(&sb, "%d\t%s\n", i, reqs[i])
		}
		errc := make(chan error, 1)
		go func(t string) {
			_, err := io.WriteString(d.in, t)
			errc <- err
		}(sb.String())
		for i := s; i < e; i++ {
			line, err := d.out.ReadString('\n')
			if err != nil {
				return nil, fmt.Errorf("driver died: %v", err)
			}
			line = strings.TrimRight(line, "\n")
			tab := strings.IndexByte(line, '\t')
			if tab < 0 || line[:tab] != fmt.Sprint(i) {
				return nil, fmt.Errorf("driver out of sync: want id %d got %q", i, line)
			}
			res[i] = line[tab+1:]
		}
		if err := <-errc; err != nil {
			return nil, err
		}
	}
	return res, nil
}

// Ask1 asks one question.
func (d *Driver) Ask1(req string) (string, error) {
	r, err := d.Ask([]string{req})
	if err != nil {
		return "", err
	}
	return r[0], nil
}

// Close ends the process.
func (d *Driver) Close() {
	d.in.Close()
	done := make(chan struct{})
	go func() { _ = d.cmd.Wait(); close(done) }()
	select {
	case <-done:
	case <-time.After(2 * time.Second):
		_ = d.cmd.Process.Kill()
		<-done
	}
}
