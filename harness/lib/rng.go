package lib

// Rng is splitmix64: every random choice of a run derives from one seed.
type Rng struct{ s uint64 }

func NewRng(seed uint64) *Rng { return &Rng{s: seed*0x9E3779B97F4A7C15 + 0x1234567} }

func (r *Rng) Next() uint64 {
	r.s += 0x9E3779B97F4A7C15
	z := r.s
	z = (z ^ (z >> 30)) * 0xBF58476D1CE4E5B9
	z = (z ^ (z >> 27)) * 0x94D049BB133111EB
	return z ^ (z >> 31)
}

// Intn returns a value in [0,n).
func (r *Rng) Intn(n int) int {
	if n <= 0 {
		return 0
	}
	return int(r.Next() % uint64(n))
}

func (r *Rng) Bool() bool { return r.Next()&1 == 1 }

// Fork derives an independent generator (for a shard).
func (r *Rng) Fork(i int) *Rng { return NewRng(r.Next() ^ uint64(i)*0xD1342543DE82EF95) }

// Pick chooses an element.
func Pick[T any](r *Rng, xs []T) T { return xs[r.Intn(len(xs))] }
