package lib

import (
	"encoding/json"
	"os"
	"regexp"
)

// Known is one entry of /verif/known_findings.json ("known" list). A finding is explained by it when
// the property matches, the finding class matches ClassRe and the raw input bytes match InputRe
// (entries whose deviation needs a semantic test are implemented by id in the harness instead and
// carry no InputRe). The file is read-only at run time.
type Known struct {
	ID       string `json:"id"`
	Property string `json:"property"`
	ClassRe  string `json:"class_re"`
	InputRe  string `json:"input_re"`
	What     string `json:"what"`
	classRe  *regexp.Regexp
	inputRe  *regexp.Regexp
}

type knownFile struct {
	Known []Known `json:"known"`
}

func LoadKnown(path, prop string) []Known {
	if path == "" {
		return nil
	}
	data, err := os.ReadFile(path)
	if err != nil {
		return nil
	}
	var kf knownFile
	if err := json.Unmarshal(data, &kf); err != nil {
		return nil
	}
	var out []Known
	for _, k := range kf.Known {
		if k.Property != prop {
			continue
		}
		k.classRe = regexp.MustCompile(k.ClassRe)
		if k.InputRe != "" {
			k.inputRe = regexp.MustCompile(k.InputRe)
		}
		out = append(out, k)
	}
	return out
}

// MatchKnown returns the id of the known finding that explains (class, input), or "".
func MatchKnown(ks []Known, class string, input []byte) string {
	for _, k := range ks {
		// entries without an input pattern are decided by a semantic predicate in the harness
		// (knownFinding), never by class alone: a class-wide match would hide every other
		// violation of that class
		if k.inputRe == nil || !k.classRe.MatchString(class) {
			continue
		}
		if !k.inputRe.Match(input) {
			continue
		}
		return k.ID
	}
	return ""
}

// HasKnown reports whether the id is listed.
func HasKnown(ks []Known, id string) bool {
	for _, k := range ks {
		if k.ID == id {
			return true
		}
	}
	return false
}
