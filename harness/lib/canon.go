package lib

import (
	"encoding/hex"
	"encoding/json"
	"fmt"
	"math"
	"math/big"
	"sort"
	"strconv"
	"strings"

	"github.com/ohler55/ojg/gen"
)

func HexF(b []byte) string {
	if len(b) == 0 {
		return "-"
	}
	return hex.EncodeToString(b)
}

func UnhexF(s string) ([]byte, error) {
	if s == "-" {
		return []byte{}, nil
	}
	return hex.DecodeString(s)
}

// Node is a parsed canonical tree (the format of JV.render in the Lean driver).
type Node struct {
	Kind byte // n t f I F B N S [ {
	Text string // I: decimal; F: 16 hex digits of the bits (impl) or hex of the decimal text (model); B,N,S: hex
	Kids []*Node
	Keys []string // hex keys for '{'
}

// Render writes a Go value (simple or gen) in canonical form. Floats are written as their bits.
func Render(v any) string {
	var sb strings.Builder
	render(&sb, v)
	return sb.String()
}

func render(sb *strings.Builder, v any) {
	switch t := v.(type) {
	case nil:
		sb.WriteString("n")
	case bool:
		if t {
			sb.WriteString("t")
		} else {
			sb.WriteString("f")
		}
	case gen.Bool:
		render(sb, bool(t))
	case int64:
		fmt.Fprintf(sb, "I(%d)", t)
	case int:
		fmt.Fprintf(sb, "I(%d)", t)
	case gen.Int:
		fmt.Fprintf(sb, "I(%d)", int64(t))
	case float64:
		fmt.Fprintf(sb, "F(%016x)", math.Float64bits(t))
	case gen.Float:
		fmt.Fprintf(sb, "F(%016x)", math.Float64bits(float64(t)))
	case json.Number:
		fmt.Fprintf(sb, "B(%s)", HexF([]byte(t)))
	case gen.Big:
		fmt.Fprintf(sb, "B(%s)", HexF([]byte(t)))
	case string:
		fmt.Fprintf(sb, "S(%s)", HexF([]byte(t)))
	case gen.String:
		fmt.Fprintf(sb, "S(%s)", HexF([]byte(t)))
	case []any:
		sb.WriteByte('[')
		for i, x := range t {
			if i > 0 {
				sb.WriteByte(',')
			}
			render(sb, x)
		}
		sb.WriteByte(']')
	case gen.Array:
		sb.WriteByte('[')
		for i, x := range t {
			if i > 0 {
				sb.WriteByte(',')
			}
			render(sb, x)
		}
		sb.WriteByte(']')
	case map[string]any:
		keys := make([]string, 0, len(t))
		for k := range t {
			keys = append(keys, k)
		}
		sort.Strings(keys)
		sb.WriteByte('{')
		for i, k := range keys {
			if i > 0 {
				sb.WriteByte(',')
			}
			fmt.Fprintf(sb, "K(%s)", HexF([]byte(k)))
			render(sb, t[k])
		}
		sb.WriteByte('}')
	case gen.Object:
		keys := make([]string, 0, len(t))
		for k := range t {
			keys = append(keys, k)
		}
		sort.Strings(keys)
		sb.WriteByte('{')
		for i, k := range keys {
			if i > 0 {
				sb.WriteByte(',')
			}
			fmt.Fprintf(sb, "K(%s)", HexF([]byte(k)))
			render(sb, t[k])
		}
		sb.WriteByte('}')
	default:
		fmt.Fprintf(sb, "?(%T)", v)
	}
}

// ParseCanon parses one canonical tree.
func ParseCanon(s string) (*Node, error) {
	n, rest, err := parseCanon(s)
	if err != nil {
		return nil, err
	}
	if rest != "" {
		return nil, fmt.Errorf("trailing %q", rest)
	}
	return n, nil
}

func parseCanon(s string) (*Node, string, error) {
	if s == "" {
		return nil, "", fmt.Errorf("empty")
	}
	switch s[0] {
	case 'n', 't', 'f':
		return &Node{Kind: s[0]}, s[1:], nil
	case 'I', 'F', 'B', 'N', 'S':
		if len(s) < 3 || s[1] != '(' {
			return nil, "", fmt.Errorf("bad atom %q", s)
		}
		e := strings.IndexByte(s, ')')
		if e < 0 {
			return nil, "", fmt.Errorf("bad atom %q", s)
		}
		return &Node{Kind: s[0], Text: s[2:e]}, s[e+1:], nil
	case '[':
		n := &Node{Kind: '['}
		s = s[1:]
		if strings.HasPrefix(s, "]") {
			return n, s[1:], nil
		}
		for {
			k, rest, err := parseCanon(s)
			if err != nil {
				return nil, "", err
			}
			n.Kids = append(n.Kids, k)
			if strings.HasPrefix(rest, ",") {
				s = rest[1:]
				continue
			}
			if strings.HasPrefix(rest, "]") {
				return n, rest[1:], nil
			}
			return nil, "", fmt.Errorf("bad array at %q", rest)
		}
	case '{':
		n := &Node{Kind: '{'}
		s = s[1:]
		if strings.HasPrefix(s, "}") {
			return n, s[1:], nil
		}
		for {
			if !strings.HasPrefix(s, "K(") {
				return nil, "", fmt.Errorf("bad key at %q", s)
			}
			e := strings.IndexByte(s, ')')
			n.Keys = append(n.Keys, s[2:e])
			k, rest, err := parseCanon(s[e+1:])
			if err != nil {
				return nil, "", err
			}
			n.Kids = append(n.Kids, k)
			if strings.HasPrefix(rest, ",") {
				s = rest[1:]
				continue
			}
			if strings.HasPrefix(rest, "}") {
				return n, rest[1:], nil
			}
			return nil, "", fmt.Errorf("bad object at %q", rest)
		}
	}
	return nil, "", fmt.Errorf("bad node %q", s)
}

func (n *Node) String() string {
	var sb strings.Builder
	n.write(&sb)
	return sb.String()
}

func (n *Node) write(sb *strings.Builder) {
	switch n.Kind {
	case 'n', 't', 'f':
		sb.WriteByte(n.Kind)
	case '[':
		sb.WriteByte('[')
		for i, k := range n.Kids {
			if i > 0 {
				sb.WriteByte(',')
			}
			k.write(sb)
		}
		sb.WriteByte(']')
	case '{':
		sb.WriteByte('{')
		for i, k := range n.Kids {
			if i > 0 {
				sb.WriteByte(',')
			}
			sb.WriteString("K(" + n.Keys[i] + ")")
			k.write(sb)
		}
		sb.WriteByte('}')
	default:
		sb.WriteByte(n.Kind)
		sb.WriteString("(" + n.Text + ")")
	}
}

// FloatTextToBits rewrites every F(<hex of decimal text>) of a model tree into F(<bits>) by applying
// strconv.ParseFloat (trusted) so that it can be compared with an implementation tree.
func FloatTextToBits(model string) string {
	if !strings.Contains(model, "F(") {
		return model
	}
	var sb strings.Builder
	for {
		i := strings.Index(model, "F(")
		if i < 0 {
			sb.WriteString(model)
			break
		}
		e := i + strings.IndexByte(model[i:], ')')
		txt, err := UnhexF(model[i+2 : e])
		sb.WriteString(model[:i])
		if err != nil {
			sb.WriteString("F(?)")
		} else {
			f, _ := strconv.ParseFloat(string(txt), 64)
			fmt.Fprintf(&sb, "F(%016x)", math.Float64bits(f))
		}
		model = model[e+1:]
	}
	return sb.String()
}

// Dec is an exact decimal: (-1)^Neg * Digits * 10^Exp with Digits free of leading and trailing zeros.
type Dec struct {
	Neg    bool
	Digits string
	Exp    *big.Int
}

// ParseDec reads a JSON number literal exactly; ok=false if it is not one.
func ParseDec(s string) (d Dec, ok bool) {
	i := 0
	if i < len(s) && s[i] == '-' {
		d.Neg = true
		i++
	}
	st := i
	for i < len(s) && s[i] >= '0' && s[i] <= '9' {
		i++
	}
	ip := s[st:i]
	if ip == "" || (len(ip) > 1 && ip[0] == '0') {
		return d, false
	}
	fp := ""
	if i < len(s) && s[i] == '.' {
		i++
		st = i
		for i < len(s) && s[i] >= '0' && s[i] <= '9' {
			i++
		}
		fp = s[st:i]
		if fp == "" {
			return d, false
		}
	}
	exp := new(big.Int)
	if i < len(s) && (s[i] == 'e' || s[i] == 'E') {
		i++
		st = i
		if i < len(s) && (s[i] == '+' || s[i] == '-') {
			i++
		}
		ds := i
		for i < len(s) && s[i] >= '0' && s[i] <= '9' {
			i++
		}
		if ds == i {
			return d, false
		}
		if _, k := exp.SetString(strings.TrimPrefix(s[st:i], "+"), 10); !k {
			return d, false
		}
	}
	if i != len(s) {
		return d, false
	}
	digits := ip + fp
	exp.Sub(exp, big.NewInt(int64(len(fp))))
	t := strings.TrimRight(digits, "0")
	exp.Add(exp, big.NewInt(int64(len(digits)-len(t))))
	t = strings.TrimLeft(t, "0")
	if t == "" {
		return Dec{Digits: "", Exp: new(big.Int)}, true // zero (sign dropped)
	}
	d.Digits = t
	d.Exp = exp
	return d, true
}

func (d Dec) Equal(o Dec) bool {
	return d.Neg == o.Neg && d.Digits == o.Digits && d.Exp.Cmp(o.Exp) == 0
}

// IsPlainInt reports whether the literal has neither fraction nor exponent.
func IsPlainInt(lit string) bool { return !strings.ContainsAny(lit, ".eE") }

// Allow switches on the listed known deviations (ids of /verif/known_findings.json); a tree that
// denotes the text only because of an allowed deviation is reported as a known finding.
type Allow struct {
	Int19     bool // C02-int19: 19-digit plain integers 9223372036854775800..807 as big-number text
	Surrogate bool // C02-surrogate: a \uD8xx\uDCxx pair decoded as two U+FFFD
	used      string
}

// Used names the allowance that was needed ("" if none).
func (a *Allow) Used() string {
	if a == nil {
		return ""
	}
	return a.used
}

func isInt19(lit string) bool {
	return len(lit) == 19 && lit >= "9223372036854775800" && lit <= "9223372036854775807"
}

// fffdPairs replaces every 4-byte UTF-8 sequence by two U+FFFD (what decoding the two halves of a
// surrogate pair separately gives).
func fffdPairs(b []byte) []byte {
	var out []byte
	for i := 0; i < len(b); {
		if b[i] >= 0xF0 && b[i] <= 0xF4 && i+3 < len(b) && b[i+1]&0xC0 == 0x80 && b[i+2]&0xC0 == 0x80 && b[i+3]&0xC0 == 0x80 {
			out = append(out, 0xEF, 0xBF, 0xBD, 0xEF, 0xBF, 0xBD)
			i += 4
			continue
		}
		out = append(out, b[i])
		i++
	}
	return out
}

func sameModuloPairs(a, b string) bool {
	x, e1 := UnhexF(a)
	y, e2 := UnhexF(b)
	return e1 == nil && e2 == nil && string(fffdPairs(x)) == string(fffdPairs(y))
}

// NumDenotes decides whether an implementation number node denotes the literal (property C02).
// The first result is a short code for the kind of failure.
func NumDenotes(impl *Node, lit string, al *Allow) (bool, string) {
	ld, ok := ParseDec(lit)
	if !ok {
		return false, "literal-not-number: literal is not a number"
	}
	plainFits := false
	if IsPlainInt(lit) {
		if bi, ok := new(big.Int).SetString(lit, 10); ok && new(big.Int).Abs(bi).IsInt64() { // magnitude fits int64
			plainFits = true
		}
	}
	switch impl.Kind {
	case 'I':
		id, ok := ParseDec(impl.Text)
		if !ok || !id.Equal(ld) {
			return false, "int-differs: int64 differs from the literal's value"
		}
		return true, ""
	case 'F':
		if plainFits {
			return false, "plain-int-as-float: plain integer literal fitting int64 came back as float64"
		}
		bits, err := strconv.ParseUint(impl.Text, 16, 64)
		if err != nil {
			return false, "bad-float: bad float bits"
		}
		f := math.Float64frombits(bits)
		want, _ := strconv.ParseFloat(lit, 64)
		if f == want {
			return true, ""
		}
		return false, fmt.Sprintf("float-not-nearest: float64 %v is not the nearest to the literal (%v)", f, want)
	case 'B':
		txt, err := UnhexF(impl.Text)
		if err != nil {
			return false, "bad-hex: bad hex"
		}
		if plainFits {
			if al != nil && al.Int19 && isInt19(lit) && string(txt) == lit {
				al.used = "C02-int19"
				return true, ""
			}
			return false, "plain-int-as-big: plain integer literal fitting int64 came back as a big number"
		}
		bd, ok := ParseDec(string(txt))
		if !ok {
			return false, fmt.Sprintf("big-not-literal: big number text %q is not a number literal", txt)
		}
		if !bd.Equal(ld) {
			return false, fmt.Sprintf("big-denotes-other: big number text %q denotes another number", txt)
		}
		return true, ""
	}
	return false, "kind: not a number"
}

// Denotes compares an implementation tree with a specification tree (numbers as literals N(..)).
// On failure the message starts with a short code followed by ": ".
func Denotes(impl, spec *Node, al *Allow) (bool, string) {
	if spec.Kind == 'N' {
		lit, _ := UnhexF(spec.Text)
		return NumDenotes(impl, string(lit), al)
	}
	if impl.Kind != spec.Kind {
		return false, fmt.Sprintf("kind: kind %c where the text has %c", impl.Kind, spec.Kind)
	}
	switch spec.Kind {
	case 'S':
		if impl.Text != spec.Text {
			if al != nil && al.Surrogate && sameModuloPairs(impl.Text, spec.Text) {
				al.used = "C02-surrogate"
				return true, ""
			}
			return false, "string-differs: string differs"
		}
	case '[':
		if len(impl.Kids) != len(spec.Kids) {
			return false, "shape: array length differs"
		}
		for i := range spec.Kids {
			if ok, why := Denotes(impl.Kids[i], spec.Kids[i], al); !ok {
				return false, why
			}
		}
	case '{':
		if al != nil && al.Surrogate {
			// match members by key modulo pairs: keys that differ only in how a surrogate pair was
			// decoded sort differently and may even collide
			norm := func(k string) string { b, _ := UnhexF(k); return string(fffdPairs(b)) }
			cnt := map[string]int{}
			for _, k := range spec.Keys {
				cnt[norm(k)]++
			}
			implIdx := map[string]int{}
			for i, k := range impl.Keys {
				implIdx[norm(k)] = i
			}
			if len(cnt) != len(implIdx) || len(implIdx) != len(impl.Keys) {
				return false, "shape: member count differs"
			}
			for i, k := range spec.Keys {
				j, ok := implIdx[norm(k)]
				if !ok {
					return false, "key-differs: member names differ"
				}
				if impl.Keys[j] != k {
					al.used = "C02-surrogate"
				}
				if cnt[norm(k)] == 1 {
					if ok, why := Denotes(impl.Kids[j], spec.Kids[i], al); !ok {
						return false, why
					}
				} else {
					al.used = "C02-surrogate" // collided members: last wins, values not compared
				}
			}
			return true, ""
		}
		if len(impl.Kids) != len(spec.Kids) {
			return false, "shape: member count differs"
		}
		for i := range spec.Kids {
			if impl.Keys[i] != spec.Keys[i] {
				return false, "key-differs: member names differ"
			}
			if ok, why := Denotes(impl.Kids[i], spec.Kids[i], al); !ok {
				return false, why
			}
		}
	}
	return true, ""
}

// EqualModuloInt19 compares two implementation trees and accepts, besides equality, a big-number
// text on one side against an int64/float64 on the other when the text is a non-negative number
// whose integer part is a 19-digit value in 9223372036854775800..807 (the parsers' integer fast
// loop switches to text there, the byte-at-a-time path and the tokenizer do not) and both denote
// the same value. used reports whether that allowance was needed.
func EqualModuloInt19(a, b *Node) (equal bool, used bool) {
	if a.Kind == 'B' && b.Kind == 'B' && a.Text != b.Text {
		// both text, spelled differently: the fast loop keeps the literal's spelling from the 19th
		// digit on ("E", "+", leading exponent zeros), the late switch renders the accumulators
		ta, e1 := UnhexF(a.Text)
		tb, e2 := UnhexF(b.Text)
		if e1 != nil || e2 != nil {
			return false, false
		}
		ip := string(ta)
		if i := strings.IndexAny(ip, ".eE"); i >= 0 {
			ip = ip[:i]
		}
		da, ok1 := ParseDec(string(ta))
		db, ok2 := ParseDec(string(tb))
		return ok1 && ok2 && isInt19(ip) && da.Equal(db), true
	}
	if a.Kind == 'B' && b.Kind != 'B' {
		a, b = b, a
	}
	if b.Kind == 'B' && (a.Kind == 'I' || a.Kind == 'F') {
		txt, err := UnhexF(b.Text)
		if err != nil {
			return false, false
		}
		t := string(txt)
		ip := t
		if i := strings.IndexAny(t, ".eE"); i >= 0 {
			ip = t[:i]
		}
		if !isInt19(ip) {
			return false, false
		}
		if a.Kind == 'I' {
			// same number, whatever the spelling of the text ("…807e0" is an int64 byte by byte —
			// exponent zero — and the text "…807e0" from the fast loop)
			da, ok1 := ParseDec(a.Text)
			db, ok2 := ParseDec(t)
			return ok1 && ok2 && da.Equal(db), true
		}
		f, _ := strconv.ParseFloat(t, 64)
		return fmt.Sprintf("%016x", math.Float64bits(f)) == a.Text, true
	}
	if a.Kind != b.Kind || len(a.Kids) != len(b.Kids) {
		return false, false
	}
	switch a.Kind {
	case '[', '{':
		for i := range a.Kids {
			if a.Kind == '{' && a.Keys[i] != b.Keys[i] {
				return false, false
			}
			eq, u := EqualModuloInt19(a.Kids[i], b.Kids[i])
			if !eq {
				return false, false
			}
			used = used || u
		}
		return true, used
	}
	return a.Text == b.Text, false
}
