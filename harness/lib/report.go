package lib

import (
	"encoding/json"
	"os"
	"sort"
	"sync"
)

// Finding is one disagreement (model vs implementation) or violation (implementation vs property).
type Finding struct {
	Kind    string         `json:"kind"`  // "violation" | "disagreement" | "known"
	Class   string         `json:"class"` // short class name, used to match known findings
	What    string         `json:"what"`
	Replay  map[string]any `json:"replay"`
	KnownID string         `json:"known_id,omitempty"`
}

// Report is what a harness hands to the runner.
type Report struct {
	mu            sync.Mutex
	Property      string         `json:"property"`
	Tier          string         `json:"tier"`
	Seed          uint64         `json:"seed"`
	Evaluations   int64          `json:"evaluations"`
	Distinct      int64          `json:"distinct_nontrivial"`
	Rule          string         `json:"rule"`
	Samples       []any          `json:"samples"`
	Distribution  map[string]int64 `json:"distribution"`
	Exhaustive    []string       `json:"exhaustive_boxes"`
	Findings      []Finding      `json:"findings"`
	FindingsTotal map[string]int64 `json:"findings_total"`
	Notes         []string       `json:"notes"`
	maxFindings   int
}

func NewReport(prop, tier string, seed uint64) *Report {
	return &Report{Property: prop, Tier: tier, Seed: seed, Distribution: map[string]int64{},
		FindingsTotal: map[string]int64{}, maxFindings: 40}
}

func (r *Report) Count(key string, n int64) {
	r.mu.Lock()
	r.Distribution[key] += n
	r.mu.Unlock()
}

func (r *Report) AddEval(n, nontrivial int64) {
	r.mu.Lock()
	r.Evaluations += n
	r.Distinct += nontrivial
	r.mu.Unlock()
}

func (r *Report) Sample(s any) {
	r.mu.Lock()
	if len(r.Samples) < 12 {
		r.Samples = append(r.Samples, s)
	}
	r.mu.Unlock()
}

// Add records a finding; at most a few per (kind, class) are kept in full.
func (r *Report) Add(f Finding) {
	r.mu.Lock()
	defer r.mu.Unlock()
	key := f.Kind + ":" + f.Class
	r.FindingsTotal[key]++
	// known findings share a cap; a violation or disagreement is never dropped for lack of room
	if r.FindingsTotal[key] <= 5 && (len(r.Findings) < 400 || f.Kind != "known") {
		r.Findings = append(r.Findings, f)
	}
}

func (r *Report) Write(path string) error {
	r.mu.Lock()
	defer r.mu.Unlock()
	sort.SliceStable(r.Findings, func(i, j int) bool { return r.Findings[i].Kind > r.Findings[j].Kind })
	js, err := json.MarshalIndent(r, "", " ")
	if err != nil {
		return err
	}
	return os.WriteFile(path, append(js, '\n'), 0o644)
}
