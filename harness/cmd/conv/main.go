// Correspondence and oracle harness for the conversions between simple and generic data
// (property C18): alt.Generify, alt.GenAlter, Node.Simplify, Node.Alter, Node.Dup, alt.Dup,
// alt.Decompose, alt.Alter, the writers clause and the parser clause.
//
// A case is a description of a JSON-like value built by the harness itself (tree.go), possibly with
// shared containers, nil containers and spare slice capacity, or a JSON text. From a description the
// harness builds fresh Go values, runs every applicable pipeline of conversions under every option
// variant through the real library and asks the Lean driver (lean/OjgVerif/Conv) what the heap model
// does with the same heap.
//
//	disagreement: model != implementation on the result value, on the input after the conversion,
//	              or on which containers of input and result are the same storage (pointer identity
//	              in Go, addresses in the model, both canonicalised as "paths that alias")
//	violation:    the implementation contradicts the property: a round trip with null-keeping
//	              options does not give the value back; writers print a generic tree and its simple
//	              equivalent differently; gen.Parser differs from Generify(oj.Parser); a copying
//	              conversion changes its input, or after it a mutation of any container of the copy
//	              is visible in the original or vice versa; a conversion panics
//	known:        a violation that is exactly a listed known finding
package main

import (
	"encoding/json"
	"flag"
	"fmt"
	"hash/fnv"
	"io"
	"os"
	"regexp"
	"runtime/debug"
	"sort"
	"strings"
	"sync"
	"sync/atomic"

	"github.com/ohler55/ojg"
	"github.com/ohler55/ojg/alt"
	"github.com/ohler55/ojg/gen"
	"github.com/ohler55/ojg/oj"
	"github.com/ohler55/ojg/pretty"
	"github.com/ohler55/ojg/sen"

	"verif/harness/lib"
)

var (
	prop    = flag.String("prop", "C18", "property id")
	tier    = flag.String("tier", "quick", "quick|thorough")
	seed    = flag.Uint64("seed", 1, "PRNG seed")
	driver  = flag.String("driver", "", "path of drv_conv")
	outPath = flag.String("out", "", "report path")
	replay  = flag.String("replay", "", "replay file")
	corpus  = flag.String("corpus", "", "corpus file: lines 'tree <text>' or 'json <hex>'")
	known   = flag.String("known", "", "known_findings.json")
	workers = flag.Int("workers", 16, "parallel workers")
)

var rep *lib.Report
var knownList []lib.Known

const (
	knownGenAlter = "C18-genalter-array-options"
	knownNumber   = "C18-generify-number"
)

// ---- pipelines ----

type pipe struct {
	steps   []string // harness step names
	generic bool     // the input is built from the node types of package gen
	inPlace bool     // the first step rewrites its input: tree-shaped inputs only
	copying bool     // a single copying conversion: mutate-after-copy experiments
	opts    bool     // some step reads options
	expect  byte     // 's' / 'g': with null-keeping options the result is the input in this form; 0: no oracle
}

// fills reports whether a step of the pipeline makes its result (Generify, Decompose, Dup): a nil
// slice or nil map of the input is an empty one in the result; every other conversion hands nil on
// and NEVER turns an empty container into nil or the other way round.
func (p *pipe) fills() bool {
	for _, s := range p.steps {
		if s == "generify" || s == "decompose" || s == "dup" {
			return true
		}
	}
	return false
}

func (p *pipe) name() string { return strings.Join(p.steps, "+") }

// model names the pipeline for the driver (alt.Dup is alt.Decompose)
func (p *pipe) model() string {
	s := make([]string, len(p.steps))
	for i, x := range p.steps {
		if x == "dup" {
			x = "decompose"
		}
		s[i] = x
	}
	return strings.Join(s, "+")
}

var pipes = []pipe{
	{steps: []string{"generify"}, copying: true, opts: true, expect: 'g'},
	{steps: []string{"generify", "simplify"}, opts: true, expect: 's'},
	{steps: []string{"generify", "nodeAlter"}, opts: true, expect: 's'},
	{steps: []string{"generify", "genDup"}, opts: true, expect: 'g'},
	{steps: []string{"genAlter"}, inPlace: true, opts: true, expect: 'g'},
	{steps: []string{"genAlter", "simplify"}, inPlace: true, opts: true, expect: 's'},
	{steps: []string{"genAlter", "nodeAlter"}, inPlace: true, opts: true, expect: 's'},
	{steps: []string{"decompose"}, copying: true, opts: true, expect: 's'},
	{steps: []string{"dup"}, copying: true, opts: true, expect: 's'},
	{steps: []string{"altAlter"}, inPlace: true, opts: true, expect: 's'},
	{steps: []string{"simplify"}, generic: true, copying: true, expect: 's'},
	{steps: []string{"nodeAlter"}, generic: true, inPlace: true, expect: 's'},
	{steps: []string{"genDup"}, generic: true, copying: true, expect: 'g'},
	{steps: []string{"generify"}, generic: true, opts: true}, // a Node is returned as it is
	{steps: []string{"genAlter"}, generic: true, opts: true}, // likewise
}

var optVariants = []string{"00", "d", "10", "01", "11"}

func optsOf(code string) *ojg.Options {
	if code == "d" {
		return nil
	}
	return &ojg.Options{OmitNil: code[0] == '1', OmitEmpty: code[1] == '1'}
}

// step applies one conversion of the real library.
func step(name string, v any, opt *ojg.Options) any {
	switch name {
	case "generify":
		var n gen.Node
		if opt == nil {
			n = alt.Generify(v)
		} else {
			n = alt.Generify(v, opt)
		}
		return nodeAny(n)
	case "genAlter":
		var n gen.Node
		if opt == nil {
			n = alt.GenAlter(v)
		} else {
			n = alt.GenAlter(v, opt)
		}
		return nodeAny(n)
	case "simplify":
		if v == nil {
			return nil // a nil Node has no methods; parents test `m == nil` the same way
		}
		return v.(gen.Node).Simplify()
	case "nodeAlter":
		if v == nil {
			return nil
		}
		return v.(gen.Node).Alter()
	case "genDup":
		if v == nil {
			return nil
		}
		return nodeAny(v.(gen.Node).Dup())
	case "decompose":
		if opt == nil {
			return alt.Decompose(v)
		}
		return alt.Decompose(v, opt)
	case "dup":
		if opt == nil {
			return alt.Dup(v)
		}
		return alt.Dup(v, opt)
	case "altAlter":
		if opt == nil {
			return alt.Alter(v)
		}
		return alt.Alter(v, opt)
	}
	panic("unknown step " + name)
}

func runPipe(p *pipe, v any, opt *ojg.Options) (res any, pan string) {
	defer func() {
		if r := recover(); r != nil {
			pan = fmt.Sprint(r)
		}
	}()
	res = v
	for _, s := range p.steps {
		res = step(s, res, opt)
	}
	return res, ""
}

// ---- mutation ----

const mutMark = "\x00mutated"

// mutateAll changes every container reachable from v: replaces every element and member value,
// adds a member, deletes a member, appends to every slice.
func mutateAll(v any) {
	var cs []any
	var collect func(x any, d int)
	collect = func(x any, d int) {
		if d > 200 {
			return
		}
		switch t := x.(type) {
		case []any:
			cs = append(cs, t)
			for _, e := range t {
				collect(e, d+1)
			}
		case gen.Array:
			cs = append(cs, t)
			for _, e := range t {
				collect(nodeAny(e), d+1)
			}
		case map[string]any:
			if t != nil {
				cs = append(cs, t)
			}
			for _, e := range t {
				collect(e, d+1)
			}
		case gen.Object:
			if t != nil {
				cs = append(cs, t)
			}
			for _, e := range t {
				collect(nodeAny(e), d+1)
			}
		}
	}
	collect(v, 0)
	for _, c := range cs {
		switch t := c.(type) {
		case []any:
			for i := range t {
				t[i] = mutMark
			}
			_ = append(t, mutMark)
		case gen.Array:
			for i := range t {
				t[i] = gen.String(mutMark)
			}
			_ = append(t, gen.String(mutMark))
		case map[string]any:
			ks := sortedKeys(t)
			for _, k := range ks {
				t[k] = mutMark
			}
			if len(ks) > 0 {
				delete(t, ks[0])
			}
			t[mutMark] = mutMark
		case gen.Object:
			ks := sortedKeysG(t)
			for _, k := range ks {
				t[k] = gen.String(mutMark)
			}
			if len(ks) > 0 {
				delete(t, ks[0])
			}
			t[mutMark] = gen.String(mutMark)
		}
	}
}

// ---- findings ----

func add(kind, class, what string, replayData map[string]any, knownID string) {
	f := lib.Finding{Kind: kind, Class: class, What: what, Replay: replayData}
	if knownID != "" {
		if lib.HasKnown(knownList, knownID) {
			f.Kind = "known"
			f.KnownID = knownID
		}
	}
	rep.Add(f)
}

// ---- one tree case ----

type treeJob struct {
	n *node
}

type pending struct {
	p        *pipe
	oc       string
	resTxt   string
	postTxt  string // input after the pipeline ("" when the input was rewritten in place)
	alias    string
	pan      string
	replay   map[string]any
	reqIndex int
}

func treeCase(d *lib.Driver, n *node) error {
	txt := n.text()
	isShared := n.shared()
	big := n.hasBig()
	mixS, mixC := n.mixed()
	mix := mixS || mixC // generic nodes inside simple data: outside the property, correspondence only
	var reqs []string
	var pend []*pending
	for pi := range pipes {
		p := &pipes[pi]
		if p.inPlace && isShared {
			continue // the casts reinterpret cells that were already rewritten: undefined in Go
		}
		if mix && p.generic {
			continue // built all-generic it is the same case as the unmixed description
		}
		if mixC && (p.steps[0] == "decompose" || p.steps[0] == "dup" || p.steps[0] == "altAlter") {
			continue // a generic container takes the Simplifier route of decompose/alter: not modelled
		}
		if mixC && p.name() == "generify+nodeAlter" {
			continue // Generify hands a generic container on as it is, Alter then rewrites the input's own cell
		}
		variants := optVariants
		if !p.opts {
			variants = optVariants[:1]
		}
		heap, root := n.heapText(p.generic)
		for _, oc := range variants {
			opt := optsOf(oc)
			rp := map[string]any{"tree": txt, "pipeline": p.name(), "options": oc, "generic_input": p.generic}
			v := n.build(p.generic, map[*node]any{})
			pre := renderVal(v)
			var origIDs, resIDs []occ
			identities(v, "", &origIDs, 0)
			res, pan := runPipe(p, v, opt)
			rep.Count("runs."+p.name(), 1)
			pe := &pending{p: p, oc: oc, pan: pan, replay: rp, reqIndex: len(reqs)}
			reqs = append(reqs, "run\t"+p.model()+"\t"+oc+"\t"+heap+"\t"+root)
			pend = append(pend, pe)
			if pan != "" {
				add("violation", "panic:"+p.name(), "conversion panicked: "+pan, rp, "")
				continue
			}
			pe.resTxt = renderVal(res)
			identities(res, "", &resIDs, 0)
			pe.alias = aliasCanon(origIDs, resIDs)
			if !p.inPlace {
				pe.postTxt = renderVal(v)
				// a copying conversion must leave its input alone
				if pe.postTxt != pre {
					rp2 := cloneMap(rp)
					rp2["input_before"], rp2["input_after"] = pre, pe.postTxt
					add("violation", "alias:"+p.name()+":input-changed", "the conversion changed its input", rp2, "")
				}
			}
			// value oracle: null-keeping options, JSON-like data
			if p.expect != 0 && oc == "00" && !big && !mix {
				want := n.expected(p.expect == 'g', p.fills())
				if pe.resTxt != want {
					rp2 := cloneMap(rp)
					rp2["want"], rp2["got"] = want, pe.resTxt
					kid := ""
					if p.steps[0] == "genAlter" {
						changed := false
						dropped := n.dropNullsBelowSlice(false, &changed)
						if changed && dropped.expected(p.expect == 'g', p.fills()) == pe.resTxt {
							kid = knownGenAlter
						}
					}
					add("violation", "value:"+p.name(), "the value does not survive the conversion with null-keeping options", rp2, kid)
				}
			}
			// mutate-after-copy experiments
			if p.copying && !mix {
				mutationExperiments(p, n, oc, rp)
			}
		}
	}
	// writers clause
	if !big && !mix {
		writersClause(n, txt)
	}
	ans, err := d.Ask(reqs)
	if err != nil {
		return err
	}
	for _, pe := range pend {
		a := ans[pe.reqIndex]
		if pe.pan != "" {
			continue
		}
		rp := cloneMap(pe.replay)
		rp["model"] = a
		rp["impl_result"] = pe.resTxt
		if !strings.HasPrefix(a, "ok|") {
			add("disagreement", "model-none:"+pe.p.name(), "the model has no answer ("+a+") where the implementation returns a value", rp, "")
			continue
		}
		f := strings.Split(a, "|")
		if len(f) != 5 {
			return fmt.Errorf("malformed driver answer %q", a)
		}
		if f[1] != pe.resTxt {
			add("disagreement", "model-value:"+pe.p.name(), "model and implementation return different values", rp, "")
		}
		if pe.postTxt != "" && f[2] != pe.postTxt {
			rp["impl_input_after"] = pe.postTxt
			add("disagreement", "model-input:"+pe.p.name(), "model and implementation differ on the input after the conversion", rp, "")
		}
		mo, e1 := modelOccs(f[3])
		mr, e2 := modelOccs(f[4])
		if e1 != nil || e2 != nil {
			return fmt.Errorf("malformed occurrences in %q", a)
		}
		if ma := aliasCanon(mo, mr); ma != pe.alias {
			rp["model_alias"], rp["impl_alias"] = ma, pe.alias
			add("disagreement", "model-alias:"+pe.p.name(), "model and implementation differ on which containers are the same storage", rp, "")
		}
	}
	return nil
}

func cloneMap(m map[string]any) map[string]any {
	c := make(map[string]any, len(m)+4)
	for k, v := range m {
		c[k] = v
	}
	return c
}

func mutationExperiments(p *pipe, n *node, oc string, rp map[string]any) {
	opt := optsOf(oc)
	defer func() {
		if r := recover(); r != nil {
			add("violation", "panic:"+p.name(), "mutation experiment panicked: "+fmt.Sprint(r), rp, "")
		}
	}()
	// A: mutate the copy, watch the original
	v := n.build(p.generic, map[*node]any{})
	pre := renderVal(v)
	c, pan := runPipe(p, v, opt)
	if pan != "" {
		return
	}
	mutateAll(c)
	if got := renderVal(v); got != pre {
		rp2 := cloneMap(rp)
		rp2["original_before"], rp2["original_after"] = pre, got
		add("violation", "alias:"+p.name()+":copy-to-original", "mutating the copy changed the original", rp2, "")
	}
	// B: mutate the original, watch the copy
	v = n.build(p.generic, map[*node]any{})
	c, pan = runPipe(p, v, opt)
	if pan != "" {
		return
	}
	snap := renderVal(c)
	mutateAll(v)
	if got := renderVal(c); got != snap {
		rp2 := cloneMap(rp)
		rp2["copy_before"], rp2["copy_after"] = snap, got
		add("violation", "alias:"+p.name()+":original-to-copy", "mutating the original changed the copy", rp2, "")
	}
	rep.Count("mutation_experiments", 2)
}

// ---- writers clause ----

type writer struct {
	name string
	f    func(v any) string
}

var writers = []writer{
	{"oj.JSON(sort)", func(v any) string { return oj.JSON(v, &ojg.Options{Sort: true}) }},
	{"oj.JSON(sort,indent)", func(v any) string { return oj.JSON(v, &ojg.Options{Sort: true, Indent: 2}) }},
	{"oj.JSON(sort,omitnil)", func(v any) string { return oj.JSON(v, &ojg.Options{Sort: true, OmitNil: true}) }},
	{"oj.JSON(sort,omitempty)", func(v any) string { return oj.JSON(v, &ojg.Options{Sort: true, OmitEmpty: true}) }},
	{"oj.Marshal(sort) [strict: nil slice is null]", func(v any) string {
		b, err := oj.Marshal(v, &ojg.Options{Sort: true})
		if err != nil {
			return "error: " + err.Error()
		}
		return string(b)
	}},
	{"sen.String(sort)", func(v any) string { return sen.String(v, &ojg.Options{Sort: true}) }},
	{"pretty.JSON(sort)", func(v any) string { return pretty.JSON(v, &ojg.Options{Sort: true}) }},
	{"pretty.SEN(sort)", func(v any) string { return pretty.SEN(v, &ojg.Options{Sort: true}) }},
}

func safeWrite(w writer, v any) (out string) {
	defer func() {
		if r := recover(); r != nil {
			out = "panic: " + fmt.Sprint(r)
		}
	}()
	return w.f(v)
}

func writersClause(n *node, txt string) {
	s := n.build(false, map[*node]any{})
	g := n.build(true, map[*node]any{})
	for _, w := range writers {
		a, b := safeWrite(w, s), safeWrite(w, g)
		rep.Count("writer_pairs", 1)
		if a != b {
			add("violation", "writers:"+w.name, "a generic tree and its simple equivalent are written differently",
				map[string]any{"tree": txt, "writer": w.name, "simple": clip(a), "generic": clip(b)}, "")
		}
	}
}

func clip(s string) string {
	if len(s) > 300 {
		return s[:300] + "…"
	}
	return s
}

// ---- parser clause ----

// renderBigAsNull renders a generic tree with every gen.Big replaced by nil: what Generify makes of
// the json.Number oj.Parser delivered in the same place before repository commit ffa6627 (finding
// C18-generify-number, now in the fixed list; only consulted while that id is in the known list).
func renderBigAsNull(v any) string {
	switch t := v.(type) {
	case gen.Big:
		return "n"
	case gen.Array:
		if t == nil {
			return "X"
		}
		parts := make([]string, len(t))
		for i, x := range t {
			parts[i] = renderBigAsNull(nodeAny(x))
		}
		return "<" + strings.Join(parts, ",") + ">"
	case gen.Object:
		if t == nil {
			return "Y"
		}
		ks := sortedKeysG(t)
		parts := make([]string, len(ks))
		for i, k := range ks {
			parts[i] = hx(k) + ":" + renderBigAsNull(nodeAny(t[k]))
		}
		return "(" + strings.Join(parts, ",") + ")"
	}
	return renderVal(v)
}

func parserClause(text string) {
	rp := map[string]any{"json_hex": lib.HexF([]byte(text)), "json_text": clip(text)}
	type out struct {
		v   any
		err string
	}
	run := func(f func() (any, error)) (o out) {
		defer func() {
			if r := recover(); r != nil {
				o.err = "panic: " + fmt.Sprint(r)
			}
		}()
		v, err := f()
		if err != nil {
			return out{nil, "error"}
		}
		return out{v, ""}
	}
	g := run(func() (any, error) {
		var p gen.Parser
		n, err := p.Parse([]byte(text))
		return nodeAny(n), err
	})
	s := run(func() (any, error) {
		var p oj.Parser
		return p.Parse([]byte(text))
	})
	if strings.HasPrefix(g.err, "panic") || strings.HasPrefix(s.err, "panic") {
		add("violation", "panic:parser", "a parser panicked: "+g.err+" / "+s.err, rp, "")
		return
	}
	if g.err != s.err {
		rp["gen"], rp["oj"] = g.err, s.err
		add("violation", "parser:accept", "gen.Parser and oj.Parser disagree on accepting the text", rp, "")
		return
	}
	if g.err != "" {
		rep.Count("parser.rejected", 1)
		return
	}
	rep.Count("parser.compared", 1)
	var conv any
	pan := ""
	func() {
		defer func() {
			if r := recover(); r != nil {
				pan = fmt.Sprint(r)
			}
		}()
		conv = nodeAny(alt.Generify(s.v, &ojg.Options{}))
	}()
	if pan != "" {
		add("violation", "panic:generify", "Generify panicked on oj.Parser output: "+pan, rp, "")
		return
	}
	// the way back: gen.Parser output simplified / altered is exactly what oj.Parser delivers
	// (empty containers stay empty, nothing becomes nil); a number held as text is a plain string
	// after Big.Simplify, so texts with such numbers are left to the check above
	if ga := renderVal(g.v); !strings.Contains(ga, "G") {
		want := renderVal(s.v)
		for _, back := range []string{"simplify", "nodeAlter"} {
			var got string
			func() {
				defer func() {
					if r := recover(); r != nil {
						got = "panic: " + fmt.Sprint(r)
					}
				}()
				var p gen.Parser
				n, _ := p.Parse([]byte(text))
				got = renderVal(step(back, nodeAny(n), nil))
			}()
			if got != want {
				rp2 := cloneMap(rp)
				rp2["oj_parser"], rp2["gen_parser_"+back] = clip(want), clip(got)
				add("violation", "parser:"+back, "gen.Parser output converted back differs from oj.Parser output", rp2, "")
			}
		}
	}
	a, b := renderVal(g.v), renderVal(conv)
	readerClause(text, a, rp)
	if a == b {
		return
	}
	rp["gen_parser"], rp["generify_oj_parser"] = clip(a), clip(b)
	kid := ""
	if renderBigAsNull(g.v) == b {
		kid = knownNumber
	}
	add("violation", "parser:value", "gen.Parser output differs from Generify(oj.Parser output)", rp, kid)
}

// ---- parser clause through the io.Reader entry points ----

// chunkReader delivers data in the pieces given by cuts (ascending offsets); a Read never crosses a
// cut, so every cut is the end of one read buffer of the parser.
type chunkReader struct {
	data []byte
	cuts []int
	pos  int
}

func (r *chunkReader) Read(p []byte) (int, error) {
	if r.pos >= len(r.data) {
		return 0, io.EOF
	}
	end := len(r.data)
	for _, c := range r.cuts {
		if c > r.pos {
			if c < end {
				end = c
			}
			break
		}
	}
	n := copy(p, r.data[r.pos:end])
	r.pos += n
	return n, nil
}

// chunkings for a text: a cut after every `"`; one cut after each single `"` (all of them for few
// quotes, a sample otherwise); seeded random cut sets; one byte at a time for short texts.
func chunkingsFor(text string) [][]int {
	n := len(text)
	var quotes []int
	for i := 0; i < n-1; i++ {
		if text[i] == '"' {
			quotes = append(quotes, i+1)
		}
	}
	h := fnv.New64a()
	h.Write([]byte(text))
	r := lib.NewRng(h.Sum64())
	var out [][]int
	if len(quotes) > 0 {
		out = append(out, quotes)
		if len(quotes) <= 12 {
			for _, q := range quotes {
				out = append(out, []int{q})
			}
		} else {
			for k := 0; k < 6; k++ {
				out = append(out, []int{quotes[r.Intn(len(quotes))]})
			}
		}
	}
	if n >= 2 {
		for k := 0; k < 2; k++ {
			m := 1 + r.Intn(4)
			set := map[int]bool{}
			for i := 0; i < m; i++ {
				set[1+r.Intn(n-1)] = true
			}
			var cuts []int
			for c := range set {
				cuts = append(cuts, c)
			}
			sort.Ints(cuts)
			out = append(out, cuts)
		}
	}
	if n >= 2 && n <= 64 {
		ones := make([]int, n-1)
		for i := range ones {
			ones[i] = i + 1
		}
		out = append(out, ones)
	}
	return out
}

// the parsers' integer fast loop turns 9223372036854775800..807 into text when the digits arrive in
// one buffer and into an int64 otherwise (known finding C03-int19, property C03): reader results for
// texts with such digits are compared between the two parsers only, not with the []byte result
var int19Re = regexp.MustCompile(`92233720368547758\d\d`)

// readerClause: for every chunking, gen.Parser.ParseReader equals Generify(oj.Parser.ParseReader) on
// the same chunks, and equals gen.Parser.Parse of the whole text (bytesTxt).
func readerClause(text, bytesTxt string, rp map[string]any) {
	for _, cuts := range chunkingsFor(text) {
		rep.Count("parser.reader_runs", 1)
		var gTxt, sTxt string
		func() {
			defer func() {
				if r := recover(); r != nil {
					gTxt = "panic: " + fmt.Sprint(r)
				}
			}()
			var p gen.Parser
			n, err := p.ParseReader(&chunkReader{data: []byte(text), cuts: cuts})
			if err != nil {
				gTxt = "error"
				return
			}
			gTxt = renderVal(nodeAny(n))
		}()
		func() {
			defer func() {
				if r := recover(); r != nil {
					sTxt = "panic: " + fmt.Sprint(r)
				}
			}()
			var p oj.Parser
			v, err := p.ParseReader(&chunkReader{data: []byte(text), cuts: cuts})
			if err != nil {
				sTxt = "error"
				return
			}
			sTxt = renderVal(nodeAny(alt.Generify(v, &ojg.Options{})))
		}()
		if gTxt == sTxt && (gTxt == bytesTxt || int19Re.MatchString(text)) {
			continue
		}
		rp2 := cloneMap(rp)
		rp2["cuts"] = fmt.Sprint(cuts)
		rp2["gen_parse_reader"], rp2["generify_oj_parse_reader"], rp2["gen_parse_bytes"] = clip(gTxt), clip(sTxt), clip(bytesTxt)
		if strings.HasPrefix(gTxt, "panic") || strings.HasPrefix(sTxt, "panic") {
			add("violation", "panic:parser-reader", "a parser panicked on a chunked reader", rp2, "")
		} else if gTxt != sTxt {
			kid := ""
			if strings.Contains(gTxt, "G") && strings.ReplaceAll(sTxt, "n", "") != sTxt {
				kid = knownNumber // only while that id is still in the known list
			}
			add("violation", "parser:reader-value", "gen.Parser.ParseReader differs from Generify(oj.Parser.ParseReader) on the same chunks", rp2, kid)
		} else {
			add("violation", "parser:reader-chunking", "gen.Parser.ParseReader depends on how the reader is chunked (differs from Parse of the whole text)", rp2, "")
		}
	}
}

// ---- main ----

type job struct {
	n    *node
	text string
	json bool
}

// safeCase runs one case; a panic outside the guarded conversions (say while reading a value that a
// wrong cast has corrupted) is a finding of that case.
func safeCase(d *lib.Driver, j job) (err error) {
	defer func() {
		if r := recover(); r != nil {
			rp := map[string]any{}
			if j.json {
				rp["json_hex"] = lib.HexF([]byte(j.text))
			} else {
				rp["tree"] = j.n.text()
			}
			if os.Getenv("VERIF_TRACE") != "" {
				debug.PrintStack()
			}
			add("violation", "panic:case", "reading the values of this case panicked: "+fmt.Sprint(r), rp, "")
		}
	}()
	if j.json {
		parserClause(j.text)
		return nil
	}
	return treeCase(d, j.n)
}

func main() {
	flag.Parse()
	rep = lib.NewReport(*prop, *tier, *seed)
	knownList = lib.LoadKnown(*known, *prop)
	if *replay != "" {
		runReplay()
		return
	}
	full := *tier == "thorough"
	jobs := make(chan []job, 64)
	var wg sync.WaitGroup
	var fatal atomic.Value
	for w := 0; w < *workers; w++ {
		wg.Add(1)
		go func() {
			defer wg.Done()
			debug.SetPanicOnFault(true) // a wild pointer made by a wrong cast is a panic of this case, not the end of the run
			d, err := lib.StartDriver(*driver)
			if err != nil {
				fatal.Store(err.Error())
				for range jobs {
				}
				return
			}
			defer d.Close()
			for batch := range jobs {
				for _, j := range batch {
					if err := safeCase(d, j); err != nil {
						fatal.Store(err.Error())
					}
				}
			}
		}()
	}
	var cur []job
	seen := map[string]struct{}{}
	emitJob := func(j job, key, stream string) {
		if _, dup := seen[key]; dup {
			rep.Count("stream.duplicates_skipped", 1)
			return
		}
		seen[key] = struct{}{}
		rep.Count("stream."+stream, 1)
		nontrivial := int64(1)
		if !j.json && !j.n.container() {
			nontrivial = 0
		}
		rep.AddEval(1, nontrivial)
		if len(rep.Samples) < 10 && len(seen)%997 == 1 {
			if j.json {
				rep.Sample(map[string]any{"json": clip(j.text)})
			} else {
				rep.Sample(map[string]any{"tree": clip(key)})
			}
		}
		cur = append(cur, j)
		if len(cur) >= 32 {
			jobs <- cur
			cur = nil
		}
	}
	emitTree := func(stream string) func(*node) {
		return func(n *node) { emitJob(job{n: n}, "t"+n.text(), stream) }
	}
	// 1. corpus
	if *corpus != "" {
		if data, err := os.ReadFile(*corpus); err == nil {
			for _, line := range strings.Split(string(data), "\n") {
				f := strings.Fields(line)
				if len(f) < 2 || strings.HasPrefix(line, "#") {
					continue
				}
				switch f[0] {
				case "tree":
					if n, err := parseText(f[1]); err == nil {
						emitTree("corpus")(n)
					}
				case "json":
					if b, err := lib.UnhexF(f[1]); err == nil {
						emitJob(job{text: string(b), json: true}, "j"+string(b), "corpus")
					}
				}
			}
		}
	}
	// 2. boundary shapes
	for _, n := range boundaryTrees() {
		emitTree("boundary")(n)
	}
	// 3. exhaustive box
	rep.Exhaustive = append(rep.Exhaustive, exhaustiveBox(full, emitTree("exhaustive"))+
		fmt.Sprintf(" x %d pipelines x option variants %v", len(pipes), optVariants))
	// 4. random trees
	nTrees := 24000
	if full {
		nTrees = 240000
	}
	base := lib.NewRng(*seed)
	for i := 0; i < nTrees; i++ {
		g := &treeGen{r: base.Fork(i), storage: i%3 == 1, share: i%4 == 2, big: i%10 == 9}
		if i%7 == 6 {
			g.mixed = 1 + (i/7)%2
			g.share = false
		}
		stream := "random_plain"
		switch {
		case g.mixed > 0:
			stream = "random_generic_nodes_inside_simple"
		case g.big:
			stream = "random_with_big_numbers"
		case g.share:
			stream = "random_shared"
		case g.storage:
			stream = "random_nil_and_capacity"
		}
		emitTree(stream)(g.root(2 + i%4))
	}
	// 5. JSON texts (parser clause)
	nDocs := 80000
	if full {
		nDocs = 1000000
	}
	tg := &textGen{r: base.Fork(1 << 30)}
	for _, t := range []string{`["a\tb","xyz"]`, `{"k\n":"v","w":["x","y\u0041"]}`, "null", "[]", "{}", "1e400", "[123456789012345678901234567890]", `{"a":1,"a":2}`, "-0", "-0.0"} {
		emitJob(job{text: t, json: true}, "j"+t, "json_boundary")
	}
	for i := 0; i < nDocs; i++ {
		t := tg.doc()
		emitJob(job{text: t, json: true}, "j"+t, "json_random")
	}
	if len(cur) > 0 {
		jobs <- cur
	}
	close(jobs)
	wg.Wait()
	if e := fatal.Load(); e != nil {
		fmt.Fprintln(os.Stderr, "harness failure:", e)
		os.Exit(3)
	}
	rep.Rule = "cases: corpus, boundary shapes, every tree of the exhaustive box, seeded random trees (plain / nil containers and spare capacity / shared containers / big-number leaves), seeded random JSON texts; every tree through every applicable pipeline x option variant (in-place pipelines on unshared trees only) with value, input-unchanged, aliasing and mutate-after-copy checks and the writers clause; every text through the parser clause; duplicates dropped by canonical text; distinct_nontrivial counts containers and texts"
	if err := rep.Write(*outPath); err != nil {
		fmt.Fprintln(os.Stderr, err)
		os.Exit(3)
	}
}

func runReplay() {
	data, err := os.ReadFile(*replay)
	if err != nil {
		fmt.Fprintln(os.Stderr, err)
		os.Exit(3)
	}
	var r struct {
		Replay map[string]any `json:"replay"`
	}
	_ = json.Unmarshal(data, &r)
	if r.Replay == nil {
		_ = json.Unmarshal(data, &r.Replay)
	}
	d, err := lib.StartDriver(*driver)
	if err != nil {
		fmt.Fprintln(os.Stderr, err)
		os.Exit(3)
	}
	defer d.Close()
	if t, ok := r.Replay["tree"].(string); ok {
		n, err := parseText(t)
		if err != nil {
			fmt.Fprintln(os.Stderr, "bad tree in replay:", err)
			os.Exit(3)
		}
		if err := safeCase(d, job{n: n}); err != nil {
			fmt.Fprintln(os.Stderr, err)
			os.Exit(3)
		}
	} else if h, ok := r.Replay["json_hex"].(string); ok {
		b, err := lib.UnhexF(h)
		if err != nil {
			fmt.Fprintln(os.Stderr, "bad json_hex in replay:", err)
			os.Exit(3)
		}
		parserClause(string(b))
	} else {
		fmt.Fprintln(os.Stderr, "replay file has neither tree nor json_hex")
		os.Exit(3)
	}
	rep.Rule = "replay of one case"
	_ = rep.Write(*outPath)
	for _, f := range rep.Findings {
		fmt.Printf("%s %s: %s\n", f.Kind, f.Class, f.What)
	}
}
