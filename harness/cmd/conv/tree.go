package main

import (
	"encoding/hex"
	"encoding/json"
	"fmt"
	"math"
	"reflect"
	"sort"
	"strconv"
	"strings"

	"github.com/ohler55/ojg/gen"
)

// node is the harness's own description of a JSON-like value. Go values (simple or generic) are
// built from it as often as needed (the in-place conversions destroy their input), the expected
// trees and the heap sent to the Lean driver are derived from it, never from the library.
// The same *node at two places of a description means one shared Go slice or map.
type node struct {
	k        byte // n b i d s g a o
	b        bool
	i        int64
	f        float64
	s        string // string payload or big-number text
	kids     []*node
	keys     []string // o: distinct, sorted
	nilC     bool     // a/o: nil slice / nil map
	extraCap int      // a: spare capacity of the slice
	g        bool     // this node (and everything below it) is of the generic family even inside simple data
}

func (n *node) container() bool { return n.k == 'a' || n.k == 'o' }

func hx(s string) string { return hex.EncodeToString([]byte(s)) }

// build makes a fresh Go value. generic selects the node types of package gen.
func (n *node) build(generic bool, memo map[*node]any) any {
	generic = generic || n.g
	switch n.k {
	case 'n':
		return nil
	case 'b':
		if generic {
			return gen.Bool(n.b)
		}
		return n.b
	case 'i':
		if generic {
			return gen.Int(n.i)
		}
		return n.i
	case 'd':
		if generic {
			return gen.Float(n.f)
		}
		return n.f
	case 's':
		if generic {
			return gen.String(n.s)
		}
		return n.s
	case 'g':
		if generic {
			return gen.Big(n.s)
		}
		return json.Number(n.s)
	}
	if v, ok := memo[n]; ok {
		return v
	}
	var out any
	switch n.k {
	case 'a':
		if generic {
			var a gen.Array
			if !n.nilC {
				a = make(gen.Array, len(n.kids), len(n.kids)+n.extraCap)
				for i, c := range n.kids {
					if v := c.build(true, memo); v != nil {
						a[i] = v.(gen.Node)
					}
				}
			}
			out = a
		} else {
			var a []any
			if !n.nilC {
				a = make([]any, len(n.kids), len(n.kids)+n.extraCap)
				for i, c := range n.kids {
					a[i] = c.build(false, memo)
				}
			}
			out = a
		}
	case 'o':
		if generic {
			var o gen.Object
			if !n.nilC {
				o = gen.Object{}
				for i, c := range n.kids {
					if v := c.build(true, memo); v != nil {
						o[n.keys[i]] = v.(gen.Node)
					} else {
						o[n.keys[i]] = nil
					}
				}
			}
			out = o
		} else {
			var o map[string]any
			if !n.nilC {
				o = map[string]any{}
				for i, c := range n.kids {
					o[n.keys[i]] = c.build(false, memo)
				}
			}
			out = o
		}
	}
	memo[n] = out
	return out
}

func tag(generic bool, lo, up string) string {
	if generic {
		return up
	}
	return lo
}

// expect renders the value the description denotes in the syntax of T.render (Conv/Spec.lean).
// A nil slice is `x`/`X` and a nil map `y`/`Y`: values of their own, not the empty containers; with
// fill they are rendered as the empty containers (what a conversion that makes its result returns).
func (n *node) expect(generic, fill bool, sb *strings.Builder) {
	generic = generic || n.g
	if n.container() && n.nilC && !fill {
		if n.k == 'a' {
			sb.WriteString(tag(generic, "x", "X"))
		} else {
			sb.WriteString(tag(generic, "y", "Y"))
		}
		return
	}
	switch n.k {
	case 'n':
		sb.WriteString("n")
	case 'b':
		sb.WriteString(tag(generic, "b", "B"))
		if n.b {
			sb.WriteString("1")
		} else {
			sb.WriteString("0")
		}
	case 'i':
		sb.WriteString(tag(generic, "i", "I") + strconv.FormatInt(n.i, 10))
	case 'd':
		sb.WriteString(tag(generic, "d", "D") + fmt.Sprintf("%016x", math.Float64bits(n.f)))
	case 's':
		sb.WriteString(tag(generic, "s", "S") + hx(n.s))
	case 'g':
		sb.WriteString(tag(generic, "g", "G") + hx(n.s))
	case 'a':
		sb.WriteString(tag(generic, "[", "<"))
		for i, c := range n.kids {
			if i > 0 {
				sb.WriteByte(',')
			}
			c.expect(generic, fill, sb)
		}
		sb.WriteString(tag(generic, "]", ">"))
	case 'o':
		sb.WriteString(tag(generic, "{", "("))
		for i, c := range n.kids {
			if i > 0 {
				sb.WriteByte(',')
			}
			sb.WriteString(hx(n.keys[i]) + ":")
			c.expect(generic, fill, sb)
		}
		sb.WriteString(tag(generic, "}", ")"))
	}
}

func (n *node) expected(generic, fill bool) string {
	var sb strings.Builder
	n.expect(generic, fill, &sb)
	return sb.String()
}

// renderVal renders a Go value produced by the library in the same syntax; types are exact
// (int64 vs gen.Int, float64 by bits, string vs gen.String vs json.Number …). A nil slice (`x`/`X`)
// and a nil map (`y`/`Y`) are told apart from the empty ones, as reflect.DeepEqual and the strict
// writers do.
func renderVal(v any) string {
	var sb strings.Builder
	renderInto(&sb, v, 0)
	return sb.String()
}

func renderInto(sb *strings.Builder, v any, depth int) {
	if depth > 200 {
		sb.WriteString("?deep")
		return
	}
	switch t := v.(type) {
	case nil:
		sb.WriteString("n")
	case bool:
		sb.WriteString("b" + b01(t))
	case gen.Bool:
		sb.WriteString("B" + b01(bool(t)))
	case int64:
		sb.WriteString("i" + strconv.FormatInt(t, 10))
	case gen.Int:
		sb.WriteString("I" + strconv.FormatInt(int64(t), 10))
	case float64:
		fmt.Fprintf(sb, "d%016x", math.Float64bits(t))
	case gen.Float:
		fmt.Fprintf(sb, "D%016x", math.Float64bits(float64(t)))
	case string:
		sb.WriteString("s" + hx(t))
	case gen.String:
		sb.WriteString("S" + hx(string(t)))
	case json.Number:
		sb.WriteString("g" + hx(string(t)))
	case gen.Big:
		sb.WriteString("G" + hx(string(t)))
	case []any:
		if t == nil {
			sb.WriteByte('x')
			return
		}
		sb.WriteByte('[')
		for i, x := range t {
			if i > 0 {
				sb.WriteByte(',')
			}
			renderInto(sb, x, depth+1)
		}
		sb.WriteByte(']')
	case gen.Array:
		if t == nil {
			sb.WriteByte('X')
			return
		}
		sb.WriteByte('<')
		for i, x := range t {
			if i > 0 {
				sb.WriteByte(',')
			}
			renderInto(sb, nodeAny(x), depth+1)
		}
		sb.WriteByte('>')
	case map[string]any:
		if t == nil {
			sb.WriteByte('y')
			return
		}
		sb.WriteByte('{')
		for i, k := range sortedKeys(t) {
			if i > 0 {
				sb.WriteByte(',')
			}
			sb.WriteString(hx(k) + ":")
			renderInto(sb, t[k], depth+1)
		}
		sb.WriteByte('}')
	case gen.Object:
		if t == nil {
			sb.WriteByte('Y')
			return
		}
		sb.WriteByte('(')
		for i, k := range sortedKeysG(t) {
			if i > 0 {
				sb.WriteByte(',')
			}
			sb.WriteString(hx(k) + ":")
			renderInto(sb, nodeAny(t[k]), depth+1)
		}
		sb.WriteByte(')')
	default:
		// no reflection here: after a wrong cast the type word may not be a type at all
		sb.WriteString("?other-type")
	}
}

func nodeAny(n gen.Node) any {
	if n == nil {
		return nil
	}
	return n
}

func b01(b bool) string {
	if b {
		return "1"
	}
	return "0"
}

func sortedKeys(m map[string]any) []string {
	ks := make([]string, 0, len(m))
	for k := range m {
		ks = append(ks, k)
	}
	sort.Strings(ks)
	return ks
}

func sortedKeysG(m gen.Object) []string {
	ks := make([]string, 0, len(m))
	for k := range m {
		ks = append(ks, k)
	}
	sort.Strings(ks)
	return ks
}

// heapText encodes the description as the heap + root reference of the driver protocol.
func (n *node) heapText(generic bool) (heap, root string) {
	var cells []string
	addr := map[*node]int{}
	var ref func(x *node, generic bool) string
	ref = func(x *node, generic bool) string {
		generic = generic || x.g
		switch x.k {
		case 'n':
			return "n"
		case 'b':
			return tag(generic, "b", "B") + b01(x.b)
		case 'i':
			return tag(generic, "i", "I") + strconv.FormatInt(x.i, 10)
		case 'd':
			return tag(generic, "d", "D") + fmt.Sprintf("%016x", math.Float64bits(x.f))
		case 's':
			return tag(generic, "s", "S") + hx(x.s)
		case 'g':
			return tag(generic, "g", "G") + hx(x.s)
		}
		if x.nilC {
			if x.k == 'a' {
				return tag(generic, "x", "X")
			}
			return tag(generic, "y", "Y")
		}
		a, ok := addr[x]
		if !ok {
			a = len(cells)
			addr[x] = a
			cells = append(cells, "")
			parts := make([]string, len(x.kids))
			for i, c := range x.kids {
				if x.k == 'a' {
					parts[i] = ref(c, generic)
				} else {
					parts[i] = hx(x.keys[i]) + "=" + ref(c, generic)
				}
			}
			cells[a] = string(x.k) + ":" + strings.Join(parts, ",")
		}
		return tag(generic, string(x.k), strings.ToUpper(string(x.k))) + strconv.Itoa(a)
	}
	root = ref(n, generic)
	if len(cells) == 0 {
		return "-", root
	}
	return strings.Join(cells, ";"), root
}

// text is a canonical text of the description including sharing and the storage details
// (nil containers, spare capacity); used for de-duplication and replay.
func (n *node) text() string {
	var sb strings.Builder
	ids := map[*node]int{}
	var w func(x *node)
	w = func(x *node) {
		if x.g {
			sb.WriteByte('~')
		}
		switch x.k {
		case 'n':
			sb.WriteString("n")
		case 'b':
			sb.WriteString("b" + b01(x.b))
		case 'i':
			sb.WriteString("i" + strconv.FormatInt(x.i, 10))
		case 'd':
			fmt.Fprintf(&sb, "d%016x", math.Float64bits(x.f))
		case 's':
			sb.WriteString("s" + hx(x.s))
		case 'g':
			sb.WriteString("g" + hx(x.s))
		case 'a', 'o':
			if x.nilC {
				sb.WriteString(map[byte]string{'a': "x", 'o': "y"}[x.k])
				return
			}
			if id, ok := ids[x]; ok {
				fmt.Fprintf(&sb, "^%d", id)
				return
			}
			ids[x] = len(ids)
			open, cl := "[", "]"
			if x.k == 'o' {
				open, cl = "{", "}"
			}
			sb.WriteString(open)
			if x.extraCap > 0 {
				fmt.Fprintf(&sb, "+%d;", x.extraCap)
			}
			for i, c := range x.kids {
				if i > 0 {
					sb.WriteByte(',')
				}
				if x.k == 'o' {
					sb.WriteString(hx(x.keys[i]) + ":")
				}
				w(c)
			}
			sb.WriteString(cl)
		}
	}
	w(n)
	return sb.String()
}

// parseText reads the text form back (replay).
func parseText(s string) (*node, error) {
	p := &textParser{s: s, ids: map[int]*node{}}
	n, err := p.val()
	if err != nil {
		return nil, err
	}
	if p.i != len(p.s) {
		return nil, fmt.Errorf("trailing text at %d", p.i)
	}
	return n, nil
}

type textParser struct {
	s   string
	i   int
	ids map[int]*node
}

func (p *textParser) until(stop string) string {
	st := p.i
	for p.i < len(p.s) && !strings.ContainsRune(stop, rune(p.s[p.i])) {
		p.i++
	}
	return p.s[st:p.i]
}

func (p *textParser) val() (*node, error) {
	if p.i >= len(p.s) {
		return nil, fmt.Errorf("unexpected end")
	}
	c := p.s[p.i]
	p.i++
	const stop = ",]}"
	if c == '~' {
		n, err := p.val()
		if err != nil {
			return nil, err
		}
		if n.g {
			return n, nil
		}
		m := *n // a back reference must not mark the shared description
		m.g = true
		return &m, nil
	}
	switch c {
	case 'n':
		return &node{k: 'n'}, nil
	case 'x':
		return &node{k: 'a', nilC: true}, nil
	case 'y':
		return &node{k: 'o', nilC: true}, nil
	case 'b':
		t := p.until(stop)
		return &node{k: 'b', b: t == "1"}, nil
	case 'i':
		v, err := strconv.ParseInt(p.until(stop), 10, 64)
		return &node{k: 'i', i: v}, err
	case 'd':
		v, err := strconv.ParseUint(p.until(stop), 16, 64)
		return &node{k: 'd', f: math.Float64frombits(v)}, err
	case 's', 'g':
		b, err := hex.DecodeString(p.until(stop))
		return &node{k: c, s: string(b)}, err
	case '^':
		id, err := strconv.Atoi(p.until(stop))
		if err != nil || p.ids[id] == nil {
			return nil, fmt.Errorf("bad back reference")
		}
		return p.ids[id], nil
	case '[', '{':
		n := &node{k: 'a'}
		cl := byte(']')
		if c == '{' {
			n.k, cl = 'o', '}'
		}
		p.ids[len(p.ids)] = n
		if p.i < len(p.s) && p.s[p.i] == '+' {
			p.i++
			e, err := strconv.Atoi(p.until(";"))
			if err != nil {
				return nil, err
			}
			n.extraCap = e
			p.i++
		}
		if p.i < len(p.s) && p.s[p.i] == cl {
			p.i++
			return n, nil
		}
		for {
			if n.k == 'o' {
				kb, err := hex.DecodeString(p.until(":"))
				if err != nil {
					return nil, err
				}
				p.i++
				n.keys = append(n.keys, string(kb))
			}
			k, err := p.val()
			if err != nil {
				return nil, err
			}
			n.kids = append(n.kids, k)
			if p.i >= len(p.s) {
				return nil, fmt.Errorf("unterminated container")
			}
			d := p.s[p.i]
			p.i++
			if d == cl {
				return n, nil
			}
			if d != ',' {
				return nil, fmt.Errorf("bad separator %q", d)
			}
		}
	}
	return nil, fmt.Errorf("bad value at %d", p.i-1)
}

// clone copies a description without any sharing.
func (n *node) clone() *node {
	c := *n
	c.kids = make([]*node, len(n.kids))
	for i, k := range n.kids {
		c.kids[i] = k.clone()
	}
	c.keys = append([]string{}, n.keys...)
	return &c
}

// facts about a description
func (n *node) walk(f func(x *node)) {
	seen := map[*node]bool{}
	var w func(x *node)
	w = func(x *node) {
		if x.container() {
			if seen[x] {
				return
			}
			seen[x] = true
		}
		f(x)
		for _, c := range x.kids {
			w(c)
		}
	}
	w(n)
}

// mixed reports whether generic scalars / generic containers occur inside the (simple) description.
func (n *node) mixed() (scalars, containers bool) {
	n.walk(func(x *node) {
		if x.g {
			if x.container() {
				containers = true
			} else {
				scalars = true
			}
		}
	})
	return
}

func (n *node) hasBig() bool {
	r := false
	n.walk(func(x *node) { r = r || x.k == 'g' })
	return r
}

// shared reports whether some non-nil container occurs at two places.
func (n *node) shared() bool {
	cnt := map[*node]int{}
	var w func(x *node)
	w = func(x *node) {
		if x.container() && !x.nilC {
			cnt[x]++
			if cnt[x] > 1 {
				return
			}
		}
		for _, c := range x.kids {
			w(c)
		}
	}
	w(n)
	for _, c := range cnt {
		if c > 1 {
			return true
		}
	}
	return false
}

// dropNullsBelowSlice is the value GenAlter returned for null-keeping options before repository
// commit b3f7ab1: null members of objects that lie below a slice gone (finding
// C18-genalter-array-options, now in the fixed list; the predicate only matters while an entry of that
// id is in the known list). changed
// reports whether anything was dropped.
func (n *node) dropNullsBelowSlice(below bool, changed *bool) *node {
	switch n.k {
	case 'a':
		c := *n
		c.kids = make([]*node, len(n.kids))
		for i, k := range n.kids {
			c.kids[i] = k.dropNullsBelowSlice(true, changed)
		}
		return &c
	case 'o':
		c := *n
		c.kids, c.keys = nil, nil
		for i, k := range n.kids {
			if below && k.k == 'n' {
				*changed = true
				continue
			}
			c.kids = append(c.kids, k.dropNullsBelowSlice(below, changed))
			c.keys = append(c.keys, n.keys[i])
		}
		return &c
	}
	return n
}

// ---- identity of containers (aliasing) ----

type occ struct {
	path string
	id   uintptr
}

// identities lists the containers below v that have an identity: non-nil maps and slices of
// length > 0 (a zero-length slice has no element to share; its data pointer is not meaningful).
// Order: depth first, parent before members, members by index / sorted key (the driver's order).
func identities(v any, path string, out *[]occ, depth int) {
	if depth > 200 {
		return
	}
	switch t := v.(type) {
	case []any:
		if len(t) > 0 {
			*out = append(*out, occ{path, reflect.ValueOf(t).Pointer()})
		}
		for i, x := range t {
			identities(x, path+"/i"+strconv.Itoa(i), out, depth+1)
		}
	case gen.Array:
		if len(t) > 0 {
			*out = append(*out, occ{path, reflect.ValueOf(t).Pointer()})
		}
		for i, x := range t {
			identities(nodeAny(x), path+"/i"+strconv.Itoa(i), out, depth+1)
		}
	case map[string]any:
		if t != nil {
			*out = append(*out, occ{path, reflect.ValueOf(t).Pointer()})
		}
		for _, k := range sortedKeys(t) {
			identities(t[k], path+"/k"+hx(k), out, depth+1)
		}
	case gen.Object:
		if t != nil {
			*out = append(*out, occ{path, reflect.ValueOf(t).Pointer()})
		}
		for _, k := range sortedKeysG(t) {
			identities(nodeAny(t[k]), path+"/k"+hx(k), out, depth+1)
		}
	}
}

// aliasCanon turns the identities of the input (before the conversion) and of the result into a
// text that names which paths alias, independent of the addresses themselves.
func aliasCanon(orig, res []occ) string {
	ids := map[uintptr]int{}
	var sb strings.Builder
	emit := func(side string, os []occ) {
		for _, o := range os {
			id, ok := ids[o.id]
			if !ok {
				id = len(ids)
				ids[o.id] = id
			}
			fmt.Fprintf(&sb, "%s%s=%d ", side, o.path, id)
		}
	}
	emit("o", orig)
	emit("r", res)
	return sb.String()
}

// modelOccs parses the driver's occurrence list, dropping zero-length slices.
func modelOccs(s string) ([]occ, error) {
	if s == "-" {
		return nil, nil
	}
	var out []occ
	for _, part := range strings.Split(s, ",") {
		f := strings.Split(part, "@")
		if len(f) != 3 {
			return nil, fmt.Errorf("bad occurrence %q", part)
		}
		if f[2] == "a0" {
			continue
		}
		a, err := strconv.Atoi(f[1])
		if err != nil {
			return nil, err
		}
		out = append(out, occ{f[0], uintptr(a)})
	}
	return out, nil
}
