package main

import (
	"math"
	"sort"
	"strconv"
	"strings"

	"verif/harness/lib"
)

// ---- exhaustive box ----

func scalarAlphabet(full bool) []*node {
	a := []*node{{k: 'n'}, {k: 'i', i: 0}, {k: 's', s: ""}}
	if full {
		a = append(a, &node{k: 'b', b: false}, &node{k: 'd', f: 1.5})
	}
	return a
}

// level builds every array of length <= 2 and every object with keys from {"a","b"} over the given
// member values, plus the nil slice and the nil map.
func level(members []*node) []*node {
	var out []*node
	out = append(out, &node{k: 'a'}, &node{k: 'a', nilC: true}, &node{k: 'o'}, &node{k: 'o', nilC: true})
	for _, x := range members {
		out = append(out, &node{k: 'a', kids: []*node{x}})
		out = append(out, &node{k: 'o', keys: []string{"a"}, kids: []*node{x}})
		out = append(out, &node{k: 'o', keys: []string{"b"}, kids: []*node{x}})
		for _, y := range members {
			// the box holds trees: the same container description twice would be one shared cell
			out = append(out, &node{k: 'a', kids: []*node{x, y.clone()}})
			out = append(out, &node{k: 'o', keys: []string{"a", "b"}, kids: []*node{x, y.clone()}})
		}
	}
	return out
}

// exhaustiveBox emits every tree of depth <= 2 over the scalar alphabet.
func exhaustiveBox(full bool, emit func(*node)) (desc string) {
	sc := scalarAlphabet(full)
	for _, s := range sc {
		emit(s)
	}
	l1 := level(sc)
	for _, t := range l1 {
		emit(t)
	}
	for _, t := range level(append(append([]*node{}, sc...), l1...)) {
		emit(t)
	}
	names := []string{}
	for _, s := range sc {
		names = append(names, s.text())
	}
	return "every tree of depth <= 2 (arrays of length <= 2, objects over keys {a,b}, nil slice, nil map) over scalars " + strings.Join(names, " ")
}

// ---- random trees ----

type treeGen struct {
	r       *lib.Rng
	big     bool    // json.Number / gen.Big leaves allowed
	share   bool    // reuse containers (DAG)
	storage bool    // nil containers and spare capacity
	mixed   int     // 1: some scalars are generic nodes; 2: some containers too
	pool    []*node // containers generated so far (for sharing)
}

var intPool = []int64{0, 1, -1, 7, 42, -1000, math.MaxInt64, math.MinInt64, 1 << 53, 1<<53 + 1}
var floatPool = []float64{0, math.Copysign(0, -1), 1.5, -2.25, 1e21, 1e-7, 123456789.125, math.MaxFloat64, math.SmallestNonzeroFloat64,
	math.Inf(1), math.Inf(-1), math.NaN(), 3, 1 << 53}
var strPool = []string{"", "a", "b", "key", "x\"y", "é", "\x00", "\xff\xfe", "<&>", "line\nbreak", "日本"}
var keyPool = []string{"", "a", "b", "c", "k\"", "é", "\x00z", "type", "long-key-name"}
var bigPool = []string{"123456789012345678901234567890", "1e999", "-0.000000000000000000000000000001", "9223372036854775808"}

func (g *treeGen) scalar() *node {
	r := g.r
	n := 6
	if g.big {
		n = 7
	}
	switch r.Intn(n) {
	case 0:
		return &node{k: 'n'}
	case 1:
		return &node{k: 'b', b: r.Bool()}
	case 2:
		if r.Intn(3) == 0 {
			return &node{k: 'i', i: int64(r.Next())}
		}
		return &node{k: 'i', i: lib.Pick(r, intPool)}
	case 3:
		if r.Intn(3) == 0 {
			return &node{k: 'd', f: math.Float64frombits(r.Next())}
		}
		return &node{k: 'd', f: lib.Pick(r, floatPool)}
	case 4, 5:
		return &node{k: 's', s: lib.Pick(r, strPool)}
	default:
		return &node{k: 'g', s: lib.Pick(r, bigPool)}
	}
}

// root builds a container (a scalar root is covered by the exhaustive box).
func (g *treeGen) root(depth int) *node {
	if depth < 1 {
		depth = 1
	}
	for i := 0; i < 100; i++ {
		if n := g.tree(depth); n.container() && !n.g {
			return n
		}
	}
	return &node{k: 'a', kids: []*node{g.scalar()}}
}

func (g *treeGen) tree(depth int) *node {
	r := g.r
	if depth <= 0 || r.Intn(10) < 3 {
		s := g.scalar()
		if g.mixed > 0 && s.k != 'n' && r.Intn(3) == 0 {
			s.g = true
		}
		return s
	}
	if g.mixed == 2 && r.Intn(5) == 0 {
		// a generic container inside simple data (never shared, never holding simple nodes)
		sub := &treeGen{r: r, storage: g.storage, big: g.big}
		n := sub.root(depth - 1).clone()
		n.g = true
		return n
	}
	if g.share && len(g.pool) > 0 && r.Intn(6) == 0 {
		return lib.Pick(r, g.pool)
	}
	var n *node
	width := r.Intn(5)
	if r.Intn(8) == 0 {
		width = 0
	}
	if r.Bool() {
		n = &node{k: 'a'}
		if g.storage && width == 0 && r.Intn(3) == 0 {
			n.nilC = true
		} else {
			for i := 0; i < width; i++ {
				n.kids = append(n.kids, g.tree(depth-1))
			}
			if g.storage && r.Intn(4) == 0 {
				n.extraCap = 1 + r.Intn(3)
			}
		}
	} else {
		n = &node{k: 'o'}
		if g.storage && width == 0 && r.Intn(3) == 0 {
			n.nilC = true
		} else {
			used := map[string]bool{}
			for i := 0; i < width; i++ {
				k := lib.Pick(r, keyPool)
				if used[k] {
					continue
				}
				used[k] = true
				n.keys = append(n.keys, k)
			}
			sort.Strings(n.keys)
			for range n.keys {
				// nulls as members are what the options are about: make them frequent
				if r.Intn(4) == 0 {
					n.kids = append(n.kids, &node{k: 'n'})
				} else {
					n.kids = append(n.kids, g.tree(depth-1))
				}
			}
		}
	}
	if !n.nilC {
		g.pool = append(g.pool, n)
	}
	return n
}

// boundary shapes named by the property
func boundaryTrees() []*node {
	null := &node{k: 'n'}
	empA := func() *node { return &node{k: 'a'} }
	empO := func() *node { return &node{k: 'o'} }
	obj := func(kv ...any) *node {
		n := &node{k: 'o'}
		m := map[string]*node{}
		for i := 0; i < len(kv); i += 2 {
			n.keys = append(n.keys, kv[i].(string))
			m[kv[i].(string)] = kv[i+1].(*node)
		}
		sort.Strings(n.keys)
		for _, k := range n.keys {
			n.kids = append(n.kids, m[k])
		}
		return n
	}
	arr := func(xs ...*node) *node { return &node{k: 'a', kids: xs} }
	sharedMap := obj("k", &node{k: 'i', i: 1})
	sharedArr := arr(&node{k: 'i', i: 1}, null)
	sharedEmpty := empO()
	return []*node{
		arr(obj("b", null), empO()),                        // the design-time witness
		obj("a", arr(obj("b", null))),                      // null below slice below object
		obj("a", obj("b", null)),                           // null not below a slice
		arr(arr(obj("a", null, "b", &node{k: 'i', i: 0}))), // deeper
		arr(empA(), empO(), arr(empA()), obj("a", empO())), // nested empty containers
		arr(null, null), obj("a", null, "b", null),         // nulls only
		arr(sharedMap, sharedMap), obj("a", sharedArr, "b", sharedArr), // shared cells
		arr(sharedEmpty, sharedEmpty),
		{k: 'a', kids: []*node{{k: 'i', i: 1}}, extraCap: 3},
		{k: 'a', extraCap: 2},
		arr(&node{k: 'a', nilC: true}, &node{k: 'o', nilC: true}),
		obj("a", &node{k: 'a', nilC: true}, "b", &node{k: 'o', nilC: true}),
		obj("", &node{k: 's', s: ""}, "z", &node{k: 'b', b: false}, "y", &node{k: 'i', i: 0}, "x", &node{k: 'd', f: 0}), // OmitEmpty candidates
	}
}

// ---- JSON texts for the parser clause ----

type textGen struct{ r *lib.Rng }

var numPool = []string{"0", "-0", "1", "-1", "12", "1234567890", "9223372036854775807", "-9223372036854775808",
	"9223372036854775808", "9223372036854775800", "922337203685477580", "123456789012345678901234567890",
	"0.5", "-0.25", "1.5e3", "1E3", "1e-3", "1e+3", "0.1", "0.30000000000000004", "1.7976931348623157e308", "1e309", "1e400", "-1e400",
	"5e-324", "1e-400", "0e0", "0.0", "-0.0", "1.000", "100e-2", "12345678901234567890.5", "0.12345678901234567890123",
	"1.0e1000", "123456789012345678.9e5", "2.5E-1", "4.9e-324"}
var jsonStrPool = []string{`""`, `"a"`, `"abc def"`, `"\n"`, `"é"`, `"😀"`, `"\\\""`, `"é"`, `"\/"`, `"\u0000"`, `"日本"`,
	`"a\tb"`, `"\b\f\r"`, `"x"`}

func (g *textGen) ws() string {
	return lib.Pick(g.r, []string{"", "", "", " ", "\n", "\t", "  ", "\r\n"})
}

func (g *textGen) num() string {
	r := g.r
	if r.Intn(3) > 0 {
		return lib.Pick(r, numPool)
	}
	var sb strings.Builder
	if r.Intn(4) == 0 {
		sb.WriteByte('-')
	}
	nd := 1 + r.Intn(22)
	for i := 0; i < nd; i++ {
		d := r.Intn(10)
		if i == 0 && nd > 1 && d == 0 {
			d = 1
		}
		sb.WriteByte(byte('0' + d))
	}
	if r.Intn(3) == 0 {
		sb.WriteByte('.')
		for i, nf := 0, 1+r.Intn(22); i < nf; i++ {
			sb.WriteByte(byte('0' + r.Intn(10)))
		}
	}
	if r.Intn(4) == 0 {
		sb.WriteString(lib.Pick(r, []string{"e", "E", "e+", "e-", "E-"}))
		sb.WriteString(strconv.Itoa(r.Intn(400)))
	}
	return sb.String()
}

func (g *textGen) val(depth int) string {
	r := g.r
	k := r.Intn(10)
	if depth <= 0 && k >= 7 {
		k = r.Intn(7)
	}
	switch k {
	case 0:
		return "null"
	case 1:
		return lib.Pick(r, []string{"true", "false"})
	case 2, 3, 4:
		return g.num()
	case 5, 6:
		return lib.Pick(r, jsonStrPool)
	case 7, 8:
		n := r.Intn(4)
		parts := make([]string, n)
		for i := range parts {
			parts[i] = g.ws() + g.val(depth-1) + g.ws()
		}
		return "[" + g.ws() + strings.Join(parts, ",") + "]"
	default:
		n := r.Intn(4)
		parts := make([]string, n)
		for i := range parts {
			parts[i] = g.ws() + lib.Pick(r, jsonStrPool) + g.ws() + ":" + g.ws() + g.val(depth-1) + g.ws()
		}
		return "{" + g.ws() + strings.Join(parts, ",") + "}"
	}
}

func (g *textGen) doc() string {
	// mostly containers: a bare scalar document is a duplicate most of the time
	d := 1 + g.r.Intn(4)
	if g.r.Intn(8) > 0 {
		return g.ws() + "[" + g.val(d) + "," + g.ws() + g.val(d) + "]" + g.ws()
	}
	return g.ws() + g.val(d) + g.ws()
}
