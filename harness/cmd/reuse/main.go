// Harness of the reuse family: C07 (reused and pooled instances behave like fresh ones) and C08
// (concurrent use of the package-level functions; supporting stress for the protocol proof).
// Go-only oracle: the comparison the properties name is between two runs of the implementation
// (used instance vs fresh instance; concurrent vs alone). The engine is verif/harness/reuse.
package main

import (
	"flag"
	"fmt"
	"os"
	"path/filepath"

	"verif/harness/lib"
	"verif/harness/reuse"
)

func main() {
	prop := flag.String("prop", "C07", "C07 | C08")
	tier := flag.String("tier", "quick", "quick|thorough")
	seed := flag.Uint64("seed", 1, "PRNG seed")
	_ = flag.String("driver", "", "unused (no Lean driver: the oracle is implementation vs implementation)")
	outPath := flag.String("out", "", "report path")
	replay := flag.String("replay", "", "replay file")
	_ = flag.String("corpus", "", "unused")
	known := flag.String("known", "", "known_findings.json")
	workers := flag.Int("workers", 16, "parallel workers")
	child := flag.Bool("child", false, "internal: the in-process stress part of C08")
	flag.Parse()

	rep := lib.NewReport(*prop, *tier, *seed)
	verif, _ := os.Getwd()
	if _, err := os.Stat(filepath.Join(verif, "harness", "reuse")); err != nil {
		verif = "/verif"
	}
	repo := os.Getenv("VERIF_REPO")
	if repo == "" {
		repo = "/repo"
	}
	run := &reuse.Run{Prop: *prop, Tier: *tier, Seed: *seed, Rep: rep, Known: lib.LoadKnown(*known, *prop),
		Workers: *workers, Repo: repo, Verif: verif}
	var err error
	switch {
	case *replay != "" && *prop == "C07":
		err = run.ReplayC07(*replay)
	case *replay != "" && *prop == "C08":
		err = run.ReplayC08(*replay)
	case *prop == "C07":
		run.RunC07()
	case *prop == "C08" && *child:
		run.RunC08Child()
	case *prop == "C08":
		self, err2 := os.Executable()
		if err2 != nil {
			self = os.Args[0]
		}
		run.RunC08(self, *known)
	default:
		fmt.Fprintln(os.Stderr, "unknown property", *prop)
		os.Exit(3)
	}
	if err != nil {
		fmt.Fprintln(os.Stderr, "harness:", err)
		os.Exit(3)
	}
	if *outPath != "" {
		if err := rep.Write(*outPath); err != nil {
			fmt.Fprintln(os.Stderr, "harness:", err)
			os.Exit(3)
		}
	}
}
