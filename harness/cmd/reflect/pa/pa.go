// Package pa holds named struct types for the reflect harness (C15/C16). Package pb declares types
// with the SAME bare names and different fields, so that a registry keyed by bare type name mixes
// them up.
package pa

// T shares its name with pb.T.
type T struct {
	Alpha string
	Count int
}

// Leaf is only declared here.
type Leaf struct {
	Flag bool
	Num  int16
}

// Outer shares its name with pb.Outer and uses T in every position.
type Outer struct {
	Item  T
	Ref   *T
	List  []T
	Table map[string]T
	Any   any
	Leaf  Leaf
}

// Tagged carries json tags.
type Tagged struct {
	First  int    `json:"first"`
	Second string `json:"second,omitempty"`
	Third  bool   `json:",omitempty"`
	Fourth int32  `json:"-"`
	Fifth  int64  `json:"fifth,string"`
}

// Emb embeds a named struct and a named pointer.
type Emb struct {
	Leaf
	*T
	Zed uint8
}

// EmbMid embeds a struct by value and one by pointer, neither in first position (the offsets of the
// promoted fields are not those inside the embedded struct).
type EmbMid struct {
	ID int
	Leaf
	Name string
	*T
	Zed uint8
}

// TLeaf carries tags and is embedded by EmbTag.
type TLeaf struct {
	Rank  int16  `json:"rank"`
	Word  string `json:"w,omitempty"`
	Delta uint32
}

// EmbTag is EmbMid with json tags on both levels.
type EmbTag struct {
	ID   int `json:"id"`
	Size int64
	TLeaf
	Name string `json:"name,omitempty"`
	*Leaf
	Zed uint16 `json:"z"`
}

// Widths has a field of every integer and float width.
type Widths struct {
	I8  int8
	U8  uint8
	I16 int16
	U16 uint16
	I32 int32
	U32 uint32
	I64 int64
	U64 uint64
	I   int
	U   uint
	F32 float32
	F64 float64
}

// WideIn is Widths behind an embedded struct in second position and with tags.
type WideIn struct {
	Flag bool `json:"flag"`
	Widths
	Tail string `json:"tail"`
}

// Meta and Audit are embedded by EmbTagged.
type Meta struct {
	Rev  int
	Note string `json:"note,omitempty"`
}

// Audit is embedded through a pointer.
type Audit struct {
	By string
	At int64
}

// EmbTagged embeds structs and a pointer that CARRY json tags: an option only, a name, omitempty.
type EmbTagged struct {
	ID     int
	Meta   `json:",inline"`
	*Audit `json:"audit"`
	Leaf   `json:",omitempty"`
	Name   string
}

// EmbTaggedP is the same by pointer for all, with a name tag on a by-value struct.
type EmbTaggedP struct {
	*Meta  `json:",inline"`
	Audit  `json:"trail"`
	*Leaf  `json:"leaf,omitempty"`
	Weight float64
}
