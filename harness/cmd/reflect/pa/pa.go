// Package pa holds named struct types for the reflect harness (C15/C16). Package pb declares types
// with the SAME bare names and different fields, so that a registry keyed by bare type name mixes
// them up.
package pa

// T shares its name with pb.T.
type T struct {
	Alpha string
	Count int
}

// Leaf is only declared here.
type Leaf struct {
	Flag bool
	Num  int16
}

// Outer shares its name with pb.Outer and uses T in every position.
type Outer struct {
	Item  T
	Ref   *T
	List  []T
	Table map[string]T
	Any   any
	Leaf  Leaf
}

// Tagged carries json tags.
type Tagged struct {
	First  int    `json:"first"`
	Second string `json:"second,omitempty"`
	Third  bool   `json:",omitempty"`
	Fourth int32  `json:"-"`
	Fifth  int64  `json:"fifth,string"`
}

// Emb embeds a named struct and a named pointer.
type Emb struct {
	Leaf
	*T
	Zed uint8
}
