package pa

import "reflect"

// Samples returns struct types declared inside different functions: distinct types with the SAME
// name and the SAME package path and different field sets.
func Samples() []reflect.Type { return []reflect.Type{sample1(), sample2(), sample3()} }

func sample1() reflect.Type {
	type Sample struct {
		Count int
		Label string
	}
	return reflect.TypeOf(Sample{})
}

func sample2() reflect.Type {
	type Sample struct {
		Label string
		Ratio float64
		Count int
	}
	return reflect.TypeOf(Sample{})
}

func sample3() reflect.Type {
	type Sample struct {
		Ratio bool
		Leaf  Leaf
		Label []string
	}
	return reflect.TypeOf(Sample{})
}
