// Correspondence and oracle harness for the reflection-driven encoders and decoders (C15, C16).
//
// Go types are generated at run time (reflect.StructOf) or taken from the packages pa and pb, and
// travel to the Lean model as data. For C15 every encoder of the repository is run on (type,
// value, options) and its tree is compared with the reflective reference (violation) and with the
// Lean plan interpreters (disagreement). For C16 values are decomposed and recomposed, marshalled
// and unmarshalled, after random histories of other types on the same recomposer. For C06rec (a
// sub-check of C06) arbitrary data is pushed into arbitrary target types through every Unmarshal and
// Recompose entry point, in child processes, looking for panics, surfaced runtime faults and hangs.
package main

import (
	"flag"
	"fmt"
	"os"

	"verif/harness/lib"
)

var (
	prop    = flag.String("prop", "C15", "property id")
	tier    = flag.String("tier", "quick", "quick|thorough")
	seed    = flag.Uint64("seed", 1, "PRNG seed")
	driver  = flag.String("driver", "", "path of drv_reflect")
	outPath = flag.String("out", "", "report path")
	replay  = flag.String("replay", "", "replay file")
	corpus  = flag.String("corpus", "", "corpus file")
	known   = flag.String("known", "", "known_findings.json")
	workers = flag.Int("workers", 8, "parallel workers")
	// C06rec runs its calls in child processes of this binary
	child     = flag.Bool("child", false, "C06rec: run as a child (cases -from..-to of worker -w)")
	childW    = flag.Int("w", 0, "C06rec child: worker")
	childFrom = flag.Int("from", 0, "C06rec child: first case")
	childTo   = flag.Int("to", 0, "C06rec child: end of cases")
)

var rep *lib.Report
var knownList []lib.Known

func main() {
	flag.Parse()
	rep = lib.NewReport(*prop, *tier, *seed)
	knownList = lib.LoadKnown(*known, *prop)
	var err error
	switch *prop {
	case "C15":
		err = runC15()
	case "C16":
		err = runC16()
	case "C06rec":
		err = runC06rec()
	case "selfprobe": // child of the self-embedding families (selfemb.go)
		selfProbe()
		return
	default:
		err = fmt.Errorf("property %s is not served by this harness", *prop)
	}
	if err != nil {
		fmt.Fprintln(os.Stderr, "harness:", err)
		os.Exit(3)
	}
	if *outPath != "" {
		if err := rep.Write(*outPath); err != nil {
			fmt.Fprintln(os.Stderr, "harness:", err)
			os.Exit(3)
		}
	}
}
