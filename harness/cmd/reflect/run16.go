package main

// C16: Decompose/Recompose and Marshal/Unmarshal are inverse on user types, and the outcome for one
// target type never depends on which other types the recomposer has seen before.

import (
	"encoding/json"
	"fmt"
	"hash/fnv"
	"os"
	"reflect"
	"regexp"
	"strconv"
	"strings"
	"sync"

	"github.com/ohler55/ojg"
	"github.com/ohler55/ojg/alt"
	"github.com/ohler55/ojg/oj"
	"github.com/ohler55/ojg/sen"

	"verif/harness/cmd/reflect/pa"
	"verif/harness/cmd/reflect/pb"
	"verif/harness/lib"
)

// histEvent is one thing the recomposer saw before the case: a type registered with
// RegisterComposer(zero, nil), or (when v is valid) a value of it decomposed and recomposed.
type histEvent struct {
	d *TDesc
	v reflect.Value
}

type c16Case struct {
	hist []histEvent
	d    *TDesc
	v    reflect.Value
	spec optSpec // options of alt.Decompose (route "decompose")
	// route: "decompose": alt.Recompose(alt.Decompose(v, &o)); "marshal": oj.Marshal(v) under the default
	// options, parsed and recomposed; "oj": oj.Unmarshal(oj.Marshal(v, &o)); "sen": sen.Unmarshal of
	// the text a sen.Writer with the options writes
	route      string
	useDefault bool   // through alt.DefaultRecomposer (alt.Recompose / oj.Unmarshal without argument)
	byPtr      bool   // the encoder is handed &v (addressable: the unsafe offset path) instead of v
	text       []byte // routes oj and sen: what the writer wrote (set by tree)
	// what the last two runs gave (without / with the history): the value, or the error text
	got  [2]reflect.Value
	errs [2]string
}

// arg is what the encoder is handed.
func (c *c16Case) arg() any {
	if c.byPtr {
		p := reflect.New(c.d.RT)
		p.Elem().Set(c.v)
		return p.Interface()
	}
	return c.v.Interface()
}

var defaultMu sync.Mutex

func (c *c16Case) createKey() string {
	if c.route == "marshal" {
		return ""
	}
	return c.spec.CreateKey
}

// canonTree renders a decomposed or parsed tree for the driver (floats as hex of their 64-bit text).
func canonTree(v any) string {
	var sb strings.Builder
	var rec func(v any)
	rec = func(v any) {
		rv := reflect.ValueOf(v)
		switch {
		case v == nil:
			sb.WriteString("n")
		case rv.Kind() == reflect.Bool:
			if rv.Bool() {
				sb.WriteString("t")
			} else {
				sb.WriteString("f")
			}
		case rv.CanInt():
			fmt.Fprintf(&sb, "I(%d)", rv.Int())
		case rv.CanUint():
			fmt.Fprintf(&sb, "I(%d)", rv.Uint())
		case rv.Kind() == reflect.Float32:
			t, _ := scalarText(rv)
			fmt.Fprintf(&sb, "F(%s)", lib.HexF([]byte(t)))
		case rv.Kind() == reflect.Float64:
			t, _ := scalarText(rv)
			fmt.Fprintf(&sb, "F(%s)", lib.HexF([]byte(t)))
		case rv.Kind() == reflect.String:
			fmt.Fprintf(&sb, "S(%s)", lib.HexF([]byte(rv.String())))
		case rv.Kind() == reflect.Slice:
			sb.WriteByte('[')
			for i := 0; i < rv.Len(); i++ {
				if i > 0 {
					sb.WriteByte(',')
				}
				rec(rv.Index(i).Interface())
			}
			sb.WriteByte(']')
		case rv.Kind() == reflect.Map:
			sb.WriteByte('{')
			for i, k := range sortedKeys(rv) {
				if i > 0 {
					sb.WriteByte(',')
				}
				fmt.Fprintf(&sb, "K(%s)", lib.HexF([]byte(k)))
				rec(rv.MapIndex(reflect.ValueOf(k)).Interface())
			}
			sb.WriteByte('}')
		default:
			fmt.Fprintf(&sb, "?(%T)", v)
		}
	}
	rec(v)
	return sb.String()
}

// normValue renders a value with nil slices, maps and []byte written as empty ones (nil ~ empty) and
// with an embedded pointer to a struct that contributes no member written as a nil one: the encoders
// write the same for both (since /repo 272431d a nil embedded pointer contributes no member instead
// of panicking), and Recompose allocates an embedded pointer only for a member that goes through it
// (/repo b19f06c).
func normValue(d *TDesc, v reflect.Value, useTags bool) string {
	var sb strings.Builder
	valueTokensX(&sb, d, v, func(sd *TDesc, sv reflect.Value) bool { return noMember(sd, sv, useTags) })
	return normTokens(strings.TrimSpace(sb.String()))
}

// noMember: the struct value is written without any member the recomposer reads. Only tags can do
// that (the C16 cases set neither OmitNil nor OmitEmpty): without UseTags every exported field is
// written; with UseTags (always on the Marshal route: oj.Marshal runs under ojg.GoOptions) a field
// tagged omitempty is dropped when empty. A field tagged "-" is never read back (and the generator
// leaves it zero); a nil pointer or interface field is written as null, and recomp leaves the field
// of a null member alone (`has && m != nil`) without walking to it, so it allocates nothing either.
// An embedded struct contributes its fields, an embedded pointer those of its target unless nil.
func noMember(d *TDesc, v reflect.Value, useTags bool) bool {
	if d.Kind != "struct" {
		return false
	}
	for i, f := range d.Fields {
		if !exported(f.Name) {
			continue
		}
		fv := v.Field(i)
		if f.Embedded { // with or without a tag: encoders and recomposer flatten it all the same
			switch {
			case f.Type.Kind == "struct":
				if !noMember(f.Type, fv, useTags) {
					return false
				}
				continue
			case f.Type.Kind == "ptr" && f.Type.Elem.Kind == "struct":
				if !fv.IsNil() && !noMember(f.Type.Elem, fv.Elem(), useTags) {
					return false
				}
				continue
			}
		}
		if f.Tag == "-" {
			continue // never read back: indexType honours the tag whatever the options of the writer say
		}
		if k := fv.Kind(); (k == reflect.Ptr || k == reflect.Interface) && fv.IsNil() {
			continue // written as null, if at all: recomp skips a null member before it walks to the field
		}
		if !useTags {
			return false
		}
		omit := false
		for k, part := range strings.Split(f.Tag, ",") {
			if k > 0 && part == "omitempty" {
				omit = true
			}
		}
		if !omit || !emptyForOmit(fv) {
			return false
		}
	}
	return true
}

// emptyForOmit is the emptiness the omitempty tag tests (false, 0, "", nil, length 0; a struct never).
func emptyForOmit(v reflect.Value) bool {
	switch v.Kind() {
	case reflect.Bool:
		return !v.Bool()
	case reflect.Int, reflect.Int8, reflect.Int16, reflect.Int32, reflect.Int64:
		return v.Int() == 0
	case reflect.Uint, reflect.Uint8, reflect.Uint16, reflect.Uint32, reflect.Uint64:
		return v.Uint() == 0
	case reflect.Float32, reflect.Float64:
		return v.Float() == 0
	case reflect.String, reflect.Slice, reflect.Map, reflect.Array:
		return v.Len() == 0
	case reflect.Ptr, reflect.Interface:
		return v.IsNil()
	}
	return false
}

// newRecomposer builds the recomposer of a case and plays the history on it.
func (c *c16Case) recomposer(withHist bool) *alt.Recomposer {
	r := alt.MustNewRecomposer(c.createKey(), nil)
	for _, t := range preRegistered {
		// the types an interface may hold are registered first, as the documentation asks
		_ = r.RegisterComposer(reflect.New(t).Elem().Interface(), nil)
	}
	if !withHist {
		return r
	}
	o := c.spec.options()
	for _, h := range c.hist {
		func() {
			defer func() { _ = recover() }()
			if h.v.IsValid() {
				_, _ = r.Recompose(alt.Decompose(h.v.Interface(), &o), reflect.New(h.d.RT).Interface())
			} else {
				_ = r.RegisterComposer(reflect.New(h.d.RT).Elem().Interface(), nil)
			}
		}()
	}
	return r
}

// tagsUsed: the writer of this route honours json tags (oj.Marshal runs under ojg.GoOptions).
func (c *c16Case) tagsUsed() bool { return c.route == "marshal" || c.spec.UseTags }

// senBytes writes v with a sen.Writer of its own (a panic of the writer is the caller's to recover).
func senBytes(v any, o *ojg.Options) []byte {
	wr := sen.Writer{Options: *o}
	return append([]byte{}, wr.MustSEN(v)...)
}

// tree is what the recomposer is given: the decomposition or the parsed Marshal output.
func (c *c16Case) tree() (any, string) {
	var t any
	err := func() (err error) {
		defer func() {
			if r := recover(); r != nil {
				err = fmt.Errorf("%v", r)
			}
		}()
		o := c.spec.options()
		switch c.route {
		case "marshal":
			b, err := oj.Marshal(c.arg())
			if err != nil {
				return err
			}
			t, err = (&oj.Parser{}).Parse(b)
			return err
		case "oj":
			b, err := oj.Marshal(c.arg(), &o)
			if err != nil {
				return err
			}
			c.text = append([]byte{}, b...)
			t, err = (&oj.Parser{}).Parse(c.text)
			return err
		case "sen":
			c.text = senBytes(c.arg(), &o)
			var err error
			t, err = (&sen.Parser{}).Parse(c.text)
			return err
		}
		t = alt.Decompose(c.arg(), &o)
		return nil
	}()
	if err != nil {
		return nil, "encode-error"
	}
	return t, ""
}

// run recomposes the tree into a fresh target and returns the outcome: the value in token form, or
// "error".
func (c *c16Case) run(t any, withHist bool) (exact, norm string) {
	r := c.recomposer(withHist)
	tgt := reflect.New(c.d.RT)
	var err error
	func() {
		defer func() {
			if p := recover(); p != nil {
				err = fmt.Errorf("panic: %v", p)
			}
		}()
		if c.useDefault {
			defaultMu.Lock()
			defer defaultMu.Unlock()
			saved := alt.DefaultRecomposer
			alt.DefaultRecomposer = *r
			defer func() { alt.DefaultRecomposer = saved }()
			switch c.route {
			case "oj":
				err = oj.Unmarshal(c.text, tgt.Interface())
			case "sen":
				err = sen.Unmarshal(c.text, tgt.Interface())
			default:
				_, err = alt.Recompose(t, tgt.Interface())
			}
		} else {
			switch c.route {
			case "oj":
				err = oj.Unmarshal(c.text, tgt.Interface(), r)
			case "sen":
				err = sen.Unmarshal(c.text, tgt.Interface(), r)
			default:
				_, err = r.Recompose(t, tgt.Interface())
			}
		}
	}()
	wi := 0
	if withHist {
		wi = 1
	}
	c.got[wi], c.errs[wi] = reflect.Value{}, ""
	if err != nil {
		c.errs[wi] = err.Error()
		return "error", "error"
	}
	c.got[wi] = tgt.Elem()
	exact, norm = valueString(c.d, tgt.Elem()), normValue(c.d, tgt.Elem(), c.tagsUsed())
	if c.route == "oj" {
		exact, norm = ifaceFloats(exact), ifaceFloats(norm)
	}
	return exact, norm
}

// ---- predicates that name the known deviations -------------------------------------------------

func structTypes(d *TDesc, seen map[reflect.Type]*TDesc) {
	switch d.Kind {
	case "slice", "array", "map", "ptr":
		structTypes(d.Elem, seen)
	case "struct":
		if _, has := seen[d.RT]; has {
			return
		}
		seen[d.RT] = d
		for _, f := range d.Fields {
			structTypes(f.Type, seen)
		}
	}
}

func dynTypes(d *TDesc, v reflect.Value, seen map[reflect.Type]*TDesc) {
	switch d.Kind {
	case "iface":
		if !v.IsNil() {
			dd := mustDescribe(v.Elem().Type())
			structTypes(dd, seen)
			dynTypes(dd, v.Elem(), seen)
		}
	case "slice", "array":
		for i := 0; i < v.Len(); i++ {
			dynTypes(d.Elem, v.Index(i), seen)
		}
	case "map":
		for _, k := range v.MapKeys() {
			dynTypes(d.Elem, v.MapIndex(k), seen)
		}
	case "ptr":
		if !v.IsNil() {
			dynTypes(d.Elem, v.Elem(), seen)
		}
	case "struct":
		for i, f := range d.Fields {
			dynTypes(f.Type, v.Field(i), seen)
		}
	}
}

// nameCollision: two different struct types among those the recomposer meets share a bare name
// (reflect.StructOf types all have the name "").
func (c *c16Case) nameCollision(withHist bool) bool {
	seen := map[reflect.Type]*TDesc{}
	structTypes(c.d, seen)
	dynTypes(c.d, c.v, seen)
	for _, t := range preRegistered {
		structTypes(mustDescribe(t), seen)
	}
	if withHist {
		for _, h := range c.hist {
			structTypes(h.d, seen)
			if h.v.IsValid() {
				dynTypes(h.d, h.v, seen)
			}
		}
	}
	names := map[string]reflect.Type{}
	for rt := range seen {
		if o, has := names[rt.Name()]; has && o != rt {
			return true
		}
		names[rt.Name()] = rt
	}
	return false
}

type valFacts struct {
	nilPtrElem   bool // nil pointer as an element of a slice, array or map
	nilIfaceElem bool // nil interface as an element of a slice, array or map
	bytes        bool // a []byte somewhere
	embPtr       bool // an embedded pointer in a struct type that is met
	ifaceStruct  bool // an interface holding a struct or pointer to one
	ifaceOther   bool // an interface holding something Recompose gives back in another Go type
	ifaceCK      bool // an interface holding a map with a member named like the create key
	ck           string
}

func facts(d *TDesc, v reflect.Value, inElem bool, f *valFacts) {
	switch d.Kind {
	case "bytes":
		f.bytes = true
	case "iface":
		if v.IsNil() {
			if inElem {
				f.nilIfaceElem = true
			}
			return
		}
		e := v.Elem()
		dd := mustDescribe(e.Type())
		switch {
		case dd.Kind == "struct" || dd.Kind == "ptr" && dd.Elem.Kind == "struct":
			f.ifaceStruct = true
		case dd.Kind == "bool" || dd.Kind == "string" || dd.Kind == "f64" || dd.Kind == "int" && dd.IntK == 4:
		case dd.Kind == "slice" && dd.Elem.Kind == "iface" || dd.Kind == "map" && dd.Elem.Kind == "iface":
		default:
			f.ifaceOther = true
		}
		if dd.Kind == "map" {
			for _, k := range e.MapKeys() {
				if k.String() == f.ck {
					f.ifaceCK = true
				}
			}
		}
		facts(dd, e, false, f)
	case "slice", "array":
		for i := 0; i < v.Len(); i++ {
			facts(d.Elem, v.Index(i), d.Kind == "slice" || d.Kind == "array", f)
		}
	case "map":
		for _, k := range v.MapKeys() {
			e := v.MapIndex(k)
			if d.Elem.Kind == "ptr" && e.IsNil() {
				f.nilPtrElem = true
			}
			if d.Elem.Kind == "iface" && e.IsNil() {
				f.nilIfaceElem = true
			}
			facts(d.Elem, e, false, f)
		}
	case "ptr":
		if v.IsNil() {
			if inElem {
				f.nilPtrElem = true
			}
			return
		}
		facts(d.Elem, v.Elem(), false, f)
	case "struct":
		for i, fd := range d.Fields {
			if fd.Embedded && fd.Type.Kind == "ptr" {
				f.embPtr = true
			}
			facts(fd.Type, v.Field(i), false, f)
		}
	}
}

// knownReasons names the deviations this case meets (why the round trip is not expected to give the
// value back); empty when it is expected to. The ids that are listed as FIXED (embedded pointer,
// nil pointer/interface element, lookup by bare name: /repo b19f06c, 4344ad7, f1da31f, 6d5fecb) are
// named only when no live one explains the failure — and then the finding is a violation.
func (c *c16Case) knownReasons() []string {
	f := valFacts{ck: c.createKey()}
	facts(c.d, c.v, false, &f)
	var out []string
	// each live family is named only when the outcome is the one ITS defect predicts for this case
	if f.bytes && c.errs[0] != "" && bytesTextRe.MatchString(c.errs[0]) {
		// a []byte was written as text (BytesAsString/Base64 of alt.Decompose; the appendJSON switch of
		// oj/sen for a []byte held by an interface or at top level) and Recompose refuses the string
		out = append(out, "C16-bytes-text")
	}
	if f.ifaceCK && c.createKeyExplains(c.v, 0, false) {
		out = append(out, "C16-createkey-member")
	}
	collision := c.nameCollision(false)
	if collision && (f.ifaceStruct || f.ifaceCK) && c.createKeyExplains(c.v, 0, true) {
		// create-key NAMES in the data are resolved by bare name (by design unless FullTypePath)
		out = append(out, "C16-createkey-bare-name")
	}
	if len(out) > 0 {
		return out
	}
	if f.embPtr {
		out = append(out, "C16-embedded-pointer")
	}
	if f.nilPtrElem {
		out = append(out, "C16-nil-pointer-element")
	}
	if f.nilIfaceElem {
		out = append(out, "C16-nil-interface-element")
	}
	if len(out) == 0 && collision {
		out = append(out, "C16-registry-bare-name")
	}
	return out
}

var bytesTextRe = regexp.MustCompile(`can only recompose a \[\]uint8 from a \[\]any, not a string`)

// dataDrivenSlot: the interface holds what the create key resolves through the registry — a struct or
// pointer to one (written with a create key), or something with a map that has a member named like
// the create key.
func dataDrivenSlot(e reflect.Value, ck string, structs bool) bool {
	f := valFacts{ck: ck}
	holder := reflect.New(anyType).Elem()
	holder.Set(e)
	facts(mustDescribe(anyType), holder, false, &f)
	return f.ifaceCK || structs && f.ifaceStruct
}

// maskedEqual: a and b (of one type) are equal (nil ~ empty) outside of the interface slots for which
// masked answers true on a's content. The defects about create-key resolution predict exactly this:
// the value comes back right everywhere but in those slots.
func maskedEqual(a, b reflect.Value, masked func(reflect.Value) bool, depth int) bool {
	if depth > 60 {
		return true
	}
	switch a.Kind() {
	case reflect.Interface:
		if a.IsNil() {
			return b.IsNil()
		}
		if masked(a.Elem()) {
			return true
		}
		d := mustDescribe(anyType)
		return ifaceFloats(normTokens(valueString(d, a))) == ifaceFloats(normTokens(valueString(d, b)))
	case reflect.Ptr:
		if a.IsNil() || b.IsNil() {
			return a.IsNil() == b.IsNil()
		}
		return maskedEqual(a.Elem(), b.Elem(), masked, depth+1)
	case reflect.Slice, reflect.Array:
		if a.Len() != b.Len() {
			return false
		}
		for i := 0; i < a.Len(); i++ {
			if !maskedEqual(a.Index(i), b.Index(i), masked, depth+1) {
				return false
			}
		}
		return true
	case reflect.Map:
		if a.Len() != b.Len() {
			return false
		}
		for _, k := range a.MapKeys() {
			bv := b.MapIndex(k)
			if !bv.IsValid() || !maskedEqual(a.MapIndex(k), bv, masked, depth+1) {
				return false
			}
		}
		return true
	case reflect.Struct:
		for i := 0; i < a.NumField(); i++ {
			if !exported(a.Type().Field(i).Name) {
				continue
			}
			if !maskedEqual(a.Field(i), b.Field(i), masked, depth+1) {
				return false
			}
		}
		return true
	}
	return a.Interface() == b.Interface()
}

// createKeyExplains: the outcome run `wi` gave is the reference value `ref` everywhere outside the
// interface slots the create key drives (or the call failed inside one: an error cannot be located).
func (c *c16Case) createKeyExplains(ref reflect.Value, wi int, structs bool) bool {
	if !c.got[wi].IsValid() {
		return c.errs[wi] != "" && !bytesTextRe.MatchString(c.errs[wi])
	}
	if !ref.IsValid() {
		return false
	}
	ck := c.createKey()
	return maskedEqual(ref, c.got[wi], func(e reflect.Value) bool { return dataDrivenSlot(e, ck, structs) }, 0)
}

// nestEmbedExplains: the outcome is the value with every EMBEDDED field left at its zero value — what
// the recomposer makes of a tree in which NestEmbed wrote the embedded structs as members of their
// own: its field index only knows them flattened, the members are ignored (C16-nest-embed).
func (c *c16Case) nestEmbedExplains(got string) bool {
	cp := reflect.New(c.d.RT).Elem()
	ok := true
	func() {
		defer func() {
			if recover() != nil {
				ok = false
			}
		}()
		copyWithoutEmbedded(cp, c.v)
	}()
	if !ok {
		return false
	}
	w := normValue(c.d, cp, c.tagsUsed())
	if c.route == "oj" {
		w = ifaceFloats(w)
	}
	return w == got
}

func copyWithoutEmbedded(dst, src reflect.Value) {
	switch src.Kind() {
	case reflect.Ptr:
		if !src.IsNil() {
			p := reflect.New(src.Type().Elem())
			copyWithoutEmbedded(p.Elem(), src.Elem())
			dst.Set(p)
		}
	case reflect.Interface:
		if !src.IsNil() {
			e := reflect.New(src.Elem().Type()).Elem()
			copyWithoutEmbedded(e, src.Elem())
			dst.Set(e)
		}
	case reflect.Slice:
		if !src.IsNil() {
			s := reflect.MakeSlice(src.Type(), src.Len(), src.Len())
			for i := 0; i < src.Len(); i++ {
				copyWithoutEmbedded(s.Index(i), src.Index(i))
			}
			dst.Set(s)
		}
	case reflect.Array:
		for i := 0; i < src.Len(); i++ {
			copyWithoutEmbedded(dst.Index(i), src.Index(i))
		}
	case reflect.Map:
		if !src.IsNil() {
			m := reflect.MakeMap(src.Type())
			for _, k := range src.MapKeys() {
				e := reflect.New(src.Type().Elem()).Elem()
				copyWithoutEmbedded(e, src.MapIndex(k))
				m.SetMapIndex(k, e)
			}
			dst.Set(m)
		}
	case reflect.Struct:
		for i := 0; i < src.NumField(); i++ {
			f := src.Type().Field(i)
			if f.Anonymous || !exported(f.Name) {
				continue
			}
			copyWithoutEmbedded(dst.Field(i), src.Field(i))
		}
	default:
		dst.Set(src)
	}
}

// embPtrInUniverse: some struct type the recomposer meets (history included) embeds a pointer; before
// /repo b19f06c a registration then panicked half way and left the registry partly filled.
func (c *c16Case) embPtrInUniverse() bool {
	seen := map[reflect.Type]*TDesc{}
	structTypes(c.d, seen)
	dynTypes(c.d, c.v, seen)
	for _, h := range c.hist {
		structTypes(h.d, seen)
		if h.v.IsValid() {
			dynTypes(h.d, h.v, seen)
		}
	}
	for _, d := range seen {
		for _, f := range d.Fields {
			if f.Embedded && f.Type.Kind == "ptr" {
				return true
			}
		}
	}
	return false
}

// ifaceIntRe: an int64 held by an interface, in token form.
var ifaceIntRe = regexp.MustCompile(`j i4 i (-?[0-9]+)`)

// ifaceFloats rewrites every int64 held by an interface as the float64 of the same value: oj.Unmarshal
// parses with ForceFloat (every JSON number becomes a float64, as in encoding/json), so on the oj
// route an integer in an interface slot comes back as a float64 by design.
func ifaceFloats(s string) string {
	return ifaceIntRe.ReplaceAllStringFunc(s, func(m string) string {
		n, _ := strconv.ParseInt(m[len("j i4 i "):], 10, 64)
		return "j f64 d " + lib.HexF([]byte(strconv.FormatFloat(float64(n), 'g', -1, 64)))
	})
}

func normTokens(s string) string {
	s = " " + s + " "
	for i := 0; i < 2; i++ {
		s = strings.ReplaceAll(s, " L ", " l 0 ")
		s = strings.ReplaceAll(s, " M ", " m 0 ")
		s = strings.ReplaceAll(s, " Y ", " y - ")
	}
	return strings.TrimSpace(s)
}

func (c *c16Case) replay() map[string]any {
	hs := []string{}
	for _, h := range c.hist {
		e := "R:" + h.d.String()
		if h.v.IsValid() {
			e = "C:" + h.d.String() + "|" + valueString(h.d, h.v)
		}
		hs = append(hs, e)
	}
	return map[string]any{"type": c.d.String(), "value": valueString(c.d, c.v), "options": c.spec.word(false, false),
		"route": c.route, "default_recomposer": c.useDefault, "by_pointer": c.byPtr, "history": hs, "go_type": c.d.RT.String(),
		"go_value": fmt.Sprintf("%+v", c.v.Interface())}
}

func (c *c16Case) key() uint64 {
	h := fnv.New64a()
	js, _ := json.Marshal(c.replay())
	h.Write(js)
	return h.Sum64()
}

// ---- model ----------------------------------------------------------------------------------

var preRegistered = []reflect.Type{namedTypes[0], namedTypes[2]} // pa.T, pa.Leaf

// histTokens is the history as the driver reads it: events joined by ';' — `R <type>` registers,
// `C <type> | <tree>` recomposes the tree into the type.
func (c *c16Case) histTokens(withHist bool) string {
	o := c.spec.options()
	var es []string
	for _, t := range preRegistered {
		es = append(es, "R "+mustDescribe(t).String())
	}
	if !withHist {
		return strings.Join(es, " ; ")
	}
	for _, h := range c.hist {
		if h.v.IsValid() {
			var t any
			func() {
				defer func() { _ = recover() }()
				t = alt.Decompose(h.v.Interface(), &o)
			}()
			es = append(es, "C "+h.d.String()+" | "+canonTree(t))
		} else {
			es = append(es, "R "+h.d.String())
		}
	}
	return strings.Join(es, " ; ")
}

func checkC16(d *lib.Driver, c *c16Case) error {
	seenMu.Lock()
	if _, dup := seen[c.key()]; dup {
		seenMu.Unlock()
		rep.Count("stream.duplicates_skipped", 1)
		return nil
	}
	seen[c.key()] = struct{}{}
	seenMu.Unlock()
	t, terr := c.tree()
	rep.AddEval(1, 1)
	rep.Count("route."+c.route, 1)
	rep.Count(fmt.Sprintf("history.len=%d", len(c.hist)), 1)
	want := normValue(c.d, c.v, c.tagsUsed())
	if c.route == "oj" {
		want = ifaceFloats(want)
	}
	if terr != "" {
		// the encoder failed: C15's business (nil embedded pointer, tight nil pointer); nothing to recompose
		rep.Count("encode_failed", 1)
		return nil
	}
	exact0, norm0 := c.run(t, false)
	exactH, normH := c.run(t, true)
	rep.Sample(map[string]any{"type": c.d.RT.String(), "route": c.route, "history": len(c.hist), "outcome": norm0})
	report := func(ids []string, class, what string, extra map[string]any) {
		rp := c.replay()
		for k, v := range extra {
			rp[k] = v
		}
		if len(ids) == 0 {
			rep.Add(lib.Finding{Kind: "violation", Class: class, What: what, Replay: rp})
			return
		}
		for _, id := range ids {
			f := lib.Finding{Kind: "violation", Class: class + ":" + id, What: what, Replay: rp}
			if lib.HasKnown(knownList, id) {
				f.Kind, f.KnownID = "known", id
			}
			rep.Add(f)
		}
	}
	// the model: the code before 6d5fecb (b, lookup by bare name) and as it is now (-, lookup guarded by the type), without and with the history
	var model [4]string
	if d != nil {
		ck := lib.HexF([]byte(c.createKey()))
		var reqs []string
		for _, dev := range []string{"b", "-"} {
			for _, wh := range []bool{false, true} {
				reqs = append(reqs, strings.Join([]string{"recomp", dev, ck, c.histTokens(wh), c.d.String(), canonTree(t)}, "\t"))
			}
		}
		ans, err := d.Ask(reqs)
		if err != nil {
			return err
		}
		copy(model[:], ans)
		if c.route == "oj" {
			// the model is handed the tree of a plain oj.Parser (integers stay int64); oj.Unmarshal
			// forces floats, which shows in interface slots only (values are within ±2^53)
			for i := range model {
				model[i] = ifaceFloats(model[i])
			}
		}
	}
	// 0. the OTHER half and the theorem (route decompose): the model of alt.Decompose as it is now gives
	// the tree the implementation gave (so a defect that breaks both halves consistently — the same
	// wrong key written and read — still shows), and where the hypotheses of the round-trip theorem
	// (OjgVerif.C16.recompose_inverts_decompose_history: rtOK under the options as the code reads them, no interface slot) hold
	// for this (type, value, options) the implementation must give the value back, no known finding
	// accepted as an excuse
	theoremApplies := false
	if d != nil && c.route == "decompose" {
		w := strings.Split(c.spec.word(false, false), " ")
		ty, val := c.d.String(), valueString(c.d, c.v)
		ans, err := d.Ask([]string{encReq("alt", "xy", c.spec, false, false, ty, val),
			strings.Join([]string{"rtok", w[0], w[1], w[2], ty, val}, "\t")})
		if err != nil {
			return err
		}
		switch ans[0] {
		case "outside", "bad-op":
			rep.Count("model.decompose."+ans[0], 1)
		default:
			if m, got := modelOutcome(ans[0]), canonModel(canonTree(t)); m == got {
				rep.Count("model.decompose.matches", 1)
			} else {
				rp := c.replay()
				rp["model"], rp["implementation"] = m, got
				rep.Add(lib.Finding{Kind: "disagreement", Class: "model:decompose", Replay: rp,
					What: fmt.Sprintf("alt.Decompose gives %s, the model of alt.Decompose (Dev.current) %s", got, m)})
			}
		}
		switch ans[1] {
		case "yes":
			theoremApplies = true
			rep.Count("theorem.applies", 1)
		case "no":
			rep.Count("theorem.hypotheses_not_met", 1)
			// which feature of the type keeps the case outside (several may apply; "other": a key collision,
			// an integer outside its width, a non-zero unexported field …)
			toks, why := " "+ty+" ", 0
			for _, f := range [][2]string{{" e ", "embedded_field"}, {" I ", "interface_slot"}, {" y ", "byte_slice"}} {
				if strings.Contains(toks, f[0]) {
					rep.Count("theorem.outside."+f[1], 1)
					why++
				}
			}
			if c.spec.NestEmbed {
				rep.Count("theorem.outside.nest_embed", 1)
				why++
			}
			if c.spec.UseTags && strings.Contains(ty, lib.HexF([]byte(",string"))) {
				rep.Count("theorem.outside.string_tag_option", 1)
				why++
			}
			if why == 0 {
				rep.Count("theorem.outside.other", 1)
			}
		default:
			rep.Add(lib.Finding{Kind: "disagreement", Class: "driver:" + ans[1], What: "the driver refused an rtok request", Replay: c.replay()})
		}
	}
	if d != nil && (c.route == "oj" || c.route == "sen") {
		// the writer half of the Marshal/Unmarshal route: the model of oj.Marshal (strict) / of the sen
		// writer as it is now describes the tree the (plain) parser reads from the text that was written
		ans, err := d.Ask([]string{encReq(c.route, "xy", c.spec, false, c.route == "oj", c.d.String(), valueString(c.d, c.v))})
		if err != nil {
			return err
		}
		if c.route == "oj" {
			// and the theorem about Marshal's tree (recompose_inverts_marshal_tree): where its hypotheses hold
			// oj.Unmarshal(oj.Marshal(v, o)) must give the value back (ForceFloat included: integers within ±2^53)
			w := strings.Split(c.spec.word(false, true), " ")
			a2, err := d.Ask([]string{strings.Join([]string{"rtok", w[0], w[1], w[2], c.d.String(), valueString(c.d, c.v)}, "\t")})
			if err != nil {
				return err
			}
			if a2[0] == "yes" {
				theoremApplies = true
				rep.Count("theorem.marshal.applies", 1)
			} else {
				rep.Count("theorem.marshal.hypotheses_not_met", 1)
			}
		}
		switch ans[0] {
		case "outside", "bad-op":
			rep.Count("model.writer."+c.route+"."+ans[0], 1)
		default:
			if m, got := modelOutcome(ans[0]), canonModel(canonTree(t)); m == got {
				rep.Count("model.writer."+c.route+".matches", 1)
			} else {
				rp := c.replay()
				rp["model"], rp["implementation"] = m, got
				rep.Add(lib.Finding{Kind: "disagreement", Class: "model:writer:" + c.route, Replay: rp,
					What: fmt.Sprintf("the text the %s writer wrote reads as %s, the model of the writer (Dev.current) gives %s", c.route, got, m)})
			}
		}
	}
	if theoremApplies {
		for i, got := range []string{norm0, normH} {
			if got != want {
				rp := c.replay()
				rp["got"], rp["want"], rp["with_history"] = got, want, i == 1
				rep.Add(lib.Finding{Kind: "disagreement", Class: "theorem:inverse-fails-where-proved", Replay: rp,
					What: fmt.Sprintf("the round-trip theorem applies (rtOK, no interface slot) but Recompose(Decompose(v)) = %s, want %s", got, want)})
			}
		}
	}
	// I. inverse, without history (the Marshal route writes no create key: a struct held by an interface
	// cannot come back, the property asks for a create key there)
	fc := valFacts{ck: c.createKey()}
	facts(c.d, c.v, false, &fc)
	// resolution of create-key names is data driven: the type guard of the repaired model cannot help there
	dataDriven := fc.ifaceStruct || fc.ifaceCK
	// a create-key member with a non-string value names the type "": which struct literal type is filed
	// under "" at that moment depends on the order in which Go walks the field index MAP (since
	// 6d5fecb every struct literal met re-registers itself under ""), so the implementation's own
	// outcome is not determined; the model walks in list order and is not compared on such cases
	ckMember := fc.ifaceCK
	for _, h := range c.hist {
		if h.v.IsValid() {
			fh := valFacts{ck: c.createKey()}
			facts(h.d, h.v, false, &fh)
			dataDriven = dataDriven || fh.ifaceStruct || fh.ifaceCK
			ckMember = ckMember || fh.ifaceCK
		}
	}
	if c.route == "marshal" && fc.ifaceStruct {
		rep.Count("inverse.skipped_marshal_iface_struct", 1)
	} else if norm0 != want {
		reasons := c.knownReasons()
		if c.omittedSiblingSpelling() {
			reasons = []string{"C16-omitted-member-sibling-spelling"}
		}
		if c.spec.NestEmbed && c.route != "marshal" && c.nestEmbedExplains(norm0) {
			reasons = []string{"C16-nest-embed"}
		}
		if len(reasons) == 1 && reasons[0] == "C16-registry-bare-name" && d != nil && !dataDriven && model[2] != "outside" && normTokens(model[2]) != want {
			// the registry repair of the model does not explain it
			reasons = nil
		}
		report(reasons, "inverse:"+c.route, fmt.Sprintf("%s route: got %s, want %s", c.route, norm0, want), map[string]any{"got": norm0, "want": want})
	} else {
		rep.Count("inverse.ok", 1)
	}
	// II. history independence
	if len(c.hist) > 0 {
		if normH != norm0 {
			var reasons []string
			// the history changes the outcome only inside the slots the create key drives
			if fc.ifaceCK && c.createKeyExplains(c.got[0], 1, false) {
				reasons = append(reasons, "C16-createkey-member")
			}
			collision := c.nameCollision(true)
			if collision && dataDriven && (c.createKeyExplains(c.got[0], 1, true) || !c.got[0].IsValid() && c.errs[0] != "") {
				reasons = append(reasons, "C16-createkey-bare-name")
			}
			if len(reasons) == 0 {
				// ids listed as fixed: named only when nothing live explains it, and then a violation
				if c.embPtrInUniverse() {
					reasons = append(reasons, "C16-embedded-pointer")
				}
				if collision && (d == nil || len(reasons) > 0 || model[2] == "outside" || model[3] == "outside" || model[2] == model[3]) {
					reasons = append(reasons, "C16-registry-bare-name")
				}
			}
			report(reasons, "history:"+c.route, fmt.Sprintf("after the history the outcome is %s, without it %s", normH, norm0),
				map[string]any{"with_history": normH, "without_history": norm0})
		} else {
			rep.Count("history.same", 1)
		}
	}
	// III. the model gives the implementation's outcome: the model of the code as it is now (-, lookup
	// guarded by the type, /repo 6d5fecb) or — on a tree without that commit — of the code before (b)
	if d != nil && ckMember {
		rep.Count("model.skipped_createkey_member", 1)
	} else if d != nil {
		for i, got := range []string{exact0, exactH} {
			if model[i] == "outside" || model[i+2] == "outside" {
				rep.Count("model.outside", 1)
				if os.Getenv("VERIF_REFLECT_DEBUG") != "" {
					fmt.Fprintf(os.Stderr, "OUTSIDE %s %s hist=%v impl=%s tree=%s\n", c.d.RT, c.route, i == 1, got, canonTree(t))
				}
				continue
			}
			switch got {
			case model[i+2]:
				rep.Count("model.matches_current", 1)
			case model[i]:
				rep.Count("model.matches_before_6d5fecb", 1)
			default:
				rp := c.replay()
				rp["model_before"], rp["model"], rp["implementation"], rp["with_history"] = model[i], model[i+2], got, i == 1
				rep.Add(lib.Finding{Kind: "disagreement", Class: "model:recompose:" + c.route, Replay: rp,
					What: fmt.Sprintf("model %s (before 6d5fecb: %s), implementation %s", model[i+2], model[i], got)})
			}
		}
	}
	return nil
}

// ---- streams ----------------------------------------------------------------------------------

// histPool: the types a history is drawn from.
func histPool(r *lib.Rng, n int) []*TDesc {
	var out []*TDesc
	for _, t := range allNamed16 {
		out = append(out, mustDescribe(t))
	}
	for i := 0; i < n; i++ {
		g := newTypeGen(r.Fork(i), genOpts{noEmbedPtr: r.Intn(4) != 0, maxFields: 4})
		out = append(out, mustDescribe(g.structT(r.Intn(3))))
	}
	return out
}

func genC16(r *lib.Rng, n int, emit func(*c16Case)) {
	pool := histPool(r.Fork(99), 8)
	for i := 0; i < n; i++ {
		var rt reflect.Type
		depth := r.Intn(3)
		clean := r.Intn(3) != 0 // a case the round trip is expected to work on
		switch k := r.Intn(10); {
		case k < 4:
			rt = lib.Pick(r, allNamed16)
		default:
			g := newTypeGen(r.Fork(i), genOpts{noEmbedPtr: clean, maxFields: 5})
			rt = g.structT(depth)
		}
		d, ok := describe(rt)
		if !ok {
			continue
		}
		vg := &valGen{r: r.Fork(2000 + i), c16: true, noNil: false, ifaceDyn: preRegistered}
		v := vg.newValue(rt, depth+2)
		spec := optSpec{UseTags: r.Bool(), KeyExact: r.Bool(), CreateKey: "^", BytesAs: ojg.BytesAsArray}
		if r.Intn(4) == 0 {
			spec.BytesAs = lib.Pick(r, []int{ojg.BytesAsString, ojg.BytesAsBase64})
		}
		if r.Intn(4) == 0 {
			spec.CreateKey, spec.FullTypePath = "type", r.Bool()
		}
		if r.Intn(10) == 0 {
			spec.NestEmbed = true // the writers nest embedded structs, the recomposer only knows them flattened
		}
		var hist []histEvent
		for k := r.Intn(4); k > 0; k-- {
			hd := lib.Pick(r, pool)
			ev := histEvent{d: hd}
			if r.Bool() {
				hv := &valGen{r: r.Fork(3000 + i + k), c16: true}
				ev.v = hv.newValue(hd.RT, 2)
			}
			hist = append(hist, ev)
		}
		for _, route := range c16Routes {
			emit(&c16Case{hist: hist, d: d, v: v, spec: spec, route: route, useDefault: r.Intn(4) == 0, byPtr: r.Bool()})
		}
	}
}

var c16Routes = []string{"decompose", "marshal", "oj", "sen"}

// the three key-naming plans (tags / exact / lower case) and one with tags but without KeyExact
var c16Plans = []optSpec{
	{CreateKey: "^", BytesAs: ojg.BytesAsArray},
	{KeyExact: true, CreateKey: "^", BytesAs: ojg.BytesAsArray},
	{UseTags: true, KeyExact: true, CreateKey: "^", BytesAs: ojg.BytesAsArray},
	{UseTags: true, CreateKey: "type", FullTypePath: true, BytesAs: ojg.BytesAsArray},
}

// widthValues: values of a type made of numeric fields (pa.Widths, pa.WideIn): in value j every
// integer field holds the j-th of the bounds of c16Bounds (and 0, 1, -1) that its width admits, the
// float64 fields a value a float32 cannot hold, the float32 fields one it can.
func widthValues(rt reflect.Type) []reflect.Value {
	bounds := append([]int64{0, 1, -1}, c16Bounds...)
	f32 := []float64{0, 0.5, -2.25, 16777216, -16777216, 65536.5, 1e6, 8388607.5}
	var out []reflect.Value
	for j := 0; j < len(bounds); j++ {
		v := reflect.New(rt).Elem()
		var set func(v reflect.Value)
		set = func(v reflect.Value) {
			switch v.Kind() {
			case reflect.Struct:
				for i := 0; i < v.NumField(); i++ {
					set(v.Field(i))
				}
			case reflect.Int, reflect.Int8, reflect.Int16, reflect.Int32, reflect.Int64:
				var ok []int64
				for _, b := range bounds {
					if !v.OverflowInt(b) {
						ok = append(ok, b)
					}
				}
				v.SetInt(ok[j%len(ok)])
			case reflect.Uint, reflect.Uint8, reflect.Uint16, reflect.Uint32, reflect.Uint64:
				var ok []uint64
				for _, b := range bounds {
					if b >= 0 && !v.OverflowUint(uint64(b)) {
						ok = append(ok, uint64(b))
					}
				}
				v.SetUint(ok[j%len(ok)])
			case reflect.Float32:
				f := f32[j%len(f32)]
				if !float32Safe(f) {
					f = 0.5
				}
				v.SetFloat(f)
			case reflect.Float64:
				v.SetFloat(float64Pool16[j%len(float64Pool16)])
			case reflect.Bool:
				v.SetBool(j%2 == 0)
			case reflect.String:
				v.SetString(stringPool[j%len(stringPool)])
			}
		}
		set(v)
		out = append(out, v)
	}
	return out
}

// boundaryValues16: (a) every numeric width at and just beyond the range of each narrower width;
// (b) embedded structs and pointers in non-first position; (c) same-named types with different field
// sets in turn on one recomposer — each through all routes, by value and by pointer, under every
// key-naming plan, on a recomposer of its own and on the default one.
func boundaryValues16(emit func(*c16Case)) {
	ty := func(v any) reflect.Type { return reflect.TypeOf(v) }
	all := func(d *TDesc, v reflect.Value, hist []histEvent, defaults []bool) {
		for _, s := range c16Plans {
			for _, route := range c16Routes {
				for _, bp := range []bool{false, true} {
					for _, ud := range defaults {
						emit(&c16Case{hist: hist, d: d, v: v, spec: s, route: route, byPtr: bp, useDefault: ud})
					}
				}
			}
		}
	}
	// (a)
	unnamedWidths := reflect.StructOf([]reflect.StructField{
		{Name: "Head", Type: stringType},
		{Name: "Part", Type: ty(pa.Widths{}), Tag: `json:"part"`},
		{Name: "List", Type: reflect.SliceOf(ty(uint32(0)))},
		{Name: "Tail", Type: ty(uint16(0)), Tag: `json:"t_1,omitempty"`},
	})
	for _, rt := range []reflect.Type{ty(pa.Widths{}), ty(pa.WideIn{}), unnamedWidths} {
		d := mustDescribe(rt)
		for j, v := range widthValues(rt) {
			if rt == unnamedWidths {
				v.Field(2).Set(reflect.ValueOf([]uint32{65535, 65536, 1<<32 - 1, uint32(j)}))
			}
			all(d, v, nil, []bool{false})
		}
	}
	// (b)
	inner := reflect.StructOf([]reflect.StructField{
		{Name: "Left", Type: ty(int32(0))},
		{Name: "Right", Type: stringType, Tag: `json:"t_2"`},
		{Name: "Up", Type: ty(uint64(0)), Tag: `json:"t_3,omitempty"`},
	})
	mid := func(ptr bool, tags ...string) reflect.Type {
		et := inner
		if ptr {
			et = reflect.PtrTo(inner)
		}
		tags = append(tags, "", "")
		return reflect.StructOf([]reflect.StructField{
			{Name: "Id", Type: ty(int64(0)), Tag: `json:"t_1"`},
			{Name: "Mode", Type: boolType},
			{Name: "Emb1", Type: et, Anonymous: true, Tag: reflect.StructTag(tags[0])},
			{Name: "Name", Type: stringType},
			{Name: "Emb2", Type: ty(pa.Leaf{}), Anonymous: true, Tag: reflect.StructTag(tags[1])},
			{Name: "Zed", Type: ty(uint8(0)), Tag: `json:",omitempty"`},
		})
	}
	for ti, rt := range []reflect.Type{ty(pa.EmbMid{}), ty(pa.EmbTag{}), ty(pa.WideIn{}), ty(pa.Emb{}), mid(false), mid(true),
		ty(pa.EmbTagged{}), ty(pa.EmbTaggedP{}), mid(false, `json:",inline"`, `json:"t_9"`), mid(true, `json:"t_8,omitempty"`, `json:",omitempty"`),
		mid(true, `json:"-"`, `json:",inline"`)} {
		d := mustDescribe(rt)
		for k := 0; k < 6; k++ {
			vg := &valGen{r: lib.NewRng(uint64(7000 + 10*ti + k)), c16: true, noNil: k%3 != 2}
			all(d, vg.newValue(rt, 3), nil, []bool{false})
		}
	}
	// (c)
	same := append(pa.Samples(), pb.Sample(), ty(pa.T{}), ty(pb.T{}))
	for ti, rt := range same {
		for hi, ht := range same {
			if ht == rt {
				continue
			}
			d, hd := mustDescribe(rt), mustDescribe(ht)
			vg := &valGen{r: lib.NewRng(uint64(8000 + 10*ti + hi)), c16: true, noNil: true}
			v, hv := vg.newValue(rt, 3), vg.newValue(ht, 3)
			all(d, v, []histEvent{{d: hd}}, []bool{false, true})
			all(d, v, []histEvent{{d: hd, v: hv}}, []bool{false, true})
			if third := same[(hi+1)%len(same)]; third != rt && third != ht {
				all(d, v, []histEvent{{d: hd, v: hv}, {d: mustDescribe(third)}}, []bool{false})
			}
		}
	}
}

func boundaryC16(emit func(*c16Case)) {
	anon1 := reflect.TypeOf(struct {
		Alpha string
		Delta uint16
	}{})
	anon2 := reflect.TypeOf(struct {
		Beta  int
		Gamma bool
	}{})
	nested := reflect.TypeOf(struct {
		URL struct {
			Alpha string
			Delta uint16
		}
	}{})
	specs := []optSpec{{CreateKey: "^", BytesAs: ojg.BytesAsArray}, {UseTags: true, KeyExact: true, CreateKey: "^", BytesAs: ojg.BytesAsArray}}
	mk := func(rt reflect.Type, seed uint64) reflect.Value {
		vg := &valGen{r: lib.NewRng(seed), c16: true, noNil: true}
		return vg.newValue(rt, 3)
	}
	var named []reflect.Type
	named = append(named, namedTypes...)
	targets := append([]reflect.Type{anon1, anon2, nested}, named...)
	hists := [][]reflect.Type{nil, {anon1}, {anon2}, {nested}, {named[0]}, {named[1]}, {named[1], named[0]}, {named[4]}, {named[5]}, {named[5], named[4]}}
	for ti, rt := range targets {
		for hi, h := range hists {
			for _, s := range specs {
				for _, route := range []string{"decompose", "marshal"} {
					var hist []histEvent
					for _, ht := range h {
						hist = append(hist, histEvent{d: mustDescribe(ht)})
					}
					emit(&c16Case{hist: hist, d: mustDescribe(rt), v: mk(rt, uint64(ti*31+hi)), spec: s, route: route})
				}
			}
		}
	}
}

// omittedSiblingSpelling: the outcome is the one finding C16-omitted-member-sibling-spelling predicts. The
// route uses tags; some top-level field f has a tag name with omitempty and an empty value (no member
// is written); walking the spellings of f's Go name in recomp's order (Go name, first letter lowered,
// all lowered), the first one that names a written member is the tag name of a sibling g; then f
// receives g's member. Predicted: every such f holds exactly g's value (converted to f's type as
// reflect converts it), every other field its own; where the kinds differ a conversion error is
// accepted as well (whether the member converts depends on the route: int64 vs the float64 of
// ForceFloat).
func (c *c16Case) omittedSiblingSpelling() bool {
	rt := c.d.RT
	if !c.tagsUsed() || rt.Kind() != reflect.Struct {
		return false
	}
	tagName := func(f reflect.StructField) (string, bool) {
		tag, _ := f.Tag.Lookup("json")
		parts := strings.Split(tag, ",")
		omit := false
		for _, p := range parts[1:] {
			omit = omit || p == "omitempty"
		}
		return parts[0], omit
	}
	written := func(j int) (string, bool) { // the key field j is written under, if it is written
		f := rt.Field(j)
		name, omit := tagName(f)
		if name == "-" && !strings.Contains(string(f.Tag), ",") || f.PkgPath != "" || f.Anonymous {
			return "", false
		}
		if omit && c.v.Field(j).IsZero() {
			return "", false
		}
		if name == "" {
			name = f.Name
		}
		return name, true
	}
	w := reflect.New(rt).Elem()
	w.Set(c.v)
	hits, mixed := 0, false
	for i := 0; i < rt.NumField(); i++ {
		f := rt.Field(i)
		name, _ := tagName(f)
		if _, isWritten := written(i); isWritten || name == "" || name == "-" || f.PkgPath != "" || f.Anonymous {
			continue
		}
	spellings:
		for _, sp := range []string{f.Name, strings.ToLower(f.Name[:1]) + f.Name[1:], strings.ToLower(f.Name)} {
			for j := 0; j < rt.NumField(); j++ {
				if k, ok := written(j); j != i && ok && k == sp {
					hits++
					gv := c.v.Field(j)
					switch {
					case gv.Type().Kind() == f.Type.Kind():
						w.Field(i).Set(gv.Convert(f.Type))
					case gv.Type().ConvertibleTo(f.Type):
						mixed = true
						w.Field(i).Set(gv.Convert(f.Type))
					default:
						return c.errs[0] != ""
					}
					break spellings
				}
			}
		}
	}
	if hits == 0 {
		return false
	}
	if c.errs[0] != "" {
		return mixed
	}
	return c.got[0].IsValid() && normValue(c.d, c.got[0], true) == normValue(c.d, w, true)
}

// collidingC16: struct types in which one field's TAG NAME is a spelling (exact, first letter lowered,
// all lower case) of a DIFFERENT field's Go name, Go names that are spellings of sibling tags, tags
// that differ in case only, and a field whose Go name spells the create key — scalar fields of
// different kinds, so that a member assigned to the wrong field shows as a different value or as a
// conversion error. recomp's struct case looks a member up under the index key (the tag name) FIRST and
// under the spellings of the Go name only when there is none (seeded C16-m8 reversed that order and was
// missed: no generated type had such names). Only tag-using writers (UseTags; oj.Marshal), no
// omitempty and no nil: a member that is absent falls through to the Go-name spellings by design.
func collidingC16(seed uint64, emit func(*c16Case)) {
	r := lib.NewRng(seed ^ 0xC0111DE)
	kinds := []reflect.Type{stringType, reflect.TypeOf(int(0)), reflect.TypeOf(float64(0)), reflect.TypeOf(false), reflect.TypeOf(uint16(0)), reflect.TypeOf(int8(0))}
	spell := func(n string, k int) string {
		switch k {
		case 0:
			return n
		case 1:
			return strings.ToLower(n[:1]) + n[1:]
		}
		return strings.ToLower(n)
	}
	fld := func(name, tag string, t reflect.Type) reflect.StructField {
		f := reflect.StructField{Name: name, Type: t}
		if tag != "" {
			f.Tag = reflect.StructTag(`json:"` + tag + `"`)
		}
		return f
	}
	var types []reflect.Type
	types = append(types,
		reflect.StructOf([]reflect.StructField{fld("Kind", "type", stringType), fld("Type", "kind", kinds[1])}),
		reflect.StructOf([]reflect.StructField{fld("V", "value", kinds[2]), fld("Value", "label", stringType)}),
		reflect.StructOf([]reflect.StructField{fld("Alpha", "name", stringType), fld("Beta", "Name", kinds[1]), fld("Name", "alpha", kinds[3])}),
		reflect.StructOf([]reflect.StructField{fld("Type", "kind", kinds[1]), fld("Other", "", stringType)}),
		reflect.StructOf([]reflect.StructField{fld("Count", "Size", stringType), fld("Size", "count", kinds[4]), fld("Key", "", kinds[2])}),
	)
	pool := []string{"Kind", "Type", "Value", "Label", "Name", "Key", "Count", "Size", "Alpha", "Beta"}
	for i := 0; i < 40; i++ {
		n := 2 + r.Intn(3)
		perm := make([]int, len(pool))
		for j := range perm {
			perm[j] = j
		}
		for j := len(perm) - 1; j > 0; j-- {
			k := r.Intn(j + 1)
			perm[j], perm[k] = perm[k], perm[j]
		}
		perm = perm[:n]
		k0 := r.Intn(len(kinds))
		var fs []reflect.StructField
		for j := 0; j < n; j++ {
			// the tag of field j spells the Go name of the NEXT field (cyclically); neighbours differ in kind
			tag := spell(pool[perm[(j+1)%n]], r.Intn(3))
			if r.Intn(6) == 0 {
				tag = "" // an untagged field among them: its Go name may spell a sibling's tag
			}
			fs = append(fs, fld(pool[perm[j]], tag, kinds[(k0+j)%len(kinds)]))
		}
		// the keys the tag-using writers write (tag name, else the exact Go name) must be distinct: two
		// members under one key is a collision in the TREE, not in the decoder's lookup
		written, dup := map[string]bool{}, false
		for _, f := range fs {
			k, _ := f.Tag.Lookup("json")
			if k == "" {
				k = f.Name
			}
			dup = dup || written[k]
			written[k] = true
		}
		if dup {
			continue
		}
		types = append(types, reflect.StructOf(fs))
	}
	// finding C16-omitted-member-sibling-spelling (fixed by /repo 1029e85; a recurrence is a violation): an omitempty field with an empty value next to a sibling
	// whose tag name spells its Go name (the member is absent, the lookups fall through)
	absent := []struct {
		rt   reflect.Type
		vals []any
	}{
		{reflect.StructOf([]reflect.StructField{fld("Kind", "type,omitempty", kinds[3]), fld("Type", "kind", kinds[1])}), []any{false, 7}},
		{reflect.StructOf([]reflect.StructField{fld("Kind", "type,omitempty", stringType), fld("Type", "kind", stringType)}), []any{"", "x"}},
		{reflect.StructOf([]reflect.StructField{fld("Label", "name,omitempty", stringType), fld("Name", "label", stringType)}), []any{"", "y"}},
		{reflect.StructOf([]reflect.StructField{fld("ID", "Key,omitempty", kinds[1]), fld("Key", "id", kinds[1])}), []any{0, 5}},
	}
	for _, a := range absent {
		d, ok := describe(a.rt)
		if !ok {
			continue
		}
		for empty := 0; empty < 2; empty++ {
			v := reflect.New(a.rt).Elem()
			for i, x := range a.vals {
				if i == 0 && empty == 1 {
					// the control: the field is NOT empty, its member is written and found under its key
					switch v.Field(0).Kind() {
					case reflect.Bool:
						v.Field(0).SetBool(true)
					case reflect.String:
						v.Field(0).SetString("own")
					default:
						v.Field(0).SetInt(3)
					}
					continue
				}
				v.Field(i).Set(reflect.ValueOf(x).Convert(v.Field(i).Type()))
			}
			for _, route := range c16Routes {
				emit(&c16Case{d: d, v: v, spec: c16Plans[2], route: route})
			}
		}
	}
	// the same with omitempty on random fields and zero values in them (seeded): judged by the predicate
	for ti, rt := range types {
		var fs []reflect.StructField
		any := false
		for i := 0; i < rt.NumField(); i++ {
			f := rt.Field(i)
			if tag, _ := f.Tag.Lookup("json"); tag != "" && r.Intn(2) == 0 {
				f.Tag = reflect.StructTag(`json:"` + tag + `,omitempty"`)
				any = true
			}
			fs = append(fs, f)
		}
		ot := reflect.StructOf(fs)
		d, ok := describe(ot)
		if !any || !ok {
			continue
		}
		vg := &valGen{r: lib.NewRng(seed + uint64(1000+ti)), c16: true, noNil: true}
		v := vg.newValue(ot, 2)
		for i := 0; i < ot.NumField(); i++ {
			if tag, _ := ot.Field(i).Tag.Lookup("json"); strings.Contains(tag, ",omitempty") && r.Intn(3) != 0 {
				v.Field(i).Set(reflect.Zero(ot.Field(i).Type))
			}
		}
		for _, route := range c16Routes {
			emit(&c16Case{d: d, v: v, spec: c16Plans[2], route: route})
		}
	}
	for ti, rt := range types {
		d, ok := describe(rt)
		if !ok {
			continue
		}
		hasTypeTag := false
		for i := 0; i < rt.NumField(); i++ {
			if tag, _ := rt.Field(i).Tag.Lookup("json"); tag == "type" {
				hasTypeTag = true
			}
		}
		for vi := 0; vi < 2; vi++ {
			vg := &valGen{r: lib.NewRng(seed + uint64(ti*7+vi)), c16: true, noNil: true}
			v := vg.newValue(rt, 2)
			for pi, spec := range c16Plans[2:] {
				if pi == 1 && hasTypeTag {
					continue // the create key "type" and a member named "type" would collide in the tree itself
				}
				for _, route := range c16Routes {
					emit(&c16Case{d: d, v: v, spec: spec, route: route, useDefault: vi == 1 && route != "decompose", byPtr: vi == 1})
				}
			}
		}
	}
}

func runC16() error {
	if *replay != "" {
		return replayC16()
	}
	full := *tier == "thorough"
	perWorker := 1500 // values; each goes through the four routes
	if full {
		perWorker = 8000
	}
	if s := os.Getenv("VERIF_REFLECT_N"); s != "" {
		fmt.Sscanf(s, "%d", &perWorker)
	}
	root := lib.NewRng(*seed)
	var wg sync.WaitGroup
	errc := make(chan error, *workers+1)
	for w := 0; w < *workers; w++ {
		wg.Add(1)
		r := root.Fork(w)
		go func(w int) {
			defer wg.Done()
			var d *lib.Driver
			if *driver != "" {
				var err error
				if d, err = lib.StartDriver(*driver); err != nil {
					errc <- err
					return
				}
				defer d.Close()
			}
			emit := func(c *c16Case) {
				if err := checkC16(d, c); err != nil {
					select {
					case errc <- err:
					default:
					}
				}
			}
			if w == 0 {
				boundaryC16(func(c *c16Case) { emit(c); rep.Count("stream.boundary", 1) })
				boundaryValues16(func(c *c16Case) { emit(c); rep.Count("stream.boundary_values", 1) })
				selfEmbC16() // self-embedding types: outside the model, deep equality
				collidingC16(*seed, func(c *c16Case) { emit(c); rep.Count("stream.colliding_names", 1) })
			}
			genC16(r, perWorker, func(c *c16Case) { emit(c); rep.Count("stream.random", 1) })
		}(w)
	}
	wg.Wait()
	select {
	case err := <-errc:
		return err
	default:
	}
	rep.Rule = "alt.Recompose(alt.Decompose(v, o)), oj.Unmarshal(oj.Marshal(v)), oj.Unmarshal(oj.Marshal(v, o)) and sen.Unmarshal(sen text of v under o), with v handed by value and by pointer, give v back (nil ~ empty); the outcome after a history of other types on the same recomposer " +
		"equals the outcome on a fresh one; the Lean registry/recompose model gives the implementation's outcome with and without the history"
	return nil
}

// ---- replay -----------------------------------------------------------------------------------

func c16FromReplay(m map[string]any) (*c16Case, error) {
	base, err := caseFromReplay(m)
	if err != nil {
		return nil, err
	}
	c := &c16Case{d: base.d, v: base.v, spec: base.spec, byPtr: base.byPtr}
	c.route, _ = m["route"].(string)
	if c.route == "" {
		c.route = "decompose"
	}
	c.useDefault, _ = m["default_recomposer"].(bool)
	hs, _ := m["history"].([]any)
	for _, h := range hs {
		e, _ := h.(string)
		if len(e) < 2 {
			return nil, fmt.Errorf("bad history event %q", e)
		}
		ty, val := e[2:], ""
		if i := strings.IndexByte(ty, '|'); i >= 0 {
			ty, val = ty[:i], ty[i+1:]
		}
		rt, rest, err := buildType(strings.Fields(ty))
		if err != nil || len(rest) != 0 {
			return nil, fmt.Errorf("bad history type: %v", err)
		}
		ev := histEvent{d: mustDescribe(rt)}
		if e[0] == 'C' {
			v := reflect.New(rt).Elem()
			if rest, err := buildValue(v, strings.Fields(val)); err != nil || len(rest) != 0 {
				return nil, fmt.Errorf("bad history value: %v", err)
			}
			ev.v = v
		}
		c.hist = append(c.hist, ev)
	}
	return c, nil
}

func replayC16() error {
	data, err := os.ReadFile(*replay)
	if err != nil {
		return err
	}
	var rf replayFile
	if err := json.Unmarshal(data, &rf); err != nil {
		return err
	}
	c, err := c16FromReplay(rf.Replay)
	if err != nil {
		return err
	}
	var d *lib.Driver
	if *driver != "" {
		if d, err = lib.StartDriver(*driver); err != nil {
			return err
		}
		defer d.Close()
	}
	if err := checkC16(d, c); err != nil {
		return err
	}
	for _, f := range rep.Findings {
		fmt.Printf("%s %s: %s\n", f.Kind, f.Class, f.What)
	}
	return nil
}
