package pb

import "reflect"

// Sample returns a function-local type with the bare name of pa's Samples and another package path.
func Sample() reflect.Type {
	type Sample struct {
		Count string
		Extra uint32
	}
	return reflect.TypeOf(Sample{})
}
