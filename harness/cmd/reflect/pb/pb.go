// Package pb mirrors package pa with the same type names and different fields.
package pb

// T shares its name with pa.T.
type T struct {
	Beta  float64
	Count int
	Extra []int
}

// Other is only declared here.
type Other struct {
	Word string
}

// Outer shares its name with pa.Outer.
type Outer struct {
	Item  T
	Ref   *T
	List  []*T
	Table map[string]*T
	Other Other
}
