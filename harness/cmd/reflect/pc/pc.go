// Package pc holds target types for the C06rec crash search: recursive types, types with fields the
// recomposer cannot fill (func, chan, complex, non-empty interfaces), named non-struct types, and
// implementations of json.Unmarshaler and alt.AttrSetter.
package pc

import (
	"errors"
	"io"
	"strconv"
	"time"
)

// Node is recursive through a pointer, a slice and a map.
type Node struct {
	Name string
	Next *Node
	Kids []Node
	Refs map[string]*Node
	Any  any
}

// Ring and Link are mutually recursive.
type Ring struct {
	Link *Link
	N    int
}

// Link points back to Ring.
type Link struct {
	Ring  *Ring
	Rings []*Ring
	Label string
}

// SelfEmb embeds a pointer to itself (legal Go: the promoted fields are those of SelfEmb).
type SelfEmb struct {
	*SelfEmb
	X int
}

// EmbA and EmbB embed pointers to each other.
type EmbA struct {
	*EmbB
	A int
}

// EmbB embeds *EmbA.
type EmbB struct {
	*EmbA
	B string
}

// Named container types that contain themselves: reflect's Elem() walk from one of them never reaches
// a non-container type. Until /repo 041b92d registering a struct with a field of such a type never
// returned (C06-recompose-selfcontaining-container: the unwrap loop of registerComposer).

// Tree is a map of itself.
type Tree map[string]Tree

// SelfL is a slice of itself.
type SelfL []SelfL

// ListA and ListB contain each other.
type ListA []ListB

// ListB is a slice of ListA.
type ListB []ListA

// SelfP is a pointer to itself.
type SelfP *SelfP

// ArrS is an array of slices of itself.
type ArrS [2][]ArrS

// MapL is a map of slices of itself.
type MapL map[string][]MapL

// HasTree has a field of a self-containing map type.
type HasTree struct {
	Name string
	Kids Tree
}

// HasSelfL has a field of a self-containing slice type.
type HasSelfL struct {
	L SelfL
	N int
}

// HasAB has fields of two mutually containing slice types.
type HasAB struct {
	A ListA
	B *ListB
}

// HasSelfP has a field of a self-pointing pointer type.
type HasSelfP struct {
	P SelfP
	S string
}

// HasArrS has a field of an array type that contains itself through a slice.
type HasArrS struct {
	X ArrS
}

// HasMapL has a field of a map type that contains itself through a slice, and a struct that has a
// self-containing field of its own.
type HasMapL struct {
	M     MapL
	Inner *HasTree
	Items []HasSelfL
}

// Odd has fields of kinds the recomposer has no case for.
type Odd struct {
	F    func()
	C    chan int
	Z    complex128
	R    io.Reader
	E    error
	PP   **int
	PI   *any
	MI   map[int]string
	MB   map[bool]int
	Up   uintptr
	Keep int
}

// MyInt, MyStr, MyList, MyMap are named non-struct types.
type MyInt int16

// MyStr is a named string.
type MyStr string

// MyList is a named slice.
type MyList []MyInt

// MyMap is a named map.
type MyMap map[MyStr]MyList

// Named uses the named non-struct types.
type Named struct {
	I MyInt
	S MyStr
	L MyList
	M MyMap
	P *MyInt
}

// Times has time fields.
type Times struct {
	At  time.Time
	Dur time.Duration
	PT  *time.Time
	TS  []time.Time
}

// Um implements json.Unmarshaler.
type Um struct {
	Raw string
}

// UnmarshalJSON keeps the text; it fails on text starting with '['.
func (u *Um) UnmarshalJSON(b []byte) error {
	if len(b) > 0 && b[0] == '[' {
		return errors.New("Um does not take arrays")
	}
	u.Raw = string(b)
	return nil
}

// HasUm holds json.Unmarshaler implementations in fields.
type HasUm struct {
	U  Um
	PU *Um
	LU []Um
	N  int
}

// Setter implements alt.AttrSetter.
type Setter struct {
	Seen map[string]string
	N    int
}

// SetAttr records the attribute; it fails on the key "bad" and writes to Seen even when it is nil
// only after making it.
func (s *Setter) SetAttr(attr string, val any) error {
	if attr == "bad" {
		return errors.New("bad attribute")
	}
	if s.Seen == nil {
		s.Seen = map[string]string{}
	}
	if n, ok := val.(int64); ok {
		s.Seen[attr] = strconv.FormatInt(n, 10)
	} else {
		s.Seen[attr] = "?"
	}
	return nil
}

// HasSetter holds an AttrSetter in fields.
type HasSetter struct {
	S  Setter
	PS *Setter
	LS []*Setter
}
