// Package pc holds target types for the C06rec crash search: recursive types, types with fields the
// recomposer cannot fill (func, chan, complex, non-empty interfaces), named non-struct types, and
// implementations of json.Unmarshaler and alt.AttrSetter.
package pc

import (
	"errors"
	"io"
	"strconv"
	"time"
)

// Node is recursive through a pointer, a slice and a map.
type Node struct {
	Name string
	Next *Node
	Kids []Node
	Refs map[string]*Node
	Any  any
}

// Ring and Link are mutually recursive.
type Ring struct {
	Link *Link
	N    int
}

// Link points back to Ring.
type Link struct {
	Ring  *Ring
	Rings []*Ring
	Label string
}

// SelfEmb embeds a pointer to itself (legal Go: the promoted fields are those of SelfEmb).
type SelfEmb struct {
	*SelfEmb
	X int
}

// EmbA and EmbB embed pointers to each other.
type EmbA struct {
	*EmbB
	A int
}

// EmbB embeds *EmbA.
type EmbB struct {
	*EmbA
	B string
}

// Odd has fields of kinds the recomposer has no case for.
type Odd struct {
	F    func()
	C    chan int
	Z    complex128
	R    io.Reader
	E    error
	PP   **int
	PI   *any
	MI   map[int]string
	MB   map[bool]int
	Up   uintptr
	Keep int
}

// MyInt, MyStr, MyList, MyMap are named non-struct types.
type MyInt int16

// MyStr is a named string.
type MyStr string

// MyList is a named slice.
type MyList []MyInt

// MyMap is a named map.
type MyMap map[MyStr]MyList

// Named uses the named non-struct types.
type Named struct {
	I MyInt
	S MyStr
	L MyList
	M MyMap
	P *MyInt
}

// Times has time fields.
type Times struct {
	At  time.Time
	Dur time.Duration
	PT  *time.Time
	TS  []time.Time
}

// Um implements json.Unmarshaler.
type Um struct {
	Raw string
}

// UnmarshalJSON keeps the text; it fails on text starting with '['.
func (u *Um) UnmarshalJSON(b []byte) error {
	if len(b) > 0 && b[0] == '[' {
		return errors.New("Um does not take arrays")
	}
	u.Raw = string(b)
	return nil
}

// HasUm holds json.Unmarshaler implementations in fields.
type HasUm struct {
	U  Um
	PU *Um
	LU []Um
	N  int
}

// Setter implements alt.AttrSetter.
type Setter struct {
	Seen map[string]string
	N    int
}

// SetAttr records the attribute; it fails on the key "bad" and writes to Seen even when it is nil
// only after making it.
func (s *Setter) SetAttr(attr string, val any) error {
	if attr == "bad" {
		return errors.New("bad attribute")
	}
	if s.Seen == nil {
		s.Seen = map[string]string{}
	}
	if n, ok := val.(int64); ok {
		s.Seen[attr] = strconv.FormatInt(n, 10)
	} else {
		s.Seen[attr] = "?"
	}
	return nil
}

// HasSetter holds an AttrSetter in fields.
type HasSetter struct {
	S  Setter
	PS *Setter
	LS []*Setter
}
