package main

// Self-embedding types (pc.SelfEmb embeds *pc.SelfEmb; pc.EmbA and pc.EmbB embed pointers to each
// other) in the C15 and C16 streams. They are not values of the Lean model's GoType (a finite tree)
// and the TDesc descriptions of this harness do not end on them, so these families run without the
// model: the encoders are compared with each other and with encoding/json (Go promotes the
// shallowest field of a name), the round trip with reflect.DeepEqual. Until /repo 1c47510 every
// encoder died of a stack overflow on such a type (C15-self-embedding), until 25154ae the
// recomposer (C06rec-self-embedding): a probe in a child process keeps a recurrence from taking the
// harness down — it is reported as a violation and the family skipped.

import (
	"fmt"
	"os"
	"os/exec"
	"reflect"
	"sync"
	"time"

	"github.com/ohler55/ojg"
	"github.com/ohler55/ojg/alt"
	"github.com/ohler55/ojg/oj"
	"github.com/ohler55/ojg/sen"

	"verif/harness/cmd/reflect/pc"
	"verif/harness/lib"
)

type selfHolder struct {
	Head pc.SelfEmb
	List []pc.EmbA
	Refs map[string]*pc.EmbB
	Tail *pc.SelfEmb
}

// selfEmbExact: values without a field shadowed by a shallower one — the round trip gives them back.
func selfEmbExact() []any {
	return []any{
		pc.SelfEmb{X: 1}, pc.SelfEmb{}, pc.EmbA{A: 1}, pc.EmbA{EmbB: &pc.EmbB{B: "b"}, A: 1}, pc.EmbB{B: "x"},
		pc.EmbB{EmbA: &pc.EmbA{A: 4}, B: "x"}, []pc.SelfEmb{{X: 1}, {X: -2}}, map[string]pc.EmbA{"k": {EmbB: &pc.EmbB{B: "v"}, A: 7}},
		selfHolder{Head: pc.SelfEmb{X: 5}, List: []pc.EmbA{{A: 1}, {EmbB: &pc.EmbB{B: "q"}}}, Refs: map[string]*pc.EmbB{"a": {B: "r"}, "n": nil}, Tail: &pc.SelfEmb{X: 6}},
	}
}

// selfEmbShadowed: values in which a deeper occurrence holds data a shallower field of the same
// name hides: every encoder writes the shallowest, as encoding/json does.
func selfEmbShadowed() []any {
	return []any{
		pc.SelfEmb{SelfEmb: &pc.SelfEmb{X: 2}, X: 1}, pc.SelfEmb{SelfEmb: &pc.SelfEmb{SelfEmb: &pc.SelfEmb{X: 3}, X: 2}},
		pc.EmbA{EmbB: &pc.EmbB{EmbA: &pc.EmbA{A: 9}, B: "b"}, A: 1}, pc.EmbB{EmbA: &pc.EmbA{EmbB: &pc.EmbB{B: "deep"}, A: 4}, B: "x"},
		selfHolder{Head: pc.SelfEmb{SelfEmb: &pc.SelfEmb{X: 8}, X: 5}, List: []pc.EmbA{{EmbB: &pc.EmbB{EmbA: &pc.EmbA{A: 3}}, A: 2}}},
	}
}

var selfEmbSpecs = []optSpec{goOpt, {BytesAs: ojg.BytesAsBase64}, {KeyExact: true, BytesAs: ojg.BytesAsBase64}}

// selfProbe: (child) every encoder and the recomposer once on each type.
func selfProbe() {
	for _, v := range append(selfEmbExact(), selfEmbShadowed()...) {
		for _, s := range selfEmbSpecs {
			o := s.options()
			p := reflect.New(reflect.TypeOf(v))
			p.Elem().Set(reflect.ValueOf(v))
			_ = oj.JSON(p.Interface(), &o)
			_ = sen.String(v, &o)
			t := alt.Decompose(p.Interface(), &o)
			_, _ = alt.MustNewRecomposer("", nil).Recompose(t, reflect.New(reflect.TypeOf(v)).Interface())
		}
	}
}

var selfProbeOnce sync.Once
var selfProbeOK bool

// selfEmbUsable runs the probe in a child process (once) and reports a failure as a violation.
func selfEmbUsable(prop string) bool {
	selfProbeOnce.Do(func() {
		exe, err := os.Executable()
		if err != nil {
			return
		}
		cmd := exec.Command(exe, "-prop", "selfprobe")
		done := make(chan error, 1)
		var out []byte
		go func() {
			var e error
			out, e = cmd.CombinedOutput()
			done <- e
		}()
		select {
		case err = <-done:
		case <-time.After(60 * time.Second):
			_ = cmd.Process.Kill()
			err = fmt.Errorf("no answer within 60 s")
		}
		if err == nil {
			selfProbeOK = true
			return
		}
		msg := string(out)
		if len(msg) > 300 {
			msg = msg[:300]
		}
		rep.Add(lib.Finding{Kind: "violation", Class: "fatal:self-embedding", Replay: map[string]any{"go_type": "pc.SelfEmb, pc.EmbA, pc.EmbB", "probe": "selfprobe"},
			What: fmt.Sprintf("%s: an encoder or the recomposer does not survive a struct type that embeds a pointer to itself (%v): %s", prop, err, msg)})
	})
	return selfProbeOK
}

// mapKeys rewrites the member names of an encoding/json tree the way the option set spells field
// names (the types of this family carry no tags; map keys are lower case already).
func mapKeys(n *lib.Node, exact bool) *lib.Node {
	out := &lib.Node{Kind: n.Kind, Text: n.Text}
	for i, k := range n.Kids {
		if n.Kind == '{' {
			key := n.Keys[i]
			if !exact {
				b, _ := lib.UnhexF(key)
				key = lib.HexF([]byte(lowerKey(string(b))))
			}
			out.Keys = append(out.Keys, key)
		}
		out.Kids = append(out.Kids, mapKeys(k, exact))
	}
	if out.Kind == '{' {
		sortObj(out)
	}
	return out
}

// selfEmbC15: every encoder describes the tree encoding/json describes (member names spelled as the
// options say).
func selfEmbC15() {
	if !selfEmbUsable("C15") {
		return
	}
	for _, v := range append(selfEmbExact(), selfEmbShadowed()...) {
		jn, err := lib.ParseCanon(jsonOutcome(v))
		if err != nil {
			continue
		}
		for _, s := range selfEmbSpecs {
			o := s.options()
			want := mapKeys(jn, s.KeyExact)
			for _, bp := range []bool{false, true} {
				arg := v
				if bp {
					p := reflect.New(reflect.TypeOf(v))
					p.Elem().Set(reflect.ValueOf(v))
					arg = p.Interface()
				}
				rep.AddEval(1, 1)
				rep.Count("outside.self-embedding", 1)
				for i := range encoders {
					e := &encoders[i]
					got := outcome(e, arg, &o)
					gn, err := lib.ParseCanon(got)
					if err == nil && laxEqual(gn, want) {
						continue
					}
					rep.Add(lib.Finding{Kind: "violation", Class: "enc:" + e.name + ":self-embedding",
						Replay: map[string]any{"go_type": reflect.TypeOf(v).String(), "go_value": fmt.Sprintf("%+v", v), "options": s.word(false, false), "by_pointer": bp,
							"encoder": e.name, "implementation": got, "encoding_json": want.String()},
						What: fmt.Sprintf("%s describes %s, encoding/json %s", e.name, got, want.String())})
				}
			}
		}
	}
}

// selfEmbC16: the round trip gives the value back (values without shadowed fields), the tree of the
// recomposed value is the tree of the value (all), and neither depends on a history of the other
// self-embedding types on the same recomposer.
func selfEmbC16() {
	if !selfEmbUsable("C16") {
		return
	}
	hist := []any{pc.EmbB{}, pc.SelfEmb{}, pc.EmbA{}, selfHolder{}}
	run := func(v any, exact bool) {
		rt := reflect.TypeOf(v)
		for _, s := range c16Plans {
			o := s.options()
			for _, route := range c16Routes {
				for _, bp := range []bool{false, true} {
					for _, withHist := range []bool{false, true} {
						rep.AddEval(1, 1)
						rep.Count("outside.self-embedding", 1)
						arg := v
						if bp {
							p := reflect.New(rt)
							p.Elem().Set(reflect.ValueOf(v))
							arg = p.Interface()
						}
						ck := s.CreateKey
						if route == "marshal" {
							ck = ""
						}
						r := alt.MustNewRecomposer(ck, nil)
						if withHist {
							for _, h := range hist {
								_ = r.RegisterComposer(h, nil)
							}
						}
						tgt := reflect.New(rt)
						var err error
						func() {
							defer func() {
								if p := recover(); p != nil {
									err = fmt.Errorf("panic: %v", p)
								}
							}()
							switch route {
							case "marshal":
								var b []byte
								if b, err = oj.Marshal(arg); err == nil {
									err = oj.Unmarshal(b, tgt.Interface(), r)
								}
							case "oj":
								var b []byte
								if b, err = oj.Marshal(arg, &o); err == nil {
									err = oj.Unmarshal(b, tgt.Interface(), r)
								}
							case "sen":
								err = sen.Unmarshal(senBytes(arg, &o), tgt.Interface(), r)
							default:
								_, err = r.Recompose(alt.Decompose(arg, &o), tgt.Interface())
							}
						}()
						got := tgt.Elem().Interface()
						ko := ojg.Options{Sort: true, KeyExact: true}
						same := err == nil && oj.JSON(got, &ko) == oj.JSON(v, &ko)
						if same && exact {
							same = normDeep(got, v)
						}
						if same {
							continue
						}
						rep.Add(lib.Finding{Kind: "violation", Class: "inverse:" + route + ":self-embedding",
							Replay: map[string]any{"go_type": rt.String(), "go_value": fmt.Sprintf("%+v", v), "options": s.word(false, false), "route": route,
								"by_pointer": bp, "history": withHist, "got": fmt.Sprintf("%+v", got), "error": fmt.Sprint(err)},
							What: fmt.Sprintf("%s route: %+v comes back as %+v (error %v)", route, v, got, err)})
					}
				}
			}
		}
	}
	for _, v := range selfEmbExact() {
		run(v, true)
	}
	for _, v := range selfEmbShadowed() {
		run(v, false)
	}
}

// normDeep: deep equality with nil ~ empty for slices and maps.
func normDeep(a, b any) bool {
	var eq func(x, y reflect.Value) bool
	eq = func(x, y reflect.Value) bool {
		if x.Kind() != y.Kind() {
			return false
		}
		switch x.Kind() {
		case reflect.Ptr, reflect.Interface:
			if x.IsNil() || y.IsNil() {
				return x.IsNil() == y.IsNil()
			}
			return eq(x.Elem(), y.Elem())
		case reflect.Slice, reflect.Array:
			if x.Len() != y.Len() {
				return false
			}
			for i := 0; i < x.Len(); i++ {
				if !eq(x.Index(i), y.Index(i)) {
					return false
				}
			}
			return true
		case reflect.Map:
			if x.Len() != y.Len() {
				return false
			}
			for _, k := range x.MapKeys() {
				yv := y.MapIndex(k)
				if !yv.IsValid() || !eq(x.MapIndex(k), yv) {
					return false
				}
			}
			return true
		case reflect.Struct:
			for i := 0; i < x.NumField(); i++ {
				if !eq(x.Field(i), y.Field(i)) {
					return false
				}
			}
			return true
		}
		return x.Interface() == y.Interface()
	}
	return eq(reflect.ValueOf(a), reflect.ValueOf(b))
}
