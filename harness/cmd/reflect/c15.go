package main

// C15: all encoders describe the tree the option documentation prescribes.

import (
	"bytes"
	"encoding/json"
	"fmt"
	"reflect"
	"strings"

	"github.com/ohler55/ojg"
	"github.com/ohler55/ojg/alt"
	"github.com/ohler55/ojg/oj"
	"github.com/ohler55/ojg/pretty"
	"github.com/ohler55/ojg/sen"

	"verif/harness/lib"
)

// optSpec is one option combination of the modelled option space.
type optSpec struct {
	UseTags, KeyExact, NestEmbed, OmitNil, OmitEmpty, FullTypePath bool
	CreateKey                                                     string
	BytesAs                                                       int
}

func (s optSpec) options() ojg.Options {
	return ojg.Options{UseTags: s.UseTags, KeyExact: s.KeyExact, NestEmbed: s.NestEmbed, OmitNil: s.OmitNil,
		OmitEmpty: s.OmitEmpty, FullTypePath: s.FullTypePath, CreateKey: s.CreateKey, BytesAs: s.BytesAs,
		Sort: true, HTMLUnsafe: true}
}

func bit(b bool) byte {
	if b {
		return '1'
	}
	return '0'
}

// String is the option word of the line protocol: seven flags (tags exact nest omitnil omitempty
// fullpath indent-placeholder), BytesAs, create key.
func (s optSpec) word(indent, strict bool) string {
	return string([]byte{bit(s.UseTags), bit(s.KeyExact), bit(s.NestEmbed), bit(s.OmitNil), bit(s.OmitEmpty),
		bit(s.FullTypePath), bit(indent), bit(strict)}) + fmt.Sprintf(" %d %s", s.BytesAs, lib.HexF([]byte(s.CreateKey)))
}

func (s optSpec) goCompatible() bool {
	return s.UseTags && s.KeyExact && !s.NestEmbed && !s.OmitNil && !s.OmitEmpty && s.CreateKey == "" && s.BytesAs == ojg.BytesAsBase64
}

func randOpt(r *lib.Rng) optSpec {
	s := optSpec{UseTags: r.Bool(), KeyExact: r.Bool(), NestEmbed: r.Intn(3) == 0,
		BytesAs: lib.Pick(r, []int{0, ojg.BytesAsString, ojg.BytesAsBase64, ojg.BytesAsArray})}
	switch r.Intn(4) {
	case 0:
		s.CreateKey = "^"
	case 1:
		s.CreateKey = "type"
		s.FullTypePath = true
	}
	return s
}

var goOpt = optSpec{UseTags: true, KeyExact: true, BytesAs: ojg.BytesAsBase64}

// encoder is one way of turning a Go value into a tree.
type encoder struct {
	name   string
	model  string // which model interpreter stands for it: oj, sen, alt
	indent bool
	strict bool
	run    func(v any, o *ojg.Options) (string, error) // returns the written text
	sen    bool
}

func guard(f func() (string, error)) (s string, err error) {
	defer func() {
		if r := recover(); r != nil {
			s, err = "", fmt.Errorf("panic: %v", r)
		}
	}()
	return f()
}

var encoders = []encoder{
	{name: "oj.JSON", model: "oj", run: func(v any, o *ojg.Options) (string, error) { return oj.JSON(v, o), nil }},
	{name: "oj.JSON/indent", model: "oj", indent: true, run: func(v any, o *ojg.Options) (string, error) {
		o2 := *o
		o2.Indent = 2
		return oj.JSON(v, &o2), nil
	}},
	{name: "oj.Marshal", model: "oj", strict: true, run: func(v any, o *ojg.Options) (string, error) {
		b, err := oj.Marshal(v, o)
		return string(b), err
	}},
	{name: "oj.Write", model: "oj", run: func(v any, o *ojg.Options) (string, error) {
		var buf bytes.Buffer
		err := oj.Write(&buf, v, o)
		return buf.String(), err
	}},
	{name: "sen.String", model: "sen", sen: true, run: func(v any, o *ojg.Options) (string, error) { return sen.String(v, o), nil }},
	{name: "sen.String/indent", model: "sen", sen: true, indent: true, run: func(v any, o *ojg.Options) (string, error) {
		o2 := *o
		o2.Indent = 2
		return sen.String(v, &o2), nil
	}},
	{name: "pretty.JSON", model: "alt", run: func(v any, o *ojg.Options) (string, error) { return pretty.JSON(v, o), nil }},
	{name: "alt.Decompose", model: "alt", run: func(v any, o *ojg.Options) (string, error) {
		d := alt.Decompose(v, o)
		return oj.JSON(d, &ojg.Options{Sort: true, HTMLUnsafe: true}), nil
	}},
}

// outcome runs one encoder and returns the canonical tree it describes, or "fail".
func outcome(e *encoder, v any, o *ojg.Options) string {
	text, err := guard(func() (string, error) { return e.run(v, o) })
	if err != nil || text == "" {
		return "fail"
	}
	var tree any
	if e.sen {
		tree, err = (&sen.Parser{}).Parse([]byte(text))
	} else {
		tree, err = (&oj.Parser{}).Parse([]byte(text))
	}
	if err != nil {
		return "unparsable:" + err.Error() + ":" + text
	}
	return canonOf(tree)
}

func jsonOutcome(v any) string {
	b, err := json.Marshal(v)
	if err != nil {
		return "fail"
	}
	tree, err := (&oj.Parser{}).Parse(b)
	if err != nil {
		return "unparsable:" + string(b)
	}
	return canonOf(tree)
}

// goCompatibleType: the features encoding/json and ojg both support in the same way. Excluded: the
// `string` tag option on a string field (encoding/json quotes the string a second time, ojg
// ignores the option there).
func goCompatibleType(d *TDesc) bool {
	switch d.Kind {
	case "slice", "array", "map", "ptr":
		return goCompatibleType(d.Elem)
	case "struct":
		for _, f := range d.Fields {
			if strings.Contains(f.Tag, ",string") && !(f.Type.Kind == "bool" || f.Type.Kind == "int" || f.Type.Kind == "f32" || f.Type.Kind == "f64") {
				return false
			}
			if !goCompatibleType(f.Type) {
				return false
			}
		}
	}
	return true
}

func goCompatibleValue(d *TDesc, v reflect.Value) bool {
	if !goCompatibleType(d) {
		return false
	}
	switch d.Kind {
	case "iface":
		if v.IsNil() {
			return true
		}
		return goCompatibleValue(mustDescribe(v.Elem().Type()), v.Elem())
	case "slice", "array":
		for i := 0; i < v.Len(); i++ {
			if !goCompatibleValue(d.Elem, v.Index(i)) {
				return false
			}
		}
	case "map":
		for _, k := range v.MapKeys() {
			if !goCompatibleValue(d.Elem, v.MapIndex(k)) {
				return false
			}
		}
	case "ptr":
		if !v.IsNil() {
			return goCompatibleValue(d.Elem, v.Elem())
		}
	case "struct":
		for i, f := range d.Fields {
			if !goCompatibleValue(f.Type, v.Field(i)) {
				return false
			}
		}
	}
	return true
}

// c15Case is one (type, value, options) triple.
type c15Case struct {
	d     *TDesc
	v     reflect.Value // addressable
	byPtr bool
	spec  optSpec
}

func (c *c15Case) arg() any {
	if c.byPtr {
		return c.v.Addr().Interface()
	}
	return c.v.Interface()
}

func (c *c15Case) replay() map[string]any {
	return map[string]any{"type": c.d.String(), "value": valueString(c.d, c.v), "by_pointer": c.byPtr,
		"options": c.spec.word(false, false), "go_type": c.d.RT.String(), "go_value": fmt.Sprintf("%+v", c.v.Interface())}
}
