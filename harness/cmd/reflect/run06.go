package main

// C06rec: Unmarshal and Recompose into user types terminate on arbitrary data and report malformed
// input through their error result (the Must* variants through a panic carrying that error); no
// runtime fault escapes.
//
// ARBITRARY data x ARBITRARY target types: trees that fit a generated type, mutated on purpose (a
// string where a struct is expected, an array where a map is expected, nested nulls, numbers out
// of range, json.Number, typed Go values, gen nodes, maps with the create key holding every kind,
// duplicate and unknown members), and unrelated random trees, pushed into generated struct types,
// pointer chains, containers, interfaces, named and recursive types, types with func/chan/complex
// fields, json.Unmarshaler and AttrSetter implementations — through every entry point, each call
// under recover and a 2 s watchdog. The calls run in CHILD processes (this binary with -child): a
// hang or a fatal error (stack overflow) kills the child only; the parent attributes it to the call
// that was running and restarts the child behind it. A case is identified by (seed, worker, index)
// and regenerated from these coordinates in the child, for a replay, and to describe it.

import (
	"bufio"
	"bytes"
	"encoding/json"
	"fmt"
	"io"
	"math"
	"os"
	"os/exec"
	"reflect"
	"regexp"
	"runtime"
	"runtime/debug"
	"sort"
	"strconv"
	"strings"
	"sync"
	"sync/atomic"
	"time"

	"github.com/ohler55/ojg"
	"github.com/ohler55/ojg/alt"
	"github.com/ohler55/ojg/gen"
	"github.com/ohler55/ojg/oj"
	"github.com/ohler55/ojg/sen"

	"verif/harness/cmd/reflect/pa"
	"verif/harness/cmd/reflect/pb"
	"verif/harness/cmd/reflect/pc"
	"verif/harness/lib"
)

const recWatchdog = 10 * time.Second // a real hang never returns; a loaded machine can stall a call for seconds

// ---- the case ----------------------------------------------------------------------------------

type recCase struct {
	w, idx int
	rt     reflect.Type // the target type
	ctxRT  reflect.Type // the type whose struct types the recomposer gets to know (rt unless the entry has no target)
	tmode  int          // how the target is handed over (see target)
	data   any
	text   []byte // the data as JSON text (possibly mangled)
	mangle string // "" or what was done to the text
	ck     string // create key
	rmode  int    // recomposer variant (see recomposer)
	fmode  int    // what a user composer function answers (rmode 2)
	numCnv ojg.NumConvMethod
	kind   string // how the data was made
	// arbitrary composer maps for alt.NewRecomposer
	composers map[any]alt.RecomposeFunc
	anys      map[any]alt.RecomposeAnyFunc
	compDesc  string
}

var recTargetModes = []string{"pointer to a zero value", "pointer to a filled value", "by value", "nil", "typed nil pointer", "pointer to pointer"}
var recRecomposers = []string{"fresh", "types registered", "composer functions", "zero-value Recomposer", "fresh, other NumConvMethod"}
var recFunModes = []string{"zero value", "pointer", "wrong type", "nil", "error"}

func (c *recCase) target() any {
	switch c.tmode {
	case 1:
		p := reflect.New(c.rt)
		if describable(c.rt) {
			func() {
				defer func() { _ = recover() }()
				vg := &valGen{r: lib.NewRng(uint64(c.idx) + 17), c16: true}
				vg.fill(p.Elem(), 3)
			}()
		}
		return p.Interface()
	case 2:
		if c.rt.Kind() == reflect.Map {
			return reflect.MakeMap(c.rt).Interface()
		}
		return reflect.New(c.rt).Elem().Interface()
	case 3:
		return nil
	case 4:
		return reflect.Zero(reflect.PtrTo(c.rt)).Interface()
	case 5:
		return reflect.New(reflect.PtrTo(c.rt)).Interface()
	}
	return reflect.New(c.rt).Interface()
}

// describable: the type is one of the fragment of the C15/C16 generators (describe does not end on a
// recursive type, so those are sorted out first).
func describable(rt reflect.Type) bool {
	if cyclicType(rt, nil) {
		return false
	}
	_, ok := describe(rt)
	return ok
}

func cyclicType(rt reflect.Type, on []reflect.Type) bool {
	for _, p := range on {
		if p == rt {
			return true
		}
	}
	switch rt.Kind() {
	case reflect.Ptr, reflect.Slice, reflect.Array, reflect.Map:
		return cyclicType(rt.Elem(), append(on, rt))
	case reflect.Struct:
		for i := 0; i < rt.NumField(); i++ {
			if cyclicType(rt.Field(i).Type, append(on, rt)) {
				return true
			}
		}
	}
	return false
}

// structsOf collects the struct types reachable from rt (bounded).
func structsOf(rt reflect.Type, seen map[reflect.Type]bool, out *[]reflect.Type) {
	structsUpTo(rt, seen, out, 12)
}

// structsUpTo is structsOf with its bound given (the recomposer itself registers every struct type
// below the target: the predicates need them all).
func structsUpTo(rt reflect.Type, seen map[reflect.Type]bool, out *[]reflect.Type, max int) {
	if rt == nil || seen[rt] || len(*out) > max {
		return
	}
	seen[rt] = true
	switch rt.Kind() {
	case reflect.Ptr, reflect.Slice, reflect.Array, reflect.Map:
		structsUpTo(rt.Elem(), seen, out, max)
	case reflect.Struct:
		*out = append(*out, rt)
		for i := 0; i < rt.NumField(); i++ {
			structsUpTo(rt.Field(i).Type, seen, out, max)
		}
	}
}

func (c *recCase) userFun(st reflect.Type) alt.RecomposeFunc {
	return func(map[string]any) (any, error) {
		switch c.fmode {
		case 0:
			return reflect.New(st).Elem().Interface(), nil
		case 1:
			return reflect.New(st).Interface(), nil
		case 2:
			return "not a " + st.String(), nil
		case 3:
			return nil, nil
		}
		return nil, fmt.Errorf("composer of %s refuses", st)
	}
}

// recomposer makes the recomposer of the case, new for every call.
func (c *recCase) recomposer() *alt.Recomposer {
	if c.rmode == 3 {
		return &alt.Recomposer{CreateKey: c.ck}
	}
	r := alt.MustNewRecomposer(c.ck, nil)
	var sts []reflect.Type
	structsOf(c.rt, map[reflect.Type]bool{}, &sts)
	switch c.rmode {
	case 1:
		for _, st := range sts {
			func() {
				defer func() { _ = recover() }()
				_ = r.RegisterComposer(reflect.New(st).Elem().Interface(), nil)
			}()
		}
	case 2:
		for i, st := range sts {
			func() {
				defer func() { _ = recover() }()
				if i%2 == 0 {
					_ = r.RegisterComposer(reflect.New(st).Elem().Interface(), c.userFun(st))
				} else {
					f := c.userFun(st)
					_ = r.RegisterAnyComposer(reflect.New(st).Elem().Interface(), func(any) (any, error) { return f(nil) })
				}
			}()
		}
	case 4:
		r.NumConvMethod = c.numCnv
	}
	return r
}

var pristineDefault = alt.DefaultRecomposer

// resetDefault gives alt.DefaultRecomposer an empty registry again (with the json.Unmarshaler
// composer package oj registers at start), so that a case does not depend on the cases before it.
func (c *recCase) resetDefault() {
	d := *alt.MustNewRecomposer(c.ck, nil)
	d.NumConvMethod = pristineDefault.NumConvMethod
	d.RegisterUnmarshalerComposer(func(v any) (any, error) { return []byte(oj.JSON(v)), nil })
	alt.DefaultRecomposer = d
}

func (c *recCase) describe() map[string]any {
	d := fmt.Sprintf("%#v", c.data)
	if len(d) > 1500 {
		d = d[:1500] + "…"
	}
	t := string(c.text)
	if len(t) > 1500 {
		t = t[:1500] + "…"
	}
	return map[string]any{"worker": c.w, "index": c.idx, "go_type": c.rt.String(), "target": recTargetModes[c.tmode],
		"recomposer": recRecomposers[c.rmode], "composer_answers": recFunModes[c.fmode], "create_key": c.ck, "data": d, "data_kind": c.kind,
		"text": t, "text_mangled": c.mangle, "composer_maps": c.compDesc}
}

// ---- target types ------------------------------------------------------------------------------

var recNamed = []reflect.Type{
	reflect.TypeOf(pc.Node{}), reflect.TypeOf(pc.Ring{}), reflect.TypeOf(pc.Link{}),
	reflect.TypeOf(pc.Odd{}), reflect.TypeOf(pc.Named{}), reflect.TypeOf(pc.Times{}),
	reflect.TypeOf(pc.Um{}), reflect.TypeOf(pc.HasUm{}), reflect.TypeOf(pc.Setter{}), reflect.TypeOf(pc.HasSetter{}),
	reflect.TypeOf(pc.MyInt(0)), reflect.TypeOf(pc.MyStr("")), reflect.TypeOf(pc.MyList{}), reflect.TypeOf(pc.MyMap{}),
	reflect.TypeOf(time.Time{}), reflect.TypeOf(pa.EmbMid{}), reflect.TypeOf(pa.EmbTag{}), reflect.TypeOf(pa.Widths{}),
	reflect.TypeOf(pa.Outer{}), reflect.TypeOf(pb.Outer{}), reflect.TypeOf(pa.Tagged{}), reflect.TypeOf(pa.Emb{}), reflect.TypeOf(pb.T{}),
}

var recOddLeaves = []reflect.Type{
	reflect.TypeOf((func())(nil)), reflect.TypeOf((chan int)(nil)), reflect.TypeOf(complex128(0)), reflect.TypeOf(uintptr(0)),
	reflect.TypeOf((*error)(nil)).Elem(), reflect.TypeOf((*io.Reader)(nil)).Elem(), reflect.TypeOf((**int)(nil)),
	reflect.TypeOf((*any)(nil)), reflect.TypeOf(map[int]string{}), reflect.TypeOf(map[bool]any{}), reflect.TypeOf(json.Number("")),
	reflect.TypeOf(time.Duration(0)), reflect.TypeOf(pc.MyInt(0)), reflect.TypeOf(pc.MyStr("")), reflect.TypeOf([]pc.Um{}),
	reflect.TypeOf(&pc.Setter{}), reflect.TypeOf(time.Time{}), reflect.TypeOf([]json.Number{}),
}

// recSelfEmb: types that embed a pointer to themselves (directly, or two types each other). Until
// /repo 25154ae each of them killed the child process (C06rec-self-embedding, fixed).
var recSelfEmb = []reflect.Type{reflect.TypeOf(pc.SelfEmb{}), reflect.TypeOf(pc.EmbA{}), reflect.TypeOf(pc.EmbB{})}

// recSelfCont: named container types that contain themselves, and struct types with fields of them.
// Until /repo 041b92d registering one of the struct types never returned
// (C06-recompose-selfcontaining-container, fixed): the unwrap loop of registerComposer followed
// Elem() for ever.
var recSelfContBare = []reflect.Type{
	reflect.TypeOf(pc.Tree{}), reflect.TypeOf(pc.SelfL{}), reflect.TypeOf(pc.ListA{}), reflect.TypeOf(pc.ListB{}),
	reflect.TypeOf(pc.SelfP(nil)), reflect.TypeOf(pc.ArrS{}), reflect.TypeOf(pc.MapL{}),
}
var recSelfContStructs = []reflect.Type{
	reflect.TypeOf(pc.HasTree{}), reflect.TypeOf(pc.HasSelfL{}), reflect.TypeOf(pc.HasAB{}), reflect.TypeOf(pc.HasSelfP{}),
	reflect.TypeOf(pc.HasArrS{}), reflect.TypeOf(pc.HasMapL{}),
}

// selfContT: a target type that meets a self-containing container type: such a type itself (directly
// the Recompose target), a named or generated struct with a field of one — bare, as the element of a
// slice or array, as the value of a map, behind a pointer —, or a container of such a struct.
func selfContT(r *lib.Rng) reflect.Type {
	wrap := func(t reflect.Type) reflect.Type {
		switch r.Intn(6) {
		case 0:
			return reflect.SliceOf(t)
		case 1:
			return reflect.MapOf(stringType, t)
		case 2:
			return reflect.PtrTo(t)
		case 3:
			return reflect.ArrayOf(1+r.Intn(2), reflect.SliceOf(t))
		}
		return t
	}
	switch r.Intn(8) {
	case 0:
		return lib.Pick(r, recSelfContBare)
	case 1:
		return wrap(lib.Pick(r, recSelfContBare))
	case 2, 3:
		return lib.Pick(r, recSelfContStructs)
	case 4:
		return wrap(lib.Pick(r, recSelfContStructs))
	}
	// a struct literal type with such fields
	names := []string{"Kids", "Items", "ByName", "Ref", "Grid"}
	var fs []reflect.StructField
	fs = append(fs, reflect.StructField{Name: "Label", Type: stringType, Tag: `json:"label,omitempty"`})
	for i, n := 0, 1+r.Intn(3); i < n; i++ {
		t := lib.Pick(r, recSelfContBare)
		if r.Intn(3) == 0 {
			t = lib.Pick(r, recSelfContStructs)
		}
		fs = append(fs, reflect.StructField{Name: names[i], Type: wrap(t)})
	}
	return reflect.StructOf(fs)
}

// wildT: a random target type, inside or outside of what the recomposer supports.
func wildT(r *lib.Rng, depth int) reflect.Type {
	n := r.Intn(100)
	if n == 99 {
		return lib.Pick(r, recSelfEmb)
	}
	switch {
	case n < 12:
		return lib.Pick(r, recNamed)
	case n < 18:
		return lib.Pick(r, recOddLeaves)
	case n < 24 && depth > 0:
		return reflect.PtrTo(wildT(r, depth-1))
	case n < 32 && depth > 0:
		return reflect.SliceOf(wildT(r, depth-1))
	case n < 36 && depth > 0:
		return reflect.ArrayOf(r.Intn(4), wildT(r, depth-1))
	case n < 44 && depth > 0:
		return reflect.MapOf(stringType, wildT(r, depth-1))
	case n < 47:
		return anyType
	case n < 60 && depth > 0:
		return wildStruct(r, depth-1)
	}
	g := newTypeGen(r.Fork(5), genOpts{maxFields: 5})
	if depth <= 0 {
		return g.scalar()
	}
	return g.anyT(depth)
}

// wildStruct: a struct of wild fields, with tags, unexported fields and embedded structs/pointers.
func wildStruct(r *lib.Rng, depth int) reflect.Type {
	g := newTypeGen(r.Fork(6), genOpts{maxFields: 5})
	n := r.Intn(6)
	var fs []reflect.StructField
	for i := 0; i < n; i++ {
		switch k := r.Intn(10); {
		case k == 0 && len(g.hidden) > 0:
			fs = append(fs, reflect.StructField{Name: g.hidden[0], PkgPath: "verif/hidden", Type: wildT(r, 0)})
			g.hidden = g.hidden[1:]
		case k == 1 && depth > 0:
			g.embN++
			st := g.structT(depth - 1)
			if r.Bool() {
				st = reflect.PtrTo(st)
			}
			fs = append(fs, reflect.StructField{Name: fmt.Sprintf("Emb%d", g.embN), Type: st, Anonymous: true})
		default:
			name, ok := g.nextName()
			if !ok {
				continue
			}
			fs = append(fs, reflect.StructField{Name: name, Type: wildT(r, depth), Tag: g.tag(name)})
		}
	}
	var st reflect.Type
	func() {
		defer func() {
			if recover() != nil {
				st = reflect.TypeOf(pc.Odd{})
			}
		}()
		st = reflect.StructOf(fs)
	}()
	return st
}

// ---- data ----------------------------------------------------------------------------------

var recTime = time.Date(2024, 2, 29, 12, 0, 0, 5, time.UTC)

// alien: a value of a random kind, whatever the place it is put in expects.
func alien(r *lib.Rng, ck string, depth int) any {
	switch r.Intn(38) {
	case 0, 1:
		return nil
	case 2:
		return r.Bool()
	case 3:
		return int64(r.Intn(2000) - 1000)
	case 4:
		return lib.Pick(r, []int64{math.MinInt64, math.MaxInt64, 1 << 40, -1 << 40, 256, 65536, -129, 1 << 31, -1})
	case 5:
		return lib.Pick(r, []float64{0.5, -2.25, 1e308, -1e308, 5e-324, 1e19, -1e19, 3.5e38, math.NaN(), math.Inf(1), math.Inf(-1)})
	case 6:
		return lib.Pick(r, stringPool)
	case 7:
		return lib.Pick(r, []string{"123", "-7", "true", "false", "1.5", "null", "2024-02-29T12:00:00Z", "1e400", " 12", "0x10", "T"})
	case 8:
		return json.Number(lib.Pick(r, []string{"12", "-3", "1.5", "1e400", "99999999999999999999", "abc", "", "0x1", "1e5", "-0"}))
	case 9:
		return []any{}
	case 10:
		return []any{nil}
	case 11:
		return map[string]any{}
	case 12:
		return map[string]any{ck: alien(r, ck, 0)}
	case 13:
		return map[string]any{ck: lib.Pick(r, []string{"T", "Leaf", "Outer", "Sample", "", "Node", "SelfEmb", "nothing", "json.Unmarshaler"}), "alpha": alien(r, ck, 0), "count": alien(r, ck, 0)}
	case 14:
		return recTime
	case 15:
		return lib.Pick(r, []any{int(3), int8(-8), int16(300), int32(1 << 20), uint(7), uint8(255), uint16(65535), uint32(1 << 31), uint64(math.MaxUint64), float32(1.5)})
	case 16:
		return lib.Pick(r, []any{gen.Int(3), gen.Float(2.5), gen.String("g"), gen.Bool(true), gen.Time(recTime), gen.Big("123456789012345678901234567890")})
	case 17:
		return gen.Object{"a": gen.Int(1), ck: gen.String("T"), "alpha": gen.Array{gen.Int(1), nil}}
	case 18:
		return gen.Array{gen.Int(1), gen.Object{"x": nil}, nil}
	case 19:
		return lib.Pick(r, []any{[]int{1, 2}, []string{"a"}, map[string]int{"a": 1}, map[int]any{1: "x"}, map[any]any{"k": 1}, [2]any{1, "x"},
			[]map[string]any{{"a": int64(1)}}, map[string][]any{"a": {int64(1)}}, []byte("bytes")})
	case 20:
		return lib.Pick(r, []any{struct{ A int }{1}, &struct{ B string }{"b"}, pa.T{Alpha: "x"}, &pa.Leaf{}, errFixed, (*int)(nil), new(int)})
	case 21:
		return lib.Pick(r, []any{func() {}, make(chan int), complex(1, 2), uintptr(9)})
	}
	if depth <= 0 {
		return lib.Pick(r, []any{nil, int64(1), "s", true, 2.5})
	}
	if r.Bool() {
		n := r.Intn(4)
		a := make([]any, n)
		for i := range a {
			a[i] = alien(r, ck, depth-1)
		}
		return a
	}
	m := map[string]any{}
	for i := r.Intn(4); i > 0; i-- {
		m[recKey(r, ck)] = alien(r, ck, depth-1)
	}
	return m
}

var errFixed = fmt.Errorf("an error value as data")

func recKey(r *lib.Rng, ck string) string {
	switch r.Intn(6) {
	case 0:
		return ck
	case 1:
		return lib.Pick(r, keyPool)
	case 2:
		return strings.ToLower(lib.Pick(r, fieldNames))
	case 3:
		return strings.ToUpper(lib.Pick(r, fieldNames))
	}
	return lib.Pick(r, fieldNames)
}

// shapeOf builds a tree of the shape the recomposer expects for rt (depth-bounded), member keys in
// one of the spellings the recomposer looks for.
func shapeOf(r *lib.Rng, rt reflect.Type, ck string, depth int) any {
	if depth <= 0 {
		return nil
	}
	switch rt.Kind() {
	case reflect.Bool:
		return r.Bool()
	case reflect.Int, reflect.Int8, reflect.Int16, reflect.Int32, reflect.Int64:
		return lib.Pick(r, []int64{0, 1, -1, 127, 128, 255, 256, 65536, 1 << 31, 1 << 40, math.MaxInt64, math.MinInt64, int64(r.Intn(1000))})
	case reflect.Uint, reflect.Uint8, reflect.Uint16, reflect.Uint32, reflect.Uint64, reflect.Uintptr:
		return lib.Pick(r, []int64{0, 1, 255, 256, 65535, 65536, 1 << 32, -1, math.MaxInt64, int64(r.Intn(1000))})
	case reflect.Float32, reflect.Float64:
		return lib.Pick(r, []any{0.5, -2.25, 1e39, 1e308, int64(7), 5e-324})
	case reflect.String:
		return lib.Pick(r, stringPool)
	case reflect.Interface:
		return alien(r, ck, 2)
	case reflect.Ptr:
		if r.Intn(5) == 0 {
			return nil
		}
		return shapeOf(r, rt.Elem(), ck, depth-1)
	case reflect.Slice, reflect.Array:
		n := r.Intn(4)
		if rt.Kind() == reflect.Array && r.Bool() {
			n = rt.Len() + r.Intn(3) - 1
			if n < 0 {
				n = 0
			}
		}
		a := make([]any, n)
		for i := range a {
			a[i] = shapeOf(r, rt.Elem(), ck, depth-1)
		}
		return a
	case reflect.Map:
		if r.Intn(6) == 0 {
			return nil
		}
		m := map[string]any{}
		for i := r.Intn(4); i > 0; i-- {
			m[lib.Pick(r, keyPool)] = shapeOf(r, rt.Elem(), ck, depth-1)
		}
		return m
	case reflect.Struct:
		m := map[string]any{}
		if r.Intn(3) == 0 {
			m[ck] = rt.Name()
		}
		var put func(st reflect.Type, d int)
		put = func(st reflect.Type, d int) {
			for i := 0; i < st.NumField() && d > 0; i++ {
				f := st.Field(i)
				if f.PkgPath != "" && !f.Anonymous {
					continue
				}
				et := f.Type
				if et.Kind() == reflect.Ptr {
					et = et.Elem()
				}
				if f.Anonymous && et.Kind() == reflect.Struct {
					if r.Intn(4) != 0 {
						put(et, d-1)
					}
					continue
				}
				if r.Intn(6) == 0 {
					continue
				}
				key := f.Name
				tag, _ := f.Tag.Lookup("json")
				parts := strings.Split(tag, ",")
				switch k := r.Intn(5); {
				case k == 0 && parts[0] != "" && parts[0] != "-":
					key = parts[0]
				case k == 1:
					key = strings.ToLower(f.Name)
				case k == 2:
					key = strings.ToLower(f.Name[:1]) + f.Name[1:]
				case k == 3 && parts[0] != "" && parts[0] != "-":
					key = parts[0]
				}
				v := shapeOf(r, f.Type, ck, depth-1)
				if strings.Contains(tag, ",string") && r.Bool() {
					v = fmt.Sprint(v)
				}
				m[key] = v
			}
		}
		put(rt, 4)
		return m
	}
	return alien(r, ck, 1)
}

// mutate replaces random nodes of a tree by aliens, adds unknown and differently spelled members.
func mutate(r *lib.Rng, v any, ck string, rate int) any {
	if r.Intn(rate) == 0 {
		return alien(r, ck, 2)
	}
	switch tv := v.(type) {
	case []any:
		out := make([]any, 0, len(tv)+1)
		for _, e := range tv {
			out = append(out, mutate(r, e, ck, rate))
		}
		if r.Intn(rate) == 0 {
			out = append(out, alien(r, ck, 1))
		}
		return out
	case map[string]any:
		out := map[string]any{}
		keys := make([]string, 0, len(tv))
		for k := range tv {
			keys = append(keys, k)
		}
		sort.Strings(keys)
		for _, k := range keys {
			e := tv[k]
			out[k] = mutate(r, e, ck, rate)
			switch r.Intn(3 * rate) {
			case 0:
				out[strings.ToUpper(k)] = alien(r, ck, 1) // a second spelling of the same member
			case 1:
				out[strings.ToLower(k)] = alien(r, ck, 1)
			}
		}
		if r.Intn(rate) == 0 {
			out[recKey(r, ck)] = alien(r, ck, 1)
		}
		if r.Intn(2*rate) == 0 {
			out[ck] = alien(r, ck, 1)
		}
		return out
	}
	return v
}

// jsonText renders a tree as JSON text without help of the code under test; what has no JSON form
// is written as a string or null.
func jsonText(sb *bytes.Buffer, v any, depth int) {
	if depth > 200 {
		sb.WriteString("null")
		return
	}
	switch tv := v.(type) {
	case nil:
		sb.WriteString("null")
	case bool:
		sb.WriteString(strconv.FormatBool(tv))
	case string:
		b, _ := json.Marshal(tv)
		sb.Write(b)
	case json.Number:
		if len(tv) == 0 {
			sb.WriteString("0")
		} else {
			sb.WriteString(string(tv)) // possibly not a number: the text is malformed on purpose then
		}
	case float64:
		if math.IsNaN(tv) || math.IsInf(tv, 0) {
			sb.WriteString(lib.Pick(lib.NewRng(uint64(depth)), []string{"null", "1e999", "-1e999"}))
		} else {
			sb.WriteString(strconv.FormatFloat(tv, 'g', -1, 64))
		}
	case []any:
		sb.WriteByte('[')
		for i, e := range tv {
			if i > 0 {
				sb.WriteByte(',')
			}
			jsonText(sb, e, depth+1)
		}
		sb.WriteByte(']')
	case map[string]any:
		keys := make([]string, 0, len(tv))
		for k := range tv {
			keys = append(keys, k)
		}
		sort.Strings(keys)
		sb.WriteByte('{')
		for i, k := range keys {
			if i > 0 {
				sb.WriteByte(',')
			}
			b, _ := json.Marshal(k)
			sb.Write(b)
			sb.WriteByte(':')
			jsonText(sb, tv[k], depth+1)
		}
		sb.WriteByte('}')
	default:
		rv := reflect.ValueOf(v)
		switch rv.Kind() {
		case reflect.Int, reflect.Int8, reflect.Int16, reflect.Int32, reflect.Int64:
			sb.WriteString(strconv.FormatInt(rv.Int(), 10))
		case reflect.Uint, reflect.Uint8, reflect.Uint16, reflect.Uint32, reflect.Uint64, reflect.Uintptr:
			sb.WriteString(strconv.FormatUint(rv.Uint(), 10))
		case reflect.Float32, reflect.Float64:
			sb.WriteString(strconv.FormatFloat(rv.Float(), 'g', -1, 64))
		case reflect.Slice, reflect.Array:
			sb.WriteByte('[')
			for i := 0; i < rv.Len(); i++ {
				if i > 0 {
					sb.WriteByte(',')
				}
				jsonText(sb, rv.Index(i).Interface(), depth+1)
			}
			sb.WriteByte(']')
		case reflect.Map:
			sb.WriteByte('{')
			mk := rv.MapKeys()
			sort.Slice(mk, func(i, j int) bool { return fmt.Sprint(mk[i].Interface()) < fmt.Sprint(mk[j].Interface()) })
			for i, k := range mk {
				if i > 0 {
					sb.WriteByte(',')
				}
				b, _ := json.Marshal(fmt.Sprint(k.Interface()))
				sb.Write(b)
				sb.WriteByte(':')
				jsonText(sb, rv.MapIndex(k).Interface(), depth+1)
			}
			sb.WriteByte('}')
		default:
			b, _ := json.Marshal(fmt.Sprintf("%T", v))
			sb.Write(b)
		}
	}
}

// mangleText damages a JSON text (or leaves it alone).
func mangleText(r *lib.Rng, t []byte) ([]byte, string) {
	switch r.Intn(14) {
	case 0:
		if len(t) > 1 {
			return t[:r.Intn(len(t))], "truncated"
		}
	case 1:
		return append(append([]byte{}, t...), lib.Pick(r, []string{"}", "]", ",", " x", "\x00", "{", "1"})...), "trailing garbage"
	case 2:
		if i := bytes.IndexByte(t, '{'); i >= 0 && i+1 < len(t) && t[i+1] == '"' {
			j := bytes.IndexByte(t[i+2:], '"')
			if j >= 0 {
				key := t[i+1 : i+2+j+1]
				dup := append(append(append([]byte{}, t[:i+1]...), key...), []byte(":"+lib.Pick(r, []string{"null", "1", "\"x\"", "[]", "{}", "true"})+",")...)
				return append(dup, t[i+1:]...), "duplicate first member"
			}
		}
	case 3:
		n := 50 + r.Intn(3000)
		return []byte(strings.Repeat("[", n) + strings.Repeat("]", n-r.Intn(2))), "deep array"
	case 4:
		n := 50 + r.Intn(1000)
		return []byte(strings.Repeat(`{"a":`, n) + "1" + strings.Repeat("}", n)), "deep object"
	case 5:
		if len(t) > 0 {
			b := append([]byte{}, t...)
			b[r.Intn(len(b))] = "\x00\"\\{}[]:,-e.xn\xff"[r.Intn(15)]
			return b, "one byte replaced"
		}
	}
	return t, ""
}

func hashable(v any) (ok bool) {
	defer func() {
		if recover() != nil {
			ok = false
		}
	}()
	_ = map[any]bool{v: true}
	return true
}

// genRecCase regenerates case (w, idx) of a seed.
func genRecCase(seed uint64, w, idx int) *recCase {
	r := lib.NewRng(seed*0x9E3779B97F4A7C15 ^ uint64(w+1)*0xD1342543DE82EF95 ^ uint64(idx+1)*0x2545F4914F6CDD1D)
	c := &recCase{w: w, idx: idx}
	c.ck = lib.Pick(r, []string{"^", "type", "", "^", "Alpha"})
	c.rt = wildT(r, 1+r.Intn(3))
	if r.Intn(6) != 0 && c.rt.Kind() != reflect.Struct && c.rt.Kind() != reflect.Ptr && r.Bool() {
		// most targets are structs or containers of them
		c.rt = wildStruct(r, 2)
	}
	if idx%50 == 11 {
		// the stream of self-containing container types (a fixed share of the cases, so that every run
		// of either tier holds them: 60 per worker in the quick tier)
		c.rt = selfContT(r)
	}
	// How the target is handed over and what a user composer answers are the PROGRAM's, not input:
	// only the documented forms are generated (a pointer; a slice, array or made map by value), and
	// composer functions that answer a value of their type, a pointer to one, or an error. (nil, typed
	// nil and **T targets and functions answering nil or another type were generated until the second
	// review: C06 is about arbitrary DATA; the two known families that explained them are gone.)
	if r.Intn(4) == 0 {
		c.tmode = 1 + r.Intn(2)
		if k := c.rt.Kind(); c.tmode == 2 && k != reflect.Slice && k != reflect.Array && k != reflect.Map {
			c.tmode = 1
		}
	}
	switch n := r.Intn(10); {
	case n < 4:
	case n < 6:
		c.rmode = 1
	case n < 8:
		c.rmode, c.fmode = 2, lib.Pick(r, []int{0, 1, 4})
	case n < 9:
		c.rmode = 3
	default:
		c.rmode, c.numCnv = 4, lib.Pick(r, []ojg.NumConvMethod{ojg.NumConvFloat64, ojg.NumConvString, ojg.NumConvNone})
	}
	switch n := r.Intn(10); {
	case n < 2:
		c.data, c.kind = shapeOf(r, c.rt, c.ck, 6), "shaped"
	case n < 7:
		c.data, c.kind = mutate(r, shapeOf(r, c.rt, c.ck, 6), c.ck, 2+r.Intn(8)), "shaped and mutated"
	case n < 9:
		c.data, c.kind = alien(r, c.ck, 3), "unrelated"
	default:
		// a tree the encoder made from a value of the type, mutated
		c.kind = "decomposed and mutated"
		func() {
			defer func() {
				if recover() != nil {
					c.data = alien(r, c.ck, 3)
				}
			}()
			if describable(c.rt) {
				vg := &valGen{r: r.Fork(9), c16: true}
				o := ojg.Options{CreateKey: c.ck, UseTags: r.Bool(), KeyExact: r.Bool()}
				c.data = mutate(r, alt.Decompose(vg.newValue(c.rt, 3).Interface(), &o), c.ck, 3+r.Intn(6))
			} else {
				c.data = alien(r, c.ck, 3)
			}
		}()
	}
	var sb bytes.Buffer
	jsonText(&sb, c.data, 0)
	c.text, c.mangle = mangleText(r, sb.Bytes())
	// arbitrary composer maps
	c.composers, c.anys = map[any]alt.RecomposeFunc{}, map[any]alt.RecomposeAnyFunc{}
	var desc []string
	for i := r.Intn(4); i > 0; i-- {
		var key any
		switch r.Intn(8) {
		case 0:
			key = nil
		case 1:
			key = lib.Pick(r, []any{1, "T", 2.5, true, []int(nil), map[string]int(nil), (*int)(nil), (*pa.T)(nil), new(int), pc.MyInt(3), errFixed, time.Time{}})
		case 2:
			key = reflect.New(lib.Pick(r, recNamed)).Interface()
		case 3:
			key = reflect.New(lib.Pick(r, recNamed)).Elem().Interface()
		case 4:
			key = reflect.New(wildStruct(r, 1)).Interface()
		default:
			key = reflect.New(c.rt).Interface()
		}
		if !hashable(key) {
			key = &key
		}
		var st reflect.Type
		if key != nil {
			st = reflect.TypeOf(key)
			if st.Kind() == reflect.Ptr {
				st = st.Elem()
			}
		} else {
			st = reflect.TypeOf(0)
		}
		if r.Bool() {
			if r.Intn(3) == 0 {
				c.composers[key] = nil
			} else {
				c.composers[key] = c.userFun(st)
			}
			desc = append(desc, fmt.Sprintf("fun[%T]", key))
		} else {
			if r.Intn(3) == 0 {
				c.anys[key] = nil
			} else {
				f := c.userFun(st)
				c.anys[key] = func(any) (any, error) { return f(nil) }
			}
			desc = append(desc, fmt.Sprintf("any[%T]", key))
		}
	}
	sort.Strings(desc)
	c.compDesc = strings.Join(desc, " ")
	return c
}

// ---- what fits ---------------------------------------------------------------------------------

// unsupported: the recomposer has no way to fill this type from any data (a reflect fault shows
// as soon as data meets it): a map whose key type is not string, an interface with methods, a
// named bool.
func unsupported(rt reflect.Type, seen map[reflect.Type]bool) bool {
	if seen[rt] {
		return false
	}
	seen[rt] = true
	switch rt.Kind() {
	case reflect.Map:
		return rt.Key() != stringType || unsupported(rt.Elem(), seen)
	case reflect.Interface:
		return rt.NumMethod() > 0
	case reflect.Bool:
		return rt != boolType
	case reflect.Ptr, reflect.Slice, reflect.Array:
		return unsupported(rt.Elem(), seen)
	case reflect.Struct:
		for i := 0; i < rt.NumField(); i++ {
			if unsupported(rt.Field(i).Type, seen) {
				return true
			}
		}
	}
	return false
}

func isNumKind(k reflect.Kind) bool {
	switch k {
	case reflect.Int, reflect.Int8, reflect.Int16, reflect.Int32, reflect.Int64, reflect.Uint, reflect.Uint8, reflect.Uint16,
		reflect.Uint32, reflect.Uint64, reflect.Uintptr, reflect.Float32, reflect.Float64:
		return true
	}
	return false
}

func stringKeyed(v any) (reflect.Value, bool) {
	rv := reflect.ValueOf(v)
	return rv, rv.Kind() == reflect.Map && rv.Type().Key() == stringType
}

// fits: the datum has the shape the recomposer can put into rt without a reflect conversion
// failing. viaSet: the slot is filled by setValue (a struct field or an element), where json.Number
// and — for a field tagged ",string" (str) — strings are taken for numbers and bools.
//
// Every slot that does not fit adds the fault text reflect answers there to fitsPred (all of them:
// which one a call meets first is up to Go's map order), so that the predicate can ask for the
// fault the mismatch PREDICTS.
func fits(v any, rt reflect.Type, viaSet, str bool, depth int) bool {
	if depth > 60 {
		return true
	}
	switch rt.Kind() {
	case reflect.Ptr:
		return v == nil || fits(v, rt.Elem(), false, false, depth+1)
	case reflect.Interface:
		return fitsAny(v, depth)
	case reflect.Bool:
		if _, ok := v.(string); ok && viaSet && str {
			return true
		}
		if _, ok := v.(bool); ok {
			return true
		}
		if v == nil {
			return miss(shZeroSet) // rv.Set(reflect.ValueOf(nil))
		}
		return miss(shSet)
	case reflect.String:
		if v == nil {
			return miss(shNilPtr) // reflect.ValueOf(nil).Convert
		}
		vt := reflect.TypeOf(v)
		if reflect.ValueOf(v).CanConvert(rt) && (vt.Kind() == reflect.String || isNumKind(vt.Kind()) && vt.Kind() != reflect.Float32 && vt.Kind() != reflect.Float64 ||
			vt.Kind() == reflect.Slice) {
			return true
		}
		return miss(shConv)
	case reflect.Slice:
		rv := reflect.ValueOf(v)
		if rv.Kind() != reflect.Slice {
			return true // refused with an error of the recomposer's own
		}
		ok := true
		for i := 0; i < rv.Len(); i++ {
			e := rv.Index(i).Interface()
			if rt.Elem().Kind() == reflect.Ptr {
				if e != nil {
					ok = fits(e, rt.Elem().Elem(), false, false, depth+1) && ok
				}
			} else {
				ok = fits(e, rt.Elem(), true, false, depth+1) && ok
			}
		}
		return ok
	case reflect.Array:
		rv := reflect.ValueOf(v)
		if rv.Kind() != reflect.Slice {
			return true
		}
		ok := true
		for i := 0; i < rv.Len() && i < rt.Len(); i++ {
			ok = fits(rv.Index(i).Interface(), rt.Elem(), true, false, depth+1) && ok
		}
		return ok
	case reflect.Map:
		if v == nil {
			return true
		}
		rv := reflect.ValueOf(v)
		if rv.Kind() != reflect.Map {
			return true
		}
		if rv.Type().Key() != stringType {
			return miss(shIconv) // iter.Key().Interface().(string)
		}
		ok := true
		for _, k := range rv.MapKeys() {
			e := rv.MapIndex(k).Interface()
			if e == nil {
				continue
			}
			et := rt.Elem()
			if et.Kind() == reflect.Ptr {
				et = et.Elem()
			}
			ok = fits(e, et, false, false, depth+1) && ok
		}
		return ok
	case reflect.Struct:
		rv, ok := stringKeyed(v)
		if !ok {
			if reflect.ValueOf(v).Kind() != reflect.Map {
				return true
			}
			return miss(shIconv) // another map type: its keys are asserted to be strings
		}
		get := func(k string) (any, bool) {
			e := rv.MapIndex(reflect.ValueOf(k))
			if !e.IsValid() {
				return nil, false
			}
			return e.Interface(), true
		}
		return fitsFields(get, rt, depth)
	}
	if isNumKind(rt.Kind()) {
		if v == nil {
			return miss(shNilPtr) // reflect.ValueOf(nil).Convert
		}
		if _, ok := v.(json.Number); ok {
			return viaSet || miss(shConv)
		}
		if _, ok := v.(string); ok {
			return viaSet && str || miss(shConv)
		}
		return isNumKind(reflect.TypeOf(v).Kind()) || miss(shConv)
	}
	return true // func, chan, complex …: refused with an error of the recomposer's own
}

// the fault texts (see faultShape)
const (
	shConv    = "reflect.Value.Convert: … cannot be converted"
	shSet     = "reflect.Set: … is not assignable"
	shSetMap  = "reflect.Value.SetMapIndex: … is not assignable"
	shZeroT   = "reflect: call of reflect.Value.Type on zero Value"
	shZeroSet = "reflect: call of reflect.Value.Set on zero Value"
	shNewNil  = "reflect: New(nil)"
	shNilMap  = "assignment to entry in nil map"
	shNilPtr  = "runtime error: invalid memory address or nil pointer dereference"
	shIconv   = "interface conversion"
)

// fitsPred: the fault texts the mismatches found by fits predict.
var fitsPred = map[string]bool{}

func miss(shape string) bool {
	fitsPred[shape] = true
	return false
}

// fitsCtx: what an interface slot may turn into — the create key and the struct types the create-key
// name in the data can resolve to (those reachable from the target type, by bare name).
var fitsCtx struct {
	ck    string
	named map[string][]reflect.Type
}

// fitsAny: a datum for an interface slot; a map whose create-key member names a struct type the
// recomposer may know is recomposed into that type.
func fitsAny(v any, depth int) bool {
	if depth > 60 {
		return true
	}
	rv := reflect.ValueOf(v)
	switch rv.Kind() {
	case reflect.Slice, reflect.Array:
		ok := true
		for i := 0; i < rv.Len(); i++ {
			ok = fitsAny(rv.Index(i).Interface(), depth+1) && ok
		}
		return ok
	case reflect.Map:
		if rv.Type().Key() != stringType {
			return true
		}
		if cv := rv.MapIndex(reflect.ValueOf(fitsCtx.ck)); cv.IsValid() && cv.Interface() != nil {
			// recompAny: `tn, _ := cv.(string)` for a map[string]any, `cv.(gen.String)` for a gen.Object;
			// anything else names the type ""
			tn := ""
			if _, isObj := v.(gen.Object); isObj {
				if s, ok := cv.Interface().(gen.String); ok {
					tn = string(s)
				}
			} else if s, ok := cv.Interface().(string); ok {
				tn = s
			}
			ok := true
			for _, st := range fitsCtx.named[tn] {
				ok = fits(v, st, false, false, depth+1) && ok
			}
			if !ok {
				return false
			}
		}
		ok := true
		for _, k := range rv.MapKeys() {
			ok = fitsAny(rv.MapIndex(k).Interface(), depth+1) && ok
		}
		return ok
	}
	return true
}

func fitsFields(get func(string) (any, bool), st reflect.Type, depth int) bool {
	if depth > 60 {
		return true
	}
	all := true
	for i := 0; i < st.NumField(); i++ {
		f := st.Field(i)
		if f.PkgPath != "" {
			continue
		}
		et := f.Type
		if et.Kind() == reflect.Ptr {
			et = et.Elem()
		}
		if f.Anonymous && et.Kind() == reflect.Struct {
			all = fitsFields(get, et, depth+1) && all
			continue
		}
		tag, _ := f.Tag.Lookup("json")
		key := f.Name
		if tag != "" {
			parts := strings.Split(tag, ",")
			switch parts[0] {
			case "":
				key = strings.ToLower(f.Name)
			case "-":
				if len(parts) == 1 {
					continue
				}
				key = "-"
			default:
				key = parts[0]
			}
		}
		low1 := strings.ToLower(f.Name[:1]) + f.Name[1:]
		for _, k := range []string{key, f.Name, low1, strings.ToLower(f.Name)} {
			if m, has := get(k); has {
				if m != nil {
					all = fits(m, f.Type, true, strings.Contains(tag, ",string"), depth+1) && all
				}
				break
			}
		}
	}
	return all
}

func forceFloats(v any) any {
	switch tv := v.(type) {
	case int64:
		return float64(tv)
	case []any:
		for i, e := range tv {
			tv[i] = forceFloats(e)
		}
	case map[string]any:
		for k, e := range tv {
			tv[k] = forceFloats(e)
		}
	}
	return v
}

// ---- running a case --------------------------------------------------------------------------

var faultRe = regexp.MustCompile(`runtime error|reflect[.:]|^reflect|interface conversion|assignment to entry in nil map|nil pointer|index out of range|slice bounds|uncomparable|unhashable|invalid memory`)

// faultShape: the message without the types it names (to count distinct faults).
func faultShape(s string) string {
	for _, cut := range []string{": value of type", ": interface {} is", ": interface conversion"} {
		if i := strings.Index(s, cut); i >= 0 {
			switch {
			case strings.Contains(s, "cannot be converted"):
				return s[:i] + ": … cannot be converted"
			case strings.Contains(s, "not assignable"):
				return s[:i] + ": … is not assignable"
			}
			return s[:i]
		}
	}
	if len(s) > 90 {
		s = s[:90]
	}
	return s
}

type callOut struct {
	err      error
	panicked bool
	pval     any
}

func (o callOut) failed() bool { return o.err != nil || o.panicked }

func (o callOut) text() string {
	if o.panicked {
		return fmt.Sprint(o.pval)
	}
	if o.err != nil {
		return o.err.Error()
	}
	return ""
}

// isFault: the failure is a runtime fault (by the type of a panic value, else by the text).
func (o callOut) isFault() bool {
	if o.panicked {
		switch o.pval.(type) {
		case runtime.Error, *reflect.ValueError:
			return true
		case error:
			return faultRe.MatchString(o.text())
		}
		return true // reflect panics with strings; a proper failure is an error value
	}
	return o.err != nil && faultRe.MatchString(o.err.Error())
}

type recChild struct {
	out      *bufio.Writer
	deadline atomic.Int64
	cur      atomic.Value // string: "idx entry"
	counts   map[string]int64
	shapes   map[string]int64
}

func (ch *recChild) line(s string) {
	ch.out.WriteString(s)
	ch.out.WriteByte('\n')
	ch.out.Flush()
}

func (ch *recChild) call(c *recCase, entry string, f func() error) callOut {
	ch.line(fmt.Sprintf("B %d %s", c.idx, entry))
	ch.cur.Store(fmt.Sprintf("%d %s", c.idx, entry))
	ch.deadline.Store(time.Now().Add(recWatchdog).UnixNano())
	var o callOut
	func() {
		defer func() {
			if p := recover(); p != nil {
				o.panicked, o.pval = true, p
			}
		}()
		o.err = f()
	}()
	ch.deadline.Store(0)
	ch.counts["calls"]++
	ch.counts["entry."+entry]++
	return o
}

func (ch *recChild) finding(c *recCase, kind, class, id, what string) {
	f := lib.Finding{Kind: kind, Class: class, What: what, Replay: c.describe(), KnownID: id}
	b, _ := json.Marshal(f)
	ch.line("F " + string(b))
}

// namesUnmarshaler: somewhere in the data a create-key member names the pseudo type
// "json.Unmarshaler" under which the unmarshaler composer is filed.
func namesUnmarshaler(v any, ck string, depth int) bool {
	if depth > 60 {
		return false
	}
	rv := reflect.ValueOf(v)
	switch rv.Kind() {
	case reflect.Slice, reflect.Array:
		for i := 0; i < rv.Len(); i++ {
			if namesUnmarshaler(rv.Index(i).Interface(), ck, depth+1) {
				return true
			}
		}
	case reflect.Map:
		for _, k := range rv.MapKeys() {
			e := rv.MapIndex(k).Interface()
			if ks, ok := k.Interface().(string); ok && ks == ck {
				if s, ok := e.(string); ok && s == "json.Unmarshaler" {
					return true
				}
				if s, ok := e.(gen.String); ok && s == "json.Unmarshaler" {
					return true
				}
			}
			if namesUnmarshaler(e, ck, depth+1) {
				return true
			}
		}
	}
	return false
}

// namesEmptyType: somewhere in the data a create-key member holds "" or something that is not a
// string — recompAny takes that for the type name "".
func namesEmptyType(v any, ck string, depth int) bool {
	if depth > 60 {
		return false
	}
	rv := reflect.ValueOf(v)
	switch rv.Kind() {
	case reflect.Slice, reflect.Array:
		for i := 0; i < rv.Len(); i++ {
			if namesEmptyType(rv.Index(i).Interface(), ck, depth+1) {
				return true
			}
		}
	case reflect.Map:
		for _, k := range rv.MapKeys() {
			e := rv.MapIndex(k).Interface()
			if ks, ok := k.Interface().(string); ok && ks == ck && e != nil {
				switch s := e.(type) {
				case string:
					if s == "" {
						return true
					}
				case gen.String:
					if s == "" {
						return true
					}
				default:
					return true
				}
			}
			if namesEmptyType(e, ck, depth+1) {
				return true
			}
		}
	}
	return false
}

// sameFullName: two different struct types the composer functions are registered for share
// pkgpath/name (struct literal types are all "/").
func sameFullName(rt reflect.Type) bool {
	var sts []reflect.Type
	structsUpTo(rt, map[reflect.Type]bool{}, &sts, 1000)
	seen := map[string]reflect.Type{}
	for _, st := range sts {
		full := st.PkgPath() + "/" + st.Name()
		if o, has := seen[full]; has && o != st {
			return true
		}
		seen[full] = st
	}
	return false
}

// unsupportedShapes: the fault texts the unsupported parts of a target type predict once data reaches
// them: a map whose key type is not string (SetMapIndex), an interface with methods or a named bool
// (Set; SetMapIndex when it is the element type of a map).
func unsupportedShapes(rt reflect.Type, inMap bool, seen map[reflect.Type]bool, out map[string]bool) {
	if seen[rt] {
		return
	}
	seen[rt] = true
	switch rt.Kind() {
	case reflect.Map:
		if rt.Key() != stringType {
			out[shSetMap] = true
		}
		unsupportedShapes(rt.Elem(), true, seen, out)
	case reflect.Interface:
		if rt.NumMethod() > 0 {
			out[shSet] = true
			if inMap {
				out[shSetMap] = true
			}
		}
	case reflect.Bool:
		if rt != boolType {
			out[shSet] = true
		}
	case reflect.Ptr, reflect.Slice, reflect.Array:
		unsupportedShapes(rt.Elem(), false, seen, out)
	case reflect.Struct:
		for i := 0; i < rt.NumField(); i++ {
			unsupportedShapes(rt.Field(i).Type, false, seen, out)
		}
	}
}

// knownFault names the known family that PREDICTS this fault text for this case, or "": the family's
// condition on the case and the text its defect produces there, both.
func knownFault(c *recCase, tree any, def bool, shape string) string {
	var sts []reflect.Type
	ctx := c.ctxRT
	if ctx == nil {
		ctx = c.rt
	}
	structsUpTo(ctx, map[reflect.Type]bool{}, &sts, 1000)
	fitsCtx.ck, fitsCtx.named = c.ck, map[string][]reflect.Type{}
	for _, st := range sts {
		fitsCtx.named[st.Name()] = append(fitsCtx.named[st.Name()], st)
	}
	switch {
	case c.rmode == 3 && shape == shNilMap:
		return "C06rec-zero-recomposer" // the nil registry is written to
	case def && shape == shNewNil && namesUnmarshaler(tree, c.ck, 0):
		return "C06rec-createkey-unmarshaler-name" // the typeless bridge entry is instantiated
	}
	fitsPred = map[string]bool{}
	if !fits(tree, c.rt, false, false, 0) && fitsPred[shape] {
		return "C06rec-mismatch-fault" // a slot of the datum that does not fit predicts exactly this text
	}
	un := map[string]bool{}
	unsupportedShapes(c.rt, false, map[reflect.Type]bool{}, un)
	unsupportedShapes(ctx, false, map[reflect.Type]bool{}, un)
	if un[shape] {
		return "C06rec-unsupported-type"
	}
	if c.rmode == 2 && sameFullName(ctx) && (shape == shSet || shape == shConv) {
		return "C06rec-any-composer-unguarded" // fixed by /repo fd0bfc5: a violation if it shows again
	}
	return ""
}

// judge classifies the outcome of one call of a non-Must entry.
func (ch *recChild) judge(c *recCase, entry string, o callOut, tree any, def, must bool) {
	switch {
	case o.panicked && !must:
		ch.counts["panic_escaped"]++
		ch.finding(c, "violation", "panic-escaped:"+entry, "", fmt.Sprintf("%s panicked: %.300s", entry, o.text()))
	case o.isFault():
		shape := faultShape(o.text())
		ch.shapes[shape]++
		ch.counts["fault_as_error"]++
		id := knownFault(c, tree, def, shape)
		ch.counts["family "+id+" | "+shape]++
		if id != "" && lib.HasKnown(knownList, id) {
			ch.counts["known."+id]++
			ch.finding(c, "known", "fault-as-error:"+entry+":"+id, id, fmt.Sprintf("%s reports a runtime fault: %.300s", entry, o.text()))
		} else {
			cl := "fault-as-error:" + entry
			if id != "" {
				cl += ":" + id
			}
			ch.finding(c, "violation", cl, "", fmt.Sprintf("%s reports a runtime fault: %.300s", entry, o.text()))
		}
	case o.failed():
		ch.counts["error"]++
	default:
		ch.counts["ok"]++
	}
}

func (ch *recChild) mustPair(c *recCase, entry string, plain, must callOut) {
	if plain.panicked {
		return // reported already
	}
	if c.rmode == 2 && sameFullName(c.rt) {
		// which composer function is found under a shared name depends on the order in which Go walks
		// the field index map (C06rec-any-composer-unguarded): two runs need not agree
		ch.counts["must.undetermined(shared name)"]++
		return
	}
	if sameFullName(c.rt) && namesEmptyType(c.data, c.ck, 0) {
		// a create-key member that is not a string (or is "") names the type "": which struct literal
		// type is filed under "" at that moment depends on Go's map order (C16-createkey-member)
		ch.counts["must.undetermined(create key names \"\")"]++
		return
	}
	if (plain.err != nil) != must.panicked {
		ch.counts["must_mismatch"]++
		ch.finding(c, "violation", "must-mismatch:"+entry, "", fmt.Sprintf("%s: error %q, the Must variant panicked=%v (%v)", entry, plain.text(), must.panicked, must.pval))
		return
	}
	if must.panicked {
		if plain.err.Error() == ojg.NewError(must.pval).Error() {
			ch.counts["must.same_message"]++
		} else {
			ch.counts["must.other_message(map order)"]++
		}
	}
}

func (ch *recChild) runCase(c *recCase) {
	ch.line(fmt.Sprintf("S %d", c.idx))
	ch.counts["cases"]++
	ch.counts["data."+c.kind]++
	ch.counts["target."+recTargetModes[c.tmode]]++
	ch.counts["recomposer."+recRecomposers[c.rmode]]++
	ch.counts["kind."+c.rt.Kind().String()]++
	if c.idx%50 == 11 {
		ch.counts["stream.self_containing_container_types"]++
	}
	if c.mangle != "" {
		ch.counts["text."+c.mangle]++
	}
	// data routes
	o1 := ch.call(c, "alt.Recomposer.Recompose", func() error { _, err := c.recomposer().Recompose(c.data, c.target()); return err })
	ch.judge(c, "alt.Recomposer.Recompose", o1, c.data, false, false)
	o2 := ch.call(c, "alt.Recomposer.MustRecompose", func() error { c.recomposer().MustRecompose(c.data, c.target()); return nil })
	ch.judge(c, "alt.Recomposer.MustRecompose", o2, c.data, false, true)
	ch.mustPair(c, "alt.Recomposer.Recompose", o1, o2)
	o3 := ch.call(c, "alt.Recompose", func() error { c.resetDefault(); _, err := alt.Recompose(c.data, c.target()); return err })
	dc := *c
	dc.rmode = 0
	ch.judge(&dc, "alt.Recompose", o3, c.data, true, false)
	o4 := ch.call(c, "alt.MustRecompose", func() error { c.resetDefault(); alt.MustRecompose(c.data, c.target()); return nil })
	ch.judge(&dc, "alt.MustRecompose", o4, c.data, true, true)
	ch.mustPair(&dc, "alt.Recompose", o3, o4)
	o5 := ch.call(c, "alt.Recomposer.Recompose/no-target", func() error { _, err := c.recomposer().Recompose(c.data); return err })
	nc := *c
	nc.rt, nc.tmode, nc.ctxRT = anyType, 0, c.rt
	ch.judge(&nc, "alt.Recomposer.Recompose/no-target", o5, c.data, false, false)
	// text routes
	var ojTree, senTree any
	var ojErr, senErr error
	func() {
		defer func() {
			if p := recover(); p != nil {
				ojErr = fmt.Errorf("%v", p)
			}
		}()
		ojTree, ojErr = (&oj.Parser{}).Parse(c.text)
		ojTree = forceFloats(ojTree)
	}()
	func() {
		defer func() {
			if p := recover(); p != nil {
				senErr = fmt.Errorf("%v", p)
			}
		}()
		senTree, senErr = (&sen.Parser{}).Parse(c.text)
	}()
	text := func(entry string, tree any, perr error, cc *recCase, f func() error) {
		o := ch.call(c, entry, f)
		ch.judge(cc, entry, o, tree, cc.rmode == 0 && cc != c, false)
		if perr != nil && !o.failed() {
			ch.counts["silent"]++
			ch.finding(c, "violation", "no-error:"+entry, "", fmt.Sprintf("%s returns no error for a text its parser refuses (%v)", entry, perr))
		}
	}
	text("oj.Unmarshal", ojTree, ojErr, &dc, func() error { c.resetDefault(); return oj.Unmarshal(c.text, c.target()) })
	text("oj.Unmarshal+recomposer", ojTree, ojErr, c, func() error { return oj.Unmarshal(c.text, c.target(), c.recomposer()) })
	text("oj.Parser.Unmarshal", ojTree, ojErr, &dc, func() error { c.resetDefault(); return (&oj.Parser{}).Unmarshal(c.text, c.target()) })
	text("sen.Unmarshal", senTree, senErr, &dc, func() error { c.resetDefault(); return sen.Unmarshal(c.text, c.target()) })
	text("sen.Unmarshal+recomposer", senTree, senErr, c, func() error { return sen.Unmarshal(c.text, c.target(), c.recomposer()) })
	// constructors with arbitrary composer maps
	o6 := ch.call(c, "alt.NewRecomposer", func() error { _, err := alt.NewRecomposer(c.ck, c.composers, c.anys); return err })
	o7 := ch.call(c, "alt.MustNewRecomposer", func() error { alt.MustNewRecomposer(c.ck, c.composers, c.anys); return nil })
	kc := *c
	kc.rmode, kc.tmode, kc.rt = 0, 0, anyType
	for _, p := range []struct {
		o    callOut
		e    string
		must bool
	}{{o6, "alt.NewRecomposer", false}, {o7, "alt.MustNewRecomposer", true}} {
		switch {
		case p.o.panicked && !p.must:
			ch.counts["panic_escaped"]++
			ch.finding(c, "violation", "panic-escaped:"+p.e, "", fmt.Sprintf("%s panicked: %.300s", p.e, p.o.text()))
		case p.o.isFault():
			ch.shapes[faultShape(p.o.text())]++
			ch.counts["fault_as_error"]++
			id := ""
			if _, has := c.composers[nil]; has {
				id = "C06rec-composer-map-key"
			}
			if _, has := c.anys[nil]; has {
				id = "C06rec-composer-map-key"
			}
			if id != "" && faultShape(p.o.text()) != shNilPtr {
				id = "" // the defect is the nil reflect.Type being dereferenced, nothing else
			}
			if id != "" && lib.HasKnown(knownList, id) {
				ch.counts["known."+id]++
				ch.finding(c, "known", "fault-as-error:"+p.e+":"+id, id, fmt.Sprintf("%s reports a runtime fault: %.300s", p.e, p.o.text()))
			} else {
				ch.finding(c, "violation", strings.TrimSuffix("fault-as-error:"+p.e+":"+id, ":"), "", fmt.Sprintf("%s reports a runtime fault: %.300s", p.e, p.o.text()))
			}
		case p.o.failed():
			ch.counts["error"]++
		default:
			ch.counts["ok"]++
		}
	}
	ch.mustPair(&kc, "alt.NewRecomposer", o6, o7)
	ch.line(fmt.Sprintf("E %d", c.idx))
}

func (ch *recChild) flushCounts() {
	b, _ := json.Marshal(map[string]any{"counts": ch.counts, "shapes": ch.shapes})
	ch.line("K " + string(b))
	ch.counts, ch.shapes = map[string]int64{}, map[string]int64{}
}

// childC06rec runs the cases [from, to) of worker w and reports on stdout, line by line.
func childC06rec(w, from, to int) {
	debug.SetMaxStack(16 << 20) // a runaway recursion ends in a fatal error soon
	ch := &recChild{out: bufio.NewWriter(os.Stdout), counts: map[string]int64{}, shapes: map[string]int64{}}
	ch.cur.Store("")
	go func() {
		for {
			time.Sleep(50 * time.Millisecond)
			if d := ch.deadline.Load(); d != 0 && time.Now().UnixNano() > d {
				os.Stdout.WriteString("\nH " + ch.cur.Load().(string) + "\n")
				os.Exit(7)
			}
		}
	}()
	for i := from; i < to; i++ {
		ch.runCase(genRecCase(*seed, w, i))
		if (i-from)%25 == 24 {
			ch.flushCounts()
		}
	}
	ch.flushCounts()
	ch.line("D")
}

// ---- the parent ------------------------------------------------------------------------------

type limitedBuf struct {
	mu sync.Mutex
	b  []byte
}

func (l *limitedBuf) Write(p []byte) (int, error) {
	l.mu.Lock()
	if room := 4000 - len(l.b); room > 0 {
		if len(p) < room {
			room = len(p)
		}
		l.b = append(l.b, p[:room]...)
	}
	l.mu.Unlock()
	return len(p), nil
}

func parentWorker(w, from, to int) error {
	exe, err := os.Executable()
	if err != nil {
		return err
	}
	restarts := 0
	for from < to {
		cmd := exec.Command(exe, "-prop", "C06rec", "-child", "-w", strconv.Itoa(w), "-from", strconv.Itoa(from), "-to", strconv.Itoa(to),
			"-seed", strconv.FormatUint(*seed, 10), "-known", *known)
		stderr := &limitedBuf{}
		cmd.Stderr = stderr
		stdout, err := cmd.StdoutPipe()
		if err != nil {
			return err
		}
		if err := cmd.Start(); err != nil {
			return err
		}
		sc := bufio.NewScanner(stdout)
		sc.Buffer(make([]byte, 1<<20), 1<<26)
		lastIdx, lastEntry, done, hung := from, "", false, false
		for sc.Scan() {
			ln := sc.Text()
			if len(ln) < 1 {
				continue
			}
			switch ln[0] {
			case 'S':
				fmt.Sscanf(ln, "S %d", &lastIdx)
				lastEntry = ""
			case 'B':
				var i int
				var e string
				fmt.Sscanf(ln, "B %d %s", &i, &e)
				lastIdx, lastEntry = i, e
				rep.AddEval(1, 1)
			case 'E':
			case 'F':
				var f lib.Finding
				if json.Unmarshal([]byte(ln[2:]), &f) == nil {
					f.Replay["seed"] = *seed
					rep.Add(f)
				}
			case 'K':
				var k struct {
					Counts map[string]int64 `json:"counts"`
					Shapes map[string]int64 `json:"shapes"`
				}
				if json.Unmarshal([]byte(ln[2:]), &k) == nil {
					for key, n := range k.Counts {
						rep.Count(key, n)
					}
					for key, n := range k.Shapes {
						rep.Count("fault: "+key, n)
					}
				}
			case 'H':
				hung = true
			case 'D':
				done = true
			}
		}
		werr := cmd.Wait()
		if done {
			return nil
		}
		// the child died inside case lastIdx
		c := genRecCase(*seed, w, lastIdx)
		rp := c.describe()
		rp["seed"] = *seed
		if lastEntry == "" {
			lastEntry = "?"
		}
		if hung {
			f := lib.Finding{Kind: "violation", Class: "hang:" + lastEntry, Replay: rp,
				What: fmt.Sprintf("%s did not return within %s", lastEntry, recWatchdog)}
			if id := "C06rec-self-embedding"; c.meetsSelfEmbedding(strings.Contains(lastEntry, "NewRecomposer")) && lib.HasKnown(knownList, id) {
				// the runaway recursion had not reached the stack limit yet (a loaded machine)
				f.Kind, f.KnownID, f.Class = "known", id, "fatal:"+lastEntry+":"+id
			}
			rep.Add(f)
		} else {
			stderr.mu.Lock()
			msg := string(stderr.b)
			stderr.mu.Unlock()
			first := msg
			if i := strings.Index(first, "\n\n"); i > 0 {
				first = first[:i]
			}
			if len(first) > 400 {
				first = first[:400]
			}
			f := lib.Finding{Kind: "violation", Class: "fatal:" + lastEntry, Replay: rp,
				What: fmt.Sprintf("%s killed the process (%v): %s", lastEntry, werr, strings.ReplaceAll(first, "\n", " | "))}
			if id := "C06rec-self-embedding"; strings.Contains(msg, "stack") && c.meetsSelfEmbedding(strings.Contains(lastEntry, "NewRecomposer")) && lib.HasKnown(knownList, id) {
				f.Kind, f.KnownID, f.Class = "known", id, f.Class+":"+id
			}
			rep.Add(f)
		}
		rep.Count("child.restarts", 1)
		restarts++
		if restarts > 200 {
			return fmt.Errorf("worker %d: too many child restarts", w)
		}
		from = lastIdx + 1
	}
	return nil
}

// meetsSelfEmbedding: the target type, or a type among the composer map keys, embeds itself.
func (c *recCase) meetsSelfEmbedding(maps bool) bool {
	if !maps {
		return selfEmbeds(c.rt, nil)
	}
	for k := range c.composers {
		if k != nil && selfEmbeds(reflect.TypeOf(k), nil) {
			return true
		}
	}
	for k := range c.anys {
		if k != nil && selfEmbeds(reflect.TypeOf(k), nil) {
			return true
		}
	}
	return false
}

// selfEmbeds: a struct type reachable from rt embeds (a pointer to) a struct type that embeds … itself.
func selfEmbeds(rt reflect.Type, path []reflect.Type) bool {
	if len(path) > 40 {
		return false
	}
	switch rt.Kind() {
	case reflect.Ptr, reflect.Slice, reflect.Array, reflect.Map:
		for _, p := range path {
			if p == rt {
				return false
			}
		}
		return selfEmbeds(rt.Elem(), append(path, rt))
	case reflect.Struct:
		if embCycle(rt, nil) {
			return true
		}
		for _, p := range path {
			if p == rt {
				return false
			}
		}
		for i := 0; i < rt.NumField(); i++ {
			if selfEmbeds(rt.Field(i).Type, append(path, rt)) {
				return true
			}
		}
	}
	return false
}

func embCycle(st reflect.Type, on []reflect.Type) bool {
	for _, p := range on {
		if p == st {
			return true
		}
	}
	for i := 0; i < st.NumField(); i++ {
		f := st.Field(i)
		et := f.Type
		if et.Kind() == reflect.Ptr {
			et = et.Elem()
		}
		if f.Anonymous && et.Kind() == reflect.Struct && embCycle(et, append(on, st)) {
			return true
		}
	}
	return false
}

func runC06rec() error {
	if *child {
		childC06rec(*childW, *childFrom, *childTo)
		return nil
	}
	if *replay != "" {
		return replayC06rec()
	}
	per := 3000
	if *tier == "thorough" {
		per = 20000
	}
	if s := os.Getenv("VERIF_REFLECT_N"); s != "" {
		fmt.Sscanf(s, "%d", &per)
	}
	var wg sync.WaitGroup
	errc := make(chan error, *workers)
	for w := 0; w < *workers; w++ {
		wg.Add(1)
		go func(w int) {
			defer wg.Done()
			if err := parentWorker(w, 0, per); err != nil {
				errc <- err
			}
		}(w)
	}
	wg.Wait()
	select {
	case err := <-errc:
		return err
	default:
	}
	rep.Rule = "every call of alt.Recomposer.Recompose/MustRecompose, alt.Recompose/MustRecompose, oj.Unmarshal, oj.Parser.Unmarshal, sen.Unmarshal (with and without a recomposer) " +
		"and alt.NewRecomposer/MustNewRecomposer on arbitrary data x arbitrary target types returns within 2 s; a non-Must entry never panics; a failure is an error of the library's own, " +
		"not a recovered runtime fault (reflect / runtime error / interface conversion) unless a listed known family explains it; Must panics exactly when the plain variant returns an error; " +
		"a text the parser refuses gives an error"
	rep.Notes = append(rep.Notes, "calls run in child processes (2 s watchdog per call; a fatal error or hang is attributed to the running call and the child restarted behind it)",
		"cases are regenerated from (seed, worker, index); target types: generated structs with tags, unexported fields, embedded structs/pointers, func/chan/complex/interface/map[int] fields, pointer chains, containers, recursive and self-embedding named types, json.Unmarshaler and AttrSetter implementations")
	return nil
}

func replayC06rec() error {
	data, err := os.ReadFile(*replay)
	if err != nil {
		return err
	}
	var rf replayFile
	if err := json.Unmarshal(data, &rf); err != nil {
		return err
	}
	num := func(k string) int {
		f, _ := rf.Replay[k].(float64)
		return int(f)
	}
	if s, ok := rf.Replay["seed"].(float64); ok {
		*seed = uint64(s)
	}
	w, idx := num("worker"), num("index")
	if err := parentWorker(w, idx, idx+1); err != nil {
		return err
	}
	for _, f := range rep.Findings {
		fmt.Printf("%s %s: %s\n", f.Kind, f.Class, f.What)
	}
	return nil
}
