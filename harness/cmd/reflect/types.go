package main

// Go types as DATA: a description (TDesc) is derived by reflection from every generated or declared
// type and travels to the Lean model over the line protocol (space separated tokens, prefix form).

import (
	"fmt"
	"reflect"
	"strconv"
	"strings"

	"verif/harness/lib"
)

// TDesc describes one Go type of the modelled fragment.
type TDesc struct {
	Kind   string // bool int(0-9) f32 f64 string bytes slice array map ptr iface struct
	IntK   int    // index into intKinds
	Elem   *TDesc
	Len    int
	Name   string // struct: bare type name ("" for reflect.StructOf types)
	Pkg    string // struct: package path
	Fields []FDesc
	RT     reflect.Type
}

// FDesc describes one struct field.
type FDesc struct {
	Name     string
	Tag      string // value of the json tag ("" when absent or empty)
	Embedded bool
	Type     *TDesc
}

var intKinds = []reflect.Kind{reflect.Int, reflect.Int8, reflect.Int16, reflect.Int32, reflect.Int64,
	reflect.Uint, reflect.Uint8, reflect.Uint16, reflect.Uint32, reflect.Uint64}

var intTypes = []reflect.Type{reflect.TypeOf(int(0)), reflect.TypeOf(int8(0)), reflect.TypeOf(int16(0)),
	reflect.TypeOf(int32(0)), reflect.TypeOf(int64(0)), reflect.TypeOf(uint(0)), reflect.TypeOf(uint8(0)),
	reflect.TypeOf(uint16(0)), reflect.TypeOf(uint32(0)), reflect.TypeOf(uint64(0))}

var (
	boolType   = reflect.TypeOf(false)
	f32Type    = reflect.TypeOf(float32(0))
	f64Type    = reflect.TypeOf(float64(0))
	stringType = reflect.TypeOf("")
	bytesType  = reflect.TypeOf([]byte(nil))
	anyType    = reflect.TypeOf((*any)(nil)).Elem()
)

// describe derives the description of a type; ok=false when the type is outside the fragment.
func describe(rt reflect.Type) (*TDesc, bool) {
	d := &TDesc{RT: rt}
	switch rt.Kind() {
	case reflect.Bool:
		d.Kind = "bool"
	case reflect.Float32:
		d.Kind = "f32"
	case reflect.Float64:
		d.Kind = "f64"
	case reflect.String:
		d.Kind = "string"
	case reflect.Interface:
		if rt.NumMethod() != 0 {
			return nil, false
		}
		d.Kind = "iface"
	case reflect.Slice:
		if rt.Elem().Kind() == reflect.Uint8 {
			d.Kind = "bytes"
			return d, true
		}
		e, ok := describe(rt.Elem())
		if !ok {
			return nil, false
		}
		d.Kind, d.Elem = "slice", e
	case reflect.Array:
		e, ok := describe(rt.Elem())
		if !ok {
			return nil, false
		}
		d.Kind, d.Elem, d.Len = "array", e, rt.Len()
	case reflect.Map:
		if rt.Key().Kind() != reflect.String {
			return nil, false
		}
		e, ok := describe(rt.Elem())
		if !ok {
			return nil, false
		}
		d.Kind, d.Elem = "map", e
	case reflect.Ptr:
		e, ok := describe(rt.Elem())
		if !ok {
			return nil, false
		}
		d.Kind, d.Elem = "ptr", e
	case reflect.Struct:
		d.Kind, d.Name, d.Pkg = "struct", rt.Name(), rt.PkgPath()
		for i := 0; i < rt.NumField(); i++ {
			f := rt.Field(i)
			ft, ok := describe(f.Type)
			if !ok {
				return nil, false
			}
			tag, _ := f.Tag.Lookup("json")
			d.Fields = append(d.Fields, FDesc{Name: f.Name, Tag: tag, Embedded: f.Anonymous, Type: ft})
		}
	default:
		for i, k := range intKinds {
			if rt.Kind() == k {
				d.Kind, d.IntK = "int", i
				return d, true
			}
		}
		return nil, false
	}
	return d, true
}

func mustDescribe(rt reflect.Type) *TDesc {
	d, ok := describe(rt)
	if !ok {
		panic(fmt.Sprintf("type %s is outside the fragment", rt))
	}
	return d
}

// Tokens writes the type in the prefix token form read by the Lean driver.
func (d *TDesc) Tokens(sb *strings.Builder) {
	switch d.Kind {
	case "bool":
		sb.WriteString("b ")
	case "int":
		fmt.Fprintf(sb, "i%d ", d.IntK)
	case "f32":
		sb.WriteString("f32 ")
	case "f64":
		sb.WriteString("f64 ")
	case "string":
		sb.WriteString("s ")
	case "bytes":
		sb.WriteString("y ")
	case "iface":
		sb.WriteString("I ")
	case "slice":
		sb.WriteString("L ")
		d.Elem.Tokens(sb)
	case "array":
		fmt.Fprintf(sb, "A %d ", d.Len)
		d.Elem.Tokens(sb)
	case "map":
		sb.WriteString("M ")
		d.Elem.Tokens(sb)
	case "ptr":
		sb.WriteString("P ")
		d.Elem.Tokens(sb)
	case "struct":
		fmt.Fprintf(sb, "S %s %s %d ", lib.HexF([]byte(d.Name)), lib.HexF([]byte(d.Pkg)), len(d.Fields))
		for _, f := range d.Fields {
			tag := "~"
			if f.Tag != "" {
				tag = lib.HexF([]byte(f.Tag))
			}
			e := "n"
			if f.Embedded {
				e = "e"
			}
			fmt.Fprintf(sb, "%s %s %s ", lib.HexF([]byte(f.Name)), tag, e)
			f.Type.Tokens(sb)
		}
	}
}

func (d *TDesc) String() string {
	var sb strings.Builder
	d.Tokens(&sb)
	return strings.TrimSpace(sb.String())
}

// valueTokens writes a value of the described type in token form. Map members are sorted by key.
func valueTokens(sb *strings.Builder, d *TDesc, v reflect.Value) { valueTokensX(sb, d, v, nil) }

// valueTokensX is valueTokens with a hook: a non-nil EMBEDDED pointer for whose target asNil answers
// true is written like a nil one (the C16 oracle: a struct that contributes no member).
func valueTokensX(sb *strings.Builder, d *TDesc, v reflect.Value, asNil func(*TDesc, reflect.Value) bool) {
	switch d.Kind {
	case "bool":
		if v.Bool() {
			sb.WriteString("t ")
		} else {
			sb.WriteString("f ")
		}
	case "int":
		if d.IntK >= 5 {
			fmt.Fprintf(sb, "i %d ", v.Uint())
		} else {
			fmt.Fprintf(sb, "i %d ", v.Int())
		}
	case "f32":
		fmt.Fprintf(sb, "d %s ", lib.HexF([]byte(strconv.FormatFloat(v.Float(), 'g', -1, 32))))
	case "f64":
		fmt.Fprintf(sb, "d %s ", lib.HexF([]byte(strconv.FormatFloat(v.Float(), 'g', -1, 64))))
	case "string":
		fmt.Fprintf(sb, "s %s ", lib.HexF([]byte(v.String())))
	case "bytes":
		if v.IsNil() {
			sb.WriteString("Y ")
		} else {
			fmt.Fprintf(sb, "y %s ", lib.HexF(v.Bytes()))
		}
	case "iface":
		if v.IsNil() {
			sb.WriteString("J ")
			return
		}
		e := v.Elem()
		ed := mustDescribe(e.Type())
		sb.WriteString("j ")
		ed.Tokens(sb)
		valueTokensX(sb, ed, e, asNil)
	case "slice":
		if v.IsNil() {
			sb.WriteString("L ")
			return
		}
		fmt.Fprintf(sb, "l %d ", v.Len())
		for i := 0; i < v.Len(); i++ {
			valueTokensX(sb, d.Elem, v.Index(i), asNil)
		}
	case "array":
		fmt.Fprintf(sb, "a %d ", v.Len())
		for i := 0; i < v.Len(); i++ {
			valueTokensX(sb, d.Elem, v.Index(i), asNil)
		}
	case "map":
		if v.IsNil() {
			sb.WriteString("M ")
			return
		}
		keys := sortedKeys(v)
		fmt.Fprintf(sb, "m %d ", len(keys))
		for _, k := range keys {
			fmt.Fprintf(sb, "%s ", lib.HexF([]byte(k)))
			valueTokensX(sb, d.Elem, v.MapIndex(reflect.ValueOf(k)), asNil)
		}
	case "ptr":
		if v.IsNil() {
			sb.WriteString("P ")
			return
		}
		sb.WriteString("p ")
		valueTokensX(sb, d.Elem, v.Elem(), asNil)
	case "struct":
		fmt.Fprintf(sb, "r %d ", len(d.Fields))
		for i, f := range d.Fields {
			fv := v.Field(i)
			if asNil != nil && f.Embedded && f.Type.Kind == "ptr" && !fv.IsNil() && asNil(f.Type.Elem, fv.Elem()) {
				sb.WriteString("P ")
				continue
			}
			valueTokensX(sb, f.Type, fv, asNil)
		}
	}
}

func valueString(d *TDesc, v reflect.Value) string {
	var sb strings.Builder
	valueTokens(&sb, d, v)
	return strings.TrimSpace(sb.String())
}

func sortedKeys(v reflect.Value) []string {
	ks := make([]string, 0, v.Len())
	for _, k := range v.MapKeys() {
		ks = append(ks, k.String())
	}
	sortStrings(ks)
	return ks
}

func sortStrings(ks []string) {
	for i := 1; i < len(ks); i++ {
		for j := i; j > 0 && ks[j] < ks[j-1]; j-- {
			ks[j], ks[j-1] = ks[j-1], ks[j]
		}
	}
}

// exported is the Go rule for the ASCII names of the fragment.
func exported(name string) bool { return name != "" && name[0] >= 'A' && name[0] <= 'Z' }

// ---- tokens back to Go types and values (replays, corpus) ---------------------------------------

// namedType finds the named struct type of the pools; types that share name and package path
// (function-local types) are told apart by their fields.
func namedType(pkg, name string, fs []reflect.StructField) reflect.Type {
	var cands []reflect.Type
	for _, t := range allNamed16 {
		if t.PkgPath() == pkg && t.Name() == name {
			cands = append(cands, t)
		}
	}
	if len(cands) == 1 {
		return cands[0]
	}
	for _, t := range cands {
		if t.NumField() != len(fs) {
			continue
		}
		same := true
		for i := range fs {
			if t.Field(i).Name != fs[i].Name || t.Field(i).Type != fs[i].Type {
				same = false
			}
		}
		if same {
			return t
		}
	}
	return nil
}

// buildType reads one type from the tokens and returns the rest.
func buildType(tk []string) (reflect.Type, []string, error) {
	if len(tk) == 0 {
		return nil, nil, fmt.Errorf("type tokens end early")
	}
	t, r := tk[0], tk[1:]
	one := func(f func(reflect.Type) reflect.Type) (reflect.Type, []string, error) {
		e, r2, err := buildType(r)
		if err != nil {
			return nil, nil, err
		}
		return f(e), r2, nil
	}
	switch t {
	case "b":
		return boolType, r, nil
	case "f32":
		return f32Type, r, nil
	case "f64":
		return f64Type, r, nil
	case "s":
		return stringType, r, nil
	case "y":
		return bytesType, r, nil
	case "I":
		return anyType, r, nil
	case "L":
		return one(reflect.SliceOf)
	case "M":
		return one(func(e reflect.Type) reflect.Type { return reflect.MapOf(stringType, e) })
	case "P":
		return one(reflect.PtrTo)
	case "A":
		if len(r) == 0 {
			return nil, nil, fmt.Errorf("array length missing")
		}
		n, err := strconv.Atoi(r[0])
		if err != nil {
			return nil, nil, err
		}
		r = r[1:]
		return one(func(e reflect.Type) reflect.Type { return reflect.ArrayOf(n, e) })
	case "S":
		if len(r) < 3 {
			return nil, nil, fmt.Errorf("struct header short")
		}
		name, e1 := lib.UnhexF(r[0])
		pkg, e2 := lib.UnhexF(r[1])
		n, e3 := strconv.Atoi(r[2])
		if e1 != nil || e2 != nil || e3 != nil {
			return nil, nil, fmt.Errorf("bad struct header")
		}
		r = r[3:]
		var fs []reflect.StructField
		for i := 0; i < n; i++ {
			if len(r) < 3 {
				return nil, nil, fmt.Errorf("field header short")
			}
			fn, e1 := lib.UnhexF(r[0])
			var tag []byte
			var e2 error
			if r[1] != "~" {
				tag, e2 = lib.UnhexF(r[1])
			}
			if e1 != nil || e2 != nil {
				return nil, nil, fmt.Errorf("bad field header")
			}
			emb := r[2] == "e"
			ft, r2, err := buildType(r[3:])
			if err != nil {
				return nil, nil, err
			}
			r = r2
			sf := reflect.StructField{Name: string(fn), Type: ft, Anonymous: emb}
			if len(tag) > 0 {
				sf.Tag = reflect.StructTag(fmt.Sprintf("json:%q", string(tag)))
			}
			if !exported(sf.Name) {
				sf.PkgPath = "verif/hidden"
			}
			fs = append(fs, sf)
		}
		if len(name) > 0 {
			nt := namedType(string(pkg), string(name), fs)
			if nt == nil {
				return nil, nil, fmt.Errorf("unknown named type %s/%s", pkg, name)
			}
			return nt, r, nil
		}
		return reflect.StructOf(fs), r, nil
	}
	if len(t) == 2 && t[0] == 'i' && t[1] >= '0' && t[1] <= '9' {
		return intTypes[t[1]-'0'], r, nil
	}
	return nil, nil, fmt.Errorf("bad type token %q", t)
}

// buildValue fills the settable value from the tokens and returns the rest.
func buildValue(v reflect.Value, tk []string) ([]string, error) {
	if len(tk) == 0 {
		return nil, fmt.Errorf("value tokens end early")
	}
	t, r := tk[0], tk[1:]
	arg := func() (string, error) {
		if len(r) == 0 {
			return "", fmt.Errorf("argument of %q missing", t)
		}
		a := r[0]
		r = r[1:]
		return a, nil
	}
	settable := v.CanSet()
	switch t {
	case "t", "f":
		if settable {
			v.SetBool(t == "t")
		}
		return r, nil
	case "Y", "L", "M", "P", "J":
		return r, nil // zero value
	case "i":
		a, err := arg()
		if err != nil {
			return nil, err
		}
		if settable {
			if v.Kind() >= reflect.Uint && v.Kind() <= reflect.Uint64 {
				u, err := strconv.ParseUint(a, 10, 64)
				if err != nil {
					return nil, err
				}
				v.SetUint(u)
			} else {
				i, err := strconv.ParseInt(a, 10, 64)
				if err != nil {
					return nil, err
				}
				v.SetInt(i)
			}
		}
		return r, nil
	case "d", "s", "y":
		a, err := arg()
		if err != nil {
			return nil, err
		}
		b, err := lib.UnhexF(a)
		if err != nil {
			return nil, err
		}
		if settable {
			switch t {
			case "d":
				f, err := strconv.ParseFloat(string(b), 64)
				if err != nil {
					return nil, err
				}
				v.SetFloat(f)
			case "s":
				v.SetString(string(b))
			default:
				v.SetBytes(b)
			}
		}
		return r, nil
	case "p":
		p := reflect.New(v.Type().Elem())
		r2, err := buildValue(p.Elem(), r)
		if err != nil {
			return nil, err
		}
		v.Set(p)
		return r2, nil
	case "j":
		dt, r2, err := buildType(r)
		if err != nil {
			return nil, err
		}
		x := reflect.New(dt).Elem()
		r3, err := buildValue(x, r2)
		if err != nil {
			return nil, err
		}
		v.Set(x)
		return r3, nil
	case "l", "a", "r", "m":
		a, err := arg()
		if err != nil {
			return nil, err
		}
		n, err := strconv.Atoi(a)
		if err != nil {
			return nil, err
		}
		switch t {
		case "l":
			s := reflect.MakeSlice(v.Type(), n, n)
			for i := 0; i < n; i++ {
				if r, err = buildValue(s.Index(i), r); err != nil {
					return nil, err
				}
			}
			v.Set(s)
		case "a":
			for i := 0; i < n; i++ {
				if r, err = buildValue(v.Index(i), r); err != nil {
					return nil, err
				}
			}
		case "r":
			for i := 0; i < n; i++ {
				if r, err = buildValue(v.Field(i), r); err != nil {
					return nil, err
				}
			}
		case "m":
			m := reflect.MakeMap(v.Type())
			for i := 0; i < n; i++ {
				k, err := arg()
				if err != nil {
					return nil, err
				}
				kb, err := lib.UnhexF(k)
				if err != nil {
					return nil, err
				}
				e := reflect.New(v.Type().Elem()).Elem()
				if r, err = buildValue(e, r); err != nil {
					return nil, err
				}
				m.SetMapIndex(reflect.ValueOf(string(kb)), e)
			}
			v.Set(m)
		}
		return r, nil
	}
	return nil, fmt.Errorf("bad value token %q", t)
}
