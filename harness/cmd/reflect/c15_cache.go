package main

// C15, cache-order stream: the tree an encoder describes is a function of (type, value, options)
// alone — whatever was encoded before in the same process.
//
// oj, sen and alt keep process-wide plan caches (structMap / structEmptyMap keyed by the type
// pointer; the oj/sen plans also hold the plan of a nested struct type in fi.elem, looked up by
// getTypeStruct while the outer plan is built). A slip in the cache selection shows only for a
// particular ORDER of first uses: the inner type encoded without OmitEmpty before the outer type
// is first encoded with OmitEmpty, and so on. The other streams of this harness use every type
// under one option set after the other, in one fixed order, and compare under OmitEmpty only up to
// the known finding C15-omit-options, so they cannot see it.
//
// Here every case is a FAMILY of struct types no cache has seen yet (reflect.StructOf types made
// unique by a `verif:"<n>"` key in the struct tag of their first field: the tag is part of the type
// identity, the encoders only read the `json` key), a HISTORY of encode calls on the types of the
// family (inner, middle, outer; every encoder; OmitEmpty / OmitNil on and off), and after every
// call the comparison with the SAME call made as the very first call on a fresh copy of the family
// (same structure, same value, another unique number). Any difference is a violation: one of the
// two trees is not the tree the options prescribe for this value.

import (
	"fmt"
	"reflect"
	"strings"
	"sync/atomic"

	"verif/harness/lib"
)

// cacheFam describes the structure of a family; everything is data so that a replay rebuilds it.
type cacheFam struct {
	Hold int  `json:"hold"` // how Mid holds In: see holdNames
	Tags int  `json:"tags"` // 0 no tags, 1 names, 2 omitempty on fields of In, 3 omitempty on the holding field too
	Deep bool `json:"deep"` // Out{M Mid; MP *Mid; ML []Mid; N int}
	Val  int  `json:"val"`  // value pattern bits
}

var holdNames = []string{"In", "*In", "[]In", "[]*In", "map[string]In", "map[string]*In", "[2]In", "any(In)"}

type cacheStep struct {
	Target int    `json:"target"` // 0 In, 1 Mid, 2 Out
	Enc    string `json:"enc"`
	Opts   string `json:"options"`
	ByPtr  bool   `json:"by_pointer"`
	spec   optSpec
}

var cacheUniq atomic.Int64

type famTypes struct {
	in, mid, out reflect.Type
}

func (f cacheFam) build() famTypes {
	u := cacheUniq.Add(1)
	uniq := func(tag string) reflect.StructTag {
		t := fmt.Sprintf(`verif:"%d"`, u)
		if tag != "" {
			t = tag + " " + t
		}
		return reflect.StructTag(t)
	}
	jt := func(name string, omit bool) string {
		switch {
		case f.Tags == 0:
			return ""
		case f.Tags >= 2 && omit:
			return fmt.Sprintf(`json:"%s,omitempty"`, name)
		default:
			return fmt.Sprintf(`json:"%s"`, name)
		}
	}
	in := reflect.StructOf([]reflect.StructField{
		{Name: "A", Type: intTypes[0], Tag: uniq(jt("a", true))},
		{Name: "Str", Type: stringType, Tag: reflect.StructTag(jt("str", false))},
		{Name: "Ptr", Type: reflect.PtrTo(intTypes[0]), Tag: reflect.StructTag(jt("ptr", true))},
		{Name: "Flag", Type: reflect.TypeOf(false), Tag: reflect.StructTag(jt("flag", false))},
	})
	var ht reflect.Type
	switch f.Hold {
	case 0:
		ht = in
	case 1:
		ht = reflect.PtrTo(in)
	case 2:
		ht = reflect.SliceOf(in)
	case 3:
		ht = reflect.SliceOf(reflect.PtrTo(in))
	case 4:
		ht = reflect.MapOf(stringType, in)
	case 5:
		ht = reflect.MapOf(stringType, reflect.PtrTo(in))
	case 6:
		ht = reflect.ArrayOf(2, in)
	default:
		ht = anyType
	}
	htag := ""
	if f.Tags == 3 {
		htag = `json:"h,omitempty"`
	} else if f.Tags != 0 {
		htag = `json:"h"`
	}
	mid := reflect.StructOf([]reflect.StructField{
		{Name: "H", Type: ht, Tag: uniq(htag)},
		{Name: "X", Type: intTypes[0]},
		{Name: "Name", Type: stringType},
	})
	ft := famTypes{in: in, mid: mid}
	if f.Deep {
		ft.out = reflect.StructOf([]reflect.StructField{
			{Name: "M", Type: mid, Tag: uniq("")},
			{Name: "MP", Type: reflect.PtrTo(mid)},
			{Name: "ML", Type: reflect.SliceOf(mid)},
			{Name: "N", Type: intTypes[0]},
		})
	}
	return ft
}

// values: deterministic functions of the family description, so that two copies of a family hold
// the same value
func (f cacheFam) inValue(t famTypes, zero bool) reflect.Value {
	v := reflect.New(t.in).Elem()
	if zero {
		return v
	}
	if f.Val&1 != 0 {
		v.Field(0).SetInt(7)
	}
	if f.Val&2 != 0 {
		v.Field(1).SetString("s")
	}
	if f.Val&4 != 0 {
		x := 0
		v.Field(2).Set(reflect.ValueOf(&x))
	}
	if f.Val&8 != 0 {
		v.Field(3).SetBool(true)
	}
	return v
}

func (f cacheFam) midValue(t famTypes, variant int) reflect.Value {
	v := reflect.New(t.mid).Elem()
	h := v.Field(0)
	a, z := f.inValue(t, false), f.inValue(t, true)
	if variant != 0 {
		a, z = z, a
	}
	ptr := func(x reflect.Value) reflect.Value {
		p := reflect.New(t.in)
		p.Elem().Set(x)
		return p
	}
	if f.Val&16 == 0 || f.Hold == 0 || f.Hold == 6 { // Val&16: the holder stays nil / empty
		switch f.Hold {
		case 0:
			h.Set(a)
		case 1:
			h.Set(ptr(a))
		case 2:
			h.Set(reflect.Append(reflect.MakeSlice(h.Type(), 0, 2), a, z))
		case 3:
			h.Set(reflect.Append(reflect.MakeSlice(h.Type(), 0, 3), ptr(a), ptr(z), reflect.Zero(reflect.PtrTo(t.in))))
		case 4:
			m := reflect.MakeMap(h.Type())
			m.SetMapIndex(reflect.ValueOf("k"), a)
			m.SetMapIndex(reflect.ValueOf("z"), z)
			h.Set(m)
		case 5:
			m := reflect.MakeMap(h.Type())
			m.SetMapIndex(reflect.ValueOf("k"), ptr(a))
			m.SetMapIndex(reflect.ValueOf("z"), ptr(z))
			h.Set(m)
		case 6:
			h.Index(0).Set(a)
			h.Index(1).Set(z)
		default:
			h.Set(a)
		}
	}
	if f.Val&32 != 0 {
		v.Field(1).SetInt(3)
	}
	if f.Val&64 != 0 {
		v.Field(2).SetString("n")
	}
	return v
}

func (f cacheFam) outValue(t famTypes) reflect.Value {
	v := reflect.New(t.out).Elem()
	v.Field(0).Set(f.midValue(t, 0))
	if f.Val&128 == 0 {
		p := reflect.New(t.mid)
		p.Elem().Set(f.midValue(t, 1))
		v.Field(1).Set(p)
		v.Field(2).Set(reflect.Append(reflect.MakeSlice(v.Field(2).Type(), 0, 2), f.midValue(t, 1), f.midValue(t, 0)))
	}
	if f.Val&256 != 0 {
		v.Field(3).SetInt(5)
	}
	return v
}

func (f cacheFam) arg(t famTypes, st *cacheStep) any {
	var v reflect.Value
	switch {
	case st.Target == 0:
		v = f.inValue(t, false)
	case st.Target == 1 || !f.Deep:
		v = f.midValue(t, 0)
	default:
		v = f.outValue(t)
	}
	p := reflect.New(v.Type())
	p.Elem().Set(v)
	if st.ByPtr {
		return p.Interface()
	}
	return p.Elem().Interface()
}

func encoderByName(name string) *encoder {
	for i := range encoders {
		if encoders[i].name == name {
			return &encoders[i]
		}
	}
	return nil
}

func parseSpecWord(opts string) (optSpec, error) {
	w := strings.Fields(opts)
	if len(w) != 3 || len(w[0]) != 8 {
		return optSpec{}, fmt.Errorf("bad options word %q", opts)
	}
	s := optSpec{UseTags: w[0][0] == '1', KeyExact: w[0][1] == '1', NestEmbed: w[0][2] == '1', OmitNil: w[0][3] == '1',
		OmitEmpty: w[0][4] == '1', FullTypePath: w[0][5] == '1'}
	fmt.Sscanf(w[1], "%d", &s.BytesAs)
	ck, _ := lib.UnhexF(w[2])
	s.CreateKey = string(ck)
	return s, nil
}

// runCacheFam plays the history on one copy of the family and compares every call with the same
// call on a fresh copy. It returns the number of comparisons made.
func runCacheFam(f cacheFam, steps []cacheStep) int {
	a := f.build()
	n := 0
	for i := range steps {
		st := &steps[i]
		e := encoderByName(st.Enc)
		if e == nil {
			continue
		}
		o := st.spec.options()
		got := outcome(e, f.arg(a, st), &o)
		fresh := f.build()
		want := outcome(e, f.arg(fresh, st), &o)
		n++
		if got == want {
			continue
		}
		// shrink the history: drop every earlier call without which the last one still differs
		keep := append([]cacheStep{}, steps[:i+1]...)
		for j := len(keep) - 2; j >= 0; j-- {
			try := append(append([]cacheStep{}, keep[:j]...), keep[j+1:]...)
			if g, w, bad := lastDiffers(f, try); bad {
				keep, got, want = try, g, w
			}
		}
		steps, i = keep, len(keep)-1
		st = &steps[i]
		hist := make([]string, 0, i)
		for j := 0; j < i; j++ {
			hist = append(hist, fmt.Sprintf("%s(%s, OmitNil=%v OmitEmpty=%v)", steps[j].Enc, []string{"In", "Mid", "Out"}[steps[j].Target], steps[j].spec.OmitNil, steps[j].spec.OmitEmpty))
		}
		rep.Add(lib.Finding{Kind: "violation", Class: "cache:history:" + e.name,
			What: fmt.Sprintf("%s(%s, OmitNil=%v OmitEmpty=%v) describes %s after the calls [%s] in this process, and %s as the first call on an identical type family (Mid holds %s): the tree depends on the order in which the plan caches were filled",
				e.name, []string{"In", "Mid", "Out"}[st.Target], st.spec.OmitNil, st.spec.OmitEmpty, got, strings.Join(hist, "; "), want, holdNames[f.Hold]),
			Replay: map[string]any{"cache_family": f, "steps": steps[:i+1], "after_history": got, "as_first_call": want,
				"go_value": fmt.Sprintf("%+v", f.arg(fresh, st))}})
		return n
	}
	return n
}

// lastDiffers plays the calls on a fresh family and compares the last one with a first call.
func lastDiffers(f cacheFam, steps []cacheStep) (string, string, bool) {
	a := f.build()
	got := ""
	for i := range steps {
		e := encoderByName(steps[i].Enc)
		o := steps[i].spec.options()
		got = outcome(e, f.arg(a, &steps[i]), &o)
	}
	st := &steps[len(steps)-1]
	o := st.spec.options()
	want := outcome(encoderByName(st.Enc), f.arg(f.build(), st), &o)
	return got, want, got != want
}

var cacheEncNames = []string{"oj.JSON", "sen.String", "pretty.JSON", "alt.Decompose"}

func mkStep(target int, enc string, s optSpec, byPtr bool) cacheStep {
	return cacheStep{Target: target, Enc: enc, Opts: s.word(false, false), ByPtr: byPtr, spec: s}
}

// cacheBoxC15: every ordered pair of calls over {In, Mid} x {OmitEmpty off, on} x four encoders, for
// every way Mid can hold In (shard w of n).
func cacheBoxC15(w, n int) {
	idx := 0
	type call struct {
		target int
		oe     bool
		enc    string
	}
	var calls []call
	for t := 0; t < 2; t++ {
		for _, oe := range []bool{false, true} {
			for _, e := range cacheEncNames {
				calls = append(calls, call{t, oe, e})
			}
		}
	}
	for hold := range holdNames {
		for _, c1 := range calls {
			for _, c2 := range calls {
				idx++
				if idx%n != w {
					continue
				}
				// tag mode and value pattern vary with the index so that all are met
				f := cacheFam{Hold: hold, Tags: idx % 4, Val: []int{0, 2, 5, 10, 15, 16 + 32, 64 + 3}[idx%7]}
				base := optSpec{UseTags: f.Tags != 0 && idx%3 != 0, KeyExact: idx%5 < 2}
				s1, s2 := base, base
				s1.OmitEmpty, s2.OmitEmpty = c1.oe, c2.oe
				steps := []cacheStep{mkStep(c1.target, c1.enc, s1, idx%2 == 0), mkStep(c2.target, c2.enc, s2, idx%4 < 2)}
				k := runCacheFam(f, steps)
				rep.AddEval(1, 1)
				rep.Count("stream.cache_box", 1)
				rep.Count("cache.comparisons", int64(k))
			}
		}
	}
}

// cacheRandomC15: longer random histories over three levels of nesting, all encoders and both omit
// options, ending with a probe of every encoder under OmitEmpty off and on.
func cacheRandomC15(r *lib.Rng, n int) {
	for i := 0; i < n; i++ {
		f := cacheFam{Hold: r.Intn(len(holdNames)), Tags: r.Intn(4), Deep: r.Intn(3) != 0, Val: r.Intn(512)}
		levels := 2
		if f.Deep {
			levels = 3
		}
		var steps []cacheStep
		for j, m := 0, 1+r.Intn(4); j < m; j++ {
			s := randOpt(r)
			s.OmitEmpty, s.OmitNil = r.Bool(), r.Intn(4) == 0
			steps = append(steps, mkStep(r.Intn(levels), encoders[r.Intn(len(encoders))].name, s, r.Bool()))
		}
		base := randOpt(r)
		first := r.Bool()
		for _, oe := range []bool{first, !first} {
			for _, e := range []string{"oj.JSON", "oj.JSON/indent", "sen.String", "sen.String/indent", "pretty.JSON", "alt.Decompose"} {
				s := base
				s.OmitEmpty = oe
				steps = append(steps, mkStep(levels-1, e, s, r.Bool()))
			}
		}
		k := runCacheFam(f, steps)
		rep.AddEval(1, 1)
		rep.Count("stream.cache_random", 1)
		rep.Count("cache.comparisons", int64(k))
	}
}

// replayCache re-runs a cache-order case from its replay.
func replayCache(m map[string]any) error {
	var f cacheFam
	fm, _ := m["cache_family"].(map[string]any)
	num := func(x any) int { v, _ := x.(float64); return int(v) }
	f.Hold, f.Tags, f.Val = num(fm["hold"]), num(fm["tags"]), num(fm["val"])
	f.Deep, _ = fm["deep"].(bool)
	if f.Hold < 0 || f.Hold >= len(holdNames) {
		return fmt.Errorf("bad cache family")
	}
	raw, _ := m["steps"].([]any)
	var steps []cacheStep
	for _, x := range raw {
		sm, _ := x.(map[string]any)
		st := cacheStep{Target: num(sm["target"])}
		st.Enc, _ = sm["enc"].(string)
		st.Opts, _ = sm["options"].(string)
		st.ByPtr, _ = sm["by_pointer"].(bool)
		sp, err := parseSpecWord(st.Opts)
		if err != nil {
			return err
		}
		st.spec = sp
		if st.Target == 2 && !f.Deep {
			st.Target = 1
		}
		steps = append(steps, st)
	}
	runCacheFam(f, steps)
	return nil
}
