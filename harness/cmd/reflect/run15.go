package main

import (
	"encoding/json"
	"fmt"
	"hash/fnv"
	"math"
	"math/big"
	"os"
	"reflect"
	"strings"
	"sync"

	"github.com/ohler55/ojg"

	"verif/harness/cmd/reflect/pa"
	"verif/harness/lib"
)

// devKnown maps the deviation letters of the Lean model (Dev flags) to known finding ids.
var devKnown = map[byte]string{
	'l': "C15-omitempty-leak",
	'x': "C15-usetags-keyexact",
	'y': "C15-bytes-as-slice",
	'e': "C15-nil-embedded-pointer",
	'n': "C15-tight-nil-pointer",
	'm': "C15-alt-map-nil",
	'o': "C15-omitempty-nested",
}

// which deviation flags can affect which model interpreter
var devOf = map[string]string{"oj": "lxyeno", "sen": "lxyeo", "alt": "xem"}

// genC15 produces the case stream of one shard.
func genC15(r *lib.Rng, n int, emit func(*c15Case)) {
	for i := 0; i < n; i++ {
		var rt reflect.Type
		depth := 1 + r.Intn(3)
		switch k := r.Intn(20); {
		case k < 3:
			rt = lib.Pick(r, namedTypes)
		case k < 5:
			g := newTypeGen(r.Fork(i), genOpts{})
			rt = g.anyT(depth) // a non-struct top-level value
		default:
			g := newTypeGen(r.Fork(i), genOpts{})
			rt = g.structT(depth)
		}
		d, ok := describe(rt)
		if !ok {
			continue
		}
		for j := 0; j < 2; j++ {
			vg := &valGen{r: r.Fork(1000 + j)}
			v := vg.newValue(rt, depth+1)
			for _, s := range []optSpec{goOpt, randOpt(r), randOpt(r)} {
				emit(&c15Case{d: d, v: v, spec: s,
					byPtr: r.Bool() && d.Kind != "bytes" && d.Kind != "ptr" && d.Kind != "iface"})
			}
		}
	}
}

// boundary families named by the property: tiny structs for the leak, nil pointers at every level
func boundaryC15(emit func(*c15Case)) {
	type T1 struct {
		A int
		B int `json:"b,omitempty"`
		C int
	}
	type In struct{ X int }
	type PS struct {
		L []*In
		M map[string]*In
		A [2]*In
		P *In
		I any
	}
	type EI struct{ Q int }
	type EP struct {
		*EI
		Z int
	}
	type Low struct {
		ID, URL, Abc, XValue, HTTPCode int
	}
	type By struct {
		B  []byte
		LB [][]byte
		MB map[string][]byte
		I  any
	}
	type MN struct {
		M map[string][]int
		N map[string]map[string]int
	}
	type NO struct { // a field tagged omitempty whose type carries a struct plan (C15-omitempty-nested)
		A In            `json:"a,omitempty"`
		P *In           `json:"p,omitempty"`
		L []In          `json:"l,omitempty"`
		Q []*In         `json:"q,omitempty"`
		M map[string]In `json:"m,omitempty"`
		Z In
	}
	vals := []any{T1{}, T1{A: 1, B: 2, C: 3}, PS{L: []*In{nil, {X: 1}}, M: map[string]*In{"a": nil, "b": {X: 2}}},
		PS{}, []*In{nil}, map[string]*In{"k": nil}, [1]*In{nil}, (*In)(nil), EP{Z: 1}, EP{EI: &EI{Q: 2}, Z: 1},
		Low{1, 2, 3, 4, 5}, By{B: []byte("ab"), LB: [][]byte{[]byte("cd"), nil}, MB: map[string][]byte{"k": []byte("ef")}, I: []byte("gh")},
		MN{M: map[string][]int{"nil": nil, "one": {1}}, N: map[string]map[string]int{"nil": nil}},
		[]any(nil), struct{ I any }{I: []any(nil)}, []any{}, map[string]any(nil),
		NO{P: &In{}, L: []In{{}}, Q: []*In{{}}, M: map[string]In{"k": {}}}, NO{},
		// embedded structs and pointers that carry json tags (C15-embedded-tag-ignored)
		pa.EmbTagged{ID: 1, Meta: pa.Meta{Rev: 2, Note: "n"}, Audit: &pa.Audit{By: "me", At: 5}, Leaf: pa.Leaf{Flag: true, Num: 3}, Name: "x"},
		pa.EmbTagged{ID: 1}, pa.EmbTaggedP{Meta: &pa.Meta{Rev: 2}, Audit: pa.Audit{By: "me"}, Leaf: &pa.Leaf{Num: 3}, Weight: 0.5}, pa.EmbTaggedP{}}
	specs := []optSpec{goOpt, {}, {UseTags: true}, {KeyExact: true}, {NestEmbed: true, UseTags: true, KeyExact: true},
		{UseTags: true, KeyExact: true, CreateKey: "^", BytesAs: ojg.BytesAsArray}, {CreateKey: "type", FullTypePath: true, BytesAs: ojg.BytesAsString}}
	for _, x := range vals {
		rt := reflect.TypeOf(x)
		d, ok := describe(rt)
		if !ok {
			continue
		}
		p := reflect.New(rt)
		p.Elem().Set(reflect.ValueOf(x))
		for _, s := range specs {
			for _, bp := range []bool{false, true} {
				if bp && (d.Kind == "ptr" || d.Kind == "bytes" || d.Kind == "iface") {
					continue
				}
				emit(&c15Case{d: d, v: p.Elem(), spec: s, byPtr: bp})
			}
		}
	}
}

// exhaustiveC15 enumerates every struct type with exactly two fields over three field kinds and six
// tag forms, with every combination of zero / non-zero field values, under the eight key-naming
// option combinations (shard `w` of `n`).
func exhaustiveC15(w, n int, emit func(*c15Case)) {
	kinds := []reflect.Type{intTypes[0], stringType, reflect.PtrTo(intTypes[0])}
	tags := []string{"", `json:"k%d"`, `json:"k%d,omitempty"`, `json:",omitempty"`, `json:"-"`, `json:",string"`}
	names := []string{"Abc", "XValue"}
	idx := 0
	for k0 := range kinds {
		for t0 := range tags {
			for k1 := range kinds {
				for t1 := range tags {
					idx++
					if idx%n != w {
						continue
					}
					fs := []reflect.StructField{
						{Name: names[0], Type: kinds[k0], Tag: reflect.StructTag(fmt.Sprintf(strings.ReplaceAll(tags[t0], "%d", "%[1]d"), 0))},
						{Name: names[1], Type: kinds[k1], Tag: reflect.StructTag(fmt.Sprintf(strings.ReplaceAll(tags[t1], "%d", "%[1]d"), 1))},
					}
					rt := reflect.StructOf(fs)
					d := mustDescribe(rt)
					for vals := 0; vals < 4; vals++ {
						v := reflect.New(rt).Elem()
						for i := 0; i < 2; i++ {
							if vals>>i&1 == 0 {
								continue
							}
							switch f := v.Field(i); f.Kind() {
							case reflect.Int:
								f.SetInt(7)
							case reflect.String:
								f.SetString("s")
							default:
								x := 0
								f.Set(reflect.ValueOf(&x))
							}
						}
						for o := 0; o < 8; o++ {
							emit(&c15Case{d: d, v: v, byPtr: o&1 == 1,
								spec: optSpec{UseTags: o&1 != 0, KeyExact: o&2 != 0, NestEmbed: o&4 != 0}})
						}
					}
				}
			}
		}
	}
}

func (c *c15Case) tokens() (string, string) {
	ty, val := c.d.String(), valueString(c.d, c.v)
	if c.byPtr {
		return "P " + ty, "p " + val
	}
	return ty, val
}

func (c *c15Case) key() uint64 {
	h := fnv.New64a()
	ty, val := c.tokens()
	fmt.Fprintf(h, "%s|%s|%s", ty, val, c.spec.word(false, false))
	return h.Sum64()
}

func encReq(which, dev string, s optSpec, indent, strict bool, ty, val string) string {
	w := strings.Split(s.word(indent, strict), " ")
	return strings.Join([]string{"enc", which, dev, w[0], w[1], w[2], ty, val}, "\t")
}

func subsets(letters string, size int) []string {
	var out []string
	var rec func(start int, cur string)
	rec = func(start int, cur string) {
		if len(cur) == size {
			out = append(out, cur)
			return
		}
		for i := start; i < len(letters); i++ {
			rec(i+1, cur+string(letters[i]))
		}
	}
	rec(0, "")
	return out
}

// explain finds the smallest set of model deviations under which the model interpreter gives the
// implementation's outcome (ok=false when there is none).
func explain(d *lib.Driver, e *encoder, c *c15Case, got string) (string, bool, error) {
	ty, val := c.tokens()
	letters := devOf[e.model]
	for size := 1; size <= len(letters); size++ {
		sets := subsets(letters, size)
		reqs := make([]string, len(sets))
		for i, s := range sets {
			reqs[i] = encReq(e.model, s, c.spec, e.indent, e.strict, ty, val)
		}
		ans, err := d.Ask(reqs)
		if err != nil {
			return "", false, err
		}
		// among the smallest explaining sets prefer one made of listed known findings only (two
		// deviations can have the same effect on a case, e.g. the repaired leak and the nested omit)
		first := ""
		for i, a := range ans {
			if modelOutcome(a) != got {
				continue
			}
			allKnown := true
			for j := 0; j < len(sets[i]); j++ {
				allKnown = allKnown && lib.HasKnown(knownList, devKnown[sets[i][j]])
			}
			if allKnown {
				return sets[i], true, nil
			}
			if first == "" {
				first = sets[i]
			}
		}
		if first != "" {
			return first, true, nil
		}
	}
	return "", false, nil
}

func modelOutcome(a string) string {
	if a == "panic" {
		return "fail"
	}
	return canonModel(a)
}

var seenMu sync.Mutex
var seen = map[uint64]struct{}{}

// checkC15 runs one case through every encoder, the reference and the model.
func checkC15(d *lib.Driver, c *c15Case) error {
	seenMu.Lock()
	if _, dup := seen[c.key()]; dup {
		seenMu.Unlock()
		rep.Count("stream.duplicates_skipped", 1)
		return nil
	}
	seen[c.key()] = struct{}{}
	seenMu.Unlock()
	o := c.spec.options()
	arg := c.arg()
	ty, val := c.tokens()
	want := map[bool]string{false: refTree(&o, reflect.ValueOf(arg), false), true: refTree(&o, reflect.ValueOf(arg), true)}
	// model answers without deviations
	type mk struct {
		model          string
		indent, strict bool
	}
	mkeys := []mk{{"ref", false, false}, {"ref", false, true}, {"oj", false, false}, {"oj", true, false},
		{"oj", false, true}, {"sen", false, false}, {"sen", true, false}, {"alt", false, false}}
	reqs := make([]string, len(mkeys))
	for i, k := range mkeys {
		reqs[i] = encReq(k.model, "-", c.spec, k.indent, k.strict, ty, val)
	}
	ans, err := d.Ask(reqs)
	if err != nil {
		return err
	}
	model := map[mk]string{}
	for i, k := range mkeys {
		if ans[i] == "bad-op" || ans[i] == "outside" {
			rep.Add(lib.Finding{Kind: "disagreement", Class: "driver:" + ans[i], What: "the driver refused a generated case", Replay: c.replay()})
			return nil
		}
		model[k] = modelOutcome(ans[i])
	}
	rep.AddEval(1, 1)
	rep.Count("options.tags-exact-nest="+c.spec.word(false, false)[:3], 1)
	rep.Count("top."+c.d.Kind, 1)
	rep.Sample(map[string]any{"type": c.d.RT.String(), "options": c.spec.word(false, false), "tree": want[false]})
	// the two references agree
	for _, st := range []bool{false, true} {
		if model[mk{"ref", false, st}] != want[st] {
			rep.Add(lib.Finding{Kind: "disagreement", Class: "ref:lean-vs-go", Replay: c.replay(),
				What: fmt.Sprintf("refEncode (Lean) %s, harness reference %s", model[mk{"ref", false, st}], want[st])})
		}
	}
	// a member named "-" is written bare by the SEN writer and does not parse (C10's finding)
	senOK := !strings.Contains(want[false], "K(2d)")
	for i := range encoders {
		e := &encoders[i]
		if e.sen && !senOK {
			rep.Count("sen.skipped_dash_key", 1)
			continue
		}
		got := outcome(e, arg, &o)
		w := want[e.strict]
		m := model[mk{e.model, e.indent, e.strict}]
		if got == w {
			if m != got {
				rep.Add(lib.Finding{Kind: "disagreement", Class: "model:" + e.name, Replay: c.replay(),
					What: fmt.Sprintf("implementation and reference agree (%s), the repaired model gives %s", got, m)})
			}
			continue
		}
		// the implementation contradicts the reference
		set, ok, err := explain(d, e, c, got)
		if err != nil {
			return err
		}
		rp := c.replay()
		rp["encoder"] = e.name
		rp["implementation"] = got
		rp["reference"] = w
		if !ok {
			rep.Add(lib.Finding{Kind: "violation", Class: "enc:" + e.name + ":tree", Replay: rp,
				What: fmt.Sprintf("%s describes %s, the documentation prescribes %s", e.name, got, w)})
			rep.Add(lib.Finding{Kind: "disagreement", Class: "model:" + e.name + ":unexplained", Replay: rp,
				What: "no combination of the modelled deviations reproduces the implementation's tree"})
			continue
		}
		for i := 0; i < len(set); i++ {
			id := devKnown[set[i]]
			if lib.HasKnown(knownList, id) {
				rep.Add(lib.Finding{Kind: "known", KnownID: id, Class: "enc:" + e.name + ":" + id, Replay: rp,
					What: fmt.Sprintf("%s describes %s, the documentation prescribes %s (model deviation set %q)", e.name, got, w, set)})
			} else {
				rep.Add(lib.Finding{Kind: "violation", Class: "enc:" + e.name + ":" + id, Replay: rp,
					What: fmt.Sprintf("%s describes %s, the documentation prescribes %s (model deviation %q, not a listed known finding)", e.name, got, w, set)})
			}
		}
	}
	// Go-compatible options: the prescription equals encoding/json (nil ~ empty)
	if c.spec.goCompatible() && goCompatibleValue(c.d, c.v) {
		j := jsonOutcome(arg)
		jn, e1 := lib.ParseCanon(j)
		wn, e2 := lib.ParseCanon(want[false])
		rep.Count("json.compared", 1)
		if e1 != nil || e2 != nil || !laxEqual(wn, jn) {
			rp := c.replay()
			rp["encoding_json"] = j
			rp["reference"] = want[false]
			f := lib.Finding{Kind: "violation", Class: "json:prescription-differs", Replay: rp,
				What: "with the Go-compatible options the prescribed tree differs from encoding/json"}
			// known: ojg ignores a json tag on an EMBEDDED struct; the reference that honours it the way
			// encoding/json does (a name nests, "-" drops) must then be encoding/json's tree
			en, e3 := lib.ParseCanon((&refEnc{o: &o, embTags: true}).value(reflect.ValueOf(arg), true).String())
			if id := "C15-embedded-tag-ignored"; e1 == nil && e3 == nil && laxEqual(en, jn) {
				f.Class, f.What = f.Class+":"+id, "ojg flattens an embedded struct whose json tag has a name (or is \"-\"); encoding/json nests it under the name (drops it)"
				if lib.HasKnown(knownList, id) {
					f.Kind, f.KnownID = "known", id
				}
			}
			rep.Add(f)
		}
	}
	return nil
}

// ---- option pair OmitNil / OmitEmpty: known finding C15-omit-options -------------------------

func checkOmit(c *c15Case) {
	o := c.spec.options()
	arg := c.arg()
	outs := map[string]string{}
	for i := range encoders {
		e := &encoders[i]
		if e.indent || e.strict || e.name == "oj.Write" {
			continue
		}
		outs[e.name] = outcome(e, arg, &o)
	}
	rep.AddEval(1, 1)
	rep.Count("omit.cases", 1)
	off, why := omitOffDisagree(c)
	if why != "" {
		// another deviation (a listed one: exact tag keys, []byte, uint64, float32 — the main streams
		// name it with the model) already separates the encoders on this value with both options
		// off: the omit comparison would not be about the omit options
		rep.Count("omit.skipped_other_deviation", 1)
		return
	}
	names := []string{"oj.JSON", "sen.String", "pretty.JSON", "alt.Decompose"}
	for _, n := range names[1:] {
		if strings.HasPrefix(outs[n], "unparsable") || strings.HasPrefix(outs[names[0]], "unparsable") {
			continue
		}
		if outs[n] != outs[names[0]] {
			class := fmt.Sprintf("omit:%c%c", bit(c.spec.OmitNil), bit(c.spec.OmitEmpty))
			rp := c.replay()
			rp["oj.JSON"] = outs[names[0]]
			rp[n] = outs[n]
			f := lib.Finding{Kind: "violation", Class: class, Replay: rp,
				What: fmt.Sprintf("with OmitNil=%v OmitEmpty=%v oj.JSON and %s describe different trees", c.spec.OmitNil, c.spec.OmitEmpty, n)}
			// the known finding is about WHICH empty members the omit options drop, nothing else: the
			// trees must agree once every empty member (null, false, 0, "", [], {} — by anybody's
			// definition, hereditarily) is taken out of both (and with both options off the encoders
			// agree on this value: tested above)
			why := omitExplained(c, off, outs[names[0]], outs[n])
			if why == "" && lib.HasKnown(knownList, "C15-omit-options") {
				f.Kind, f.KnownID = "known", "C15-omit-options"
			} else if why != "" {
				f.Class, f.What = class+":unexplained", f.What+" — not explained by C15-omit-options: "+why
			}
			rep.Add(f)
			return
		}
	}
}

// pruneEmpty takes every member out of every object whose (pruned) value is empty by anybody's
// definition: null, false, a zero number, "", [], {}.
func pruneEmpty(n *lib.Node, strKeys map[string]bool) *lib.Node {
	switch n.Kind {
	case '[':
		out := &lib.Node{Kind: '['}
		for _, k := range n.Kids {
			out.Kids = append(out.Kids, pruneEmpty(k, strKeys))
		}
		return out
	case '{':
		out := &lib.Node{Kind: '{'}
		for i, k := range n.Kids {
			p := pruneEmpty(k, strKeys)
			if emptyNode(p) {
				continue
			}
			// a zero scalar written under the `string` tag option
			if p.Kind == 'S' && strKeys[n.Keys[i]] && (p.Text == lib.HexF([]byte("false")) || p.Text == lib.HexF([]byte("0"))) {
				continue
			}
			out.Keys = append(out.Keys, n.Keys[i])
			out.Kids = append(out.Kids, p)
		}
		return out
	}
	return n
}

func emptyNode(n *lib.Node) bool {
	switch n.Kind {
	case 'n', 'f':
		return true
	case 'I':
		return n.Text == "0" || n.Text == "-0"
	case 'F':
		return strings.Trim(n.Text, "0") == "" || n.Text == "8000000000000000"
	case 'S':
		return n.Text == "-"
	case '[', '{':
		return len(n.Kids) == 0
	}
	return false
}

// stringTaggedKeys collects (in hex) the member names of the fields tagged with the `string` option.
func stringTaggedKeys(rt reflect.Type, out map[string]bool, seen map[reflect.Type]bool) {
	if seen[rt] {
		return
	}
	seen[rt] = true
	switch rt.Kind() {
	case reflect.Ptr, reflect.Slice, reflect.Array, reflect.Map:
		stringTaggedKeys(rt.Elem(), out, seen)
	case reflect.Struct:
		for i := 0; i < rt.NumField(); i++ {
			f := rt.Field(i)
			stringTaggedKeys(f.Type, out, seen)
			tag, _ := f.Tag.Lookup("json")
			parts := strings.Split(tag, ",")
			for _, p := range parts[1:] {
				if p == "string" {
					for _, k := range []string{parts[0], f.Name, lowerKey(f.Name)} {
						if k != "" {
							out[lib.HexF([]byte(k))] = true
						}
					}
				}
			}
		}
	}
}

// dynStringTaggedKeys does the same for the struct types of the values interfaces hold.
func dynStringTaggedKeys(v reflect.Value, out map[string]bool, depth int) {
	if depth > 40 || !v.IsValid() {
		return
	}
	switch v.Kind() {
	case reflect.Interface:
		if !v.IsNil() {
			stringTaggedKeys(v.Elem().Type(), out, map[reflect.Type]bool{})
			dynStringTaggedKeys(v.Elem(), out, depth+1)
		}
	case reflect.Ptr:
		if !v.IsNil() {
			dynStringTaggedKeys(v.Elem(), out, depth+1)
		}
	case reflect.Slice, reflect.Array:
		for i := 0; i < v.Len(); i++ {
			dynStringTaggedKeys(v.Index(i), out, depth+1)
		}
	case reflect.Map:
		for _, k := range v.MapKeys() {
			dynStringTaggedKeys(v.MapIndex(k), out, depth+1)
		}
	case reflect.Struct:
		for i := 0; i < v.NumField(); i++ {
			dynStringTaggedKeys(v.Field(i), out, depth+1)
		}
	}
}

// omitExplained: "" when the disagreement of two encoders under OmitNil/OmitEmpty is of the kind the
// known finding C15-omit-options describes, else why not.
func omitExplained(c *c15Case, off, a, b string) string {
	if !c.spec.OmitNil && !c.spec.OmitEmpty {
		return "both options are off"
	}
	an, e1 := lib.ParseCanon(a)
	bn, e2 := lib.ParseCanon(b)
	on, e3 := lib.ParseCanon(off)
	if e1 != nil || e2 != nil || e3 != nil {
		return "an encoder failed: " + a + " / " + b
	}
	strKeys := map[string]bool{}
	stringTaggedKeys(c.d.RT, strKeys, map[reflect.Type]bool{})
	dynStringTaggedKeys(c.v, strKeys, 0)
	// what the defect predicts: EACH encoder writes the tree all of them write with both options off
	// (off), less some members that are empty — nothing added, nothing changed, nothing non-empty gone
	for _, x := range []*lib.Node{an, bn} {
		if !lessEmptyMembers(x, on, strKeys) {
			return "a tree is not the tree written with both options off less empty members: " + x.String() + " / off: " + on.String()
		}
	}
	return ""
}

// lessEmptyMembers: x is off with some object members taken out whose value is empty (hereditarily).
func lessEmptyMembers(x, off *lib.Node, strKeys map[string]bool) bool {
	if x.Kind != off.Kind {
		return false
	}
	switch x.Kind {
	case '[':
		if len(x.Kids) != len(off.Kids) {
			return false
		}
		for i := range x.Kids {
			if !lessEmptyMembers(x.Kids[i], off.Kids[i], strKeys) {
				return false
			}
		}
		return true
	case '{':
		have := map[string]*lib.Node{}
		for i, k := range x.Keys {
			have[k] = x.Kids[i]
		}
		n := 0
		for i, k := range off.Keys {
			if xv, ok := have[k]; ok {
				n++
				if !lessEmptyMembers(xv, off.Kids[i], strKeys) {
					return false
				}
				continue
			}
			// gone: it must be empty (once its own empty members are gone)
			p := pruneEmpty(off.Kids[i], strKeys)
			if !emptyNode(p) && !(p.Kind == 'S' && strKeys[k] && (p.Text == lib.HexF([]byte("false")) || p.Text == lib.HexF([]byte("0")))) {
				return false
			}
		}
		return n == len(x.Keys) // nothing added
	}
	return x.Text == off.Text
}

// omitOffDisagree: the tree the encoders write with both omit options off, and "" — or who disagrees.
func omitOffDisagree(c *c15Case) (string, string) {
	s := c.spec
	s.OmitNil, s.OmitEmpty = false, false
	o := s.options()
	arg := c.arg()
	first := ""
	for i := range encoders {
		e := &encoders[i]
		if e.indent || e.strict || e.name == "oj.Write" {
			continue
		}
		got := outcome(e, arg, &o)
		if first == "" {
			first = got
		} else if got != first {
			return first, e.name
		}
	}
	return first, ""
}

// ---- values outside the model: uint64 above int64, float32 outside struct fields -----------------

func wrapInts(n *lib.Node) *lib.Node {
	switch n.Kind {
	case 'I':
		bi, ok := new(big.Int).SetString(n.Text, 10)
		if ok && bi.Cmp(new(big.Int).Lsh(big.NewInt(1), 63)) >= 0 {
			return intNode(new(big.Int).Sub(bi, new(big.Int).Lsh(big.NewInt(1), 64)).String())
		}
	case '[', '{':
		out := &lib.Node{Kind: n.Kind, Keys: n.Keys}
		for _, k := range n.Kids {
			out.Kids = append(out.Kids, wrapInts(k))
		}
		return out
	}
	return n
}

func roundFloats(n *lib.Node) *lib.Node {
	switch n.Kind {
	case 'F', 'I':
		var f float64
		if n.Kind == 'I' {
			bf, _, _ := new(big.Float).Parse(n.Text, 10)
			f, _ = bf.Float64()
		} else {
			var bits uint64
			fmt.Sscanf(n.Text, "%x", &bits)
			f = math.Float64frombits(bits)
		}
		return leaf('F', fmt.Sprintf("%.5e", f))
	case '[', '{':
		out := &lib.Node{Kind: n.Kind, Keys: n.Keys}
		for _, k := range n.Kids {
			out.Kids = append(out.Kids, roundFloats(k))
		}
		return out
	}
	return n
}

// checkOutside compares the encoders with the reference on values the model does not cover and
// classifies a mismatch that disappears under the named normalisation (or, for the interface nil
// word, equals the reference with exactly that deviation) as the known finding.
func checkOutside(c *c15Case, id string, norm func(*lib.Node) *lib.Node) {
	o := c.spec.options()
	arg := c.arg()
	want := refTree(&o, reflect.ValueOf(arg), false)
	devWant := ""
	if id == "C15-iface-nil-word" {
		devWant = (&refEnc{o: &o, nilWord: true}).value(reflect.ValueOf(arg), true).String()
	}
	rep.AddEval(1, 1)
	rep.Count("outside."+id, 1)
	for i := range encoders {
		e := &encoders[i]
		if e.strict || e.indent {
			continue
		}
		got := outcome(e, arg, &o)
		if got == want {
			continue
		}
		gn, e1 := lib.ParseCanon(got)
		wn, e2 := lib.ParseCanon(want)
		rp := c.replay()
		rp["encoder"], rp["implementation"], rp["reference"] = e.name, got, want
		if (got == devWant || devWant == "" && e1 == nil && e2 == nil && norm(gn).String() == norm(wn).String()) && lib.HasKnown(knownList, id) {
			rep.Add(lib.Finding{Kind: "known", KnownID: id, Class: "enc:" + e.name + ":" + id, Replay: rp,
				What: fmt.Sprintf("%s describes %s, the value is %s", e.name, got, want)})
		} else {
			rep.Add(lib.Finding{Kind: "violation", Class: "enc:" + e.name + ":" + id, Replay: rp,
				What: fmt.Sprintf("%s describes %s, the value is %s", e.name, got, want)})
		}
	}
}

func runC15() error {
	if *replay != "" {
		return replayC15()
	}
	full := *tier == "thorough"
	perWorker := 400
	if full {
		perWorker = 5000
	}
	if s := os.Getenv("VERIF_REFLECT_N"); s != "" {
		fmt.Sscanf(s, "%d", &perWorker)
	}
	root := lib.NewRng(*seed)
	var wg sync.WaitGroup
	errc := make(chan error, *workers+1)
	for w := 0; w < *workers; w++ {
		wg.Add(1)
		r := root.Fork(w)
		go func(w int) {
			defer wg.Done()
			d, err := lib.StartDriver(*driver)
			if err != nil {
				errc <- err
				return
			}
			defer d.Close()
			emit := func(c *c15Case) {
				if err := checkC15(d, c); err != nil {
					select {
					case errc <- err:
					default:
					}
				}
			}
			if w == 0 {
				if *corpus != "" {
					for _, c := range loadCorpus(*corpus) {
						emit(c)
						rep.Count("stream.corpus", 1)
					}
				}
				boundaryC15(func(c *c15Case) { emit(c); rep.Count("stream.boundary", 1) })
				selfEmbC15() // self-embedding types: outside the model, against encoding/json
			}
			exhaustiveC15(w, *workers, func(c *c15Case) { emit(c); rep.Count("stream.exhaustive", 1) })
			genC15(r, perWorker, func(c *c15Case) { emit(c); rep.Count("stream.random", 1) })
			// cache order: histories of encode calls on type families no cache has seen (c15_cache.go)
			cacheBoxC15(w, *workers)
			cacheRandomC15(r.Fork(78), perWorker/10+1)
			// omit model: encodeO (Lean) = the oj/sen writers under all four OmitNil/OmitEmpty combinations (c15_omit.go)
			omitEmit := func(c *c15Case) {
				if err := checkOmitModel(d, c); err != nil {
					select {
					case errc <- err:
					default:
					}
				}
			}
			if w == 0 {
				boundaryOmitC15(func(c *c15Case) { omitEmit(c); rep.Count("stream.omit_boundary", 1) })
			}
			genC15(r.Fork(79), perWorker/4+1, func(c *c15Case) { omitEmit(c); rep.Count("stream.omit_model", 1) })
			if full { // the two-field box under all four omit combinations
				exhaustiveC15(w, *workers, func(c *c15Case) { omitEmit(c); rep.Count("stream.omit_exhaustive", 1) })
			}
			// the option pair the encoders disagree about
			genC15(r.Fork(77), perWorker/8+1, func(c *c15Case) {
				c.spec.OmitNil, c.spec.OmitEmpty = r.Bool(), r.Bool()
				if !c.spec.OmitNil && !c.spec.OmitEmpty {
					c.spec.OmitEmpty = true
				}
				checkOmit(c)
			})
			// values outside the model
			for i := 0; i < perWorker/8+1; i++ {
				rt := reflect.StructOf([]reflect.StructField{
					{Name: "U", Type: reflect.SliceOf(intTypes[9])}, {Name: "V", Type: intTypes[5]},
					{Name: "W", Type: reflect.MapOf(stringType, intTypes[9])}, {Name: "I", Type: anyType}})
				v := reflect.New(rt).Elem()
				big := []uint64{1 << 63, ^uint64(0), 1<<63 + uint64(r.Intn(1000)), 5}
				v.Field(0).Set(reflect.ValueOf([]uint64{lib.Pick(r, big), lib.Pick(r, big)}))
				v.Field(1).SetUint(lib.Pick(r, big))
				v.Field(2).Set(reflect.ValueOf(map[string]uint64{"k": lib.Pick(r, big)}))
				v.Field(3).Set(reflect.ValueOf(lib.Pick(r, big)))
				checkOutside(&c15Case{d: mustDescribe(rt), v: v, spec: optSpec{KeyExact: true}, byPtr: true}, "C15-uint64-wrap", wrapInts)
				rt2 := reflect.StructOf([]reflect.StructField{
					{Name: "F", Type: f32Type}, {Name: "L", Type: reflect.SliceOf(f32Type)}, {Name: "M", Type: reflect.MapOf(stringType, f32Type)}})
				v2 := reflect.New(rt2).Elem()
				fs := []float32{0.1, 1e6, 1024.125, 3.14159274, 16777216, 65536.5}
				v2.Field(0).SetFloat(float64(lib.Pick(r, fs)))
				v2.Field(1).Set(reflect.ValueOf([]float32{lib.Pick(r, fs), lib.Pick(r, fs)}))
				v2.Field(2).Set(reflect.ValueOf(map[string]float32{"k": lib.Pick(r, fs)}))
				checkOutside(&c15Case{d: mustDescribe(rt2), v: v2, spec: optSpec{KeyExact: true}, byPtr: true}, "C15-float32-decompose", roundFloats)
				// an interface whose data word is nil under omitempty
				type one struct{ P *int }
				rt3 := reflect.StructOf([]reflect.StructField{
					{Name: "A", Type: anyType, Tag: `json:"a,omitempty"`}, {Name: "B", Type: anyType, Tag: `json:",omitempty"`},
					{Name: "C", Type: anyType}})
				v3 := reflect.New(rt3).Elem()
				var np *int
				seven := 7
				words := []any{one{}, one{P: &seven}, [1]one{}, map[string]int(nil), map[string]int{}, np, &seven, nil, "s"}
				for f := 0; f < 3; f++ {
					if x := lib.Pick(r, words); x != nil {
						v3.Field(f).Set(reflect.ValueOf(x))
					}
				}
				checkOutside(&c15Case{d: mustDescribe(rt3), v: v3, spec: optSpec{UseTags: true, KeyExact: true}, byPtr: r.Bool()}, "C15-iface-nil-word", nil)
			}
		}(w)
	}
	wg.Wait()
	select {
	case err := <-errc:
		return err
	default:
	}
	rep.Rule = "every encoder (oj.JSON tight and indented, oj.Marshal, oj.Write, sen.String tight and indented, pretty.JSON, alt.Decompose+oj.JSON) " +
		"describes the tree of the reflective reference; the Lean refEncode equals the harness reference; each Lean plan interpreter equals its implementation " +
		"(under the smallest set of listed deviations); with ojg.GoOptions the reference equals encoding/json (nil ~ empty); " +
		"cache order: every encode call of a history on a never-seen type family describes the tree the same call describes as the first call on a fresh identical family"
	rep.Exhaustive = append(rep.Exhaustive, "every struct type with two fields over {int, string, *int} x 6 tag forms (none, name, name+omitempty, omitempty, -, string), every zero/non-zero value pattern, 8 key-naming option combinations")
	rep.Notes = append(rep.Notes, "self-embedding types (pc.SelfEmb, pc.EmbA/pc.EmbB, and a struct holding them in fields, slices and maps) are outside the Lean model (GoType is a finite tree): every encoder is compared with encoding/json (member names spelled as the options say) under three key-naming option sets, by value and by pointer")
	rep.Notes = append(rep.Notes, "types: reflect.StructOf structs (tags, embedded structs and pointers, nested containers, interfaces) and the named types of harness packages pa/pb; values with nil pointers, slices, maps and interfaces at every level")
	return nil
}

// ---- replay and corpus -----------------------------------------------------------------------

type replayFile struct {
	Replay map[string]any `json:"replay"`
}

func caseFromReplay(m map[string]any) (*c15Case, error) {
	ty, _ := m["type"].(string)
	val, _ := m["value"].(string)
	opts, _ := m["options"].(string)
	bp, _ := m["by_pointer"].(bool)
	rt, rest, err := buildType(strings.Fields(ty))
	if err != nil || len(rest) != 0 {
		return nil, fmt.Errorf("bad type tokens: %v", err)
	}
	v := reflect.New(rt).Elem()
	rest, err = buildValue(v, strings.Fields(val))
	if err != nil || len(rest) != 0 {
		return nil, fmt.Errorf("bad value tokens: %v", err)
	}
	w := strings.Fields(opts)
	if len(w) != 3 || len(w[0]) != 8 {
		return nil, fmt.Errorf("bad options word %q", opts)
	}
	s := optSpec{UseTags: w[0][0] == '1', KeyExact: w[0][1] == '1', NestEmbed: w[0][2] == '1', OmitNil: w[0][3] == '1',
		OmitEmpty: w[0][4] == '1', FullTypePath: w[0][5] == '1'}
	fmt.Sscanf(w[1], "%d", &s.BytesAs)
	ck, _ := lib.UnhexF(w[2])
	s.CreateKey = string(ck)
	return &c15Case{d: mustDescribe(rt), v: v, spec: s, byPtr: bp}, nil
}

func replayC15() error {
	data, err := os.ReadFile(*replay)
	if err != nil {
		return err
	}
	var rf replayFile
	if err := json.Unmarshal(data, &rf); err != nil {
		return err
	}
	if _, ok := rf.Replay["cache_family"]; ok {
		if err := replayCache(rf.Replay); err != nil {
			return err
		}
		for _, f := range rep.Findings {
			fmt.Printf("%s %s: %s\n", f.Kind, f.Class, f.What)
		}
		return nil
	}
	c, err := caseFromReplay(rf.Replay)
	if err != nil {
		return err
	}
	d, err := lib.StartDriver(*driver)
	if err != nil {
		return err
	}
	defer d.Close()
	if _, ok := rf.Replay["model"]; ok || strings.HasPrefix(fmt.Sprint(rf.Replay["class_hint"]), "omit-model") {
		if err := checkOmitModel(d, c); err != nil {
			return err
		}
	} else if c.spec.OmitNil || c.spec.OmitEmpty {
		checkOmit(c)
		if err := checkOmitModel(d, c); err != nil {
			return err
		}
	} else if err := checkC15(d, c); err != nil {
		return err
	}
	for _, f := range rep.Findings {
		fmt.Printf("%s %s: %s\n", f.Kind, f.Class, f.What)
	}
	return nil
}

func loadCorpus(path string) []*c15Case {
	data, err := os.ReadFile(path)
	if err != nil {
		return nil
	}
	var out []*c15Case
	for _, line := range strings.Split(string(data), "\n") {
		line = strings.TrimSpace(line)
		if line == "" || strings.HasPrefix(line, "#") {
			continue
		}
		var m map[string]any
		if json.Unmarshal([]byte(line), &m) != nil {
			continue
		}
		if c, err := caseFromReplay(m); err == nil {
			out = append(out, c)
		}
	}
	return out
}

