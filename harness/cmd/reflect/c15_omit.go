package main

// C15, omit model stream: the Lean model of the oj/sen writers under OmitNil / OmitEmpty
// (lean/OjgVerif/Reflect/EncOmit.lean, driver op `enco`) against the implementation, for all four
// combinations of the two options, and the tight writer against the indented one.

import (
	"fmt"
	"reflect"
	"strings"

	"verif/harness/lib"
)

// currentDev: the deviation letters of Dev.current (Reflect/Model.lean): exact tag keys, []byte as a slice.
const currentDev = "xy"

type omitWriter struct {
	enc            string
	model          string
	indent, strict bool
}

var omitWriters = []omitWriter{
	{"oj.JSON", "oj", false, false}, {"oj.JSON/indent", "oj", true, false}, {"oj.Marshal", "oj", false, true}, {"oj.Write", "oj", false, false},
	{"sen.String", "sen", false, false}, {"sen.String/indent", "sen", true, false},
}

const omitTightID = "C15-omitnil-tight-empty-string"

func checkOmitModel(d *lib.Driver, c *c15Case) error {
	ty, val := c.tokens()
	arg := c.arg()
	for combo := 0; combo < 4; combo++ {
		s := c.spec
		s.OmitNil, s.OmitEmpty = combo&1 != 0, combo&2 != 0
		o := s.options()
		reqs := make([]string, len(omitWriters))
		for i, w := range omitWriters {
			ws := strings.Split(s.word(w.indent, w.strict), " ")
			reqs[i] = strings.Join([]string{"enco", w.model, currentDev, ws[0], ws[1], ws[2], ty, val}, "\t")
		}
		ans, err := d.Ask(reqs)
		if err != nil {
			return err
		}
		if ans[0] == "outside" || ans[0] == "bad-op" {
			rep.Count("omit_model."+ans[0], 1)
			return nil
		}
		rep.AddEval(1, 1)
		rep.Count(fmt.Sprintf("omit_model.cases.nil%c_empty%c", bit(s.OmitNil), bit(s.OmitEmpty)), 1)
		got := make([]string, len(omitWriters))
		model := make([]string, len(omitWriters))
		for i, w := range omitWriters {
			model[i] = modelOutcome(ans[i])
			if w.model == "sen" && strings.Contains(model[i], "K(2d)") { // a member named "-" does not parse back (C10)
				got[i] = ""
				continue
			}
			got[i] = outcome(encoderByName(w.enc), arg, &o)
			if got[i] != model[i] {
				rp := c.replay()
				rp["options"] = s.word(false, false)
				rp["encoder"], rp["implementation"], rp["model"] = w.enc, got[i], model[i]
				rep.Add(lib.Finding{Kind: "disagreement", Class: "omit-model:" + w.enc, Replay: rp,
					What: fmt.Sprintf("with OmitNil=%v OmitEmpty=%v %s describes %s, the omit model (encodeO, Dev.current) gives %s", s.OmitNil, s.OmitEmpty, w.enc, got[i], model[i])})
			}
		}
		// the tight and the indented writer of a package describe the same tree
		for _, p := range [][2]int{{0, 1}, {4, 5}} {
			t, in := p[0], p[1]
			if got[t] == "" || got[in] == "" || got[t] == got[in] {
				continue
			}
			rp := c.replay()
			rp["options"] = s.word(false, false)
			rp[omitWriters[t].enc], rp[omitWriters[in].enc] = got[t], got[in]
			f := lib.Finding{Kind: "violation", Class: "omit:tight-vs-indent:" + omitWriters[t].model, Replay: rp,
				What: fmt.Sprintf("with OmitNil=%v OmitEmpty=%v %s describes %s and %s describes %s", s.OmitNil, s.OmitEmpty,
					omitWriters[t].enc, got[t], omitWriters[in].enc, got[in])}
			// known: under OmitNil without OmitEmpty the tight map walker drops an empty string value, exactly
			// as the model says for both writers
			if s.OmitNil && !s.OmitEmpty && got[t] == model[t] && got[in] == model[in] && lib.HasKnown(knownList, omitTightID) {
				f.Kind, f.KnownID, f.Class = "known", omitTightID, f.Class+":"+omitTightID
			}
			rep.Add(f)
		}
	}
	return nil
}

// boundaryOmitC15: small values at the omit tests of the writers.
func boundaryOmitC15(emit func(*c15Case)) {
	type In struct {
		X int
		S string
	}
	type T struct {
		P  *In
		I  any
		S  string
		N  int
		B  bool
		L  []int
		M  map[string]string
		MP map[string]*In
		ML map[string][]int
		MM map[string]map[string]int
		MS map[string]*string
		MA map[string]any
		MB map[string][]byte
		A  [0]int
		St In
	}
	empty := ""
	vals := []any{T{}, T{M: map[string]string{"a": "", "b": "x"}, MP: map[string]*In{"n": nil, "z": {}}, ML: map[string][]int{"nil": nil, "e": {}, "one": {1}},
		MM: map[string]map[string]int{"nil": nil, "e": {}}, MS: map[string]*string{"e": &empty, "n": nil},
		MA: map[string]any{"nil": nil, "s": "", "m": map[string]any{}, "l": []any{}, "li": []int{}, "z": 0, "f": false},
		MB: map[string][]byte{"nil": nil, "e": {}}, I: map[string]any{"nil": nil, "s": "", "m": map[string]any{}, "l": []any{}, "li": []int{}, "ms": map[string]string{"e": ""}},
		L: []int{}},
		map[string]any{"nil": nil, "s": "", "m": map[string]any(nil), "l": []any(nil), "t": T{}, "in": In{}},
		map[string]string{"a": "", "b": "x"}, []map[string]string{{"a": ""}}, map[string]In{"z": {}}, []any{nil, "", map[string]any{"x": nil}},
		In{}, &In{}, []*In{nil, {}}}
	specs := []optSpec{{}, {UseTags: true, KeyExact: true}, {KeyExact: true, CreateKey: "^"}}
	for _, x := range vals {
		c := caseOf(x)
		if c == nil {
			continue
		}
		for _, s := range specs {
			cc := *c
			cc.spec = s
			emit(&cc)
		}
	}
}

func caseOf(x any) *c15Case {
	rt := reflect.TypeOf(x)
	d, ok := describe(rt)
	if !ok {
		return nil
	}
	p := reflect.New(rt)
	p.Elem().Set(reflect.ValueOf(x))
	return &c15Case{d: d, v: p.Elem()}
}
