package main

// C15, omit model stream: the Lean model of the oj/sen writers under OmitNil / OmitEmpty
// (lean/OjgVerif/Reflect/EncOmit.lean, driver op `enco`) against the implementation, for all four
// combinations of the two options, and the tight writer against the indented one.

import (
	"fmt"
	"reflect"
	"strings"

	"github.com/ohler55/ojg"
	"github.com/ohler55/ojg/oj"
	"github.com/ohler55/ojg/sen"

	"verif/harness/lib"
)

// currentDev: the deviation letters of Dev.current (Reflect/Model.lean): exact tag keys, []byte as a slice.
const currentDev = "xy"

type omitWriter struct {
	enc            string
	model          string
	indent, strict bool
}

var omitWriters = []omitWriter{
	{"oj.JSON", "oj", false, false}, {"oj.JSON/indent", "oj", true, false}, {"oj.Marshal", "oj", false, true}, {"oj.Write", "oj", false, false},
	{"sen.String", "sen", false, false}, {"sen.String/indent", "sen", true, false},
	// the unsorted object writers (tightObject / appendObject; every other stream sets Sort)
	{"oj.JSON/nosort", "oj", false, false}, {"oj.JSON/indent/nosort", "oj", true, false},
	{"sen.String/nosort", "sen", false, false}, {"sen.String/indent/nosort", "sen", true, false},
	// alt.Decompose (written by oj.JSON without omit options): model encodeA (Reflect/EncOmitAlt.lean)
	{"alt.Decompose", "alt", false, false},
	// pretty.JSON: alt.Decompose at the non-generic frontier plus the skip tests of its node builder (encodeP)
	{"pretty.JSON", "pretty", false, false},
}

// omitExtra: entry points only this stream uses (Sort off).
var omitExtra = []encoder{
	{name: "oj.JSON/nosort", model: "oj", run: func(v any, o *ojg.Options) (string, error) {
		o2 := *o
		o2.Sort = false
		return oj.JSON(v, &o2), nil
	}},
	{name: "oj.JSON/indent/nosort", model: "oj", indent: true, run: func(v any, o *ojg.Options) (string, error) {
		o2 := *o
		o2.Sort, o2.Indent = false, 2
		return oj.JSON(v, &o2), nil
	}},
	{name: "sen.String/nosort", model: "sen", sen: true, run: func(v any, o *ojg.Options) (string, error) {
		o2 := *o
		o2.Sort = false
		return sen.String(v, &o2), nil
	}},
	{name: "sen.String/indent/nosort", model: "sen", sen: true, indent: true, run: func(v any, o *ojg.Options) (string, error) {
		o2 := *o
		o2.Sort, o2.Indent = false, 2
		return sen.String(v, &o2), nil
	}},
}

func omitEncoder(name string) *encoder {
	if e := encoderByName(name); e != nil {
		return e
	}
	for i := range omitExtra {
		if omitExtra[i].name == name {
			return &omitExtra[i]
		}
	}
	return nil
}

const omitTightID = "C15-omitnil-tight-empty-string"

func checkOmitModel(d *lib.Driver, c *c15Case) error {
	ty, val := c.tokens()
	arg := c.arg()
	var gotBy [4][]string
	var prettyBy [2]string
	defer func() { omitNilOracle(c, gotBy, prettyBy) }()
	for combo := 0; combo < 4; combo++ {
		s := c.spec
		s.OmitNil, s.OmitEmpty = combo&1 != 0, combo&2 != 0
		o := s.options()
		reqs := make([]string, len(omitWriters))
		for i, w := range omitWriters {
			ws := strings.Split(s.word(w.indent, w.strict), " ")
			reqs[i] = strings.Join([]string{"enco", w.model, currentDev, ws[0], ws[1], ws[2], ty, val}, "\t")
		}
		ans, err := d.Ask(reqs)
		if err != nil {
			return err
		}
		if ans[0] == "outside" || ans[0] == "bad-op" {
			rep.Count("omit_model."+ans[0], 1)
			return nil
		}
		rep.AddEval(1, 1)
		rep.Count(fmt.Sprintf("omit_model.cases.nil%c_empty%c", bit(s.OmitNil), bit(s.OmitEmpty)), 1)
		got := make([]string, len(omitWriters))
		model := make([]string, len(omitWriters))
		for i, w := range omitWriters {
			model[i] = modelOutcome(ans[i])
			if w.model == "sen" && strings.Contains(model[i], "K(2d)") { // a member named "-" does not parse back (C10)
				got[i] = ""
				continue
			}
			got[i] = outcome(omitEncoder(w.enc), arg, &o)
			if got[i] != model[i] {
				rp := c.replay()
				rp["options"] = s.word(false, false)
				rp["encoder"], rp["implementation"], rp["model"] = w.enc, got[i], model[i]
				rep.Add(lib.Finding{Kind: "disagreement", Class: "omit-model:" + w.enc, Replay: rp,
					What: fmt.Sprintf("with OmitNil=%v OmitEmpty=%v %s describes %s, the omit model (encodeO, Dev.current) gives %s", s.OmitNil, s.OmitEmpty, w.enc, got[i], model[i])})
			}
		}
		gotBy[combo] = got
		if combo < 2 {
			prettyBy[combo] = outcome(encoderByName("pretty.JSON"), arg, &o)
		}
		// entry points that must describe the same tree whatever the omit options are: Sort on / off,
		// oj / sen at the same indentation (Lean: writers_oj_sen_agree_omit), oj.JSON / oj.Write
		for _, p := range [][3]any{{0, 6, "sort-vs-nosort"}, {1, 7, "sort-vs-nosort"}, {4, 8, "sort-vs-nosort"}, {5, 9, "sort-vs-nosort"},
			{0, 4, "oj-vs-sen"}, {1, 5, "oj-vs-sen"}, {0, 3, "json-vs-write"}} {
			a, b := p[0].(int), p[1].(int)
			if got[a] == "" || got[b] == "" || got[a] == got[b] {
				continue
			}
			rp := c.replay()
			rp["options"] = s.word(false, false)
			rp[omitWriters[a].enc], rp[omitWriters[b].enc] = got[a], got[b]
			rep.Add(lib.Finding{Kind: "violation", Class: "omit:" + p[2].(string) + ":" + omitWriters[b].enc, Replay: rp,
				What: fmt.Sprintf("with OmitNil=%v OmitEmpty=%v %s describes %s and %s describes %s", s.OmitNil, s.OmitEmpty,
					omitWriters[a].enc, got[a], omitWriters[b].enc, got[b])})
		}
		// oj against alt.Decompose and pretty.JSON under the omit options: they do differ (known finding
		// C15-omit-options, reported by checkOmit) — but only in the way the models say. A difference in
		// which one of the two trees is not its model's tree is not that finding.
		if combo != 0 {
			for j, w := range omitWriters {
				if (w.model != "alt" && w.model != "pretty") || got[j] == "" || got[0] == "" || got[0] == got[j] {
					continue
				}
				if got[j] == model[j] && got[0] == model[0] {
					rep.Count("omit_model.modelled_difference."+w.enc, 1)
					continue
				}
				rp := c.replay()
				rp["options"] = s.word(false, false)
				rp["oj.JSON"], rp[w.enc], rp["model:oj.JSON"], rp["model:"+w.enc] = got[0], got[j], model[0], model[j]
				rep.Add(lib.Finding{Kind: "violation", Class: fmt.Sprintf("omit:%c%c:not-the-modelled-difference:%s", bit(s.OmitNil), bit(s.OmitEmpty), w.enc), Replay: rp,
					What: fmt.Sprintf("with OmitNil=%v OmitEmpty=%v oj.JSON describes %s and %s describes %s; the models of the two (encodeO, %s) give %s and %s: the encoders differ, and not in the way known finding C15-omit-options describes",
						s.OmitNil, s.OmitEmpty, got[0], w.enc, got[j], map[string]string{"alt": "encodeA", "pretty": "encodeP"}[w.model], model[0], model[j])})
			}
		}
		// the tight and the indented writer of a package describe the same tree
		for _, p := range [][2]int{{0, 1}, {4, 5}} {
			t, in := p[0], p[1]
			if got[t] == "" || got[in] == "" || got[t] == got[in] {
				continue
			}
			rp := c.replay()
			rp["options"] = s.word(false, false)
			rp[omitWriters[t].enc], rp[omitWriters[in].enc] = got[t], got[in]
			f := lib.Finding{Kind: "violation", Class: "omit:tight-vs-indent:" + omitWriters[t].model, Replay: rp,
				What: fmt.Sprintf("with OmitNil=%v OmitEmpty=%v %s describes %s and %s describes %s", s.OmitNil, s.OmitEmpty,
					omitWriters[t].enc, got[t], omitWriters[in].enc, got[in])}
			// (until /repo d7a5508 a known finding: under OmitNil without OmitEmpty the tight map walker dropped an
			// empty string value; the entry is in the `fixed` list now, so this branch is dead unless the id is
			// listed as known again)
			if s.OmitNil && !s.OmitEmpty && got[t] == model[t] && got[in] == model[in] && lib.HasKnown(knownList, omitTightID) {
				f.Kind, f.KnownID, f.Class = "known", omitTightID, f.Class+":"+omitTightID
			}
			rep.Add(f)
		}
	}
	return nil
}

// boundaryOmitC15: small values at the omit tests of the writers.
func boundaryOmitC15(emit func(*c15Case)) {
	type In struct {
		X int
		S string
	}
	type T struct {
		P  *In
		I  any
		S  string
		N  int
		B  bool
		L  []int
		M  map[string]string
		MP map[string]*In
		ML map[string][]int
		MM map[string]map[string]int
		MS map[string]*string
		MA map[string]any
		MB map[string][]byte
		A  [0]int
		St In
	}
	empty := ""
	vals := []any{T{}, T{M: map[string]string{"a": "", "b": "x"}, MP: map[string]*In{"n": nil, "z": {}}, ML: map[string][]int{"nil": nil, "e": {}, "one": {1}},
		MM: map[string]map[string]int{"nil": nil, "e": {}}, MS: map[string]*string{"e": &empty, "n": nil},
		MA: map[string]any{"nil": nil, "s": "", "m": map[string]any{}, "l": []any{}, "li": []int{}, "z": 0, "f": false},
		MB: map[string][]byte{"nil": nil, "e": {}}, I: map[string]any{"nil": nil, "s": "", "m": map[string]any{}, "l": []any{}, "li": []int{}, "ms": map[string]string{"e": ""}},
		L: []int{}},
		map[string]any{"nil": nil, "s": "", "m": map[string]any(nil), "l": []any(nil), "t": T{}, "in": In{}},
		map[string]string{"a": "", "b": "x"}, []map[string]string{{"a": ""}}, map[string]In{"z": {}}, []any{nil, "", map[string]any{"x": nil}},
		In{}, &In{}, []*In{nil, {}}, map[string]any{"f": false, "z": 0, "x": 1.5, "u": uint8(0), "e": map[string]any{"n": nil}},
		[]any{map[string]any{"f": false, "s": ""}, map[string]int{"z": 0}}}
	specs := []optSpec{{}, {UseTags: true, KeyExact: true}, {KeyExact: true, CreateKey: "^"}}
	for _, x := range vals {
		c := caseOf(x)
		if c == nil {
			continue
		}
		for _, s := range specs {
			cc := *c
			cc.spec = s
			emit(&cc)
		}
	}
}

func caseOf(x any) *c15Case {
	rt := reflect.TypeOf(x)
	d, ok := describe(rt)
	if !ok {
		return nil
	}
	p := reflect.New(rt)
	p.Elem().Set(reflect.ValueOf(x))
	return &c15Case{d: d, v: p.Elem()}
}

// ---- OmitNil alone: only nil values may go -----------------------------------------------------------

func nilish(n *lib.Node) bool {
	return n.Kind == 'n' || ((n.Kind == '[' || n.Kind == '{') && len(n.Kids) == 0)
}

// pruneNil takes out of every object the members that are null, [] or {} (hereditarily).
func pruneNil(n *lib.Node) *lib.Node {
	switch n.Kind {
	case '[':
		out := &lib.Node{Kind: '['}
		for _, k := range n.Kids {
			out.Kids = append(out.Kids, pruneNil(k))
		}
		return out
	case '{':
		out := &lib.Node{Kind: '{'}
		for i, k := range n.Kids {
			if p := pruneNil(k); !nilish(p) {
				out.Keys = append(out.Keys, n.Keys[i])
				out.Kids = append(out.Kids, p)
			}
		}
		return out
	}
	return n
}

// lessNilMembers: x is off less object members whose value is null, [] or {} (once its own such
// members are gone) — and, when emptyStr is set, less members whose value is "".
func lessNilMembers(x, off *lib.Node, emptyStr bool) bool {
	if x.Kind != off.Kind {
		return false
	}
	switch x.Kind {
	case '[':
		if len(x.Kids) != len(off.Kids) {
			return false
		}
		for i := range x.Kids {
			if !lessNilMembers(x.Kids[i], off.Kids[i], emptyStr) {
				return false
			}
		}
		return true
	case '{':
		have := map[string]*lib.Node{}
		for i, k := range x.Keys {
			have[k] = x.Kids[i]
		}
		n := 0
		for i, k := range off.Keys {
			if xv, ok := have[k]; ok {
				n++
				if !lessNilMembers(xv, off.Kids[i], emptyStr) {
					return false
				}
				continue
			}
			p := pruneNil(off.Kids[i])
			if !nilish(p) && !(emptyStr && p.Kind == 'S' && p.Text == "-") {
				return false
			}
		}
		return n == len(x.Keys)
	}
	return x.Text == off.Text
}

// omitNilOracle: the documentation of OmitNil ("skips the writing of nil values in an object"): under
// OmitNil WITHOUT OmitEmpty every encoder describes the tree it describes with both options off, less
// object members whose value is nil — null, or a nil/empty slice or map written [] / {} (hereditarily).
// A number, a string or a bool that disappears is a violation; an empty string dropped by a TIGHT
// oj/sen writer is the known finding C15-omitnil-tight-empty-string.
func omitNilOracle(c *c15Case, gotBy [4][]string, prettyBy [2]string) {
	if gotBy[0] == nil || gotBy[1] == nil {
		return
	}
	names := make([]string, 0, len(omitWriters)+1)
	off := append([]string{}, gotBy[0]...)
	on := append([]string{}, gotBy[1]...)
	for _, w := range omitWriters {
		names = append(names, w.enc)
	}
	names, off, on = append(names, "pretty.JSON"), append(off, prettyBy[0]), append(on, prettyBy[1])
	rep.Count("omit_nil_oracle.cases", 1)
	for i, name := range names {
		if off[i] == "" || on[i] == "" || off[i] == on[i] {
			continue
		}
		xn, e1 := lib.ParseCanon(on[i])
		fn, e2 := lib.ParseCanon(off[i])
		if e1 != nil || e2 != nil {
			continue // a failure or an unparsable SEN text: judged by the other streams
		}
		if lessNilMembers(xn, fn, false) {
			continue
		}
		s := c.spec
		s.OmitNil, s.OmitEmpty = true, false
		rp := c.replay()
		rp["options"] = s.word(false, false)
		rp["encoder"], rp["with_OmitNil"], rp["without"] = name, on[i], off[i]
		f := lib.Finding{Kind: "violation", Class: "omit:omitnil-drops-non-nil:" + name, Replay: rp,
			What: fmt.Sprintf("with OmitNil alone %s describes %s; without it %s: a member that is not nil is gone (or something else changed)", name, on[i], off[i])}
		tight := i < len(omitWriters) && !omitWriters[i].indent && (omitWriters[i].model == "oj" || omitWriters[i].model == "sen")
		if tight && lessNilMembers(xn, fn, true) && lib.HasKnown(knownList, omitTightID) {
			f.Kind, f.KnownID, f.Class = "known", omitTightID, "omit:tight-vs-indent:"+omitWriters[i].model+":"+omitTightID
		}
		rep.Add(f)
	}
}
