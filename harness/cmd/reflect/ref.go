package main

// The reflective reference encoder of the harness (mirrors `refEncode` of
// lean/OjgVerif/Reflect/Model.lean) and the tree utilities: canonical trees are lib.Node values with
// object members sorted by key and numbers in a normal form (see normNum).

import (
	"encoding/base64"
	"fmt"
	"math"
	"math/big"
	"reflect"
	"sort"
	"strconv"
	"strings"

	"github.com/ohler55/ojg"

	"verif/harness/lib"
)

func leaf(kind byte, text string) *lib.Node { return &lib.Node{Kind: kind, Text: text} }

func strNode(s string) *lib.Node { return leaf('S', lib.HexF([]byte(s))) }

func intNode(text string) *lib.Node { return leaf('I', text) }

// numFromText is the normal form of a number given by its decimal text: a plain integer literal is
// I(<text>); anything else is the float64 nearest to the text, written I(n) when that float is
// integral and below 2^63 in magnitude, F(<bits>) otherwise.
func numFromText(t string) *lib.Node {
	if lib.IsPlainInt(t) {
		if bi, ok := new(big.Int).SetString(t, 10); ok {
			return intNode(bi.String())
		}
	}
	f, _ := strconv.ParseFloat(t, 64)
	return numFromFloat(f)
}

func numFromFloat(f float64) *lib.Node {
	if f == math.Trunc(f) && math.Abs(f) < 9.2e18 {
		return intNode(strconv.FormatInt(int64(f), 10))
	}
	return leaf('F', fmt.Sprintf("%016x", math.Float64bits(f)))
}

func sortObj(n *lib.Node) {
	idx := make([]int, len(n.Keys))
	for i := range idx {
		idx[i] = i
	}
	dec := func(h string) string { b, _ := lib.UnhexF(h); return string(b) }
	sort.SliceStable(idx, func(a, b int) bool { return dec(n.Keys[idx[a]]) < dec(n.Keys[idx[b]]) })
	keys := make([]string, len(idx))
	kids := make([]*lib.Node, len(idx))
	for i, j := range idx {
		keys[i], kids[i] = n.Keys[j], n.Kids[j]
	}
	n.Keys, n.Kids = keys, kids
}

// normalize sorts members and puts numbers in normal form (model trees carry F(<hex of text>),
// implementation trees F(<bits>) or B(<hex of text>)).
func normalize(n *lib.Node, modelFloats bool) *lib.Node {
	switch n.Kind {
	case 'I':
		return n
	case 'F':
		if modelFloats {
			t, _ := lib.UnhexF(n.Text)
			return numFromText(string(t))
		}
		bits, _ := strconv.ParseUint(n.Text, 16, 64)
		return numFromFloat(math.Float64frombits(bits))
	case 'B':
		t, _ := lib.UnhexF(n.Text)
		return numFromText(string(t))
	case '[':
		out := &lib.Node{Kind: '['}
		for _, k := range n.Kids {
			out.Kids = append(out.Kids, normalize(k, modelFloats))
		}
		return out
	case '{':
		out := &lib.Node{Kind: '{', Keys: append([]string{}, n.Keys...)}
		for _, k := range n.Kids {
			out.Kids = append(out.Kids, normalize(k, modelFloats))
		}
		sortObj(out)
		return out
	}
	return n
}

// canonOf renders a parsed Go tree (what oj.Parse / sen.Parse return) in normal form.
func canonOf(v any) string {
	n, err := lib.ParseCanon(lib.Render(v))
	if err != nil {
		return "?" + err.Error()
	}
	return normalize(n, false).String()
}

// canonModel puts a driver answer in normal form ("panic" and other words pass through).
func canonModel(s string) string {
	n, err := lib.ParseCanon(s)
	if err != nil {
		return s
	}
	return normalize(n, true).String()
}

// ---- the reference ---------------------------------------------------------------------------

// lowerKey is the lower-case key style. Formalisation choice (the documentation only says that the
// first character is lower case): a name of at most 3 bytes is lower-cased entirely (ID -> id,
// URL -> url), a longer name only in its first byte (XValue -> xValue).
func lowerKey(name string) string {
	if len(name) > 3 {
		b := []byte(name)
		if b[0] < 0x80 {
			b[0] |= 0x20
		}
		return string(b)
	}
	return strings.ToLower(name)
}

type refEnc struct {
	o *ojg.Options
	// strict: oj.Marshal writes a nil []any reached as a plain value as null (documented Go
	// compatibility); the other entry points write [].
	strict bool
	// nilWord: the deviation C15-iface-nil-word (only used to classify that known finding): omitempty
	// on an interface field also drops a value whose interface data word is nil
	nilWord bool
	// embTags: what encoding/json does with a json tag on an EMBEDDED struct (only used to classify the
	// known finding C15-embedded-tag-ignored): a tag NAME makes it an ordinary member of that name,
	// "-" drops it; ojg flattens it whatever the tag says
	embTags bool
}

// embTagNamed: the embedded field carries a json tag with a name part (a name, or "-").
func embTagNamed(f reflect.StructField) bool {
	tag, _ := f.Tag.Lookup("json")
	return f.Anonymous && tag != "" && strings.Split(tag, ",")[0] != ""
}

func (e *refEnc) typeName(rt reflect.Type) string {
	if e.o.FullTypePath {
		return rt.PkgPath() + "/" + rt.Name()
	}
	return rt.Name()
}

func isEmptyValue(v reflect.Value) bool {
	switch v.Kind() {
	case reflect.Bool:
		return !v.Bool()
	case reflect.Int, reflect.Int8, reflect.Int16, reflect.Int32, reflect.Int64:
		return v.Int() == 0
	case reflect.Uint, reflect.Uint8, reflect.Uint16, reflect.Uint32, reflect.Uint64:
		return v.Uint() == 0
	case reflect.Float32, reflect.Float64:
		return v.Float() == 0
	case reflect.String, reflect.Slice, reflect.Map, reflect.Array:
		return v.Len() == 0
	case reflect.Ptr, reflect.Interface:
		return v.IsNil()
	}
	return false
}

func scalarText(v reflect.Value) (string, bool) {
	switch v.Kind() {
	case reflect.Bool:
		return strconv.FormatBool(v.Bool()), true
	case reflect.Int, reflect.Int8, reflect.Int16, reflect.Int32, reflect.Int64:
		return strconv.FormatInt(v.Int(), 10), true
	case reflect.Uint, reflect.Uint8, reflect.Uint16, reflect.Uint32, reflect.Uint64:
		return strconv.FormatUint(v.Uint(), 10), true
	case reflect.Float32:
		return strconv.FormatFloat(v.Float(), 'g', -1, 32), true
	case reflect.Float64:
		return strconv.FormatFloat(v.Float(), 'g', -1, 64), true
	}
	return "", false
}

func (e *refEnc) value(v reflect.Value, top bool) *lib.Node {
	switch v.Kind() {
	case reflect.Bool:
		if v.Bool() {
			return leaf('t', "")
		}
		return leaf('f', "")
	case reflect.Int, reflect.Int8, reflect.Int16, reflect.Int32, reflect.Int64,
		reflect.Uint, reflect.Uint8, reflect.Uint16, reflect.Uint32, reflect.Uint64:
		t, _ := scalarText(v)
		return intNode(t)
	case reflect.Float32, reflect.Float64:
		t, _ := scalarText(v)
		return numFromText(t)
	case reflect.String:
		return strNode(v.String())
	case reflect.Slice:
		if v.Type().Elem().Kind() == reflect.Uint8 {
			b := v.Bytes()
			switch e.o.BytesAs {
			case ojg.BytesAsBase64:
				return strNode(base64.StdEncoding.EncodeToString(b))
			case ojg.BytesAsArray:
				n := &lib.Node{Kind: '['}
				for _, x := range b {
					n.Kids = append(n.Kids, intNode(strconv.Itoa(int(x))))
				}
				return n
			}
			return strNode(string(b))
		}
		if e.strict && top && v.IsNil() && v.Type().Elem() == anyType {
			return leaf('n', "")
		}
		fallthrough
	case reflect.Array:
		n := &lib.Node{Kind: '['}
		for i := 0; i < v.Len(); i++ {
			n.Kids = append(n.Kids, e.value(v.Index(i), false))
		}
		return n
	case reflect.Map:
		n := &lib.Node{Kind: '{'}
		for _, k := range sortedKeys(v) {
			n.Keys = append(n.Keys, lib.HexF([]byte(k)))
			n.Kids = append(n.Kids, e.value(v.MapIndex(reflect.ValueOf(k)), false))
		}
		return n
	case reflect.Ptr:
		if v.IsNil() {
			return leaf('n', "")
		}
		return e.value(v.Elem(), false)
	case reflect.Interface:
		if v.IsNil() {
			return leaf('n', "")
		}
		// a value held by an interface is written like a top-level value of its dynamic type
		return e.value(v.Elem(), true)
	case reflect.Struct:
		n := &lib.Node{Kind: '{'}
		if e.o.CreateKey != "" {
			n.Keys = append(n.Keys, lib.HexF([]byte(e.o.CreateKey)))
			n.Kids = append(n.Kids, strNode(e.typeName(v.Type())))
		}
		e.fields(n, v)
		sortObj(n)
		return n
	}
	return leaf('n', "")
}

// fields appends the members the documentation prescribes for the fields of a struct value.
func (e *refEnc) fields(n *lib.Node, v reflect.Value) {
	rt := v.Type()
	for i := 0; i < rt.NumField(); i++ {
		f := rt.Field(i)
		if !exported(f.Name) {
			continue
		}
		fv := v.Field(i)
		if f.Anonymous && !e.o.NestEmbed && !(e.embTags && e.o.UseTags && embTagNamed(f)) {
			// embedded: its fields become members of the enclosing object; a nil embedded pointer
			// contributes nothing (as in encoding/json)
			if fv.Kind() == reflect.Ptr {
				if !fv.IsNil() {
					e.fields(n, fv.Elem())
				}
			} else {
				e.fields(n, fv)
			}
			continue
		}
		key := f.Name
		if !e.o.KeyExact {
			key = lowerKey(f.Name)
		}
		omit, asString := false, false
		if e.o.UseTags {
			if tag, _ := f.Tag.Lookup("json"); tag != "" {
				parts := strings.Split(tag, ",")
				switch {
				case parts[0] == "-" && len(parts) == 1:
					continue
				case parts[0] != "":
					key = parts[0]
				}
				for _, p := range parts[1:] {
					switch p {
					case "omitempty":
						omit = true
					case "string":
						asString = true
					}
				}
			}
		}
		if omit && (isEmptyValue(fv) || e.nilWord && fv.Kind() == reflect.Interface && wordNil(fv.Elem())) {
			continue
		}
		n.Keys = append(n.Keys, lib.HexF([]byte(key)))
		if t, ok := scalarText(fv); ok && asString {
			n.Kids = append(n.Kids, strNode(t))
		} else {
			n.Kids = append(n.Kids, e.value(fv, false))
		}
	}
}

// refTree is the canonical reference tree of a value.
func refTree(o *ojg.Options, v reflect.Value, strict bool) string {
	e := &refEnc{o: o, strict: strict}
	return e.value(v, true).String()
}

// laxEqual compares an ojg tree with an encoding/json tree: a JSON null matches an empty array,
// object or string (nil slices, maps and []byte may appear as empty ones).
func laxEqual(a, j *lib.Node) bool {
	if j.Kind == 'n' {
		switch a.Kind {
		case 'n':
			return true
		case '[', '{':
			return len(a.Kids) == 0
		case 'S':
			return a.Text == "-"
		}
		return false
	}
	if a.Kind != j.Kind || len(a.Kids) != len(j.Kids) {
		return false
	}
	switch a.Kind {
	case '[', '{':
		for i := range a.Kids {
			if a.Kind == '{' && a.Keys[i] != j.Keys[i] {
				return false
			}
			if !laxEqual(a.Kids[i], j.Kids[i]) {
				return false
			}
		}
		return true
	}
	if a.Kind == 'S' && a.Text != j.Text {
		// numbers written under the `string` tag option: the two libraries choose the exponent form
		// at different magnitudes; compare the numbers
		x, _ := lib.UnhexF(a.Text)
		y, _ := lib.UnhexF(j.Text)
		fx, e1 := strconv.ParseFloat(string(x), 64)
		fy, e2 := strconv.ParseFloat(string(y), 64)
		return e1 == nil && e2 == nil && fx == fy
	}
	return a.Text == j.Text
}
