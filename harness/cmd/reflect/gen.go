package main

// Generators: struct types built at run time with reflect.StructOf (unnamed: Name()=="" and
// PkgPath()==""), the named types of packages pa and pb, and random values of any described type.
//
// Fragment (what the Lean model covers; everything here stays inside it):
//   - field names are ASCII, start with a letter, and are pairwise different ignoring case within one
//     top-level type (so the three key styles never collide and no flattened key is duplicated);
//     tag names are t_<n>; "Type" is never a field name (the create keys are "^" and "type");
//   - embedded fields are unnamed structs or pointers to them; a third of them carries a json tag
//     (",inline", a name, ",omitempty", "-"), which oj, sen, alt and the recomposer all ignore;
//   - no pointer to pointer/[]byte/interface, no named non-struct types, no methods; no interface
//     holding a value whose data word is nil (typed nil pointer or map, one-field struct of such);
//   - strings and map keys come from pools that avoid the SEN bare-word cases owned by C10
//     (true/false/null, leading sign) and invalid UTF-8; floats are dyadic values whose shortest
//     32-bit and 64-bit texts coincide; uint/uint64 values stay below 2^63 except in the family
//     that probes exactly that.

import (
	"fmt"
	"math"
	"reflect"

	"verif/harness/lib"
	"verif/harness/cmd/reflect/pa"
	"verif/harness/cmd/reflect/pb"
)

var fieldNames = []string{"A", "B", "Cd", "Ef", "Id", "URL", "Abc", "Xyz", "Name", "Data", "Delta", "Alpha",
	"Count", "Value", "XValue", "Item", "Key", "Zed", "Flag", "Word", "Beta", "Gamma", "Omega", "Kappa",
	"Sigma", "Theta", "Lambda", "Size", "Mode", "Rank", "Node", "Part", "Unit", "Left", "Right", "Up",
	"Down", "Head", "Tail", "Body", "HTTPCode", "Q"}

var hiddenNames = []string{"hid", "low", "x", "secret", "aB"}

var stringPool = []string{"", "a", "xyz", "hello world", "q\"uote", "back\\slash", "é", "日本", "a\nb",
	"0", "12", "tab\there", "UPPER", "k:v", "[x]", "{y}", "sp ace", "comma,", "#hash", "~", "😀"}

var keyPool = []string{"k", "key", "", "a b", "Z", "é", "k2", "x.y", "0", "q\"", "long_key_name"}

var floatPool = []float64{0, 1, -1, 0.5, -2.25, 3.75, 1024.125, 1e6, 100, 0.125, 65536.5, 1e21, 7, 2.5, -0.75}

// float64Pool16: float64 values a float32 cannot hold (C16 only: the round trip of a float64 FIELD).
var float64Pool16 = []float64{16777217, -16777217, 0.1, 1.0 / 3, 3.4028234663852886e38, 3.4028235677973366e38, 1e39,
	4294967295.5, 123456789.12345678, 1.7976931348623157e308, 5e-324, -2.2250738585072014e-308}

type typeGen struct {
	r       *lib.Rng
	names   []string
	hidden  []string
	tagN    int
	dashKey bool
	embN    int
	opts    genOpts
}

type genOpts struct {
	noTags     bool // C16 streams that want plain types
	noEmbedPtr bool
	noIface    bool
	noUnexp    bool
	maxFields  int
}

func newTypeGen(r *lib.Rng, o genOpts) *typeGen {
	g := &typeGen{r: r, opts: o}
	g.names = append([]string{}, fieldNames...)
	for i := len(g.names) - 1; i > 0; i-- {
		j := r.Intn(i + 1)
		g.names[i], g.names[j] = g.names[j], g.names[i]
	}
	g.hidden = append([]string{}, hiddenNames...)
	if g.opts.maxFields == 0 {
		g.opts.maxFields = 6
	}
	return g
}

func (g *typeGen) nextName() (string, bool) {
	if len(g.names) == 0 {
		return "", false
	}
	n := g.names[0]
	g.names = g.names[1:]
	return n, true
}

func (g *typeGen) scalar() reflect.Type {
	switch g.r.Intn(6) {
	case 0:
		return boolType
	case 1, 2:
		return intTypes[g.r.Intn(len(intTypes))]
	case 3:
		if g.r.Bool() {
			return f32Type
		}
		return f64Type
	default:
		return stringType
	}
}

// anyT returns a random type of the fragment with nesting at most depth.
func (g *typeGen) anyT(depth int) reflect.Type {
	if depth <= 0 {
		return g.scalar()
	}
	switch n := g.r.Intn(100); {
	case n < 45:
		return g.scalar()
	case n < 52:
		return bytesType
	case n < 62:
		return reflect.SliceOf(g.anyT(depth - 1))
	case n < 66:
		return reflect.ArrayOf(g.r.Intn(3), g.anyT(depth-1))
	case n < 75:
		return reflect.MapOf(stringType, g.anyT(depth-1))
	case n < 85:
		return reflect.PtrTo(g.pointee(depth - 1))
	case n < 91:
		if g.opts.noIface {
			return g.scalar()
		}
		return anyType
	default:
		return g.structT(depth - 1)
	}
}

// pointee excludes pointer, []byte and interface targets.
func (g *typeGen) pointee(depth int) reflect.Type {
	for {
		t := g.anyT(depth)
		if t.Kind() == reflect.Ptr || t.Kind() == reflect.Interface || t == bytesType {
			continue
		}
		return t
	}
}

func (g *typeGen) tag(name string) reflect.StructTag {
	if g.opts.noTags || g.r.Intn(100) >= 40 {
		return ""
	}
	g.tagN++
	tn := fmt.Sprintf("t_%d", g.tagN)
	switch g.r.Intn(11) {
	case 0, 1:
		return reflect.StructTag(fmt.Sprintf(`json:"%s"`, tn))
	case 2, 3:
		return reflect.StructTag(fmt.Sprintf(`json:"%s,omitempty"`, tn))
	case 4:
		return `json:",omitempty"`
	case 5:
		return `json:"-"`
	case 6:
		if g.dashKey {
			return `json:"-"`
		}
		g.dashKey = true
		return `json:"-,"`
	case 7:
		return reflect.StructTag(fmt.Sprintf(`json:"%s,string"`, tn))
	case 8:
		return `json:",string"`
	case 9:
		return reflect.StructTag(fmt.Sprintf(`json:"%s,omitempty,string"`, tn))
	default:
		return reflect.StructTag(fmt.Sprintf(`xml:"%s"`, tn))
	}
}

// structT builds an unnamed struct type.
func (g *typeGen) structT(depth int) reflect.Type {
	n := 1 + g.r.Intn(g.opts.maxFields)
	if g.r.Intn(20) == 0 {
		n = 0
	}
	var fs []reflect.StructField
	for i := 0; i < n; i++ {
		switch k := g.r.Intn(100); {
		case k < 8 && !g.opts.noUnexp && len(g.hidden) > 0:
			name := g.hidden[0]
			g.hidden = g.hidden[1:]
			fs = append(fs, reflect.StructField{Name: name, PkgPath: "verif/hidden", Type: g.scalar()})
		case k < 20 && depth > 0:
			g.embN++
			name := fmt.Sprintf("Emb%d", g.embN)
			st := g.structT(depth - 1)
			if !g.opts.noEmbedPtr && g.r.Intn(3) == 0 {
				st = reflect.PtrTo(st)
			}
			sf := reflect.StructField{Name: name, Type: st, Anonymous: true}
			if !g.opts.noTags && g.r.Intn(3) == 0 {
				// an embedded field that carries a json tag: the encoders and the recomposer flatten it all
				// the same (encoding/json nests under a tag NAME and drops "-": C15-embedded-tag-ignored)
				g.tagN++
				sf.Tag = reflect.StructTag(lib.Pick(g.r, []string{`json:",inline"`, fmt.Sprintf(`json:"t_%d"`, g.tagN), `json:",omitempty"`,
					fmt.Sprintf(`json:"t_%d,omitempty"`, g.tagN), `json:"-"`}))
			}
			fs = append(fs, sf)
		default:
			name, ok := g.nextName()
			if !ok {
				continue
			}
			fs = append(fs, reflect.StructField{Name: name, Type: g.anyT(depth), Tag: g.tag(name)})
		}
	}
	return reflect.StructOf(fs)
}

// ---- named types -------------------------------------------------------------------------------

var namedTypes = []reflect.Type{
	reflect.TypeOf(pa.T{}), reflect.TypeOf(pb.T{}), reflect.TypeOf(pa.Leaf{}), reflect.TypeOf(pb.Other{}),
	reflect.TypeOf(pa.Outer{}), reflect.TypeOf(pb.Outer{}), reflect.TypeOf(pa.Tagged{}), reflect.TypeOf(pa.Emb{}),
}

// namedTypes16 are further named types only the C16 streams use (the C15 streams keep their pool):
// embedded structs and pointers in non-first position, every numeric width, and function-local
// types that share name AND package path (pa.Samples) or the bare name only (pb.Sample).
var namedTypes16 = append([]reflect.Type{
	reflect.TypeOf(pa.EmbMid{}), reflect.TypeOf(pa.EmbTag{}), reflect.TypeOf(pa.Widths{}), reflect.TypeOf(pa.WideIn{}),
	reflect.TypeOf(pa.TLeaf{}), pb.Sample(), reflect.TypeOf(pa.EmbTagged{}), reflect.TypeOf(pa.EmbTaggedP{}),
}, pa.Samples()...)

var allNamed16 = append(append([]reflect.Type{}, namedTypes...), namedTypes16...)

// c16Bounds: the ends of every integer width and their neighbours (within ±2^53, see intVal).
var c16Bounds = []int64{127, 128, 255, 256, 32767, 32768, 65535, 65536, 1<<31 - 1, 1 << 31, 1<<32 - 1, 1 << 32, 1 << 53,
	-128, -129, -32768, -32769, -(1 << 31), -(1 << 31) - 1, -(1 << 32), -(1 << 53)}

// ---- values ------------------------------------------------------------------------------------

type valGen struct {
	r        *lib.Rng
	bigUint  bool    // allow uint/uint64 values at and above 2^63
	noNil    bool    // no nil pointers/slices/maps/interfaces (for the encoding/json comparison this is off)
	ifaceDyn []reflect.Type // struct types an interface may hold (by value or pointer); nil: any small generated type
	c16      bool    // C16 value restrictions (see fill)
	depth    int
}

func (vg *valGen) intVal(k int) (int64, uint64) {
	bits := []int{64, 8, 16, 32, 64, 64, 8, 16, 32, 64}[k]
	if k < 5 {
		min := int64(-1) << (bits - 1)
		max := -(min + 1)
		if vg.c16 && bits == 64 {
			min, max = -(1 << 53), 1<<53
		}
		if vg.c16 && vg.r.Intn(3) == 0 {
			if b := lib.Pick(vg.r, c16Bounds); b >= min && b <= max {
				return b, 0
			}
		}
		switch vg.r.Intn(8) {
		case 0:
			return 0, 0
		case 1:
			return min, 0
		case 2:
			return max, 0
		case 3:
			return -1, 0
		case 4:
			return 1, 0
		default:
			return int64(vg.r.Next()%2001) - 1000, 0
		}
	}
	max := uint64(math.MaxUint64)
	if bits < 64 {
		max = uint64(1)<<bits - 1
	} else if vg.c16 {
		max = 1 << 53
	} else if !vg.bigUint {
		max = math.MaxInt64
	}
	if vg.c16 && vg.r.Intn(3) == 0 {
		if b := lib.Pick(vg.r, c16Bounds); b >= 0 && uint64(b) <= max {
			return 0, uint64(b)
		}
	}
	switch vg.r.Intn(6) {
	case 0:
		return 0, 0
	case 1:
		return 0, max
	case 2:
		return 0, 1
	default:
		return 0, vg.r.Next() % 1000
	}
}

// fill sets v (settable) to a random value of its type.
func (vg *valGen) fill(v reflect.Value, depth int) {
	r := vg.r
	switch v.Kind() {
	case reflect.Bool:
		v.SetBool(r.Bool())
	case reflect.Float32, reflect.Float64:
		f := lib.Pick(r, floatPool)
		if vg.c16 && v.Kind() == reflect.Float64 && r.Intn(3) == 0 {
			f = lib.Pick(r, float64Pool16)
		}
		if v.Kind() == reflect.Float32 && !float32Safe(f) {
			f = 0.5
		}
		v.SetFloat(f)
	case reflect.String:
		v.SetString(lib.Pick(r, stringPool))
	case reflect.Interface:
		if !vg.noNil && r.Intn(4) == 0 {
			return
		}
		d := vg.dynamic(depth)
		if wordNil(d) {
			// outside the model (known finding C15-iface-nil-word): see the family that probes it
			d = reflect.ValueOf(lib.Pick(r, stringPool))
		}
		v.Set(d)
	case reflect.Slice:
		if !vg.noNil && r.Intn(5) == 0 {
			return
		}
		if v.Type() == bytesType {
			n := r.Intn(5)
			b := make([]byte, n)
			for i := range b {
				b[i] = "abcXYZ 019_"[r.Intn(11)]
			}
			v.SetBytes(b)
			return
		}
		n := r.Intn(4)
		if depth <= 0 && n > 1 {
			n = 1
		}
		s := reflect.MakeSlice(v.Type(), n, n)
		for i := 0; i < n; i++ {
			vg.fill(s.Index(i), depth-1)
		}
		v.Set(s)
	case reflect.Array:
		for i := 0; i < v.Len(); i++ {
			vg.fill(v.Index(i), depth-1)
		}
	case reflect.Map:
		if !vg.noNil && r.Intn(5) == 0 {
			return
		}
		n := r.Intn(4)
		m := reflect.MakeMap(v.Type())
		for i := 0; i < n; i++ {
			e := reflect.New(v.Type().Elem()).Elem()
			vg.fill(e, depth-1)
			m.SetMapIndex(reflect.ValueOf(lib.Pick(r, keyPool)), e)
		}
		v.Set(m)
	case reflect.Ptr:
		if !vg.noNil && r.Intn(4) == 0 {
			return
		}
		p := reflect.New(v.Type().Elem())
		vg.fill(p.Elem(), depth-1)
		v.Set(p)
	case reflect.Struct:
		for i := 0; i < v.NumField(); i++ {
			f := v.Type().Field(i)
			if !exported(f.Name) {
				continue
			}
			if vg.c16 {
				if tag, _ := f.Tag.Lookup("json"); tag == "-" {
					continue // a field that is never written cannot come back
				}
			}
			vg.fill(v.Field(i), depth-1)
		}
	default:
		for k, ik := range intKinds {
			if v.Kind() == ik {
				i, u := vg.intVal(k)
				if k < 5 {
					v.SetInt(i)
				} else {
					v.SetUint(u)
				}
			}
		}
	}
}

// dynamic picks what an interface holds.
func (vg *valGen) dynamic(depth int) reflect.Value {
	r := vg.r
	if vg.c16 {
		// what Recompose gives back for untyped data: bool, int64, float64 (non-integral), string,
		// []any, map[string]any of those, and pointers to registered struct types
		switch n := r.Intn(10); {
		case n < 2:
			return reflect.ValueOf(r.Bool())
		case n < 4:
			return reflect.ValueOf(int64(r.Intn(2000) - 1000))
		case n < 5:
			return reflect.ValueOf(lib.Pick(r, []float64{0.5, -2.25, 3.75, 1024.125}))
		case n < 7:
			return reflect.ValueOf(lib.Pick(r, stringPool))
		case n < 8 && depth > 0:
			k := r.Intn(3)
			a := make([]any, k)
			for i := range a {
				a[i] = vg.dynamic(depth - 1).Interface()
			}
			return reflect.ValueOf(a)
		case n < 9 && depth > 0:
			m := map[string]any{}
			for i := r.Intn(3); i > 0; i-- {
				m[lib.Pick(r, keyPool)] = vg.dynamic(depth - 1).Interface()
			}
			return reflect.ValueOf(m)
		default:
			if len(vg.ifaceDyn) > 0 && depth > 0 {
				p := reflect.New(lib.Pick(r, vg.ifaceDyn))
				vg.fill(p.Elem(), depth-1)
				return p
			}
			return reflect.ValueOf(lib.Pick(r, stringPool))
		}
	}
	var t reflect.Type
	switch n := r.Intn(16); {
	case n < 1:
		t = boolType
	case n < 3:
		t = intTypes[r.Intn(len(intTypes))]
	case n < 4:
		t = f64Type
	case n < 6:
		t = stringType
	case n < 7:
		t = bytesType
	case n < 9:
		t = reflect.SliceOf(anyType)
	case n < 11:
		t = reflect.MapOf(stringType, anyType)
	case n < 12:
		t = reflect.SliceOf(intTypes[r.Intn(len(intTypes))])
	case n < 13:
		t = reflect.MapOf(stringType, stringType)
	default:
		if len(vg.ifaceDyn) > 0 {
			t = lib.Pick(r, vg.ifaceDyn)
		} else {
			g := newTypeGen(r.Fork(7), genOpts{maxFields: 3})
			t = g.structT(imax(depth-1, 0))
		}
		if r.Bool() {
			t = reflect.PtrTo(t)
		}
	}
	if depth <= 0 && (t.Kind() == reflect.Slice && t != bytesType || t.Kind() == reflect.Map) {
		t = stringType
	}
	v := reflect.New(t).Elem()
	sub := *vg
	sub.noNil = true // an interface holding a typed nil is not a nil interface; keep the fragment simple
	if t.Kind() == reflect.Ptr {
		p := reflect.New(t.Elem())
		sub.noNil = vg.noNil
		sub.fill(p.Elem(), depth-1)
		return p
	}
	sub.noNil = vg.noNil
	if t.Kind() == reflect.Slice || t.Kind() == reflect.Map {
		// non-nil container inside the interface
		if t == bytesType {
			v.SetBytes([]byte(lib.Pick(r, []string{"", "ab", "xyz!"})))
			return v
		}
		if t.Kind() == reflect.Slice {
			n := r.Intn(3)
			s := reflect.MakeSlice(t, n, n)
			for i := 0; i < n; i++ {
				sub.fill(s.Index(i), depth-1)
			}
			return s
		}
		m := reflect.MakeMap(t)
		for i := r.Intn(3); i > 0; i-- {
			e := reflect.New(t.Elem()).Elem()
			sub.fill(e, depth-1)
			m.SetMapIndex(reflect.ValueOf(lib.Pick(r, keyPool)), e)
		}
		return m
	}
	sub.fill(v, depth-1)
	return v
}

func imax(a, b int) int {
	if a > b {
		return a
	}
	return b
}

// newValue makes an addressable random value of the type.
func (vg *valGen) newValue(rt reflect.Type, depth int) reflect.Value {
	p := reflect.New(rt)
	vg.fill(p.Elem(), depth)
	return p.Elem()
}

// float32Safe: the value is a float32 and survives the 7-digit mantissa truncation that
// alt.Decompose applies to float32 values outside struct fields (see the float32 family).
func float32Safe(f float64) bool {
	if float64(float32(f)) != f {
		return false
	}
	m, e := math.Frexp(f)
	return math.Ldexp(float64(int64(m*1e7))/1e7, e) == f
}

// wordNil: an interface holding v stores it directly in its data word (pointer-shaped type) and that
// word is nil: a nil pointer or map, a struct with one such field, an array of one such element.
func wordNil(v reflect.Value) bool {
	switch v.Kind() {
	case reflect.Ptr, reflect.Map:
		return v.IsNil()
	case reflect.Struct:
		return v.NumField() == 1 && wordNil(v.Field(0))
	case reflect.Array:
		return v.Len() == 1 && wordNil(v.Index(0))
	}
	return false
}
