package main

import (
	"fmt"
	"strconv"
	"strings"

	"github.com/ohler55/ojg/jp"

	"verif/harness/lib"
)

const maxEnd = 2147483647

// Frag is one path fragment in a form both sides understand.
type Frag struct {
	Kind   byte   `json:"kind"` // c n w d u s f
	Key    string `json:"key,omitempty"`
	N      int    `json:"n,omitempty"`
	Mem    []any  `json:"mem,omitempty"`    // 'u': string or int64 members (JSON: strings and numbers)
	S      []int  `json:"s,omitempty"`      // 's': the Go Slice (0..3 ints)
	Script string `json:"script,omitempty"` // 'f': the name of a script of scriptText
	filt   *jp.Filter
}

// the filter scripts: name (the driver's `script`) and text (the library's). Only `@`-relative, total
// on the values the trees contain; the harness checks on every value of every case that Script.Match
// gives the truth value the driver's definition gives (C12 is about scripts).
var scriptText = map[string]string{
	"gt1":        "@ > 1",
	"eq2":        "@ == 2",
	"aeq1":       "@.a == 1",
	"agt1":       "@.a > 1",
	"i0eq1":      "@[0] == 1",
	"aeq1orbeq2": "@.a == 1 || @.b == 2",
	"lt3":        "@ < 3",
	// root-relative (the driver's `rscript`): `$` is the document the path is applied to
	"eqq":   "@ == $.q",
	"neqq":  "@ != $.q",
	"aeqq":  "@.a == $.q",
	"aneqq": "@.a != $.q",
	"qeqa":  "$.q == @.a",
}

// the scripts with a `$` operand; the paths that use them are applied to documents {"a": tree, "q": int}
var rootScriptNames = []string{"eqq", "neqq", "aeqq", "aneqq", "qeqa"}

func isRootScript(name string) bool {
	for _, n := range rootScriptNames {
		if n == name {
			return true
		}
	}
	return false
}

var scriptNames = []string{"gt1", "eq2", "aeq1", "agt1", "i0eq1", "aeq1orbeq2", "lt3"}

func fChild(k string) Frag { return Frag{Kind: 'c', Key: k} }
func fNth(i int) Frag      { return Frag{Kind: 'n', N: i} }
func fWild() Frag          { return Frag{Kind: 'w'} }
func fDescent() Frag       { return Frag{Kind: 'd'} }
func fUnion(m ...any) Frag { return Frag{Kind: 'u', Mem: m} }
func fSlice(s ...int) Frag { return Frag{Kind: 's', S: s} }
func fFilter(name string) Frag {
	return Frag{Kind: 'f', Script: name}
}

func (f *Frag) filter() *jp.Filter {
	if f.filt == nil {
		f.filt = jp.MustNewFilter("[?(" + scriptText[f.Script] + ")]")
	}
	return f.filt
}

// goFrag is the fragment of the library.
func (f *Frag) goFrag() jp.Frag {
	switch f.Kind {
	case 'c':
		return jp.Child(f.Key)
	case 'n':
		return jp.Nth(f.N)
	case 'w':
		return jp.Wildcard('*')
	case 'd':
		return jp.Descent('.')
	case 'u':
		u := make(jp.Union, len(f.Mem))
		copy(u, f.Mem)
		return u
	case 's':
		return jp.Slice(append([]int{}, f.S...))
	default:
		return f.filter()
	}
}

// Path is a list of fragments (without the leading `$`).
type Path []Frag

func (p Path) expr() jp.Expr {
	x := jp.Expr{jp.Root('$')}
	for i := range p {
		x = append(x, p[i].goFrag())
	}
	return x
}

func (p Path) String() string { return p.expr().String() }

func (p Path) has(kind byte) bool {
	for _, f := range p {
		if f.Kind == kind {
			return true
		}
	}
	return false
}

func optInt(s []int, i int) string {
	if i >= len(s) || (i == 1 && s[i] == maxEnd) {
		return "_"
	}
	return strconv.Itoa(s[i])
}

// wire is the path in the driver's format.
func (p Path) wire() string {
	if len(p) == 0 {
		return "-"
	}
	parts := make([]string, len(p))
	for i, f := range p {
		switch f.Kind {
		case 'c':
			parts[i] = "c:" + lib.HexF([]byte(f.Key))
		case 'n':
			parts[i] = "n:" + strconv.Itoa(f.N)
		case 'w':
			parts[i] = "w"
		case 'd':
			parts[i] = "d"
		case 'u':
			ms := make([]string, len(f.Mem))
			for j, m := range f.Mem {
				switch t := m.(type) {
				case string:
					ms[j] = "k" + lib.HexF([]byte(t))
				case int64:
					ms[j] = "i" + strconv.FormatInt(t, 10)
				}
			}
			parts[i] = "u:" + strings.Join(ms, ",")
		case 's':
			// an absent start is 0 and an absent step is 1 in every reading; an absent end is a short Slice or maxEnd
			st := "_"
			if len(f.S) > 0 {
				st = strconv.Itoa(f.S[0])
			}
			parts[i] = "s:" + st + ":" + optInt(f.S, 1) + ":" + optInt(f.S, 2)
		case 'f':
			parts[i] = "f:" + f.Script
		}
	}
	return strings.Join(parts, "/")
}

// normalise the members of a union after a JSON round trip (numbers come back as float64).
func (p Path) fixMembers() {
	for i := range p {
		for j, m := range p[i].Mem {
			if f, ok := m.(float64); ok {
				p[i].Mem[j] = int64(f)
			}
		}
	}
}

// ---- generators ------------------------------------------------------------------------------

type pathGen struct{ r *lib.Rng }

func (g *pathGen) smallInt() int {
	switch g.r.Intn(8) {
	case 0:
		return g.r.Intn(19) - 9
	default:
		return g.r.Intn(9) - 4
	}
}

func (g *pathGen) frag() Frag {
	switch g.r.Intn(14) {
	case 0, 1, 2:
		return fChild(lib.Pick(g.r, keyPool))
	case 3, 4:
		return fNth(g.smallInt())
	case 5, 6:
		return fWild()
	case 7:
		return fDescent()
	case 8, 9:
		n := 1 + g.r.Intn(3)
		var m []any
		for i := 0; i < n; i++ {
			if g.r.Bool() {
				m = append(m, lib.Pick(g.r, keyPool))
			} else {
				m = append(m, int64(g.smallInt()))
			}
		}
		return fUnion(m...)
	case 10, 11:
		n := g.r.Intn(4)
		var s []int
		for i := 0; i < n; i++ {
			if i == 1 && g.r.Intn(4) == 0 {
				s = append(s, maxEnd)
			} else {
				s = append(s, g.smallInt())
			}
		}
		return fSlice(s...)
	default:
		return fFilter(lib.Pick(g.r, scriptNames))
	}
}

func (g *pathGen) path(maxLen int) Path {
	n := 1 + g.r.Intn(maxLen)
	p := make(Path, n)
	for i := range p {
		p[i] = g.frag()
	}
	return p
}

// located draws a path that leads to an existing location of the tree (mostly through names and
// indexes, sometimes generalised to a wildcard, union, slice or filter step), optionally extended by
// one or two steps that do not exist yet (what Set creates).
func (g *pathGen) located(t *Node) Path {
	var p Path
	cur := t
	for cur.isContainer() && len(cur.Kids) > 0 && (len(p) == 0 || g.r.Intn(4) > 0) {
		i := g.r.Intn(len(cur.Kids))
		var f Frag
		if cur.Kind == 'a' {
			f = fNth(i)
			if g.r.Intn(3) == 0 {
				f = fNth(i - len(cur.Kids))
			}
		} else {
			f = fChild(cur.Keys[i])
		}
		switch g.r.Intn(10) {
		case 0:
			f = fWild()
		case 1:
			if cur.Kind == 'a' {
				f = fUnion(int64(i), int64(g.smallInt()))
			} else {
				f = fUnion(cur.Keys[i], lib.Pick(g.r, keyPool))
			}
		case 2:
			if cur.Kind == 'a' {
				f = fSlice(i, i+1+g.r.Intn(2))
			}
		case 3:
			if len(p) > 0 && g.r.Bool() {
				p = append(p, fDescent())
			}
		}
		p = append(p, f)
		cur = cur.Kids[i]
	}
	if g.r.Intn(3) == 0 {
		for k := 1 + g.r.Intn(2); k > 0; k-- {
			if g.r.Intn(3) == 0 {
				p = append(p, fNth(g.r.Intn(3)))
			} else {
				p = append(p, fChild(lib.Pick(g.r, []string{"a", "n", "m"})))
			}
		}
	}
	if len(p) == 0 {
		p = append(p, g.frag())
	}
	return p
}

// fragAlphabet is the set of fragments every position of the enumerated paths ranges over.
func fragAlphabet(full bool) []Frag {
	a := []Frag{
		fChild("a"), fChild("b"),
		fNth(0), fNth(1), fNth(-1), fNth(2),
		fWild(), fDescent(),
		fUnion("a", int64(0)), fUnion(int64(1), int64(0), "b"), fUnion(int64(-1), int64(5)),
		fSlice(), fSlice(1), fSlice(0, 2), fSlice(-1, 0, -1), fSlice(0, maxEnd, 2), fSlice(2, 1, 3), fSlice(1, -1),
		fFilter("gt1"), fFilter("aeq1"),
	}
	if full {
		a = append(a, fChild("x"), fNth(-2), fNth(3), fUnion("b", "a"), fUnion("a", "a"), fSlice(-2), fSlice(3, -4, -2), fSlice(0, 3, 0),
			fFilter("i0eq1"), fFilter("agt1"))
	}
	return a
}

func describe(p Path, t *Node) string { return fmt.Sprintf("%s on %s", p.String(), t.canon()) }
