// Correspondence and oracle harness for the path mutators (C13): Set/SetOne, Del/DelOne,
// Remove/RemoveOne, Modify/ModifyOne and their Must forms.
//
// A case is (mutator, path, data tree, new value or modifier). The tree is built fresh as simple data
// ([]any / map[string]any) and as gen nodes, the real mutator is called under recover, and the data
// afterwards (for Modify/Remove: the returned value) is rendered canonically. The Lean driver is asked
//
//   - for the SPECIFICATION's verdict on what the code did (`judge`): on success the result must be the
//     tree edited at exactly the locations the path selects (Spec.eval — the locations Get returns), with
//     the new values there, removed members gone and later siblings shifted by exactly the number removed
//     before them, plus what Set creates along a name/index chain; a One form must leave the tree as it
//     was or edited at one selected location; an error must leave everything outside the selected and
//     created locations untouched;                                                   -> violation
//   - for the MODEL's result (`set|del|mod|rem`): outcome, error class and tree must be equal -> disagreement
//
// Further violations: a panic that escapes a non-Must form; simple and gen data giving different
// outcomes or trees; a Must form that does not panic exactly when the plain form reports an error.
// Independent Go-side cross-checks of the specification side: Go Get on the pre-image returns the values
// at the specification's locations (else counted: C05's business), Go Get at every selected location of
// the result returns the new value, every location where pre- and post-image differ is at, above or
// below a location Go Locate reports (when Locate agrees with the specification) or a created member.
//
// No call can hang the check: a Set with a container value and a descent (the calls that can tie the value into itself,
// known finding C13-set-self-containing) is made in a child process with a time and memory limit; any other library
// call that does not return is reported by the watchdog as a violation of class `hang` with its replay, the report is
// written and the run ends (the call is abandoned, never skipped silently). Replays always go through the child.
//
// A violation is reported as a KNOWN finding only if the model reproduces the code and switching off
// exactly the named deviation flag(s) of the model gives a result the specification accepts.
package main

import (
	"encoding/json"
	"flag"
	"fmt"
	"os"
	"os/exec"
	"runtime"
	"sort"
	"strconv"
	"strings"
	"sync"
	"sync/atomic"
	"time"

	"github.com/ohler55/ojg/gen"
	"github.com/ohler55/ojg/jp"

	"verif/harness/lib"
)

var (
	prop    = flag.String("prop", "C13", "property id")
	tier    = flag.String("tier", "quick", "quick|thorough")
	seed    = flag.Uint64("seed", 1, "PRNG seed")
	driver  = flag.String("driver", "", "path of drv_jpmut")
	outPath = flag.String("out", "", "report path")
	replay  = flag.String("replay", "", "replay file")
	corpus  = flag.String("corpus", "", "corpus file: one JSON case per line")
	known   = flag.String("known", "", "known_findings.json")
	workers = flag.Int("workers", 16, "parallel workers")
	verbose = flag.Bool("v", false, "print every finding")
	child   = flag.Bool("child", false, "run the four calls of the case on stdin, print the outcomes (used for calls that may not return)")
	// the budget of a child (the parent sets them; the confirmation of a stall runs with ten times the seconds)
	childSecs = flag.Int("childsecs", childSeconds, "-child: give up after this many seconds")
	childMiB  = flag.Int("childmib", childHeapMiB, "-child: give up when the heap is larger than this many MiB")
)

var rep *lib.Report
var knownList []lib.Known

// Case is one call of a mutator.
type Case struct {
	Op   string `json:"op"` // set del mod rem
	One  bool   `json:"one"`
	P    Path   `json:"frags"`
	Data string `json:"data"`            // canonical text of the tree
	Val  string `json:"value,omitempty"` // set: canonical text of the new value
	Mod  string `json:"mod,omitempty"`   // mod: I U N W or C<canonical value>
	Src  string `json:"stream"`
	t    *Node
	val  *Node
	modC *Node
	// the specification's list of selected locations has a repeated entry
	repeated bool
}

func (c *Case) prepare() error {
	var err error
	if c.t, err = nodeOfText(c.Data); err != nil {
		return err
	}
	if c.Op == "set" {
		if c.val, err = nodeOfText(c.Val); err != nil {
			return err
		}
	}
	if c.Op == "mod" && strings.HasPrefix(c.Mod, "C") {
		if c.modC, err = nodeOfText(c.Mod[1:]); err != nil {
			return err
		}
	}
	c.P.fixMembers()
	return nil
}

func (c *Case) arg() string {
	switch c.Op {
	case "set":
		return c.Val
	case "mod":
		return c.Mod
	}
	return "-"
}

func (c *Case) name() string {
	n := map[string]string{"set": "Set", "del": "Del", "mod": "Modify", "rem": "Remove"}[c.Op]
	if c.One {
		n += "One"
	}
	return n
}

func (c *Case) key() string {
	return fmt.Sprintf("%s|%v|%s|%s|%s", c.Op, c.One, c.P.wire(), c.Data, c.arg())
}

func (c *Case) String() string {
	return fmt.Sprintf("%s %s on %s arg %s", c.name(), c.P.String(), c.Data, c.arg())
}

func b01(b bool) string {
	if b {
		return "1"
	}
	return "0"
}

// ---- the real code ---------------------------------------------------------------------------

// outcome of one call
type outcome struct {
	kind  string // ok err panic
	class string // error class
	msg   string
	after string // canonical text of the data afterwards
}

// wireOutcome is an outcome as the child process prints it
type wireOutcome struct {
	Kind, Class, Msg, After string
}

func (o outcome) wire() wireOutcome { return wireOutcome{o.kind, o.class, o.msg, o.after} }
func (o wireOutcome) outcome() outcome {
	return outcome{kind: o.Kind, class: o.Class, msg: o.Msg, after: o.After}
}

func (o outcome) String() string {
	switch o.kind {
	case "ok":
		return "ok " + o.after
	case "err":
		return "err " + o.class + " " + o.after
	}
	return "fault " + o.after
}

func errClass(msg string) string {
	switch {
	case strings.Contains(msg, "with an expression ending with a"):
		return "endsWith"
	case strings.Contains(msg, "can not follow out of bounds"):
		return "outOfBounds"
	case strings.Contains(msg, "can not follow a"):
		return "canNotFollow"
	case strings.Contains(msg, "deduce the length"):
		return "noLength"
	case strings.Contains(msg, "deduce what element"):
		return "noElement"
	case strings.Contains(msg, "can not modify with an expression where the last fragment is a Descent"):
		return "lastDescent"
	case strings.Contains(msg, "can not remove with an expression where the last fragment"):
		return "notRemovable"
	case strings.Contains(msg, "interface conversion") && strings.Contains(msg, "gen.Node"):
		return "notNode"
	}
	return "other(" + msg + ")"
}

// depth of a Go value, cut off at lim (a mutation can tie a container value into itself)
func depthOver(v any, lim int) bool {
	if lim < 0 {
		return true
	}
	switch t := v.(type) {
	case []any:
		for _, x := range t {
			if depthOver(x, lim-1) {
				return true
			}
		}
	case gen.Array:
		for _, x := range t {
			if depthOver(x, lim-1) {
				return true
			}
		}
	case map[string]any:
		for _, x := range t {
			if depthOver(x, lim-1) {
				return true
			}
		}
	case gen.Object:
		for _, x := range t {
			if depthOver(x, lim-1) {
				return true
			}
		}
	}
	return false
}

// renderSafe is lib.Render, except that a value nested deeper than any tree of the streams (a cycle) is
// written as the string "CYCLE"
func renderSafe(v any) string {
	if depthOver(v, 40) {
		return "S(" + lib.HexF([]byte("CYCLE")) + ")"
	}
	return lib.Render(v)
}

// modifier builds the modifier function of the case for simple or gen data.
func (c *Case) modifier(genData bool) func(any) (any, bool) {
	switch c.Mod[0] {
	case 'I':
		return func(v any) (any, bool) { return v, true }
	case 'U':
		return func(v any) (any, bool) { return v, false }
	case 'N':
		return func(v any) (any, bool) {
			switch t := v.(type) {
			case int64:
				return t + 1, true
			case gen.Int:
				return t + 1, true
			}
			return v, false
		}
	case 'W':
		if genData {
			return func(v any) (any, bool) {
				n, _ := v.(gen.Node)
				return gen.Array{n}, true
			}
		}
		return func(v any) (any, bool) { return []any{v}, true }
	default:
		if genData {
			return func(any) (any, bool) {
				if n := c.modC.genNode(); n != nil {
					return n, true
				}
				return nil, true
			}
		}
		return func(any) (any, bool) { return c.modC.simple(), true }
	}
}

// runImpl calls the mutator on a fresh copy of the data.
func runImpl(c *Case, genData, must bool) (o outcome) {
	var data any
	if genData {
		if n := c.t.genNode(); n != nil {
			data = n
		}
	} else {
		data = c.t.simple()
	}
	x := c.P.expr()
	var result any
	returned := false
	defer func() {
		if r := recover(); r != nil {
			o.kind = "panic"
			o.msg = fmt.Sprint(r)
			if must {
				// the Must forms panic by design: with the error (set family) or with a message
				if _, rt := r.(runtime.Error); !rt || c.Op == "mod" || c.Op == "rem" {
					o.kind = "err"
					o.class = errClass(o.msg)
				}
			}
			o.after = renderSafe(data)
		}
	}()
	var err error
	switch c.Op {
	case "set", "del":
		var value any
		if c.Op == "set" {
			if genData {
				if n := c.val.genNode(); n != nil {
					value = n
				}
			} else {
				value = c.val.simple()
			}
		}
		switch {
		case c.Op == "set" && !c.One && !must:
			err = x.Set(data, value)
		case c.Op == "set" && c.One && !must:
			err = x.SetOne(data, value)
		case c.Op == "set" && !c.One && must:
			x.MustSet(data, value)
		case c.Op == "set" && c.One && must:
			x.MustSetOne(data, value)
		case c.Op == "del" && !c.One && !must:
			err = x.Del(data)
		case c.Op == "del" && c.One && !must:
			err = x.DelOne(data)
		case c.Op == "del" && !c.One && must:
			x.MustDel(data)
		default:
			x.MustDelOne(data)
		}
		result = data
		returned = true
	case "mod":
		m := c.modifier(genData)
		switch {
		case !c.One && !must:
			result, err = x.Modify(data, m)
		case c.One && !must:
			result, err = x.ModifyOne(data, m)
		case !c.One && must:
			result = x.MustModify(data, m)
		default:
			result = x.MustModifyOne(data, m)
		}
		returned = err == nil
	default:
		switch {
		case !c.One && !must:
			result, err = x.Remove(data)
		case c.One && !must:
			result, err = x.RemoveOne(data)
		case !c.One && must:
			result = x.MustRemove(data)
		default:
			result = x.MustRemoveOne(data)
		}
		returned = err == nil
	}
	if err != nil {
		o.kind = "err"
		o.msg = err.Error()
		o.class = errClass(o.msg)
		o.after = renderSafe(data)
		return
	}
	o.kind = "ok"
	if returned {
		o.after = renderSafe(result)
	} else {
		o.after = renderSafe(data)
	}
	return
}

// ---- calls that may not return -----------------------------------------------------------------

// Set stores the new value by reference. Where the path visits what it has stored again (a location selected or
// created more than once — two descents, a union that lists a member twice — and a descent that walks into it: known
// finding C13-repeated-location) a container value can end up inside itself, and Set then walks it for ever
// (`$....*`, `$[0,-1]..b` with {"z":1}: known finding C13-set-self-containing). Every Set with a container value and a
// descent is therefore made in a child process; it is the known finding only if the specification's lists of selected
// or created locations have a repeated entry, else a violation of class hang.
const selfContainingID = "C13-set-self-containing"

// alwaysChild: every call goes through a child process (replay mode: a replayed call may be one that does not return)
var alwaysChild bool

var noChildHook = os.Getenv("VERIF_JPMUT_NOCHILD") != ""

func (c *Case) mayNotReturn() bool {
	if noChildHook {
		// test hook for the watchdog: make the call in-process (the run then ends early with a `hang` violation)
		return false
	}
	if c.Op != "set" || !(strings.HasPrefix(c.Val, "[") || strings.HasPrefix(c.Val, "{")) {
		return false
	}
	return c.P.has('d')
}

type childResult struct {
	Impl, Must [2]wireOutcome
}

const (
	childSeconds  = 4
	childHeapMiB  = 768
	stuckSeconds  = 10
	stuckHeapGiB  = 4
	childExitTime = 7
	childExitMem  = 8
	// a stall that is not of a recognised known shape is confirmed before it is reported: the call is made again,
	// alone in a child process, with ten times the seconds (time depends on the load of the machine; the heap a call
	// needs does not, its limit is raised moderately)
	confirmFactor  = 10
	confirmHeapMiB = 2048
)

// childMain: read one case from stdin, make the four calls, print the outcomes. A watcher ends the process when
// the calls take too long or the heap grows too large (a call that does not return keeps allocating).
func childMain() {
	go func() {
		start := time.Now()
		var ms runtime.MemStats
		for {
			time.Sleep(20 * time.Millisecond)
			if time.Since(start) > time.Duration(*childSecs)*time.Second {
				os.Exit(childExitTime)
			}
			runtime.ReadMemStats(&ms)
			if ms.HeapAlloc > uint64(*childMiB)<<20 {
				os.Exit(childExitMem)
			}
		}
	}()
	var c Case
	if err := json.NewDecoder(os.Stdin).Decode(&c); err != nil {
		fmt.Fprintln(os.Stderr, err)
		os.Exit(3)
	}
	if err := c.prepare(); err != nil {
		fmt.Fprintln(os.Stderr, err)
		os.Exit(3)
	}
	var r childResult
	for g := 0; g < 2; g++ {
		r.Impl[g] = runImpl(&c, g == 1, false).wire()
		r.Must[g] = runImpl(&c, g == 1, true).wire()
	}
	_ = json.NewEncoder(os.Stdout).Encode(r)
}

// callInChild makes the four calls of the case in a child process; how != "" says why no outcome came back.
func callInChild(c *Case) (impl, must [2]outcome, how string) {
	return callInChildWith(c, childSeconds, childHeapMiB)
}

// confirmStall: a call that stalled is made again, alone in a child process, with the larger budget. how != "": it
// stalled again (a hang); else the outcomes.
func confirmStall(c *Case, secs int) (impl, must [2]outcome, how string) {
	rep.Count("stall.confirmation_runs", 1)
	return callInChildWith(c, secs*confirmFactor, confirmHeapMiB)
}

func callInChildWith(c *Case, secs, mib int) (impl, must [2]outcome, how string) {
	exe, err := os.Executable()
	if err != nil {
		return impl, must, "no executable: " + err.Error()
	}
	js, _ := json.Marshal(c)
	cmd := exec.Command(exe, "-child", "-childsecs", strconv.Itoa(secs), "-childmib", strconv.Itoa(mib))
	cmd.Stdin = strings.NewReader(string(js))
	var out strings.Builder
	cmd.Stdout = &out
	done := make(chan error, 1)
	if err := cmd.Start(); err != nil {
		return impl, must, "child does not start: " + err.Error()
	}
	go func() { done <- cmd.Wait() }()
	select {
	case err = <-done:
	case <-time.After(time.Duration(secs+6) * time.Second):
		_ = cmd.Process.Kill()
		<-done
		return impl, must, "Set did not return (child process killed)"
	}
	if err != nil {
		if ee, ok := err.(*exec.ExitError); ok {
			switch ee.ExitCode() {
			case childExitTime:
				return impl, must, fmt.Sprintf("Set did not return within %d s", secs)
			case childExitMem:
				return impl, must, fmt.Sprintf("Set did not return before the heap reached %d MiB", mib)
			}
		}
		return impl, must, "child process failed: " + err.Error()
	}
	var r childResult
	if err := json.Unmarshal([]byte(out.String()), &r); err != nil {
		return impl, must, "child output unreadable: " + err.Error()
	}
	for g := 0; g < 2; g++ {
		impl[g], must[g] = r.Impl[g].outcome(), r.Must[g].outcome()
	}
	return impl, must, ""
}

// ---- one case ---------------------------------------------------------------------------------

type worker struct {
	d   *lib.Driver
	cur atomic.Value
	// the case whose Go calls are running right now (nil: none) and since when (unix nano): read by the watchdog
	inCall  atomic.Pointer[Case]
	inSince atomic.Int64
	// the start time of the call a confirmation run has found to return (the watchdog leaves it alone up to ten
	// times the budget)
	confirmed atomic.Int64
}

var noteMu sync.Mutex

func appendNote(notes []string, n string) []string {
	noteMu.Lock()
	defer noteMu.Unlock()
	if len(notes) > 40 {
		return notes
	}
	return append(notes, n)
}

func (w *worker) ask(reqs []string) ([]string, error) {
	ans, err := w.d.Ask(reqs)
	if err != nil {
		return nil, err
	}
	for i, a := range ans {
		if a == "bad-op" {
			return nil, fmt.Errorf("driver rejects %q", reqs[i])
		}
	}
	return ans, nil
}

func (c *Case) modelReq(genData bool, dev, dw string) string {
	return strings.Join([]string{c.Op, b01(genData), dev, b01(c.One), c.P.wire(), dw, c.arg()}, "\t")
}

// judgeReq asks for the specification's verdict on an outcome string ("ok T" / "err E T").
func (c *Case) judgeReq(out string) (string, bool) {
	f := strings.Fields(out)
	switch {
	case len(f) == 2 && f[0] == "ok":
		return strings.Join([]string{"judge", c.Op, b01(c.One), c.P.wire(), c.Data, c.arg(), "ok", f[1]}, "\t"), true
	case len(f) == 3 && f[0] == "err":
		return strings.Join([]string{"judge", c.Op, b01(c.One), c.P.wire(), c.Data, c.arg(), "err", f[2]}, "\t"), true
	}
	return "", false
}

func (c *Case) replayMap(extra map[string]any) map[string]any {
	js, _ := json.Marshal(c)
	r := map[string]any{"case": string(js), "call": c.String()}
	for k, v := range extra {
		r[k] = v
	}
	return r
}

func (c *Case) finding(kind, class, what string, extra map[string]any) {
	if *verbose {
		fmt.Fprintf(os.Stderr, "%s %s: %s | %s | %v\n", kind, class, c.String(), what, extra)
	}
	rep.Add(lib.Finding{Kind: kind, Class: class, What: what, Replay: c.replayMap(extra)})
}

// the deviation flags of the model (Dev in Model.lean) and the known finding each stands for
const allFlags = "iezsuonfrat"

var flagID = map[byte]string{
	'i': "C13-slice-inclusive",
	'e': "C13-remove-step-from-end",
	'z': "C13-set-inner-empty-slice",
	's': "C13-descent-siblings",
	'u': "C13-remove-union-from-end",
	'o': "C13-gen-union-out-of-range",
	'n': "C13-gen-modify-null",
	'f': "C13-filter-map-null",
	'r': "C13-modify-root-scalar",
	'a': "C13-delone-absent",
	't': "C13-filter-root-last",
}

// a path that selects (or, for Set, creates) the same location more than once (a union that lists a member
// twice, two descents, a descent before a wildcard and a name chain): the mutators work once per occurrence.
// Decided by: the specification's list of selected or of created locations has a repeated entry and the
// model reproduces the code.
const repeatedID = "C13-repeated-location"

// a filter below a recursive descent is evaluated on a node AFTER the nodes below it have been edited (the
// traversal is children first): a node whose filter value changes through the edit of its descendants is
// selected or deselected by the mutators, Get evaluates every filter on the tree as it was. Decided by: the
// path has a filter after a descent, the call is an all-matches form, the model reproduces the code, and the
// model with EVERY deviation off gives a tree that differs from the specification's only at proper ancestors
// of selected locations (Remove: at or beside such an ancestor, the elements behind a removed one shift).
const reevaluatedID = "C13-descent-filter-reevaluated"

func (c *Case) filterBelowDescent() bool {
	d := false
	for _, f := range c.P {
		if f.Kind == 'd' {
			d = true
		} else if f.Kind == 'f' && d {
			return true
		}
	}
	return false
}

func (w *worker) reevaluated(c *Case, genData bool, dw string, extra map[string]any) (bool, error) {
	if c.One || !c.filterBelowDescent() || extra == nil {
		return false, nil
	}
	exp, _ := extra["expected"].(string)
	sel, _ := extra["selected"].(string)
	e, err := nodeOfText(exp)
	if err != nil || sel == "" || sel == "none" {
		return false, nil
	}
	a, err := w.ask([]string{c.modelReq(genData, "-", dw)})
	if err != nil {
		return false, err
	}
	f := strings.Fields(a[0])
	if len(f) != 2 || f[0] != "ok" {
		return false, nil
	}
	x, err := nodeOfText(f[1])
	if err != nil {
		return false, nil
	}
	locs := parseLocs(sel)
	var diffs [][]step
	diffLocs(e, x, nil, &diffs)
	if len(diffs) == 0 {
		return false, nil
	}
	for _, d := range diffs {
		at := d
		if c.Op == "rem" && len(d) > 0 {
			at = d[:len(d)-1]
		}
		ok := false
		for _, p := range locs {
			if len(d) < len(p) && isPrefix(at, p) {
				ok = true
				break
			}
		}
		if !ok {
			return false, nil
		}
	}
	return true, nil
}

// curFlags is Dev.current of the model (asked from the driver at start), minus VERIF_FIXED=<letters> (to try the
// harness against a tree patched with a proposed fix).
var curFlags = allFlags

func initFlags() {
	d, err := lib.StartDriver(*driver)
	if err != nil {
		fmt.Fprintln(os.Stderr, "harness failure:", err)
		os.Exit(3)
	}
	defer d.Close()
	a, err := d.Ask1("current")
	if err != nil || a == "bad-op" {
		fmt.Fprintln(os.Stderr, "harness failure: the driver does not name its deviation flags:", a, err)
		os.Exit(3)
	}
	s := a
	if s == "-" {
		s = ""
	}
	for _, ch := range os.Getenv("VERIF_FIXED") {
		s = strings.ReplaceAll(s, string(ch), "")
	}
	if s == "" {
		s = "-"
	}
	curFlags = s
}

func minus(flags string, off string) string {
	for _, ch := range off {
		flags = strings.ReplaceAll(flags, string(ch), "")
	}
	if flags == "" || flags == "-" {
		return "-"
	}
	return flags
}

func (c *Case) known(id, clause, what string, extra map[string]any) {
	if !lib.HasKnown(knownList, id) {
		c.finding("violation", clause, what, extra)
		return
	}
	if extra == nil {
		extra = map[string]any{}
	}
	extra["clause"] = clause
	if *verbose {
		fmt.Fprintf(os.Stderr, "known %s %s: %s | %s\n", id, clause, c.String(), what)
	}
	rep.Add(lib.Finding{Kind: "known", Class: id + ":" + c.name(), What: what, Replay: c.replayMap(extra), KnownID: id})
}

// accepted: does the specification accept the model outcome `out` for the clause in question?
// clause "simple-gen": the gen model must give what the simple model gives (other is that result).
func (w *worker) accepted(c *Case, clause, out, other string) (bool, error) {
	if strings.HasPrefix(out, "fault") || out == "unmodelled" {
		return false, nil
	}
	if clause == "simple-gen" {
		return out == other, nil
	}
	q, ok := c.judgeReq(out)
	if !ok {
		return false, nil
	}
	a, err := w.ask([]string{q})
	if err != nil {
		return false, err
	}
	return a[0] == "ok", nil
}

// explain decides whether a violation (clause) seen on simple or gen data is a known deviation: the flags
// whose removal changes the model's answer are the candidates; switching off one of them — or, failing
// that, the candidates together with the flags that matter once those are off — must give an answer the
// specification accepts.
func (w *worker) explain(c *Case, clause string, genData bool, dw string) (string, string, error) {
	if curFlags == "-" {
		return "", "", nil
	}
	modelOf := func(dev string) (string, error) {
		a, err := w.ask([]string{c.modelReq(genData, dev, dw)})
		if err != nil {
			return "", err
		}
		return a[0], nil
	}
	acceptedAt := func(dev, out string) (bool, error) {
		other := ""
		if clause == "simple-gen" {
			a, err := w.ask([]string{c.modelReq(false, dev, dw)})
			if err != nil {
				return false, err
			}
			other = a[0]
		}
		return w.accepted(c, clause, out, other)
	}
	// the flags whose removal from `base` changes the model's answer, with those answers
	sensitive := func(base string) (string, map[byte]string, error) {
		var reqs []string
		reqs = append(reqs, c.modelReq(genData, base, dw))
		for i := 0; i < len(base); i++ {
			reqs = append(reqs, c.modelReq(genData, minus(base, string(base[i])), dw))
		}
		ans, err := w.ask(reqs)
		if err != nil {
			return "", nil, err
		}
		inv := ""
		outs := map[byte]string{}
		for i := 0; i < len(base); i++ {
			if ans[i+1] != ans[0] {
				inv += string(base[i])
				outs[base[i]] = ans[i+1]
			}
		}
		return inv, outs, nil
	}
	involved, outs, err := sensitive(curFlags)
	if err != nil {
		return "", "", err
	}
	// the general reading of slices (i) is tried last: with it off the other slice flags do not matter
	if strings.Contains(involved, "i") {
		involved = strings.ReplaceAll(involved, "i", "") + "i"
	}
	for i := 0; i < len(involved); i++ {
		f := involved[i]
		ok, err := acceptedAt(minus(curFlags, string(f)), outs[f])
		if err != nil {
			return "", "", err
		}
		if ok {
			return flagID[f], "flags=" + string(f), nil
		}
	}
	return w.explainSet(c, modelOf, acceptedAt)
}

// explainSet: with every deviation off the model must give an answer the specification accepts (that is
// what the theorems say); the set of flags that has to be off is then shrunk greedily (the general slice
// reading `i` is put back on first, so that it is named only where it is needed).
func (w *worker) explainSet(c *Case, modelOf func(string) (string, error), acceptedAt func(string, string) (bool, error)) (string, string, error) {
	try := func(off string) (bool, error) {
		base := minus(curFlags, off)
		out, err := modelOf(base)
		if err != nil {
			return false, err
		}
		return acceptedAt(base, out)
	}
	off := curFlags
	ok, err := try(off)
	if err != nil || !ok {
		return "", "", err
	}
	order := curFlags
	if strings.Contains(order, "i") {
		order = "i" + strings.ReplaceAll(order, "i", "")
	}
	for i := 0; i < len(order); i++ {
		smaller := strings.ReplaceAll(off, string(order[i]), "")
		if smaller == "" {
			continue
		}
		ok, err := try(smaller)
		if err != nil {
			return "", "", err
		}
		if ok {
			off = smaller
		}
	}
	return flagID[off[0]], "flags=" + off, nil
}

// problem: the code contradicts the property (clause) on simple or gen data
func (w *worker) problem(c *Case, clause, what string, genData, tied bool, dw string, extra map[string]any) error {
	rep.Count("clause."+clause, 1)
	if tied {
		id, flags, err := w.explain(c, clause, genData, dw)
		if err != nil {
			return err
		}
		// the two classes of the sequential traversal: what the defect predicts is the model's outcome (the model works
		// through the path once per occurrence and evaluates a filter when it reaches the node, as the code does) in
		// the member order `dw`; the implementation must have given exactly that, anything else is a violation
		if id == "" && clause != "panic" && clause != "simple-gen" && (c.repeated || c.filterBelowDescent()) {
			pred, err := w.ask([]string{c.modelReq(genData, curFlags, dw)})
			if err != nil {
				return err
			}
			implStr, _ := extra["impl"].(string)
			if extra != nil {
				extra["predicted"] = pred[0]
			}
			if pred[0] != implStr || strings.HasPrefix(pred[0], "fault") || pred[0] == "unmodelled" {
				rep.Count("sequential.prediction_differs", 1)
			} else if c.repeated {
				id, flags = repeatedID, "repeated-location"
			} else {
				ok, err := w.reevaluated(c, genData, dw, extra)
				if err != nil {
					return err
				}
				if ok {
					id, flags = reevaluatedID, "flags=all-off+filter-reevaluated"
				}
			}
		}
		if id != "" {
			if extra == nil {
				extra = map[string]any{}
			}
			extra["flags"] = flags
			extra["gen"] = genData
			c.known(id, clause, what, extra)
			return nil
		}
	}
	if extra == nil {
		extra = map[string]any{}
	}
	extra["gen"] = genData
	c.finding("violation", clause, what, extra)
	return nil
}

var scriptCache sync.Map

// checkScripts: the driver's definition of every filter script of the path and the library's Script.Match
// agree on every value of the trees.
func (w *worker) checkScripts(c *Case, trees ...*Node) error {
	for i := range c.P {
		f := &c.P[i]
		if f.Kind != 'f' {
			continue
		}
		for _, t := range trees {
			if t == nil {
				continue
			}
			for _, n := range t.all(nil) {
				cn := n.canon()
				key := f.Script + "|" + cn
				if _, done := scriptCache.Load(key); done {
					continue
				}
				scriptCache.Store(key, true)
				if isRootScript(f.Script) {
					scriptCache.Delete(key)
					if err := w.checkRootScript(c, f, n, cn); err != nil {
						return err
					}
					continue
				}
				a, err := w.ask([]string{"script\t" + f.Script + "\t" + cn})
				if err != nil {
					return err
				}
				for _, genData := range []bool{false, true} {
					var v any = n.simple()
					if genData {
						v = nil
						if g := n.genNode(); g != nil {
							v = g
						}
					}
					got := matchSafe(f.filter(), v)
					if fmt.Sprint(got) != a[0] {
						c.finding("disagreement", "script", fmt.Sprintf("script %s (%s) on %s (gen=%v): driver %s, Script.Match %v",
							f.Script, scriptText[f.Script], cn, genData, a[0], got), nil)
					}
				}
			}
		}
	}
	return nil
}

// rootQ is the integer member "q" of the document (what `$.q` in a root-relative script stands for).
func rootQ(t *Node) (int64, bool) {
	if t == nil || t.Kind != 'o' {
		return 0, false
	}
	for i, k := range t.Keys {
		if k == "q" && t.Kids[i].Kind == 'i' {
			return t.Kids[i].I, true
		}
	}
	return 0, false
}

// checkRootScript: a script with a `$` operand. The driver's definition (root, element) against the library,
// (1) with the document as `$`: Get of `$.v[?(script)]` on {"q": q, "v": [value]} (q the document's), and
// (2) with the element as `$` (what Script.Match does; deviation t).
func (w *worker) checkRootScript(c *Case, f *Frag, n *Node, cn string) error {
	q, ok := rootQ(c.t)
	if !ok {
		return fmt.Errorf("a root-relative script on a document without an integer member q: %s", c.String())
	}
	key := fmt.Sprintf("%s|%d|%s", f.Script, q, cn)
	if _, done := scriptCache.LoadOrStore(key, true); done {
		return nil
	}
	a, err := w.ask([]string{
		"rscript\t" + f.Script + "\t{K(71)I(" + strconv.FormatInt(q, 10) + ")}\t" + cn,
		"rscript\t" + f.Script + "\t" + cn + "\t" + cn})
	if err != nil {
		return err
	}
	x := jp.MustParseString("$.v[?(" + scriptText[f.Script] + ")]")
	for _, genData := range []bool{false, true} {
		var v any = n.simple()
		var doc any = map[string]any{"q": q, "v": []any{v}}
		if genData {
			g := n.genNode()
			v = nil
			if g != nil {
				v = g
			}
			doc = gen.Object{"q": gen.Int(q), "v": gen.Array{g}}
		}
		res, ok := getSafe(x, doc)
		if got := ok && len(res) == 1; fmt.Sprint(got) != a[0] {
			c.finding("disagreement", "script", fmt.Sprintf("script %s (%s) with $.q = %d on %s (gen=%v): driver %s, Get %v",
				f.Script, scriptText[f.Script], q, cn, genData, a[0], got), nil)
		}
		if got := matchSafe(f.filter(), v); fmt.Sprint(got) != a[1] {
			c.finding("disagreement", "script", fmt.Sprintf("script %s (%s) with the element as $ on %s (gen=%v): driver %s, Script.Match %v",
				f.Script, scriptText[f.Script], cn, genData, a[1], got), nil)
		}
	}
	return nil
}

func matchSafe(f *jp.Filter, v any) (ok bool) {
	defer func() {
		if r := recover(); r != nil {
			ok = false
		}
	}()
	return f.Match(v)
}

// iterates: the outcome may depend on the order in which Go walks a map
func (c *Case) orderMatters() bool {
	return len(c.t.wideObjects(nil)) > 0 && (c.P.has('w') || c.P.has('d') || c.P.has('f'))
}

// tie: the model (in the sorted member order, else in another order) gives what the code gave. The orders
// tried: the members that lead to a changed location first (a One form stops at its first hit, an error
// strikes after the edits made before it), then a seeded sample of orders.
func (w *worker) tie(c *Case, genData bool, impl outcome, first string) (bool, string, string, error) {
	want := impl.String()
	if first == want {
		return true, c.t.wire(nil), first, nil
	}
	if !c.orderMatters() {
		return false, c.t.wire(nil), first, nil
	}
	var ords []map[*Node][]int
	if after, err := nodeOfText(impl.after); err == nil {
		var diffs [][]step
		diffLocs(c.t, after, nil, &diffs)
		ords = append(ords, changedFirst(c.t, diffs))
	}
	r := lib.NewRng(*seed ^ hashString(c.key()))
	objs := c.t.wideObjects(nil)
	for i := 0; i < 160; i++ {
		m := map[*Node][]int{}
		for _, o := range objs {
			p := make([]int, len(o.Kids))
			for j := range p {
				p[j] = j
			}
			for j := len(p) - 1; j > 0; j-- {
				k := r.Intn(j + 1)
				p[j], p[k] = p[k], p[j]
			}
			m[o] = p
		}
		ords = append(ords, m)
	}
	unmodelled := false
	for s := 0; s < len(ords); s += 32 {
		e := s + 32
		if e > len(ords) {
			e = len(ords)
		}
		var reqs []string
		for _, o := range ords[s:e] {
			reqs = append(reqs, c.modelReq(genData, curFlags, c.t.wire(o)))
		}
		ans, err := w.ask(reqs)
		if err != nil {
			return false, "", "", err
		}
		for i, a := range ans {
			if a == want {
				rep.Count("tie.other_member_order", 1)
				return true, c.t.wire(ords[s+i]), a, nil
			}
			if a == "unmodelled" {
				unmodelled = true
			}
		}
	}
	if unmodelled {
		rep.Count("model.unmodelled_in_some_order", 1)
		return true, c.t.wire(nil), "unmodelled", nil
	}
	return false, c.t.wire(nil), first, nil
}

func hashString(s string) uint64 {
	h := uint64(1469598103934665603)
	for i := 0; i < len(s); i++ {
		h = (h ^ uint64(s[i])) * 1099511628211
	}
	return h
}

// changedFirst orders the members of every wide object: those on the way to a changed location first.
func changedFirst(t *Node, diffs [][]step) map[*Node][]int {
	m := map[*Node][]int{}
	var walk func(n *Node, at []step)
	walk = func(n *Node, at []step) {
		if n.Kind == 'o' && len(n.Kids) > 1 {
			var first, rest []int
			for i, k := range n.Keys {
				p := append(append([]step{}, at...), step{key: k, isK: true})
				hit := false
				for _, d := range diffs {
					if isPrefix(p, d) || isPrefix(d, p) {
						hit = true
					}
				}
				if hit {
					first = append(first, i)
				} else {
					rest = append(rest, i)
				}
			}
			m[n] = append(first, rest...)
		}
		for i, k := range n.Kids {
			if n.Kind == 'o' {
				walk(k, append(append([]step{}, at...), step{key: n.Keys[i], isK: true}))
			} else {
				walk(k, append(append([]step{}, at...), step{idx: i}))
			}
		}
	}
	walk(t, nil)
	return m
}

func (w *worker) run(c *Case) error {
	w.cur.Store(c.String())
	nontrivial := int64(0)
	if len(c.P) > 0 && c.t.isContainer() {
		nontrivial = 1
	}
	rep.AddEval(1, nontrivial)
	rep.Count("op."+c.name(), 1)
	dw := c.t.wire(nil)

	var impl, must [2]outcome
	if c.mayNotReturn() || alwaysChild {
		// run in a child process that gives up after a time and memory limit
		rep.Count("calls.in_child_process", 1)
		var how string
		impl, must, how = callInChild(c)
		cyc := "S(" + lib.HexF([]byte("CYCLE")) + ")"
		if how == "" {
			for g := 0; g < 2; g++ {
				if strings.Contains(impl[g].after, cyc) || strings.Contains(must[g].after, cyc) {
					how = "the data contains itself afterwards"
				}
			}
		}
		if how != "" {
			// the known finding needs a location that is selected or created more than once
			a, err := w.ask([]string{strings.Join([]string{"spec", c.Op, c.P.wire(), c.Data, c.arg()}, "\t")})
			if err != nil {
				return err
			}
			if sp := strings.Fields(a[0]); len(sp) == 3 {
				for _, list := range sp[:2] {
					seen := map[string]bool{}
					for _, l := range strings.Split(list, ";") {
						if seen[l] {
							c.repeated = true
						}
						seen[l] = true
					}
				}
			}
		}
		if how != "" && !(c.mayNotReturn() && c.repeated) && !strings.HasPrefix(how, "the data contains itself") {
			// not the recognised shape: confirm with ten times the time before calling it a hang
			first := how
			impl, must, how = confirmStall(c, childSeconds)
			if how == "" {
				rep.Count("stall.slow_not_a_hang", 1)
				rep.Notes = appendNote(rep.Notes, fmt.Sprintf("slow, not a hang: %s — first attempt: %s; returned within %d s when made again alone", c.String(), first, childSeconds*confirmFactor))
			} else {
				how = first + "; made again alone: " + how
			}
		}
		if how != "" && !(c.mayNotReturn() && c.repeated) {
			rep.Count("clause.hang", 1)
			c.finding("violation", "hang", c.name()+" does not return: "+how, map[string]any{"how": how})
			return nil
		}
		if how != "" {
			rep.Count("clause.self-containing", 1)
			c.known(selfContainingID, "self-containing", "Set with a container as the new value on a path that visits what it has stored: "+how, map[string]any{"how": how})
			return nil
		}
	} else {
		w.inSince.Store(time.Now().UnixNano())
		w.inCall.Store(c)
		impl = [2]outcome{runImpl(c, false, false), runImpl(c, true, false)}
		must = [2]outcome{runImpl(c, false, true), runImpl(c, true, true)}
		w.inCall.Store(nil)
	}

	reqs := []string{c.modelReq(false, curFlags, dw), c.modelReq(true, curFlags, dw),
		strings.Join([]string{"spec", c.Op, c.P.wire(), c.Data, c.arg()}, "\t")}
	var jidx [2]int
	for g := 0; g < 2; g++ {
		jidx[g] = -1
		if q, ok := c.judgeReq(impl[g].String()); ok {
			jidx[g] = len(reqs)
			reqs = append(reqs, q)
		}
	}
	ans, err := w.ask(reqs)
	if err != nil {
		return err
	}
	spec := strings.Fields(ans[2])
	if len(spec) != 3 {
		return fmt.Errorf("bad spec answer %q", ans[2])
	}
	for _, list := range spec[:2] {
		seen := map[string]bool{}
		for _, l := range strings.Split(list, ";") {
			if seen[l] {
				c.repeated = true
			}
			seen[l] = true
		}
	}
	var afterNodes []*Node
	for g := 0; g < 2; g++ {
		if n, err := nodeOfText(impl[g].after); err == nil {
			afterNodes = append(afterNodes, n)
		}
	}
	if c.P.has('f') {
		if err := w.checkScripts(c, append(afterNodes, c.t, c.val, c.modC)...); err != nil {
			return err
		}
	}
	rep.Count("outcome."+impl[0].kind, 1)
	if spec[0] != "none" {
		rep.Count("selected.some", 1)
	} else {
		rep.Count("selected.none", 1)
	}
	if spec[1] != "none" {
		rep.Count("creates.some", 1)
	}
	atomic.AddInt64(&sampleCounter, 1)
	if sampleCounter%40000 == 1 {
		rep.Sample(map[string]any{"call": c.String(), "impl": impl[0].String(), "impl_gen": impl[1].String(), "model": ans[0], "spec": ans[2]})
	}

	var tied, unmod [2]bool
	var tdw [2]string
	for g := 0; g < 2; g++ {
		genData := g == 1
		if ans[g] == "unmodelled" {
			rep.Count("model.unmodelled", 1)
			tied[g], tdw[g], unmod[g] = true, dw, true
			continue
		}
		ok, odw, how, err := w.tie(c, genData, impl[g], ans[g])
		if err != nil {
			return err
		}
		tied[g], tdw[g], unmod[g] = ok, odw, how == "unmodelled"
		if !ok {
			c.finding("disagreement", "model:"+c.name(), "the model and the code differ",
				map[string]any{"gen": genData, "impl": impl[g].String(), "impl_msg": impl[g].msg, "model": ans[g]})
		}
	}

	for g := 0; g < 2; g++ {
		genData := g == 1
		extra := map[string]any{"impl": impl[g].String(), "expected": spec[2], "selected": spec[0], "created": spec[1]}
		if impl[g].kind == "panic" {
			if err := w.problem(c, "panic", "a panic escapes "+c.name()+": "+impl[g].msg, genData, tied[g], tdw[g], extra); err != nil {
				return err
			}
			continue
		}
		if jidx[g] >= 0 && ans[jidx[g]] != "ok" {
			clause := strings.TrimPrefix(ans[jidx[g]], "viol ")
			if err := w.problem(c, clause, "the result contradicts the specification ("+clause+")", genData, tied[g], tdw[g], extra); err != nil {
				return err
			}
		}
		// the Must form panics exactly when the plain form reports an error (or panics), same data afterwards
		if (must[g].kind != "ok") != (impl[g].kind != "ok") || must[g].after != impl[g].after {
			if !(c.orderMatters() && (unmod[g] || c.One || impl[g].kind != "ok" || must[g].kind != "ok" || c.P.has('d'))) {
				c.finding("violation", "must-form", "the Must form and the plain form differ",
					map[string]any{"gen": genData, "plain": impl[g].String(), "must": must[g].String(), "must_msg": must[g].msg})
			}
		}
	}
	// simple and gen data behave the same
	if impl[0].String() != impl[1].String() {
		if c.orderMatters() && (c.One || impl[0].kind != "ok" || impl[1].kind != "ok" || c.P.has('d')) {
			// two runs over a Go map may differ by themselves (One forms, where an error strikes, descentSiblings)
			rep.Count("simple_gen.order_dependent_skipped", 1)
		} else {
			extra := map[string]any{"simple": impl[0].String(), "gen": impl[1].String(), "gen_msg": impl[1].msg}
			if err := w.problem(c, "simple-gen", "simple and gen data give different results", true, tied[0] && tied[1], tdw[1], extra); err != nil {
				return err
			}
		}
	}
	// Go-side cross-checks of the specification side (simple data)
	if impl[0].kind == "ok" && jidx[0] >= 0 && ans[jidx[0]] == "ok" && len(afterNodes) > 0 {
		crossCheck(c, spec, afterNodes[0])
	}
	return nil
}

var sampleCounter int64

// ---- Go-side cross-checks ----------------------------------------------------------------------

type step struct {
	key string
	idx int
	isK bool
}

func parseLocs(s string) [][]step {
	if s == "none" {
		return nil
	}
	var out [][]step
	for _, ps := range strings.Split(s, ";") {
		var p []step
		if ps != "-" {
			for _, st := range strings.Split(ps, ".") {
				if st[0] == 'k' {
					b, _ := lib.UnhexF(st[1:])
					p = append(p, step{key: string(b), isK: true})
				} else {
					var i int
					fmt.Sscanf(st[1:], "%d", &i)
					p = append(p, step{idx: i})
				}
			}
		}
		out = append(out, p)
	}
	return out
}

func locExpr(p []step) jp.Expr {
	x := jp.Expr{jp.Root('$')}
	for _, s := range p {
		if s.isK {
			x = append(x, jp.Child(s.key))
		} else {
			x = append(x, jp.Nth(s.idx))
		}
	}
	return x
}

func locString(p []step) string { return locExpr(p).String() }

func nodeAt(n *Node, p []step) *Node {
	for _, s := range p {
		if n == nil {
			return nil
		}
		if s.isK {
			if n.Kind != 'o' {
				return nil
			}
			var next *Node
			for i, k := range n.Keys {
				if k == s.key {
					next = n.Kids[i]
				}
			}
			n = next
		} else {
			if n.Kind != 'a' || s.idx >= len(n.Kids) {
				return nil
			}
			n = n.Kids[s.idx]
		}
	}
	return n
}

func isPrefix(a, b []step) bool {
	if len(a) > len(b) {
		return false
	}
	for i := range a {
		if a[i] != b[i] {
			return false
		}
	}
	return true
}

// diffLocs lists the outermost locations at which two trees differ.
func diffLocs(a, b *Node, at []step, out *[][]step) {
	cp := func() []step { return append([]step{}, at...) }
	if a == nil || b == nil || a.Kind != b.Kind {
		*out = append(*out, cp())
		return
	}
	switch a.Kind {
	case 'a':
		n := len(a.Kids)
		if len(b.Kids) > n {
			n = len(b.Kids)
		}
		for i := 0; i < n; i++ {
			var x, y *Node
			if i < len(a.Kids) {
				x = a.Kids[i]
			}
			if i < len(b.Kids) {
				y = b.Kids[i]
			}
			diffLocs(x, y, append(at, step{idx: i}), out)
		}
	case 'o':
		keys := map[string]bool{}
		for _, k := range a.Keys {
			keys[k] = true
		}
		for _, k := range b.Keys {
			keys[k] = true
		}
		ks := make([]string, 0, len(keys))
		for k := range keys {
			ks = append(ks, k)
		}
		sort.Strings(ks)
		for _, k := range ks {
			s := []step{{key: k, isK: true}}
			diffLocs(nodeAt(a, s), nodeAt(b, s), append(at, s[0]), out)
		}
	default:
		if a.canon() != b.canon() {
			*out = append(*out, cp())
		}
	}
}

func getSafe(x jp.Expr, data any) (res []any, ok bool) {
	defer func() {
		if r := recover(); r != nil {
			ok = false
		}
	}()
	return x.Get(data), true
}

func locateSafe(x jp.Expr, data any) (res []jp.Expr, ok bool) {
	defer func() {
		if r := recover(); r != nil {
			ok = false
		}
	}()
	return x.Locate(data, 0), true
}

func crossCheck(c *Case, spec []string, after *Node) {
	locs := parseLocs(spec[0])
	created := parseLocs(spec[1])
	x := c.P.expr()
	// (1) Go Get on the pre-image returns the values at the specification's locations
	var want []string
	for _, p := range locs {
		if n := nodeAt(c.t, p); n != nil {
			want = append(want, n.canon())
		}
	}
	sort.Strings(want)
	got, ok := getSafe(x, c.t.simple())
	var gs []string
	for _, v := range got {
		gs = append(gs, lib.Render(v))
	}
	sort.Strings(gs)
	if !ok || strings.Join(gs, ";") != strings.Join(want, ";") {
		rep.Count("crosscheck.go_get_differs_from_spec(C05)", 1)
		return
	}
	rep.Count("crosscheck.go_get_agrees", 1)
	if c.One {
		return
	}
	// (2) Get at each outermost selected location of the result returns the new value
	if c.Op == "set" {
		for _, p := range locs {
			outerMost := true
			for _, q := range locs {
				if len(q) < len(p) && isPrefix(q, p) {
					outerMost = false
				}
			}
			if !outerMost {
				continue
			}
			r, ok := getSafe(locExpr(p), after.simple())
			if !ok || len(r) != 1 || lib.Render(r[0]) != c.Val {
				c.finding("violation", "hit-go", "Get at a selected location of the result does not return the new value",
					map[string]any{"location": locString(p), "get": fmt.Sprint(r)})
			}
		}
	}
	// (3) the locations where the trees differ are at, above or below a location Locate reports or a created member
	if c.Op == "rem" {
		return
	}
	ls, ok := locateSafe(x, c.t.simple())
	if !ok {
		rep.Count("crosscheck.locate_panics(C11)", 1)
		return
	}
	var a, b []string
	for _, l := range ls {
		a = append(a, l.String())
	}
	for _, p := range locs {
		b = append(b, locString(p))
	}
	sort.Strings(a)
	sort.Strings(b)
	if strings.Join(a, ";") != strings.Join(b, ";") {
		rep.Count("crosscheck.go_locate_differs_from_spec(C11)", 1)
		return
	}
	var diffs [][]step
	diffLocs(c.t, after, nil, &diffs)
	for _, d := range diffs {
		touched := false
		for _, p := range append(locs, created...) {
			if isPrefix(p, d) || isPrefix(d, p) {
				touched = true
			}
		}
		if !touched {
			c.finding("violation", "frame-go", "a location outside the selected and created ones changed",
				map[string]any{"location": locString(d)})
		}
	}
	rep.Count("crosscheck.frame_go", 1)
}

// ---- case streams -------------------------------------------------------------------------------

var valuePool = []string{"I(9)", "n", "{K(7a)I(1)}", "[I(7)]", "S(76)"}
var modPool = []string{"I", "U", "N", "W", "CI(9)", "Cn", "C[I(7)]"}

func produce(emit func(Case)) {
	seen := map[string]bool{}
	add := func(c Case, src string) {
		c.Src = src
		if c.t != nil && c.Data == "" {
			c.Data = c.t.canon()
		}
		k := c.key()
		if seen[k] {
			rep.Count("stream.duplicates_skipped", 1)
			return
		}
		seen[k] = true
		if err := c.prepare(); err != nil {
			fmt.Fprintln(os.Stderr, "bad case:", err)
			os.Exit(3)
		}
		rep.Count("stream."+src, 1)
		emit(c)
	}
	// every mutator on (path, tree): Set, Del, Modify (two modifiers), Remove, each with its One form
	ops := func(p Path, t *Node, src string, val, mod1, mod2 string) {
		for _, one := range []bool{false, true} {
			add(Case{Op: "set", One: one, P: p, t: t, Val: val}, src)
			add(Case{Op: "del", One: one, P: p, t: t}, src)
			add(Case{Op: "mod", One: one, P: p, t: t, Mod: mod1}, src)
			if mod2 != "" {
				add(Case{Op: "mod", One: one, P: p, t: t, Mod: mod2}, src)
			}
			add(Case{Op: "rem", One: one, P: p, t: t}, src)
		}
	}
	thorough := *tier == "thorough"

	// (0) corpus
	if *corpus != "" {
		if data, err := os.ReadFile(*corpus); err == nil {
			for _, line := range strings.Split(string(data), "\n") {
				line = strings.TrimSpace(line)
				if line == "" || line[0] == '#' {
					continue
				}
				var c Case
				if err := json.Unmarshal([]byte(line), &c); err != nil {
					fmt.Fprintln(os.Stderr, "bad corpus line:", err)
					os.Exit(3)
				}
				add(c, "corpus")
			}
		}
	}

	// (1) boundary families named by the property: creation along name/index chains, the root, scalars
	{
		trees := []*Node{nObj(), nObj("a", nObj()), nObj("a", nInt(1)), nObj("a", nArr()), nObj("a", nArr(nInt(1), nInt(2))),
			nArr(nObj(), nObj("a", nObj("b", nInt(1))), nInt(3)), nObj("x", nObj(), "y", nArr(nObj())), nArr(), nInt(5), nNull(),
			nObj("a", nNull()), nArr(nNull(), nArr(nNull()))}
		paths := []Path{
			{}, {fChild("a")}, {fChild("a"), fChild("b")}, {fChild("a"), fChild("b"), fChild("c")}, {fChild("a"), fNth(2)}, {fChild("a"), fNth(0)},
			{fChild("a"), fNth(-1)}, {fChild("a"), fNth(1), fChild("b")}, {fChild("a"), fWild()}, {fChild("a"), fChild("b"), fWild()},
			{fChild("a"), fDescent(), fChild("b")}, {fChild("a"), fUnion("x", "y")}, {fChild("a"), fChild("b"), fNth(1)},
			{fWild(), fChild("n"), fChild("m")}, {fDescent(), fChild("n"), fChild("m")}, {fDescent(), fChild("n")}, {fUnion("n", "a")},
			{fUnion("n", "m"), fChild("k")}, {fNth(0), fChild("n"), fNth(1)}, {fWild(), fChild("a"), fChild("b")}, {fNth(5)}, {fNth(-1)},
			{fDescent()}, {fChild("a"), fDescent()}, {fSlice(0, 1)}, {fFilter("gt1")}, {fChild("a"), fSlice(0, 1), fChild("b")},
			{fChild("a"), fChild("b"), fSlice(1, 2), fChild("c")},
		}
		for _, t := range trees {
			for _, p := range paths {
				for _, v := range []string{"I(9)", "n", "{K(7a)I(1)}"} {
					ops(p, t, "boundary", v, "CI(9)", "Cn")
				}
				ops(p, t, "boundary", "[I(7)]", "N", "W")
			}
		}
	}

	// (2) exhaustive slice box x the four mutators, slice in inner and in last position
	{
		lo, hi, maxLen := -4, 4, 4
		if thorough {
			lo, hi, maxLen = -6, 6, 5
		}
		var slices [][]int
		for s := lo; s <= hi; s++ {
			slices = append(slices, []int{s})
			for e := lo; e <= hi+1; e++ {
				ev := e
				if e == hi+1 {
					ev = maxEnd
				}
				slices = append(slices, []int{s, ev})
				for st := lo; st <= hi; st++ {
					slices = append(slices, []int{s, ev, st})
				}
			}
		}
		slices = append(slices, []int{})
		n := 0
		for _, sl := range slices {
			for ln := 0; ln <= maxLen; ln++ {
				ints := &Node{Kind: 'a'}
				objs := &Node{Kind: 'a'}
				for i := 0; i < ln; i++ {
					ints.Kids = append(ints.Kids, nInt(int64(i)))
					objs.Kids = append(objs.Kids, nObj("a", nInt(int64(i)), "b", nInt(0)))
				}
				last := Path{fSlice(sl...)}
				inner := Path{fSlice(sl...), fChild("a")}
				for _, one := range []bool{false, true} {
					add(Case{Op: "mod", One: one, P: last, t: ints, Mod: "N"}, "slice_box")
					add(Case{Op: "rem", One: one, P: last, t: ints}, "slice_box")
					add(Case{Op: "set", One: one, P: inner, t: objs, Val: "I(9)"}, "slice_box")
					add(Case{Op: "del", One: one, P: inner, t: objs}, "slice_box")
					add(Case{Op: "mod", One: one, P: inner, t: objs, Mod: "N"}, "slice_box")
					add(Case{Op: "rem", One: one, P: inner, t: objs}, "slice_box")
					n += 6
				}
			}
		}
		rep.Exhaustive = append(rep.Exhaustive, fmt.Sprintf(
			"slice fragments with start in [%d,%d], end in [%d,%d] or absent (short Slice and maxEnd), step in [%d,%d] or absent x array length 0..%d x "+
				"{Modify, Remove in last position; Set, Del, Modify, Remove in inner position} x {all, One} x {simple, gen}: %d calls",
			lo, hi, lo, hi, lo, hi, maxLen, n))
	}

	// (3) every fragment of an alphabet in every position of short paths over small trees
	{
		alpha := fragAlphabet(thorough)
		trees := smallTrees()
		maxLen := 2
		var rec func(p Path)
		cnt := 0
		rec = func(p Path) {
			if len(p) > 0 {
				for _, t := range trees {
					ops(p, t, "enumerated", "I(9)", "N", "Cn")
				}
				cnt++
			}
			if len(p) == maxLen {
				return
			}
			for _, f := range alpha {
				rec(append(append(Path{}, p...), f))
			}
		}
		rec(Path{})
		rep.Exhaustive = append(rep.Exhaustive, fmt.Sprintf(
			"all %d paths of length <= %d over an alphabet of %d fragments (every kind) x %d small trees x {Set, Del, Modify(increment), Modify(null), Remove} x {all, One}",
			cnt, maxLen, len(alpha), len(trees)))
		// length 3: every fragment in every position, the other positions drawn from the alphabet at random
		r := lib.NewRng(*seed).Fork(3)
		n3 := 6000
		if thorough {
			n3 = 60000
		}
		for i := 0; i < n3; i++ {
			p := Path{alpha[i%len(alpha)], lib.Pick(r, alpha), lib.Pick(r, alpha)}
			j := (i / len(alpha)) % 3
			p[0], p[j] = p[j], p[0]
			t := trees[r.Intn(len(trees))]
			ops(p, t, "enumerated3", "I(9)", "N", "")
		}
	}

	// (4) seeded random paths x random trees x values / modifiers
	{
		r := lib.NewRng(*seed).Fork(4)
		tg := &treeGen{r: r}
		pg := &pathGen{r: r}
		n := 25000
		if thorough {
			n = 400000
		}
		for i := 0; i < n; i++ {
			t := tg.container(1+r.Intn(4), 1+r.Intn(4))
			var p Path
			if r.Intn(3) > 0 {
				p = pg.located(t)
			} else {
				p = pg.path(4)
			}
			one := r.Intn(3) == 0
			switch r.Intn(6) {
			case 0, 1:
				add(Case{Op: "set", One: one, P: p, t: t, Val: lib.Pick(r, valuePool)}, "random")
			case 2:
				add(Case{Op: "del", One: one, P: p, t: t}, "random")
			case 3:
				add(Case{Op: "mod", One: one, P: p, t: t, Mod: lib.Pick(r, modPool)}, "random")
			default:
				add(Case{Op: "rem", One: one, P: p, t: t}, "random")
			}
		}
	}

	// (5) filters with a root-relative operand (`$.q`): the document is {"a": tree, "q": int}, the path starts with the
	// name a (so that `$.q` is not among the locations the call may change), the filter stands in last and in inner
	// position, as `==` operand (either side) and under `!=`; every mutator and every One form
	{
		i := nInt
		doc := func(t *Node, q int64) *Node { return nObj("a", t, "q", i(q)) }
		trees := []*Node{
			nArr(i(1), i(2), i(3), i(2)),
			nObj("a", i(1), "b", i(2), "c", i(2)),
			nArr(nObj("a", i(1), "b", i(0)), nObj("a", i(2), "b", i(0)), nObj("b", i(2)), nObj("a", i(2))),
			nObj("a", nObj("a", i(2), "b", i(5)), "b", nObj("a", i(1)), "c", nObj("b", i(2))),
			nArr(nArr(i(1), i(2)), nArr(i(2)), nObj("a", i(2)), i(2)),
			nArr(),
		}
		tails := []Path{{}, {fChild("b")}, {fChild("a")}, {fNth(0)}, {fWild()}, {fChild("n")}}
		n := 0
		for _, sc := range rootScriptNames {
			for _, t := range trees {
				for _, q := range []int64{2, 1, 7} {
					for _, tail := range tails {
						ops(append(Path{fChild("a"), fFilter(sc)}, tail...), doc(t, q), "root_filter", "I(9)", "N", "Cn")
						n++
					}
					ops(Path{fChild("a"), fWild(), fFilter(sc)}, doc(t, q), "root_filter", "I(9)", "N", "")
					ops(Path{fChild("a"), fFilter(sc), fFilter(sc)}, doc(t, q), "root_filter", "I(9)", "N", "")
					n += 2
				}
			}
		}
		rep.Exhaustive = append(rep.Exhaustive, fmt.Sprintf(
			"root-relative filters: %d (path, document) pairs = {%s} x %d trees under {a: tree, q: 2|1|7} x {last, before a name/index/wildcard, after a wildcard, twice} x every mutator and One form",
			n, strings.Join(rootScriptNames, ", "), len(trees)))
		r := lib.NewRng(*seed).Fork(5)
		tg := &treeGen{r: r}
		pg := &pathGen{r: r}
		cnt := 3000
		if thorough {
			cnt = 50000
		}
		for k := 0; k < cnt; k++ {
			t := tg.container(1+r.Intn(3), 1+r.Intn(4))
			var p Path
			if r.Bool() {
				p = pg.located(t)
			} else {
				p = pg.path(3)
			}
			// one position becomes (or gains) a root-relative filter
			at := r.Intn(len(p) + 1)
			f := fFilter(lib.Pick(r, rootScriptNames))
			if at < len(p) && r.Bool() {
				p[at] = f
			} else {
				p = append(p[:at], append(Path{f}, p[at:]...)...)
			}
			p = append(Path{fChild("a")}, p...)
			d := doc(t, int64(r.Intn(5)))
			one := r.Intn(3) == 0
			switch r.Intn(6) {
			case 0, 1:
				add(Case{Op: "set", One: one, P: p, t: d, Val: lib.Pick(r, valuePool)}, "root_filter_random")
			case 2:
				add(Case{Op: "del", One: one, P: p, t: d}, "root_filter_random")
			case 3:
				add(Case{Op: "mod", One: one, P: p, t: d, Mod: lib.Pick(r, modPool)}, "root_filter_random")
			default:
				add(Case{Op: "rem", One: one, P: p, t: d}, "root_filter_random")
			}
		}
	}
}

func main() {
	flag.Parse()
	if *child {
		childMain()
		return
	}
	rep = lib.NewReport(*prop, *tier, *seed)
	if noChildHook {
		// never silent: the hook changes what the run does (it exists to exercise the in-process watchdog)
		rep.Notes = appendNote(rep.Notes, "TEST HOOK VERIF_JPMUT_NOCHILD is set: calls that may not return are made in-process; this run is not a check of the property")
		fmt.Fprintln(os.Stderr, "jpmut: TEST HOOK VERIF_JPMUT_NOCHILD is set (calls that may not return are made in-process)")
	}
	knownList = lib.LoadKnown(*known, *prop)
	initFlags()
	if *replay != "" {
		runReplay()
		return
	}
	cases := make(chan []Case, 64)
	var wg sync.WaitGroup
	var fatal atomic.Value
	ws := make([]*worker, *workers)
	var progress int64
	for i := range ws {
		ws[i] = &worker{}
		wg.Add(1)
		go func(w *worker) {
			defer wg.Done()
			d, err := lib.StartDriver(*driver)
			if err != nil {
				fatal.Store(err.Error())
				for range cases {
				}
				return
			}
			w.d = d
			defer d.Close()
			for batch := range cases {
				for i := range batch {
					if fatal.Load() != nil {
						continue
					}
					if err := w.run(&batch[i]); err != nil {
						fatal.Store(err.Error() + " on " + batch[i].String())
					}
					atomic.AddInt64(&progress, 1)
				}
			}
		}(ws[i])
	}
	done := make(chan struct{})
	// watchdog. (1) A Go call of the library that does not return (or eats memory): the case is reported as a
	// violation (class hang) with its replay, the report is written and the harness ends — the call is abandoned,
	// never skipped silently. (2) No progress at all for two minutes outside such a call: the machinery is stuck.
	go func() {
		last, stale := int64(-1), 0
		tick := 0
		var ms runtime.MemStats
		for {
			select {
			case <-done:
				return
			case <-time.After(time.Second):
			}
			tick++
			runtime.ReadMemStats(&ms)
			now := time.Now().UnixNano()
			for _, w := range ws {
				c := w.inCall.Load()
				if c == nil {
					continue
				}
				started := w.inSince.Load()
				since := time.Duration(now - started)
				if since > stuckSeconds*time.Second || (ms.HeapAlloc > stuckHeapGiB<<30 && since > 2*time.Second) {
					// confirm before reporting: the same call alone in a child process with ten times the time. It is a
					// hang only if it stalls there as well (or if the call in this process outlives ten times its budget).
					if w.confirmed.Load() == started {
						if since <= stuckSeconds*confirmFactor*time.Second && ms.HeapAlloc <= 2*stuckHeapGiB<<30 {
							continue
						}
					} else {
						cc := *c
						ch := make(chan string, 1)
						go func() {
							_, _, h := confirmStall(&cc, stuckSeconds)
							ch <- h
						}()
						how := ""
					wait:
						for {
							select {
							case how = <-ch:
								break wait
							case <-time.After(500 * time.Millisecond):
								// the heap a call needs does not depend on the load: no waiting beyond twice the limit
								runtime.ReadMemStats(&ms)
								if ms.HeapAlloc > 2*stuckHeapGiB<<30 {
									how = fmt.Sprintf("the heap of this process passed %d GiB while the call was being made again", 2*stuckHeapGiB)
									break wait
								}
							}
						}
						if how == "" && w.inCall.Load() == c && w.inSince.Load() == started {
							w.confirmed.Store(started)
						}
						if how == "" {
							rep.Count("stall.slow_not_a_hang", 1)
							rep.Notes = appendNote(rep.Notes, fmt.Sprintf("slow, not a hang: %s — in this process for %s (heap %d MiB); returned within %d s when made again alone",
								c.String(), since.Round(time.Second), ms.HeapAlloc>>20, stuckSeconds*confirmFactor))
							continue
						}
					}
					what := fmt.Sprintf("%s does not return (running for %s, heap %d MiB; confirmed by making the call again alone with %d s): the call is abandoned",
						c.name(), since.Round(time.Second), ms.HeapAlloc>>20, stuckSeconds*confirmFactor)
					rep.Count("clause.hang", 1)
					c.finding("violation", "hang", what, nil)
					rep.Notes = append(rep.Notes, "run ended early: "+what+" — "+c.String())
					rep.Rule = "ENDED EARLY by the watchdog: a library call did not return"
					if err := rep.Write(*outPath); err != nil {
						fmt.Fprintln(os.Stderr, err)
						os.Exit(3)
					}
					os.Exit(0)
				}
			}
			if tick%5 != 0 {
				continue
			}
			p := atomic.LoadInt64(&progress)
			if p == last {
				stale++
			} else {
				stale = 0
			}
			last = p
			if stale >= 24 {
				for _, w := range ws {
					fmt.Fprintln(os.Stderr, "stuck on:", w.cur.Load())
				}
				os.Exit(3)
			}
		}
	}()
	var cur []Case
	emit := func(c Case) {
		cur = append(cur, c)
		if len(cur) >= 64 {
			cases <- cur
			cur = nil
		}
	}
	produce(emit)
	if len(cur) > 0 {
		cases <- cur
	}
	close(cases)
	wg.Wait()
	close(done)
	if fatal.Load() == nil {
		extraStreams()
	}
	if e := fatal.Load(); e != nil {
		fmt.Fprintln(os.Stderr, "harness failure:", e)
		os.Exit(3)
	}
	rep.Rule = "cases: corpus; boundary families (creation along name/index chains, root, scalar roots); exhaustive slice box (start, end, step incl. absent x length x " +
		"inner/last position x mutator); every fragment of an alphabet in every position of short paths over small trees; seeded random paths x random trees x " +
		"values / modifiers. Every case: the plain and the Must form on simple and on gen data (4 calls), judged by the specification (Lean), compared with the model " +
		"(Lean), simple against gen, Must against plain, plus Go-side cross-checks. distinct_nontrivial counts distinct calls with a non-empty path and a container root. " +
		"Driver-free differential streams (extra.go): selfref (filter operands that read the filtered container, against the same call with the operand's value written out), " +
		"alias (one Go slice under two members, Remove/RemoveOne against the call on the tree-shaped copy), typed ([]int, []string, []map[string]any, map[string]int, typed roots, " +
		"against the call on the simple document)"
	if err := rep.Write(*outPath); err != nil {
		fmt.Fprintln(os.Stderr, err)
		os.Exit(3)
	}
}

func runReplay() {
	data, err := os.ReadFile(*replay)
	if err != nil {
		fmt.Fprintln(os.Stderr, err)
		os.Exit(3)
	}
	var m map[string]any
	if err := json.Unmarshal(data, &m); err != nil {
		fmt.Fprintln(os.Stderr, err)
		os.Exit(3)
	}
	if replayExtra(m) {
		if err := rep.Write(*outPath); err != nil {
			fmt.Fprintln(os.Stderr, err)
			os.Exit(3)
		}
		return
	}
	// the runner wraps the finding: look for the case at the top level or under "replay"
	cs, _ := m["case"].(string)
	if cs == "" {
		if r, ok := m["replay"].(map[string]any); ok {
			cs, _ = r["case"].(string)
		}
	}
	var c Case
	if err := json.Unmarshal([]byte(cs), &c); err != nil {
		fmt.Fprintln(os.Stderr, "no case in replay file:", err)
		os.Exit(3)
	}
	if err := c.prepare(); err != nil {
		fmt.Fprintln(os.Stderr, err)
		os.Exit(3)
	}
	d, err := lib.StartDriver(*driver)
	if err != nil {
		fmt.Fprintln(os.Stderr, err)
		os.Exit(3)
	}
	defer d.Close()
	w := &worker{d: d}
	*verbose = true
	fmt.Println("case:", c.String())
	alwaysChild = true
	if impl, _, how := callInChild(&c); how != "" {
		fmt.Println("  impl:", how)
	} else {
		for g := 0; g < 2; g++ {
			fmt.Printf("  impl gen=%v: %s %s\n", g == 1, impl[g].String(), impl[g].msg)
		}
	}
	if err := w.run(&c); err != nil {
		fmt.Fprintln(os.Stderr, err)
		os.Exit(3)
	}
	if err := rep.Write(*outPath); err != nil {
		fmt.Fprintln(os.Stderr, err)
		os.Exit(3)
	}
}
