package main

import (
	"sort"
	"strings"

	"github.com/ohler55/ojg/gen"

	"verif/harness/lib"
)

// Node is a JSON-like tree in a representation-neutral form. Leaves are null, booleans, integers and
// strings (what a mutation does does not depend on the number kind; floats would only add the text/bits
// conversion of the other families).
type Node struct {
	Kind byte // n b i s a o
	B    bool
	I    int64
	S    string
	Kids []*Node
	Keys []string // 'o': sorted, unique; Kids[i] belongs to Keys[i]
}

func nNull() *Node          { return &Node{Kind: 'n'} }
func nBool(b bool) *Node    { return &Node{Kind: 'b', B: b} }
func nInt(i int64) *Node    { return &Node{Kind: 'i', I: i} }
func nStr(s string) *Node   { return &Node{Kind: 's', S: s} }
func nArr(k ...*Node) *Node { return &Node{Kind: 'a', Kids: k} }

// nObj builds an object from key, value pairs (sorted by key; a repeated key keeps the last value).
func nObj(kv ...any) *Node {
	m := map[string]*Node{}
	for i := 0; i+1 < len(kv); i += 2 {
		m[kv[i].(string)] = kv[i+1].(*Node)
	}
	keys := make([]string, 0, len(m))
	for k := range m {
		keys = append(keys, k)
	}
	sort.Strings(keys)
	n := &Node{Kind: 'o', Keys: keys}
	for _, k := range keys {
		n.Kids = append(n.Kids, m[k])
	}
	return n
}

func (n *Node) isContainer() bool { return n.Kind == 'a' || n.Kind == 'o' }

// simple builds a fresh []any / map[string]any form (nothing is shared between two calls).
func (n *Node) simple() any {
	switch n.Kind {
	case 'n':
		return nil
	case 'b':
		return n.B
	case 'i':
		return n.I
	case 's':
		return n.S
	case 'a':
		a := make([]any, len(n.Kids))
		for i, k := range n.Kids {
			a[i] = k.simple()
		}
		return a
	default:
		m := make(map[string]any, len(n.Kids))
		for i, k := range n.Kids {
			m[n.Keys[i]] = k.simple()
		}
		return m
	}
}

// genNode builds a fresh gen.Node form (null is the nil Node).
func (n *Node) genNode() gen.Node {
	switch n.Kind {
	case 'n':
		return nil
	case 'b':
		return gen.Bool(n.B)
	case 'i':
		return gen.Int(n.I)
	case 's':
		return gen.String(n.S)
	case 'a':
		a := make(gen.Array, len(n.Kids))
		for i, k := range n.Kids {
			a[i] = k.genNode()
		}
		return a
	default:
		m := make(gen.Object, len(n.Kids))
		for i, k := range n.Kids {
			m[n.Keys[i]] = k.genNode()
		}
		return m
	}
}

// canon is the canonical text (members sorted): the identity of the tree.
func (n *Node) canon() string { return lib.Render(n.simple()) }

// all returns every node of the tree (the node first).
func (n *Node) all(out []*Node) []*Node {
	out = append(out, n)
	for _, k := range n.Kids {
		out = k.all(out)
	}
	return out
}

// wideObjects lists the objects with more than one member (where Go map order can show).
func (n *Node) wideObjects(out []*Node) []*Node {
	if n.Kind == 'o' && len(n.Kids) > 1 {
		out = append(out, n)
	}
	for _, k := range n.Kids {
		out = k.wideObjects(out)
	}
	return out
}

// wire writes the canonical text with the members of every object in the order perm gives for it
// (perm[obj] is a permutation of the member positions; absent: sorted order). The driver keeps the order
// as written: it stands for the Go map iteration order.
func (n *Node) wire(perm map[*Node][]int) string {
	var sb strings.Builder
	n.writeWire(&sb, perm)
	return sb.String()
}

func (n *Node) writeWire(sb *strings.Builder, perm map[*Node][]int) {
	switch n.Kind {
	case 'a':
		sb.WriteByte('[')
		for i, k := range n.Kids {
			if i > 0 {
				sb.WriteByte(',')
			}
			k.writeWire(sb, perm)
		}
		sb.WriteByte(']')
	case 'o':
		sb.WriteByte('{')
		p := perm[n]
		for i := range n.Kids {
			j := i
			if p != nil {
				j = p[i]
			}
			if i > 0 {
				sb.WriteByte(',')
			}
			sb.WriteString("K(" + lib.HexF([]byte(n.Keys[j])) + ")")
			n.Kids[j].writeWire(sb, perm)
		}
		sb.WriteByte('}')
	default:
		sb.WriteString(lib.Render(n.simple()))
	}
}

// nodeOfCanon turns a parsed canonical tree into a Node.
func nodeOfCanon(c *lib.Node) *Node {
	switch c.Kind {
	case 'n':
		return nNull()
	case 't':
		return nBool(true)
	case 'f':
		return nBool(false)
	case 'I':
		var i int64
		neg := false
		for _, ch := range c.Text {
			if ch == '-' {
				neg = true
			} else {
				i = i*10 + int64(ch-'0')
			}
		}
		if neg {
			i = -i
		}
		return nInt(i)
	case 'S':
		b, _ := lib.UnhexF(c.Text)
		return nStr(string(b))
	case '[':
		a := &Node{Kind: 'a'}
		for _, k := range c.Kids {
			a.Kids = append(a.Kids, nodeOfCanon(k))
		}
		return a
	case '{':
		var kv []any
		for i, k := range c.Kids {
			b, _ := lib.UnhexF(c.Keys[i])
			kv = append(kv, string(b), nodeOfCanon(k))
		}
		return nObj(kv...)
	}
	return nNull()
}

func nodeOfText(s string) (*Node, error) {
	c, err := lib.ParseCanon(s)
	if err != nil {
		return nil, err
	}
	return nodeOfCanon(c), nil
}

// permutations of the member orders of the wide objects, the sorted order first, at most max of them.
func orders(t *Node, max int) []map[*Node][]int {
	objs := t.wideObjects(nil)
	out := []map[*Node][]int{nil}
	if len(objs) == 0 {
		return out
	}
	var perms func(n int) [][]int
	perms = func(n int) [][]int {
		if n == 0 {
			return [][]int{{}}
		}
		var res [][]int
		for _, p := range perms(n - 1) {
			for pos := len(p); pos >= 0; pos-- {
				q := make([]int, 0, n)
				q = append(q, p[:pos]...)
				q = append(q, n-1)
				q = append(q, p[pos:]...)
				res = append(res, q)
			}
		}
		return res
	}
	cur := []map[*Node][]int{{}}
	for _, o := range objs {
		ps := perms(len(o.Kids))
		var next []map[*Node][]int
		for _, m := range cur {
			for _, p := range ps {
				if len(next) >= max {
					break
				}
				mm := make(map[*Node][]int, len(m)+1)
				for k, v := range m {
					mm[k] = v
				}
				mm[o] = p
				next = append(next, mm)
			}
		}
		cur = next
	}
	return append(out, cur...)
}

// ---- generators ------------------------------------------------------------------------------

var keyPool = []string{"a", "b", "c", "x"}

type treeGen struct{ r *lib.Rng }

func (g *treeGen) leaf() *Node {
	switch g.r.Intn(10) {
	case 0:
		return nNull()
	case 1:
		return nBool(g.r.Bool())
	case 2:
		return nStr(lib.Pick(g.r, []string{"", "a", "x", "1"}))
	default:
		return nInt(int64(g.r.Intn(5)))
	}
}

// tree draws a random tree: depth-limited, arrays up to maxLen elements, objects over keyPool.
func (g *treeGen) tree(depth, maxLen int) *Node {
	if depth <= 0 || g.r.Intn(10) < 3 {
		return g.leaf()
	}
	if g.r.Intn(5) < 3 {
		n := g.r.Intn(maxLen + 1)
		a := &Node{Kind: 'a'}
		for i := 0; i < n; i++ {
			a.Kids = append(a.Kids, g.tree(depth-1, maxLen))
		}
		return a
	}
	n := g.r.Intn(len(keyPool) + 1)
	var kv []any
	for _, k := range keyPool {
		if g.r.Intn(len(keyPool)) < n {
			kv = append(kv, k, g.tree(depth-1, maxLen))
		}
	}
	return nObj(kv...)
}

// container draws a tree whose root is a container.
func (g *treeGen) container(depth, maxLen int) *Node {
	for {
		t := g.tree(depth, maxLen)
		if t.isContainer() {
			return t
		}
	}
}

// smallTrees are the trees of the enumerated stream: every container kind at every depth ≤ 2, leaves of
// every type, empty containers, an object and an array under each fragment kind.
func smallTrees() []*Node {
	i := nInt
	return []*Node{
		i(3),
		nArr(),
		nObj(),
		nArr(i(1), i(2), i(3)),
		nObj("a", i(1), "b", i(2)),
		nArr(nArr(i(1), i(2)), nArr(i(3)), nArr()),
		nArr(nObj("a", i(1)), nObj("a", i(2), "b", i(0)), nObj("b", nArr(i(1)))),
		nObj("a", nArr(i(1), i(2), i(3)), "b", nObj("a", i(1), "b", nArr(i(2)))),
		nObj("a", nObj("a", nObj("a", i(2))), "b", nArr(nArr(nArr(i(1))))),
		nArr(i(3), nArr(), i(1), nNull(), nStr("a"), nBool(true)),
		nArr(nArr(nObj("a", i(1)), i(2)), nObj("a", nArr(nObj("a", i(2)), nObj("b", i(1)))), i(2)),
		nObj("a", nArr(nObj("a", i(1), "b", i(2)), nObj("a", i(3))), "b", nArr(nObj("a", i(1)))),
		nArr(nArr(i(0), i(1), i(2), i(3)), nArr(nArr(i(2), i(3)), nArr(i(1)))),
		// a One form must go on past a parent that lacks the final member
		nArr(nObj("b", i(3)), nObj("a", i(1), "b", i(2))),
		nArr(nArr(), nArr(i(1)), nObj("c", i(1)), nObj("a", i(2))),
	}
}
