// Driver-free differential streams of the jpmut harness (round 3).
//
// The main streams (main.go) judge every call with the Lean specification and compare it with the Lean model; their data are
// TREES of []any / map[string]any (and gen) values and their filters compare an element with a constant or with `$.q`, an
// integer beside the tree. Three things a mutator can get wrong lie outside that space, and each has an oracle that needs no
// model because it reduces the call to calls the main streams already tie down:
//
//   - selfref: a filter whose root-relative operand points INTO the container being filtered (`$.a[?(@ == $.a[1])]`). Get
//     evaluates the operand on the document as it is BEFORE the call, so the call must leave what the same call leaves with
//     the operand replaced by its value (`$.a[?(@ == 2)]`) — on fresh copies, simple and gen data, all and One forms.
//   - alias: documents in which ONE Go slice is the value of two members (built with the aliasing on purpose). Remove and
//     RemoveOne hand a new list back to the parent they were called for; the other member is not selected and must hold what it
//     held: the call on the aliased document must leave what it leaves on the tree-shaped copy of the same document. (Set, Del
//     and Modify write elements in place — `tv[i] = v` —: that a second reference to the same list sees such a write is Go, not
//     a defect; they are not in this stream. Shared MAPS are not either: `delete` on the one map is visible through both.)
//   - typed: the same documents with typed Go containers ([]int, []string, []map[string]any, map[string]int, a typed root)
//     reached by reflection. "Behave the same on simple and gen data" and "select the same locations Get does" do not depend on
//     the static type of a list: the outcome on the typed document, normalised, must be the outcome of the same call on the
//     simple document — or an error that leaves the data as it was where a typed container cannot take the edit.
package main

import (
	"bytes"
	"encoding/json"
	"fmt"
	"reflect"
	"sort"
	"strings"

	"github.com/ohler55/ojg/gen"
	"github.com/ohler55/ojg/jp"

	"verif/harness/lib"
)

type xcase struct {
	Stream string `json:"stream"`
	Op     string `json:"op"` // rem mod set del
	One    bool   `json:"one"`
	Path   string `json:"path"`
	Ref    string `json:"ref,omitempty"`   // selfref: the same path with the operand replaced by its value
	Doc    string `json:"doc"`             // JSON text of the document (tree form, simple data)
	Shape  string `json:"shape,omitempty"` // alias: which members share a list; typed: the typing
	Arg    string `json:"arg,omitempty"`   // set: JSON text of the value; mod: I (identity, changed) N (+1) C (constant 9)
	Gen    bool   `json:"gen"`
}

func (c *xcase) String() string {
	n := map[string]string{"set": "Set", "del": "Del", "mod": "Modify", "rem": "Remove"}[c.Op]
	if c.One {
		n += "One"
	}
	s := fmt.Sprintf("%s %s on %s", n, c.Path, c.Doc)
	if c.Shape != "" {
		s += " [" + c.Shape + "]"
	}
	if c.Gen {
		s += " (gen)"
	}
	if c.Arg != "" {
		s += " arg " + c.Arg
	}
	return s
}

// ---- documents ----------------------------------------------------------------------------------------------------

func parseDoc(s string) any {
	dec := json.NewDecoder(strings.NewReader(s))
	dec.UseNumber()
	var v any
	if err := dec.Decode(&v); err != nil {
		panic("extra: bad document " + s + ": " + err.Error())
	}
	return fixNumbers(v)
}

func fixNumbers(v any) any {
	switch t := v.(type) {
	case json.Number:
		i, err := t.Int64()
		if err != nil {
			panic("extra: not an integer: " + t.String())
		}
		return i
	case []any:
		for i := range t {
			t[i] = fixNumbers(t[i])
		}
	case map[string]any:
		for k := range t {
			t[k] = fixNumbers(t[k])
		}
	}
	return v
}

func toGen(v any) gen.Node {
	switch t := v.(type) {
	case nil:
		return nil
	case bool:
		return gen.Bool(t)
	case int64:
		return gen.Int(t)
	case string:
		return gen.String(t)
	case []any:
		a := make(gen.Array, len(t))
		for i := range t {
			a[i] = toGen(t[i])
		}
		return a
	case map[string]any:
		o := gen.Object{}
		for k, e := range t {
			o[k] = toGen(e)
		}
		return o
	}
	panic(fmt.Sprintf("extra: toGen %T", v))
}

// norm brings any Go value (typed containers, gen nodes) to the simple form the canonical text is made of
func norm(v any) any {
	if v == nil {
		return nil
	}
	switch t := v.(type) {
	case gen.Bool:
		return bool(t)
	case gen.Int:
		return int64(t)
	case gen.String:
		return string(t)
	case *kmap:
		out := map[string]any{}
		for k, e := range t.m {
			out[k] = norm(e)
		}
		return out
	case *ilist:
		out := make([]any, len(t.s))
		for i, e := range t.s {
			out[i] = norm(e)
		}
		return out
	case *rolist:
		out := make([]any, len(t.s))
		for i, e := range t.s {
			out[i] = norm(e)
		}
		return out
	}
	rv := reflect.ValueOf(v)
	switch rv.Kind() {
	case reflect.Ptr, reflect.Interface:
		if rv.IsNil() {
			return nil
		}
		return norm(rv.Elem().Interface())
	case reflect.Slice, reflect.Array:
		if rv.Kind() == reflect.Slice && rv.IsNil() {
			return []any{}
		}
		out := make([]any, rv.Len())
		for i := range out {
			out[i] = norm(rv.Index(i).Interface())
		}
		return out
	case reflect.Map:
		out := map[string]any{}
		for _, k := range rv.MapKeys() {
			out[k.String()] = norm(rv.MapIndex(k).Interface())
		}
		return out
	case reflect.Int, reflect.Int8, reflect.Int16, reflect.Int32, reflect.Int64:
		return rv.Int()
	case reflect.Uint, reflect.Uint8, reflect.Uint16, reflect.Uint32, reflect.Uint64:
		return int64(rv.Uint())
	case reflect.String:
		return rv.String()
	case reflect.Bool:
		return rv.Bool()
	}
	return fmt.Sprintf("<%T>", v)
}

func canonOf(v any) string { return lib.Render(norm(v)) }

// ---- one call -----------------------------------------------------------------------------------------------------

type xout struct {
	kind  string // ok err panic
	msg   string
	after string // canonical text of the returned tree (Modify/Remove) / of the data (Set/Del, and after an error)
	val   any    // the same, normalised (fresh maps and slices)
}

func (o xout) String() string {
	if o.kind == "ok" {
		return "ok " + o.after
	}
	return o.kind + " (" + o.msg + ") leaving " + o.after
}

func xmodifier(arg string) func(any) (any, bool) {
	switch arg {
	case "N":
		return func(v any) (any, bool) {
			switch t := v.(type) {
			case int64:
				return t + 1, true
			case int:
				return t + 1, true
			case gen.Int:
				return t + 1, true
			}
			return v, false
		}
	case "I":
		return func(v any) (any, bool) { return v, true }
	}
	return func(v any) (any, bool) {
		switch v.(type) {
		case int:
			return 9, true
		case gen.Node:
			return gen.Int(9), true
		}
		return int64(9), true
	}
}

func xcall(op string, one bool, path string, data any, arg string, genData bool) (o xout) {
	x, err := jp.ParseString(path)
	if err != nil {
		return xout{kind: "parse", msg: err.Error()}
	}
	var result any
	defer func() {
		if r := recover(); r != nil {
			o = xout{kind: "panic", msg: fmt.Sprint(r), after: canonOf(data), val: norm(data)}
		}
	}()
	switch op {
	case "set":
		var value any = parseDoc(arg)
		if genData {
			value = toGen(value)
		}
		if one {
			err = x.SetOne(data, value)
		} else {
			err = x.Set(data, value)
		}
		result = data
	case "del":
		if one {
			err = x.DelOne(data)
		} else {
			err = x.Del(data)
		}
		result = data
	case "mod":
		if one {
			result, err = x.ModifyOne(data, xmodifier(arg))
		} else {
			result, err = x.Modify(data, xmodifier(arg))
		}
	default:
		if one {
			result, err = x.RemoveOne(data)
		} else {
			result, err = x.Remove(data)
		}
	}
	if err != nil {
		return xout{kind: "err", msg: err.Error(), after: canonOf(data), val: norm(data)}
	}
	return xout{kind: "ok", after: canonOf(result), val: norm(result)}
}

func (c *xcase) doc() any {
	d := parseDoc(c.Doc)
	if c.Gen {
		if n := toGen(d); n != nil {
			return n
		}
		return nil
	}
	return d
}

// ---- findings -----------------------------------------------------------------------------------------------------

func (c *xcase) replayMap(extra map[string]any) map[string]any {
	js, _ := json.Marshal(c)
	r := map[string]any{"xcase": string(js), "call": c.String()}
	for k, v := range extra {
		r[k] = v
	}
	return r
}

func (c *xcase) finding(kind, class, what, knownID string, extra map[string]any) {
	if *verbose {
		fmt.Printf("%s %s: %s | %s | %v\n", kind, class, c.String(), what, extra)
	}
	if kind == "violation" {
		// one class per mutator, so that the runner shows an input for each (it reports one finding per class)
		class += ":" + strings.Fields(c.String())[0]
	}
	f := lib.Finding{Kind: kind, Class: class, What: what, Replay: c.replayMap(extra)}
	if knownID != "" {
		f.KnownID = knownID
		f.Class = knownID + ":" + strings.Fields(c.String())[0]
	}
	rep.Add(f)
}

// ---- selfref ------------------------------------------------------------------------------------------------------

const selfReevalID = "C13-filter-self-reevaluated"

// what the modify machine's in-place loop does when a filter is its LAST fragment (Modify `…[?(…)]`; Remove `…[?(…)].v`, whose
// machine runs on the path without `.v`) and the filter's root operand reads the list: element by element, the operand read
// from the list AS IT IS at that moment. A value is nil when the script sees Nothing (no such member); Nothing == Nothing.
func sequentialRef(list []any, elem func(any) *int64, k int, op string, edit func(any) any) {
	cmp := func(a, b *int64) bool {
		switch op {
		case "==":
			return (a == nil && b == nil) || (a != nil && b != nil && *a == *b)
		case "!=":
			return !((a == nil && b == nil) || (a != nil && b != nil && *a == *b))
		}
		if a == nil || b == nil {
			return false
		}
		switch op {
		case "<":
			return *a < *b
		case ">":
			return *a > *b
		case "<=":
			return *a <= *b
		}
		return *a >= *b
	}
	for i := range list {
		j := k
		if j < 0 {
			j += len(list)
		}
		var operand *int64
		if 0 <= j && j < len(list) {
			operand = elem(list[j])
		}
		if cmp(elem(list[i]), operand) {
			list[i] = edit(list[i])
		}
	}
}

var cmpOps = []struct {
	text string
	f    func(a, b int64) bool
}{
	{"==", func(a, b int64) bool { return a == b }},
	{"!=", func(a, b int64) bool { return a != b }},
	{"<", func(a, b int64) bool { return a < b }},
	{">", func(a, b int64) bool { return a > b }},
	{"<=", func(a, b int64) bool { return a <= b }},
	{">=", func(a, b int64) bool { return a >= b }},
}

func (c *xcase) runSelfref(opText string, k int, objElems bool) {
	impl := xcall(c.Op, c.One, c.Path, c.doc(), c.Arg, c.Gen)
	ref := xcall(c.Op, c.One, c.Ref, c.doc(), c.Arg, c.Gen)
	rep.AddEval(2, 1)
	rep.Count("extra.selfref."+c.Op, 1)
	if impl.kind == "parse" || ref.kind == "parse" {
		c.finding("disagreement", "extra-parse", "the harness wrote a path the library does not read: "+impl.msg+ref.msg, "", nil)
		return
	}
	if impl.kind == "panic" {
		c.finding("violation", "selfref-panic", "panic: "+impl.msg, "", map[string]any{"impl": impl.String()})
		return
	}
	if impl.kind == ref.kind && impl.after == ref.after {
		return
	}
	extra := map[string]any{"impl": impl.String(), "expected": ref.String(), "reference_call": c.Ref}
	// The modify machine (Modify; Remove = modify of the path without its last fragment) edits a list in place while a filter
	// in ITS last position is evaluated against the document: an operand that reads the list sees the elements already
	// edited. Known only for the all-matches forms in exactly these two path shapes, and only if that explains the result.
	filterLastOfMachine := (c.Op == "mod" && strings.HasSuffix(c.Path, ")]")) || (c.Op == "rem" && strings.HasSuffix(c.Path, ")].v"))
	if filterLastOfMachine && !c.One && impl.kind == "ok" && lib.HasKnown(knownList, selfReevalID) {
		d := parseDoc(c.Doc).(map[string]any)
		list := d["a"].([]any)
		elem := func(v any) *int64 {
			if objElems {
				m, ok := v.(map[string]any)
				if !ok {
					return nil
				}
				v = m["v"]
			}
			if i, ok := v.(int64); ok {
				return &i
			}
			return nil
		}
		var edit func(any) any
		if c.Op == "mod" {
			m := xmodifier(c.Arg)
			edit = func(v any) any {
				nv, changed := m(v)
				if !changed {
					return v
				}
				return nv
			}
		} else {
			edit = func(v any) any {
				if m, ok := v.(map[string]any); ok {
					delete(m, "v")
				}
				return v
			}
		}
		sequentialRef(list, elem, k, opText, edit)
		if canonOf(d) == impl.after {
			rep.Count("known."+selfReevalID, 1)
			c.finding("known", "selfref-reevaluated", "the modify machine edits the list while the filter's root operand reads it: the elements after an edited operand are judged against the new value (Get judges all of them against the old one)", selfReevalID, extra)
			return
		}
	}
	c.finding("violation", "selfref", "a filter operand that reads the container being filtered: the call does not leave what it leaves with the operand's value written out", "", extra)
}

func produceSelfref(r *lib.Rng) {
	docs := []string{`{"a":[1,2,1,2]}`, `{"a":[2,1,2,1,3]}`, `{"a":[1,1,1]}`, `{"a":[3,2,1]}`, `{"a":[2]}`, `{"a":[1,2,3,1,2,3]}`, `{"a":[2,2,1,1]}`}
	n := 24
	if *tier == "thorough" {
		n = 200
	}
	for i := 0; i < n; i++ {
		l := 2 + r.Intn(5)
		var sb strings.Builder
		sb.WriteString(`{"a":[`)
		for j := 0; j < l; j++ {
			if j > 0 {
				sb.WriteByte(',')
			}
			fmt.Fprintf(&sb, "%d", 1+r.Intn(3))
		}
		sb.WriteString(`]}`)
		docs = append(docs, sb.String())
	}
	seen := map[string]bool{}
	for _, doc := range docs {
		if seen[doc] {
			continue
		}
		seen[doc] = true
		list := parseDoc(doc).(map[string]any)["a"].([]any)
		// the same list with object elements {"v": n}
		var ob strings.Builder
		ob.WriteString(`{"a":[`)
		for j, v := range list {
			if j > 0 {
				ob.WriteByte(',')
			}
			fmt.Fprintf(&ob, `{"v":%d}`, v.(int64))
		}
		ob.WriteString(`]}`)
		for _, k := range []int{0, 1, -1} {
			j := k
			if j < 0 {
				j += len(list)
			}
			if j < 0 || j >= len(list) {
				continue
			}
			val := list[j].(int64)
			for _, op := range cmpOps {
				for _, genData := range []bool{false, true} {
					for _, one := range []bool{false, true} {
						// scalar elements, filter in last position: Remove, Modify
						p := fmt.Sprintf("$.a[?(@ %s $.a[%d])]", op.text, k)
						ref := fmt.Sprintf("$.a[?(@ %s %d)]", op.text, val)
						for _, m := range []struct{ op, arg string }{{"rem", ""}, {"mod", "N"}, {"mod", "C"}} {
							c := xcase{Stream: "selfref", Op: m.op, One: one, Path: p, Ref: ref, Doc: doc, Arg: m.arg, Gen: genData}
							c.runSelfref(op.text, k, false)
						}
						// object elements: the filter in last position (Remove, Modify) and before a name (Set, Del, Modify, Remove)
						p = fmt.Sprintf("$.a[?(@.v %s $.a[%d].v)]", op.text, k)
						ref = fmt.Sprintf("$.a[?(@.v %s %d)]", op.text, val)
						for _, m := range []struct{ op, arg, tail string }{{"rem", "", ""}, {"mod", "C", ""}, {"set", "9", ".v"}, {"del", "", ".v"},
							{"mod", "N", ".v"}, {"rem", "", ".v"}, {"set", "9", ".w"}} {
							c := xcase{Stream: "selfref", Op: m.op, One: one, Path: p + m.tail, Ref: ref + m.tail, Doc: ob.String(), Arg: m.arg, Gen: genData}
							c.runSelfref(op.text, k, true)
						}
					}
				}
			}
		}
	}
}

// ---- alias --------------------------------------------------------------------------------------------------------

const nthSharedID = "C13-nth-remove-shared-list"

// the document with the list under the first location also placed under the second (the SAME Go slice)
func aliasDoc(doc any, shape string) any {
	get := func(root any, path string) (parent any, key string) {
		parts := strings.Split(path, ".")
		cur := root
		for _, p := range parts[:len(parts)-1] {
			switch t := cur.(type) {
			case map[string]any:
				cur = t[p]
			case gen.Object:
				cur = t[p]
			}
		}
		return cur, parts[len(parts)-1]
	}
	sides := strings.Split(shape, "=")
	sp, sk := get(doc, sides[0])
	dp, dk := get(doc, sides[1])
	switch t := sp.(type) {
	case map[string]any:
		dp.(map[string]any)[dk] = t[sk]
	case gen.Object:
		dp.(gen.Object)[dk] = t[sk]
	}
	return doc
}

func (c *xcase) runAlias(lastKind byte) {
	tree := xcall(c.Op, c.One, c.Path, c.doc(), c.Arg, c.Gen)
	impl := xcall(c.Op, c.One, c.Path, aliasDoc(c.doc(), c.Shape), c.Arg, c.Gen)
	rep.AddEval(2, 1)
	rep.Count("extra.alias."+string(lastKind), 1)
	if impl.kind == "panic" {
		c.finding("violation", "alias-panic", "panic: "+impl.msg, "", map[string]any{"impl": impl.String()})
		return
	}
	if impl.kind == tree.kind && impl.after == tree.after {
		return
	}
	extra := map[string]any{"impl": impl.String(), "expected": tree.String()}
	if lastKind == 'n' && lib.HasKnown(knownList, nthSharedID) && impl.kind == "ok" && tree.kind == "ok" {
		// Nth.remove closes the gap in place (`append(tv[:i], tv[i+1:]...)`): the member the call was made for is right, the
		// other reference to the list sees the elements moved down. Known only if everything but that other member is as
		// expected, and that member holds a list of its old length (nothing removed from it, its elements shifted).
		other := strings.Split(c.Shape, "=")[1]
		if lib.Render(without(impl.val, other)) == lib.Render(without(tree.val, other)) {
			a, b := at(impl.val, other), at(tree.val, other)
			la, ok1 := a.([]any)
			lb, ok2 := b.([]any)
			if ok1 && ok2 && len(la) == len(lb) {
				rep.Count("known."+nthSharedID, 1)
				c.finding("known", "alias-nth", "Nth.remove moves the elements down in the list it was given: a second reference to that list sees them moved", nthSharedID, extra)
				return
			}
		}
	}
	c.finding("violation", "alias", "a list that is also the value of a member the path does not select: that member does not hold what it held (the call on the tree-shaped copy of the document leaves the expected tree)", "", extra)
}

// the member at a dotted path of a normalised document
func at(v any, dotted string) any {
	for _, p := range strings.Split(dotted, ".") {
		m, ok := v.(map[string]any)
		if !ok {
			return nil
		}
		v = m[p]
	}
	return v
}

// the normalised document without the member at a dotted path (the document is copied)
func without(v any, dotted string) any {
	c := norm(v)
	parts := strings.Split(dotted, ".")
	cur := c
	for _, p := range parts[:len(parts)-1] {
		m, ok := cur.(map[string]any)
		if !ok {
			return c
		}
		cur = m[p]
	}
	if m, ok := cur.(map[string]any); ok {
		delete(m, parts[len(parts)-1])
	}
	return c
}

// the fragment kinds in last position
var aliasLast = []struct {
	kind byte
	text string
}{
	{'n', "[0]"}, {'n', "[1]"}, {'n', "[-1]"},
	{'u', "[0,-1]"}, {'u', "[1,0]"}, {'n', "[-2]"},
	{'s', "[1:]"}, {'s', "[0:1]"}, {'s', "[::2]"}, {'s', "[-2:]"}, {'s', "[::-1]"},
	{'w', "[*]"},
	{'f', "[?(@ < 3)]"}, {'f', "[?(@ > 1)]"}, {'f', "[?(@ == 2)]"}, {'f', "[?(@.v == 1)]"}, {'f', "[?(@.v > 1)]"},
}

func produceAlias(r *lib.Rng) {
	lists := []string{`[1,5,2,6]`, `[1,2,3]`, `[2,2]`, `[3]`, `[{"v":1},{"v":2},{"v":1}]`, `[4,1,3,1,2]`}
	n := 6
	if *tier == "thorough" {
		n = 60
	}
	for i := 0; i < n; i++ {
		l := 1 + r.Intn(5)
		parts := make([]string, l)
		for j := range parts {
			parts[j] = fmt.Sprint(1 + r.Intn(4))
		}
		lists = append(lists, "["+strings.Join(parts, ",")+"]")
	}
	shapes := []struct{ doc, shape, path string }{
		{`{"a":%s,"b":%s}`, "a=b", "$.a"},
		{`{"a":{"l":%s},"b":{"l":%s}}`, "a.l=b.l", "$.a.l"},
		{`{"a":%s,"b":{"x":1,"l":%s}}`, "a=b.l", "$.a"},
		{`{"a":%s,"b":%s}`, "a=b", "$[*]"}, // both members selected, one after the other
	}
	for _, l := range lists {
		for _, sh := range shapes {
			doc := fmt.Sprintf(sh.doc, l, l)
			for _, last := range aliasLast {
				for _, genData := range []bool{false, true} {
					for _, one := range []bool{false, true} {
						if one && sh.path == "$[*]" {
							continue // which of the two members RemoveOne meets first is the map's order
						}
						c := xcase{Stream: "alias", Op: "rem", One: one, Path: sh.path + last.text, Doc: doc, Shape: sh.shape, Gen: genData}
						c.runAlias(last.kind)
					}
				}
			}
		}
	}
}

// ---- typed --------------------------------------------------------------------------------------------------------

// the typed form of a simple value: lists of integers as []int, of strings as []string, of objects as []map[string]any,
// objects with integer members as map[string]int — applied to the member "a" and "b" of the document, or to the root
func typeValue(v any, typing string) (any, bool) {
	switch t := v.(type) {
	case []any:
		switch typing {
		case "ints":
			out := make([]int, len(t))
			for i, e := range t {
				n, ok := e.(int64)
				if !ok {
					return nil, false
				}
				out[i] = int(n)
			}
			return out, true
		case "int64s":
			out := make([]int64, len(t))
			for i, e := range t {
				n, ok := e.(int64)
				if !ok {
					return nil, false
				}
				out[i] = n
			}
			return out, true
		case "strs":
			out := make([]string, len(t))
			for i, e := range t {
				s, ok := e.(string)
				if !ok {
					return nil, false
				}
				out[i] = s
			}
			return out, true
		case "maps":
			out := make([]map[string]any, len(t))
			for i, e := range t {
				m, ok := e.(map[string]any)
				if !ok {
					return nil, false
				}
				out[i] = m
			}
			return out, true
		case "anys":
			return t, true
		}
	case map[string]any:
		if typing == "mapint" {
			out := map[string]int{}
			for k, e := range t {
				n, ok := e.(int64)
				if !ok {
					return nil, false
				}
				out[k] = int(n)
			}
			return out, true
		}
	}
	return nil, false
}

func typedDoc(doc any, typing string, root bool) (any, bool) {
	if root {
		return typeValue(doc, typing)
	}
	m, ok := doc.(map[string]any)
	if !ok {
		return nil, false
	}
	for _, k := range []string{"a", "b"} {
		if e, has := m[k]; has {
			tv, ok := typeValue(e, typing)
			if !ok {
				return nil, false
			}
			m[k] = tv
		}
	}
	return m, true
}

const typedSilentID = "C13-set-del-typed-silent"

// what a One form may leave on the simple document: the all-matches edit at ONE of the locations the path selects (Locate,
// tied to Get by C11), made through that location's own path
func oneCandidates(c *xcase) map[string]bool {
	out := map[string]bool{}
	x, err := jp.ParseString(c.Path)
	if err != nil {
		return out
	}
	locs, ok := locateSafe(x, parseDoc(c.Doc))
	if !ok {
		return out
	}
	for _, loc := range locs {
		o := xcall(c.Op, false, loc.String(), parseDoc(c.Doc), c.Arg, false)
		if o.kind == "ok" {
			out[o.after] = true
		}
	}
	return out
}

func (c *xcase) runTyped(root bool) {
	td, ok := typedDoc(parseDoc(c.Doc), c.Shape, root)
	if !ok {
		return
	}
	before := canonOf(td)
	simple := xcall(c.Op, c.One, c.Path, parseDoc(c.Doc), c.Arg, false)
	impl := xcall(c.Op, c.One, c.Path, td, c.Arg, false)
	rep.AddEval(2, 1)
	rep.Count("extra.typed."+c.Shape+"."+c.Op, 1)
	if impl.kind == simple.kind && impl.after == simple.after {
		return
	}
	extra := map[string]any{"impl": impl.String(), "expected": simple.String()}
	if impl.kind == "panic" {
		c.finding("violation", "typed-panic", "panic on typed data: "+impl.msg, "", extra)
		return
	}
	// a One form may meet the selected locations in another order on a typed container (the reflection branches push in
	// their own order): any ONE selected location is what the property asks for — but not "none" when the simple call edits
	if c.One && impl.kind == "ok" && simple.kind == "ok" && impl.after != before && oneCandidates(c)[impl.after] {
		rep.Count("extra.typed.one_other_location", 1)
		return
	}
	// Set / Del reach typed containers only in part: where they do not, the container is left exactly as it was (and mostly no
	// error is reported). Known only if NOTHING changed; a typed container edited wrongly is a violation.
	if (c.Op == "set" || c.Op == "del") && impl.after == before && impl.kind != "panic" && lib.HasKnown(knownList, typedSilentID) {
		rep.Count("known."+typedSilentID, 1)
		c.finding("known", "typed-untouched:"+c.Op, "Set/Del leave a typed Go container as it is (no edit, mostly no error) where they edit the simple document", typedSilentID, extra)
		return
	}
	if impl.kind == "err" && impl.after == before && simple.kind == "ok" {
		// the typed container refuses the edit and is as it was: an impossible request reported, not a wrong result. Counted
		// per reason so that a change of what is refused shows in the distribution.
		rep.Count("extra.typed.refused."+c.Op+"."+errClass(impl.msg), 1)
		return
	}
	c.finding("violation", "typed", "typed Go containers: the outcome differs from the outcome of the same call on the simple document (and is not a refusal that leaves the data alone)", "", extra)
}

var typedLast = []string{"[0]", "[1]", "[-1]", "[5]", "[0,-1]", "[-2,-1]", "[1,0]", "[-1,0]", "[1:]", "[0:1]", "[::2]", "[-2:]", "[::-1]", "[*]",
	"[?(@ < 3)]", "[?(@ > 1)]", "[?(@ == 2)]"}

func produceTyped(r *lib.Rng) {
	type td struct {
		doc, typing, base string
		root              bool
	}
	var docs []td
	intLists := []string{`[1,2,3,4]`, `[1,2,3]`, `[2]`, `[]`, `[3,1,2,1,3]`}
	n := 4
	if *tier == "thorough" {
		n = 40
	}
	for i := 0; i < n; i++ {
		l := 1 + r.Intn(5)
		parts := make([]string, l)
		for j := range parts {
			parts[j] = fmt.Sprint(1 + r.Intn(4))
		}
		intLists = append(intLists, "["+strings.Join(parts, ",")+"]")
	}
	for _, l := range intLists {
		for _, ty := range []string{"ints", "int64s", "anys"} {
			docs = append(docs, td{fmt.Sprintf(`{"a":%s,"b":%s}`, l, l), ty, "$.a", false}, td{l, ty, "$", true})
		}
	}
	for _, l := range []string{`["a","b","c"]`, `["x"]`, `["a","b","a","d"]`} {
		docs = append(docs, td{fmt.Sprintf(`{"a":%s,"b":%s}`, l, l), "strs", "$.a", false}, td{l, "strs", "$", true})
	}
	for _, l := range []string{`[{"v":1},{"v":2},{"v":3}]`, `[{"v":2}]`, `[{"v":1,"w":2},{"w":1},{"v":1}]`} {
		docs = append(docs, td{fmt.Sprintf(`{"a":%s,"b":%s}`, l, l), "maps", "$.a", false}, td{l, "maps", "$", true})
	}
	for _, d := range docs {
		lasts := typedLast
		if d.typing == "strs" {
			lasts = append(append([]string{}, typedLast[:14]...), `[?(@ == 'a')]`, `[?(@ != 'a')]`)
		}
		if d.typing == "maps" {
			lasts = append(append([]string{}, typedLast[:14]...), `[?(@.v == 1)]`, `[?(@.v > 1)]`)
		}
		for _, last := range lasts {
			for _, one := range []bool{false, true} {
				ops := []struct{ op, arg string }{{"rem", ""}, {"del", ""}, {"mod", "I"}}
				switch d.typing {
				case "ints", "int64s", "anys":
					ops = append(ops, struct{ op, arg string }{"mod", "N"}, struct{ op, arg string }{"set", "9"})
				case "strs":
					ops = append(ops, struct{ op, arg string }{"set", `"z"`})
				case "maps":
					ops = append(ops, struct{ op, arg string }{"set", `{"v":9}`})
				}
				for _, m := range ops {
					if (m.op == "set" || m.op == "del") && (strings.HasPrefix(last, "[?") || strings.Contains(last, ":")) {
						continue // Set/Del refuse a path that ends in a slice or a filter
					}
					c := xcase{Stream: "typed", Op: m.op, One: one, Path: d.base + last, Doc: d.doc, Shape: d.typing, Arg: m.arg}
					c.runTyped(d.root)
				}
			}
		}
		if d.typing == "maps" {
			// one level further: a name below the typed list
			for _, last := range []string{"[*].v", "[0].v", "[-1].v", "[0,-1].v", "[1:].v", "[?(@.v == 1)].v", "[?(@.v > 1)].w"} {
				for _, one := range []bool{false, true} {
					for _, m := range []struct{ op, arg string }{{"rem", ""}, {"del", ""}, {"mod", "N"}, {"set", "9"}} {
						c := xcase{Stream: "typed", Op: m.op, One: one, Path: d.base + last, Doc: d.doc, Shape: d.typing, Arg: m.arg}
						c.runTyped(d.root)
					}
				}
			}
		}
	}
	// typed maps
	for _, doc := range []string{`{"a":{"x":1,"y":2,"z":3},"b":{"x":1}}`, `{"a":{"x":2},"b":{}}`} {
		for _, last := range []string{".x", ".q", "['x','z']", "[*]", "[?(@ > 1)]", "[?(@ == 1)]"} {
			for _, one := range []bool{false, true} {
				for _, m := range []struct{ op, arg string }{{"rem", ""}, {"del", ""}, {"mod", "N"}, {"mod", "I"}, {"set", "9"}} {
					if (m.op == "set" || m.op == "del") && strings.HasPrefix(last, "[?") {
						continue
					}
					c := xcase{Stream: "typed", Op: m.op, One: one, Path: "$.a" + last, Doc: doc, Shape: "mapint", Arg: m.arg}
					c.runTyped(false)
				}
			}
		}
	}
}

// ---- coll: user collections (jp.Keyed / jp.Indexed / jp.RemovableIndexed) -----------------------------------------

// kmap is a map behind the jp.Keyed interface
type kmap struct{ m map[string]any }

func (k *kmap) ValueForKey(key string) (any, bool) { v, has := k.m[key]; return v, has }
func (k *kmap) SetValueForKey(key string, v any)   { k.m[key] = v }
func (k *kmap) RemoveValueForKey(key string)       { delete(k.m, key) }
func (k *kmap) Keys() []string {
	keys := make([]string, 0, len(k.m))
	for key := range k.m {
		keys = append(keys, key)
	}
	sort.Strings(keys)
	return keys
}

// ilist is a list behind the jp.RemovableIndexed interface
type ilist struct{ s []any }

func (l *ilist) ValueAtIndex(i int) any {
	if i < 0 || len(l.s) <= i {
		return nil
	}
	return l.s[i]
}
func (l *ilist) SetValueAtIndex(i int, v any) {
	if 0 <= i && i < len(l.s) {
		l.s[i] = v
	}
}
func (l *ilist) Size() int { return len(l.s) }
func (l *ilist) RemoveValueAtIndex(i int) {
	if 0 <= i && i < len(l.s) {
		ns := make([]any, 0, len(l.s)-1)
		ns = append(ns, l.s[:i]...)
		l.s = append(ns, l.s[i+1:]...)
	}
}

// rolist is a list behind the plain jp.Indexed interface (elements can be read and set, not removed)
type rolist struct{ s []any }

func (l *rolist) ValueAtIndex(i int) any {
	if i < 0 || len(l.s) <= i {
		return nil
	}
	return l.s[i]
}
func (l *rolist) SetValueAtIndex(i int, v any) {
	if 0 <= i && i < len(l.s) {
		l.s[i] = v
	}
}
func (l *rolist) Size() int { return len(l.s) }

// the document with its maps behind Keyed and its lists behind RemovableIndexed — all of them ("all"), only the maps ("maps"),
// only the lists ("lists"), or all but the root ("inner"): a wrapped member of a plain container and a plain member of a
// wrapped one go through other arms than a uniformly wrapped document
func collDoc(v any, mode string, root bool) any {
	wrapMap := mode == "all" || mode == "maps" || (mode == "inner" && !root)
	wrapList := mode == "all" || mode == "lists" || mode == "indexed" || (mode == "inner" && !root)
	switch t := v.(type) {
	case map[string]any:
		m := map[string]any{}
		for k, e := range t {
			m[k] = collDoc(e, mode, false)
		}
		if wrapMap {
			return &kmap{m}
		}
		return m
	case []any:
		s := make([]any, len(t))
		for i, e := range t {
			s[i] = collDoc(e, mode, false)
		}
		if mode == "indexed" {
			return &rolist{s}
		}
		if wrapList {
			return &ilist{s}
		}
		return s
	}
	return v
}

func endsInSliceOrFilter(p string) bool {
	if strings.HasSuffix(p, ")]") {
		return true
	}
	i := strings.LastIndex(p, "[")
	return i >= 0 && strings.HasSuffix(p, "]") && strings.Contains(p[i:], ":")
}

func (c *xcase) runColl() {
	simple := xcall(c.Op, c.One, c.Path, parseDoc(c.Doc), c.Arg, false)
	mode := c.Shape
	if mode == "" {
		mode = "all"
	}
	cd := collDoc(parseDoc(c.Doc), mode, true)
	before := canonOf(cd)
	impl := xcall(c.Op, c.One, c.Path, cd, c.Arg, false)
	rep.AddEval(2, 1)
	rep.Count("extra.coll."+mode+"."+c.Op, 1)
	if impl.kind == simple.kind && impl.after == simple.after {
		return
	}
	extra := map[string]any{"impl": impl.String(), "expected": simple.String()}
	if impl.kind == "panic" {
		c.finding("violation", "coll-panic", "panic on user collections: "+impl.msg, "", extra)
		return
	}
	if c.One && impl.kind == "ok" && simple.kind == "ok" && impl.after != before && oneCandidates(c)[impl.after] {
		rep.Count("extra.coll.one_other_location", 1)
		return
	}
	// RemoveOne whose last fragment is a name, on Keyed parents: Child.remove does not report `changed` for a Keyed, so the One
	// form does not stop: known only if the result is exactly what Remove (all matches) leaves.
	if c.Op == "rem" && c.One && impl.kind == "ok" && lib.HasKnown(knownList, keyedRemoveOneID) && lastIsName(c.Path) {
		all := xcall("rem", false, c.Path, parseDoc(c.Doc), c.Arg, false)
		if all.kind == "ok" && all.after == impl.after {
			rep.Count("known."+keyedRemoveOneID, 1)
			c.finding("known", "coll-removeone-all", "RemoveOne with a name as last fragment on Keyed collections removes the member from EVERY selected parent (Child.remove never reports a change for a Keyed)", keyedRemoveOneID, extra)
			return
		}
	}
	// Remove / RemoveOne from a list behind the plain jp.Indexed interface (no RemoveValueAtIndex): nothing can be removed, and
	// nothing is reported. Known only if the document is exactly as before.
	if c.Op == "rem" && mode == "indexed" && impl.kind == "ok" && impl.after == before && lib.HasKnown(knownList, indexedRemoveID) {
		rep.Count("known."+indexedRemoveID, 1)
		c.finding("known", "coll-indexed-untouched", "Remove leaves a list behind the plain jp.Indexed interface untouched and reports nothing", indexedRemoveID, extra)
		return
	}
	// Modify / ModifyOne with a filter as last fragment on a Keyed collection: modify.go has no arm for it, nothing happens.
	// Known only if the document is exactly as before.
	if c.Op == "mod" && strings.HasSuffix(c.Path, ")]") && impl.kind == "ok" && impl.after == before && lib.HasKnown(knownList, keyedFilterID) {
		rep.Count("known."+keyedFilterID, 1)
		c.finding("known", "coll-filter-untouched", "Modify with a filter as last fragment leaves a Keyed collection untouched (no arm for Keyed in modify.go's Filter case)", keyedFilterID, extra)
		return
	}
	c.finding("violation", "coll", "user collections (jp.Keyed / jp.RemovableIndexed): the outcome differs from the outcome of the same call on the simple document", "", extra)
}

const keyedRemoveOneID = "C13-removeone-keyed-all"
const keyedFilterID = "C13-modify-filter-keyed-untouched"
const indexedRemoveID = "C13-remove-indexed-silent"

// the path ends in a name (`.x`), not in a bracket
func lastIsName(p string) bool {
	return !strings.HasSuffix(p, "]") && strings.Contains(p, ".")
}

func produceColl(r *lib.Rng) {
	type cd struct {
		doc   string
		paths []string
	}
	listLast := []string{"[0]", "[1]", "[-1]", "[5]", "[0,-1]", "[-2,-1]", "[1:]", "[0:1]", "[::2]", "[-2:]", "[*]", "[?(@ < 3)]", "[?(@ > 1)]"}
	var docs []cd
	for _, l := range []string{`[1,2,3,4]`, `[2]`, `[]`, `[3,1,2,1,3]`} {
		d := cd{doc: fmt.Sprintf(`{"a":%s,"b":%s}`, l, l)}
		for _, last := range listLast {
			d.paths = append(d.paths, "$.a"+last, "$[*]"+last)
		}
		docs = append(docs, d)
	}
	docs = append(docs,
		cd{`{"a":[{"v":1},{"v":2},{"v":3}],"b":[{"v":1}]}`, []string{"$.a[*].v", "$.a[0].v", "$.a[-1].v", "$.a[0,-1].v", "$.a[1:].v", "$.a[?(@.v == 1)].v", "$.a[?(@.v > 1)]", "$.a[?(@.v > 1)].w", "$..v", "$..[0]", "$.a[*]['v','w']", "$.a[1]", "$.a[*]"}},
		cd{`{"a":{"x":1,"y":2,"z":3},"b":{"x":1}}`, []string{"$.a.x", "$.a.q", "$.a['x','z']", "$.a[*]", "$.a[?(@ > 1)]", "$.a[?(@ == 1)]", "$[*].x", "$..x", "$.b", "$.c.d", "$.c[1]"}},
		cd{`{"a":{"l":[1,2,3]},"b":{"l":[1,2,3]}}`, []string{"$.a.l[1:]", "$.a.l[0]", "$.a.l[*]", "$[*].l[0]", "$..l[-1]", "$.a.l[?(@ > 1)]", "$.a.m.n"}},
	)
	for _, d := range docs {
		for _, p := range d.paths {
			for _, one := range []bool{false, true} {
				for _, m := range []struct{ op, arg string }{{"rem", ""}, {"del", ""}, {"mod", "N"}, {"mod", "I"}, {"mod", "C"}, {"set", "9"}} {
					if (m.op == "set" || m.op == "del") && endsInSliceOrFilter(p) {
						continue // Set/Del refuse a path that ends in a slice or a filter
					}
					for _, mode := range []string{"all", "maps", "lists", "inner", "indexed"} {
						c := xcase{Stream: "coll", Op: m.op, One: one, Path: p, Doc: d.doc, Shape: mode, Arg: m.arg}
						c.runColl()
					}
				}
			}
		}
	}
	_ = r
}

// ---- entry points -------------------------------------------------------------------------------------------------

func extraStreams() {
	r := lib.NewRng(*seed ^ 0x5eed)
	produceSelfref(r.Fork(1))
	produceAlias(r.Fork(2))
	produceTyped(r.Fork(3))
	produceColl(r.Fork(4))
}

// replay of a finding of these streams; false: the file holds no such case
func replayExtra(m map[string]any) bool {
	cs, _ := m["xcase"].(string)
	if cs == "" {
		if r, ok := m["replay"].(map[string]any); ok {
			cs, _ = r["xcase"].(string)
		}
	}
	if cs == "" {
		return false
	}
	var c xcase
	if err := json.Unmarshal([]byte(cs), &c); err != nil {
		fmt.Println("bad xcase:", err)
		return true
	}
	*verbose = true
	fmt.Println("case:", c.String())
	switch c.Stream {
	case "selfref":
		// recover the comparison and the operand position from the path text
		opText := ""
		for _, op := range []string{"==", "!=", "<=", ">=", "<", ">"} {
			if opText == "" && strings.Contains(c.Path, " "+op+" ") {
				opText = op
			}
		}
		k := 0
		fmt.Sscanf(c.Path[strings.LastIndex(c.Path, "$.a[")+4:], "%d", &k)
		c.runSelfref(opText, k, strings.Contains(c.Path, "@.v"))
	case "alias":
		kind := byte('n')
		for _, l := range aliasLast {
			if strings.HasSuffix(c.Path, l.text) {
				kind = l.kind
			}
		}
		c.runAlias(kind)
	case "typed":
		c.runTyped(!strings.HasPrefix(c.Path, "$.a"))
	case "coll":
		c.runColl()
	}
	return true
}

var _ = bytes.Compare
var _ = sort.Strings
