package main

import (
	"fmt"
	"math"
	"sort"
	"strconv"
	"strings"

	"verif/harness/lib"
)

// modelled mirrors modelledFns of lean/OjgVerif/Asm/Model.lean (checked against the driver at start-up
// by the "unmodelled" answers, and against the source by Props/C20.lean).
var modelled = []string{"sum", "+", "dif", "-", "product", "*", "quotient", "/", "mod",
	"lt", "<", "lte", "<=", "gt", ">", "gte", ">=", "equal", "eq", "==", "neq", "!=",
	"and", "or", "not", "cond",
	"get", "getall", "set", "setall", "del", "delall", "each", "at", "root", "asm",
	"quote", "list", "nth", "size", "array?", "bool?", "map?", "nil?", "null?", "num?", "string?",
	"append", "float", "include", "int", "join", "replace", "reverse", "sort", "split",
	"string", "substr", "title", "tolower", "toupper", "trim"}

// unmodelledFns: the clock (time, time?, zone) and the printer to stdout (inspect) have crash, determinism,
// print and $.src oracles only.
var unmodelledFns = []string{"inspect", "time", "time?", "zone"}

// eager are the modelled functions whose arguments are all evaluated values (Spec.describe).
var eager = []string{"sum", "+", "dif", "-", "product", "*", "quotient", "/", "mod",
	"lt", "<", "lte", "<=", "gt", ">", "gte", ">=", "equal", "eq", "==", "neq", "!=",
	"and", "or", "not", "at", "root", "list", "nth", "size",
	"array?", "bool?", "map?", "nil?", "null?", "num?", "string?",
	"tolower", "toupper", "title", "trim", "replace", "split", "substr", "join", "int", "float", "string",
	"reverse", "append", "include"}

var mutators = map[string]bool{"set": true, "setall": true, "del": true, "delall": true}

// mayAlias: functions whose result can be (or contain) a container that already exists in the data.
var mayAlias = map[string]bool{"get": true, "getall": true, "nth": true, "each": true, "cond": true, "asm": true,
	"quote": true, "list": true, "append": true, "reverse": true, "sort": true}

var intPool = []int64{0, 1, -1, 2, 3, 5, 7, 10, -7, 42, 100, 1 << 53, 1<<53 + 1, -(1 << 53) - 1, 1<<53 + 2,
	math.MaxInt64, math.MinInt64, 9999999999, 10000000000, 1 << 62}

var floatPool = []float64{0, math.Copysign(0, -1), 1.5, -2.5, 0.1, 0.2, 0.5, 3, 7, -1, 2.25, 1e6, 123456.75, 1e21, 1e-5,
	1 << 53, 9007199254740994, 1e308, 5e-324, math.MaxFloat64, 0.30000000000000004, 1e15, 65536.125}

var strPool = []string{"", "a", "b", "abc", "ab", "x y", "src", "asm", "a.b", "0", "10", "é", "B", "zz", "l[1]", "m.x"}

var keyPool = []string{"a", "b", "c", "l", "m", "s", "x", "y", "n", "f", "t"}

type gen struct {
	r      *lib.Rng
	fns    []string // function pool
	alias  bool     // paths/aliases may be stored (only with a modelled-only pool: the model predicts cycles)
	enum   bool     // wildcard paths allowed
	wild   bool     // complex (unmodelled) path texts allowed
	sloppy int      // percent of calls generated without regard to the signature
}

func (g *gen) pick(xs []string) string { return xs[g.r.Intn(len(xs))] }
func (g *gen) pct(p int) bool          { return g.r.Intn(100) < p }
func (g *gen) pickAny(xs []any) any    { return xs[g.r.Intn(len(xs))] }

func (g *gen) intLit() any {
	if g.pct(70) {
		return intPool[g.r.Intn(10)]
	}
	return intPool[g.r.Intn(len(intPool))]
}

func (g *gen) floatLit() any {
	if g.pct(70) {
		return floatPool[g.r.Intn(12)]
	}
	return floatPool[g.r.Intn(len(floatPool))]
}

func (g *gen) numLit() any {
	if g.pct(60) {
		return g.intLit()
	}
	return g.floatLit()
}

func (g *gen) strLit() any { return g.pick(strPool) }

func (g *gen) scalar() any {
	switch g.r.Intn(8) {
	case 0:
		return nil
	case 1:
		return g.r.Bool()
	case 2, 3:
		return g.intLit()
	case 4, 5:
		return g.floatLit()
	default:
		return g.strLit()
	}
}

// data is a random JSON-like tree (never starts with a function name when it is a list).
func (g *gen) data(depth int) any {
	if depth <= 0 || g.pct(45) {
		return g.scalar()
	}
	if g.r.Bool() {
		n := g.r.Intn(4)
		out := make([]any, 0, n)
		for i := 0; i < n; i++ {
			out = append(out, g.data(depth-1))
		}
		if len(out) > 0 {
			if s, ok := out[0].(string); ok && s != "" { // keep it a literal list: no function name first
				out[0] = int64(len(s))
			}
		}
		return out
	}
	n := g.r.Intn(4)
	out := map[string]any{}
	for i := 0; i < n; i++ {
		out[g.pick(keyPool)] = g.data(depth - 1)
	}
	return out
}

// root builds {src: …} (plus sometimes asm and another member) with the members the path pool names.
func (g *gen) root() map[string]any {
	src := map[string]any{}
	if g.pct(90) {
		src["a"] = g.intLit()
	}
	if g.pct(80) {
		src["b"] = g.numLit()
	}
	if g.pct(70) {
		src["s"] = g.strLit()
	}
	if g.pct(60) {
		src["f"] = g.floatLit()
	}
	if g.pct(85) {
		n := g.r.Intn(5)
		l := make([]any, 0, n)
		kind := g.r.Intn(4)
		for i := 0; i < n; i++ {
			switch kind {
			case 0:
				l = append(l, g.intLit())
			case 1:
				l = append(l, map[string]any{"a": g.intLit(), "x": g.scalar()})
			case 2:
				l = append(l, g.numLit())
			default:
				l = append(l, g.data(2))
			}
		}
		src["l"] = l
	}
	if g.pct(75) {
		m := map[string]any{}
		for _, k := range []string{"x", "y", "z"} {
			if g.pct(70) {
				m[k] = g.data(1)
			}
		}
		src["m"] = m
	}
	if g.pct(30) {
		src["t"] = g.r.Bool()
	}
	if g.pct(30) {
		src["n"] = nil
	}
	root := map[string]any{"src": src}
	if g.pct(8) {
		root["src"] = g.data(2)
	}
	if g.pct(15) {
		root["asm"] = g.data(2)
	}
	if g.pct(10) {
		root["x"] = g.data(1)
	}
	return root
}

var readPaths = []string{"$.src.a", "$.src.b", "$.src.s", "$.src.f", "$.src.l", "$.src.l[0]", "$.src.l[1]", "$.src.l[-1]",
	"$.src.l[9]", "$.src.m", "$.src.m.x", "$.src.m.y", "$.src.t", "$.src.n", "$.src.nope", "$.asm", "$.asm.a", "$.asm.r0",
	"$.asm.r1", "$.src", "$", "$.x", "$.src.l[0].a", "$.src.l[1].x", "$.asm.q[0]",
	"@", "@.src", "@.src.a", "@.src.x", "@.asm", "@.x", "@.a", "@[0]", "@.src.l"}

var writePaths = []string{"$.asm.a", "$.asm.b", "$.asm.r0", "$.asm.r1", "$.asm.r2", "$.asm.a.b", "$.asm.q[2]",
	"$.asm.q[0].z", "$.x", "$.y", "@.x", "@.asm.k", "$.asm.r0", "$.asm.r1", "$.asm.c.d.e", "$.asm.r3", "$.asm.b", "$.asm", "@.asm"}

var srcWritePaths = []string{"$.src.a", "$.src.l[0]", "$.src.m.x", "$.src.z", "$.src.l[5]", "$.src.a.b", "$.src.l[-1]",
	"@.src.a", "@.src.x", "@.src", "$.src", "$", "@", "$.src.l.k", "$.src.m.y.deep", "$.src.s[0]"}

var wildPaths = []string{"$.src.m.*", "$.src.*", "$.src.l.*", "@.src.*", "$.asm.*", "$.*"}

var complexPaths = []string{"$..a", "$.src.l[0:2]", "$.src.l[?(@ > 1)]", "$.src['a','b']", "$.src.l[*]", "$.src.l[0,1]",
	"$.src.m[*]", "$['src'].a", "$.src.l[?(@.a == 1)].x", "@..x", "$.src.l[-2:]", "$x y", "$.", "@@", "$.src.l[1", "$.src.l[*].a"}

func (g *gen) readPath() any {
	if g.enum && g.pct(35) {
		return g.pick(wildPaths)
	}
	if g.wild && g.pct(20) {
		return g.pick(complexPaths)
	}
	return g.pick(readPaths)
}

func (g *gen) writePath() any {
	if g.pct(8) {
		return g.pick(srcWritePaths)
	}
	if g.wild && g.pct(6) {
		return g.pick(complexPaths)
	}
	return g.pick(writePaths)
}

// mapish: a small map (sometimes inside a list) with null values among the members.
func (g *gen) mapish() any {
	m := map[string]any{}
	n := 1 + g.r.Intn(3)
	for i := 0; i < n; i++ {
		var v any
		switch g.r.Intn(4) {
		case 0, 1:
			v = nil
		case 2:
			v = g.intLit()
		default:
			v = g.data(1)
		}
		m[g.pick(keyPool)] = v
	}
	if g.pct(25) {
		return []any{int64(1), m}
	}
	return m
}

// nearMiss: a deep copy of v with one small change that keeps sizes where it can: a key renamed (its
// value kept, or the renamed member made null), a value replaced by null, or nothing changed.
func (g *gen) nearMiss(v any) any {
	c := mustTree(render(v))
	var m map[string]any
	switch t := c.(type) {
	case map[string]any:
		m = t
	case []any:
		for _, x := range t {
			if mm, ok := x.(map[string]any); ok {
				m = mm
			}
		}
	}
	if m == nil || len(m) == 0 {
		return c
	}
	keys := make([]string, 0, len(m))
	for k := range m {
		keys = append(keys, k)
	}
	sortStrings(keys)
	k := keys[g.r.Intn(len(keys))]
	switch g.r.Intn(5) {
	case 0: // same members
	case 1: // key renamed, value kept
		nk := k + "_"
		m[nk] = m[k]
		delete(m, k)
	case 2: // key renamed, the new member holds a value (the old one may have been null)
		delete(m, k)
		m[g.pick([]string{"zz", "q", "k2"})] = g.intLit()
	case 3: // value made null
		m[k] = nil
	default: // key renamed, the new member null
		delete(m, k)
		m[g.pick([]string{"zz", "q", "k2"})] = nil
	}
	return c
}

// kinds of expression asked for
const (
	kAny = iota
	kNum
	kInt
	kStr
	kBool
	kArr
	kScalarish // a value that cannot alias existing data
)

func (g *gen) fnsOf(names ...string) string {
	var ok []string
	for _, n := range names {
		for _, f := range g.fns {
			if f == n {
				ok = append(ok, n)
			}
		}
	}
	if len(ok) == 0 {
		return ""
	}
	return g.pick(ok)
}

func (g *gen) has(name string) bool { return g.fnsOf(name) != "" }

// expr builds an argument expression of the wanted kind (mostly).
func (g *gen) expr(depth, want int) any {
	if want != kScalarish && g.pct(4) {
		want = kAny // ill-typed on purpose
	}
	leaf := depth <= 0 || g.pct(40)
	switch want {
	case kNum, kInt:
		if leaf {
			if g.pct(25) && (g.alias || want != kScalarish) {
				return g.pick([]string{"$.src.a", "$.src.b", "$.src.f", "@.src", "@.src.a", "$.src.l[0]", "$.asm.r0"})
			}
			if want == kInt {
				return g.intLit()
			}
			return g.numLit()
		}
		if want == kInt {
			if f := g.fnsOf("mod", "size", "sum", "product", "dif", "int"); f != "" {
				return g.call(f, depth-1)
			}
		}
		if f := g.fnsOf("sum", "+", "dif", "-", "product", "*", "quotient", "/", "mod", "size", "float", "int"); f != "" {
			return g.call(f, depth-1)
		}
		return g.numLit()
	case kStr:
		if leaf {
			if g.pct(20) {
				return g.pick([]string{"$.src.s", "@.src", "$.src.m.x"})
			}
			return g.strLit()
		}
		if f := g.fnsOf("sum", "+", "string", "join", "replace", "substr", "title", "tolower", "toupper", "trim", "quote"); f != "" {
			return g.call(f, depth-1)
		}
		return g.strLit()
	case kBool:
		if leaf {
			if g.pct(15) {
				return g.pick([]string{"$.src.t", "$.src.n", "@.src"})
			}
			if g.pct(10) {
				return nil
			}
			return g.r.Bool()
		}
		if f := g.fnsOf("lt", "<", "lte", "<=", "gt", ">", "gte", ">=", "eq", "==", "equal", "neq", "!=", "and", "or", "not",
			"array?", "bool?", "map?", "nil?", "null?", "num?", "string?", "time?", "include"); f != "" {
			return g.call(f, depth-1)
		}
		return g.r.Bool()
	case kArr:
		if leaf {
			if g.pct(50) {
				if g.pct(20) {
					return []any{"get", g.pick([]string{"$.src.l", "$.src.m", "$.src.l[0]"})}
				}
				return g.pick([]string{"$.src.l", "$.src.l", "$.asm.q", "@.src", "$.src.m", "@.src.l"})
			}
			n := g.r.Intn(4)
			out := make([]any, 0, n)
			for i := 0; i < n; i++ {
				switch g.r.Intn(3) {
				case 0:
					out = append(out, g.intLit())
				case 1:
					out = append(out, g.floatLit())
				default:
					out = append(out, map[string]any{"a": g.intLit()})
				}
			}
			return out
		}
		if f := g.fnsOf("list", "getall", "each", "reverse", "sort", "split", "append", "get"); f != "" {
			return g.call(f, depth-1)
		}
		return g.pick([]string{"$.src.l"})
	case kScalarish:
		// a scalar literal, or a call of a function that returns fresh data whatever its arguments are
		if leaf {
			return g.scalar()
		}
		var pool []string
		for _, f := range g.fns {
			if !mayAlias[f] && !mutators[f] && f != "inspect" {
				pool = append(pool, f)
			}
		}
		if len(pool) == 0 {
			return g.scalar()
		}
		return g.call(g.pick(pool), depth-1)
	}
	// kAny
	if leaf {
		switch g.r.Intn(10) {
		case 0, 1, 2:
			return g.readPath()
		case 3:
			return g.data(2)
		default:
			return g.scalar()
		}
	}
	return g.call(g.pick(g.fns), depth-1)
}

// args n expressions of one kind
func (g *gen) args(n, depth, kind int) []any {
	out := make([]any, 0, n)
	for i := 0; i < n; i++ {
		out = append(out, g.expr(depth, kind))
	}
	return out
}

// value is what a mutator stores: anything when aliases are allowed, else data that cannot alias.
func (g *gen) value(depth int) any {
	if !g.alias {
		if g.pct(15) {
			return g.data(2)
		}
		return g.expr(depth, kScalarish)
	}
	switch g.r.Intn(10) {
	case 0:
		return g.data(2)
	case 1, 2:
		return g.readPath()
	case 3:
		return g.expr(depth, kArr)
	case 4:
		return g.expr(depth, kBool)
	case 5:
		return g.expr(depth, kStr)
	case 6, 7:
		return g.expr(depth, kNum)
	default:
		return g.expr(depth, kAny)
	}
}

// step is a statement-like call: a mutator, each, cond, or an expression evaluated for nothing.
func (g *gen) step(depth int) any {
	switch g.r.Intn(12) {
	case 0, 1, 2, 3, 4, 5:
		if f := g.fnsOf("set", "set", "set", "setall"); f != "" {
			return []any{f, g.writePath(), g.value(depth)}
		}
	case 6:
		if f := g.fnsOf("del", "delall"); f != "" {
			if g.pct(50) {
				return []any{f, g.pick(srcWritePaths)}
			}
			return []any{f, g.writePath()}
		}
	case 7:
		if g.has("each") && depth > 0 {
			return g.call("each", depth)
		}
	case 8:
		if g.has("cond") && depth > 0 {
			return g.call("cond", depth)
		}
	case 9:
		if g.has("set") && g.has("each") && depth > 0 {
			return []any{"set", g.writePath(), g.call("each", depth)}
		}
	}
	if g.alias {
		return g.expr(depth, kAny)
	}
	return g.expr(depth, kScalarish)
}

func (g *gen) pathArg() any {
	if g.pct(12) && g.has("root") {
		if g.r.Bool() {
			return []any{"root", g.pick([]string{"src", "asm", "src.a", "src.l[1]", "x", "src.m"})}
		}
		return []any{"at", g.pick([]string{"src", "asm", "src.a", "x", "a"}), g.pick([]string{"a", "x", "b", "l[0]"})}
	}
	return g.readPath()
}

// call builds [f args…] following the function's signature, or (sloppy) any arity 0–4 of any kinds.
func (g *gen) call(f string, depth int) any {
	if depth < 0 {
		depth = 0
	}
	if g.pct(g.sloppy) && !mutators[f] {
		n := g.r.Intn(5)
		if !g.alias && mayAlias[f] {
			return append([]any{f}, g.args(n, depth, kScalarish)...)
		}
		return append([]any{f}, g.args(n, depth, kAny)...)
	}
	a := func(xs ...any) any { return append([]any{f}, xs...) }
	switch f {
	case "sum", "+":
		n := g.r.Intn(5)
		if g.pct(25) {
			xs := g.args(n, depth, kNum)
			if n > 0 {
				xs[g.r.Intn(n)] = g.expr(depth, kStr)
			}
			return a(xs...)
		}
		return a(g.args(n, depth, kNum)...)
	case "dif", "-", "product", "*", "quotient", "/":
		return a(g.args(g.r.Intn(5), depth, kNum)...)
	case "mod":
		return a(g.expr(depth, kInt), g.expr(depth, kInt))
	case "lt", "<", "lte", "<=", "gt", ">", "gte", ">=":
		n := g.r.Intn(4) + 1
		if g.pct(25) {
			return a(g.args(n, depth, kStr)...)
		}
		xs := g.args(n, depth, kNum)
		if g.pct(60) { // a literal first: the pinned code only accepts that
			xs[0] = g.numLit()
		}
		return a(xs...)
	case "equal", "eq", "==", "neq", "!=":
		n := g.r.Intn(4) + 1
		switch g.r.Intn(6) {
		case 4, 5:
			// a container and a near miss of it (one key renamed, a value made null, an element dropped),
			// in either order, as literals or fetched by path
			x := g.mapish()
			y := g.nearMiss(x)
			if g.pct(30) {
				x = g.pick([]string{"$.src.m", "$.src.l", "$.src", "$.src.l[0]"})
			}
			if g.r.Bool() {
				x, y = y, x
			}
			return a(x, y)
		case 0:
			return a(g.args(n, depth, kNum)...)
		case 1:
			return a(g.args(n, depth, kStr)...)
		case 2:
			x := g.expr(depth, kAny)
			xs := []any{x}
			for i := 1; i < n; i++ {
				if g.pct(60) {
					xs = append(xs, x)
				} else {
					xs = append(xs, g.expr(depth, kAny))
				}
			}
			return a(xs...)
		default:
			return a(g.args(n, depth, kAny)...)
		}
	case "and", "or":
		return a(g.args(g.r.Intn(4), depth, kBool)...)
	case "not":
		return a(g.expr(depth, kBool))
	case "cond":
		n := g.r.Intn(3) + 1
		var xs []any
		for i := 0; i < n; i++ {
			var v any
			switch g.r.Intn(5) {
			case 0:
				v = g.step(depth - 1)
			case 1:
				v = g.data(1) // a list value exercises evalValue's list branch
			default:
				if g.alias {
					v = g.expr(depth-1, kAny)
				} else {
					v = g.expr(depth-1, kScalarish)
				}
			}
			xs = append(xs, []any{g.expr(depth-1, kBool), v})
		}
		if g.pct(8) {
			xs = append(xs, g.scalar()) // not a pair
		}
		return a(xs...)
	case "get", "getall":
		if g.pct(25) {
			var d any = g.data(2)
			if g.alias && g.pct(50) {
				d = g.readPath()
			}
			return a(g.pick([]string{"$.a", "@.a", "$.x", "$[0]", "@.l[1]", "$.m.x", "$"}), d)
		}
		return a(g.pathArg())
	case "set", "setall":
		return a(g.writePath(), g.value(depth))
	case "del", "delall":
		return a(g.writePath())
	case "each":
		var list any = g.expr(depth-1, kArr)
		if !g.alias || g.pct(50) {
			list = g.pick([]string{"$.src.l", "$.src.l", "$.asm.q", "@.src.l"})
		}
		key := g.pick([]string{"asm", "x", "k"})
		var body any
		switch g.r.Intn(4) {
		case 0:
			body = []any{"set", "@." + key, g.pick([]string{"@.src", "@.src.a"})}
			if !g.alias {
				body = []any{"set", "@." + key, g.expr(depth-1, kScalarish)}
			}
		case 1:
			body = []any{"set", "@." + key, g.value(depth - 1)}
		case 2:
			body = []any{"asm", []any{"set", "@." + key, g.value(depth - 1)}, g.step(depth - 2)}
		default:
			body = g.step(depth - 1)
		}
		if key == "asm" && g.pct(60) {
			return a(list, body)
		}
		return a(list, body, key)
	case "at", "root":
		n := g.r.Intn(3)
		xs := []any{}
		for i := 0; i < n; i++ {
			xs = append(xs, g.pick([]string{"src", "a", "asm", "l[0]", "m.x", "x", "src.a", "*", "a b", ""}))
		}
		return a(xs...)
	case "asm":
		n := g.r.Intn(3) + 1
		xs := []any{}
		for i := 0; i < n; i++ {
			xs = append(xs, g.step(depth-1))
		}
		return a(xs...)
	case "quote":
		if g.pct(50) {
			return a(g.pick([]string{"@.x", "$.src.a", "abc", "+"}))
		}
		return a(g.data(2))
	case "list":
		if !g.alias {
			return a(g.args(g.r.Intn(4), depth, kScalarish)...)
		}
		return a(g.args(g.r.Intn(4), depth, kAny)...)
	case "nth":
		return a(g.expr(depth, kArr), g.pickAny([]any{int64(0), int64(1), int64(-1), int64(5), int64(-9), int64(2)}))
	case "size", "array?", "bool?", "map?", "nil?", "null?", "num?", "string?", "time?", "string", "float", "int":
		return a(g.expr(depth, kAny))
	case "append":
		return a(g.expr(depth, kArr), g.expr(depth, kScalarish))
	case "include":
		if g.r.Bool() {
			return a(g.expr(depth, kStr), g.expr(depth, kStr))
		}
		return a(g.expr(depth, kArr), g.scalar())
	case "inspect":
		return a(g.args(g.r.Intn(3), depth, kScalarish)...)
	case "join":
		if g.r.Bool() {
			return a([]any{"list", "a", "b", g.strLit()}, g.strLit())
		}
		return a(g.expr(depth, kArr))
	case "replace":
		return a(g.expr(depth, kStr), g.strLit(), g.strLit())
	case "reverse":
		return a(g.expr(depth, kArr))
	case "sort":
		return a(g.expr(depth, kArr), g.pick([]string{"@", "@.a", "$.a", "@.x"}))
	case "split":
		return a(g.expr(depth, kStr), g.pick([]string{"", ".", " ", "a"}))
	case "substr":
		if g.r.Bool() {
			return a(g.expr(depth, kStr), g.pickAny([]any{int64(0), int64(1), int64(-1), int64(9)}))
		}
		return a(g.expr(depth, kStr), g.pickAny([]any{int64(0), int64(1), int64(-2)}), g.pickAny([]any{int64(0), int64(1), int64(2), int64(-1), int64(50)}))
	case "time":
		switch g.r.Intn(3) {
		case 0:
			return a(g.intLit())
		case 1:
			return a(g.floatLit())
		default:
			return a(g.pick([]string{"2021-03-05T10:11:12Z", "2021-03-05T10:11:12.123456789+02:00", "nope", ""}))
		}
	case "zone":
		return a([]any{"time", g.pickAny([]any{int64(0), int64(1614939072), "2021-03-05T10:11:12Z"})}, g.pickAny([]any{"UTC", "America/Toronto", "Nowhere/X", int64(60), int64(-3600), 1.5}))
	case "title", "tolower", "toupper":
		return a(g.expr(depth, kStr))
	case "trim":
		if g.r.Bool() {
			return a(g.expr(depth, kStr), g.strLit())
		}
		return a(g.expr(depth, kStr))
	}
	return a(g.args(g.r.Intn(5), depth, kAny)...)
}

// scenario: plans about sharing — a container is stored (a plan literal, or a reference to existing
// data, possibly to an ancestor of the place it is stored at), then edited or traversed through one of
// its names. Only for the modelled pool (the model follows aliases and cycles).
func (g *gen) scenario() []any {
	cont := func() any {
		switch g.r.Intn(6) {
		case 0:
			return map[string]any{"n": g.intLit(), "k": map[string]any{"z": g.scalar()}}
		case 1:
			return []any{g.intLit(), map[string]any{"n": int64(0)}, []any{g.scalar()}}
		case 2:
			return g.pick([]string{"$.src", "$.src.m", "$.src.l", "$.src.l[0]"})
		case 3:
			return g.pick([]string{"$", "$.asm", "@", "@.asm"})
		case 4:
			return []any{"list", g.pick([]string{"$.asm", "$.src.m", "$"}), g.intLit()}
		default:
			return []any{"each", "$.src.l", []any{"set", "@.asm", g.pickAny([]any{map[string]any{"n": int64(0)}, "@.src", "$.src.m", "@"})}}
		}
	}
	place := g.pick([]string{"$.asm", "$.asm.a", "$.asm.a.b", "$.x", "$.asm.q[1]", "$.src.z", "$.src.m.x"})
	under := func() string {
		return place + g.pick([]string{".n", ".k", ".k.z", "[0]", "[1].n", ".self", ".a", ".x", "[-1]"})
	}
	steps := []any{[]any{"set", place, cont()}}
	n := 1 + g.r.Intn(3)
	for i := 0; i < n; i++ {
		switch g.r.Intn(8) {
		case 0, 1:
			steps = append(steps, []any{"set", under(), g.value(1)})
		case 2:
			steps = append(steps, []any{"set", under(), g.pick([]string{place, "$", "$.asm", "$.src"})})
		case 3:
			steps = append(steps, []any{"set", under(), []any{"sum", under(), int64(1)}})
		case 4:
			steps = append(steps, []any{"del", under()})
		case 5:
			steps = append(steps, []any{"set", "$.asm.r" + g.pick([]string{"0", "1"}),
				[]any{g.pick([]string{"eq", "neq", "size", "getall", "get", "map?"}), g.pick([]string{place, "$", "$.asm", "$.src", under()}), g.pick([]string{place, "$", "$.asm", "$.src.m"})}})
		case 6:
			steps = append(steps, []any{"set", g.pick([]string{"$.asm.r0", "$.y", "$.asm.b"}), cont()})
		default:
			steps = append(steps, g.step(1))
		}
	}
	return steps
}

// plan builds a whole plan (the array handed to NewPlan).
func (g *gen) plan() []any {
	if g.alias && g.pct(12) {
		return g.scenario()
	}
	depth := 1 + g.r.Intn(4)
	n := 1 + g.r.Intn(4)
	var steps []any
	for i := 0; i < n; i++ {
		steps = append(steps, g.step(depth-1))
	}
	switch g.r.Intn(12) {
	case 0:
		return append([]any{"asm"}, steps...)
	case 1:
		if c, ok := steps[0].([]any); ok { // a single function call as the whole plan
			return c
		}
	case 2:
		return append([]any{g.pick([]string{"foo", "Sum", "nope"})}, steps...) // unknown name: asm over everything
	}
	return steps
}

func hasMutator(v any) bool {
	switch t := v.(type) {
	case []any:
		if len(t) > 0 {
			if s, ok := t[0].(string); ok && mutators[s] {
				return true
			}
		}
		for _, x := range t {
			if hasMutator(x) {
				return true
			}
		}
	case map[string]any:
		for _, x := range t {
			if hasMutator(x) {
				return true
			}
		}
	}
	return false
}

// ---- the predicate of C20-map-order -------------------------------------------------------------------
// A plan's result may follow Go's map iteration order only where a JSONPath ARGUMENT (never a function
// name, never a plain string) has a wildcard, a recursive descent, a filter, a slice or a union, and that
// fragment ranges over an OBJECT with two or more members in the data. enumSite decides that per case
// from the structure of the plan and the data (the root before and after the runs).

type pfrag struct {
	kind byte // 'c' child, 'i' index, '*' wildcard, 'd' descent, 'e' filter/slice/union
	key  string
	idx  int
}

// splitPath reads a path text ("$.a[1].*", "@..x", "src.l[1]") into fragments; ok=false: not understood.
func splitPath(s string) (frs []pfrag, ok bool) {
	i := 0
	if len(s) > 0 && (s[0] == '$' || s[0] == '@') {
		i = 1
	} else if len(s) > 0 && s[0] != '.' && s[0] != '[' {
		s = "." + s
	}
	name := func() (string, bool) {
		j := i
		for j < len(s) && s[j] != '.' && s[j] != '[' {
			j++
		}
		if j == i {
			return "", false
		}
		n := s[i:j]
		i = j
		return n, true
	}
	for i < len(s) {
		switch s[i] {
		case '.':
			i++
			if i < len(s) && s[i] == '.' {
				i++
				frs = append(frs, pfrag{kind: 'd'})
				if i >= len(s) {
					return frs, true
				}
				if s[i] == '[' {
					continue
				}
			}
			if i < len(s) && s[i] == '*' {
				i++
				frs = append(frs, pfrag{kind: '*'})
				continue
			}
			n, ok := name()
			if !ok {
				return nil, false
			}
			frs = append(frs, pfrag{kind: 'c', key: n})
		case '[':
			depth, q, j := 0, byte(0), i
			for ; j < len(s); j++ {
				c := s[j]
				if q != 0 {
					if c == '\\' {
						j++
					} else if c == q {
						q = 0
					}
					continue
				}
				if c == '\'' || c == '"' {
					q = c
				} else if c == '[' || c == '(' {
					depth++
				} else if c == ']' || c == ')' {
					depth--
					if depth == 0 {
						break
					}
				}
			}
			if j >= len(s) {
				return nil, false
			}
			body := strings.TrimSpace(s[i+1 : j])
			i = j + 1
			switch {
			case body == "*":
				frs = append(frs, pfrag{kind: '*'})
			case strings.HasPrefix(body, "?"):
				frs = append(frs, pfrag{kind: 'e'})
			case len(body) >= 2 && (body[0] == '\'' || body[0] == '"') && body[len(body)-1] == body[0] && !strings.ContainsAny(body[1:len(body)-1], "'\"\\"):
				frs = append(frs, pfrag{kind: 'c', key: body[1 : len(body)-1]})
			case strings.ContainsAny(body, ":,"):
				frs = append(frs, pfrag{kind: 'e'})
			default:
				n, err := strconv.Atoi(body)
				if err != nil {
					return nil, false
				}
				frs = append(frs, pfrag{kind: 'i', idx: n})
			}
		default:
			return nil, false
		}
	}
	return frs, true
}

func hasMultiMap(v any) bool {
	switch t := v.(type) {
	case []any:
		for _, x := range t {
			if hasMultiMap(x) {
				return true
			}
		}
	case map[string]any:
		if len(t) >= 2 {
			return true
		}
		for _, x := range t {
			if hasMultiMap(x) {
				return true
			}
		}
	}
	return false
}

func subtrees(v any, out *[]any) {
	if len(*out) > 5000 {
		return
	}
	*out = append(*out, v)
	switch t := v.(type) {
	case []any:
		for _, x := range t {
			subtrees(x, out)
		}
	case map[string]any:
		for _, x := range t {
			subtrees(x, out)
		}
	}
}

// enumOverObject follows the fragments from the start values: true when an enumerating fragment meets an
// object with two or more members (a descent: anywhere below).
func enumOverObject(frs []pfrag, starts []any) bool {
	cur := starts
	for _, f := range frs {
		var next []any
		switch f.kind {
		case 'c':
			for _, v := range cur {
				if m, ok := v.(map[string]any); ok {
					if x, has := m[f.key]; has {
						next = append(next, x)
					}
				}
			}
		case 'i':
			for _, v := range cur {
				if l, ok := v.([]any); ok {
					j := f.idx
					if j < 0 {
						j += len(l)
					}
					if j >= 0 && j < len(l) {
						next = append(next, l[j])
					}
				}
			}
		case '*', 'e':
			for _, v := range cur {
				switch t := v.(type) {
				case map[string]any:
					if len(t) >= 2 {
						return true
					}
					for _, x := range t {
						next = append(next, x)
					}
				case []any:
					next = append(next, t...)
				}
			}
		case 'd':
			for _, v := range cur {
				if hasMultiMap(v) {
					return true
				}
				subtrees(v, &next)
			}
		}
		if len(next) > 5000 {
			next = next[:5000]
		}
		cur = next
		if len(cur) == 0 {
			return false
		}
	}
	return false
}

// enumSite: some path argument of the plan enumerates an object of the data. datas: the root before the
// run and the roots after the runs (a place the plan builds first shows in the latter). A path from `@`
// (and the arguments of `at`) may start at any value of the data.
func enumSite(plan any, datas []any) bool {
	var anywhere []any
	for _, d := range datas {
		subtrees(d, &anywhere)
	}
	subtrees(plan, &anywhere) // literals of the plan are data, too
	var walk func(v any, head string, argPos bool) bool
	walk = func(v any, head string, argPos bool) bool {
		switch t := v.(type) {
		case string:
			if !argPos || t == "" {
				return false
			}
			var starts []any
			switch {
			case t[0] == '$' || head == "root":
				starts = datas
			case t[0] == '@' || head == "at":
				starts = anywhere
			default:
				return false // a plain string
			}
			frs, ok := splitPath(t)
			if !ok {
				// not understood: only the data can say no
				for _, d := range anywhere {
					if hasMultiMap(d) {
						return strings.ContainsAny(t, "*?:,") || strings.Contains(t, "..")
					}
				}
				return false
			}
			return enumOverObject(frs, starts)
		case []any:
			h := ""
			if len(t) > 0 {
				h, _ = t[0].(string)
			}
			for i, x := range t {
				if i == 0 {
					if fs, isStr := x.(string); isStr && !(fs != "" && (fs[0] == '$' || fs[0] == '@')) {
						continue // the function name (a path text in first position, as in a cond pair, is an argument)
					}
				}
				if walk(x, h, true) {
					return true
				}
			}
		case map[string]any:
			for _, x := range t {
				if walk(x, "", true) {
					return true
				}
			}
		}
		return false
	}
	return walk(plan, "", false)
}

// unorderedText renders a value with every list as a multiset (members sorted by their own text).
func unorderedText(v any) string {
	switch t := v.(type) {
	case []any:
		xs := make([]string, len(t))
		for i, x := range t {
			xs[i] = unorderedText(x)
		}
		sort.Strings(xs)
		return "[" + strings.Join(xs, ",") + "]"
	case map[string]any:
		keys := make([]string, 0, len(t))
		for k := range t {
			keys = append(keys, k)
		}
		sort.Strings(keys)
		var sb strings.Builder
		sb.WriteByte('{')
		for _, k := range keys {
			sb.WriteString("K(" + hexF(k) + ")" + unorderedText(t[k]) + ",")
		}
		sb.WriteByte('}')
		return sb.String()
	}
	return render(v)
}

// memberSwaps: a and b differ only at places where BOTH hold a value that is a member of an object with
// two or more members of the data (or a value the plan holds as a literal): a path that takes the "first"
// match of an enumeration of an object may take any member.
func memberSwaps(a, b any, members map[string]bool) bool {
	if unorderedText(a) == unorderedText(b) {
		return true
	}
	inS := func(v any) bool { return members[render(v)] }
	switch x := a.(type) {
	case []any:
		if y, ok := b.([]any); ok && len(x) == len(y) {
			for i := range x {
				if !memberSwaps(x[i], y[i], members) {
					return inS(a) && inS(b)
				}
			}
			return true
		}
	case map[string]any:
		if y, ok := b.(map[string]any); ok {
			good := true
			for k, xv := range x {
				if yv, has := y[k]; has {
					good = good && memberSwaps(xv, yv, members)
				} else {
					good = good && inS(xv)
				}
			}
			for k, yv := range y {
				if _, has := x[k]; !has {
					good = good && inS(yv)
				}
			}
			if good {
				return true
			}
		}
	}
	return inS(a) && inS(b)
}

// statements: the top-level calls of a plan in evaluation order.
func statements(plan any) []any {
	t, ok := plan.([]any)
	if !ok || len(t) == 0 {
		return []any{plan}
	}
	if h, isStr := t[0].(string); isStr {
		if h == "asm" {
			return t[1:]
		}
		return []any{plan}
	}
	return t
}

// writeTargets: the literal prefixes (keys and non-negative indices from `$`) of the target paths of every
// set/setall/del/delall inside v; a target that is not a literal `$` path gives the empty prefix (anywhere).
func writeTargets(v any, out *[][]pfrag) {
	switch t := v.(type) {
	case []any:
		if len(t) >= 2 {
			if f, ok := t[0].(string); ok && mutators[f] {
				var pre []pfrag
				if p, isStr := t[1].(string); isStr && strings.HasPrefix(p, "$") {
					if frs, ok := splitPath(p); ok {
						for _, fr := range frs {
							if fr.kind == 'c' || (fr.kind == 'i' && fr.idx >= 0) {
								pre = append(pre, fr)
							} else {
								break
							}
						}
					}
				}
				*out = append(*out, pre)
			}
		}
		for _, x := range t {
			writeTargets(x, out)
		}
	case map[string]any:
		for _, x := range t {
			writeTargets(x, out)
		}
	}
}

func fragEq(a, b pfrag) bool { return a.kind == b.kind && a.key == b.key && a.idx == b.idx }

// below: pos is at or below some target; above: some target is at or below pos.
func relTargets(pos []pfrag, targets [][]pfrag) (below, above bool) {
	for _, t := range targets {
		n := len(t)
		if len(pos) < n {
			n = len(pos)
		}
		same := true
		for i := 0; i < n; i++ {
			if !fragEq(pos[i], t[i]) {
				same = false
				break
			}
		}
		if same && len(pos) >= len(t) {
			below = true
		}
		if same && len(pos) <= len(t) {
			above = true
		}
	}
	return
}

// diffConfined: a and b are equal everywhere except at or below the targets (a place that exists on one
// side only may also lie above a target: the write that would have made it did not happen).
func diffConfined(a, b any, pos []pfrag, targets [][]pfrag) bool {
	if render(a) == render(b) {
		return true
	}
	below, _ := relTargets(pos, targets)
	if below {
		return true
	}
	switch x := a.(type) {
	case map[string]any:
		y, ok := b.(map[string]any)
		if !ok {
			return false
		}
		keys := map[string]bool{}
		for k := range x {
			keys[k] = true
		}
		for k := range y {
			keys[k] = true
		}
		for k := range keys {
			p := append(append([]pfrag{}, pos...), pfrag{kind: 'c', key: k})
			xv, hx := x[k]
			yv, hy := y[k]
			if hx && hy {
				if !diffConfined(xv, yv, p, targets) {
					return false
				}
			} else if bl, ab := relTargets(p, targets); !bl && !ab {
				return false
			}
		}
		return true
	case []any:
		y, ok := b.([]any)
		if !ok {
			return false
		}
		for i := 0; i < len(x) || i < len(y); i++ {
			p := append(append([]pfrag{}, pos...), pfrag{kind: 'i', idx: i})
			if i < len(x) && i < len(y) {
				if !diffConfined(x[i], y[i], p, targets) {
					return false
				}
			} else if bl, ab := relTargets(p, targets); !bl && !ab {
				return false
			}
		}
		return true
	}
	return false
}

func memberSet(plan any, datas []any) map[string]bool {
	set := map[string]bool{}
	var all []any
	for _, d := range datas {
		subtrees(d, &all)
	}
	for _, v := range all {
		if m, ok := v.(map[string]any); ok && len(m) >= 2 {
			for _, x := range m {
				set[render(x)] = true
			}
		}
	}
	var lits []any
	subtrees(plan, &lits)
	for _, v := range lits {
		set[render(v)] = true
	}
	return set
}

func usesFn(v any, names map[string]bool) bool {
	switch t := v.(type) {
	case []any:
		if len(t) > 0 {
			if s, ok := t[0].(string); ok && names[s] {
				return true
			}
		}
		for _, x := range t {
			if usesFn(x, names) {
				return true
			}
		}
	}
	return false
}

// framePlan: a plan WITHOUT any mutator in which function f gets data under $.src by reference — a path
// or [get path] — wherever it takes a list, a map or any value. Whatever f does, $.src must read the
// same afterwards (non-interference of the functions not documented to modify their target).
func (g *gen) framePlan(f string) []any {
	call := g.frameCall(f)
	L := func() any { return g.pick([]string{"$.src.l", "$.src.lm", "$.src.m", "$.src"}) }
	switch g.r.Intn(3) {
	case 0:
		return []any{call}
	case 1:
		return []any{call, []any{"size", L()}}
	}
	return []any{[]any{"list", call, L()}}
}

// obsPlan: the value of function f applied to data under $.src (as in framePlan) is STORED, so that it
// shows in the root after the run: whatever f returns — a text, a list, a copy — must be the same on
// every execution (oracle b repeats the execution) and, for a modelled f, what the model says.
func (g *gen) obsPlan(f string) []any {
	call := g.frameCall(f)
	switch g.r.Intn(4) {
	case 0:
		return []any{"set", "$.asm", call}
	case 1:
		return []any{[]any{"set", "$.asm.r0", call}, []any{"set", "$.asm.r1", g.frameCall(f)}}
	case 2:
		return []any{[]any{"set", "$.asm.r0", []any{"list", call, []any{"string", g.pick([]string{"$.src.l", "$.src.ls", "$.src.lm", "$.src"})}}}}
	}
	return []any{[]any{"set", "$.asm.r0", []any{"each", g.pick([]string{"$.src.l", "$.src.lm", "$.src.ls"}), []any{"set", "@.asm", []any{f, "@.src"}}}}}
}

// obsRoot: lists, nested lists and maps whose maps have three to six members (the iteration order of a Go
// map of that size differs from run to run), with unsorted lists beside them.
func (g *gen) obsRoot() map[string]any {
	bigMap := func() map[string]any {
		m := map[string]any{}
		n := 3 + g.r.Intn(4)
		keys := []string{"k", "b", "zz", "a", "q", "x", "m", "d", "y"}
		for i := 0; len(m) < n && i < 40; i++ {
			var v any
			switch g.r.Intn(5) {
			case 0:
				v = g.strLit()
			case 1:
				v = nil
			case 2:
				v = map[string]any{"u": g.intLit(), "t": g.r.Bool(), "s": g.strLit()}
			default:
				v = g.intLit()
			}
			m[keys[g.r.Intn(len(keys))]] = v
		}
		return m
	}
	l := []any{}
	for i, n := 0, 1+g.r.Intn(3); i < n; i++ {
		l = append(l, bigMap())
	}
	lm := []any{}
	for i, n := 0, 2+g.r.Intn(3); i < n; i++ {
		m := bigMap()
		m["a"] = int64(g.r.Intn(9))
		m["x"] = g.pick([]string{"q", "b", "k", "a"})
		lm = append(lm, m)
	}
	nested := []any{[]any{bigMap()}, []any{int64(2), []any{bigMap(), "s"}}}
	src := map[string]any{"l": l, "lm": lm, "ls": nested, "m": bigMap(), "a": int64(1)}
	return map[string]any{"src": src}
}

// frameCall: function f applied to data under $.src handed over by reference — a path or [get path] —
// wherever it takes a list, a map or any value.
func (g *gen) frameCall(f string) any {
	L := func() any {
		p := g.pick([]string{"$.src.l", "$.src.l", "$.src.ls", "$.src.lm", "$.src.m", "$.src.lm[0]", "$.src"})
		if g.pct(30) {
			return []any{"get", p}
		}
		return p
	}
	a := func(xs ...any) any { return append([]any{f}, xs...) }
	var call any
	switch f {
	case "sort":
		call = a(L(), g.pick([]string{"@", "@.a", "@.x", "@[0]"}))
	case "reverse", "size", "string", "array?", "map?", "list", "join", "float", "int", "quote", "inspect":
		call = a(L())
	case "append":
		call = a(L(), g.scalar())
	case "include":
		call = a(L(), g.scalar())
	case "nth":
		call = a(L(), g.pickAny([]any{int64(0), int64(-1), int64(1)}))
	case "each":
		call = a(L(), g.pickAny([]any{[]any{"sum", "@.src", int64(1)}, []any{"size", "@.src"}, []any{"sort", "@.src", "@"},
			[]any{"reverse", "@.src"}, []any{"get", "@.src.a"}}))
	case "get", "getall":
		call = a(g.pick([]string{"$", "$[0]", "$.a", "$.*", "@"}), L())
	case "equal", "eq", "==", "neq", "!=":
		call = a(L(), L())
	case "cond":
		call = a([]any{true, []any{g.pick([]string{"sort", "reverse"}), L(), "@"}})
	case "asm":
		call = a(L(), []any{g.pick([]string{"reverse", "size", "sort"}), "@", "@"})
	default:
		call = g.call(f, 1+g.r.Intn(2))
	}
	return call
}

// frameRoot: unsorted lists (numbers, strings, maps keyed a/x) and maps with null members under $.src.
func (g *gen) frameRoot() map[string]any {
	ints := []any{}
	for i, n := 0, 2+g.r.Intn(4); i < n; i++ {
		ints = append(ints, int64(g.r.Intn(20))-5)
	}
	strs := []any{}
	for i, n := 0, 2+g.r.Intn(3); i < n; i++ {
		strs = append(strs, g.pick([]string{"d", "b", "zz", "a", "c", "B"}))
	}
	lm := []any{}
	for i, n := 0, 2+g.r.Intn(3); i < n; i++ {
		lm = append(lm, map[string]any{"a": int64(g.r.Intn(9)), "x": g.pick([]string{"q", "b", "k", "a"})})
	}
	src := map[string]any{"l": ints, "ls": strs, "lm": lm, "m": map[string]any{"x": nil, "y": int64(2), "z": []any{int64(3), int64(1), int64(2)}}, "a": int64(1)}
	if g.pct(30) {
		src["l"] = []any{[]any{int64(3)}, []any{int64(1)}, []any{int64(2)}}
	}
	return map[string]any{"src": src}
}

// srcSafeMutators: every mutator call of the plan names its target by a literal path that is not under
// $.src and not the whole root/local value. In the streams that never store a reference to existing
// data (alias == false) such a plan cannot reach $.src, so $.src must read the same after the run.
func srcSafeMutators(v any) bool {
	switch t := v.(type) {
	case []any:
		if len(t) > 0 {
			if s, ok := t[0].(string); ok && mutators[s] {
				if len(t) < 2 {
					return true // wrong arity: an error before anything is written
				}
				p, ok := t[1].(string)
				if !ok {
					return false
				}
				safe := false
				for _, pre := range []string{"$.asm", "$.x", "$.y", "@.asm", "@.x", "@.k"} {
					if p == pre || strings.HasPrefix(p, pre+".") || strings.HasPrefix(p, pre+"[") {
						safe = true
					}
				}
				if !safe {
					return false
				}
			}
		}
		for _, x := range t {
			if !srcSafeMutators(x) {
				return false
			}
		}
	case map[string]any:
		for _, x := range t {
			if !srcSafeMutators(x) {
				return false
			}
		}
	}
	return true
}

// eqBoxValues: maps and lists with null members and near-miss key sets, for the exhaustive equality box.
func eqBoxValues() []any {
	m := func(kv ...any) any {
		out := map[string]any{}
		for i := 0; i+1 < len(kv); i += 2 {
			out[kv[i].(string)] = kv[i+1]
		}
		return out
	}
	one := int64(1)
	return []any{m(), m("a", one), m("a", nil), m("b", nil), m("b", one), m("a", one, "b", nil), m("a", one, "c", int64(2)),
		m("a", one, "c", nil), m("a", one, "b", int64(2)), m("a", nil, "b", nil), m("c", nil, "a", one),
		m("a", m("k", nil)), m("a", m("j", one)), m("a", m()), []any{m("a", nil)}, []any{m("b", one)}, []any{nil}, []any{}, nil,
		m("a", []any{nil}), m("a", []any{})}
}

// boxValues: the argument values of the exhaustive function box (every kind, with the boundary values).
func boxValues() []any {
	return []any{nil, true, false, int64(0), int64(1), int64(-3), int64(1<<53 + 1), 1.5, math.Copysign(0, -1), float64(1 << 53),
		"", "a", "b", []any{int64(1), int64(2)}, map[string]any{"a": int64(1)}}
}

// cpathCase: a plan whose get/getall/set/setall take a path COMPUTED from the data by [root …]/[at …], a root
// on which that path is evaluated more than once with different values (per element of each, per step), and
// a second root of the same shape with other keys and values for the reused *Plan.
func (g *gen) cpathCase() (plan []any, root, root2 map[string]any) {
	keys := func() []string {
		ks := append([]string{}, keyPool...)
		for i := len(ks) - 1; i > 0; i-- {
			j := g.r.Intn(i + 1)
			ks[i], ks[j] = ks[j], ks[i]
		}
		return ks
	}
	mkRoot := func() map[string]any {
		ks := keys()
		n := 2 + g.r.Intn(3)
		l := make([]any, 0, n)
		for i := 0; i < n; i++ {
			l = append(l, map[string]any{"k": ks[i], "v": g.scalar(), "w": map[string]any{ks[i]: g.intLit(), ks[i+1]: g.strLit()}})
		}
		src := map[string]any{"l": l, "key": ks[n], "key2": ks[n+1], "val": g.scalar(), "val2": g.numLit(),
			"m": map[string]any{ks[0]: g.intLit(), ks[1]: g.strLit(), ks[n]: g.numLit(), ks[n+1]: g.scalar()}}
		return map[string]any{"src": src}
	}
	root, root2 = mkRoot(), mkRoot()
	setf := g.pick([]string{"set", "set", "setall"})
	getf := g.pick([]string{"get", "get", "getall"})
	mk := g.pick([]string{"root", "at"})
	switch g.r.Intn(7) {
	case 0: // set with a computed path once per element
		plan = []any{[]any{"each", "$.src.l", []any{setf, []any{"root", "asm", "@.src.k"}, "@.src.v"}}}
	case 1: // local target, collected by each
		plan = []any{[]any{"set", "$.asm.r0", []any{"each", "$.src.l", []any{setf, []any{"at", "asm", "@.src.k"}, "@.src.v"}}}}
	case 2: // get with a computed path once per element (the element's own member named by its k)
		plan = []any{[]any{"set", "$.asm.r0", []any{"each", "$.src.l", []any{"set", "@.asm", []any{getf, []any{"at", "src", "w", "@.src.k"}}}}}}
	case 3: // get from the root with a computed path once per element
		plan = []any{[]any{"set", "$.asm.r0", []any{"each", "$.src.l", []any{"set", "@.asm", []any{getf, []any{"root", "src", "m", "@.src.k"}}}}}}
	case 4: // straight line: the path depends on the root (a reused plan meets another root)
		plan = []any{[]any{setf, []any{"root", "asm", "$.src.key"}, "$.src.val"}, []any{setf, []any{"root", "asm", "$.src.key2"}, "$.src.val2"}}
	case 5:
		plan = []any{[]any{"set", "$.asm.r0", []any{getf, []any{mk, "src", "m", "$.src.key"}}},
			[]any{"set", "$.asm.r1", []any{getf, []any{"root", "src", "m", "$.src.key2"}, "$"}}}
	default: // get with explicit data and a computed path, per element, then a computed set
		plan = []any{[]any{"each", "$.src.l", []any{"set", []any{"root", "asm", "@.src.k"}, []any{getf, []any{"at", "w", "@.src.k"}, "@.src"}}}}
	}
	if g.pct(30) {
		plan = append(plan, []any{"set", "$.asm.n", []any{"size", "$.src.l"}})
	}
	return
}

func fmtPlan(p any) string { return show(render(p)) }

func sortStrings(xs []string) { sort.Strings(xs) }

var _ = fmt.Sprint
