package main

import (
	"bufio"
	"bytes"
	"encoding/json"
	"fmt"
	"io"
	"os"
	"os/exec"
	"runtime/debug"
	"strings"
	"sync"
	"syscall"
	"time"

	"github.com/ohler55/ojg/asm"
	"github.com/ohler55/ojg/sen"
)

// The implementation is only ever run inside worker subprocesses: a plan can make the data cyclic and
// a deep traversal of cyclic data overflows the Go stack, which is a fatal error no recover catches.
// The parent sees the worker die (or time out) and records that as the outcome of the case.

// repeatRuns: further executions of every case after the three of oracle (b).
const repeatRuns = 7

// repeatBudget: no further repetition is started once a case has used this much time.
const repeatBudget = 1500 * time.Millisecond

// WRes is everything observed for one case.
type WRes struct {
	NewPanic string `json:"new_panic,omitempty"` // NewPlan panicked
	Nil      bool   `json:"nil,omitempty"`       // NewPlan returned nil
	Simp     string `json:"simp,omitempty"`      // tree text of Plan.Simplify() before execution
	Str      string `json:"str,omitempty"`       // Plan.String() before execution
	StrPanic string `json:"str_panic,omitempty"`
	Run1     string `json:"run1"`             // "<ok|err|panic> <root after>" of the first Execute
	Err1     string `json:"err1,omitempty"`   // error text of run 1
	Run2     string `json:"run2"`             // the same *Plan executed again on an equal fresh root
	Fresh    string `json:"fresh"`            // a freshly built plan on an equal fresh root
	Repeat   string `json:"repeat,omitempty"` // the first of repeatRuns further fresh executions that differs from Fresh ("" = all equal)
	SrcSame  bool   `json:"src_same"`         // $.src after run 1 renders as before
	SrcAfter string `json:"src_after,omitempty"`
	Reparse  string `json:"reparse,omitempty"`     // tree text of sen.Parse(Str) ("" when it does not parse)
	ReparseE string `json:"reparse_err,omitempty"` // parse error
	Rerun    string `json:"rerun,omitempty"`       // NewPlan(sen.Parse(Str)) executed on an equal fresh root
	// the plan is not edited by executing it: Simplify()/String() after run 1 ("" = the same as before)
	SimpAfter string `json:"simp_after,omitempty"`
	StrAfter  string `json:"str_after,omitempty"`
	// a second root (optional): the SAME *Plan, after its runs on the first root, executed on ANOTHER root,
	// and a freshly built plan executed on an equal copy of that other root
	Other      string `json:"other,omitempty"`
	OtherFresh string `json:"other_fresh,omitempty"`
}

func recovered(f func()) (pan string) {
	defer func() {
		if r := recover(); r != nil {
			pan = fmt.Sprint(r)
			if pan == "" {
				pan = "panic"
			}
		}
	}()
	f()
	return ""
}

// execOnce runs Execute under recover: a panic that leaves Execute is the outcome "panic".
func execOnce(p *asm.Plan, root map[string]any) (string, string) {
	var err error
	if pan := recovered(func() { err = p.Execute(root) }); pan != "" {
		return "panic " + render(root), pan
	}
	if err != nil {
		return "err " + render(root), err.Error()
	}
	return "ok " + render(root), ""
}

func freshPlan(planText string) (p *asm.Plan, pan string) {
	src := mustTree(planText).([]any)
	pan = recovered(func() { p = asm.NewPlan(src) })
	return
}

func freshRoot(rootText string) map[string]any { return mustTree(rootText).(map[string]any) }

func runCase(planText, rootText string) *WRes {
	started := time.Now()
	res := &WRes{}
	root2Text := ""
	if tab := strings.IndexByte(rootText, '\t'); tab >= 0 {
		rootText, root2Text = rootText[:tab], rootText[tab+1:]
	}
	p, pan := freshPlan(planText)
	if pan != "" {
		res.NewPanic = pan
		return res
	}
	if p == nil {
		res.Nil = true
		// Execute on the nil plan is still a call a user can make
		var np *asm.Plan
		res.Run1, res.Err1 = execOnce(np, freshRoot(rootText))
		res.Run2, res.Fresh = res.Run1, res.Run1
		res.SrcSame = true
		return res
	}
	res.StrPanic = recovered(func() {
		res.Simp = render(p.Simplify())
		res.Str = p.String()
	})
	root1 := freshRoot(rootText)
	srcBefore := render(root1["src"])
	res.Run1, res.Err1 = execOnce(p, root1)
	srcAfter := render(root1["src"])
	res.SrcSame = srcBefore == srcAfter
	if !res.SrcSame {
		res.SrcAfter = srcAfter
	}
	if res.StrPanic == "" {
		_ = recovered(func() {
			if sa := render(p.Simplify()); sa != res.Simp {
				res.SimpAfter = sa
			}
			if res.SimpAfter != "" { // String() is an unsorted rendering: only reported beside a changed Simplify()
				res.StrAfter = p.String()
			}
		})
	}
	res.Run2, _ = execOnce(p, freshRoot(rootText))
	if root2Text != "" {
		res.Other, _ = execOnce(p, freshRoot(root2Text))
		if po, pano := freshPlan(planText); pano == "" && po != nil {
			res.OtherFresh, _ = execOnce(po, freshRoot(root2Text))
		}
	}
	if p2, pan2 := freshPlan(planText); pan2 == "" && p2 != nil {
		res.Fresh, _ = execOnce(p2, freshRoot(rootText))
		// determinism is a statement about every run: repeat the execution (fresh plan, fresh equal root);
		// anything that follows Go's map iteration order shows within a few repetitions
		// (bounded in time: a case whose executions are slow keeps the three runs of oracle b and gives the
		// watchdog's time to them, not to the repetitions)
		for i := 0; i < repeatRuns && res.Repeat == "" && time.Since(started) < repeatBudget; i++ {
			if pr, panr := freshPlan(planText); panr == "" && pr != nil {
				if out, _ := execOnce(pr, freshRoot(rootText)); out != res.Fresh {
					res.Repeat = out
				}
			}
		}
	}
	if res.StrPanic == "" {
		var parsed any
		var perr error
		if pp := recovered(func() {
			ps := sen.Parser{} // a fresh parser: the package-level one keeps state after an error
			parsed, perr = ps.Parse([]byte(res.Str))
		}); pp != "" {
			res.ReparseE = "panic: " + pp
		} else if perr != nil {
			res.ReparseE = perr.Error()
		} else if list, ok := parsed.([]any); !ok {
			res.ReparseE = fmt.Sprintf("not an array: %T", parsed)
		} else {
			res.Reparse = render(list)
			var p3 *asm.Plan
			if pan3 := recovered(func() { p3 = asm.NewPlan(list) }); pan3 != "" {
				res.Rerun = "newpanic " + pan3
			} else if p3 == nil {
				res.Rerun = "nil"
			} else {
				res.Rerun, _ = execOnce(p3, freshRoot(rootText))
			}
		}
	}
	return res
}

// workerMain is the subprocess: one request line `<plan>\t<root>` in, one JSON line out.
func workerMain() {
	debug.SetMaxStack(48 << 20) // a runaway recursion ends quickly
	// a runaway allocation ends quickly too (and cannot take the machine down): 4 GiB of address space
	_ = syscall.Setrlimit(syscall.RLIMIT_AS, &syscall.Rlimit{Cur: 4 << 30, Max: 4 << 30})
	// inspect prints to os.Stdout: keep the protocol on a private descriptor
	fd, err := syscall.Dup(1)
	if err != nil {
		os.Exit(3)
	}
	out := bufio.NewWriter(os.NewFile(uintptr(fd), "proto"))
	if null, err := os.OpenFile(os.DevNull, os.O_WRONLY, 0); err == nil {
		os.Stdout = null
		_ = syscall.Dup2(int(null.Fd()), 1)
	}
	in := bufio.NewReaderSize(os.Stdin, 1<<20)
	for {
		line, err := in.ReadString('\n')
		if err != nil {
			return
		}
		line = strings.TrimRight(line, "\n")
		tab := strings.IndexByte(line, '\t')
		if tab < 0 {
			os.Exit(3)
		}
		res := runCase(line[:tab], line[tab+1:])
		js, _ := json.Marshal(res)
		out.Write(js)
		out.WriteByte('\n')
		out.Flush()
	}
}

// WOut is the parent's view of one case: a result, or how the worker ended instead.
type WOut struct {
	Res   *WRes
	Crash string // non-empty: the worker died (tail of its stderr) or "timeout"
}

type worker struct {
	cmd    *exec.Cmd
	in     io.WriteCloser
	out    *bufio.Reader
	stderr *tailBuf
}

type tailBuf struct {
	mu  sync.Mutex
	buf []byte
}

func (t *tailBuf) Write(p []byte) (int, error) {
	t.mu.Lock()
	defer t.mu.Unlock()
	if len(t.buf) < 4096 { // the head names the fatal error; the rest is stack frames
		t.buf = append(t.buf, p...)
	}
	return len(p), nil
}

func (t *tailBuf) String() string {
	t.mu.Lock()
	defer t.mu.Unlock()
	s := string(t.buf)
	if i := strings.Index(s, "\n\n"); i > 0 {
		s = s[:i]
	}
	if len(s) > 300 {
		s = s[:300]
	}
	return strings.TrimSpace(s)
}

func startWorker() (*worker, error) {
	cmd := exec.Command(os.Args[0], "-worker")
	in, err := cmd.StdinPipe()
	if err != nil {
		return nil, err
	}
	out, err := cmd.StdoutPipe()
	if err != nil {
		return nil, err
	}
	tb := &tailBuf{}
	cmd.Stderr = tb
	if err := cmd.Start(); err != nil {
		return nil, err
	}
	return &worker{cmd: cmd, in: in, out: bufio.NewReaderSize(out, 1<<20), stderr: tb}, nil
}

func (w *worker) kill() {
	_ = w.in.Close()
	_ = w.cmd.Process.Kill()
	_ = w.cmd.Wait()
}

// ask sends one case; on a dead or silent worker it reports the crash and the caller restarts.
func (w *worker) ask(plan, root string, timeout time.Duration) WOut {
	type ans struct {
		line string
		err  error
	}
	ch := make(chan ans, 1)
	go func() {
		if _, err := io.WriteString(w.in, plan+"\t"+root+"\n"); err != nil {
			ch <- ans{"", err}
			return
		}
		line, err := w.out.ReadString('\n')
		ch <- ans{line, err}
	}()
	select {
	case a := <-ch:
		if a.err != nil {
			_ = w.cmd.Wait()
			msg := w.stderr.String()
			if msg == "" {
				msg = "worker ended: " + a.err.Error()
			}
			return WOut{Crash: msg}
		}
		var r WRes
		if err := json.Unmarshal(bytes.TrimSpace([]byte(a.line)), &r); err != nil {
			return WOut{Crash: "bad worker answer: " + err.Error()}
		}
		return WOut{Res: &r}
	case <-time.After(timeout):
		w.kill()
		return WOut{Crash: "timeout"}
	}
}

// runAll executes the cases on n worker subprocesses; out[i] belongs to cases[i].
func runAll(plans, roots []string, n int, timeout time.Duration) ([]WOut, error) {
	out := make([]WOut, len(plans))
	idx := make(chan int, len(plans))
	for i := range plans {
		idx <- i
	}
	close(idx)
	var wg sync.WaitGroup
	var firstErr error
	var mu sync.Mutex
	for k := 0; k < n; k++ {
		wg.Add(1)
		go func() {
			defer wg.Done()
			var w *worker
			defer func() {
				if w != nil {
					w.kill()
				}
			}()
			for i := range idx {
				if w == nil {
					var err error
					if w, err = startWorker(); err != nil {
						mu.Lock()
						firstErr = err
						mu.Unlock()
						return
					}
				}
				out[i] = w.ask(plans[i], roots[i], timeout)
				if out[i].Crash != "" {
					w.kill()
					w = nil
				}
			}
		}()
	}
	wg.Wait()
	return out, firstErr
}
