// Correspondence and oracle harness for the assembly-plan family (C20).
//
// A case is a plan (the array handed to asm.NewPlan) and a root document. The implementation is run in
// worker subprocesses (worker.go): NewPlan, Simplify/String, Execute twice with the same *Plan on equal
// fresh roots, once with a freshly built plan, and once with the plan rebuilt from its String() text.
// The Lean driver answers the model's prediction under the deviations the tree is expected to have
// (-dev), the documented behaviour (no deviation) and the Simplify form.
//
//	disagreement  implementation != model under -dev                                 (the tie)
//	violation     a panic leaves NewPlan/Execute, the worker dies or hangs;            (a)
//	              two runs of one *Plan, a fresh plan, or any of 7 further repetitions differ; (b)
//	              the plan rebuilt from String() behaves differently;                  (c)
//	              $.src (whole subtree, before/after) changed although the plan calls no  (d)
//	              set/setall/del/delall, or only ones that target places outside $.src
//	              in a stream that never stores references to existing data;
//	              implementation != documented behaviour (model without deviations,    (e)
//	              and Spec.describe on literal arguments)
//	known         a violation explained exactly by an entry of known_findings.json: the result equals
//	              the model's with a minimal set of deviation flags switched on; the worker died of a
//	              stack overflow where the model says the data is cyclic; the runs differ where the
//	              model needs a map iteration order; the SEN text of the plan does not read back as
//	              the plan's data because of a bare string token or an integral float.
package main

import (
	"encoding/json"
	"flag"
	"fmt"
	"hash/fnv"
	"math"
	"os"
	"sort"
	"strconv"
	"strings"
	"time"

	"github.com/ohler55/ojg/asm"

	"verif/harness/lib"
)

var (
	prop     = flag.String("prop", "C20", "property id")
	tier     = flag.String("tier", "quick", "quick|thorough")
	seed     = flag.Uint64("seed", 1, "PRNG seed")
	driver   = flag.String("driver", "", "path of drv_asm")
	outPath  = flag.String("out", "", "report path")
	replay   = flag.String("replay", "", "replay file")
	corpus   = flag.String("corpus", "", "corpus file: <plan tree>\\t<root tree> per line")
	known    = flag.String("known", "", "known_findings.json")
	nworkers = flag.Int("workers", 12, "implementation worker subprocesses")
	dev      = flag.String("dev", "-", "deviations the current tree is expected to have: c lt/lte/gt/gte dispatch on the unevaluated first argument, d float division by zero gives Inf, n cond list value is nil, l plan literals are shared, f comparisons through float64, a a cond list value is the plan's own list; - none")
	isWorker = flag.Bool("worker", false, "run as implementation worker (internal)")
	dump     = flag.Int("dump", 0, "print every n-th case with the implementation's and the model's answer (debugging)")
)

var rep *lib.Report
var knownList []lib.Known

var devIDs = map[byte]string{
	'c': "C20-cmp-unevaluated-first",
	'd': "C20-quotient-float-zero",
	'n': "C20-cond-list-value",
	'l': "C20-literal-aliasing",
	'f': "C20-cmp-float-2p53",
	'a': "C20-cond-list-alias",
}

const (
	idSelfSet  = "C20-set-self-containing"
	idCyclic   = "C20-cyclic-data"
	idMapOrder = "C20-map-order"
	idSenText  = "C20-print-sen-text"
	idCondComp = "C20-cond-compiles-plan-list"
	idAppend   = "C20-append-shares-backing"
)

type kase struct {
	stream string
	plan   string // tree text
	root   string
	root2  string // optional: another root the same *Plan is executed on after its runs on `root` (compared with a fresh plan)
	alias  bool   // the plan may store aliases: run the implementation only where the model has a verdict
	spec   *specQ
}

// specQ asks Spec.describe for `[set $.asm [f args…]]` cases with literal arguments.
type specQ struct {
	fn   string
	args string // tree text of the argument array
}

func devArg(d string) string {
	if d == "" {
		return "-"
	}
	return d
}

func main() {
	flag.Parse()
	if *isWorker {
		workerMain()
		return
	}
	rep = lib.NewReport(*prop, *tier, *seed)
	knownList = lib.LoadKnown(*known, *prop)
	rep.Rule = "violation: crash/hang/escaping panic, runs differ, String() rebuild differs, $.src changed without a mutator, result != documented (model without deviations / Spec.describe); disagreement: implementation != model under -dev " + *dev
	d, err := lib.StartDriver(*driver)
	if err != nil {
		fmt.Fprintln(os.Stderr, "driver:", err)
		os.Exit(3)
	}
	defer d.Close()
	if *replay != "" {
		runReplay(d)
		return
	}
	checkNames(d)
	// an expected-deviation letter is only accepted while its finding is live in known_findings.json
	for _, c := range []byte(*dev) {
		if c == '-' {
			continue
		}
		if id, ok := devIDs[c]; !ok || !lib.HasKnown(knownList, id) {
			rep.Add(lib.Finding{Kind: "violation", Class: "config:dev-letter-not-live", What: "-dev names deviation `" + string(c) + "` (" + devIDs[c] + "), which known_findings.json does not list as a live known finding: the model must run without it",
				Replay: map[string]any{"dev": *dev}})
		}
	}
	cases := buildCases()
	const batch = 4000
	for s := 0; s < len(cases); s += batch {
		e := s + batch
		if e > len(cases) {
			e = len(cases)
		}
		if err := processBatch(d, cases[s:e]); err != nil {
			fmt.Fprintln(os.Stderr, "harness:", err)
			os.Exit(3)
		}
	}
	if err := rep.Write(*outPath); err != nil {
		fmt.Fprintln(os.Stderr, err)
		os.Exit(3)
	}
}

var seenKnown = map[string]bool{}

// watchdog: the time one case may take in a worker before it counts as silent.
const watchdog = 20 * time.Second

// checkNames: the harness's lists of modelled and unmodelled functions are the model's, and together
// they are what asm.FnDocs() registers in the tree under test.
func checkNames(d *lib.Driver) {
	ans, err := d.Ask1("fns")
	if err != nil {
		fmt.Fprintln(os.Stderr, "driver:", err)
		os.Exit(3)
	}
	parts := strings.Split(ans, ";")
	var lean [2][]string
	for i := 0; i < 2 && i < len(parts); i++ {
		for _, h := range strings.Split(parts[i], ",") {
			n, _ := unhexF(h)
			lean[i] = append(lean[i], n)
		}
	}
	mine := [2][]string{append([]string{}, modelled...), allFunctions()[len(modelled):]}
	for i := 0; i < 2; i++ {
		sort.Strings(lean[i])
		sort.Strings(mine[i])
		if strings.Join(lean[i], " ") != strings.Join(mine[i], " ") {
			rep.Add(lib.Finding{Kind: "disagreement", Class: "names:lists", What: "the harness's function lists differ from the model's",
				Replay: map[string]any{"model": lean[i], "harness": mine[i]}})
		}
	}
	var reg []string
	for n := range asm.FnDocs() {
		reg = append(reg, n)
	}
	sort.Strings(reg)
	all := append(append([]string{}, mine[0]...), mine[1]...)
	sort.Strings(all)
	if strings.Join(reg, " ") != strings.Join(all, " ") {
		rep.Add(lib.Finding{Kind: "disagreement", Class: "names:registry", What: "asm.FnDocs() registers other names than the model knows",
			Replay: map[string]any{"registered": reg, "model": all}})
	}
}

// ---------------------------------------------------------------------------------------------
// case streams

func buildCases() []kase {
	full := *tier == "thorough"
	var out []kase
	seen := map[uint64]struct{}{}
	emit := func(k kase) {
		h := fnv.New64a()
		h.Write([]byte(k.plan))
		h.Write([]byte{0})
		h.Write([]byte(k.root))
		key := h.Sum64()
		if _, dup := seen[key]; dup {
			rep.Count("stream.duplicates_skipped", 1)
			return
		}
		seen[key] = struct{}{}
		rep.Count("stream."+k.stream, 1)
		out = append(out, k)
	}
	// corpus
	if *corpus != "" {
		if data, err := os.ReadFile(*corpus); err == nil {
			for _, line := range strings.Split(string(data), "\n") {
				line = strings.TrimSpace(line)
				if line == "" || strings.HasPrefix(line, "#") {
					continue
				}
				f := strings.Split(line, "\t")
				if len(f) != 2 {
					continue
				}
				emit(kase{stream: "corpus", plan: f[0], root: f[1]}) // curated: always executed
			}
		}
	}
	// boundary families named by the property
	for _, b := range boundaryCases() {
		emit(b)
	}
	// exhaustive box: every eager modelled function × every argument kind, arity 0..2 (3 for a sample)
	vals := boxValues()
	boxRoot := render(map[string]any{"src": map[string]any{"a": int64(1)}})
	nbox := 0
	for _, f := range eager {
		var argLists [][]any
		argLists = append(argLists, []any{})
		for _, a := range vals {
			argLists = append(argLists, []any{a})
			for _, b := range vals {
				argLists = append(argLists, []any{a, b})
			}
		}
		for _, args := range argLists {
			call := append([]any{f}, args...)
			emit(kase{stream: "box", plan: render([]any{"set", "$.asm", call}), root: boxRoot, alias: true,
				spec: &specQ{fn: f, args: render(args)}})
			nbox++
		}
	}
	rep.Exhaustive = append(rep.Exhaustive, fmt.Sprintf("every eager modelled function (%d names) applied to every list of at most 2 literal arguments drawn from %d values covering all kinds (null, booleans, int64 incl. 2^53+1, float64 incl. -0 and 2^53, strings, an array, a map): %d plans, each checked against Spec.describe, the model and the documented model", len(eager), len(vals), nbox))

	// exhaustive equality box: every ordered pair of maps/lists with null members and near-miss key sets,
	// as literals and fetched by path, for equal and neq
	ev := eqBoxValues()
	neq := 0
	for _, f := range []string{"equal", "neq"} {
		for i, x := range ev {
			for j, y := range ev {
				emit(kase{stream: "eqbox", plan: render([]any{"set", "$.asm", []any{f, x, y}}), root: boxRoot, alias: true,
					spec: &specQ{fn: f, args: render([]any{x, y})}})
				neq++
				if (i+j)%3 == 0 {
					emit(kase{stream: "eqbox", plan: render([]any{"set", "$.asm", []any{f, "$.src.p", []any{"get", "$.src.q"}}}),
						root: render(map[string]any{"src": map[string]any{"p": x, "q": y}}), alias: true})
					neq++
				}
			}
		}
	}
	rep.Exhaustive = append(rep.Exhaustive, fmt.Sprintf("equal and neq on every ordered pair of %d maps/lists with null members, absent keys and near-miss key sets (same size, one key renamed), as literals and (a third of the pairs) fetched by path: %d plans", len(ev), neq))

	// exhaustive list box: include and append on every list of at most 2 elements over values that Go's == and
	// a by-value comparison tell apart (1 vs 1.0, 2^53 vs its float, nested lists and maps: == on two of them panics)
	{
		lv := []any{int64(1), 1.0, "a", nil, true, []any{}, map[string]any{}, []any{int64(1)}, int64(1 << 53), float64(1 << 53), "", 0.5}
		var lists [][]any
		lists = append(lists, []any{})
		for _, a := range lv {
			lists = append(lists, []any{a})
			for _, b := range lv {
				lists = append(lists, []any{a, b})
			}
		}
		nlist := 0
		for _, f := range []string{"include", "append"} {
			for _, l := range lists {
				var arg any = l
				if len(l) > 0 {
					if _, isStr := l[0].(string); isStr {
						arg = []any{"quote", l}
					}
				}
				for _, v := range lv {
					k := kase{stream: "listbox", plan: render([]any{"set", "$.asm", []any{f, arg, v}}), root: boxRoot, alias: true}
					if _, quoted := arg.([]any); !quoted || len(l) == 0 || arg.([]any)[0] != "quote" {
						k.spec = &specQ{fn: f, args: render([]any{l, v})}
					}
					emit(k)
					nlist++
				}
			}
		}
		for _, sv := range [][]any{{"hello", "ell"}, {"hello", ""}, {"", ""}, {"", "a"}, {"ab", "abc"}, {"abc", "bc"}, {"a", int64(1)}, {int64(1), "a"}} {
			emit(kase{stream: "listbox", plan: render([]any{"set", "$.asm", []any{"include", sv[0], sv[1]}}), root: boxRoot, alias: true,
				spec: &specQ{fn: "include", args: render(sv)}})
			nlist++
		}
		rep.Exhaustive = append(rep.Exhaustive, fmt.Sprintf("include and append on every list of at most 2 elements over %d values (1, 1.0, 2^53 and its float, strings, nil, a boolean, empty and non-empty lists, a map) with every one of those values as second argument, plus substring cases: %d plans, model = implementation = Spec.describe", len(lv), nlist))
	}

	// text box: the text functions on every combination of texts from a pool with repeats, overlaps, blanks, upper
	// case and the characters next to the letters; substr with every small start/count; join over lists of strings
	{
		tp := []any{"", "a", "ab", "aba", "b", " a\t", "A", "a,b,,c", ",", "Zz[`{@", "aaa"}
		ip := []any{int64(-4), int64(-3), int64(-1), int64(0), int64(1), int64(2), int64(3), int64(4), int64(9223372036854775807), int64(-9223372036854775808)}
		ntext := 0
		add := func(f string, args ...any) {
			emit(kase{stream: "textbox", plan: render([]any{"set", "$.asm", append([]any{f}, args...)}), root: boxRoot, alias: true,
				spec: &specQ{fn: f, args: render(args)}})
			ntext++
		}
		for _, a := range tp {
			for _, f := range []string{"tolower", "toupper", "title", "trim", "int", "float", "string"} {
				add(f, a)
			}
			for _, b := range tp {
				for _, f := range []string{"trim", "split", "include"} {
					add(f, a, b)
				}
				for _, c := range []any{"", "a", "b", "xy", ","} {
					add("replace", a, b, c)
				}
			}
			for _, i := range ip {
				add("substr", a, i)
				for _, j := range ip {
					add("substr", a, i, j)
				}
			}
		}
		sp := []any{"a", "", "b,", "c"}
		var sl [][]any
		sl = append(sl, []any{})
		for _, a := range sp {
			sl = append(sl, []any{a})
			for _, b := range sp {
				sl = append(sl, []any{a, b})
				for _, c := range sp {
					sl = append(sl, []any{a, b, c})
				}
			}
		}
		for _, l := range sl {
			arg := []any{"quote", l}
			emit(kase{stream: "textbox", plan: render([]any{"set", "$.asm", []any{"join", arg}}), root: boxRoot, alias: true})
			ntext++
			for _, sep := range []any{"", ",", "ab", int64(5)} {
				emit(kase{stream: "textbox", plan: render([]any{"set", "$.asm", []any{"join", arg, sep}}), root: boxRoot, alias: true})
				ntext++
			}
		}
		for _, v := range []any{"12", "-12", "+7", "007", "", "-", "1x", "9223372036854775807", "9223372036854775808", "-9223372036854775808", "1_0", " 1", "1.5", "-0", "123456789012345", "1234567890123456", "abc", "inf", "NaN", "0x10", "1e3",
			"0.1", "1e-5", ".5", "5.", ".", "1e", "e5", "+.5e+1", "1.5.2", "1E3", "-0.0", "00012.500", "1e400", "-1e400", "1e-400", "4.9e-324", "2e-324",
			"2.5e-324", "0.30000000000000004", "1.7976931348623157e308", "1.7976931348623159e308", "123456789012345678901234567890",
			"9007199254740993", "9007199254740992.5", "1e22", "1e23", "8.41e21", "0.000001", "1 ", "+", "1e+", "1e5e", "Infinity", "pin", "2.2250738585072011e-308"} {
			add("int", v)
			add("float", v)
		}
		for _, v := range []any{1.5, -1.5, 0.5, -0.5, 2.0, 1e18, -1e18, 9.2e18, 1e19, -1e19, math.Copysign(0, -1), 4611686018427387904.0} {
			add("int", v)
			add("float", v)
			add("string", v)
		}
		rep.Exhaustive = append(rep.Exhaustive, fmt.Sprintf("text box: tolower toupper title trim split include replace substr join int float string on every combination of %d texts (repeats, overlaps, blanks, upper case, the characters next to the letters), %d start/count values and lists of at most 3 strings, plus number texts and floats at the int64 boundary: %d plans, model = implementation = Spec.describe", len(tp), len(ip), ntext))
	}

	// order box: every argument of the text/list functions leaves a trace ($.asm.t<i>) when it is evaluated, and
	// exactly one argument has a kind the function rejects: the traces left when the error is raised show the order
	// of evaluation and that the function stops at the first failed assertion
	{
		good := map[string][]any{
			"tolower": {"a"}, "toupper": {"a"}, "title": {"a"}, "trim": {"a", "a"}, "replace": {"a", "a", "b"}, "split": {"a", ","},
			"substr": {"abc", int64(1), int64(1)}, "join": {[]any{"list", "a"}, ","}, "int": {int64(1)}, "float": {int64(1)},
			"string": {int64(1), "%d"}, "reverse": {[]any{"list", int64(1)}}, "append": {[]any{"list", int64(1)}, int64(2)},
			"include": {[]any{"list", int64(1)}, int64(1)}, "sort": {[]any{"list", int64(1)}},
		}
		var names []string
		for f := range good {
			names = append(names, f)
		}
		sortStrings(names)
		norder := 0
		for _, f := range names {
			gs := good[f]
			for j := -1; j < len(gs); j++ { // j = -1: all arguments good
				// a rejected kind (a map, nil), or an argument whose own evaluation raises the error ([not]: wrong arity)
				for _, bad := range []any{map[string]any{}, nil, []any{"list", []any{"not"}}} {
					args := make([]any, 0, len(gs)+1)
					for i, v := range gs {
						if i == j {
							v = bad
						}
						args = append(args, []any{"asm", []any{"set", fmt.Sprintf("$.asm.t%d", i), int64(i)}, []any{"quote", v}})
						if lst, isList := v.([]any); isList && len(lst) > 0 && lst[0] == "list" {
							args[len(args)-1] = []any{"asm", []any{"set", fmt.Sprintf("$.asm.t%d", i), int64(i)}, v}
						}
					}
					if f == "sort" {
						args = append(args, "@")
					}
					emit(kase{stream: "orderbox", plan: render([]any{[]any{"set", "$.asm.r", append([]any{f}, args...)}}), root: boxRoot, alias: true})
					norder++
					if j == -1 {
						break
					}
				}
			}
		}
		rep.Exhaustive = append(rep.Exhaustive, fmt.Sprintf("order box: each of the %d text/list functions with every argument leaving a trace when evaluated and each argument in turn of a rejected kind (a map, nil) or raising the error itself ([not]): %d plans, model = implementation on the traces left at the error", len(names), norder))
	}

	// copy box: the functions documented to return a NEW array (reverse, sort, append, getall, split, list) get a
	// list under $.src of length 0..3, the result is stored and then WRITTEN through: what reaches $.src must be what
	// the model says (only shared elements, never the array itself)
	{
		calls := []any{[]any{"reverse", "$.src.l"}, []any{"sort", "$.src.l", "@"}, []any{"sort", "$.src.l", "@.a"}, []any{"append", "$.src.l", int64(7)},
			[]any{"getall", "$.src.l.*"}, []any{"list", "$.src.l"}, []any{"each", "$.src.l", []any{"set", "@.asm", "@.src"}}}
		writes := []any{[]any{"set", "$.asm.r[0]", int64(9)}, []any{"set", "$.asm.r[-1]", "w"}, []any{"del", "$.asm.r[0]"},
			[]any{"set", "$.asm.r[0].a", int64(9)}, []any{"set", "$.asm.r[0][0]", int64(9)}, []any{"setall", "$.asm.r[1]", nil}}
		ls := []any{[]any{}, []any{int64(5)}, []any{int64(5), int64(3)}, []any{int64(3), int64(5), int64(4)}, []any{map[string]any{"a": int64(1)}},
			[]any{[]any{int64(1)}, []any{int64(2)}}, []any{map[string]any{"a": int64(2)}, map[string]any{"a": int64(1)}}, []any{"b", "a"}}
		ncopy := 0
		for _, c := range calls {
			for _, w := range writes {
				for _, l := range ls {
					emit(kase{stream: "copybox", plan: render([]any{[]any{"set", "$.asm.r", c}, w}),
						root: render(map[string]any{"src": map[string]any{"l": l}}), alias: true})
					ncopy++
				}
			}
		}
		rep.Exhaustive = append(rep.Exhaustive, fmt.Sprintf("copy box: %d list-returning calls × %d writes through the stored result × %d lists under $.src (length 0-3, scalars, maps, nested lists): %d plans, model = implementation (the array given is never the array returned)", len(calls), len(writes), len(ls), ncopy))
	}

	// exhaustive sort box: every list of at most 3 elements over values of every key kind, sorted by the element
	// itself and by its member k (model = implementation, including which comparison raises the error)
	{
		sv := []any{int64(2), int64(1), 1.5, "b", "a", nil, true, map[string]any{"k": int64(1)}, map[string]any{"k": "z"}, map[string]any{"k": 2.5}}
		var lists [][]any
		lists = append(lists, []any{})
		for _, a := range sv {
			lists = append(lists, []any{a})
			for _, b := range sv {
				lists = append(lists, []any{a, b})
				for _, c := range sv {
					lists = append(lists, []any{a, b, c})
				}
			}
		}
		nsort := 0
		for _, l := range lists {
			if len(l) > 0 {
				if _, isStr := l[0].(string); isStr {
					l = append([]any{int64(0)}, l...) // keep it a literal list (a leading string could name a function)
				}
			}
			for _, pth := range []string{"@", "@.k"} {
				emit(kase{stream: "sortbox", plan: render([]any{"set", "$.asm", []any{"sort", l, pth}}), root: boxRoot, alias: true})
				nsort++
			}
		}
		// keys of one kind with ties: the order of equal keys is the order an insertion sort leaves (stable)
		for _, pool := range [][]any{
			{int64(1), int64(2), 1.0, 2.5, math.Copysign(0, -1), int64(0)},
			{"a", "b", "ab", "", "B"},
			{map[string]any{"k": int64(1), "i": int64(0)}, map[string]any{"k": int64(1), "i": int64(1)}, map[string]any{"k": 1.0, "i": int64(2)},
				map[string]any{"k": int64(0), "i": int64(3)}, map[string]any{"k": "x", "i": int64(4)}, map[string]any{"i": int64(5)}},
		} {
			var ls [][]any
			ls = append(ls, []any{})
			for n := 1; n <= 4; n++ {
				idx := make([]int, n)
				for {
					l := make([]any, n)
					for i, j := range idx {
						l[i] = pool[j]
					}
					ls = append(ls, l)
					p := n - 1
					for p >= 0 {
						idx[p]++
						if idx[p] < len(pool) {
							break
						}
						idx[p] = 0
						p--
					}
					if p < 0 {
						break
					}
				}
			}
			for _, l := range ls {
				pth := "@"
				if len(l) > 0 {
					if _, isMap := l[0].(map[string]any); isMap {
						pth = "@.k"
					}
				}
				var arg any = l
				if len(l) > 0 {
					if _, isStr := l[0].(string); isStr {
						arg = []any{"quote", l} // a list that starts with a string: keep it a literal
					}
				}
				emit(kase{stream: "sortbox", plan: render([]any{"set", "$.asm", []any{"sort", arg, pth}}), root: boxRoot, alias: true})
				nsort++
			}
		}
		for _, n := range []int{11, 12, 13, 14} { // the insertion-sort threshold of sort.Slice: 13 and more are outside the model
			l := make([]any, n)
			for i := range l {
				l[i] = int64((i * 7) % n)
			}
			emit(kase{stream: "sortbox", plan: render([]any{"set", "$.asm", []any{"sort", l, "@"}}), root: boxRoot, alias: true})
			nsort++
		}
		rep.Exhaustive = append(rep.Exhaustive, fmt.Sprintf("sort of every list of at most 3 elements drawn from %d values (ints, a float, strings, nil, a boolean, maps with an int, a string and a float member k) by the element and by its member k, and of 11-14 integers: %d plans, model = implementation", len(sv), nsort))
	}

	r := lib.NewRng(*seed)
	nModel, nAll, nEnum, nMal, nTriple, nFrame, nObs := 9000, 5000, 1500, 1500, 2500, 4000, 4000
	nCpath := 1200
	if full {
		nModel, nAll, nEnum, nMal, nTriple, nFrame, nObs = 160000, 90000, 20000, 25000, 40000, 60000, 50000
		nCpath = 20000
	}
	// frame: mutator-free plans that hand data under $.src by reference to every function in turn
	{
		var pool []string
		for _, f := range allFunctions() {
			if !mutators[f] {
				pool = append(pool, f)
			}
		}
		gf := &gen{r: r.Fork(6), fns: pool, alias: true, sloppy: 10}
		for i := 0; i < nFrame; i++ {
			f := pool[i%len(pool)]
			if i%3 == 0 { // the functions that take a list get it more often
				f = gf.pick([]string{"sort", "reverse", "append", "each", "join", "include", "nth", "list", "equal", "getall", "string", "cond", "asm"})
			}
			emit(kase{stream: "frame", plan: render(gf.framePlan(f)), root: render(gf.frameRoot())})
		}
		// obs: the same calls with their value stored, on roots whose maps have 3-6 members inside lists and
		// nested lists: the value must be the same on every one of the repeated executions
		gobs := &gen{r: r.Fork(7), fns: pool, alias: true, sloppy: 10}
		for i := 0; i < nObs; i++ {
			f := pool[i%len(pool)]
			root := gobs.obsRoot()
			if i%4 == 0 {
				root = gobs.frameRoot()
			}
			emit(kase{stream: "obs", plan: render(gobs.obsPlan(f)), root: render(root)})
		}
	}
	// three-argument literal calls (random sample of the box's continuation)
	g3 := &gen{r: r.Fork(5)}
	for i := 0; i < nTriple; i++ {
		f := eager[g3.r.Intn(len(eager))]
		n := 3 + g3.r.Intn(2)
		args := make([]any, 0, n)
		for j := 0; j < n; j++ {
			if g3.pct(50) {
				args = append(args, vals[g3.r.Intn(len(vals))])
			} else {
				args = append(args, g3.scalar())
			}
		}
		emit(kase{stream: "box3", plan: render([]any{"set", "$.asm", append([]any{f}, args...)}), root: boxRoot, alias: true,
			spec: &specQ{fn: f, args: render(args)}})
	}
	// cpath: get/getall/set/setall whose PATH is computed by [root …]/[at …] from the data, evaluated more than
	// once with different data (inside each; the same *Plan on a second, different root): the path must be
	// formed anew on every evaluation
	gc := &gen{r: r.Fork(8), fns: modelled, alias: false}
	for i := 0; i < nCpath; i++ {
		plan, root, root2 := gc.cpathCase()
		emit(kase{stream: "cpath", plan: render(plan), root: render(root), root2: render(root2)})
	}
	// append2: several appends to one list (a list with spare capacity: parsed data, results of list/getall/
	// append), every result stored
	gap := &gen{r: r.Fork(10), fns: modelled}
	for i := 0; i < nCpath/2; i++ {
		L := gap.pick([]string{"$.src.l", "$.asm.r", "$.src.m.x"})
		mk := []any{"set", "$.asm.r", gap.pickAny([]any{[]any{"list", int64(1), int64(2), int64(3)}, []any{"append", []any{"list", "a"}, "b"},
			[]any{"getall", "$.src.l.*"}, []any{"append", "$.src.l", gap.scalar()}, []any{"reverse", "$.src.l"}})}
		plan := []any{mk, []any{"set", "$.asm.a", []any{"append", L, gap.scalar()}}, []any{"set", "$.asm.b", []any{"append", L, gap.scalar()}}}
		if gap.pct(40) {
			plan = append(plan, []any{"set", "$.asm.c", []any{"each", "$.src.l", []any{"set", "@.asm", []any{"append", L, "@.src"}}}})
		}
		root := map[string]any{"src": map[string]any{"l": []any{gap.scalar(), gap.scalar(), gap.scalar()}, "m": map[string]any{"x": []any{gap.intLit()}}}}
		emit(kase{stream: "append2", plan: render(plan), root: render(root), alias: true})
	}
	g2 := &gen{r: r.Fork(9), fns: modelled} // second roots: a generator of their own, so that the streams stay as they were
	gm := &gen{r: r.Fork(1), fns: modelled, alias: true, sloppy: 20}
	for i := 0; i < nModel; i++ {
		k := kase{stream: "model", plan: render(gm.plan()), root: render(gm.root()), alias: true}
		if i%4 == 0 { // the same *Plan is also executed on a second, different root
			k.root2 = render(g2.root())
		}
		emit(k)
	}
	all := allFunctions()
	ga := &gen{r: r.Fork(2), fns: all, alias: false, wild: true, sloppy: 25}
	for i := 0; i < nAll; i++ {
		k := kase{stream: "allfn", plan: render(ga.plan()), root: render(ga.root())}
		if i%4 == 0 {
			k.root2 = render(g2.root())
		}
		emit(k)
	}
	ge := &gen{r: r.Fork(3), fns: modelled, alias: false, enum: true, sloppy: 10}
	for i := 0; i < nEnum; i++ {
		emit(kase{stream: "enum", plan: render(ge.plan()), root: render(ge.root())})
	}
	gx := &gen{r: r.Fork(4), fns: all, alias: false, wild: true, sloppy: 100}
	for i := 0; i < nMal; i++ {
		emit(kase{stream: "malformed", plan: render(malformed(gx)), root: render(gx.root())})
	}
	return out
}

func allFunctions() []string {
	return append(append([]string{}, modelled...), unmodelledFns...)
}

// malformed plans: wrong arities and kinds everywhere, odd top-level shapes.
func malformed(g *gen) []any {
	switch g.r.Intn(8) {
	case 0:
		return []any{}
	case 1:
		return []any{g.scalar(), g.scalar()}
	case 2:
		return []any{"", g.scalar()}
	case 3:
		return []any{g.pick(g.fns)}
	case 4:
		return []any{[]any{}, []any{[]any{}}, map[string]any{}}
	case 5:
		return []any{"cond", g.scalar(), []any{true}, []any{true, int64(1), int64(2)}}
	}
	n := 1 + g.r.Intn(3)
	var steps []any
	for i := 0; i < n; i++ {
		f := g.pick(g.fns)
		if mutators[f] {
			steps = append(steps, append([]any{f}, g.args(g.r.Intn(4), 1, kScalarish)...))
			continue
		}
		steps = append(steps, g.call(f, 1+g.r.Intn(2)))
	}
	return steps
}

func boundaryCases() []kase {
	src := map[string]any{"a": int64(1), "b": int64(2), "f": 1.5, "s": "x", "l": []any{int64(1), int64(2), int64(3)},
		"m": map[string]any{"x": int64(1), "y": int64(2), "z": int64(3)}}
	root := render(map[string]any{"src": src})
	mk := func(name string, plan ...any) kase {
		return kase{stream: "boundary." + name, plan: render(plan), root: root, alias: true}
	}
	big := int64(1<<53 + 1)
	out := []kase{
		mk("cmp-path-first", "set", "$.asm", []any{"lt", "$.src.a", int64(5)}),
		mk("cmp-path-second", "set", "$.asm", []any{"lt", int64(1), "$.src.b"}),
		mk("cmp-call-first", "set", "$.asm", []any{"gte", []any{"sum", int64(1), int64(2)}, int64(3)}),
		mk("div-float-zero", "set", "$.asm", []any{"/", 1.5, int64(0)}),
		mk("div-zero-zero", "set", "$.asm", []any{"quotient", 0.0, 0.0}),
		mk("div-int-zero", "set", "$.asm", []any{"/", int64(1), int64(0)}),
		mk("mod-zero", "set", "$.asm", []any{"mod", int64(1), int64(0)}),
		mk("minint-div", "set", "$.asm", []any{"/", int64(math.MinInt64), int64(-1)}),
		mk("minint-mod", "set", "$.asm", []any{"mod", int64(math.MinInt64), int64(-1)}),
		mk("wrap-sum", "set", "$.asm", []any{"+", int64(math.MaxInt64), int64(1)}),
		mk("wrap-product", "set", "$.asm", []any{"*", int64(1 << 62), int64(4), int64(3)}),
		mk("cond-list", "set", "$.asm", []any{"cond", []any{true, []any{int64(1), int64(2), int64(3)}}}),
		mk("cond-fn", "set", "$.asm", []any{"cond", []any{false, int64(1)}, []any{[]any{"lt", int64(1), int64(2)}, []any{"list", int64(1)}}}),
		mk("cond-list-alias", []any{"set", "$.asm", []any{"cond", []any{true, []any{int64(0), int64(7)}}}}, []any{"set", "$.asm[0]", []any{"sum", "$.asm[0]", int64(1)}}),
		mk("literal-alias", []any{"set", "$.asm", map[string]any{"n": int64(0)}}, []any{"set", "$.asm.n", []any{"sum", "$.asm.n", int64(1)}}),
		mk("literal-alias-each", []any{"set", "$.asm", []any{"each", "$.src.l", []any{"set", "@.asm", map[string]any{"n": int64(0)}}}},
			[]any{"set", "$.asm[0].n", int64(5)}),
		mk("eq-2p53", "set", "$.asm", []any{"eq", float64(1 << 53), big, int64(1 << 53)}),
		mk("lt-2p53", "set", "$.asm", []any{"lt", int64(1 << 53), big}),
		mk("lt-maxint-2p63", "set", "$.asm", []any{"lt", int64(math.MaxInt64), 9223372036854775808.0}),
		mk("gte-maxint-2p63", "set", "$.asm", []any{"gte", int64(math.MaxInt64), 9223372036854775808.0}),
		mk("eq-minint-float", "set", "$.asm", []any{"eq", int64(math.MinInt64), -9223372036854775808.0, int64(math.MinInt64)}),
		mk("neq-maxint-2p63", "set", "$.asm", []any{"neq", 9223372036854775808.0, int64(math.MaxInt64)}),
		mk("lt-int-frac", "set", "$.asm", []any{"lt", int64(1), 1.5, int64(2), 2.25, 1e21}),
		mk("gt-big-float", "set", "$.asm", []any{"gt", 1e21, int64(math.MaxInt64), big, float64(1 << 53), int64(1<<53 - 1)}),
		mk("lte-chain-2p53", "set", "$.asm", []any{"lte", int64(1 << 53), float64(1 << 53), big, 9007199254740994.0}),
		mk("lt-neg-2p53", "set", "$.asm", []any{"lt", int64(-(1 << 53) - 1), -float64(1 << 53)}),
		mk("cyclic-eq", []any{"set", "$.asm", map[string]any{}}, []any{"set", "$.asm.a", "$.asm"}, []any{"set", "$.x", []any{"eq", "$.asm", "$.asm"}}),
		mk("cyclic-root", []any{"set", "$.asm", "$"}, []any{"set", "$.y", []any{"neq", "$", "$.asm"}}),
		mk("cyclic-only", []any{"set", "$.asm", "$"}),

		mk("map-order", "set", "$.asm", []any{"getall", "$.src.m.*"}),
		mk("map-order-first", "set", "$.asm", []any{"get", "$.src.m.*"}),
		mk("print-plus", "set", "$.asm", []any{"+", int64(3), int64(4)}),
		mk("print-minus", "set", "$.asm", []any{"-", int64(3), int64(4)}),
		mk("print-float", "set", "$.asm", []any{"/", 7.0, int64(2)}),
		mk("print-true-string", "set", "$.asm", []any{"+", "true", "x"}),
		mk("each-alias-src", []any{"each", "$.src.l", []any{"set", "@.src", int64(0)}}, []any{"set", "$.asm", "$.src.l"}),
		mk("set-through-alias", []any{"set", "$.asm", "$.src"}, []any{"set", "$.asm.a", int64(99)}),
		mk("deep", "set", "$.asm", []any{"sum", []any{"product", []any{"dif", []any{"quotient", int64(100), int64(7)}, int64(1)}, int64(3)}, int64(1)}),
		mk("sum-strings", "set", "$.asm", []any{"sum", int64(1), int64(2), "x", int64(3), 1.5, "y"}),
		mk("sum-negzero", "set", "$.asm", []any{"sum", math.Copysign(0, -1)}),
		mk("root-at", []any{"set", "$.asm", []any{"get", []any{"root", "src", "l[1]"}}}, []any{"set", "$.p", []any{"at", "x"}}),
	}
	out = append(out, kase{stream: "boundary.nil-plan", plan: "[]", root: root, alias: true})
	if *tier == "thorough" { // costs the watchdog's 20 s of one worker: not in the quick tier
		out = append(out, kase{stream: "boundary.set-descent-self", root: root,
			plan: render([]any{[]any{"setall", "$..a", map[string]any{}}, []any{"setall", "$..a", map[string]any{}}})})
	}
	return out
}

// ---------------------------------------------------------------------------------------------
// judging

type verdicts struct {
	cur, ideal, simp, spec string
}

func modelled1(ans string) bool { // the model has a verdict for every run
	for _, p := range strings.Split(ans, ";") {
		if !(strings.HasPrefix(p, "ok ") || strings.HasPrefix(p, "err ")) {
			return false
		}
	}
	return ans != ""
}

func hasStop(ans, what string) bool {
	for _, p := range strings.Split(ans, ";") {
		if p == what {
			return true
		}
	}
	return false
}

func processBatch(d *lib.Driver, cases []kase) error {
	var reqs []string
	for _, k := range cases {
		reqs = append(reqs, "run\t"+devArg(*dev)+"\t2\t"+k.plan+"\t"+k.root)
		reqs = append(reqs, "run\t-\t2\t"+k.plan+"\t"+k.root)
		reqs = append(reqs, "simp\t"+k.plan)
		if k.spec != nil {
			reqs = append(reqs, "spec\t"+hexF(k.spec.fn)+"\t-\t"+k.spec.args)
		} else {
			reqs = append(reqs, "simp\t[]")
		}
	}
	ans, err := d.Ask(reqs)
	if err != nil {
		return err
	}
	// a plan that may store aliases meets its second root only where the model follows it to the end there too
	{
		var reqs2 []string
		var at []int
		for i, k := range cases {
			if k.alias && k.root2 != "" {
				reqs2 = append(reqs2, "run\t"+devArg(*dev)+"\t2\t"+k.plan+"\t"+k.root2)
				at = append(at, i)
			}
		}
		if len(reqs2) > 0 {
			ans2, err := d.Ask(reqs2)
			if err != nil {
				return err
			}
			for j, i := range at {
				if !modelled1(ans2[j]) {
					cases[i].root2 = ""
					rep.Count("skipped.second-root-outside-model", 1)
				}
			}
		}
	}
	vs := make([]verdicts, len(cases))
	var plans, roots []string
	var idx []int
	for i, k := range cases {
		vs[i] = verdicts{cur: ans[4*i], ideal: ans[4*i+1], simp: ans[4*i+2], spec: ans[4*i+3]}
		for _, a := range []string{vs[i].cur, vs[i].ideal, vs[i].simp} {
			if a == "bad-op" || hasStop(a, "fuel") || hasStop(a, "layout") {
				rep.Add(lib.Finding{Kind: "disagreement", Class: "driver:" + a, What: "the driver could not read or finish the case (fuel), or the heap it built does not have the layout the general theorems assume (layout)",
					Replay: replayOf(k)})
			}
		}
		// a plan that may store aliases is only executed where the model follows it to the end (or
		// names the point where Go cannot): past an unmodelled step the data may be cyclic
		if k.alias && !(modelled1(vs[i].cur) || hasStop(vs[i].cur, "diverge")) {
			rep.Count("skipped.alias-plan-outside-model", 1)
			continue
		}
		idx = append(idx, i)
		plans = append(plans, k.plan)
		if k.root2 != "" {
			roots = append(roots, k.root+"\t"+k.root2)
		} else {
			roots = append(roots, k.root)
		}
	}
	outs, err := runAll(plans, roots, *nworkers, watchdog)
	if err != nil {
		return err
	}
	for j, i := range idx {
		if *dump > 0 && i%*dump == 0 && outs[j].Res != nil {
			fmt.Printf("[%s] %s\n   root %s\n   impl  %s | %s\n   model %s\n   ideal %s\n", cases[i].stream, show(cases[i].plan), show(cases[i].root),
				outs[j].Res.Run1, outs[j].Res.Err1, vs[i].cur, vs[i].ideal)
		}
		judge(d, &cases[i], outs[j], vs[i])
	}
	return nil
}

func replayOf(k kase) map[string]any {
	if k.root2 != "" {
		return map[string]any{"plan": k.plan, "root": k.root, "root2": k.root2, "plan_text": show(k.plan), "root_text": show(k.root), "root2_text": show(k.root2), "stream": k.stream}
	}
	return map[string]any{"plan": k.plan, "root": k.root, "plan_text": show(k.plan), "root_text": show(k.root), "stream": k.stream}
}

// addKnown: known_findings.json is the authority. Only an id of its `known` list (for this property) is
// reported as a known finding; an id that is not listed there — one that moved to `fixed`, or was never
// recorded — is a VIOLATION, whatever -dev says.
func addKnown(k *kase, id, class, what string) {
	if !lib.HasKnown(knownList, id) {
		violation(k, "unlisted-known:"+id+":"+class, "the behaviour recorded as "+id+" was observed, but known_findings.json does not list that id as a live known finding of "+*prop+" (it is fixed, or was never recorded): "+what, nil)
		return
	}
	seenKnown[id] = true
	rep.Add(lib.Finding{Kind: "known", Class: class, What: what, Replay: replayOf(*k), KnownID: id})
}

func violation(k *kase, class, what string, extra map[string]any) {
	r := replayOf(*k)
	for a, b := range extra {
		r[a] = b
	}
	rep.Add(lib.Finding{Kind: "violation", Class: class, What: what, Replay: r})
}

func disagreement(k *kase, class, what string, extra map[string]any) {
	r := replayOf(*k)
	for a, b := range extra {
		r[a] = b
	}
	rep.Add(lib.Finding{Kind: "disagreement", Class: class, What: what, Replay: r})
}

func judge(d *lib.Driver, k *kase, w WOut, v verdicts) {
	nontrivial := int64(0)
	defer func() { rep.AddEval(1, nontrivial) }()
	base := strings.SplitN(k.stream, ".", 2)[0]
	// (a) the worker died or hung
	if w.Crash == "timeout" && !descentSetOfContainer(mustTree(k.plan)) {
		// a silent worker among thousands of cases may be a slow machine: the plan runs again, alone, in a
		// fresh worker with ten times the time; only a second silence is reported
		again, err := runAll([]string{k.plan}, []string{k.root}, 1, 10*watchdog)
		if err == nil && len(again) == 1 && again[0].Crash != "timeout" {
			rep.Count("slow."+base, 1)
			w = again[0]
		} else {
			w.Crash = "timeout-confirmed"
		}
	}
	if w.Crash != "" {
		overflow := strings.Contains(w.Crash, "stack overflow") || strings.Contains(w.Crash, "goroutine stack exceeds")
		oom := strings.Contains(w.Crash, "out of memory") || strings.Contains(w.Crash, "cannot allocate memory")
		switch {
		case (w.Crash == "timeout" || oom) && descentSetOfContainer(mustTree(k.plan)):
			nontrivial = 1
			addKnown(k, idSelfSet, "hang:set-self-containing", "set/setall with a recursive descent in the path and a container value: jp.Set stores the value by reference and the descent walks into what it has just stored (C13-set-self-containing): the call does not end (memory grows until the watchdog or the address-space limit stops the worker)")
		case w.Crash == "timeout-confirmed":
			violation(k, "timeout:"+base, fmt.Sprintf("the implementation did not finish within the watchdog time (%v), and again not when run alone in a fresh process with %v", watchdog, 10*watchdog), nil)
		case overflow && hasStop(v.cur, "diverge"):
			nontrivial = 1
			addKnown(k, idCyclic, "crash:cyclic", "the plan makes the data cyclic and then traverses it: fatal stack overflow (the model says `diverge`)")
		default:
			violation(k, "crash:"+base, "the process running the plan died: "+w.Crash, map[string]any{"model": v.cur})
		}
		return
	}
	if hasStop(v.cur, "diverge") {
		disagreement(k, "model:diverge-not-observed", "the model says the evaluation does not end, the implementation returned", map[string]any{"impl": w.Res.Run1})
		return
	}
	r := w.Res
	if r.NewPanic != "" {
		violation(k, "newplan-panic:"+base, "asm.NewPlan panicked: "+r.NewPanic, nil)
		return
	}
	impl1, impl2, fresh := canonFloats(r.Run1), canonFloats(r.Run2), canonFloats(r.Fresh)
	implRuns := impl1 + ";" + impl2
	rep.Count("outcome."+base+"."+strings.SplitN(impl1, " ", 2)[0], 1)
	if base != "box" && base != "box3" {
		rep.Sample(map[string]any{"stream": k.stream, "plan": show(k.plan), "root": show(k.root), "implementation": show2(impl1), "model": show2(strings.SplitN(v.cur, ";", 2)[0])})
	}
	if strings.HasPrefix(impl1, "ok ") {
		nontrivial = 1
	}
	for _, x := range []string{impl1, impl2, fresh, r.Rerun} {
		if strings.HasPrefix(x, "panic ") {
			violation(k, "panic-escaped:"+base, "a panic left Plan.Execute: "+r.Err1, nil)
			return
		}
	}
	if r.StrPanic != "" {
		violation(k, "string-panic:"+base, "Plan.String()/Simplify() panicked: "+r.StrPanic, nil)
	}
	// the tie: implementation == model under the expected deviations
	curOK := modelled1(v.cur)
	// the model has ONE integer kind; Go's `==` in include tells an int (only size returns one) from an int64 of the
	// same value: a plan that calls both is outside the model
	if pt0 := mustTree(k.plan); curOK && usesFn(pt0, map[string]bool{"include": true}) && usesFn(pt0, map[string]bool{"size": true}) {
		curOK = false
		rep.Count("unmodelled.include-with-size", 1)
	}
	// C20-append-shares-backing: append evaluated at least twice, or once in a plan that also writes (set/del
	// through the stored result reaches the array append was given), and the implementation differs from the model
	// (append into a new array) only at elements of arrays of equal length
	if pt := mustTree(k.plan); curOK && canonFloats(v.cur) != implRuns && usesFn(pt, map[string]bool{"append": true}) &&
		(appendsTwice(pt) || hasMutator(pt)) && elementDiffOnly(implRuns, canonFloats(v.cur)) {
		nontrivial = 1
		addKnown(k, idAppend, "alias:append-shares-backing", "the result of append shares the backing array of its argument (spare capacity): a later append overwrites the element an earlier one added, and a write through the stored result reaches the array that was given (the model appends into a new array)")
		return
	}
	if curOK {
		rep.Count("modelled."+base, 1)
		if canonFloats(v.cur) != implRuns {
			disagreement(k, "model:"+base, "the model under -dev "+*dev+" predicts another result",
				map[string]any{"impl": implRuns, "model": canonFloats(v.cur), "err": r.Err1})
		}
	} else {
		rep.Count("unmodelled."+base, 1)
	}
	if v.simp != "unmodelled" && v.simp != "bad-op" {
		implSimp := canonFloats(r.Simp)
		if r.Nil {
			implSimp = "nil"
		}
		if canonFloats(v.simp) != implSimp {
			disagreement(k, "simp:"+base, "Simplify() differs from the model's", map[string]any{"impl": implSimp, "model": v.simp})
		}
	}
	// (e) documented behaviour (judged where the model follows the code to the end: a documented run
	// that ends early, at a deviation, says nothing about a plan the model cannot follow)
	if curOK && modelled1(v.ideal) && canonFloats(v.ideal) != implRuns {
		explainByFlags(d, k, implRuns, func(flags string) string {
			a, _ := d.Ask1("run\t" + devArg(flags) + "\t2\t" + k.plan + "\t" + k.root)
			return canonFloats(a)
		}, "documented:"+base, map[string]any{"impl": implRuns, "documented": canonFloats(v.ideal), "err": r.Err1})
	}
	if curOK && k.spec != nil && v.spec != "unmodelled" && v.spec != "enum" && v.spec != "diverge" {
		// the plan is [set $.asm [f args…]] on a root without asm: read the function's result off run 1
		got := specOutcome(impl1)
		want := canonFloats(v.spec)
		if got != want {
			explainByFlags(d, k, got, func(flags string) string {
				a, _ := d.Ask1("spec\t" + hexF(k.spec.fn) + "\t" + devArg(flags) + "\t" + k.spec.args)
				return canonFloats(a)
			}, "spec:"+k.spec.fn, map[string]any{"impl": got, "spec": want, "err": r.Err1})
		}
	}
	// (b) the same result on every run
	order := newOrderJudge(k, v, r.Run1, r.Run2, r.Fresh, r.Repeat, r.Rerun)
	if r.Repeat != "" && impl1 == impl2 && impl1 == fresh {
		if how := order.explains(fresh, canonFloats(r.Repeat)); how != "" {
			addKnown(k, idMapOrder, "rerun:map-order:"+how, "repeated runs differ; "+orderWhat[how])
		} else {
			violation(k, "nondeterministic:"+base, "repeated executions of the plan on equal roots differ"+order.why(), map[string]any{"first": fresh, "another": canonFloats(r.Repeat)})
		}
	}
	if impl1 != impl2 || impl1 != fresh {
		switch {
		case curOK && canonFloats(v.cur) == implRuns && impl1 == fresh && modelled1(v.ideal) && sameRuns(v.ideal) && strings.ContainsAny(*dev, "la"):
			id := devIDs['a']
			if strings.Contains(*dev, "l") {
				id = devIDs['l']
			}
			addKnown(k, id, "rerun:literal-aliasing", "the second Execute of the same *Plan differs: the first run edited a literal of the plan (the model predicts both results; without literal sharing both runs agree)")
		case order.explains(impl1, impl2, fresh) != "":
			how := order.explains(impl1, impl2, fresh)
			addKnown(k, idMapOrder, "rerun:map-order:"+how, "runs differ; "+orderWhat[how])
		default:
			violation(k, "nondeterministic:"+base, "two executions on equal roots differ"+order.why(), map[string]any{"run1": impl1, "run2": impl2, "fresh": fresh})
		}
	}
	// (b') executing a plan does not edit the plan: Simplify()/String() read the same before and after run 1,
	// and the same *Plan executed on ANOTHER root behaves like a freshly built plan on that root
	if r.SimpAfter != "" && usesFn(mustTree(k.plan), map[string]bool{"cond": true}) && compiledOnly(r.Simp, r.SimpAfter) {
		nontrivial = 1
		addKnown(k, idCondComp, "plan-edited:cond-compile", "Plan.Simplify() after Execute holds jp.Expr values where the plan had path strings: cond compiled a call inside one of its pairs in place")
	} else if r.SimpAfter != "" {
		violation(k, "plan-edited:"+base, "Plan.Simplify()/String() after Execute differ from before: executing the plan rewrote the plan (a reused plan is no longer the plan that was built)",
			map[string]any{"simp_before": r.Simp, "simp_after": r.SimpAfter, "str_before": r.Str, "str_after": r.StrAfter})
	}
	if r.Other != "" || r.OtherFresh != "" {
		rep.Count("other-root."+base, 1)
		if o, of := canonFloats(r.Other), canonFloats(r.OtherFresh); o != of {
			// the order judge for the second root: its site test looks at the data of THAT root (the model has
			// no verdict for it: only the structural site counts)
			k2 := *k
			k2.root = k.root2
			order2 := newOrderJudge(&k2, verdicts{}, r.Other, r.OtherFresh)
			if how := order2.explains(o, of); how != "" {
				addKnown(k, idMapOrder, "rerun:map-order:"+how, "runs on the second root differ; "+orderWhat[how])
			} else {
				violation(k, "reused-plan:"+base, "the same *Plan executed on another root after its first runs differs from a freshly built plan on that root: the earlier execution changed what the plan does",
					map[string]any{"reused": o, "fresh": of})
			}
		}
	}
	// (d) $.src changes only through the mutators
	// — judged for every plan without a mutator, and for every plan of the streams that never store a
	// reference to existing data whose mutators all name a target outside $.src by a literal path
	if !r.SrcSame {
		pt := mustTree(k.plan)
		if !hasMutator(pt) {
			violation(k, "src-changed:"+base, "$.src changed although the plan calls none of set/setall/del/delall", map[string]any{"src_after": r.SrcAfter})
		} else if !k.alias && srcSafeMutators(pt) {
			violation(k, "src-changed:"+base, "$.src changed although every set/setall/del/delall of the plan targets a place outside $.src and no reference to existing data is stored", map[string]any{"src_after": r.SrcAfter})
		}
	}
	// (c) String() rebuilds the plan
	if r.StrPanic == "" && !r.Nil {
		judgePrint(k, r, fresh, order, base)
	}
}

// appendsTwice: the plan evaluates append more than once: two calls, or one call inside each.
func appendsTwice(plan any) bool {
	n := 0
	var walk func(v any, inEach bool)
	walk = func(v any, inEach bool) {
		t, ok := v.([]any)
		if !ok {
			return
		}
		if len(t) > 0 {
			if s, ok := t[0].(string); ok {
				if s == "append" {
					n++
					if inEach {
						n++
					}
				}
				if s == "each" {
					inEach = true
				}
			}
		}
		for _, x := range t {
			walk(x, inEach)
		}
	}
	walk(plan, false)
	return n >= 2
}

// elementDiffOnly: two run texts ("ok <tree>;ok <tree>") have the same shape and differ only at atoms that are
// elements of arrays (the differing atom is preceded by `[` or `,` inside an array, not by a key).
func elementDiffOnly(a, b string) bool {
	atoms := func(s string) []string {
		var out []string
		for i := 0; i < len(s); {
			if i+1 < len(s) && s[i+1] == '(' {
				e := strings.IndexByte(s[i:], ')')
				if e < 0 {
					return nil
				}
				out = append(out, s[i:i+e+1])
				i += e + 1
				continue
			}
			out = append(out, s[i:i+1])
			i++
		}
		return out
	}
	x, y := atoms(a), atoms(b)
	if x == nil || len(x) != len(y) {
		return false
	}
	diff := false
	for i := range x {
		if x[i] == y[i] {
			continue
		}
		// a scalar atom directly after `[` or `,` with no key before it: an array element
		if i == 0 || (x[i-1] != "[" && x[i-1] != ",") || len(x[i]) == 1 && strings.ContainsAny(x[i], "[]{},") || len(y[i]) == 1 && strings.ContainsAny(y[i], "[]{},") {
			return false
		}
		// inside an object members are `K(..)value` separated by `,`: the previous atom would be a key, so `,` or `[` means array
		diff = true
	}
	return diff
}

// compiledOnly: two tree texts (Simplify() before and after a run) have the same shape and differ only at
// atoms where the text of a path stands as a string before and as a jp.Expr — or, inside a nested call
// that was compiled and is printed through Fn.Simplify, as the re-printed path string — after.
func compiledOnly(before, after string) bool {
	atoms := func(s string) []string {
		var out []string
		for i := 0; i < len(s); {
			if i+1 < len(s) && s[i+1] == '(' {
				e := strings.IndexByte(s[i:], ')')
				if e < 0 {
					return nil
				}
				out = append(out, s[i:i+e+1])
				i += e + 1
				continue
			}
			out = append(out, s[i:i+1])
			i++
		}
		return out
	}
	a, b := atoms(before), atoms(after)
	if a == nil || len(a) != len(b) {
		return false
	}
	isPathText := func(atom string) bool {
		if len(atom) < 4 || (atom[0] != 'S' && atom[0] != 'P') {
			return false
		}
		t, err := unhexF(atom[2 : len(atom)-1])
		return err == nil && t != "" && (t[0] == '$' || t[0] == '@')
	}
	diff := false
	for i := range a {
		if a[i] == b[i] {
			continue
		}
		if a[i][0] == 'S' && isPathText(a[i]) && isPathText(b[i]) {
			diff = true
			continue
		}
		return false
	}
	return diff
}

// orderJudge decides whether differing results of one plan on equal roots are C20-map-order. Both must hold:
//   - site: a JSONPath ARGUMENT of the plan has a wildcard, descent, filter, slice or union that ranges
//     over an object with two or more members of the data (enumSite, from the structure of plan and
//     data), or the MODEL stops with `enum` (it reached the enumeration of such an object; by theorem
//     order_independent a modelled run that does not stop there has one result under every order);
//   - shape: the results are permutations of each other (equal when every list is read as a multiset),
//     or differ only by which member of an object a "first match" took (memberSwaps), or are equal
//     everywhere except at or below the places written by the statements from the first enumerating
//     one on (downstream: values computed from the member taken) — or the model stopped with `enum`,
//     in which case it proves that the result may follow the order.
//
// Anything else that differs from run to run is a violation.
type orderJudge struct {
	site, modelEnum bool
	members         map[string]bool
	targets         [][]pfrag         // what the statements from the first enumerating one on may write
	raw             map[string]string // canonFloats(run) -> the run as the worker wrote it (parseTree reads that form)
}

var orderWhat = map[string]string{
	"permutation": "a path argument enumerates an object of the data and the results are permutations of each other (Go map iteration order)",
	"member":      "a path argument enumerates an object of the data and the results differ only in which member of that object the first match took (Go map iteration order)",
	"downstream":  "a path argument enumerates an object of the data; the results are equal except at the places written by the statements from that one on, whose values are computed from the member(s) taken (Go map iteration order)",
	"model-enum":  "the model stops at the enumeration of an object with several members: the result follows Go's map iteration order",
}

func okTree(run string) (any, bool) {
	if !strings.HasPrefix(run, "ok ") {
		return nil, false
	}
	v, err := parseTreeLoose(run[3:])
	return v, err == nil
}

func newOrderJudge(k *kase, v verdicts, runs ...string) *orderJudge {
	o := &orderJudge{modelEnum: hasStop(v.cur, "enum"), raw: map[string]string{}}
	distinct := map[string]bool{}
	for _, r := range runs {
		distinct[r] = true
		o.raw[canonFloats(r)] = r
	}
	if len(distinct) <= 2 && !o.modelEnum { // "" (no repeat) and one result: nothing to explain
		n := 0
		for r := range distinct {
			if r != "" {
				n++
			}
		}
		if n <= 1 {
			return o
		}
	}
	plan := mustTree(k.plan)
	datas := []any{mustTree(k.root)}
	for r := range distinct {
		if p := strings.SplitN(r, " ", 2); len(p) == 2 && (p[0] == "ok" || p[0] == "err") {
			if t, err := parseTreeLoose(p[1]); err == nil {
				datas = append(datas, t)
			}
		}
	}
	o.site = enumSite(plan, datas)
	if o.site {
		sts := statements(plan)
		for i, st := range sts {
			if enumSite(st, datas) {
				for _, later := range sts[i:] {
					writeTargets(later, &o.targets)
				}
				break
			}
		}
	}
	o.members = memberSet(plan, datas[:1]) // members of the objects of the root as given, and the plan's literals
	return o
}

func (o *orderJudge) explains(runs ...string) string {
	if !o.site && !o.modelEnum {
		return ""
	}
	how := "permutation"
	for i, r := range runs { // the callers pass canonFloats texts
		if x, has := o.raw[r]; has {
			runs[i] = x
		}
	}
	first, ok := okTree(runs[0])
	for _, r := range runs[1:] {
		if canonFloats(r) == canonFloats(runs[0]) {
			continue
		}
		t, ok2 := okTree(r)
		switch {
		case !o.site:
			how = ""
		case ok && ok2 && unorderedText(first) == unorderedText(t):
		case ok && ok2 && memberSwaps(first, t, o.members):
			if how == "permutation" {
				how = "member"
			}
		case o.downstream(runs[0], r):
			how = "downstream"
		default:
			how = ""
		}
		if how == "" {
			break
		}
	}
	if how == "" && o.modelEnum {
		how = "model-enum"
	}
	return how
}

// downstream: both runs leave the data equal everywhere except at or below the places that the statements
// from the first enumerating one on write (an error in one run only: those writes did not all happen).
func (o *orderJudge) downstream(r1, r2 string) bool {
	p1, p2 := strings.SplitN(r1, " ", 2), strings.SplitN(r2, " ", 2)
	if len(p1) != 2 || len(p2) != 2 || (p1[0] != "ok" && p1[0] != "err") || (p2[0] != "ok" && p2[0] != "err") {
		return false
	}
	a, e1 := parseTreeLoose(p1[1])
	b, e2 := parseTreeLoose(p2[1])
	if e1 != nil || e2 != nil {
		return false
	}
	return diffConfined(a, b, nil, o.targets)
}

func (o *orderJudge) why() string {
	switch {
	case !o.site && !o.modelEnum:
		return " (no path argument of the plan enumerates an object of the data)"
	default:
		return " (a path argument enumerates an object, but the results are not permutations of each other, do not differ only in the member taken, and differ outside the places written from the enumerating statement on)"
	}
}

// show2 renders "<outcome> <tree>" readably.
func show2(run string) string {
	p := strings.SplitN(run, " ", 2)
	if len(p) != 2 {
		return run
	}
	return p[0] + " " + show(p[1])
}

// descentSetOfContainer: the plan calls set/setall with a path text that holds a recursive descent (`..`) and
// a value that is not a scalar literal (a list or map literal, a path, a call).
func descentSetOfContainer(v any) bool {
	switch t := v.(type) {
	case []any:
		if len(t) == 3 {
			if f, ok := t[0].(string); ok && (f == "set" || f == "setall") {
				if p, ok := t[1].(string); ok && strings.Contains(p, "..") {
					switch val := t[2].(type) {
					case []any, map[string]any:
						return true
					case string:
						if len(val) > 0 && (val[0] == '$' || val[0] == '@') {
							return true
						}
					}
				}
			}
		}
		for _, x := range t {
			if descentSetOfContainer(x) {
				return true
			}
		}
	case map[string]any:
		for _, x := range t {
			if descentSetOfContainer(x) {
				return true
			}
		}
	}
	return false
}

func sameRuns(ans string) bool {
	p := strings.Split(ans, ";")
	return len(p) == 2 && p[0] == p[1]
}

// specOutcome turns "ok {asm: v, src: …}" / "err …" of a [set $.asm [f …]] run into Spec's "ok v" / "err".
func specOutcome(run string) string {
	if strings.HasPrefix(run, "err ") {
		return "err"
	}
	body := strings.TrimPrefix(run, "ok ")
	key := "{K(" + hexF("asm") + ")"
	if !strings.HasPrefix(body, key) {
		return "?" + run
	}
	rest := body[len(key):]
	// the value ends at the top-level comma before K(src)
	end := strings.LastIndex(rest, ",K("+hexF("src")+")")
	if end < 0 {
		return "?" + run
	}
	return "ok " + rest[:end]
}

// explainByFlags looks for the smallest set of expected deviations under which the model gives the
// implementation's result; that set names the known findings. No such set: a violation.
func explainByFlags(d *lib.Driver, k *kase, impl string, ask func(flags string) string, class string, extra map[string]any) {
	flags := *dev
	if flags == "-" {
		flags = ""
	}
	n := len(flags)
	for size := 1; size <= n; size++ {
		for mask := 0; mask < 1<<n; mask++ {
			if popcount(mask) != size {
				continue
			}
			var sb strings.Builder
			for i := 0; i < n; i++ {
				if mask&(1<<i) != 0 {
					sb.WriteByte(flags[i])
				}
			}
			if ask(sb.String()) == impl {
				for _, c := range []byte(sb.String()) {
					addKnown(k, devIDs[c], class+":"+devIDs[c], "the result differs from the documented one exactly as the model does with deviation "+string(c))
				}
				return
			}
		}
	}
	violation(k, class, "the implementation's result is not the documented one (and no listed deviation explains it)", extra)
}

func popcount(x int) int {
	n := 0
	for ; x != 0; x &= x - 1 {
		n++
	}
	return n
}

// judgePrint: the SEN text must read back as the data of Simplify(), and the plan built from it must
// behave as a freshly built plan.
func judgePrint(k *kase, r *WRes, fresh string, order *orderJudge, base string) {
	simp, err := parseTree(r.Simp)
	if err != nil {
		// Simplify() holds something that is not plain data (not produced by the generators)
		rep.Count("print.simplify-not-plain", 1)
		return
	}
	if r.ReparseE != "" {
		if hasBareString(simp) {
			addKnown(k, idSenText, "print:bare-string", "Plan.String() is not valid SEN: a string that starts with a sign is written without quotes ("+r.ReparseE+")")
		} else {
			violation(k, "print-unparseable:"+base, "Plan.String() does not parse as SEN: "+r.ReparseE, map[string]any{"string": r.Str})
		}
		return
	}
	if r.Reparse != r.Simp {
		back, _ := parseTree(r.Reparse)
		bare, intf, int19, other := senDiff(simp, back)
		switch {
		case other:
			violation(k, "print-data:"+base, "the SEN text of the plan reads back as different data", map[string]any{"string": r.Str, "simplify": show(r.Simp), "reparsed": show(r.Reparse)})
		default:
			if bare {
				addKnown(k, idSenText, "print:bare-string", "a string of the plan is written without quotes and reads back as a number, boolean or null")
			}
			if intf {
				addKnown(k, idSenText, "print:integral-float", "a float64 literal with an integral value is written without a fraction and reads back as an int64")
			}
			if int19 {
				addKnown(k, idSenText, "print:int19", "an int64 literal of 19 digits at the end of the int64 range reads back as a json.Number")
			}
		}
		return
	}
	// same data: the rebuilt plan must behave as a freshly built one
	if canonFloats(r.Rerun) != fresh {
		if how := order.explains(fresh, canonFloats(r.Rerun)); how != "" {
			addKnown(k, idMapOrder, "print:map-order:"+how, "runs differ; "+orderWhat[how])
			return
		}
		violation(k, "print-behaviour:"+base, "the plan rebuilt from String() behaves differently"+order.why(), map[string]any{"string": r.Str, "fresh": fresh, "rebuilt": canonFloats(r.Rerun)})
	}
}

// bareWord: a string the SEN writer leaves unquoted although it does not read back as that string.
func bareWord(s string) bool {
	if s == "true" || s == "false" || s == "null" {
		return true
	}
	return len(s) > 0 && (s[0] == '+' || s[0] == '-')
}

func hasBareString(v any) bool {
	switch t := v.(type) {
	case string:
		return bareWord(t)
	case []any:
		for _, x := range t {
			if hasBareString(x) {
				return true
			}
		}
	case map[string]any:
		for kk, x := range t {
			if bareWord(kk) || hasBareString(x) {
				return true
			}
		}
	}
	return false
}

// senDiff compares the plan's data with what its SEN text reads back as: bare = a bare-word string
// came back as something else, intf = an integral float came back as the int of the same value,
// int19 = an int64 within 8 of the ends of the int64 range came back as a json.Number of the same
// digits, other = any other difference.
func senDiff(a, b any) (bare, intf, int19, other bool) {
	switch ta := a.(type) {
	case float64:
		if tb, ok := b.(float64); ok && (ta == tb || (math.IsNaN(ta) && math.IsNaN(tb))) && math.Signbit(ta) == math.Signbit(tb) {
			return
		}
		if tb, ok := b.(int64); ok && ta == math.Trunc(ta) && float64(tb) == ta {
			intf = true
			return
		}
		if tb, ok := b.(float64); ok && ta == 0 && tb == 0 { // -0 written as 0
			intf = true
			return
		}
		if tb, ok := b.(json.Number); ok && ta == math.Trunc(ta) { // an integral float whose digits are then read as a big number
			if f, err := strconv.ParseFloat(string(tb), 64); err == nil && f == ta {
				intf, int19 = true, true
				return
			}
		}
		other = true
		return
	case int64:
		if tb, ok := b.(int64); ok && ta == tb {
			return
		}
		if tb, ok := b.(json.Number); ok && string(tb) == strconv.FormatInt(ta, 10) &&
			(ta >= math.MaxInt64-7 || ta <= math.MinInt64+8) {
			int19 = true
			return
		}
		other = true
		return
	case string:
		if tb, ok := b.(string); ok && ta == tb {
			return
		}
		if bareWord(ta) {
			switch tb := b.(type) {
			case nil:
				bare, other = ta == "null", ta != "null"
				return
			case bool:
				ok := ta == strconv.FormatBool(tb)
				bare, other = ok, !ok
				return
			case int64, float64, json.Number:
				_ = tb
				bare = true
				return
			}
		}
		other = true
		return
	case []any:
		tb, ok := b.([]any)
		if !ok || len(ta) != len(tb) {
			other = true
			return
		}
		for i := range ta {
			w, x, y, z := senDiff(ta[i], tb[i])
			bare, intf, int19, other = bare || w, intf || x, int19 || y, other || z
		}
		return
	case map[string]any:
		tb, ok := b.(map[string]any)
		if !ok || len(ta) != len(tb) {
			other = true
			return
		}
		for kk, va := range ta {
			vb, has := tb[kk]
			if !has {
				other = true
				return
			}
			w, x, y, z := senDiff(va, vb)
			bare, intf, int19, other = bare || w, intf || x, int19 || y, other || z
		}
		return
	}
	if render(a) != render(b) {
		other = true
	}
	return
}

// ---------------------------------------------------------------------------------------------
// replay

func runReplay(d *lib.Driver) {
	data, err := os.ReadFile(*replay)
	if err != nil {
		fmt.Fprintln(os.Stderr, err)
		os.Exit(3)
	}
	var f struct {
		Replay map[string]any `json:"replay"`
	}
	if err := json.Unmarshal(data, &f); err != nil || f.Replay == nil {
		fmt.Fprintln(os.Stderr, "replay file has no replay section")
		os.Exit(3)
	}
	plan, _ := f.Replay["plan"].(string)
	root, _ := f.Replay["root"].(string)
	stream, _ := f.Replay["stream"].(string)
	root2, _ := f.Replay["root2"].(string)
	k := kase{stream: stream, plan: plan, root: root, root2: root2, alias: true}
	if err := processBatch(d, []kase{k}); err != nil {
		fmt.Fprintln(os.Stderr, err)
		os.Exit(3)
	}
	fmt.Printf("plan: %s\nroot: %s\n", show(plan), show(root))
	var keys []string
	for key := range rep.FindingsTotal {
		keys = append(keys, key)
	}
	sort.Strings(keys)
	for _, key := range keys {
		fmt.Printf("  %s ×%d\n", key, rep.FindingsTotal[key])
	}
	for _, fd := range rep.Findings {
		fmt.Printf("  %s %s: %s\n", fd.Kind, fd.Class, fd.What)
	}
	if err := rep.Write(*outPath); err != nil {
		fmt.Fprintln(os.Stderr, err)
		os.Exit(3)
	}
}
