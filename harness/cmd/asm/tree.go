package main

import (
	"encoding/hex"
	"encoding/json"
	"fmt"
	"math"
	"reflect"
	"sort"
	"strconv"
	"strings"

	"github.com/ohler55/ojg/asm"
	"github.com/ohler55/ojg/jp"
)

// Tree text shared with lean/OjgVerif/Asm/Driver.lean:
//
//	n t f I(<int>) F(<+|-><mant>p<exp>) F(+inf) F(-inf) F(nan) S(<hex>) [a,b] {K(<hex>)v,…}
//	P(<hex of jp.Expr.String()>)  a path value stored in the data
//	C                             a reference back to a container that is being printed (cyclic data)
//	B(<hex>)                      a json.Number (only in what sen.Parse returns)
//	?(<type>)                     anything else (time.Time, …)

func hexF(b string) string {
	if len(b) == 0 {
		return "-"
	}
	return hex.EncodeToString([]byte(b))
}

func unhexF(s string) (string, error) {
	if s == "-" {
		return "", nil
	}
	b, err := hex.DecodeString(s)
	return string(b), err
}

func fltText(f float64) string {
	switch {
	case math.IsNaN(f):
		return "F(nan)"
	case math.IsInf(f, 1):
		return "F(+inf)"
	case math.IsInf(f, -1):
		return "F(-inf)"
	}
	sign := "+"
	if math.Signbit(f) {
		sign = "-"
		f = -f
	}
	if f == 0 {
		return "F(" + sign + "0p0)"
	}
	fr, e := math.Frexp(f) // f = fr * 2^e, fr in [0.5,1)
	m := uint64(math.Ldexp(fr, 53))
	e -= 53
	for m&1 == 0 {
		m >>= 1
		e++
	}
	return fmt.Sprintf("F(%s%dp%d)", sign, m, e)
}

type onPath struct {
	maps   map[uintptr]bool
	slices map[[2]uintptr]bool
}

// render writes a Go value as tree text; containers that contain themselves are cut with C.
func render(v any) string {
	var sb strings.Builder
	renderTo(&sb, v, &onPath{maps: map[uintptr]bool{}, slices: map[[2]uintptr]bool{}}, 0)
	return sb.String()
}

func renderTo(sb *strings.Builder, v any, on *onPath, depth int) {
	if depth > 2000 {
		sb.WriteString("?(deep)")
		return
	}
	switch t := v.(type) {
	case nil:
		sb.WriteString("n")
	case bool:
		if t {
			sb.WriteString("t")
		} else {
			sb.WriteString("f")
		}
	case int64:
		fmt.Fprintf(sb, "I(%d)", t)
	case int:
		fmt.Fprintf(sb, "I(%d)", t)
	case float64:
		sb.WriteString(fltText(t))
	case string:
		sb.WriteString("S(" + hexF(t) + ")")
	case opaque:
		sb.WriteString(string(t))
	case jp.Expr:
		sb.WriteString("P(" + hexF(t.String()) + ")")
	case *asm.Fn: // only inside a plan that an execution has rewritten (cond compiles in place)
		if t == nil {
			sb.WriteString("?(nil *asm.Fn)")
		} else {
			renderTo(sb, t.Simplify(), on, depth+1)
		}
	case json.Number:
		sb.WriteString("B(" + hexF(string(t)) + ")")
	case []any:
		var key [2]uintptr
		if len(t) > 0 {
			key = [2]uintptr{reflect.ValueOf(t).Pointer(), uintptr(len(t))}
			if on.slices[key] {
				sb.WriteString("C")
				return
			}
			on.slices[key] = true
			defer delete(on.slices, key)
		}
		sb.WriteByte('[')
		for i, x := range t {
			if i > 0 {
				sb.WriteByte(',')
			}
			renderTo(sb, x, on, depth+1)
		}
		sb.WriteByte(']')
	case map[string]any:
		if t != nil {
			p := reflect.ValueOf(t).Pointer()
			if on.maps[p] {
				sb.WriteString("C")
				return
			}
			on.maps[p] = true
			defer delete(on.maps, p)
		}
		keys := make([]string, 0, len(t))
		for k := range t {
			keys = append(keys, k)
		}
		sort.Strings(keys)
		sb.WriteByte('{')
		for i, k := range keys {
			if i > 0 {
				sb.WriteByte(',')
			}
			sb.WriteString("K(" + hexF(k) + ")")
			renderTo(sb, t[k], on, depth+1)
		}
		sb.WriteByte('}')
	default:
		fmt.Fprintf(sb, "?(%T)", v)
	}
}

// parseTree reads tree text back into fresh Go values (int64, float64, string, []any, map[string]any).
func parseTree(s string) (any, error) {
	v, rest, err := parseT(s)
	if err != nil {
		return nil, err
	}
	if rest != "" {
		return nil, fmt.Errorf("trailing %q", rest)
	}
	return v, nil
}

// opaque: an atom the order judge carries along without reading it (a path value P(…), a value of another
// kind ?(…) such as a time.Time, a cycle mark C); only parseTreeLoose produces it, render writes it back.
type opaque string

var looseAtoms = false

// parseTreeLoose is parseTree that also accepts the atoms P(…), ?(…) and C (as opaque values): results that
// hold a time or a path value can then be compared structurally by the order judge.
func parseTreeLoose(s string) (any, error) {
	looseAtoms = true
	defer func() { looseAtoms = false }()
	return parseTree(s)
}

func mustTree(s string) any {
	v, err := parseTree(s)
	if err != nil {
		panic(fmt.Errorf("harness: bad tree %q: %v", s, err))
	}
	return v
}

func parseFlt(body string) (float64, error) {
	switch body {
	case "+inf":
		return math.Inf(1), nil
	case "-inf":
		return math.Inf(-1), nil
	case "nan":
		return math.NaN(), nil
	}
	if len(body) < 4 || (body[0] != '+' && body[0] != '-') {
		return 0, fmt.Errorf("bad float %q", body)
	}
	p := strings.IndexByte(body, 'p')
	if p < 0 {
		return 0, fmt.Errorf("bad float %q", body)
	}
	m, err := strconv.ParseUint(body[1:p], 10, 64)
	if err != nil || m > 1<<53 {
		return 0, fmt.Errorf("bad float mantissa %q", body)
	}
	e, err := strconv.Atoi(body[p+1:])
	if err != nil {
		return 0, fmt.Errorf("bad float exponent %q", body)
	}
	f := math.Ldexp(float64(m), e)
	if body[0] == '-' {
		f = math.Copysign(f, -1)
	}
	return f, nil
}

func parseT(s string) (any, string, error) {
	if s == "" {
		return nil, "", fmt.Errorf("empty")
	}
	switch s[0] {
	case 'n':
		return nil, s[1:], nil
	case 't':
		return true, s[1:], nil
	case 'f':
		return false, s[1:], nil
	case 'I', 'F', 'S', 'B':
		if len(s) < 3 || s[1] != '(' {
			return nil, "", fmt.Errorf("bad atom %q", s)
		}
		e := strings.IndexByte(s, ')')
		if e < 0 {
			return nil, "", fmt.Errorf("bad atom %q", s)
		}
		body := s[2:e]
		switch s[0] {
		case 'I':
			i, err := strconv.ParseInt(body, 10, 64)
			return i, s[e+1:], err
		case 'F':
			f, err := parseFlt(body)
			return f, s[e+1:], err
		case 'B':
			t, err := unhexF(body)
			return json.Number(t), s[e+1:], err
		default:
			t, err := unhexF(body)
			return t, s[e+1:], err
		}
	case 'P', '?', 'C':
		if !looseAtoms {
			return nil, "", fmt.Errorf("bad node %q", s)
		}
		if s[0] == 'C' {
			return opaque("C"), s[1:], nil
		}
		e := strings.IndexByte(s, ')')
		if len(s) < 3 || s[1] != '(' || e < 0 {
			return nil, "", fmt.Errorf("bad atom %q", s)
		}
		return opaque(s[:e+1]), s[e+1:], nil
	case '[':
		out := []any{}
		s = s[1:]
		if strings.HasPrefix(s, "]") {
			return out, s[1:], nil
		}
		for {
			v, rest, err := parseT(s)
			if err != nil {
				return nil, "", err
			}
			out = append(out, v)
			if strings.HasPrefix(rest, ",") {
				s = rest[1:]
				continue
			}
			if strings.HasPrefix(rest, "]") {
				return out, rest[1:], nil
			}
			return nil, "", fmt.Errorf("bad array at %q", rest)
		}
	case '{':
		out := map[string]any{}
		s = s[1:]
		if strings.HasPrefix(s, "}") {
			return out, s[1:], nil
		}
		for {
			if !strings.HasPrefix(s, "K(") {
				return nil, "", fmt.Errorf("bad key at %q", s)
			}
			e := strings.IndexByte(s, ')')
			k, err := unhexF(s[2:e])
			if err != nil {
				return nil, "", err
			}
			v, rest, err := parseT(s[e+1:])
			if err != nil {
				return nil, "", err
			}
			out[k] = v
			if strings.HasPrefix(rest, ",") {
				s = rest[1:]
				continue
			}
			if strings.HasPrefix(rest, "}") {
				return out, rest[1:], nil
			}
			return nil, "", fmt.Errorf("bad object at %q", rest)
		}
	}
	return nil, "", fmt.Errorf("bad node %q", s)
}

// canonFloats rewrites every F(…) of a tree text into F(<bits>) (one NaN), so that the model's
// unnormalised mantissa/exponent pairs and the implementation's floats compare as bit patterns.
func canonFloats(s string) string {
	if !strings.Contains(s, "F(") {
		return s
	}
	var sb strings.Builder
	for {
		i := strings.Index(s, "F(")
		if i < 0 {
			sb.WriteString(s)
			break
		}
		e := i + strings.IndexByte(s[i:], ')')
		sb.WriteString(s[:i])
		f, err := parseFlt(s[i+2 : e])
		switch {
		case err != nil:
			sb.WriteString("F(?" + s[i+2:e] + ")")
		case math.IsNaN(f):
			sb.WriteString("F(nan)")
		default:
			fmt.Fprintf(&sb, "F(%016x)", math.Float64bits(f))
		}
		s = s[e+1:]
	}
	return sb.String()
}

// show is a readable form of a Go value for reports (SEN-like, cycle-safe via render).
func show(treeText string) string {
	v, err := parseTree(treeText)
	if err != nil {
		return treeText
	}
	var sb strings.Builder
	showTo(&sb, v)
	return sb.String()
}

func showTo(sb *strings.Builder, v any) {
	switch t := v.(type) {
	case nil:
		sb.WriteString("null")
	case bool:
		fmt.Fprintf(sb, "%v", t)
	case int64:
		fmt.Fprintf(sb, "%d", t)
	case float64:
		s := strconv.FormatFloat(t, 'g', -1, 64)
		if !strings.ContainsAny(s, ".eIN") {
			s += ".0"
		}
		sb.WriteString(s)
	case string:
		sb.WriteString(strconv.Quote(t))
	case []any:
		sb.WriteByte('[')
		for i, x := range t {
			if i > 0 {
				sb.WriteByte(' ')
			}
			showTo(sb, x)
		}
		sb.WriteByte(']')
	case map[string]any:
		keys := make([]string, 0, len(t))
		for k := range t {
			keys = append(keys, k)
		}
		sort.Strings(keys)
		sb.WriteByte('{')
		for i, k := range keys {
			if i > 0 {
				sb.WriteByte(' ')
			}
			sb.WriteString(strconv.Quote(k) + ":")
			showTo(sb, t[k])
		}
		sb.WriteByte('}')
	}
}
