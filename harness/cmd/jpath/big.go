package main

import (
	"fmt"
	"math"
	"os"
	"sort"

	"verif/harness/lib"
)

// bigStream: what the small boxes cannot see — long arrays (every length 0..40, 100, 1000), indexes, slice bounds
// and steps whose magnitude reaches and passes the length (±1, ±(len-1), ±len, ±(len+1), ±1000, the maxEnd
// sentinel and its neighbours, MaxInt, MinInt), unions with many members, wide objects, and deep nesting (depth
// 7..200) under descents, wildcards and long child paths. The triples of a slice are sampled (k per length,
// seeded); everything else is enumerated.
func bigStream(r *lib.Rng, full bool, add0 func(p Path, t *Node, src string, reps []Rep), allReps []Rep) string {
	add := func(p Path, t *Node, src string, reps []Rep) {
		if sel := os.Getenv("VERIF_BIG"); sel == "" || sel == src { // development aid
			add0(p, t, src, reps)
		}
	}
	i := nInt
	lengths := []int{}
	for n := 0; n <= 40; n++ {
		lengths = append(lengths, n)
	}
	lengths = append(lengths, 100, 1000)
	perLen := 12
	if full {
		perLen = 250
	}
	magnitudes := func(n int) []int {
		set := map[int]bool{}
		for _, m := range []int{0, 1, 2, n - 1, n, n + 1, 2 * n, 1000, 1001, maxEnd - 1, maxEnd, maxEnd + 1, math.MaxInt32 + 1, math.MaxInt64 - 1, math.MaxInt64} {
			set[m], set[-m] = true, true
		}
		set[math.MinInt64] = true
		var out []int
		for m := range set {
			out = append(out, m)
		}
		sort.Ints(out)
		return out
	}
	nSlices, nNth := 0, 0
	for _, n := range lengths {
		flat, objs := &Node{Kind: 'a'}, &Node{Kind: 'a'}
		for k := 0; k < n; k++ {
			flat.Kids = append(flat.Kids, i(int64(k)))
			objs.Kids = append(objs.Kids, nObj("x", i(int64(k))))
		}
		ms := magnitudes(n)
		// every index, last and inner
		if n <= 40 || full {
			for _, m := range ms {
				add(Path{fNth(m)}, flat, "big_nth", allReps)
				add(Path{fNth(m), fChild("x")}, objs, "big_nth", allReps)
				nNth += 2
			}
		}
		steps := append([]int{}, ms...)
		steps = append(steps, 3, -3, 7, -7)
		const absent = math.MinInt64 + 7 // (not a magnitude of the list)
		pick := func(pool []int, absentOneIn int) int {
			if absentOneIn > 0 && r.Intn(absentOneIn) == 0 {
				return absent
			}
			return pool[r.Intn(len(pool))]
		}
		k := perLen
		if n > 40 {
			k = perLen / 2 // (the long arrays cost more on both sides)
		}
		for j := 0; j < k; j++ {
			s, e, st := pick(ms, 6), pick(ms, 6), pick(steps, 4)
			var sl []int
			switch {
			case st != absent:
				sl = []int{0, maxEnd, st}
			case e != absent:
				sl = []int{0, maxEnd}
			case s != absent:
				sl = []int{0}
			}
			if s != absent {
				sl[0] = s
			}
			if e != absent {
				sl[1] = e
			}
			fs := fSlice(sl...)
			fs.NoStart = s == absent && len(sl) > 0 && e != maxEnd
			add(Path{fs}, flat, "big_slice", allReps)
			add(Path{fs, fChild("x")}, objs, "big_slice", allReps)
			nSlices += 2
		}
	}
	// unions with many members: indexes around the length in both directions, repeated, and names
	nUnions := 0
	for _, n := range []int{0, 5, 40, 100, 1000} {
		flat := &Node{Kind: 'a'}
		for k := 0; k < n; k++ {
			flat.Kids = append(flat.Kids, i(int64(k)))
		}
		for _, cnt := range []int{17, 64, 300} {
			var mem []any
			for k := 0; k < cnt; k++ {
				switch k % 5 {
				case 0:
					mem = append(mem, int64(k))
				case 1:
					mem = append(mem, int64(-k))
				case 2:
					mem = append(mem, int64(n-k))
				case 3:
					mem = append(mem, fmt.Sprintf("k%d", k))
				default:
					mem = append(mem, int64(magnitudes(n)[k%len(magnitudes(n))]))
				}
			}
			add(Path{fUnion(mem...)}, flat, "big_union", allReps)
			add(Path{fWild(), fUnion(mem...)}, nArr(flat, flat), "big_union", allReps)
			nUnions += 2
		}
	}
	// a wide object (names k0..k299) and a long array of objects, under every iterating fragment
	wide := &Node{Kind: 'o'}
	var names []any
	for k := 0; k < 300; k++ {
		wide.Keys = append(wide.Keys, fmt.Sprintf("k%03d", k)) // (in sorted order, as the canonical form has them)
		wide.Kids = append(wide.Kids, i(int64(k)))
		if k%3 == 0 {
			names = append(names, fmt.Sprintf("k%03d", 299-k))
		}
	}
	long := &Node{Kind: 'a'}
	for k := 0; k < 1000; k++ {
		long.Kids = append(long.Kids, nObj("x", i(int64(k)), "y", nArr(i(int64(k%7)))))
	}
	simpleReps := []Rep{repSimple, repGen, repUser}
	for _, p := range []Path{
		{fWild()}, {fUnion(names...)}, {fChild("k299")}, {fDescent(), fChild("k150")}, {fChild("k007")}, {fFilter(op2("gt", at(), ki(290)))},
	} {
		add(p, wide, "big_wide", simpleReps)
	}
	for _, p := range []Path{
		{fWild(), fChild("x")}, {fDescent(), fChild("x")}, {fFilter(op2("gte", at(fChild("x")), ki(990))), fChild("x")},
		{fFilter(op2("eq", at(fChild("y"), fNth(0)), ki(3))), fChild("y"), fNth(0)}, {fSlice(990, maxEnd), fChild("y"), fWild()},
		{fSlice(-1, -1001, -100), fChild("x")}, {fDescent(), fNth(0)}, {fWild(), fWild()}, {fNth(999), fChild("x")}, {fNth(-1000), fChild("x")},
		{fFilter(op2("eq", at(fChild("x")), rt(fNth(500), fChild("x")))), fChild("x")},
	} {
		add(p, long, "big_long", allReps)
	}
	// deep nesting: a chain of arrays, of objects, and alternating, with a leaf at the bottom and a sibling on
	// every level
	depths := []int{7, 8, 15, 16, 17, 33, 64}
	if full {
		depths = append(depths, 100, 128, 200)
	} else if d := os.Getenv("VERIF_BIG_DEPTH"); d != "" {
		depths = []int{0}
		fmt.Sscan(d, &depths[0])
	}
	nDeep := 0
	for _, d := range depths {
		chain := func(kind int) *Node {
			t := i(1)
			for k := 0; k < d; k++ {
				obj := kind == 1 || kind == 2 && k%2 == 0
				if obj {
					t = nObj("a", t, "b", i(int64(k)))
				} else {
					t = nArr(t, i(int64(k)))
				}
			}
			return t
		}
		down := func(kind int, n int) Path { // the child path of length n from the top
			var p Path
			for k := d - 1; k >= d-n; k-- {
				if kind == 1 || kind == 2 && k%2 == 0 {
					p = append(p, fChild("a"))
				} else {
					p = append(p, fNth(0))
				}
			}
			return p
		}
		for kind := 0; kind < 3; kind++ {
			t := chain(kind)
			reps := simpleReps
			if d <= 17 {
				reps = allReps
			}
			for _, p := range []Path{
				{fDescent()}, {fDescent(), fChild("a")}, {fDescent(), fNth(0)}, {fDescent(), fNth(-1)}, {fDescent(), fWild()},
				{fDescent(), fChild("b")}, {fDescent(), fFilter(op2("eq", at(), ki(1)))}, {fDescent(), fDescent(), fChild("b")},
				{fDescent(), fUnion("a", int64(0)), fUnion("b", int64(1))}, {fDescent(), fSlice(0, 1), fSlice(1)},
				down(kind, d), append(down(kind, d-1), fWild()), append(down(kind, d/2), fDescent(), fChild("b")),
				append(Path{fDescent()}, down(kind, 3)...),
			} {
				add(p, t, "big_deep", reps)
				nDeep++
			}
		}
	}
	return fmt.Sprintf("long and deep: every index of {0, ±1, ±2, ±(len-1), ±len, ±(len+1), ±2len, ±1000, ±1001, ±(maxEnd-1), ±maxEnd, ±(maxEnd+1), ±2^31, ±(MaxInt-1), ±MaxInt, MinInt} "+
		"x array length 0..40, 100, 1000 x {last, inner} (%d); %d sampled slices [s:e:t] over the same magnitudes (and absent) per length x {last, inner} (%d); "+
		"unions of 17, 64, 300 members on arrays of length 0, 5, 40, 100, 1000 (%d); an object of 300 members and an array of 1000 objects under wildcard, descent, filter, union, slice; "+
		"chains of arrays / objects / alternating of depth %v under descents, wildcards, filters, unions, slices and child paths of the full depth (%d)",
		nNth, perLen, nSlices, nUnions, depths, nDeep)
}
