package main

// STRUCTS stream: Go structs with UNEXPORTED fields.
//
// The typed representations of the other streams are built with reflect.StructOf, which can only make exported
// fields, so the code that skips what reflection may not hand out (`rv.CanInterface()`) was never exercised —
// seeded C11-m8: `reflectGetWildOne` (the "one member is enough" helper behind Has/First/FirstFound for a
// trailing wildcard) looked at the LAST declared field only; with an unexported last field `Has($.*)` was false
// while Get returned the exported members. Here hand-written named types carry an unexported field in the
// first, a middle and the last position (and one type has no exported field at all), as values, behind
// pointers, inside typed slices and at depth. An unexported field is invisible to every evaluator, so the
// equivalent plain tree has the exported members only (in declaration order); the cases go through the
// ordinary C05/C11 machinery — every evaluator against Get on the plain data and against its model — with the
// hand-built value as the `rslice.struct` representation.

type unexLast struct {
	A int64
	B []int64
	c bool //nolint:unused
}

type unexFirst struct {
	u0 bool //nolint:unused
	A int64
	B []int64
}

type unexMid struct {
	A int64
	m string //nolint:unused
	B []int64
}

type unexOnly struct {
	x, y int64 //nolint:unused
}

type unexTwo struct {
	A int64
	m string //nolint:unused
	c bool   //nolint:unused
}

// (exported fields in the alphabetical order of their names: the plain tree keeps its members sorted, and on a
// struct the declaration order is the order of the results)
type unexNest struct {
	L []unexLast
	O unexOnly
	P *unexLast
	Q unexMid
	T *unexTwo
	z int64 //nolint:unused
}

type unexDeep struct {
	h bool //nolint:unused
	K *unexNest
	N []unexNest
}

func ints(xs ...int64) *Node {
	a := &Node{Kind: 'a'}
	for _, x := range xs {
		a.Kids = append(a.Kids, nInt(x))
	}
	return a
}

func i64s(xs ...int64) []int64 { return append([]int64{}, xs...) }

// structCases: (hand-built value, the plain tree of its exported members)
func structCases() (vals []any, trees []*Node) {
	ab := func(a int64, b ...int64) *Node { return nObj("a", nInt(a), "b", ints(b...)) }
	add := func(v any, t *Node) { vals, trees = append(vals, v), append(trees, t) }
	l1 := unexLast{A: 1, B: i64s(5, 6), c: true}
	add(l1, ab(1, 5, 6))
	add(&l1, ab(1, 5, 6))
	add(unexFirst{u0: true, A: 2, B: i64s(7)}, ab(2, 7))
	add(unexMid{A: 3, m: "m", B: i64s()}, ab(3))
	add(&unexMid{A: 3, m: "m", B: i64s(8, 9)}, ab(3, 8, 9))
	add(unexOnly{x: 1, y: 2}, nObj())
	add(unexTwo{A: 4, m: "m", c: true}, nObj("a", nInt(4)))
	add([]unexLast{l1, {A: 2, B: i64s(), c: false}}, nArr(ab(1, 5, 6), ab(2)))
	add([]unexTwo{{A: 4}, {A: 5}}, nArr(nObj("a", nInt(4)), nObj("a", nInt(5))))
	nest := unexNest{P: &l1, Q: unexMid{A: 3, m: "q", B: i64s(1)}, L: []unexLast{l1, {A: 9, B: i64s(2, 3)}}, O: unexOnly{}, T: &unexTwo{A: 6}, z: 1}
	nestT := nObj("p", ab(1, 5, 6), "q", ab(3, 1), "l", nArr(ab(1, 5, 6), ab(9, 2, 3)), "o", nObj(), "t", nObj("a", nInt(6)))
	add(nest, nestT)
	add(&nest, nestT)
	add(unexDeep{h: true, N: []unexNest{nest}, K: &nest}, nObj("n", nArr(nestT), "k", nestT))
	return
}

func structPaths() []Path {
	c, n, w, d := fChild, fNth, fWild, fDescent
	u := func(m ...any) Frag { return fUnion(m...) }
	return []Path{
		{w()}, {w(), w()}, {w(), w(), w()}, {d(), w()}, {d(), c("a")}, {d(), c("b"), w()}, {d(), c("b"), n(0)},
		{c("a")}, {c("b")}, {c("b"), w()}, {c("c")}, {c("m")}, {c("z")}, {c("x")},
		{c("p"), w()}, {c("q"), w()}, {c("o"), w()}, {c("t"), w()}, {c("l"), w(), w()}, {c("l"), n(-1), w()}, {c("l"), n(0), c("b"), n(1)},
		{n(0), w()}, {n(1), w()}, {n(-1), c("b"), w()}, {w(), c("a")}, {w(), c("b"), n(0)},
		{c("n"), w(), w()}, {c("n"), n(0), c("t"), w()}, {c("k"), w()}, {c("k"), c("o"), w()}, {c("k"), c("t"), w()}, {c("k"), d(), w()},
		{d(), c("t"), w()}, {d(), c("o"), w()}, {d(), c("l"), n(0), w()}, {d(), w(), c("a")},
		{u("a", "c")}, {u("c", "a")}, {u("p", "z", "t"), w()}, {w(), u("a", "b")},
		{fFilter(op2("eq", at(fChild("a")), ki(1)))}, {c("l"), fFilter(op2("eq", at(fChild("a")), ki(9))), w()},
		{w(), fFilter(op2("gt", at(), ki(5)))}, {d(), fFilter(at(fChild("b")))},
	}
}

// structStream emits every struct value with every path (both tiers: a few hundred cases).
func structStream(emit func(Case)) int {
	if *prop != "C11" {
		return 0 // other representations than the plain one are C11's business
	}
	vals, trees := structCases()
	n := 0
	for i, v := range vals {
		for _, p := range structPaths() {
			if *prop == "C11" && p.endsInDescent() {
				continue
			}
			rep.Count("stream.structs_unexported", 1)
			emit(Case{p: p, t: trees[i], src: "structs_unexported", reps: []Rep{repSimple, repHeld}, held: v, hidx: i})
			n++
		}
	}
	return n
}
