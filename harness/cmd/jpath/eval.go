package main

import (
	"fmt"
	"math"
	"sort"
	"strconv"
	"strings"

	"github.com/ohler55/ojg/gen"
	"github.com/ohler55/ojg/jp"

	"verif/harness/lib"
)

// out is what one evaluator produced on one (path, data, representation).
type out struct {
	vals  []string // Get, GetNodes: canonical values in result order; Locate, Walk: "path=value"
	found bool     // First, FirstNode, Has
	val   string
	panic string
	bad   string // an oracle check that is local to this evaluator failed (e.g. a path that is not Normal)
}

func (o out) String() string {
	if o.panic != "" {
		return "panic " + o.panic
	}
	return strings.Join(o.vals, ";")
}

func guard(o *out) {
	if r := recover(); r != nil {
		o.panic = fmt.Sprint(r)
	}
}

func goGet(x jp.Expr, data any) (o out) {
	defer guard(&o)
	for _, v := range x.Get(data) {
		o.vals = append(o.vals, canonOf(v))
	}
	return
}

func goFirst(x jp.Expr, data any, ordered bool) (o out) {
	defer guard(&o)
	v, found := x.FirstFound(data)
	o.found = found
	if found {
		o.val = canonOf(v)
	}
	// First is FirstFound without the flag
	f := x.First(data)
	if ordered && (found && canonOf(f) != o.val || !found && f != nil) {
		o.bad = "First differs from FirstFound"
	}
	return
}

func goHas(x jp.Expr, data any) (o out) {
	defer guard(&o)
	o.found = x.Has(data)
	return
}

func goNodes(x jp.Expr, data gen.Node) (o out) {
	defer guard(&o)
	for _, v := range x.GetNodes(data) {
		o.vals = append(o.vals, canonOf(v))
	}
	return
}

func goFirstNode(x jp.Expr, data gen.Node, root *Node) (o out) {
	defer guard(&o)
	v := x.FirstNode(data)
	// FirstNode has no found flag: nil is "nothing" as well as a null element
	o.found = v != nil
	if v != nil {
		o.val = canonOf(v)
	}
	return
}

// locString normalises a located path (Root/Child/Nth) against the tree: negative indexes become
// absolute (Nth.Walk reports the index as written). ok=false if the path is not Normal.
func locString(x jp.Expr, root *Node, structs bool) (string, bool) {
	cur := root
	var steps []string
	for _, f := range x {
		switch t := f.(type) {
		case jp.Root:
		case jp.Child:
			if structs && cur != nil && cur.Kind == 'o' && len(t) > 0 {
				// a struct member is reported by its field name (Get finds it case-insensitively)
				t = jp.Child(strings.ToLower(string(t[:1])) + string(t[1:]))
			}
			steps = append(steps, "k"+lib.HexF([]byte(t)))
			var next *Node
			if cur != nil && cur.Kind == 'o' {
				for i, k := range cur.Keys {
					if k == string(t) {
						next = cur.Kids[i]
					}
				}
			}
			cur = next
		case jp.Nth:
			i := int(t)
			if i < 0 && cur != nil && cur.Kind == 'a' {
				i += len(cur.Kids)
			}
			steps = append(steps, "i"+strconv.Itoa(i))
			var next *Node
			if cur != nil && cur.Kind == 'a' && 0 <= i && i < len(cur.Kids) {
				next = cur.Kids[i]
			}
			cur = next
		default:
			return "", false
		}
	}
	if len(steps) == 0 {
		return "-", true
	}
	return strings.Join(steps, "."), true
}

// located renders one reported location: the path, and the value the property's own oracle gives for
// it — Get of that path on the simple data must be exactly one element.
func located(o *out, loc jp.Expr, root *Node, simple any, structs bool, reported *string) {
	ps, ok := locString(loc, root, structs)
	if !ok || !loc.Normal() {
		o.bad = "reported path is not normalized: " + loc.String()
		return
	}
	got := goGet(loc, simple)
	if len(loc) == 0 {
		// the empty path is the data itself (Get of an empty expression returns nothing by definition)
		got = out{vals: []string{root.canon()}}
	}
	val := "n"
	switch {
	case got.panic != "":
		o.bad = "Get of the reported path " + loc.String() + " panics"
	case len(got.vals) != 1:
		o.bad = fmt.Sprintf("Get of the reported path %s yields %d elements", loc.String(), len(got.vals))
	default:
		val = got.vals[0]
		if reported != nil && *reported != val {
			o.bad = fmt.Sprintf("Get of the reported path %s yields %s, the walk reported %s", loc.String(), val, *reported)
		}
	}
	o.vals = append(o.vals, ps+"="+val)
}

// The location oracle runs Get of the reported path on the data the evaluator was given (a struct member
// is reported by its field name, which only that representation resolves).
func goLocate(x jp.Expr, data any, root *Node, structs bool) (o out) {
	defer guard(&o)
	for _, loc := range x.Locate(data, 0) {
		located(&o, loc, root, data, structs, nil)
	}
	return
}

// goLocateMax: Locate with a budget; the reported paths in the order of the returned slice.
func goLocateMax(x jp.Expr, data any, root *Node, max int) (o out) {
	defer guard(&o)
	for _, loc := range x.Locate(data, max) {
		located(&o, loc, root, data, false, nil)
	}
	return
}

func goWalk(x jp.Expr, data any, root *Node, structs bool) (o out) {
	defer guard(&o)
	x.Walk(data, func(path jp.Expr, nodes []any) {
		rep := canonOf(nodes[len(nodes)-1])
		located(&o, append(jp.Expr{}, path...), root, data, structs, &rep)
	})
	return
}

func sorted(xs []string) []string {
	s := append([]string{}, xs...)
	sort.Strings(s)
	return s
}

func sameList(a, b []string) bool {
	if len(a) != len(b) {
		return false
	}
	for i := range a {
		if a[i] != b[i] {
			return false
		}
	}
	return true
}

func sameBag(a, b []string) bool { return sameList(sorted(a), sorted(b)) }

func same(a, b []string, ordered bool) bool {
	if ordered {
		return sameList(a, b)
	}
	return sameBag(a, b)
}

func contains(xs []string, x string) bool {
	for _, y := range xs {
		if x == y {
			return true
		}
	}
	return false
}

func splitVals(s string) []string {
	if s == "" {
		return nil
	}
	return strings.Split(s, ";")
}

// valuesOf strips the paths of a located list.
func valuesOf(located []string) []string {
	v := make([]string, len(located))
	for i, l := range located {
		v[i] = l[strings.IndexByte(l, '=')+1:]
	}
	return v
}

func floatFromBits(b uint64) float64 { return math.Float64frombits(b) }
