// Correspondence and oracle harness for the JSONPath evaluators (C05, C11).
//
// A case is a path (fragments) and a data tree. The tree is built in every representation it has
// (simple, gen nodes, user Indexed/Keyed collections, typed slices/arrays/structs/maps made with
// reflect), the path is run through the real evaluators, and the Lean driver is asked for the
// denotation (Spec) and for the model of each evaluator.
//
//	C05  violation:    Go Get differs from the denotation of the path (Spec.eval)
//	     disagreement: Go Get differs from the model of Get (work-list machine)
//	C11  violation:    an evaluator / representation does not agree with Go Get on the simple data
//	                   (Has ⇔ non-empty, First ∈ / head, Locate and Walk: normalized paths whose own Get
//	                   yields exactly the results, GetNodes/FirstNode on gen data, Get on every representation)
//	     disagreement: an evaluator differs from its model
//
// Filters: real scripts (`@`-relative), generated as trees: all six comparison operators with the path on
// either side, int/float constants and elements that are equal or adjacent (10 vs 10.0, 9 vs 10.0, -0.0
// vs 0), connectives, bare paths (existence), nested filters. The library parses the text; the Lean driver
// gets the tree and computes the truth value itself (FilterSpec.matches: the documented semantics of the
// script specification of the C12 family) — the implementation is never asked what a script means.
package main

import (
	"encoding/json"
	"flag"
	"fmt"
	"os"
	"reflect"
	"strconv"
	"strings"
	"sync"
	"sync/atomic"
	"time"

	"github.com/ohler55/ojg/gen"

	"verif/harness/lib"
)

var (
	prop    = flag.String("prop", "C05", "property id")
	tier    = flag.String("tier", "quick", "quick|thorough")
	seed    = flag.Uint64("seed", 1, "PRNG seed")
	driver  = flag.String("driver", "", "path of drv_jpath")
	outPath = flag.String("out", "", "report path")
	replay  = flag.String("replay", "", "replay file")
	corpus  = flag.String("corpus", "", "corpus file: one JSON case per line")
	known   = flag.String("known", "", "known_findings.json")
	workers = flag.Int("workers", 16, "parallel workers")
)

var rep *lib.Report
var knownList []lib.Known

// Case is one (path, tree) with the representations to run it on.
type Case struct {
	p    Path
	t    *Node
	src  string
	reps []Rep
	held any // a hand-built value that IS the representation repHeld of t (stream structs_unexported)
	hidx int // its index in structCases() (for the replay record)
}

// repHeld: the representation tag under which Case.held is run (typed slices, structs)
var repHeld = Rep{"rslice", "struct"}

type worker struct {
	d   *lib.Driver
	cur atomic.Value // description of the case being run (for the watchdog)
}

func main() {
	flag.Parse()
	rep = lib.NewReport(*prop, *tier, *seed)
	knownList = lib.LoadKnown(*known, *prop)
	if err := initPinned(*driver); err != nil {
		fmt.Fprintln(os.Stderr, "harness failure:", err)
		os.Exit(3)
	}
	if *replay != "" {
		runReplay()
		return
	}
	cases := make(chan []Case, 64)
	var wg sync.WaitGroup
	var fatal atomic.Value
	ws := make([]*worker, *workers)
	var progress int64
	for i := range ws {
		ws[i] = &worker{}
		wg.Add(1)
		go func(w *worker) {
			defer wg.Done()
			d, err := lib.StartDriver(*driver)
			if err != nil {
				fatal.Store(err.Error())
				for range cases {
				}
				return
			}
			w.d = d
			defer d.Close()
			for batch := range cases {
				for _, c := range batch {
					w.cur.Store(describe(c.p, c.t))
					if err := w.run(c); err != nil {
						fatal.Store(err.Error())
					}
					atomic.AddInt64(&progress, 1)
				}
			}
		}(ws[i])
	}
	// watchdog: an evaluator that does not return is a machinery failure with the case named
	done := make(chan struct{})
	go func() {
		last, stale := int64(-1), 0
		for {
			select {
			case <-done:
				return
			case <-time.After(5 * time.Second):
			}
			p := atomic.LoadInt64(&progress)
			if p == last {
				stale++
			} else {
				stale = 0
			}
			last = p
			if stale >= 12 {
				for _, w := range ws {
					fmt.Fprintln(os.Stderr, "stuck on:", w.cur.Load())
				}
				os.Exit(3)
			}
		}
	}()
	if *prop == "C11" {
		witnessLocateStep0()
	}
	if on("history") {
		historyStream()
	}
	var cur []Case
	emit := func(c Case) {
		cur = append(cur, c)
		if len(cur) >= 64 {
			cases <- cur
			cur = nil
		}
	}
	produce(emit)
	if len(cur) > 0 {
		cases <- cur
	}
	close(cases)
	wg.Wait()
	close(done)
	if e := fatal.Load(); e != nil {
		fmt.Fprintln(os.Stderr, "harness failure:", e)
		os.Exit(3)
	}
	rep.Rule = "cases: corpus; exhaustive slice box (start, end, step incl. absent bounds x length x last/inner position x array representation); " +
		"every fragment of an alphabet in every position of paths up to a length over small trees; seeded random paths (incl. nested filters) x random trees, " +
		"plus random typed trees; every case through Go Get and, for C11, all eight evaluators on every representation the tree has; " +
		"distinct_nontrivial counts distinct (path, tree) pairs with a non-empty path and a container root"
	if err := rep.Write(*outPath); err != nil {
		fmt.Fprintln(os.Stderr, err)
		os.Exit(3)
	}
}

// witnessLocateStep0: Locate on typed data with a step of 0 used not to return (before fa2ed77); the case
// streams now run it, this bounded call keeps a regression from hanging the run unnoticed.
func witnessLocateStep0() {
	done := make(chan []string, 1)
	go func() {
		defer func() {
			if r := recover(); r != nil {
				done <- []string{"panic"}
			}
		}()
		var got []string
		for _, l := range (Path{fSlice(1, 0, 0)}).expr(true).Locate([]int64{5, 6, 7}, 2) {
			got = append(got, l.String())
		}
		done <- got
	}()
	c := &Case{p: Path{fSlice(1, 0, 0)}, t: nArr(nInt(5), nInt(6), nInt(7)), src: "witness"}
	select {
	case got := <-done:
		rep.AddEval(1, 1)
		if len(got) != 0 {
			finding("violation", "locate:rslice.struct:step0", "Locate on a typed slice with step 0 (max 2) returns "+strings.Join(got, " ")+", Get returns nothing", c,
				map[string]any{"rep": "rslice.struct", "evaluator": "locate", "impl": strings.Join(got, ";"), "max": 2})
		}
	case <-time.After(10 * time.Second):
		// the stuck call keeps allocating: report the violation and end the run here
		finding("violation", "locate:rslice.struct:step0-hang", "Locate on a typed slice with step 0 and max 2 does not return", c, nil)
		rep.Rule = "run ended by a Locate call that does not return"
		_ = rep.Write(*outPath)
		os.Exit(0)
	}
}

var seenCases sync.Map

func on(name string) bool {
	sel := os.Getenv("VERIF_STREAMS")
	return sel == "" || strings.Contains(","+sel+",", ","+name+",")
}

// produce emits the case streams.
func produce(emit func(Case)) {
	full := *tier == "thorough"
	c11 := *prop == "C11"
	add := func(p Path, t *Node, src string, reps []Rep) {
		if c11 && p.endsInDescent() {
			rep.Count("stream.skipped_trailing_descent", 1)
			return // C11 is about paths not ending in a bare descent
		}
		key := p.String() + "\x00" + t.canon()
		if _, dup := seenCases.LoadOrStore(key, true); dup {
			rep.Count("stream.duplicates_skipped", 1)
			return
		}
		rep.Count("stream."+src, 1)
		emit(Case{p: p, t: t, src: src, reps: reps})
	}
	allReps := append([]Rep{repSimple, repGen, repUser}, repTyped...)
	if sel := os.Getenv("VERIF_REPS"); sel != "" { // development aid: restrict the representations
		var rs []Rep
		for _, r := range allReps {
			if strings.Contains(","+sel+",", ","+r.String()+",") {
				rs = append(rs, r)
			}
		}
		allReps = rs
	}
	// 1. corpus
	if *corpus != "" {
		if data, err := os.ReadFile(*corpus); err == nil {
			for _, line := range strings.Split(string(data), "\n") {
				line = strings.TrimSpace(line)
				if line == "" || strings.HasPrefix(line, "#") {
					continue
				}
				if p, t, err := decodeCase([]byte(line)); err == nil {
					add(p, t, "corpus", allReps)
				} else {
					fmt.Fprintln(os.Stderr, "bad corpus line:", err)
					os.Exit(3)
				}
			}
		}
	}
	// 2. exhaustive slice box
	if on("box") {
		lo, hi, maxLen := -7, 7, 5
		if c11 && !full {
			lo, hi = -4, 4 // the full box is C05's (quick) and the thorough tier's
		}
		bounds := []int{}
		for i := lo; i <= hi; i++ {
			bounds = append(bounds, i)
		}
		arrays := make([]*Node, maxLen+1)
		for n := 0; n <= maxLen; n++ {
			a := &Node{Kind: 'a'}
			for i := 0; i < n; i++ {
				a.Kids = append(a.Kids, nObj("x", nInt(int64(i))))
			}
			arrays[n] = a
		}
		boxReps := []Rep{repSimple, repGen, repUser, {"rslice", "struct"}, {"rarray", "struct"}}
		const absent = 1 << 40
		for _, s := range append([]int{absent}, bounds...) {
			for _, e := range append([]int{absent}, bounds...) {
				for _, st := range append([]int{absent}, bounds...) {
					var sl []int
					switch {
					case st != absent:
						sl = []int{0, maxEnd, st}
					case e != absent:
						sl = []int{0, maxEnd}
					case s != absent:
						sl = []int{0}
					}
					if s != absent {
						sl[0] = s
					}
					if e != absent {
						sl[1] = e
					}
					fs := fSlice(sl...)
					fs.NoStart = s == absent && len(sl) > 0 // `[:e:t]`: only the text form can say so
					for _, a := range arrays {
						add(Path{fs}, a, "box_last", boxReps)
						add(Path{fs, fChild("x")}, a, "box_inner", boxReps)
					}
				}
			}
		}
		rep.Exhaustive = append(rep.Exhaustive, fmt.Sprintf(
			"slice [s:e:t] with s, e, t in [%d,%d] or absent x array length 0..%d x {last, inner (followed by .x)} x representations %v",
			lo, hi, maxLen, boxReps))
	}
	// 3. every fragment kind in every position over small trees
	if on("enum") {
		alpha := fragAlphabet(full)
		maxLen := 2
		if full {
			maxLen = 3
		}
		trees := smallTrees()
		var rec func(p Path)
		rec = func(p Path) {
			if len(p) > 0 {
				for _, t := range trees {
					add(append(Path{}, p...), t, "enum", allReps)
				}
			}
			if len(p) == maxLen {
				return
			}
			for _, f := range alpha {
				rec(append(p, f))
			}
		}
		rec(nil)
		for _, t := range trees {
			add(Path{}, t, "enum", allReps)
		}
		rep.Exhaustive = append(rep.Exhaustive, fmt.Sprintf("all paths of length <= %d over an alphabet of %d fragments (every kind) x %d small trees", maxLen, len(alpha), len(trees)))
	}
	// 3a. every comparison operator x orientation x (constant, element) over numbers equal or adjacent
	// across int and float, in four filter positions
	if on("cmp") {
		n := comparisonBox(func(p Path, t *Node) { add(p, t, "comparison_box", allReps) })
		rep.Exhaustive = append(rep.Exhaustive, fmt.Sprintf("filter comparisons: 6 operators x path left/right x 19 constants x 20 elements (9, 10, 11, 9.0, 10.0, 11.0, 10.5, 0, 0.0, -0.0, -1, 3, 3.0, -2, -3, -2.0, -2.5, -1.5, -0.5, 2.5) x 5 filter positions (%d paths)", n))
	}
	// 3a'. filters below the root that read from `$` (the query argument)
	if on("root") {
		n := rootBox(func(p Path, t *Node) { add(p, t, "root_box", allReps) })
		rep.Exhaustive = append(rep.Exhaustive, fmt.Sprintf("filters reading from $: 6 operators x $-operand left/right x 7 filter positions below the root (member, member.member, wildcard, descent, multi-valued $-path, inner and last) x 11 trees (int/float/string/null keys against int and float members, -2 next to -2.5), existence, negation, conjunction, filter under filter, $ in a nested filter (%d paths)", n))
	}
	// 3a'''. structs with unexported fields (hand-written named types), as values, behind pointers, at depth
	if on("structs") {
		n := structStream(emit)
		rep.Exhaustive = append(rep.Exhaustive, fmt.Sprintf("structs with an unexported field first / in the middle / last / only, values and pointers, in typed slices and nested: 12 values x 44 paths (%d cases)", n))
	}
	// 3a". long arrays, large magnitudes, many members, deep nesting
	if on("big") {
		rep.Exhaustive = append(rep.Exhaustive, bigStream(lib.NewRng(*seed).Fork(7), full, add, allReps))
	}
	// 3b. boundary families named by the properties
	if on("bound") {
		i := nInt
		deep := nArr(nArr(i(1)), nArr(nObj("a", i(5))), nObj("a", nArr(nObj("a", i(7)))))
		wide := nObj("a", nArr(i(1), nArr(i(2))), "b", nObj("a", i(3)), "c", nArr(nObj("a", i(4))))
		for _, t := range []*Node{deep, wide, nArr(), nObj(), i(5), nArr(nNull()), nArr(i(1), nArr(nArr(nArr(i(9)))))} {
			for _, p := range []Path{
				{fWild(), fDescent(), fChild("a")}, // descent after a multi-selection
				{fUnion(int64(1), int64(0)), fDescent(), fChild("a")},
				{fFilter(op2("neq", at(), knull())), fDescent(), fChild("a")}, // a filter hands on non-containers
				{fDescent(), fDescent(), fChild("a")},
				{fDescent(), fWild(), fDescent(), fNth(0)},
				{fNth(0), fDescent()}, {fWild(), fDescent()}, {fDescent()}, // trailing descents (C05 only)
				{fSlice(3, 2, 5), fChild("x")}, {fSlice(0, -1)}, {fSlice(5, 0, -1)}, {fSlice(2, -4, -3)},
				{fSlice(-4, -2, -4), fWild()}, {fSlice(0, maxEnd, -1)}, {fSlice(2, maxEnd, -1)},
				{fUnion(int64(-4), "a", int64(3))}, {fUnion(int64(0), int64(0))}, {fUnion(int64(5), int64(0))},
				{fNth(0), fUnion(int64(-1), int64(5))},
				{fFilter(op2("eq", at(), knull()))}, {fFilter(op2("gt", at(), ki(1)))},
				{fFilter(at(fChild("a")))}, {fFilter(at(fChild("b"))), fChild("a")}, {fFilter(not(at(fChild("a"))))}, // a path alone: existence
				{},
			} {
				add(p, t, "boundary", allReps)
			}
		}
	}
	// 4. seeded random paths x random trees
	if on("rand") {
		r := lib.NewRng(*seed)
		pg := &pathGen{r: r.Fork(1)}
		tg := &treeGen{r: r.Fork(2)}
		n := 12000
		if full {
			n = 250000
		}
		for i := 0; i < n; i++ {
			var t *Node
			switch i % 4 {
			case 0:
				t = tg.typedTree(3, 4, false)
			case 1:
				t = tg.typedTree(3, 4, true)
			default:
				t = tg.tree(4, 5)
			}
			src := "random"
			if i%4 < 2 {
				src = "random_typed"
			}
			add(pg.path(4), t, src, allReps)
		}
	}
}

// ---- one case ---------------------------------------------------------------------------------

type query struct {
	op, rep, flags string
}

func (w *worker) ask(c *Case, pw, dw string, qs []query) ([]string, error) {
	reqs := make([]string, len(qs))
	for i, q := range qs {
		reqs[i] = q.op + "\t" + q.rep + "\t" + q.flags + "\t" + pw + "\t" + dw
	}
	ans, err := w.d.Ask(reqs)
	if err != nil {
		return nil, err
	}
	for i, a := range ans {
		if a == "bad-op" {
			return nil, fmt.Errorf("driver rejects %q", reqs[i])
		}
	}
	return ans, nil
}

func (w *worker) run(c Case) error {
	pw, dw := c.p.wire(), c.t.canon()
	nontrivial := int64(0)
	if len(c.p) > 0 && c.t.isContainer() {
		nontrivial = 1
	}
	rep.AddEval(1, nontrivial)
	if *prop == "C05" {
		return w.runC05(&c, pw, dw)
	}
	return w.runC11(&c, pw, dw)
}

func replayOf(c *Case, extra map[string]any) map[string]any {
	r := map[string]any{"case": encodeCase(c.p, c.t), "path": c.p.String(), "data": c.t.canon(), "stream": c.src}
	if c.held != nil {
		r["held_index"], r["held_type"] = c.hidx, fmt.Sprintf("%T", c.held)
	}
	for k, v := range extra {
		r[k] = v
	}
	return r
}

func finding(kind, class, what string, c *Case, extra map[string]any) {
	rep.Add(lib.Finding{Kind: kind, Class: class, What: what, Replay: replayOf(c, extra)})
}

// knownFinding records a violation that a listed known finding explains. The class of a known finding is
// its id plus the evaluator (the representation and the flags are in the replay), so that the report keeps
// room for everything else.
func knownFinding(id, class, what string, c *Case, extra map[string]any) {
	if !lib.HasKnown(knownList, id) {
		// not listed (any more): it is a plain violation
		finding("violation", class, what, c, extra)
		return
	}
	if extra == nil {
		extra = map[string]any{}
	}
	extra["class"] = class
	short := id
	if i := strings.IndexByte(class, ':'); i > 0 {
		short = id + ":" + class[:i]
	}
	rep.Add(lib.Finding{Kind: "known", Class: short, What: what, Replay: replayOf(c, extra), KnownID: id})
}

var sampleCounter int64

func (w *worker) runC05(c *Case, pw, dw string) error {
	simple := c.t.simple()
	ordSimple := !(c.p.iterates() && c.t.wideObject())
	x := c.p.expr(true)
	reps := c.reps
	if len(reps) == 0 {
		reps = []Rep{repSimple}
	}
	if c.src != "box_last" && c.src != "box_inner" && c.src != "replay" {
		reps = []Rep{repSimple} // other representations are C11's business
	}
	if c.src == "replay" && c.p.endsInDescent() {
		reps = []Rep{repSimple, repGen, repUser} // (a trailing descent on typed data is not modelled)
	}
	qs := []query{{"spec", "any.map", "-"}, {"specrfc", "any.map", "-"}}
	for _, r := range reps {
		qs = append(qs, query{"get", r.String(), pinnedFlags}, query{"gets", r.String(), pinnedFlags})
	}
	ans, err := w.ask(c, pw, dw, qs)
	if err != nil {
		return err
	}
	specVals := valuesOf(splitVals(ans[0])) // the denotation in the code's reading of slices
	rfcVals := valuesOf(splitVals(ans[1]))  // the documented denotation (RFC 9535 slices): the oracle
	if n := atomic.AddInt64(&sampleCounter, 1); n%9973 == 1 {
		rep.Sample(map[string]any{"path": c.p.String(), "data": dw, "spec": ans[1], "model_get": ans[2], "impl_get": goGet(x, simple).String()})
	}
	rep.Count(fmt.Sprintf("results.%d", min(len(specVals), 4)), 1)
	for ri, r := range reps {
		data, ok := c.t.build(r)
		if c.held != nil && r == repHeld {
			data, ok = c.held, true
		}
		if !ok {
			continue
		}
		ord := ordSimple || r.orderedObjects()
		g := goGet(x, data)
		model := splitVals(ans[2+2*ri])
		skel := valuesOf(splitVals(ans[3+2*ri]))
		desc := map[string]any{"rep": r.String(), "impl": g.String(), "spec": strings.Join(rfcVals, ";"),
			"spec_code_reading": strings.Join(specVals, ";"), "model": ans[2+2*ri]}
		rep.Count("runs.get."+r.String(), 1)
		if !sameList(model, skel) && !r.typed() {
			finding("disagreement", "machine-skeleton:"+r.String(), "the Get machine and the skeleton denotation differ", c, desc)
		}
		if r.typed() {
			model = skel
		}
		if g.panic != "" {
			if c.p.hasHuge() {
				knownFinding("C05-int-overflow", "get-panic:"+r.String()+":huge", "Get panics on an index, bound or step near MaxInt/MinInt: "+g.panic, c, desc)
			} else {
				finding("violation", "get-panic:"+r.String(), "Get panics: "+g.panic, c, desc)
			}
			continue
		}
		tie := same(g.vals, model, ord)
		if !tie && c.p.hasHuge() && sameList(model, rfcVals) {
			// the model computes with unbounded integers and gives the denotation; Go's int wrapped around
			knownFinding("C05-int-overflow", "get-denotation:"+r.String()+":huge", "Get does not return what the path denotes (an index, bound or step near MaxInt/MinInt wraps around)", c, desc)
			continue
		}
		if !tie && !ord && c.p.descentAfterFrag() && pinned('s') {
			// which of several containers is descended into (descentSiblings) depends on Go's map order
			if id, err := w.unorderedSiblings(c, pw, dw, query{"get", r.String(), pinnedFlags}, g.vals); err != nil {
				return err
			} else if id != "" {
				knownFinding(id, "get-denotation:"+r.String()+":flags=s:map-order", "Get does not return what the path denotes (descent after a fragment, map order decides)", c, desc)
				continue
			}
		}
		if !tie {
			finding("disagreement", "model-get:"+r.String(), "Go Get and the model of Get differ", c, desc)
		}
		// the oracle: Get returns exactly what the path denotes by the DOCUMENTED semantics (evalRfc: slices per
		// RFC 9535); in array order where the order is defined (a path ending in a bare descent fixes the set
		// of nodes only)
		listed := ord && ordSimple && !c.p.endsInDescent()
		if same(g.vals, rfcVals, listed) {
			continue
		}
		if same(g.vals, specVals, listed) {
			// Get implements the code's reading of the slice (Spec.eval), which differs from the documented one
			// only for negative-step slices (evalRfc_eq_eval): exactly that known finding, if the path has one
			if c.p.hasNegStep() && tie {
				knownFinding("C05-slice-negative-step", "get-denotation:"+r.String()+":negative-step", "Get does not return what the path denotes (negative-step slice: default or out-of-range bounds)", c, desc)
			} else {
				finding("violation", "get-denotation:"+r.String(), "Get does not return what the path denotes", c, desc)
			}
			continue
		}
		if !tie {
			finding("violation", "get-denotation:"+r.String(), "Get does not return what the path denotes", c, desc)
			continue
		}
		// explained by a listed deviation? (the fixed configuration of the model must give the denotation)
		id, why, err := w.explainC05(c, pw, dw, r, specVals, ord && ordSimple)
		if err != nil {
			return err
		}
		if id != "" {
			knownFinding(id, "get-denotation:"+r.String()+":"+why, "Get does not return what the path denotes ("+why+")", c, desc)
		} else {
			finding("violation", "get-denotation:"+r.String(), "Get does not return what the path denotes", c, desc)
		}
	}
	// the leading `$` is optional
	if len(c.p) > 0 {
		g, gb := goGet(x, simple), goGet(c.p.expr(false), simple)
		if !ordSimple && c.p.descentAfterFrag() && pinned('s') {
			// two runs may differ (descentSiblings with Go's map order)
		} else if g.panic != gb.panic || !same(g.vals, gb.vals, ordSimple) {
			finding("violation", "root-prefix", "Get differs with and without the leading $", c, map[string]any{"rooted": g.String(), "bare": gb.String()})
		}
	}
	return nil
}

// allFlags are the deviation flags of the model (Cfg). "P" is the pinned configuration, the model of the
// code as it is; the driver tells which flags it has on (pinnedLetters). VERIF_FIXED=<letters> runs the
// check with those flags off as well (to try the harness against a tree patched with a proposed fix).
const allFlags = "esncyowurlzmtfghdakpq"

var pinnedLetters = allFlags // set from the driver at start-up
var pinnedFlags = "P"

func initPinned(exe string) error {
	d, err := lib.StartDriver(exe)
	if err != nil {
		return err
	}
	defer d.Close()
	ans, err := d.Ask1("pinned")
	if err != nil {
		return err
	}
	if ans == "bad-op" {
		return fmt.Errorf("driver does not answer the pinned op")
	}
	pinnedLetters = ans
	if off := os.Getenv("VERIF_FIXED"); off != "" {
		for i := 0; i < len(off); i++ {
			pinnedLetters = strings.ReplaceAll(pinnedLetters, string(off[i]), "")
		}
		pinnedFlags = pinnedLetters
		if pinnedFlags == "" {
			pinnedFlags = "-"
		}
	}
	return nil
}

func pinned(f byte) bool { return strings.IndexByte(pinnedLetters, f) >= 0 }

func without(f byte) string {
	s := strings.ReplaceAll(pinnedLetters, string(f), "")
	if s == "" {
		return "-"
	}
	return s
}

var flagSlug = map[byte]string{
	'e': "inner-empty-slice",
	's': "descent-siblings",
	'n': "locate-negative-end",
	'c': "locate-start-clamp",
	'y': "locate-empty-array",
	'o': "locate-root",
	'w': "walk-descent-self",
	'u': "getnodes-union-nil",
	'r': "getnodes-filter-order",
	'l': "firstnode-last",
	'z': "getnodes-filter-null",
	'm': "typed-map-members",
	't': "typed-object-filter",
	'f': "first-typed-slice",
	'g': "first-typed-wildcard",
	'h': "has-typed-map",
	'd': "has-typed-descent",
	'a': "walk-typed-array",
	'k': "nested-filter-root",
	'p': "locate-filter-root",
	'q': "walk-filter-root",
}

func (w *worker) explainC05(c *Case, pw, dw string, r Rep, specVals []string, ordered bool) (string, string, error) {
	op := "get"
	if r.typed() {
		op = "gets"
	}
	vals := func(a string) []string {
		if op == "gets" {
			return valuesOf(splitVals(a))
		}
		return splitVals(a)
	}
	ans, err := w.ask(c, pw, dw, []query{{op, r.String(), "-"}, {op, r.String(), pinnedFlags}, {op, r.String(), without('e')}, {op, r.String(), without('s')}, {op, r.String(), without('k')}})
	if err != nil {
		return "", "", err
	}
	listed := ordered && !c.p.endsInDescent()
	// the denotation up to the leaves a trailing descent loses (see below)
	denotes := func(got []string) (bool, bool) {
		if same(got, specVals, listed) {
			return true, false
		}
		if c.p.endsInDescent() && len(c.p) >= 2 {
			missing, extra := bagMinus(specVals, got), bagMinus(got, specVals)
			if len(extra) == 0 && len(missing) > 0 && allLeaves(missing) {
				return true, true
			}
		}
		return false, false
	}
	// with every flag off the model must give the denotation (that is the theorem); the flags whose
	// removal changes the answer name the deviation
	fixedOK, _ := denotes(vals(ans[0]))
	if fixedOK {
		flags := ""
		if ans[2] != ans[1] {
			flags += "e"
		}
		if ans[3] != ans[1] {
			flags += "s"
		}
		if ans[4] != ans[1] && pinned('k') && c.p.hasNestedRoot() {
			flags += "k" // a `$` inside a filter nested in a script's path is bound to the element under test
		}
		if flags != "" {
			return "C05-" + flagSlug[flags[0]], "flags=" + flags, nil
		}
	}
	// a path that ends in a bare descent after another fragment: the inner branches hand on containers
	// only, so a selected leaf is not reported (the denotation has it). Exactly that: the denotation minus
	// the results consists of non-containers, nothing else differs.
	if ok, leaf := denotes(vals(ans[1])); ok && leaf {
		return "C05-trailing-descent-leaf", "leaf-before-trailing-descent", nil
	}
	return "", "", nil
}

// unorderedSiblings: the model visits the members of an object in sorted order, Go in an order of its
// own. Where the descentSiblings deviation fires on such members the results depend on that order; the
// case is recognised by: the path has a descent after another fragment, the data an object with several
// members that the path iterates, and what Go returned is part of what the model returns without the flag
// (the model with the flag, in its own member order, may or may not show the loss).
func (w *worker) unorderedSiblings(c *Case, pw, dw string, q query, got []string) (string, error) {
	ans, err := w.ask(c, pw, dw, []query{{q.op, q.rep, pinnedFlags}, {q.op, q.rep, without('s')}})
	if err != nil {
		return "", err
	}
	if ans[1] == "panic" {
		return "", nil
	}
	full := modelOut(q.op, ans[1]).vals
	if q.op == "locate" || q.op == "walk" {
		return "", nil
	}
	if len(bagMinus(got, full)) != 0 {
		return "", nil
	}
	return *prop + "-descent-siblings", nil
}

func bagMinus(a, b []string) []string {
	cnt := map[string]int{}
	for _, x := range b {
		cnt[x]++
	}
	var out []string
	for _, x := range a {
		if cnt[x] > 0 {
			cnt[x]--
		} else {
			out = append(out, x)
		}
	}
	return out
}

func allLeaves(vs []string) bool {
	for _, v := range vs {
		if strings.HasPrefix(v, "[") || strings.HasPrefix(v, "{") {
			return false
		}
	}
	return true
}

// ---- C11 --------------------------------------------------------------------------------------

var evaluators = []string{"get", "first", "has", "locate", "walk", "nodes", "firstnode"}

// machineOps: the evaluators that also have a machine model of their own (driver op <ev>m, JPath/Machines.lean)
var machineOps = map[string]bool{"first": true, "has": true, "locate": true, "walk": true, "nodes": true, "firstnode": true}

// modelOut parses a driver answer of an evaluator into the shape of an implementation outcome.
func modelOut(ev, ans string) out {
	switch ev {
	case "get", "nodes":
		return out{vals: splitVals(ans)}
	case "gets":
		return out{vals: valuesOf(splitVals(ans))}
	case "first", "firstnode":
		if ev == "firstnode" && ans == "some n" {
			return out{val: "n"} // FirstNode returns nil for "nothing" as well as for a null element
		}
		if ans == "none" {
			return out{}
		}
		return out{found: true, val: strings.TrimPrefix(ans, "some ")}
	case "has":
		return out{found: ans == "true"}
	default: // locate, walk
		if ans == "panic" {
			return out{panic: "panic"}
		}
		return out{vals: splitVals(ans)}
	}
}

// agrees is the property: does the outcome of the evaluator agree with Get's results g?
func agrees(ev string, o out, g []string, ordered bool) (bool, string) {
	if o.panic != "" {
		return false, "panics: " + o.panic
	}
	if o.bad != "" {
		return false, o.bad
	}
	switch ev {
	case "get", "gets", "nodes":
		if !same(o.vals, g, ordered) {
			return false, "results differ from Get on the simple data"
		}
	case "has":
		if o.found != (len(g) > 0) {
			return false, fmt.Sprintf("Has is %v, Get has %d results", o.found, len(g))
		}
	case "first":
		if o.found != (len(g) > 0) {
			return false, fmt.Sprintf("FirstFound found=%v, Get has %d results", o.found, len(g))
		}
		if o.found && !contains(g, o.val) {
			return false, "FirstFound returns a value that is not among Get's results"
		}
		if o.found && ordered && o.val != g[0] {
			return false, "FirstFound does not return the first of Get's results"
		}
	case "firstnode":
		// nil is "nothing" as well as a null element
		if o.found {
			if !contains(g, o.val) {
				return false, "FirstNode returns a value that is not among Get's results"
			}
			if ordered && o.val != g[0] {
				return false, "FirstNode does not return the first of Get's results"
			}
		} else if len(g) > 0 && (ordered && g[0] != "n" || !ordered && !contains(g, "n")) {
			return false, "FirstNode returns nil, Get has results"
		}
	case "locate", "walk":
		if !sameBag(valuesOf(o.vals), g) {
			return false, "the reported locations are not exactly those of Get's results"
		}
	}
	return true, ""
}

// tied compares an implementation outcome with the model's.
func tied(ev string, o, m out, ordered bool) bool {
	if (o.panic != "") != (m.panic != "") {
		return false
	}
	if o.panic != "" {
		return true
	}
	switch ev {
	case "has":
		return o.found == m.found
	case "first", "firstnode":
		if ev == "firstnode" && !ordered && (m.val == "n" || !o.found) {
			return true // a null member may be the one the map iteration visits first
		}
		if ev == "firstnode" && m.val == "n" && !m.found {
			return !o.found
		}
		if o.found != m.found {
			return false
		}
		return !ordered || o.val == m.val
	case "walk":
		return sameList(o.vals, m.vals)
	default:
		return same(o.vals, m.vals, ordered)
	}
}

func (w *worker) runC11(c *Case, pw, dw string) error {
	simple := c.t.simple()
	ordSimple := !(c.p.iterates() && c.t.wideObject())
	x := c.p.expr(true)
	G := goGet(x, simple)
	if G.panic != "" {
		if c.p.hasHuge() {
			knownFinding("C11-int-overflow", "get-panic:any.map:huge", "Get panics on an index, bound or step near MaxInt/MinInt: "+G.panic, c, nil)
		} else {
			finding("violation", "get-panic:any.map", "Get panics: "+G.panic, c, nil)
		}
		return nil
	}
	type runT struct {
		ev   string
		r    Rep
		o    out
		ord  bool
		mach bool // the model side is the evaluator's own machine (ops firstm, hasm, …), checked for the tie only
		skip bool // a budget run: an answer "skip" or a panic on either side is not compared
	}
	var runs []runT
	var qs []query
	var firstTyped Rep
	for _, r := range c.reps {
		if _, ok := c.t.build(r); r.typed() && (ok || c.held != nil) {
			firstTyped = r
			break
		}
	}
	for _, r := range c.reps {
		data, ok := c.t.build(r)
		if c.held != nil && r == repHeld {
			data, ok = c.held, true
		}
		if !ok {
			continue
		}
		if r != repSimple && c.p.has('f') && !c.p.sameTruth(c.t, r) {
			// the script itself evaluates differently on this representation (a nested path inside the script
			// meets one of the representation deviations): scripts are C12's subject, the case is left out
			rep.Count("skipped.script_differs_on."+r.String(), 1)
			continue
		}
		ord := ordSimple || r.orderedObjects()
		for _, ev := range evaluators {
			var o out
			switch ev {
			case "get":
				o = goGet(x, data)
			case "first":
				o = goFirst(x, data, ord && !(pinned('s') && c.p.descentAfterFrag() && !ordSimple))
			case "has":
				o = goHas(x, data)
			case "locate":
				o = goLocate(x, data, c.t, r.OK == "struct")
			case "walk":
				o = goWalk(x, data, c.t, r.OK == "struct")
			case "nodes":
				if r != repGen {
					continue
				}
				gn, _ := data.(gen.Node)
				o = goNodes(x, gn)
			case "firstnode":
				if r != repGen {
					continue
				}
				gn, _ := data.(gen.Node)
				o = goFirstNode(x, gn, c.t)
			}
			mop := ev
			if ev == "get" && r.typed() {
				mop = "gets"
			}
			runs = append(runs, runT{ev, r, o, ord, false, false})
			qs = append(qs, query{mop, r.String(), pinnedFlags})
			rep.Count("runs."+ev+"."+r.String(), 1)
			if machineOps[ev] && (!r.typed() || r == firstTyped) {
				// the same outcome of the implementation against the evaluator's own machine model (the traversal does
				// not depend on the representation tag, the per-representation selections are tied by the skeleton op
				// above: plain, gen, Indexed/Keyed and ONE typed representation per case)
				runs = append(runs, runT{ev, r, o, ord, true, false})
				qs = append(qs, query{ev + "m", r.String(), pinnedFlags})
				rep.Count("runs."+ev+"m."+r.String(), 1)
			}
			if ev == "locate" && ord && (r == repSimple || r == repUser) {
				// Locate with a budget (max = 1..3) against the recursive model: the order of the returned slice
				// matters, so only where it is defined (no iteration over a wide map, no struct fields)
				k := 1 + (len(pw)+len(dw)+len(runs))%3
				runs = append(runs, runT{ev, r, goLocateMax(x, data, c.t, k), ord, true, true})
				qs = append(qs, query{"locatemax" + strconv.Itoa(k), r.String(), pinnedFlags})
				rep.Count("runs.locatemax."+r.String(), 1)
			}
		}
	}
	ans, err := w.ask(c, pw, dw, qs)
	if err != nil {
		return err
	}
	if n := atomic.AddInt64(&sampleCounter, 1); n%9973 == 1 && len(runs) > 3 {
		rep.Sample(map[string]any{"path": c.p.String(), "data": dw, "get": G.String(), "locate": runs[3].o.String(), "model_locate": ans[3]})
	}
	rep.Count(fmt.Sprintf("results.%d", min(len(G.vals), 4)), 1)
	sib := pinned('s')
	unordG := sib && !ordSimple && c.p.descentAfterFrag() // Go Get itself depends on the map order here (descentSiblings)
	for i, ru := range runs {
		m := modelOut(ru.ev, ans[i])
		if qs[i].op == "gets" {
			m = modelOut("gets", ans[i])
		}
		desc := map[string]any{"rep": ru.r.String(), "evaluator": ru.ev, "impl": ru.o.String(), "impl_found": ru.o.found, "impl_val": ru.o.val,
			"model": ans[i], "get_simple": G.String()}
		class := ru.ev + ":" + ru.r.String()
		tie := tied(ru.ev, ru.o, m, ru.ord && !(ru.ev == "locate" && ru.r.typed())) // Locate visits struct fields back to front
		if ru.mach {
			if ru.skip && (ans[i] == "skip" || ru.o.panic != "") {
				rep.Count("skipped.locatemax_fault", 1)
				continue
			}
			if !tie && !c.p.hasHuge() && !(c.held != nil && ru.r == repHeld && filterOnPointer(c)) {
				finding("disagreement", "machine-"+ru.ev+":"+ru.r.String(), "the evaluator and its machine model ("+qs[i].op+") differ", c, desc)
			}
			continue
		}
		ok, why := agrees(ru.ev, ru.o, G.vals, ordSimple)
		if (!tie || !ok) && (unordG || sib && !ru.ord && c.p.descentAfterFrag()) && ru.o.panic == "" && ru.o.bad == "" {
			// results that depend on Go's map order through the descentSiblings deviation: compare with the
			// model without that flag — nothing may be reported that the repaired evaluator would not report
			full, err := w.ask(c, pw, dw, []query{{qs[i].op, qs[i].rep, without('s')}, {"get", "any.map", without('s')}})
			if err != nil {
				return err
			}
			fm, fg := modelOut(qs[i].op, full[0]), splitVals(full[1])
			within := false
			switch ru.ev {
			case "get", "nodes":
				within = len(bagMinus(ru.o.vals, fm.vals)) == 0
			case "first", "firstnode":
				within = !ru.o.found || contains(fg, ru.o.val)
			case "has":
				within = !ru.o.found || fm.found
			case "locate", "walk":
				within = tie && len(bagMinus(G.vals, valuesOf(ru.o.vals))) == 0
			}
			if within {
				if !ok {
					knownFinding(*prop+"-descent-siblings", class+":flags=s:map-order", "evaluator does not agree with Get (descent after a fragment, map order decides): "+why, c, desc)
				}
				continue
			}
		}
		if (!tie || !ok) && c.held != nil && ru.r == repHeld && ru.o.panic == "" && ru.o.bad == "" && filterOnPointer(c) {
			// (finding C11-filter-pointer, repaired 46bed20; the entry is in `fixed`, so a recurrence is a plain violation)
			// a filter applied to a POINTER to a struct, slice or map selects nothing (script.go evalWithRoot and
			// filter.go Filter.Walk switch on rv.Kind() without following the pointer; the wildcard does follow it):
			// results are lost, nothing else is reported
			lost := false
			switch ru.ev {
			case "get":
				lost = len(bagMinus(ru.o.vals, G.vals)) == 0
			case "locate", "walk":
				lost = len(bagMinus(valuesOf(ru.o.vals), G.vals)) == 0
			case "first":
				lost = !ru.o.found || contains(G.vals, ru.o.val)
			case "has":
				lost = !ru.o.found || len(G.vals) > 0
			}
			if lost {
				knownFinding("C11-filter-pointer", class, "a filter applied to a pointer selects nothing: "+why, c, desc)
				continue
			}
		}
		if (!tie || !ok) && c.p.hasHuge() {
			// Go's int arithmetic wraps around on such magnitudes (the model's integers are unbounded): a panic, or
			// results that differ from the model's / from Get's
			knownFinding("C11-int-overflow", class+":huge", "evaluator panics or differs on an index, bound or step near MaxInt/MinInt: "+why, c, desc)
			continue
		}
		if !tie {
			finding("disagreement", "model-"+ru.ev+":"+ru.r.String(), "the evaluator and its model differ", c, desc)
		}
		if ok {
			continue
		}
		if !tie {
			finding("violation", class, "evaluator does not agree with Get: "+why, c, desc)
			continue
		}
		id, flags, err := w.explainC11(c, pw, dw, qs[i], ru.ord && ordSimple)
		if err != nil {
			return err
		}
		if id != "" {
			knownFinding(id, class+":flags="+flags, "evaluator does not agree with Get: "+why, c, desc)
		} else {
			finding("violation", class, "evaluator does not agree with Get: "+why, c, desc)
		}
	}
	w.runMixed(c)
	return nil
}

// runMixed: MIXED data — a typed container (typed slice/array/struct/map reached by reflection) held inside a
// plain `[]any` or `map[string]any` — under a leading descent: `$..<path>` on `[]any{T}` and
// `map[string]any{"k": T}`. No model is involved: the oracle is the property's own comparison, FirstFound and
// Has against Get on the all-plain data (Get on typed data is Get on plain data: C11_repr_current).
// Finding C11-mixed-descent-marker (repaired 172dffb; the entry is in `fixed`, so a recurrence is a plain violation): in the first pass of a descent FirstFound and Has push a typed member
// of a plain container without its own `fi|descentChildFlag` marker (Get pushes one), so the member is handed
// to the rest of the path but never descended into. What the defective code computes is reproduced from Get:
// the rest of the path on T itself and on the wrapper; an outcome is attributed to the finding only if it is
// exactly that.
func (w *worker) runMixed(c *Case) {
	if len(c.p) == 0 || c.p[0].Kind == 'd' || c.p.has('s') || c.p.has('f') || c.p.hasHuge() || !c.t.isContainer() {
		return // slices: C11-first-typed-slice; filters: script truth on typed data; both have streams of their own
	}
	var r Rep
	for _, cr := range c.reps {
		if cr.typed() {
			r = cr
			break
		}
	}
	if r.AK == "" {
		return
	}
	inner, ok := c.t.build(r)
	if !ok {
		return
	}
	rest := c.p.expr(true)
	x := append(Path{fDescent()}, c.p...).expr(true)
	for wi, wrap := range []func(v any) any{
		func(v any) any { return []any{v} },
		func(v any) any { return map[string]any{"k": v} },
	} {
		mixed, plainData := wrap(inner), wrap(c.t.simple())
		G := goGet(x, plainData)
		if G.panic != "" {
			continue
		}
		rep.Count("runs.mixed."+r.String(), 1)
		// what the code computes with the missing marker: the rest of the path on T and on the wrapper only
		bug := append(append([]string{}, goGet(rest, inner).vals...), goGet(rest, mixed).vals...)
		desc := map[string]any{"rep": r.String(), "wrapper": []string{"[]any{T}", "map[string]any{k:T}"}[wi], "mixed_path": x.String(), "get_plain": G.String()}
		for _, ev := range []string{"first", "has"} {
			var o out
			if ev == "first" {
				o = goFirst(x, mixed, false)
			} else {
				o = goHas(x, mixed)
			}
			d2 := map[string]any{"evaluator": ev, "impl": o.String(), "impl_found": o.found, "impl_val": o.val}
			for k, v := range desc {
				d2[k] = v
			}
			good := o.panic == "" && o.bad == "" && o.found == (len(G.vals) > 0) && (ev == "has" || !o.found || contains(G.vals, o.val))
			if good {
				continue
			}
			asBug := o.panic == "" && o.bad == "" && o.found == (len(bug) > 0) && (ev == "has" || !o.found || contains(bug, o.val))
			class := ev + ":mixed:" + r.String()
			if asBug {
				knownFinding("C11-mixed-descent-marker", class, "FirstFound/Has do not descend into a typed container held in a plain one (Get does)", c, d2)
			} else {
				finding("violation", class, "evaluator does not agree with Get on mixed data", c, d2)
			}
		}
	}
}


// filterOnPointer: is some filter fragment of the path applied to a pointer in the hand-built value?
func filterOnPointer(c *Case) bool {
	for i := range c.p {
		if c.p[i].Kind != 'f' {
			continue
		}
		hit := false
		func() {
			defer func() { _ = recover() }()
			for _, v := range c.p[:i].expr(true).Get(c.held) {
				if v != nil && reflect.TypeOf(v).Kind() == reflect.Ptr {
					hit = true
				}
			}
		}()
		if hit {
			return true
		}
	}
	return false
}

// flagsFor lists the deviation flags that can touch an evaluator (Get on the simple data, the other side
// of every comparison, is touched by e and s).
var flagsFor = map[string]string{
	"get":       "esmt",
	"gets":      "esmt",
	"first":     "esmtfg",
	"has":       "esmtfghd",
	"locate":    "esnycomtp",
	"walk":      "esnycwatq",
	"nodes":     "esurz",
	"firstnode": "esurzl",
}

func (w *worker) explainC11(c *Case, pw, dw string, q query, ordered bool) (string, string, error) {
	fl := ""
	for i := 0; i < len(flagsFor[q.op]); i++ {
		if pinned(flagsFor[q.op][i]) { // only deviations the current code still has can explain anything
			fl += string(flagsFor[q.op][i])
		}
	}
	qs := []query{{q.op, q.rep, "-"}, {"get", "any.map", "-"}, {q.op, q.rep, pinnedFlags}, {"get", "any.map", pinnedFlags}}
	for i := 0; i < len(fl); i++ {
		qs = append(qs, query{q.op, q.rep, without(fl[i])}, query{"get", "any.map", without(fl[i])})
	}
	ans, err := w.ask(c, pw, dw, qs)
	if err != nil {
		return "", "", err
	}
	ev := q.op
	if ok, _ := agrees(ev, modelOut(ev, ans[0]), splitVals(ans[1]), ordered); !ok {
		return "", "", nil // not explained: even the repaired model disagrees with Get
	}
	// a flag is involved if removing it alone from the pinned configuration changes the evaluator's or
	// Get's answer ...
	var flags []byte
	for i := 0; i < len(fl); i++ {
		b := 4 + 2*i
		if ans[b] != ans[2] || ans[b+1] != ans[3] {
			flags = append(flags, fl[i])
		}
	}
	if len(flags) == 0 {
		// ... or (two deviations that each suffice) if adding it alone to the repaired configuration does
		qs = qs[:0]
		for i := 0; i < len(fl); i++ {
			qs = append(qs, query{q.op, q.rep, string(fl[i])}, query{"get", "any.map", string(fl[i])})
		}
		on, err := w.ask(c, pw, dw, qs)
		if err != nil {
			return "", "", err
		}
		for i := 0; i < len(fl); i++ {
			if on[2*i] != ans[0] || on[2*i+1] != ans[1] {
				flags = append(flags, fl[i])
			}
		}
	}
	if len(flags) == 0 {
		return "", "", nil
	}
	return *prop + "-" + flagSlug[flags[0]], string(flags), nil
}

// ---- replay / corpus ---------------------------------------------------------------------------

type fragJSON struct {
	Kind    string `json:"kind"`
	Key     string `json:"key,omitempty"`
	N       int    `json:"n,omitempty"`
	Mem     []any  `json:"mem,omitempty"`
	S       []int  `json:"s,omitempty"`
	Scr     *Scr   `json:"scr,omitempty"`
	NoStart bool   `json:"nostart,omitempty"`
}

type caseJSON struct {
	Frags []fragJSON `json:"frags"`
	Data  string     `json:"data"`
}

func fragToJSON(f Frag) fragJSON {
	fj := fragJSON{Kind: string(f.Kind), Key: f.Key, N: f.N, S: f.S, Scr: f.Scr.seal(), NoStart: f.NoStart}
	for _, m := range f.Mem {
		fj.Mem = append(fj.Mem, m)
	}
	return fj
}

func fragFromJSON(fj fragJSON) (Frag, error) {
	if len(fj.Kind) != 1 {
		return Frag{}, fmt.Errorf("bad fragment kind %q", fj.Kind)
	}
	f := Frag{Kind: fj.Kind[0], Key: fj.Key, N: fj.N, S: fj.S, NoStart: fj.NoStart}
	for _, m := range fj.Mem {
		switch t := m.(type) {
		case string:
			f.Mem = append(f.Mem, t)
		case float64:
			f.Mem = append(f.Mem, int64(t))
		case int64:
			f.Mem = append(f.Mem, t)
		}
	}
	if f.Kind == 'f' {
		if fj.Scr == nil {
			return Frag{}, fmt.Errorf("filter fragment without a script tree")
		}
		t, err := fj.Scr.unseal()
		if err != nil {
			return Frag{}, err
		}
		f = fFilter(t)
	}
	return f, nil
}

func encodeCase(p Path, t *Node) string {
	cj := caseJSON{Data: t.canon(), Frags: []fragJSON{}}
	for _, f := range p {
		cj.Frags = append(cj.Frags, fragToJSON(f))
	}
	b, _ := json.Marshal(cj)
	return string(b)
}

func nodeOfCanon(n *lib.Node) *Node {
	switch n.Kind {
	case 'n':
		return nNull()
	case 't':
		return nBool(true)
	case 'f':
		return nBool(false)
	case 'I':
		var i int64
		fmt.Sscan(n.Text, &i)
		return nInt(i)
	case 'F':
		var bits uint64
		fmt.Sscanf(n.Text, "%x", &bits)
		return nFlt(floatFromBits(bits))
	case 'S':
		b, _ := lib.UnhexF(n.Text)
		return nStr(string(b))
	case '[':
		a := &Node{Kind: 'a'}
		for _, k := range n.Kids {
			a.Kids = append(a.Kids, nodeOfCanon(k))
		}
		return a
	default:
		var kv []any
		for i, k := range n.Kids {
			key, _ := lib.UnhexF(n.Keys[i])
			kv = append(kv, string(key), nodeOfCanon(k))
		}
		return nObj(kv...)
	}
}

func decodeCase(b []byte) (Path, *Node, error) {
	var cj caseJSON
	if err := json.Unmarshal(b, &cj); err != nil {
		return nil, nil, err
	}
	cn, err := lib.ParseCanon(cj.Data)
	if err != nil {
		return nil, nil, err
	}
	var p Path
	for _, fj := range cj.Frags {
		f, err := fragFromJSON(fj)
		if err != nil {
			return nil, nil, err
		}
		p = append(p, f)
	}
	return p, nodeOfCanon(cn), nil
}

func runReplay() {
	data, err := os.ReadFile(*replay)
	if err != nil {
		fmt.Fprintln(os.Stderr, err)
		os.Exit(3)
	}
	var r struct {
		Replay map[string]any `json:"replay"`
	}
	_ = json.Unmarshal(data, &r)
	cs, _ := r.Replay["case"].(string)
	p, t, err := decodeCase([]byte(cs))
	if err != nil {
		fmt.Fprintln(os.Stderr, "bad replay case:", err)
		os.Exit(3)
	}
	d, err := lib.StartDriver(*driver)
	if err != nil {
		fmt.Fprintln(os.Stderr, err)
		os.Exit(3)
	}
	defer d.Close()
	w := &worker{d: d}
	if st, _ := r.Replay["stream"].(string); st == "history" && replayHistory(p, r.Replay) {
		rep.Rule = "replay of one history case"
		_ = rep.Write(*outPath)
		for _, f := range rep.Findings {
			fmt.Printf("%s %s: %s\n", f.Kind, f.Class, f.What)
		}
		return
	}
	rc := Case{p: p, t: t, src: "replay", reps: append([]Rep{repSimple, repGen, repUser}, repTyped...)}
	if hi, ok := r.Replay["held_index"].(float64); ok {
		// a hand-built struct value (stream structs_unexported)
		if vals, trees := structCases(); int(hi) < len(vals) {
			rc = Case{p: p, t: trees[int(hi)], src: "structs_unexported", reps: []Rep{repSimple, repHeld}, held: vals[int(hi)], hidx: int(hi)}
		}
	}
	if err := w.run(rc); err != nil {
		fmt.Fprintln(os.Stderr, err)
		os.Exit(3)
	}
	rep.Rule = "replay of one case"
	_ = rep.Write(*outPath)
	for _, f := range rep.Findings {
		fmt.Printf("%s %s: %s\n", f.Kind, f.Class, f.What)
	}
}
