package main

import (
	"fmt"
	"reflect"
	"strconv"
	"strings"

	"github.com/ohler55/ojg/gen"
	"github.com/ohler55/ojg/jp"

	"verif/harness/lib"
)

const maxEnd = 2147483647

// Frag is one path fragment in a form both sides understand.
type Frag struct {
	Kind    byte // c n w d u s f
	Key     string
	N       int
	Mem     []any  // 'u': string or int64 members
	S       []int  // 's': the Go Slice (0..3 ints)
	NoStart bool   // 's': the start is not written (`[:e:t]`); the library's parser then stores 0
	Scr     *Scr   // 'f': the filter script as a tree
	Script  string // 'f': its text (without "[?(" and ")]"), as the library parses it
	filt    *jp.Filter
}

func fChild(k string) Frag { return Frag{Kind: 'c', Key: k} }
func fNth(i int) Frag      { return Frag{Kind: 'n', N: i} }
func fWild() Frag          { return Frag{Kind: 'w'} }
func fDescent() Frag       { return Frag{Kind: 'd'} }
func fUnion(m ...any) Frag { return Frag{Kind: 'u', Mem: m} }
func fSlice(s ...int) Frag { return Frag{Kind: 's', S: s} }
func fFilter(t *Scr) Frag {
	s := t.text()
	return Frag{Kind: 'f', Scr: t, Script: s, filt: jp.MustNewFilter("[?(" + s + ")]")}
}

// goFrag is the fragment of the library.
func (f *Frag) goFrag() jp.Frag {
	switch f.Kind {
	case 'c':
		return jp.Child(f.Key)
	case 'n':
		return jp.Nth(f.N)
	case 'w':
		return jp.Wildcard('*')
	case 'd':
		return jp.Descent('.')
	case 'u':
		u := make(jp.Union, len(f.Mem))
		copy(u, f.Mem)
		return u
	case 's':
		if f.NoStart {
			// only the text form can leave the start out when an end or a step follows
			return jp.MustParseString("$" + pathText(Path{*f}))[1]
		}
		return jp.Slice(append([]int{}, f.S...))
	default:
		if f.filt == nil {
			f.filt = jp.MustNewFilter("[?(" + f.Script + ")]")
		}
		return f.filt
	}
}

// Path is a list of fragments (without the leading `$`).
type Path []Frag

func (p Path) expr(root bool) jp.Expr {
	var x jp.Expr
	if root {
		x = append(x, jp.Root('$'))
	}
	for i := range p {
		x = append(x, p[i].goFrag())
	}
	return x
}

func (p Path) String() string { return p.expr(true).String() }

func (p Path) has(kind byte) bool {
	for _, f := range p {
		if f.Kind == kind {
			return true
		}
	}
	return false
}

// iterates: some fragment visits the members of a container (so that Go map order can show).
func (p Path) iterates() bool { return p.has('w') || p.has('d') || p.has('f') }

// hasIntUnion: some union fragment has an index member.
func (p Path) hasIntUnion() bool {
	for _, f := range p {
		if f.Kind == 'u' {
			for _, m := range f.Mem {
				if _, ok := m.(int64); ok {
					return true
				}
			}
		}
	}
	return false
}

// hasNegStep: some slice fragment has a negative step.
func (p Path) hasNegStep() bool {
	for _, f := range p {
		if f.Kind == 's' && len(f.S) > 2 && f.S[2] < 0 {
			return true
		}
	}
	return false
}

// hasHuge: some index, slice bound, step or union index has a magnitude of 2^62 or more: Go's int arithmetic
// on it (size + end, end - start, a negation) can wrap around, the model's integers are unbounded.
func (p Path) hasHuge() bool {
	huge := func(v int64) bool { return v >= 1<<62 || v <= -(1<<62) }
	for _, f := range p {
		switch f.Kind {
		case 'n':
			if huge(int64(f.N)) {
				return true
			}
		case 's':
			for k, v := range f.S {
				if !(k == 0 && f.NoStart) && huge(int64(v)) {
					return true
				}
			}
		case 'u':
			for _, m := range f.Mem {
				if v, ok := m.(int64); ok && huge(v) {
					return true
				}
			}
		}
	}
	return false
}

// hasZeroStep: some slice fragment has an explicit step of 0.
func (p Path) hasZeroStep() bool {
	for _, f := range p {
		if f.Kind == 's' && len(f.S) > 2 && f.S[2] == 0 {
			return true
		}
	}
	return false
}

// descentAfterFrag: a descent follows a fragment other than a descent.
func (p Path) descentAfterFrag() bool {
	for i := 1; i < len(p); i++ {
		if p[i].Kind == 'd' && p[i-1].Kind != 'd' {
			return true
		}
	}
	return false
}

func (p Path) endsInDescent() bool { return len(p) > 0 && p[len(p)-1].Kind == 'd' }

func optInt(s []int, i int) string {
	if i >= len(s) || (i == 1 && s[i] == maxEnd) {
		return "_"
	}
	return strconv.Itoa(s[i])
}

// wire is the path in the driver's format (a filter travels as its script, in postfix token form).
func (p Path) wire() string {
	if len(p) == 0 {
		return "-"
	}
	parts := make([]string, len(p))
	for i, f := range p {
		switch f.Kind {
		case 'c':
			parts[i] = "c:" + lib.HexF([]byte(f.Key))
		case 'n':
			parts[i] = "n:" + strconv.Itoa(f.N)
		case 'w':
			parts[i] = "w"
		case 'd':
			parts[i] = "d"
		case 'u':
			ms := make([]string, len(f.Mem))
			for j, m := range f.Mem {
				switch t := m.(type) {
				case string:
					ms[j] = "k" + lib.HexF([]byte(t))
				case int64:
					ms[j] = "i" + strconv.FormatInt(t, 10)
				}
			}
			parts[i] = "u:" + strings.Join(ms, ",")
		case 's':
			// an absent start is 0, an absent step is 1 in every evaluator; only the end has a sentinel
			st := "_"
			if len(f.S) > 0 && !f.NoStart {
				st = strconv.Itoa(f.S[0])
			}
			parts[i] = "s:" + st + ":" + optInt(f.S, 1) + ":" + optInt(f.S, 2)
		case 'f':
			parts[i] = "q:" + f.Scr.rpn()
		}
	}
	return strings.Join(parts, "/")
}

// hasNestedRoot: some script of the path has a `$` operand inside a filter nested in one of its path operands.
func (p Path) hasNestedRoot() bool {
	for i := range p {
		if p[i].Kind == 'f' && len(p[i].Scr.rootOperands(true, nil)) > len(p[i].Scr.rootOperands(false, nil)) {
			return true
		}
	}
	return false
}

// heldAll lists the value held for every node of the tree inside ONE built value (so that identity between
// an element and what a `$`-path reaches is as in the run), next to the node's simple form.
func heldAll(v any, n *Node, held, simple *[]any) {
	*held = append(*held, v)
	*simple = append(*simple, n.simple())
	for i, k := range n.Kids {
		var kv any
		switch t := v.(type) {
		case []any:
			kv = t[i]
		case map[string]any:
			kv = t[n.Keys[i]]
		case gen.Array:
			kv = t[i]
		case gen.Object:
			kv = t[n.Keys[i]]
		case *ixArr:
			kv = t.vals[i]
		case *kyObj:
			kv = t.vals[n.Keys[i]]
		default:
			rv := reflect.ValueOf(v)
			switch rv.Kind() {
			case reflect.Slice, reflect.Array:
				kv = rv.Index(i).Interface()
			case reflect.Struct:
				kv = rv.Field(i).Interface()
			case reflect.Map:
				kv = rv.MapIndex(reflect.ValueOf(n.Keys[i])).Interface()
			}
		}
		heldAll(kv, k, held, simple)
	}
}

// sameTruth: every filter script of the path has the same truth value on every node of the tree held in
// the representation as on the simple form. (Scripts compare containers by Go's `==` on whatever holds them,
// which differs between representations; that is the script family's subject, such cases are left out here.)
// A script without `$` is asked through Filter.Match. One with `$` is asked under each of the three root
// bindings the entry points use: the element itself (Match: Walk), nil (Locate) and the query argument (the
// others) — the last two by a Get on the wrapper `[root, [node]]` with the path `$[1][?(script')]`, where
// script' reads `$[0]…` for `$…` (a `$` in a nested filter is bound to the enclosing element by the library
// and stays as it is).
func (p Path) sameTruth(root *Node, r Rep) bool {
	rv, ok := root.build(r)
	if !ok {
		return true // (the caller does not run the representation then)
	}
	var held, simple []any
	heldAll(rv, root, &held, &simple)
	for i := range p {
		f := &p[i]
		if f.Kind != 'f' {
			continue
		}
		if f.filt == nil {
			f.filt = jp.MustNewFilter("[?(" + f.Script + ")]")
		}
		for j := range held {
			if matchSafe(f.filt, held[j]) != matchSafe(f.filt, simple[j]) {
				return false
			}
		}
		if len(f.Scr.rootOperands(true, nil)) == 0 {
			continue
		}
		x := jp.Expr{jp.Root('$'), jp.Nth(1), jp.MustNewFilter("[?(" + f.Scr.rebased().text() + ")]")}
		for j := range held {
			for _, roots := range [][2]any{{rv, simple[0]}, {nil, nil}} {
				a := goGet(x, []any{roots[0], []any{held[j]}})
				b := goGet(x, []any{roots[1], []any{simple[j]}})
				if a.panic != b.panic || (len(a.vals) > 0) != (len(b.vals) > 0) {
					return false
				}
			}
		}
	}
	return true
}

func matchSafe(f *jp.Filter, v any) (ok bool) {
	defer func() {
		if r := recover(); r != nil {
			ok = false
		}
	}()
	return f.Match(v)
}

// ---- generators ------------------------------------------------------------------------------

type pathGen struct{ r *lib.Rng }

func (g *pathGen) smallInt() int {
	switch g.r.Intn(8) {
	case 0:
		return g.r.Intn(19) - 9
	default:
		return g.r.Intn(9) - 4
	}
}

func (g *pathGen) frag() Frag {
	switch g.r.Intn(14) {
	case 0, 1, 2:
		return fChild(lib.Pick(g.r, keyPool))
	case 3, 4:
		return fNth(g.smallInt())
	case 5, 6:
		return fWild()
	case 7:
		return fDescent()
	case 8, 9:
		n := 1 + g.r.Intn(3)
		var m []any
		for i := 0; i < n; i++ {
			if g.r.Bool() {
				m = append(m, lib.Pick(g.r, keyPool))
			} else {
				m = append(m, int64(g.smallInt()))
			}
		}
		return fUnion(m...)
	case 10, 11:
		n := g.r.Intn(4)
		var s []int
		for i := 0; i < n; i++ {
			if i == 1 && g.r.Intn(4) == 0 {
				s = append(s, maxEnd)
			} else {
				s = append(s, g.smallInt())
			}
		}
		f := fSlice(s...)
		if n >= 2 && g.r.Intn(5) == 0 {
			f.S[0], f.NoStart = 0, true
		}
		return f
	default:
		return fFilter(g.script())
	}
}

func (g *pathGen) path(maxLen int) Path {
	n := 1 + g.r.Intn(maxLen)
	p := make(Path, n)
	for i := range p {
		p[i] = g.frag()
	}
	return p
}

// fragAlphabet is the set of fragments every position of the enumerated paths ranges over.
func fragAlphabet(full bool) []Frag {
	a := []Frag{
		fChild("a"), fChild("b"),
		fNth(0), fNth(1), fNth(-1), fNth(2),
		fWild(), fDescent(),
		fUnion("a", int64(0)), fUnion(int64(1), int64(0), "b"), fUnion(int64(-1), int64(5)),
		fSlice(), fSlice(1), fSlice(0, 2), fSlice(-1, 0, -1), fSlice(0, maxEnd, 2), fSlice(2, 1, 3), fSlice(1, -1),
		fFilter(op2("gt", at(), ki(1))), fFilter(op2("eq", at(fChild("a")), ki(1))), fFilter(op2("lte", at(), kf(2))),
	}
	if full {
		a = append(a, fChild("x"), fNth(-2), fNth(3), fUnion("b", "a"), fSlice(-2), fSlice(3, -4, -2), fSlice(0, 3, 0),
			fFilter(at(fChild("b"))), fFilter(op2("eq", at(fNth(0)), ki(1))), fFilter(op2("gte", ki(3), at(fChild("a")))),
			fFilter(op2("gt", at(fChild("a"), fFilter(op2("gt", at(), ki(1))), fNth(0)), ki(0))))
	}
	return a
}

// smallTrees are the trees of the enumerated stream: every container kind at every depth ≤ 2, leaves of
// every type, empty containers, an object and an array under each fragment kind.
func smallTrees() []*Node {
	i := nInt
	return []*Node{
		i(3),
		nArr(),
		nObj(),
		nArr(i(1), i(2), i(3)),
		nObj("a", i(1), "b", i(2)),
		nArr(nArr(i(1), i(2)), nArr(i(3)), nArr()),
		nArr(nObj("a", i(1)), nObj("a", i(2), "b", i(0)), nObj("b", nArr(i(1)))),
		nObj("a", nArr(i(1), i(2), i(3)), "b", nObj("a", i(1), "b", nArr(i(2)))),
		nObj("a", nObj("a", nObj("a", i(2))), "b", nArr(nArr(nArr(i(1))))),
		nArr(i(3), nArr(), i(1), nNull(), nStr("a"), nBool(true), nFlt(1.5)),
		nArr(nArr(nObj("a", i(1)), i(2)), nObj("a", nArr(nObj("a", i(2)), nObj("b", i(1)))), i(2)),
		nObj("a", nArr(nObj("a", i(1), "b", i(2)), nObj("a", i(3))), "b", nArr(nObj("a", i(1)))),
		nArr(nArr(i(0), i(1), i(2), i(3)), nArr(nArr(i(2), i(3)), nArr(i(1)))),
	}
}

func describe(p Path, t *Node) string { return fmt.Sprintf("%s on %s", p.String(), t.canon()) }
