package main

import (
	"fmt"
	"math"
	"strconv"
	"strings"

	"verif/harness/lib"
)

// Scr is a filter script as a tree. The harness renders it twice: as the text the library parses
// (jp.MustNewFilter) and in postfix token form for the Lean driver, where FilterSpec.matches computes its
// truth value by the documented semantics (exact int/float comparison, a bare path is an existence test,
// some choice of a multi-valued path, `$` is the query argument). The implementation is never asked what a
// script means.
type Scr struct {
	Kind string     `json:"k"`              // "c" constant, "p" path (@ or $ + fragments), "1" unary, "2" binary
	Root bool       `json:"root,omitempty"` // "p": the path starts at `$` (the query argument), not at `@`
	Op   string     `json:"op,omitempty"`   // eq neq lt gt lte gte or and not
	A    *Scr       `json:"a,omitempty"`
	B    *Scr       `json:"b,omitempty"`
	P    []fragJSON `json:"p,omitempty"`
	CK   string     `json:"ck,omitempty"` // constant kind: i f s b n
	I    int64      `json:"i,omitempty"`
	F    float64    `json:"f,omitempty"`
	FNeg bool       `json:"fneg,omitempty"` // the float is -0.0 (JSON has no negative zero)
	S    string     `json:"s,omitempty"`
	Bv   bool       `json:"b_,omitempty"`
	path Path
}

func at(fs ...Frag) *Scr { return &Scr{Kind: "p", path: Path(fs)} }
func rt(fs ...Frag) *Scr { return &Scr{Kind: "p", Root: true, path: Path(fs)} }
func ki(i int64) *Scr    { return &Scr{Kind: "c", CK: "i", I: i} }
func kf(f float64) *Scr {
	return &Scr{Kind: "c", CK: "f", F: f, FNeg: f == 0 && math.Signbit(f)}
}
func ks(s string) *Scr              { return &Scr{Kind: "c", CK: "s", S: s} }
func kb(b bool) *Scr                { return &Scr{Kind: "c", CK: "b", Bv: b} }
func knull() *Scr                   { return &Scr{Kind: "c", CK: "n"} }
func op2(op string, a, b *Scr) *Scr { return &Scr{Kind: "2", Op: op, A: a, B: b} }
func not(a *Scr) *Scr               { return &Scr{Kind: "1", Op: "not", A: a} }

var opText = map[string]string{"eq": "==", "neq": "!=", "lt": "<", "gt": ">", "lte": "<=", "gte": ">=", "or": "||", "and": "&&"}

func (s *Scr) float() float64 {
	if s.FNeg {
		return math.Copysign(0, -1)
	}
	return s.F
}

func floatText(f float64) string {
	t := strconv.FormatFloat(f, 'f', -1, 64)
	if !strings.ContainsAny(t, ".eE") {
		t += ".0"
	}
	return t
}

// pathText writes the fragments that follow `@` (or `$`) the way the library's parser reads them.
func pathText(p Path) string {
	var sb strings.Builder
	afterDescent := false
	for i := range p {
		f := &p[i]
		switch f.Kind {
		case 'c':
			if !afterDescent {
				sb.WriteByte('.')
			}
			sb.WriteString(f.Key)
		case 'n':
			fmt.Fprintf(&sb, "[%d]", f.N)
		case 'w':
			sb.WriteString("[*]")
		case 'd':
			sb.WriteString("..")
		case 'u':
			ms := make([]string, len(f.Mem))
			for j, m := range f.Mem {
				switch t := m.(type) {
				case string:
					ms[j] = "'" + t + "'"
				case int64:
					ms[j] = strconv.FormatInt(t, 10)
				}
			}
			sb.WriteString("[" + strings.Join(ms, ",") + "]")
		case 's':
			part := func(k int) string {
				if k >= len(f.S) || (k == 1 && f.S[k] == maxEnd) || (k == 0 && f.NoStart) {
					return ""
				}
				return strconv.Itoa(f.S[k])
			}
			sb.WriteString("[" + part(0) + ":" + part(1))
			if len(f.S) > 2 {
				sb.WriteString(":" + part(2))
			}
			sb.WriteString("]")
		case 'f':
			sb.WriteString("[?(" + f.Scr.text() + ")]")
		}
		afterDescent = f.Kind == 'd'
	}
	return sb.String()
}

// text is the script as the library parses it (every operand of a connective in parentheses).
func (s *Scr) text() string {
	switch s.Kind {
	case "c":
		switch s.CK {
		case "i":
			return strconv.FormatInt(s.I, 10)
		case "f":
			return floatText(s.float())
		case "s":
			return "'" + s.S + "'"
		case "b":
			return strconv.FormatBool(s.Bv)
		default:
			return "null"
		}
	case "p":
		if s.Root {
			return "$" + pathText(s.path)
		}
		return "@" + pathText(s.path)
	case "1":
		return "!(" + s.A.text() + ")"
	default:
		if s.Op == "or" || s.Op == "and" {
			return "(" + s.A.text() + ") " + opText[s.Op] + " (" + s.B.text() + ")"
		}
		return s.A.text() + " " + opText[s.Op] + " " + s.B.text()
	}
}

// fltToken is the exact value of a float64 as m·2^e.
func fltToken(f float64) string {
	switch {
	case math.IsNaN(f):
		return "dnan"
	case math.IsInf(f, 1):
		return "dinf"
	case math.IsInf(f, -1):
		return "d-inf"
	}
	bits := math.Float64bits(f)
	ex := int64(bits >> 52 & 0x7ff)
	m := int64(bits & (1<<52 - 1))
	e := int64(-1074)
	if ex != 0 {
		m += 1 << 52
		e = ex - 1075
	}
	if bits>>63 == 1 {
		m = -m
	}
	return fmt.Sprintf("d%d:%d", m, e)
}

func fragTokens(p Path, out []string) []string {
	for i := range p {
		f := &p[i]
		switch f.Kind {
		case 'c':
			out = append(out, ".c"+lib.HexF([]byte(f.Key)))
		case 'n':
			out = append(out, ".n"+strconv.Itoa(f.N))
		case 'w':
			out = append(out, ".w")
		case 'd':
			out = append(out, ".d")
		case 'u':
			ms := make([]string, len(f.Mem))
			for j, m := range f.Mem {
				switch t := m.(type) {
				case string:
					ms[j] = "k" + lib.HexF([]byte(t))
				case int64:
					ms[j] = "i" + strconv.FormatInt(t, 10)
				}
			}
			out = append(out, ".u"+strings.Join(ms, ","))
		case 's':
			st := "_"
			if len(f.S) > 0 && !f.NoStart {
				st = strconv.Itoa(f.S[0])
			}
			out = append(out, ".s"+st+":"+optInt(f.S, 1)+":"+optInt(f.S, 2))
		case 'f':
			out = f.Scr.tokens(out)
			out = append(out, ".q")
		}
	}
	return out
}

// tokens appends the postfix form of the script.
func (s *Scr) tokens(out []string) []string {
	switch s.Kind {
	case "c":
		switch s.CK {
		case "i":
			out = append(out, "i"+strconv.FormatInt(s.I, 10))
		case "f":
			out = append(out, fltToken(s.float()))
		case "s":
			out = append(out, "s"+lib.HexF([]byte(s.S)))
		case "b":
			if s.Bv {
				out = append(out, "t")
			} else {
				out = append(out, "f")
			}
		default:
			out = append(out, "n")
		}
		return append(out, "k")
	case "p":
		if s.Root {
			out = append(out, "$")
		} else {
			out = append(out, "@")
		}
		out = fragTokens(s.path, out)
		return append(out, "p")
	case "1":
		out = s.A.tokens(out)
		return append(out, "u"+s.Op)
	default:
		out = s.A.tokens(out)
		out = s.B.tokens(out)
		return append(out, "b"+s.Op)
	}
}

func (s *Scr) rpn() string { return strings.Join(s.tokens(nil), " ") }

// rootOperands collects the `$`-paths of the script; nested tells whether to look into the filters nested in
// its path operands as well (there the library binds `$` differently, see Cfg.nestedFilterRoot).
func (s *Scr) rootOperands(nested bool, out []Path) []Path {
	if s == nil {
		return out
	}
	if s.Kind == "p" {
		if s.Root {
			out = append(out, s.path)
		}
		if nested {
			for i := range s.path {
				if s.path[i].Kind == 'f' {
					out = s.path[i].Scr.rootOperands(true, out)
				}
			}
		}
		return out
	}
	return s.B.rootOperands(nested, s.A.rootOperands(nested, out))
}

// rebased is the script with every top-level `$…` operand read as `$[0]…` (see Path.sameTruth).
func (s *Scr) rebased() *Scr {
	if s == nil {
		return nil
	}
	c := *s
	c.A, c.B = s.A.rebased(), s.B.rebased()
	if s.Kind == "p" && s.Root {
		c.path = append(Path{fNth(0)}, s.path...)
	}
	return &c
}

// seal / unseal move the path between its working form and its JSON form (replays, corpus).
func (s *Scr) seal() *Scr {
	if s == nil {
		return nil
	}
	c := *s
	c.A, c.B = s.A.seal(), s.B.seal()
	c.P = nil
	if s.Kind == "p" {
		c.P = []fragJSON{}
		for _, f := range s.path {
			c.P = append(c.P, fragToJSON(f))
		}
	}
	return &c
}

func (s *Scr) unseal() (*Scr, error) {
	if s == nil {
		return nil, nil
	}
	c := *s
	var err error
	if c.A, err = s.A.unseal(); err != nil {
		return nil, err
	}
	if c.B, err = s.B.unseal(); err != nil {
		return nil, err
	}
	c.path = nil
	for _, fj := range s.P {
		f, err := fragFromJSON(fj)
		if err != nil {
			return nil, err
		}
		c.path = append(c.path, f)
	}
	return &c, nil
}

// ---- generators ------------------------------------------------------------------------------

var cmpOps = []string{"eq", "neq", "lt", "gt", "lte", "gte"}

// numbers that are equal or off by one across int and float, with both zeros, and negative non-whole floats
// next to the integers they truncate and round to
var numConsts = []*Scr{
	ki(0), kf(0), kf(math.Copysign(0, -1)), ki(1), kf(1), ki(2), kf(2), kf(2.5), ki(3), kf(3),
	ki(9), kf(9), ki(10), kf(10), kf(10.5), ki(11), kf(11), ki(-1),
	ki(-2), kf(-2), kf(-2.5), ki(-3), kf(-1.5), kf(-0.5), kf(0.5), kf(-1),
}

// rootPath draws a path operand that starts at `$` (the trees are objects over keyPool and arrays).
func (g *pathGen) rootPath() *Scr {
	switch g.r.Intn(10) {
	case 0:
		return rt()
	case 1, 2, 3:
		return rt(fChild(lib.Pick(g.r, keyPool)))
	case 4, 5:
		return rt(fNth(g.r.Intn(3) - 1))
	case 6:
		return rt(fChild(lib.Pick(g.r, keyPool)), fNth(g.r.Intn(2)))
	case 7:
		return rt(fNth(g.r.Intn(2)), fChild(lib.Pick(g.r, keyPool)))
	case 8:
		return rt(fWild())
	default:
		return rt(fNth(0), fNth(g.r.Intn(2)))
	}
}

func (g *pathGen) relPath() *Scr {
	switch g.r.Intn(12) {
	case 0, 1, 2:
		return at()
	case 3, 4, 5:
		return at(fChild(lib.Pick(g.r, keyPool)))
	case 6:
		return at(fNth(g.r.Intn(3) - 1))
	case 7:
		return at(fChild(lib.Pick(g.r, keyPool)), fNth(g.r.Intn(2)))
	case 8:
		return at(fWild())
	case 9:
		return at(fUnion(int64(0), int64(1)))
	case 10:
		// a nested filter inside the script's path
		return at(fChild(lib.Pick(g.r, keyPool)), fFilter(g.comparison(at())), fNth(0))
	default:
		return at(fFilter(g.comparison(at())))
	}
}

func (g *pathGen) constant() *Scr {
	switch g.r.Intn(12) {
	case 0:
		return ks(lib.Pick(g.r, []string{"a", "x", ""}))
	case 1:
		return lib.Pick(g.r, []*Scr{kb(true), kb(false), knull()})
	default:
		return lib.Pick(g.r, numConsts)
	}
}

// comparison draws `<left> op <right>` with the given path on one side (either side) and, mostly, a
// constant on the other.
func (g *pathGen) comparison(p *Scr) *Scr {
	other := g.constant()
	switch g.r.Intn(16) {
	case 0, 1:
		other = g.relPath0()
	case 2, 3, 4:
		other = g.rootPath() // also inside a nested filter, where the call comes from relPath
	}
	op := lib.Pick(g.r, cmpOps)
	if g.r.Bool() {
		return op2(op, p, other)
	}
	return op2(op, other, p)
}

// relPath0 is a path without nested filters (keeps the recursion finite).
func (g *pathGen) relPath0() *Scr {
	switch g.r.Intn(4) {
	case 0:
		return at()
	case 1:
		return at(fChild(lib.Pick(g.r, keyPool)))
	case 2:
		return at(fNth(g.r.Intn(2)))
	default:
		return at(fWild())
	}
}

func (g *pathGen) script() *Scr {
	switch g.r.Intn(21) {
	case 20:
		return g.rootPath() // a bare `$`-path: true on every element or on none
	case 0, 1:
		return g.relPath() // a bare path: existence test
	case 2, 3:
		return op2(lib.Pick(g.r, []string{"or", "and"}), g.comparison(g.relPath0()), g.comparison(g.relPath0()))
	case 4:
		return not(g.comparison(g.relPath0()))
	default:
		return g.comparison(g.relPath())
	}
}

// comparisonBox: every comparison operator, the path on either side, every pair (constant, element) of a
// set of numbers that are equal or adjacent across int and float — in the last position, in an inner
// position, on a member, and as a nested filter.
func comparisonBox(emit func(p Path, t *Node)) int {
	f := nFlt
	i := nInt
	nums := []*Node{i(9), i(10), i(11), f(9), f(10), f(11), f(10.5), i(0), f(0), f(math.Copysign(0, -1)), i(-1), i(3), f(3),
		i(-2), i(-3), f(-2), f(-2.5), f(-1.5), f(-0.5), f(2.5)}
	flat := nArr(nums...)
	var objs, nested []*Node
	for k, n := range nums {
		objs = append(objs, nObj("p", n, "x", nInt(int64(k))))
		nested = append(nested, nObj("q", nArr(n, nInt(100)), "x", nInt(int64(k))))
	}
	consts := []*Scr{ki(9), ki(10), ki(11), kf(9), kf(10), kf(11), kf(10.5), ki(0), kf(0), kf(math.Copysign(0, -1)), ki(3), kf(3),
		ki(-2), ki(-3), kf(-2), kf(-2.5), kf(-1.5), ki(-1), ki(2)}
	n := 0
	for _, op := range cmpOps {
		for _, c := range consts {
			for _, flip := range []bool{false, true} {
				cmp := func(p *Scr) *Scr {
					if flip {
						return op2(op, c, p)
					}
					return op2(op, p, c)
				}
				emit(Path{fFilter(cmp(at()))}, flat)                                                   // $[?(@ op c)]
				emit(Path{fFilter(cmp(at(fChild("p")))), fChild("x")}, nArr(objs...))                  // $[?(@.p op c)].x
				emit(Path{fWild(), fChild("q"), fFilter(cmp(at()))}, nArr(nested...))                  // $[*].q[?(@ op c)]
				emit(Path{fFilter(at(fChild("q"), fFilter(cmp(at())))), fChild("x")}, nArr(nested...)) // $[?(@.q[?(@ op c)])].x
				emit(Path{fFilter(not(cmp(at())))}, flat)                                              // $[?(!(@ op c))]
				n += 5
			}
		}
	}
	return n
}

// rootBox: filters that read from `$` (the query argument) and sit BELOW the root — in the last and in an
// inner position, under a member, a wildcard, a descent and another filter, with every comparison operator,
// int and float keys on both sides, a bare `$`-path (existence), a multi-valued `$`-path, and a `$` inside a
// filter nested in a script's own path.
func rootBox(emit func(p Path, t *Node)) int {
	i, f := nInt, nFlt
	n := 0
	mixed := []*Node{i(1), i(2), f(2), i(3), f(2.5), i(-2), f(-2.5), i(-3), nStr("a"), nNull()}
	ints := []*Node{i(1), i(2), i(3), i(-2), i(-3)}
	flts := []*Node{f(2), f(2.5), f(-2.5), f(-2), f(-3)}
	type shape struct {
		k     *Node
		ids   []*Node
		withC bool // `c` holds ids and key in arrays of one type (typed representations need that)
	}
	shapes := []shape{{i(2), ints, true}, {f(-2.5), flts, true}, {f(-2.5), ints, false}, {i(-2), flts, false}} // typed representations can hold these
	for _, k := range []*Node{i(2), f(2), f(2.5), i(-2), f(-2.5), nStr("a"), nNull()} {
		shapes = append(shapes, shape{k, mixed, true})
	}
	for _, sh := range shapes {
		k := sh.k
		var elems, flat []*Node
		for j, id := range sh.ids {
			elems = append(elems, nObj("a", id, "x", i(int64(10+j))))
			flat = append(flat, id)
		}
		// {"k": key, "d": [{a: id, x: …}…], "b": {"k": key, "d": [id…]}, "c": [[id…],[key]]}
		t := nObj("k", k, "d", nArr(elems...), "b", nObj("k", k, "d", nArr(flat...)), "c", nArr(nArr(flat...), nArr(k)))
		if !sh.withC {
			t = nObj("k", k, "d", nArr(elems...), "b", nObj("k", k, "d", nArr(flat...)))
		}
		for _, op := range cmpOps {
			for _, flip := range []bool{false, true} {
				cmp := func(a, b *Scr) *Scr {
					if flip {
						return op2(op, b, a)
					}
					return op2(op, a, b)
				}
				emit(Path{fChild("d"), fFilter(cmp(at(fChild("a")), rt(fChild("k"))))}, t)                       // $.d[?(@.a op $.k)]
				emit(Path{fChild("d"), fFilter(cmp(at(fChild("a")), rt(fChild("k")))), fChild("x")}, t)          // … .x
				emit(Path{fChild("b"), fChild("d"), fFilter(cmp(at(), rt(fChild("b"), fChild("k"))))}, t)        // $.b.d[?(@ op $.b.k)]
				emit(Path{fChild("c"), fWild(), fFilter(cmp(at(), rt(fChild("c"), fNth(1), fNth(0))))}, t)       // $.c[*][?(@ op $.c[1][0])]
				emit(Path{fDescent(), fFilter(cmp(at(fChild("a")), rt(fChild("k")))), fChild("x")}, t)           // $..[?(@.a op $.k)].x
				emit(Path{fChild("d"), fFilter(cmp(at(fChild("a")), rt(fChild("b"), fChild("d"), fWild())))}, t) // multi-valued $-path
				emit(Path{fWild(), fFilter(cmp(at(), rt(fChild("k"))))}, t)                                      // $[*][?(@ op $.k)] (the members of b, c, d)
				n += 7
			}
		}
		emit(Path{fChild("d"), fFilter(rt(fChild("k"))), fChild("x")}, t)                                                                 // existence of $.k: all
		emit(Path{fChild("d"), fFilter(rt(fChild("zz")))}, t)                                                                             // of $.zz: none
		emit(Path{fChild("d"), fFilter(not(op2("eq", at(fChild("a")), rt(fChild("k")))))}, t)                                             // !(…)
		emit(Path{fChild("d"), fFilter(op2("and", op2("gte", at(fChild("a")), rt(fChild("k"))), op2("lt", at(fChild("x")), ki(13))))}, t) // && with an @-only comparison
		emit(Path{fChild("d"), fFilter(op2("eq", at(), rt(fChild("d"), fNth(1))))}, t)                                                    // an element equal to a $-selected container? (containers do not compare)
		emit(Path{fChild("d"), fFilter(op2("eq", rt(), rt()))}, t)                                                                        // `$ == $`
		// a filter below another filter, both reading `$`
		emit(Path{fChild("c"), fFilter(at(fNth(0))), fFilter(op2("eq", at(), rt(fChild("k"))))}, t)
		// `$` inside a filter nested in the script's path: the documented reading takes the query argument
		emit(Path{fChild("d"), fFilter(at(fFilter(op2("eq", at(), rt(fChild("k"))))))}, t)          // $.d[?(@[?(@ == $.k)])]
		emit(Path{fChild("c"), fFilter(at(fFilter(op2("eq", at(), rt(fChild("k")))))), fNth(0)}, t) // $.c[?(@[?(@ == $.k)])][0]
		n += 9
	}
	// arrays at the root
	arr := nArr(nArr(i(1), i(2), i(3)), nArr(i(2), f(2), i(4)), nArr(f(-2.5), i(-2)))
	for _, op := range cmpOps {
		emit(Path{fWild(), fFilter(op2(op, at(), rt(fNth(0), fNth(1))))}, arr)                    // $[*][?(@ op $[0][1])]
		emit(Path{fNth(1), fFilter(op2(op, rt(fNth(2), fNth(1)), at()))}, arr)                    // $[1][?($[2][1] op @)]
		emit(Path{fSlice(0, 2), fFilter(op2(op, at(), rt(fNth(-1), fNth(0))))}, arr)              // $[0:2][?(@ op $[-1][0])]
		emit(Path{fFilter(op2(op, at(fNth(0)), rt(fNth(1), fNth(0)))), fNth(1)}, arr)             // at the root: $[?(@[0] op $[1][0])][1]
		emit(Path{fUnion(int64(0), int64(2)), fFilter(op2(op, at(), rt(fWild(), fNth(0))))}, arr) // multi-valued
		n += 5
	}
	return n
}
