package main

// HISTORY stream: one Expr value, used again and again.
//
// The case streams build a fresh jp.Expr for every call, so an evaluator that leaves something behind in the
// caller's Expr (seeded C11-m7 = C05-m8 = C08-m7: `Filter.withRoot` rooting the caller's filter in place, so
// that after `Locate(docA)` a `Get(docB)` on the same Expr reads `$` from docA) is invisible to them. Here one
// Expr with root-relative filter operands (the paths of `rootBox`, nested ones included) goes through a sequence
// of evaluator calls — Get, First/FirstFound, Has, Locate, Walk, GetNodes, FirstNode — over three different
// documents, and every call is compared with the same call on a freshly built Expr. The model evaluators are
// pure functions of (path, data) (`C11.model_history_independent`), and the fresh calls on these very
// (path, document) pairs are judged against the specification by the `root_box` stream; a call on the reused
// Expr that differs from the fresh one therefore breaks C11 ("for the same path and data … agrees with Get")
// and, when it is Get itself, C05.

import (
	"encoding/json"
	"fmt"
	"hash/fnv"
	"sort"
	"strings"

	"github.com/ohler55/ojg/jp"
)

type histCall struct {
	Ev  string `json:"ev"`
	Doc int    `json:"doc"`
}

var histEvs = []string{"get", "first", "has", "locate", "walk", "nodes", "firstnode"}

// histSequence: a fixed prefix that has Locate and Walk on one document before the Get-like calls on another,
// then calls chosen by a hash of the path (deterministic: a replay needs the path and the documents only).
func histSequence(path string, ndocs int) []histCall {
	seq := []histCall{{"get", 0}, {"locate", 0}, {"get", 1}, {"first", 1}, {"has", 1}, {"walk", 2}, {"get", 0}, {"has", 0},
		{"nodes", 1}, {"locate", 1}, {"firstnode", 2}, {"first", 0}}
	h := fnv.New64a()
	h.Write([]byte(path))
	s := h.Sum64()
	for i := 0; i < 12; i++ {
		s = s*6364136223846793005 + 1442695040888963407
		seq = append(seq, histCall{histEvs[(s>>33)%uint64(len(histEvs))], int((s >> 20) % uint64(ndocs))})
	}
	return seq
}

func histCallOut(x jp.Expr, ev string, t *Node, ordered bool) out {
	simple := t.simple()
	switch ev {
	case "get":
		return goGet(x, simple)
	case "first":
		return goFirst(x, simple, ordered)
	case "has":
		return goHas(x, simple)
	case "locate":
		return goLocate(x, simple, t, false)
	case "walk":
		return goWalk(x, simple, t, false)
	case "nodes":
		return goNodes(x, t.genNode())
	default:
		return goFirstNode(x, t.genNode(), t)
	}
}

// outKey: what is compared between the reused and the fresh Expr. Where the results pass through a Go map with
// several members the order (and which member First returns) is not defined: bags, and for First the flag only.
func outKey(o out, ordered bool) string {
	vals, val := o.vals, o.val
	if !ordered {
		vals, val = sorted(o.vals), ""
	}
	return fmt.Sprintf("%s|%v|%s|%s|%s", strings.Join(vals, ";"), o.found, val, o.panic, o.bad)
}

// runHistory runs one Expr through the call sequence over docs; C05 judges the Get calls only.
func runHistory(p Path, docs []*Node, src string) {
	// (Path.expr hands out the one *jp.Filter a fragment holds: a really fresh Expr has to be parsed)
	text := p.String()
	shared, err := jp.ParseString(text)
	if err != nil {
		rep.Count("skipped.history_unparsable", 1)
		return
	}
	seq := histSequence(p.String(), len(docs))
	var before []string
	rep.AddEval(1, 1)
	rep.Count("stream."+src, 1)
	for _, c := range seq {
		t := docs[c.Doc]
		ordered := !(p.iterates() && t.wideObject())
		reused := histCallOut(shared, c.Ev, t, ordered)
		fresh := histCallOut(jp.MustParseString(text), c.Ev, t, ordered)
		rep.Count("runs.history."+c.Ev, 1)
		if outKey(reused, ordered) != outKey(fresh, ordered) && (*prop == "C11" || c.Ev == "get") {
			var ds []string
			for _, d := range docs {
				ds = append(ds, d.canon())
			}
			cs := &Case{p: p, t: t, src: "history"}
			finding("violation", "history:"+c.Ev, c.Ev+" on an Expr that was used before differs from the same call on a freshly built Expr (earlier calls: "+strings.Join(before, ", ")+")",
				cs, map[string]any{"evaluator": c.Ev, "docs": ds, "doc": c.Doc, "earlier_calls": before,
					"reused_expr": reused.String(), "fresh_expr": fresh.String(), "reused_found": reused.found, "fresh_found": fresh.found})
			return // one finding per Expr: what follows is the same contamination
		}
		before = append(before, fmt.Sprintf("%s(doc%d)", c.Ev, c.Doc))
	}
}

// historyStream: the paths of rootBox grouped by their text, each with three of the documents it is emitted
// with (different keys behind `$`, so that a stale root changes the selection).
func historyStream() {
	type fam struct {
		p    Path
		docs []*Node
	}
	fams := map[string]*fam{}
	var order []string
	rootBox(func(p Path, t *Node) {
		k := p.String()
		f, ok := fams[k]
		if !ok {
			f = &fam{p: p}
			fams[k] = f
			order = append(order, k)
		}
		f.docs = append(f.docs, t)
	})
	sort.Strings(order)
	for i, k := range order {
		f := fams[k]
		if len(f.docs) < 3 {
			continue
		}
		if *tier != "thorough" && i%2 == 1 {
			continue
		}
		n := len(f.docs)
		runHistory(f.p, []*Node{f.docs[i%n], f.docs[(i+n/3+1)%n], f.docs[(i+2*n/3+1)%n]}, "history")
	}
}

// replayHistory re-runs a history finding from its replay record.
func replayHistory(p Path, r map[string]any) bool {
	raw, ok := r["docs"].([]any)
	if !ok || len(raw) == 0 {
		return false
	}
	var docs []*Node
	for _, d := range raw {
		s, _ := d.(string)
		cj, _ := json.Marshal(caseJSON{Data: s, Frags: []fragJSON{}})
		_, t, err := decodeCase(cj)
		if err != nil {
			return false
		}
		docs = append(docs, t)
	}
	runHistory(p, docs, "replay_history")
	return true
}
