package main

import (
	"fmt"
	"math"
	"reflect"
	"sort"
	"strings"

	"github.com/ohler55/ojg/gen"
	"github.com/ohler55/ojg/jp"

	"verif/harness/lib"
)

// Node is a JSON-like tree in a representation-neutral form.
type Node struct {
	Kind byte // n b i f s a o
	B    bool
	I    int64
	F    float64
	S    string
	Kids []*Node
	Keys []string // 'o': sorted, unique; Kids[i] belongs to Keys[i]
}

func nNull() *Node          { return &Node{Kind: 'n'} }
func nBool(b bool) *Node    { return &Node{Kind: 'b', B: b} }
func nInt(i int64) *Node    { return &Node{Kind: 'i', I: i} }
func nFlt(f float64) *Node  { return &Node{Kind: 'f', F: f} }
func nStr(s string) *Node   { return &Node{Kind: 's', S: s} }
func nArr(k ...*Node) *Node { return &Node{Kind: 'a', Kids: k} }

// nObj builds an object from key, value pairs (sorted by key; a repeated key keeps the last value).
func nObj(kv ...any) *Node {
	m := map[string]*Node{}
	for i := 0; i+1 < len(kv); i += 2 {
		m[kv[i].(string)] = kv[i+1].(*Node)
	}
	keys := make([]string, 0, len(m))
	for k := range m {
		keys = append(keys, k)
	}
	sort.Strings(keys)
	n := &Node{Kind: 'o', Keys: keys}
	for _, k := range keys {
		n.Kids = append(n.Kids, m[k])
	}
	return n
}

func (n *Node) isContainer() bool { return n.Kind == 'a' || n.Kind == 'o' }

// simple builds the []any / map[string]any form.
func (n *Node) simple() any {
	switch n.Kind {
	case 'n':
		return nil
	case 'b':
		return n.B
	case 'i':
		return n.I
	case 'f':
		return n.F
	case 's':
		return n.S
	case 'a':
		a := make([]any, len(n.Kids))
		for i, k := range n.Kids {
			a[i] = k.simple()
		}
		return a
	default:
		m := make(map[string]any, len(n.Kids))
		for i, k := range n.Kids {
			m[n.Keys[i]] = k.simple()
		}
		return m
	}
}

func (n *Node) canon() string { return lib.Render(n.simple()) }

// all returns every node of the tree (the node first).
func (n *Node) all(out []*Node) []*Node {
	out = append(out, n)
	for _, k := range n.Kids {
		out = k.all(out)
	}
	return out
}

// wideObject reports whether some object has more than one member (then Go map order shows).
func (n *Node) wideObject() bool {
	if n.Kind == 'o' && len(n.Kids) > 1 {
		return true
	}
	for _, k := range n.Kids {
		if k.wideObject() {
			return true
		}
	}
	return false
}

func (n *Node) hasKind(k byte) bool {
	if n.Kind == k {
		return true
	}
	for _, c := range n.Kids {
		if c.hasKind(k) {
			return true
		}
	}
	return false
}

// ---- representations -------------------------------------------------------------------------

// Rep names how arrays and objects are held.
type Rep struct{ AK, OK string }

func (r Rep) String() string { return r.AK + "." + r.OK }

var (
	repSimple = Rep{"any", "map"}
	repGen    = Rep{"gen", "gen"}
	repUser   = Rep{"indexed", "keyed"}
	repTyped  = []Rep{{"rslice", "struct"}, {"rarray", "rmap"}, {"rslice", "rmap"}, {"rarray", "struct"}}
)

func (r Rep) typed() bool { return r.AK == "rslice" || r.AK == "rarray" }

// orderedObjects: the members of an object are visited in a fixed order (sorted keys) in this representation.
func (r Rep) orderedObjects() bool { return r.OK == "keyed" || r.OK == "struct" }

// ixArr is a user collection implementing jp.Indexed (a wrong index faults like a slice would).
type ixArr struct{ vals []any }

func (a *ixArr) ValueAtIndex(i int) any       { return a.vals[i] }
func (a *ixArr) SetValueAtIndex(i int, v any) { a.vals[i] = v }
func (a *ixArr) Size() int                    { return len(a.vals) }

// kyObj is a user collection implementing jp.Keyed; Keys returns the keys sorted.
type kyObj struct {
	keys []string
	vals map[string]any
}

func (o *kyObj) ValueForKey(k string) (any, bool) { v, ok := o.vals[k]; return v, ok }
func (o *kyObj) SetValueForKey(k string, v any) {
	if _, ok := o.vals[k]; !ok {
		o.keys = append(o.keys, k)
		sort.Strings(o.keys)
	}
	o.vals[k] = v
}
func (o *kyObj) RemoveValueForKey(k string) {
	delete(o.vals, k)
	for i, x := range o.keys {
		if x == k {
			o.keys = append(o.keys[:i:i], o.keys[i+1:]...)
			break
		}
	}
}
func (o *kyObj) Keys() []string { return append([]string{}, o.keys...) }

var _ jp.Indexed = (*ixArr)(nil)
var _ jp.Keyed = (*kyObj)(nil)

func (n *Node) genNode() gen.Node {
	switch n.Kind {
	case 'n':
		return nil
	case 'b':
		return gen.Bool(n.B)
	case 'i':
		return gen.Int(n.I)
	case 'f':
		return gen.Float(n.F)
	case 's':
		return gen.String(n.S)
	case 'a':
		a := make(gen.Array, len(n.Kids))
		for i, k := range n.Kids {
			a[i] = k.genNode()
		}
		return a
	default:
		m := make(gen.Object, len(n.Kids))
		for i, k := range n.Kids {
			m[n.Keys[i]] = k.genNode()
		}
		return m
	}
}

func (n *Node) user() any {
	switch n.Kind {
	case 'a':
		a := &ixArr{vals: make([]any, len(n.Kids))}
		for i, k := range n.Kids {
			a.vals[i] = k.user()
		}
		return a
	case 'o':
		o := &kyObj{keys: append([]string{}, n.Keys...), vals: map[string]any{}}
		for i, k := range n.Kids {
			o.vals[n.Keys[i]] = k.user()
		}
		return o
	default:
		return n.simple()
	}
}

// fieldName is the exported struct field for a member name (members are lower-case identifiers).
func fieldName(k string) string { return strings.ToUpper(k[:1]) + k[1:] }

// typeOf infers the Go type that holds the tree in a typed representation; ok=false if it has none
// (a null, an array whose elements differ in type, a typed map whose values differ in type, a member
// name that is not an identifier).
func (n *Node) typeOf(rep Rep) (reflect.Type, bool) {
	switch n.Kind {
	case 'n':
		return nil, false
	case 'b':
		return reflect.TypeOf(true), true
	case 'i':
		return reflect.TypeOf(int64(0)), true
	case 'f':
		return reflect.TypeOf(float64(0)), true
	case 's':
		return reflect.TypeOf(""), true
	case 'a':
		et := reflect.TypeOf(int64(0))
		for i, k := range n.Kids {
			t, ok := k.typeOf(rep)
			if !ok {
				return nil, false
			}
			if i == 0 {
				et = t
			} else if t != et {
				return nil, false
			}
		}
		if rep.AK == "rarray" {
			return reflect.ArrayOf(len(n.Kids), et), true
		}
		return reflect.SliceOf(et), true
	default:
		if rep.OK == "rmap" {
			et := reflect.TypeOf(int64(0))
			for i, k := range n.Kids {
				t, ok := k.typeOf(rep)
				if !ok {
					return nil, false
				}
				if i == 0 {
					et = t
				} else if t != et {
					return nil, false
				}
			}
			return reflect.MapOf(reflect.TypeOf(""), et), true
		}
		fields := make([]reflect.StructField, 0, len(n.Kids))
		for i, k := range n.Kids {
			key := n.Keys[i]
			if key == "" || key[0] < 'a' || key[0] > 'z' {
				return nil, false
			}
			for _, c := range key {
				if !(c >= 'a' && c <= 'z' || c >= '0' && c <= '9') {
					return nil, false
				}
			}
			t, ok := k.typeOf(rep)
			if !ok {
				return nil, false
			}
			fields = append(fields, reflect.StructField{Name: fieldName(key), Type: t,
				Tag: reflect.StructTag(fmt.Sprintf(`json:"%s"`, key))})
		}
		return reflect.StructOf(fields), true
	}
}

func (n *Node) typedValue(rep Rep, t reflect.Type) reflect.Value {
	v := reflect.New(t).Elem()
	switch n.Kind {
	case 'b':
		v.SetBool(n.B)
	case 'i':
		v.SetInt(n.I)
	case 'f':
		v.SetFloat(n.F)
	case 's':
		v.SetString(n.S)
	case 'a':
		if t.Kind() == reflect.Slice {
			v = reflect.MakeSlice(t, len(n.Kids), len(n.Kids))
		}
		for i, k := range n.Kids {
			v.Index(i).Set(k.typedValue(rep, t.Elem()))
		}
	case 'o':
		if t.Kind() == reflect.Map {
			v = reflect.MakeMapWithSize(t, len(n.Kids))
			for i, k := range n.Kids {
				v.SetMapIndex(reflect.ValueOf(n.Keys[i]), k.typedValue(rep, t.Elem()))
			}
		} else {
			for i, k := range n.Kids {
				v.Field(i).Set(k.typedValue(rep, t.Field(i).Type))
			}
		}
	}
	return v
}

// build returns the tree in the representation; ok=false if the tree cannot be held that way.
func (n *Node) build(rep Rep) (any, bool) {
	switch {
	case rep == repSimple:
		return n.simple(), true
	case rep == repGen:
		return n.genNode(), true
	case rep == repUser:
		return n.user(), true
	case rep.typed():
		if !n.isContainer() {
			return nil, false
		}
		t, ok := n.typeOf(rep)
		if !ok {
			return nil, false
		}
		return n.typedValue(rep, t).Interface(), true
	}
	return nil, false
}

// plain converts a value of any representation back to the simple form (for rendering).
func plain(v any) any {
	switch t := v.(type) {
	case nil, bool, int64, float64, string:
		return v
	case int:
		return int64(t)
	case []any:
		a := make([]any, len(t))
		for i, x := range t {
			a[i] = plain(x)
		}
		return a
	case map[string]any:
		m := make(map[string]any, len(t))
		for k, x := range t {
			m[k] = plain(x)
		}
		return m
	case gen.Bool:
		return bool(t)
	case gen.Int:
		return int64(t)
	case gen.Float:
		return float64(t)
	case gen.String:
		return string(t)
	case gen.Array:
		a := make([]any, len(t))
		for i, x := range t {
			a[i] = plain(x)
		}
		return a
	case gen.Object:
		m := make(map[string]any, len(t))
		for k, x := range t {
			m[k] = plain(x)
		}
		return m
	case *ixArr:
		a := make([]any, len(t.vals))
		for i, x := range t.vals {
			a[i] = plain(x)
		}
		return a
	case *kyObj:
		m := make(map[string]any, len(t.vals))
		for k, x := range t.vals {
			m[k] = plain(x)
		}
		return m
	}
	rv := reflect.ValueOf(v)
	return plainR(rv)
}

func plainR(rv reflect.Value) any {
	switch rv.Kind() {
	case reflect.Bool:
		return rv.Bool()
	case reflect.Int64, reflect.Int:
		return rv.Int()
	case reflect.Float64:
		return rv.Float()
	case reflect.String:
		return rv.String()
	case reflect.Slice, reflect.Array:
		a := make([]any, rv.Len())
		for i := range a {
			a[i] = plainR(rv.Index(i))
		}
		return a
	case reflect.Map:
		m := make(map[string]any, rv.Len())
		for _, k := range rv.MapKeys() {
			m[k.String()] = plainR(rv.MapIndex(k))
		}
		return m
	case reflect.Struct:
		m := make(map[string]any, rv.NumField())
		for i := 0; i < rv.NumField(); i++ {
			if !rv.Type().Field(i).IsExported() {
				continue // invisible to every evaluator (rv.CanInterface() is false)
			}
			name := rv.Type().Field(i).Tag.Get("json")
			if name == "" {
				name = strings.ToLower(rv.Type().Field(i).Name)
			}
			m[name] = plainR(rv.Field(i))
		}
		return m
	case reflect.Ptr, reflect.Interface:
		if rv.IsNil() {
			return nil
		}
		return plainR(rv.Elem())
	}
	return fmt.Sprintf("?%s", rv.Kind())
}

func canonOf(v any) string { return lib.Render(plain(v)) }

// ---- generators ------------------------------------------------------------------------------

var keyPool = []string{"a", "b", "c", "x"}

type treeGen struct{ r *lib.Rng }

func (g *treeGen) leaf() *Node {
	switch g.r.Intn(10) {
	case 0:
		return nNull()
	case 1:
		return nBool(g.r.Bool())
	case 2:
		return nStr(lib.Pick(g.r, []string{"", "a", "x", "1"}))
	case 3, 4:
		// floats that equal or neighbour the integers of the pool (10.0 vs 10, 9.0 vs 10, both zeros)
		// and negative non-whole floats next to the integers they truncate and round to
		return nFlt(lib.Pick(g.r, []float64{0.5, 2.5, 0, math.Copysign(0, -1), 1, 2, 3, 9, 10, 10.5, 11, -2.5, -1.5, -0.5, -2}))
	default:
		return nInt(lib.Pick(g.r, []int64{0, 1, 2, 3, 4, 9, 10, 11, -1, -2, -3}))
	}
}

// tree draws a random tree: depth-limited, arrays up to maxLen elements, objects over keyPool.
func (g *treeGen) tree(depth, maxLen int) *Node {
	if depth <= 0 || g.r.Intn(10) < 3 {
		return g.leaf()
	}
	if g.r.Intn(5) < 3 {
		n := g.r.Intn(maxLen + 1)
		a := &Node{Kind: 'a'}
		for i := 0; i < n; i++ {
			a.Kids = append(a.Kids, g.tree(depth-1, maxLen))
		}
		return a
	}
	n := g.r.Intn(len(keyPool) + 1)
	perm := []string{}
	for _, k := range keyPool {
		if g.r.Intn(len(keyPool)) < n {
			perm = append(perm, k)
		}
	}
	var kv []any
	for _, k := range perm {
		kv = append(kv, k, g.tree(depth-1, maxLen))
	}
	return nObj(kv...)
}

// schema of a typed tree
type schema struct {
	kind byte // i s b f a o
	elem *schema
	keys []string
	flds []*schema
}

func (g *treeGen) schema(depth int) *schema {
	if depth <= 0 || g.r.Intn(10) < 3 {
		return &schema{kind: lib.Pick(g.r, []byte{'i', 'i', 'i', 's', 'b', 'f'})}
	}
	if g.r.Bool() {
		return &schema{kind: 'a', elem: g.schema(depth - 1)}
	}
	s := &schema{kind: 'o', elem: g.schema(depth - 1)} // elem: value type when held as a typed map
	for _, k := range keyPool {
		if g.r.Intn(3) > 0 {
			s.keys = append(s.keys, k)
			s.flds = append(s.flds, g.schema(depth-1))
		}
	}
	return s
}

// value draws a value of the schema; uniform=true gives every member of an object the same type (so
// that the tree can also be held as a typed map).
func (g *treeGen) value(s *schema, maxLen int, uniform bool) *Node {
	switch s.kind {
	case 'i':
		return nInt(lib.Pick(g.r, []int64{0, 1, 2, 3, 4, 9, 10, 11, -1}))
	case 's':
		return nStr(lib.Pick(g.r, []string{"", "a", "x"}))
	case 'b':
		return nBool(g.r.Bool())
	case 'f':
		return nFlt(lib.Pick(g.r, []float64{0.5, 2.5, 0, math.Copysign(0, -1), 1, 2, 3, 9, 10, 10.5, 11}))
	case 'a':
		n := g.r.Intn(maxLen + 1)
		a := &Node{Kind: 'a'}
		for i := 0; i < n; i++ {
			a.Kids = append(a.Kids, g.value(s.elem, maxLen, uniform))
		}
		return a
	default:
		var kv []any
		for i, k := range s.keys {
			if uniform {
				// a typed map may hold any subset of the keys
				if g.r.Intn(4) == 0 {
					continue
				}
				kv = append(kv, k, g.value(s.elem, maxLen, uniform))
			} else {
				kv = append(kv, k, g.value(s.flds[i], maxLen, uniform))
			}
		}
		return nObj(kv...)
	}
}

// typedTree draws a tree that has a typed representation (root is a container).
func (g *treeGen) typedTree(depth, maxLen int, uniform bool) *Node {
	for {
		s := g.schema(depth)
		if s.kind != 'a' && s.kind != 'o' {
			continue
		}
		return g.value(s, maxLen, uniform)
	}
}
