package main

import (
	"fmt"
	"math"
	"regexp"
	"sort"
	"strconv"
	"strings"

	"github.com/ohler55/ojg/jp"

	"verif/harness/lib"
)

// Operand values on the Go side: nil, bool, int64, float64, string, []any, map[string]any and the two
// markers below.
type nothingV struct{}        // jp.Nothing
type rxV struct{ pat string } // a compiled regular expression constant

type frag struct {
	kind byte // 'c' child, 'n' nth, 'w' wildcard
	key  string
	idx  int
}

type pathT struct {
	root  bool
	frags []frag
}

// tm is a script expression tree.
type tm struct {
	kind byte // 'c' const, 'p' path, 'u' unary application, 'b' binary application
	v    any
	p    *pathT
	op   string
	a, b *tm
}

func cst(v any) *tm               { return &tm{kind: 'c', v: v} }
func pth(p *pathT) *tm            { return &tm{kind: 'p', p: p} }
func un(op string, a *tm) *tm     { return &tm{kind: 'u', op: op, a: a} }
func bin(op string, a, b *tm) *tm { return &tm{kind: 'b', op: op, a: a, b: b} }

type opInfo struct {
	name string // script text
	prec int
	cnt  int
	fn   bool // function syntax name(args)
}

// what the text printer needs to know about the operators (the Lean theorem
// OjgVerif.C12.opTable_ok pins the same table against jp/script.go)
var opTable = map[string]opInfo{
	"eq": {"==", 3, 2, false}, "neq": {"!=", 3, 2, false}, "lt": {"<", 3, 2, false}, "gt": {">", 3, 2, false},
	"lte": {"<=", 3, 2, false}, "gte": {">=", 3, 2, false}, "or": {"||", 4, 2, false}, "and": {"&&", 4, 2, false},
	"not": {"!", 0, 1, false}, "add": {"+", 2, 2, false}, "sub": {"-", 2, 2, false}, "mult": {"*", 1, 2, false},
	"divide": {"/", 1, 2, false}, "in": {"in", 3, 2, false}, "empty": {"empty", 3, 2, false}, "rx": {"=~", 3, 2, false},
	"has": {"has", 3, 2, false}, "exists": {"exists", 3, 2, false}, "length": {"length", 0, 1, true},
	"count": {"count", 0, 1, true}, "match": {"match", 0, 2, true}, "search": {"search", 0, 2, true},
}

var binOps = []string{"eq", "neq", "lt", "gt", "lte", "gte", "or", "and", "add", "sub", "mult", "divide", "in", "empty", "rx", "has", "exists", "match", "search"}
var unOps = []string{"not", "length", "count"}

func isArith(op string) bool { return op == "add" || op == "sub" || op == "mult" || op == "divide" }

// ---- token (RPN) form shared with the Lean driver -------------------------------------------------

func fltTok(f float64) string {
	switch {
	case math.IsNaN(f):
		return "dnan"
	case math.IsInf(f, 1):
		return "dinf"
	case math.IsInf(f, -1):
		return "d-inf"
	case f == 0:
		return "d0:0"
	}
	fr, exp := math.Frexp(f) // f = fr * 2^exp, 0.5 <= |fr| < 1
	m := int64(fr * (1 << 53))
	e := exp - 53
	for m%2 == 0 {
		m /= 2
		e++
	}
	return fmt.Sprintf("d%d:%d", m, e)
}

func valTok(sb *strings.Builder, v any) {
	switch t := v.(type) {
	case nil:
		sb.WriteString("n")
	case bool:
		if t {
			sb.WriteString("t")
		} else {
			sb.WriteString("f")
		}
	case nothingV:
		sb.WriteString("N")
	case int64:
		fmt.Fprintf(sb, "i%d", t)
	case float64:
		sb.WriteString(fltTok(t))
	case string:
		sb.WriteString("s" + lib.HexF([]byte(t)))
	case rxV:
		sb.WriteString("r" + lib.HexF([]byte(t.pat)))
	case []any:
		for _, x := range t {
			valTok(sb, x)
			sb.WriteByte(' ')
		}
		fmt.Fprintf(sb, "a%d", len(t))
	case map[string]any:
		keys := make([]string, 0, len(t))
		for k := range t {
			keys = append(keys, k)
		}
		sort.Strings(keys)
		for _, k := range keys {
			sb.WriteString("s" + lib.HexF([]byte(k)) + " ")
			valTok(sb, t[k])
			sb.WriteByte(' ')
		}
		fmt.Fprintf(sb, "o%d", len(t))
	default:
		if tok, ok := typedTok(v); ok { // typed Go data (typed.go)
			sb.WriteString(tok)
			return
		}
		panic(fmt.Sprintf("valTok: unexpected %T", v))
	}
}

func valToks(v any) string {
	var sb strings.Builder
	valTok(&sb, v)
	return sb.String()
}

func pathTok(p *pathT) string {
	var sb strings.Builder
	if p.root {
		sb.WriteString("p$")
	} else {
		sb.WriteString("p@")
	}
	for _, f := range p.frags {
		switch f.kind {
		case 'c':
			sb.WriteString(":c" + lib.HexF([]byte(f.key)))
		case 'n':
			fmt.Fprintf(&sb, ":n%d", f.idx)
		case 'w':
			sb.WriteString(":w")
		}
	}
	return sb.String()
}

func tmTok(sb *strings.Builder, t *tm) {
	switch t.kind {
	case 'c':
		valTok(sb, t.v)
		sb.WriteString(" c")
	case 'p':
		sb.WriteString(pathTok(t.p))
	case 'u':
		tmTok(sb, t.a)
		sb.WriteString(" u" + t.op)
	case 'b':
		tmTok(sb, t.a)
		sb.WriteByte(' ')
		tmTok(sb, t.b)
		sb.WriteString(" b" + t.op)
	}
}

func tmToks(t *tm) string {
	var sb strings.Builder
	tmTok(&sb, t)
	return sb.String()
}

// parseToks reads the token form back (model values fed into trees, replays).
func parseToks(s string) (vals []any, tms []*tm, err error) {
	type cell struct {
		isTm bool
		v    any
		t    *tm
	}
	var st []cell
	for _, tok := range strings.Split(s, " ") {
		if tok == "" {
			return nil, nil, fmt.Errorf("empty token")
		}
		rest := tok[1:]
		switch tok[0] {
		case 'n':
			st = append(st, cell{v: nil})
		case 't':
			st = append(st, cell{v: true})
		case 'f':
			st = append(st, cell{v: false})
		case 'N':
			st = append(st, cell{v: nothingV{}})
		case 'i':
			i, e := strconv.ParseInt(rest, 10, 64)
			if e != nil {
				return nil, nil, e
			}
			st = append(st, cell{v: i})
		case 'd':
			switch rest {
			case "inf":
				st = append(st, cell{v: math.Inf(1)})
			case "-inf":
				st = append(st, cell{v: math.Inf(-1)})
			case "nan":
				st = append(st, cell{v: math.NaN()})
			default:
				me := strings.Split(rest, ":")
				if len(me) != 2 {
					return nil, nil, fmt.Errorf("bad float token %q", tok)
				}
				m, e1 := strconv.ParseInt(me[0], 10, 64)
				e, e2 := strconv.Atoi(me[1])
				if e1 != nil || e2 != nil || m > 1<<53 || m < -(1<<53) {
					return nil, nil, fmt.Errorf("bad float token %q", tok)
				}
				st = append(st, cell{v: math.Ldexp(float64(m), e)})
			}
		case 'x':
			r, ok := typedByTok[tok]
			if !ok {
				return nil, nil, fmt.Errorf("unknown typed value token %q", tok)
			}
			st = append(st, cell{v: r.v})
		case 's', 'r':
			b, e := lib.UnhexF(rest)
			if e != nil {
				return nil, nil, e
			}
			if tok[0] == 's' {
				st = append(st, cell{v: string(b)})
			} else {
				st = append(st, cell{v: rxV{string(b)}})
			}
		case 'a':
			k, e := strconv.Atoi(rest)
			if e != nil || k > len(st) {
				return nil, nil, fmt.Errorf("bad array token %q", tok)
			}
			xs := make([]any, k)
			for i := 0; i < k; i++ {
				xs[i] = st[len(st)-k+i].v
			}
			st = append(st[:len(st)-k], cell{v: xs})
		case 'o':
			k, e := strconv.Atoi(rest)
			if e != nil || 2*k > len(st) {
				return nil, nil, fmt.Errorf("bad object token %q", tok)
			}
			m := map[string]any{}
			for i := 0; i < k; i++ {
				key, _ := st[len(st)-2*k+2*i].v.(string)
				m[key] = st[len(st)-2*k+2*i+1].v
			}
			st = append(st[:len(st)-2*k], cell{v: m})
		case 'c':
			if len(st) == 0 || st[len(st)-1].isTm {
				return nil, nil, fmt.Errorf("bad const")
			}
			st[len(st)-1] = cell{isTm: true, t: cst(st[len(st)-1].v)}
		case 'p':
			parts := strings.Split(rest, ":")
			p := &pathT{root: parts[0] == "$"}
			for _, f := range parts[1:] {
				switch {
				case f == "w":
					p.frags = append(p.frags, frag{kind: 'w'})
				case strings.HasPrefix(f, "c"):
					b, e := lib.UnhexF(f[1:])
					if e != nil {
						return nil, nil, e
					}
					p.frags = append(p.frags, frag{kind: 'c', key: string(b)})
				case strings.HasPrefix(f, "n"):
					i, e := strconv.Atoi(f[1:])
					if e != nil {
						return nil, nil, e
					}
					p.frags = append(p.frags, frag{kind: 'n', idx: i})
				default:
					return nil, nil, fmt.Errorf("bad path token %q", tok)
				}
			}
			st = append(st, cell{isTm: true, t: pth(p)})
		case 'u':
			if len(st) < 1 || !st[len(st)-1].isTm {
				return nil, nil, fmt.Errorf("bad unary")
			}
			st[len(st)-1] = cell{isTm: true, t: un(rest, st[len(st)-1].t)}
		case 'b':
			if len(st) < 2 || !st[len(st)-1].isTm || !st[len(st)-2].isTm {
				return nil, nil, fmt.Errorf("bad binary")
			}
			t := bin(rest, st[len(st)-2].t, st[len(st)-1].t)
			st = append(st[:len(st)-2], cell{isTm: true, t: t})
		default:
			return nil, nil, fmt.Errorf("bad token %q", tok)
		}
	}
	for _, c := range st {
		if c.isTm {
			tms = append(tms, c.t)
		} else {
			vals = append(vals, c.v)
		}
	}
	return
}

func parseVal(s string) (any, error) {
	vs, ts, err := parseToks(s)
	if err != nil || len(vs) != 1 || len(ts) != 0 {
		return nil, fmt.Errorf("not one value: %q (%v)", s, err)
	}
	return vs[0], nil
}

func parseTm(s string) (*tm, error) {
	vs, ts, err := parseToks(s)
	if err != nil || len(vs) != 0 || len(ts) != 1 {
		return nil, fmt.Errorf("not one tree: %q (%v)", s, err)
	}
	return ts[0], nil
}

// ---- building the real thing -----------------------------------------------------------------------

func (p *pathT) expr() jp.Expr {
	var x jp.Expr
	if p.root {
		x = jp.R()
	} else {
		x = jp.A()
	}
	for _, f := range p.frags {
		switch f.kind {
		case 'c':
			x = x.C(f.key)
		case 'n':
			x = x.N(f.idx)
		case 'w':
			x = x.W()
		}
	}
	return x
}

// goConst converts an operand value for use as a script constant; ok=false when there is no builder
// for it (maps, containers holding markers).
func goConst(v any) (*jp.Equation, bool) {
	switch t := v.(type) {
	case nil:
		return jp.ConstNil(), true
	case bool:
		return jp.ConstBool(t), true
	case int64:
		return jp.ConstInt(t), true
	case float64:
		return jp.ConstFloat(t), true
	case string:
		return jp.ConstString(t), true
	case nothingV:
		return jp.ConstNothing(), true
	case rxV:
		rx, err := regexp.Compile(t.pat)
		if err != nil {
			return nil, false
		}
		return jp.ConstRegex(rx), true
	case []any:
		if !plainData(t) {
			return nil, false
		}
		return jp.ConstList(t), true
	}
	return nil, false
}

// plainData reports whether the value is made of nil/bool/int64/float64/string/[]any/map[string]any only.
func plainData(v any) bool {
	switch t := v.(type) {
	case nil, bool, int64, float64, string:
		return true
	case []any:
		for _, x := range t {
			if !plainData(x) {
				return false
			}
		}
		return true
	case map[string]any:
		for _, x := range t {
			if !plainData(x) {
				return false
			}
		}
		return true
	}
	return false
}

var builders2 = map[string]func(l, r *jp.Equation) *jp.Equation{
	"eq": jp.Eq, "neq": jp.Neq, "lt": jp.Lt, "gt": jp.Gt, "lte": jp.Lte, "gte": jp.Gte, "or": jp.Or, "and": jp.And,
	"add": jp.Add, "sub": jp.Sub, "mult": jp.Multiply, "divide": jp.Divide, "in": jp.In, "empty": jp.Empty,
	"rx": jp.Regex, "has": jp.Has, "exists": jp.Exists, "match": jp.Match, "search": jp.Search,
}

// equation builds the tree with the exported builder functions; ok=false when the builders cannot
// express it (a map constant, length/count of something that is not a path).
func (t *tm) equation() (*jp.Equation, bool) {
	switch t.kind {
	case 'c':
		return goConst(t.v)
	case 'p':
		return jp.Get(t.p.expr()), true
	case 'u':
		switch t.op {
		case "not":
			a, ok := t.a.equation()
			if !ok {
				return nil, false
			}
			return jp.Not(a), true
		case "length", "count":
			if t.a.kind != 'p' {
				return nil, false
			}
			if t.op == "length" {
				return jp.Length(t.a.p.expr()), true
			}
			return jp.Count(t.a.p.expr()), true
		}
	case 'b':
		f := builders2[t.op]
		a, ok1 := t.a.equation()
		b, ok2 := t.b.equation()
		if f == nil || !ok1 || !ok2 {
			return nil, false
		}
		return f(a, b), true
	}
	return nil, false
}

// ---- script text -----------------------------------------------------------------------------------

func textSafeString(s string) bool {
	for i := 0; i < len(s); i++ {
		c := s[i]
		if !(c >= 'a' && c <= 'z' || c >= 'A' && c <= 'Z' || c >= '0' && c <= '9' || c == ' ' || c == '_') {
			return false
		}
	}
	return true
}

func constText(v any) (string, bool) {
	switch t := v.(type) {
	case nil:
		return "null", true
	case bool:
		if t {
			return "true", true
		}
		return "false", true
	case nothingV:
		return "Nothing", true
	case int64:
		return strconv.FormatInt(t, 10), true
	case float64:
		if math.IsNaN(t) || math.IsInf(t, 0) {
			return "", false
		}
		s := strconv.FormatFloat(t, 'g', -1, 64)
		if !strings.ContainsAny(s, ".e") {
			s += ".0"
		}
		return s, true
	case string:
		if !textSafeString(t) {
			return "", false
		}
		return "'" + t + "'", true
	case rxV:
		if !textSafeString(strings.Trim(t.pat, "^$")) {
			return "", false
		}
		return "/" + t.pat + "/", true
	case []any:
		parts := make([]string, len(t))
		for i, x := range t {
			s, ok := constText(x)
			if !ok {
				return "", false
			}
			parts[i] = s
		}
		if len(parts) == 0 {
			return "", false // `[]` is not accepted by the list reader
		}
		return "[" + strings.Join(parts, ",") + "]", true
	}
	return "", false
}

func (t *tm) atomic() bool {
	return t.kind == 'c' || t.kind == 'p' || (t.kind != 'c' && opTable[t.op].fn)
}

// text prints the tree. full=true parenthesises every operator application; full=false only where
// the precedence table (lower binds tighter, equal precedence associates to the left) needs it. A `!`
// application is always wrapped: the parser lets `!` swallow everything that follows it.
func (t *tm) text(full bool) (string, bool) {
	switch t.kind {
	case 'c':
		return constText(t.v)
	case 'p':
		return t.p.expr().String(), true
	}
	info := opTable[t.op]
	a, ok := t.a.text(full)
	if !ok {
		return "", false
	}
	var b string
	if t.kind == 'b' {
		if b, ok = t.b.text(full); !ok {
			return "", false
		}
	}
	if info.fn {
		if t.kind == 'u' {
			return info.name + "(" + a + ")", true
		}
		return info.name + "(" + a + ", " + b + ")", true
	}
	if t.op == "not" {
		// in full mode a compound operand is already one parenthesised group; in minimal mode it must be
		// wrapped as a whole (`!(a && b) <= c` would negate only the first group)
		if !t.a.atomic() && !full && t.a.op != "not" {
			a = "(" + a + ")"
		}
		return "(!" + a + ")", true
	}
	if full {
		return "(" + a + " " + info.name + " " + b + ")", true
	}
	wrap := func(s string, c *tm, right bool) string {
		if c.atomic() || strings.HasPrefix(s, "(") && c.op == "not" {
			return s
		}
		cp := opTable[c.op].prec
		if cp > info.prec || (right && cp == info.prec) {
			return "(" + s + ")"
		}
		return s
	}
	return wrap(a, t.a, false) + " " + info.name + " " + wrap(b, t.b, true), true
}

func (t *tm) hasRootPath() bool {
	switch t.kind {
	case 'p':
		return t.p.root
	case 'u':
		return t.a.hasRootPath()
	case 'b':
		return t.a.hasRootPath() || t.b.hasRootPath()
	}
	return false
}

func (t *tm) size() int {
	switch t.kind {
	case 'u':
		return 1 + t.a.size()
	case 'b':
		return 1 + t.a.size() + t.b.size()
	}
	return 1
}
