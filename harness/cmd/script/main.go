// Correspondence and oracle harness for the filter-script family (C12).
//
// A case is a script expression tree plus a container of data elements. The tree is turned into a real
// script along several routes —
//
//	builder:  jp.Eq/jp.Lt/… → Equation.Script() → Match(elem), Eval(list);  Equation.Filter() inside
//	          jp.Expr → Get(list), First(list), Get(map)
//	text:     fully parenthesised text → jp.MustNewScript → Match(elem);  "$[?…]" → jp.MustParseString → Get(list)
//	          "[?…]" → jp.MustNewFilter → Filter.Match(elem), Get(list) of jp.Expr{Root, filter}
//	textmin:  text with only the parentheses the precedence table needs → the same three entry points
//
// — every call under recover. The Lean driver answers, per element, the verdict of the specification
// (Spec.matches) and of the model (Model.matchElem under the deviations listed with -dev, with all
// deviations repaired, and with each single deviation repaired). Reported:
//
//	disagreement  implementation outcome != model outcome                          (the tie)
//	violation     implementation outcome != specification outcome, a panic, or Match(v) != membership
//	              of v in the filter result                                        (the oracle)
//	known         a violation that disappears exactly when a listed deviation is repaired in the model
package main

import (
	"encoding/json"
	"flag"
	"fmt"
	"hash/fnv"
	"os"
	"sort"
	"strings"
	"sync"
	"sync/atomic"

	"github.com/ohler55/ojg/jp"

	"verif/harness/lib"
)

var (
	prop    = flag.String("prop", "C12", "property id")
	tier    = flag.String("tier", "quick", "quick|thorough")
	seed    = flag.Uint64("seed", 1, "PRNG seed")
	driver  = flag.String("driver", "", "path of drv_script")
	outPath = flag.String("out", "", "report path")
	replay  = flag.String("replay", "", "replay file")
	corpus  = flag.String("corpus", "", "corpus file: <tree tokens>;<data tokens> per line, hex encoded")
	known   = flag.String("known", "", "known_findings.json")
	workers = flag.Int("workers", 16, "parallel workers")
	dev     = flag.String("dev", "-", "deviations the tree under test is expected to have; the current tree has none (-). For older trees: u uncomparable panic (before 0a3fd2c), q float != x (before 21415f8), v int compared as float64 (before 24fcf54), i == on two struct/array values holding a slice or map in an interface-typed field panics (before 6d0c31a), b a filter that is a bare path is not an existence test (before 6b93c2a; trees before fe63c88 are no longer supported), r parser takes the second argument of match/search apart (before cd355fe)")
)

var rep *lib.Report
var knownList []lib.Known

var devIDs = map[byte]string{'u': "C12-uncomparable-panic", 'q': "C12-neq-float", 'v': "C12-int-via-float64", 'i': ifaceID}

const bareID = "C12-bare-path"
const fnargID = "C12-fn-arg-rotation"

func devHas(c byte) bool { return strings.IndexByte(*dev, c) >= 0 }

// modelDev is the part of -dev the Lean model is parametrised by.
func modelDev() string {
	d := strings.NewReplacer("b", "", "r", "").Replace(*dev)
	if d == "" {
		d = "-"
	}
	return d
}

func main() {
	flag.Parse()
	if v := os.Getenv("VERIF_C12_DEV"); v != "" {
		*dev = v // for runs against a patched scratch tree
	}
	rep = lib.NewReport(*prop, *tier, *seed)
	knownList = lib.LoadKnown(*known, *prop)
	if *replay != "" {
		runReplay()
		return
	}
	full := *tier == "thorough"
	ch := make(chan []kase, 64)
	var wg sync.WaitGroup
	var fatal atomic.Value
	for w := 0; w < *workers; w++ {
		wg.Add(1)
		go func() {
			defer wg.Done()
			d, err := lib.StartDriver(*driver)
			if err != nil {
				fatal.Store(err.Error())
				for range ch {
				}
				return
			}
			defer d.Close()
			for batch := range ch {
				if err := processBatch(d, batch); err != nil {
					fatal.Store(err.Error())
				}
			}
		}()
	}
	var cur []kase
	seen := map[uint64]struct{}{}
	emit := func(k kase) {
		h := fnv.New64a()
		if k.arith != nil {
			fmt.Fprintf(h, "A %s %s %s %v", k.arith.op, valToks(k.arith.l), valToks(k.arith.r), k.arith.byPath)
		} else {
			h.Write([]byte(tmToks(k.t)))
			h.Write([]byte{0})
			h.Write([]byte(valToks(k.data)))
		}
		key := h.Sum64()
		if _, dup := seen[key]; dup {
			rep.Count("stream.duplicates_skipped", 1)
			return
		}
		seen[key] = struct{}{}
		rep.Count("stream."+k.stream, 1)
		cur = append(cur, k)
		if len(cur) >= 128 {
			ch <- cur
			cur = nil
		}
	}
	on := func(name string) bool {
		sel := os.Getenv("VERIF_STREAMS")
		return sel == "" || strings.Contains(","+sel+",", ","+name+",")
	}
	// 1. corpus
	if *corpus != "" {
		if data, err := os.ReadFile(*corpus); err == nil {
			for _, line := range strings.Split(string(data), "\n") {
				line = strings.TrimSpace(line)
				if line == "" || strings.HasPrefix(line, "#") {
					continue
				}
				b, err := lib.UnhexF(strings.Fields(line)[0])
				if err != nil {
					continue
				}
				parts := strings.SplitN(string(b), ";", 2)
				if len(parts) != 2 {
					continue
				}
				t, e1 := parseTm(parts[0])
				dv, e2 := parseVal(parts[1])
				if data, ok := dv.([]any); e1 == nil && e2 == nil && ok {
					emit(kase{t: t, data: data, stream: "corpus"})
				}
			}
		}
	}
	// 2. exhaustive boxes
	if on("matrix") {
		cells := matrix(full, emit)
		nv := len(scalarReps(full)) + len(containerReps(full))
		rep.Exhaustive = append(rep.Exhaustive, fmt.Sprintf("%d binary operators x %d x %d representative operand values (all kinds incl. Nothing, regex, containers, ints around 2^53 and 2^63, floats incl. Inf/NaN/subnormal) x operand placement {both paths, both constants%s}, plus %d unary operators x %d values: %d cells",
			len(binOps), nv, nv, map[bool]string{true: ", path/constant, constant/path", false: ""}[full], len(unOps), nv, cells))
	}
	if on("multi") {
		multiFamily(full, emit)
		rep.Exhaustive = append(rep.Exhaustive, "multi-valued operands: operators x pairs of wildcard selections of 0..4 values (with containers inside)")
	}
	if on("typed") {
		cells := typedMatrix(full, emit)
		nt := len(typedReps(full))
		rep.Exhaustive = append(rep.Exhaustive, fmt.Sprintf("typed Go operands: %d binary operators x (%d typed x %d typed + %d typed x %d JSON-like values in both orders) + %d unary operators x %d typed values, every operand through a path (typed kinds: sized ints, float32, gen scalars — normalised; named scalars, arrays, pointers, comparable structs — opaque comparable; []int, []string, map[string]int, struct with slice field, gen.Array, gen.Object, named []any / map[string]any, [1][]int — uncomparable): %d cells",
			len(binOps), nt, nt, nt, len(coreCompanions()), len(unOps), nt, cells))
	}
	if on("bare") {
		bareFamily(emit)
		bareMultiFamily(emit)
		rep.Exhaustive = append(rep.Exhaustive, "bare-path filters: wildcard paths yielding 0, 1, 2+ values (true/false/null/number/container/typed values) as the whole script, through Filter (Get, First, NewFilter.Match) and Script (Match, Eval) routes")
	}
	if on("baremeta") {
		bareMetaFamily()
	}
	if on("trap") {
		trapFamily()
	}
	if on("fnarg") {
		fnargFamily(emit)
	}
	if on("boundary") {
		n := boundaryFamily(emit)
		rep.Exhaustive = append(rep.Exhaustive, fmt.Sprintf("int/float boundary pairs: 6 comparison operators x ints around 0, ±2^53, ±2^63 x floats around 0, ±2^53, ±2^63 (incl. neighbours, ±Inf, NaN) x both operand orders x 4 operand placements: %d cases", n))
	}
	// 3. seeded random nested scripts
	n := 120000
	if full {
		n = 600000
	}
	if on("random") {
		// lib.NewRng(k) and lib.NewRng(k+1) produce the same sequence shifted by one draw; forking hashes the
		// seed so that different seeds explore different cases
		g := &rgen{r: lib.NewRng(*seed).Fork(12)}
		for i := 0; i < n; i++ {
			emit(g.kase())
		}
	}
	if len(cur) > 0 {
		ch <- cur
	}
	close(ch)
	wg.Wait()
	if e := fatal.Load(); e != nil {
		fmt.Fprintln(os.Stderr, "harness failure:", e)
		os.Exit(3)
	}
	rep.Rule = "cases: corpus; exhaustive operator x operand-value x operand-value x placement matrix; multi-valued and bare-path/Nothing families; seeded random nested scripts over random element lists. Each case through up to 15 routes (builder: Script().Match/Eval, Filter() in Get/First/Get-on-map; full and minimal-parenthesis text: NewScript.Match, ParseString.Get, NewFilter.Match and Get); duplicates dropped by 64-bit hash before running; distinct_nontrivial counts cases whose script has at least one operator"
	rep.Notes = append(rep.Notes, "model deviations assumed for this tree (-dev): "+*dev)
	if err := rep.Write(*outPath); err != nil {
		fmt.Fprintln(os.Stderr, err)
		os.Exit(3)
	}
}

// ---- running the implementation -------------------------------------------------------------------

// guard runs f under recover; a panic becomes "panic: <msg>".
func guard(f func() string) (out string) {
	defer func() {
		if r := recover(); r != nil {
			out = fmt.Sprintf("panic: %v", r)
		}
	}()
	return f()
}

func isPanic(s string) bool { return strings.HasPrefix(s, "panic: ") }

// matchChars evaluates Match on every element: t, f or P (panic) per element; msg is the first panic.
func matchChars(sc *jp.Script, data []any) (chars string, msg string) {
	var sb strings.Builder
	for _, e := range data {
		o := guard(func() string {
			if sc.Match(e) {
				return "t"
			}
			return "f"
		})
		if isPanic(o) {
			if msg == "" {
				msg = o
			}
			o = "P"
		}
		sb.WriteString(o)
	}
	return sb.String(), msg
}

// results are rendered in the token form of this harness (it keeps int8(1), int64(1) and gen.Int(1) apart,
// which the shared canonical renderer does not)
func renderList(vs []any) string { return "[" + valToks(vs) + "]" }

func renderOne(v any) string { return valToks(v) }

func renderSorted(vs []any) string {
	parts := make([]string, len(vs))
	for i, v := range vs {
		parts[i] = renderOne(v)
	}
	sort.Strings(parts)
	return "[" + strings.Join(parts, ",") + "]"
}

// expected outcomes derived from per-element verdict letters (t f X Y)
func faulted(chars string) bool { return strings.ContainsAny(chars, "XY") }

func selectBy(chars string, data []any) []any {
	out := []any{}
	for i, c := range chars {
		if c == 't' {
			out = append(out, data[i])
		}
	}
	return out
}

func reversed(vs []any) []any {
	out := make([]any, len(vs))
	for i, v := range vs {
		out[len(vs)-1-i] = v
	}
	return out
}

func expect(mode, chars string, data []any) string {
	if mode == "match" {
		return strings.NewReplacer("X", "P", "Y", "P").Replace(chars)
	}
	if faulted(chars) {
		return "panic"
	}
	sel := selectBy(chars, data)
	switch mode {
	case "list":
		return renderList(sel)
	case "rev":
		return renderList(reversed(sel))
	case "sorted":
		return renderSorted(sel)
	case "first":
		if len(sel) == 0 {
			return "none"
		}
		return renderOne(sel[0])
	}
	return "?"
}

// ---- one case ------------------------------------------------------------------------------------------

type answer struct{ S, M, F, u, q, v, i string }

func parseAnswer(s string) (a answer, err error) {
	for _, part := range strings.Split(s, "|") {
		kv := strings.SplitN(part, ":", 2)
		if len(kv) != 2 {
			return a, fmt.Errorf("bad driver answer %q", s)
		}
		switch kv[0] {
		case "S":
			a.S = kv[1]
		case "M":
			a.M = kv[1]
		case "F":
			a.F = kv[1]
		case "u":
			a.u = kv[1]
		case "q":
			a.q = kv[1]
		case "v":
			a.v = kv[1]
		case "i":
			a.i = kv[1]
		}
	}
	return a, nil
}

type route struct {
	name  string // e.g. builder.match
	mode  string // match | list | rev | sorted | first
	key   string // which driver answer applies
	impl  string // implementation outcome (panics normalised to "panic" except in match mode)
	msg   string // panic message if any
	text  string
	wrap0 byte // 0: the route lays a bare path out as `path exists true` (Script()); 'b': it lays out the path alone (Filter())
}

func mapOf(data []any) map[string]any {
	m := map[string]any{}
	for i, e := range data {
		m[fmt.Sprintf("k%02d", i)] = e
	}
	return m
}

func listOutcome(f func() []any, render func([]any) string) (string, string) {
	o := guard(func() string { return render(f()) })
	if isPanic(o) {
		return "panic", o
	}
	return o, ""
}

var floatRT sync.Map // constant text -> bool: the script parser reads the text back as the same value

// textOK reports whether every constant of the tree survives printing and parsing (number syntax is not
// this property's subject: a constant that does not come back is left to the builder routes).
func textOK(t *tm) bool {
	switch t.kind {
	case 'c':
		return constRoundTrips(t.v)
	case 'u':
		return textOK(t.a)
	case 'b':
		return textOK(t.a) && textOK(t.b)
	}
	return true
}

func constRoundTrips(v any) bool {
	switch tv := v.(type) {
	case int64, float64:
		s, ok := constText(v)
		if !ok {
			return false
		}
		if r, hit := floatRT.Load(s); hit {
			return r.(bool)
		}
		res := guard(func() string {
			if jp.MustNewScript("(@ == " + s + ")").Match(v) {
				return "t"
			}
			return "f"
		}) == "t"
		floatRT.Store(s, res)
		return res
	case []any:
		for _, x := range tv {
			if !constRoundTrips(x) {
				return false
			}
		}
	}
	return true
}

func runRoutes(k kase) []route {
	var rs []route
	data := k.data
	bare := k.t.kind == 'p'
	if eq, ok := k.t.equation(); ok {
		sc := guard2(func() *jp.Script { return eq.Script() })
		if sc != nil {
			chars, msg := matchChars(sc, data)
			rs = append(rs, route{name: "builder.match", mode: "match", key: "self", impl: chars, msg: msg})
			o, m := listOutcome(func() []any { r, _ := sc.Eval([]any{}, data).([]any); return r }, renderList)
			rs = append(rs, route{name: "builder.eval", mode: "rev", key: "nil", impl: o, msg: m})
		}
		x := jp.R().Filter(eq)
		o, m := listOutcome(func() []any { return x.Get(data) }, renderList)
		rs = append(rs, route{name: "builder.get", mode: "list", key: "doc", impl: o, msg: m, wrap0: 'b'})
		o, m = listOutcome(func() []any {
			if v, has := x.FirstFound(data); has {
				return []any{v}
			}
			return nil
		}, func(vs []any) string {
			if len(vs) == 0 {
				return "none"
			}
			return renderOne(vs[0])
		})
		rs = append(rs, route{name: "builder.first", mode: "first", key: "doc", impl: o, msg: m, wrap0: 'b'})
		if !k.t.hasRootPath() {
			md := mapOf(data)
			o, m = listOutcome(func() []any { return x.Get(md) }, renderSorted)
			rs = append(rs, route{name: "builder.getmap", mode: "sorted", key: "doc", impl: o, msg: m, wrap0: 'b'})
		}
	}
	textRoutesOn := true
	if devHas('r') && k.parsed == nil && hasFnArgApp(k.t) {
		// the parser is known to take such scripts apart; they are exercised, with the tree the parser
		// builds, by the fnarg family only
		textRoutesOn = false
		rep.Count("text.skipped_fn_arg_application", 1)
	}
	if textRoutesOn && textOK(k.t) {
		if txt, ok := k.t.text(true); ok {
			if bare {
				txt = "(" + txt + ")"
			}
			rs = append(rs, textRoutes("text", txt, data, bare)...)
		}
		if !bare {
			if txt, ok := k.t.text(false); ok {
				rs = append(rs, textRoutes("textmin", "("+txt+")", data, bare)...)
			}
		}
	}
	return rs
}

func guard2(f func() *jp.Script) (s *jp.Script) {
	defer func() {
		if r := recover(); r != nil {
			s = nil
		}
	}()
	return f()
}

// textRoutes runs one script text through every entry point that reads script text: jp.MustNewScript
// (Match), jp.MustParseString of "$[?…]" (Get) and jp.MustNewFilter of "[?…]" (Filter.Match, and Get of the
// expression built around the filter). The three parse with separate code paths.
func textRoutes(prefix, txt string, data []any, bare bool) []route {
	var rs []route
	var sc *jp.Script
	perr := guard(func() string { sc = jp.MustNewScript(txt); return "" })
	if isPanic(perr) {
		return []route{{name: prefix + ".parse", mode: "parse", impl: perr, text: txt}}
	}
	chars, msg := matchChars(sc, data)
	rs = append(rs, route{name: prefix + ".match", mode: "match", key: "self", impl: chars, msg: msg, text: txt})
	var x jp.Expr
	perr = guard(func() string { x = jp.MustParseString("$[?" + txt + "]"); return "" })
	if isPanic(perr) {
		rs = append(rs, route{name: prefix + ".parsefilter", mode: "parse", impl: perr, text: txt})
	} else {
		o, m := listOutcome(func() []any { return x.Get(data) }, renderList)
		rs = append(rs, route{name: prefix + ".get", mode: "list", key: "doc", impl: o, msg: m, text: "$[?" + txt + "]", wrap0: 'b'})
	}
	var f *jp.Filter
	perr = guard(func() string { f = jp.MustNewFilter("[?" + txt + "]"); return "" })
	if isPanic(perr) {
		return append(rs, route{name: prefix + ".newfilter", mode: "parse", impl: perr, text: txt})
	}
	chars, msg = matchChars(&f.Script, data)
	rs = append(rs, route{name: prefix + ".nfmatch", mode: "match", key: "self", impl: chars, msg: msg, text: "[?" + txt + "]", wrap0: 'b'})
	fx := jp.Expr{jp.Root('$'), f}
	o, m := listOutcome(func() []any { return fx.Get(data) }, renderList)
	rs = append(rs, route{name: prefix + ".nfget", mode: "list", key: "doc", impl: o, msg: m, text: "[?" + txt + "]", wrap0: 'b'})
	return rs
}

func processBatch(d *lib.Driver, batch []kase) error {
	// arithmetic probes first: ask the model for the value, then build the trees
	var areqs []string
	var aidx []int
	for i, k := range batch {
		if k.arith != nil {
			areqs = append(areqs, "val\t"+modelDev()+"\t"+k.arith.op+"\t"+valToks(k.arith.l)+"\t"+valToks(k.arith.r))
			aidx = append(aidx, i)
		}
	}
	var cases []kase
	if len(areqs) > 0 {
		ans, err := d.Ask(areqs)
		if err != nil {
			return err
		}
		for j, i := range aidx {
			k := batch[i]
			var mval string
			for _, part := range strings.Split(ans[j], "|") {
				if strings.HasPrefix(part, "M:") {
					mval = part[2:]
				}
			}
			v, err := parseVal(mval)
			if err != nil {
				return fmt.Errorf("arith probe: model value %q of %s: %v", ans[j], areqs[j], err)
			}
			var l, r *tm
			data := []any{int64(0)}
			if k.arith.byPath {
				l, r = pth(pathL), pth(pathR)
				data = []any{elemLR(k.arith.l, k.arith.r)}
			} else {
				l, r = cst(k.arith.l), cst(k.arith.r)
			}
			app := func() *tm { return bin(k.arith.op, l, r) }
			for _, t := range []*tm{bin("eq", app(), cst(v)), bin("has", app(), cst(true)), bin("lt", app(), cst(int64(0))), bin("gt", app(), cst(0.0)), bin("eq", app(), app())} {
				cases = append(cases, kase{t: t, data: data, stream: k.stream})
			}
		}
	}
	for _, k := range batch {
		if k.arith == nil {
			cases = append(cases, k)
		}
	}
	type item struct {
		k    kase
		reqs map[string]int
	}
	items := make([]item, len(cases))
	var reqs []string
	for i, k := range cases {
		it := item{k: k, reqs: map[string]int{}}
		tt, dt := tmToks(k.t), valToks(k.data)
		add := func(key, wrap, root string) {
			it.reqs[key] = len(reqs)
			reqs = append(reqs, "run\t"+modelDev()+"\t"+wrap+"\t"+root+"\t"+tt+"\t"+dt)
		}
		wraps := []string{"0"}
		if k.t.kind == 'p' {
			wraps = []string{"0", "1"}
			if devHas('b') {
				wraps = append(wraps, "o") // the one-cell template evaluated as before 6b93c2a
			}
		}
		for _, w := range wraps {
			add("self"+w, w, "self")
			if k.t.hasRootPath() {
				add("doc"+w, w, "doc")
				add("nil"+w, w, "nil")
			} else {
				it.reqs["doc"+w] = it.reqs["self"+w]
				it.reqs["nil"+w] = it.reqs["self"+w]
			}
		}
		if k.parsed != nil && devHas('r') {
			pt := tmToks(k.parsed)
			addp := func(key, root string) {
				it.reqs[key] = len(reqs)
				reqs = append(reqs, "run\t"+modelDev()+"\t0\t"+root+"\t"+pt+"\t"+dt)
			}
			addp("pself0", "self")
			if k.parsed.hasRootPath() {
				addp("pdoc0", "doc")
			} else {
				it.reqs["pdoc0"] = it.reqs["pself0"]
			}
		}
		items[i] = it
	}
	ans, err := d.Ask(reqs)
	if err != nil {
		return err
	}
	for _, it := range items {
		model := map[string]answer{}
		for key, i := range it.reqs {
			if ans[i] == "bad-op" {
				return fmt.Errorf("driver rejected request %q", reqs[i])
			}
			a, err := parseAnswer(ans[i])
			if err != nil {
				return err
			}
			model[key] = a
		}
		judge(it.k, runRoutes(it.k), model)
	}
	return nil
}

var caseCounter int64

func judge(k kase, routes []route, model map[string]answer) {
	idx := atomic.AddInt64(&caseCounter, 1)
	nontrivial := int64(0)
	if k.t.kind == 'u' || k.t.kind == 'b' {
		nontrivial = 1
	}
	rep.AddEval(1, nontrivial)
	rep.Count("routes", int64(len(routes)))
	tt, dt := tmToks(k.t), valToks(k.data)
	bare := k.t.kind == 'p'
	if idx%7919 == 1 {
		s := map[string]any{"tree": tt, "data": dt, "spec": model["self0"].S, "model": model["self0"].M}
		if len(routes) > 0 {
			s["route"], s["impl"], s["text"] = routes[0].name, routes[0].impl, routes[0].text
		}
		rep.Sample(s)
	}
	rep.Count("spec.elements_true", int64(strings.Count(model["self0"].S, "t")))
	rep.Count("spec.elements_false", int64(strings.Count(model["self0"].S, "f")))
	byName := map[string]*route{}
	for ri := range routes {
		r := &routes[ri]
		byName[r.name] = r
		desc := map[string]any{"tree": tt, "data": dt, "route": r.name, "impl": r.impl, "stream": k.stream}
		if r.text != "" {
			desc["text"] = r.text
		}
		if r.msg != "" {
			desc["panic"] = r.msg
		}
		if r.mode == "parse" {
			// the printer of this harness emitted something the script parser rejects: the text routes
			// could not run; that is a hole in the tie, not a verdict on the property
			rep.Add(lib.Finding{Kind: "disagreement", Class: "text-not-parsed:" + r.name, What: "script text produced by the harness is rejected by the parser: " + r.impl, Replay: desc})
			continue
		}
		// which program the route runs: only a bare path differs. Script() lays it out as `path exists true`
		// (wrap 1), Filter() as the path alone (wrap 0), which evalWithRoot evaluates as an existence test since
		// 6b93c2a and as "the value is true" before (wrap o, -dev b).
		wrap := "0"
		unwrapped := r.wrap0 == 'b' && devHas('b')
		if bare {
			switch {
			case r.wrap0 == 0:
				wrap = "1"
			case unwrapped:
				wrap = "o"
			}
		}
		a := model[r.key+wrap]
		expM, expS, expF := expect(r.mode, a.M, k.data), expect(r.mode, a.S, k.data), expect(r.mode, a.F, k.data)
		rotated := false
		if k.parsed != nil && devHas('r') && strings.HasPrefix(r.name, "text") {
			// the model runs the tree the parser builds; the specification keeps the tree that was written
			pa := model["p"+r.key+"0"]
			origM := expM
			expM, expF = expect(r.mode, pa.M, k.data), expect(r.mode, pa.F, k.data)
			rotated = origM != expM
			desc["parsed_tree"] = tmToks(k.parsed)
		}
		desc["model"], desc["spec"] = expM, expS
		rep.Count("impl."+outcomeKind(r.impl), 1)
		tie := r.impl == expM
		if !tie {
			rep.Add(lib.Finding{Kind: "disagreement", Class: "model:" + r.name, What: "model and implementation differ", Replay: desc})
		}
		if r.impl == expS {
			continue
		}
		// the implementation contradicts the specification (or panics): known deviation?
		cls := "truth:" + r.name
		if strings.Contains(r.impl, "P") && r.mode == "match" || r.impl == "panic" {
			cls = "panic:" + r.name
		}
		id := ""
		if tie {
			if rotated {
				id = fnargID
			} else if bare && unwrapped {
				id = bareID
			} else if expF == expS {
				for _, c := range []byte(modelDev()) {
					var alt string
					switch c {
					case 'u':
						alt = a.u
					case 'q':
						alt = a.q
					case 'v':
						alt = a.v
					case 'i':
						alt = a.i
					default:
						continue
					}
					if expect(r.mode, alt, k.data) != expM {
						if (c == 'u' || c == 'i') && !strings.Contains(r.msg, "comparing uncomparable type") {
							continue
						}
						id = devIDs[c]
						break
					}
				}
			}
		}
		if id != "" && lib.HasKnown(knownList, id) {
			rep.Add(lib.Finding{Kind: "known", Class: cls + ":" + id, What: "explained by " + id, Replay: desc, KnownID: id})
		} else {
			what := "implementation verdict differs from the specification"
			if strings.HasPrefix(cls, "panic") {
				what = "script evaluation panicked: " + r.msg
			}
			rep.Add(lib.Finding{Kind: "violation", Class: cls, What: what, Replay: desc})
		}
	}
	// Match(v) <=> v is in the result of the corresponding filter
	if !k.t.hasRootPath() {
		for _, pr := range [][2]string{{"builder.match", "builder.get"}, {"text.match", "text.get"}, {"text.match", "text.nfget"},
			{"text.nfmatch", "text.nfget"}, {"textmin.match", "textmin.get"}, {"textmin.match", "textmin.nfget"}, {"textmin.nfmatch", "textmin.nfget"}} {
			m, g := byName[pr[0]], byName[pr[1]]
			if m == nil || g == nil {
				continue
			}
			want := "panic"
			if !strings.Contains(m.impl, "P") {
				want = renderList(selectBy(m.impl, k.data))
			}
			if want == g.impl {
				continue
			}
			desc := map[string]any{"tree": tt, "data": dt, "route": pr[0] + " vs " + pr[1], "match": m.impl, "filter": g.impl, "text": m.text, "stream": k.stream}
			if bare && devHas('b') && lib.HasKnown(knownList, bareID) {
				rep.Add(lib.Finding{Kind: "known", Class: "match-vs-filter:" + strings.SplitN(pr[0], ".", 2)[0] + ":" + bareID, What: "explained by " + bareID, Replay: desc, KnownID: bareID})
			} else {
				rep.Add(lib.Finding{Kind: "violation", Class: "match-vs-filter:" + strings.SplitN(pr[0], ".", 2)[0], What: "Script.Match and the filter fragment select different elements", Replay: desc})
			}
		}
	}
}

func outcomeKind(o string) string {
	if o == "panic" || strings.Contains(o, "P") && !strings.HasPrefix(o, "[") {
		return "panic"
	}
	return "ok"
}

func runReplay() {
	data, err := os.ReadFile(*replay)
	if err != nil {
		fmt.Fprintln(os.Stderr, err)
		os.Exit(3)
	}
	// either a finding written by the runner ({"replay": {"tree": …, "data": …}}) or the bare pair
	var r struct {
		Replay map[string]any `json:"replay"`
	}
	_ = json.Unmarshal(data, &r)
	if r.Replay == nil {
		_ = json.Unmarshal(data, &r.Replay)
	}
	ts, _ := r.Replay["tree"].(string)
	ds, _ := r.Replay["data"].(string)
	t, e1 := parseTm(ts)
	dv, e2 := parseVal(ds)
	elems, ok := dv.([]any)
	if e1 != nil || e2 != nil || !ok {
		fmt.Fprintln(os.Stderr, "bad replay:", e1, e2)
		os.Exit(3)
	}
	var parsed *tm
	if ps, _ := r.Replay["parsed_tree"].(string); ps != "" {
		parsed, _ = parseTm(ps)
	}
	d, err := lib.StartDriver(*driver)
	if err != nil {
		fmt.Fprintln(os.Stderr, err)
		os.Exit(3)
	}
	defer d.Close()
	if err := processBatch(d, []kase{{t: t, data: elems, parsed: parsed, stream: "replay"}}); err != nil {
		fmt.Fprintln(os.Stderr, err)
		os.Exit(3)
	}
	rep.Rule = "replay of one case"
	_ = rep.Write(*outPath)
	for _, f := range rep.Findings {
		fmt.Printf("%s %s: %s %v\n", f.Kind, f.Class, f.What, f.Replay)
	}
}
