package main

// Typed Go data as script operands (round 3): values whose dynamic type is none of the seven JSON-like
// ones. The Lean model sees such a value as `Val.ext ⟨ty, cmp, id, core⟩`:
//
//	ty    number of the dynamic type (position of its first value in typedTable); for a struct/array with an
//	      interface-typed field also of the dynamic type held there
//	tcmp  reflect.TypeOf(v).Comparable()
//	cmp   Go == on two values of this ty is safe: tcmp, unless the value holds a slice or map in an
//	      interface-typed field/element (then == panics; before 6d0c31a sameValue let them through: finding
//	      C12-iface-field-panic, model flag `i`)
//	id    position of the first table value of the same type that is Go-== to it (own position for an
//	      uncomparable type)
//	core  what jp's Normalize switch is EXPECTED to turn it into: decided here from the documented list of
//	      types (sized ints, float32, gen scalars), not read from the code — a type dropped from or added to
//	      the switch in jp/script.go shows as a disagreement with an input
//
// The table is static so that a token identifies its value in replays.

import (
	"encoding/json"
	"fmt"
	"math"
	"reflect"
	"time"

	"github.com/ohler55/ojg/gen"

	"verif/harness/lib"
)

type myInt int
type myInt64 int64
type myStr string
type myFloat float64
type myBool bool
type cmpStruct struct {
	A int
	B string
}
type sliceStruct struct{ Tags []string }
type myList []any
type myMap map[string]any

// ifaceStruct has a comparable TYPE, but == panics when X holds a slice or map on both sides.
type ifaceStruct struct{ X any }

type typedRep struct {
	v    any
	ty   int
	cmp  bool
	tcmp bool
	id   int
	core string
	tok  string
	kind string // "norm" (normalised scalar), "scalar" (comparable opaque), "container" (uncomparable)
}

var (
	ptrA = &sliceStruct{Tags: []string{"x"}}
	ptrB = &sliceStruct{Tags: []string{"x"}}
)

var typedValues = []any{
	// normalised by the script code: sized integers, float32, gen scalar nodes
	int(1), int(2), int(-1), int8(1), int8(-1), int16(1), int32(1), int32(2),
	uint(1), uint8(1), uint16(1), uint32(1), uint64(1), uint64(1) << 63, uint64(math.MaxUint64), uint(math.MaxUint64),
	float32(1), float32(1.5), float32(0.1), float32(math.Inf(1)),
	gen.Bool(true), gen.Bool(false), gen.Int(1), gen.Int(2), gen.Int(p53 + 1), gen.Float(1), gen.Float(1.5), gen.String("a"), gen.String(""),
	// comparable typed scalars and other comparable types: opaque, equal only to themselves
	myInt(1), myInt(2), myInt64(1), myStr("a"), myStr("b"), myFloat(1.5), myBool(true), uintptr(1), complex128(1),
	json.Number("1"), time.Duration(1), [2]int{1, 2}, [2]int{1, 3}, [1]string{"a"}, ptrA, ptrB, cmpStruct{1, "a"}, cmpStruct{1, "b"},
	gen.Big("1"),
	// comparable TYPE, but == on two such values panics (they hold a slice or map in an interface-typed field);
	// and values of the same types on which == is safe
	ifaceStruct{X: []int{1}}, ifaceStruct{X: []any{int64(1)}}, ifaceStruct{X: map[string]any{}}, [1]any{[]int{1}},
	ifaceStruct{X: int64(1)}, ifaceStruct{X: int64(2)}, ifaceStruct{X: "a"}, [1]any{"a"}, ifaceStruct{},
	// uncomparable typed containers: equal to nothing, not even themselves
	[]int{1, 2}, []int{}, []int{1}, []string{"x"}, []float64{1.5}, map[string]int{"k": 1}, map[string]int{}, sliceStruct{Tags: []string{"x"}}, sliceStruct{},
	gen.Array{gen.Int(1)}, gen.Array{}, gen.Object{"a": gen.Int(1)}, gen.Object{}, myList{int64(1)}, myMap{}, [1][]int{{1}}, []map[string]any{{}},
	map[int]string{1: "a"},
}

var (
	typedTable []*typedRep
	typedByKey = map[string]*typedRep{}
	typedByTok = map[string]*typedRep{}
)

func typedKey(v any) string {
	if rv := reflect.ValueOf(v); rv.Kind() == reflect.Ptr {
		return fmt.Sprintf("%T|%p", v, v)
	}
	return fmt.Sprintf("%T|%#v", v, v)
}

func coreOf(v any) string {
	switch t := v.(type) {
	case int:
		return fmt.Sprintf("si%d", t)
	case int8:
		return fmt.Sprintf("si%d", t)
	case int16:
		return fmt.Sprintf("si%d", t)
	case int32:
		return fmt.Sprintf("si%d", t)
	case uint:
		return fmt.Sprintf("ui%d", t)
	case uint8:
		return fmt.Sprintf("ui%d", t)
	case uint16:
		return fmt.Sprintf("ui%d", t)
	case uint32:
		return fmt.Sprintf("ui%d", t)
	case uint64:
		return fmt.Sprintf("ui%d", t)
	case float32:
		return "f" + fltTok(float64(t))[1:]
	case gen.Bool:
		if t {
			return "gb1"
		}
		return "gb0"
	case gen.Int:
		return fmt.Sprintf("gi%d", int64(t))
	case gen.Float:
		return "gd" + fltTok(float64(t))[1:]
	case gen.String:
		return "gs" + lib.HexF([]byte(t))
	}
	return "-"
}

// heldType: for the two types with an interface-typed field/element, what the field holds.
func heldType(v any) (reflect.Type, bool) {
	switch t := v.(type) {
	case ifaceStruct:
		return reflect.TypeOf(t.X), true
	case [1]any:
		return reflect.TypeOf(t[0]), true
	}
	return nil, false
}

func init() {
	tyOf := map[string]int{}
	for i, v := range typedValues {
		rt := reflect.TypeOf(v)
		key := rt.String()
		safe := rt.Comparable()
		if ht, ok := heldType(v); ok {
			key += "|" + fmt.Sprint(ht)
			if ht != nil && !ht.Comparable() {
				safe = false
			}
		}
		if _, ok := tyOf[key]; !ok {
			tyOf[key] = i + 1
		}
		r := &typedRep{v: v, ty: tyOf[key], cmp: safe, tcmp: rt.Comparable(), id: i, core: coreOf(v)}
		if r.cmp {
			for j := 0; j < i; j++ {
				if typedTable[j].ty == r.ty && typedValues[j] == v {
					r.id = j
					break
				}
			}
		}
		switch {
		case r.core != "-":
			r.kind = "norm"
		case r.cmp:
			r.kind = "scalar"
		default:
			r.kind = "container"
		}
		c, tc := 0, 0
		if r.cmp {
			c = 1
		}
		if r.tcmp {
			tc = 1
		}
		r.tok = fmt.Sprintf("x%d,%d,%d,%s,%d", r.ty, c, r.id, r.core, tc)
		typedTable = append(typedTable, r)
		if _, dup := typedByKey[typedKey(v)]; !dup {
			typedByKey[typedKey(v)] = r
		}
		if _, dup := typedByTok[r.tok]; !dup {
			typedByTok[r.tok] = r
		}
	}
}

func typedTok(v any) (string, bool) {
	if r, ok := typedByKey[typedKey(v)]; ok {
		return r.tok, true
	}
	return "", false
}

// typedReps: all typed values in the thorough tier; in the quick tier one value of every kind of type (signed,
// unsigned-wrapping, float32, each gen scalar; named scalar with a second value, array, two pointers, struct;
// every uncomparable shape).
func typedReps(full bool) []any {
	if full {
		return typedValues
	}
	return []any{
		int8(1), int16(1), uint64(1) << 63, float32(1.5), gen.Bool(true), gen.Int(1), gen.String("a"),
		myInt(1), myInt(2), myStr("a"), [2]int{1, 2}, ptrA, ptrB, cmpStruct{1, "a"},
		[]int{1, 2}, map[string]int{"k": 1}, sliceStruct{Tags: []string{"x"}}, gen.Array{gen.Int(1)}, gen.Object{}, myList{int64(1)},
		ifaceStruct{X: []int{1}}, [1]any{[]int{1}}, ifaceStruct{X: int64(1)},
	}
}

// coreCompanions: JSON-like operands every typed value is paired with (both orders).
func coreCompanions() []any {
	return []any{
		nil, true, int64(1), int64(-1), int64(math.MinInt64), 1.0, 1.5, "a", "", nothingV{},
		[]any{}, []any{int64(1)}, map[string]any{}, map[string]any{"k": int64(1)},
	}
}

// typedMatrix: the exhaustive operator x operand x operand box over typed operands — typed x typed and typed x
// JSON-like in both orders — every operand reached through a path (`@.l op @.r`), which is the only way typed
// data gets into a script; for `in` the right operand is also wrapped in a list, and every unary operator is
// applied to every typed value.
func typedMatrix(full bool, emit func(kase)) (cells int) {
	ts := typedReps(full)
	pair := func(op string, l, r any) {
		cells++
		if isArith(op) {
			// the probe value comes from the operator-level model (operands as stored); the results on the
			// normalised operands are pinned by comparisons with fixed constants
			emit(kase{stream: "typed.matrix", arith: &arithProbe{op: op, l: l, r: r, byPath: true}})
			ks := []any{int64(2), 2.5}
			if full {
				ks = []any{int64(2), int64(0), 2.5, 3.0, int64(1), "aa"}
			}
			for _, k := range ks {
				emit(kase{t: bin("eq", bin(op, pth(pathL), pth(pathR)), cst(k)), data: []any{elemLR(l, r)}, stream: "typed.matrix"})
			}
			return
		}
		emit(kase{t: bin(op, pth(pathL), pth(pathR)), data: []any{elemLR(l, r)}, stream: "typed.matrix"})
		if op == "in" && !hasMarker(l) && !hasMarker(r) {
			emit(kase{t: bin(op, pth(pathL), pth(pathR)), data: []any{elemLR(l, []any{int64(7), r}), elemLR(l, []any{r, l})}, stream: "typed.matrix"})
		}
	}
	for _, op := range binOps {
		for _, l := range ts {
			for _, r := range ts {
				pair(op, l, r)
			}
			for _, c := range coreCompanions() {
				pair(op, l, c)
				pair(op, c, l)
			}
		}
	}
	for _, op := range unOps {
		for _, l := range ts {
			cells++
			emit(kase{t: un(op, pth(pathL)), data: []any{elemLR(l, nothingV{})}, stream: "typed.unary"})
			if op != "not" {
				for _, k := range []any{int64(0), int64(1), int64(2), nothingV{}} {
					emit(kase{t: bin("eq", un(op, pth(pathL)), cst(k)), data: []any{elemLR(l, nothingV{})}, stream: "typed.unary"})
				}
			}
		}
	}
	// typed values as the several values of a multi-valued operand, and under a bare path
	wm := &pathT{frags: []frag{{kind: 'c', key: "m"}, {kind: 'w'}}}
	wn := &pathT{frags: []frag{{kind: 'c', key: "n"}, {kind: 'w'}}}
	lists := [][]any{
		{[]int{1, 2}, []int{1, 2}}, {[]int{1, 2}, int8(1)}, {myInt(1), myInt(2)}, {int8(1), int16(1), int64(2)}, {gen.Array{}, gen.Array{}},
		{sliceStruct{}, sliceStruct{}}, {map[string]int{}, map[string]int{}, nil}, {ptrA, ptrB}, {uint64(1) << 63, float32(1.5)}, {gen.Bool(false), gen.Bool(false)},
		{gen.Bool(true), int64(0)}, {int64(1), "a"},
	}
	for _, op := range []string{"eq", "neq", "in", "lt", "lte", "and", "add"} {
		for _, m := range lists {
			for _, n := range lists {
				el := map[string]any{"m": m, "n": n}
				var t *tm
				if isArith(op) {
					t = bin("gt", bin(op, pth(wm), pth(wn)), cst(int64(1)))
				} else {
					t = bin(op, pth(wm), pth(wn))
				}
				emit(kase{t: t, data: []any{el}, stream: "typed.multi"})
				emit(kase{t: bin(op, pth(wm), pth(child(false, "n"))), data: []any{el}, stream: "typed.multi"})
			}
		}
	}
	return
}

// ---- values whose type is comparable but whose == panics (finding C12-iface-field-panic) -----------------
//
// A struct or array type with an interface-typed field/element is Comparable() by reflection, but Go's ==
// panics at run time when both sides hold the same uncomparable dynamic type in that field. sameValue's guard
// looks at the type only. Since the model carries this deviation (Dev.ifaceTrap, -dev i) these values are also
// in the typed table above and go through the typed matrix; this family additionally runs the implementation
// alone against the property's own words: no panic, == false, != true, in false.

const ifaceID = "C12-iface-field-panic"

type trapCase struct {
	name string
	a, b any
	trap bool // both sides hold the same uncomparable dynamic type in the interface field: Go == panics
}

func trapCases() []trapCase {
	return []trapCase{
		{"struct{X any} holding []int", ifaceStruct{X: []int{1}}, ifaceStruct{X: []int{1}}, true},
		{"struct{X any} holding []any", ifaceStruct{X: []any{int64(1)}}, ifaceStruct{X: []any{int64(2)}}, true},
		{"struct{X any} holding map[string]any", ifaceStruct{X: map[string]any{}}, ifaceStruct{X: map[string]any{}}, true},
		{"[1]any holding []int", [1]any{[]int{1}}, [1]any{[]int{1}}, true},
		{"struct{X any} holding []any vs int", ifaceStruct{X: []any{int64(1)}}, ifaceStruct{X: int64(1)}, false},
		{"struct{X any} holding ints", ifaceStruct{X: int64(1)}, ifaceStruct{X: int64(2)}, false},
		{"[1]any holding different types", [1]any{[]int{1}}, [1]any{"a"}, false},
	}
}
