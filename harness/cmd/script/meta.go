package main

// Two families that run the implementation alone (no model request): they judge it by the property's own
// words, on inputs the Lean model does not represent.

import (
	"fmt"
	"strings"

	"github.com/ohler55/ojg/jp"

	"verif/harness/lib"
)

// bareMetaFamily: "a filter that is just a path keeps exactly the elements on which the path selects at least
// one value" — for path shapes beyond the model's member/index/wildcard: union, slice, descent. The number of
// values the path selects on an element is taken from Expr.Get on that element (property C05's subject); the
// check is that EVERY route of the bare filter agrees with `len(path.Get(elem)) > 0`, whatever the values are.
func bareMetaFamily() {
	els := []any{
		map[string]any{"a": []any{int64(1), int64(2)}},
		map[string]any{"a": []any{int64(1)}},
		map[string]any{"a": []any{}},
		map[string]any{"b": int64(1)},
		map[string]any{"a": []any{"x", nil}},
		map[string]any{"a": []any{false, false, false}},
		map[string]any{"a": []any{true, false}},
		map[string]any{"a": false, "b": false},
		map[string]any{"a": int64(0)},
		map[string]any{"x": int64(1), "y": map[string]any{"x": false}},
		map[string]any{"y": map[string]any{"z": int64(3)}},
		map[string]any{"y": map[string]any{"x": int64(3)}},
		map[string]any{"a": map[string]any{"x": false, "b": map[string]any{"x": nil}}},
		map[string]any{"a": []any{map[string]any{"x": false}, map[string]any{"x": false}}},
		[]any{false, false}, []any{}, int64(3), nil,
	}
	paths := []string{
		"@.a[*]", "@..x", "@['a','b']", "@.a[0,1]", "@.a[0:2]", "@.a[1:]", "@.a[:]", "@..*", "@.a..x", "@[*]", "@[0,1]", "@[0:2]", "@.a[*].x",
		"@.a[-1,0]", "@['x','y']", "@..a[*]", "@.a[::2]", "@.a[?(@.x == false)]",
	}
	for _, ps := range paths {
		x, err := jp.ParseString(ps)
		if err != nil {
			rep.Add(lib.Finding{Kind: "disagreement", Class: "text-not-parsed:baremeta", What: "path rejected: " + err.Error(), Replay: map[string]any{"path": ps}})
			continue
		}
		var want strings.Builder
		for _, e := range els {
			if len(x.Get(e)) > 0 {
				want.WriteByte('t')
			} else {
				want.WriteByte('f')
			}
		}
		exp := want.String()
		expList := renderList(selectBy(exp, els))
		outcomes := map[string]string{}
		outcomes["newfilter.match"] = guard(func() string { c, _ := matchChars(&jp.MustNewFilter("[?("+ps+")]").Script, els); return c })
		outcomes["newscript.match"] = guard(func() string { c, _ := matchChars(jp.MustNewScript("("+ps+")"), els); return c })
		outcomes["builder.script.match"] = guard(func() string { c, _ := matchChars(jp.Get(x).Script(), els); return c })
		lists := map[string]string{}
		lists["parse.get"] = guard(func() string { return renderList(jp.MustParseString("$[?(" + ps + ")]").Get(els)) })
		lists["builder.filter.get"] = guard(func() string { return renderList(jp.R().Filter(jp.Get(x)).Get(els)) })
		lists["newfilter.get"] = guard(func() string { return renderList(jp.Expr{jp.Root('$'), jp.MustNewFilter("[?(" + ps + ")]")}.Get(els)) })
		lists["parse.locate"] = guard(func() string {
			locs := jp.MustParseString("$[?("+ps+")]").Locate(els, 0)
			var out []any
			for _, l := range locs {
				out = append(out, l.Get(els)...)
			}
			return renderSorted(out) // the order of the locations is not this property's subject
		})
		expSorted := renderSorted(selectBy(exp, els))
		rep.AddEval(1, 1)
		rep.Count("stream.bare.meta", 1)
		for name, got := range outcomes {
			rep.Count("routes", 1)
			if got != exp {
				cls := "truth:baremeta." + name
				if isPanic(got) {
					cls = "panic:baremeta." + name
				}
				rep.Add(lib.Finding{Kind: "violation", Class: cls, What: "a filter that is only a path must keep exactly the elements on which the path selects something",
					Replay: map[string]any{"path": ps, "route": name, "impl": got, "path_selects_something": exp, "data": valToks(els), "stream": "bare.meta"}})
			}
		}
		for name, got := range lists {
			rep.Count("routes", 1)
			if name == "parse.locate" && got == expSorted {
				continue
			}
			if got != expList {
				cls := "truth:baremeta." + name
				if isPanic(got) {
					cls = "panic:baremeta." + name
				}
				rep.Add(lib.Finding{Kind: "violation", Class: cls, What: "a filter that is only a path must keep exactly the elements on which the path selects something",
					Replay: map[string]any{"path": ps, "route": name, "impl": got, "want": expList, "path_selects_something": exp, "data": valToks(els), "stream": "bare.meta"}})
			}
		}
	}
}

// trapFamily: see typed.go. Expected by the property: no panic; `==` false, `!=` true, `in` false (the two
// values of every case differ or are containers-in-a-struct, never the same scalar).
func trapFamily() {
	for _, c := range trapCases() {
		el := map[string]any{"a": c.a, "b": c.b, "list": []any{int64(1), c.b}}
		for _, sc := range []struct {
			src  string
			want string
		}{{"(@.a == @.b)", "f"}, {"(@.a != @.b)", "t"}, {"(@.a in @.list)", "f"}, {"(@.a < @.b)", "f"}, {"(@.a has true)", "t"}} {
			outs := map[string]string{}
			var msgs []string
			run := func(name string, f func() string) {
				o := guard(f)
				if isPanic(o) {
					msgs = append(msgs, o)
					o = "P"
				}
				outs[name] = o
			}
			tf := func(b bool) string {
				if b {
					return "t"
				}
				return "f"
			}
			run("newscript.match", func() string { return tf(jp.MustNewScript(sc.src).Match(el)) })
			run("newfilter.match", func() string { return tf(jp.MustNewFilter("[?" + sc.src + "]").Match(el)) })
			run("parse.get", func() string { return tf(len(jp.MustParseString("$[?"+sc.src+"]").Get([]any{el})) == 1) })
			rep.AddEval(1, 1)
			rep.Count("stream.trap", 1)
			for name, got := range outs {
				rep.Count("routes", 1)
				if got == sc.want {
					continue
				}
				desc := map[string]any{"case": c.name, "script": sc.src, "route": name, "impl": got, "want": sc.want, "stream": "trap"}
				if got == "P" {
					desc["panic"] = msgs[0]
				}
				uncmp := got == "P" && len(msgs) > 0 && strings.Contains(msgs[0], "comparing uncomparable type")
				usesEq := strings.Contains(sc.src, "==") || strings.Contains(sc.src, "!=") || strings.Contains(sc.src, " in ")
				if c.trap && uncmp && usesEq && lib.HasKnown(knownList, ifaceID) {
					rep.Add(lib.Finding{Kind: "known", Class: "panic:trap." + name + ":" + ifaceID, What: "explained by " + ifaceID, Replay: desc, KnownID: ifaceID})
					continue
				}
				cls := "truth:trap." + name
				what := fmt.Sprintf("%s on two values of %s: got %s, want %s", sc.src, c.name, got, sc.want)
				if got == "P" {
					cls = "panic:trap." + name
					what = "script evaluation panicked: " + msgs[0]
				}
				rep.Add(lib.Finding{Kind: "violation", Class: cls, What: what, Replay: desc})
			}
		}
	}
}
