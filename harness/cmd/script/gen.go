package main

import (
	"math"

	"github.com/ohler55/ojg/gen"

	"verif/harness/lib"
)

// kase is one (script tree, container of data elements) pair.
type kase struct {
	t      *tm
	data   []any
	stream string
	arith  *arithProbe // non-nil: t is filled in after the model has been asked for the value of op(l, r)
	parsed *tm         // non-nil: the tree the script parser builds from the text of t (known finding C12-fn-arg-rotation)
}

// arithProbe asks the model for the value V of `l op r` and then checks the scripts
// `(l op r) == V`, `(l op r) has true`, `(l op r) < 0`, `(l op r) > 0`.
type arithProbe struct {
	op     string
	l, r   any
	byPath bool
}

const (
	p53 = int64(1) << 53
)

func scalarReps(full bool) []any {
	vs := []any{
		nil, true, false,
		int64(0), int64(1), int64(-1), int64(2), p53, p53 + 1, int64(math.MaxInt64), int64(math.MinInt64),
		0.0, 1.0, 1.5, -1.0, 2.0, float64(p53), float64(p53 + 2), 9.223372036854775807e18, 1e300, 5e-324, math.Inf(1), math.NaN(),
		"", "a", "b", "ab", "A", "^a", "(",
		nothingV{}, rxV{"a"},
	}
	if full {
		vs = append(vs,
			int64(3), int64(10), p53-1, -p53-1, -p53, int64(1)<<62, int64(math.MaxInt64)-1, int64(math.MinInt64)+1,
			0.5, -1.5, 4.5, 0.1, float64(p53+4), -9.223372036854775808e18, math.MaxFloat64, math.Inf(-1), 1e-300, math.Copysign(0, -1), 3.0,
			"abc", "B", "1", "\xc3\xa9", "a$", "a b",
			rxV{"^ab$"},
		)
	}
	return vs
}

func containerReps(full bool) []any {
	vs := []any{
		[]any{}, []any{int64(1)}, []any{int64(1), "a"}, []any{[]any{}}, []any{1.0}, []any{nil}, []any{map[string]any{}},
		map[string]any{}, map[string]any{"a": int64(1)},
	}
	if full {
		vs = append(vs,
			[]any{[]any{int64(1)}}, []any{int64(1), int64(2), int64(3)}, []any{"a", "b"}, []any{true, false}, []any{1.5, int64(2)},
			[]any{int64(1), []any{}, map[string]any{}}, []any{float64(p53), p53 + 1},
			map[string]any{"a": int64(1), "b": nil}, map[string]any{"x": []any{}},
		)
	}
	return vs
}

func hasMarker(v any) bool {
	switch v.(type) {
	case nothingV, rxV:
		return true
	}
	return false
}

func isRx(v any) bool { _, ok := v.(rxV); return ok }

// elemLR builds the element {"l": l, "r": r}; a Nothing operand is an absent member.
func elemLR(l, r any) map[string]any {
	m := map[string]any{}
	if _, no := l.(nothingV); !no {
		m["l"] = l
	}
	if _, no := r.(nothingV); !no {
		m["r"] = r
	}
	return m
}

var pathL = &pathT{frags: []frag{{kind: 'c', key: "l"}}}
var pathR = &pathT{frags: []frag{{kind: 'c', key: "r"}}}

func child(root bool, keys ...string) *pathT {
	p := &pathT{root: root}
	for _, k := range keys {
		p.frags = append(p.frags, frag{kind: 'c', key: k})
	}
	return p
}

// matrix emits the exhaustive (operator x left value x right value x operand placement) box.
func matrix(full bool, emit func(kase)) (cells int) {
	vals := append(scalarReps(full), containerReps(full)...)
	for _, op := range binOps {
		for _, l := range vals {
			for _, r := range vals {
				cells++
				// placement 1: both operands through paths into the element
				if !isRx(l) && !isRx(r) {
					if isArith(op) {
						emit(kase{stream: "matrix.path", arith: &arithProbe{op: op, l: l, r: r, byPath: true}})
					} else {
						emit(kase{t: bin(op, pth(pathL), pth(pathR)), data: []any{elemLR(l, r)}, stream: "matrix.path"})
					}
				}
				// placement 2: both operands as constants
				_, okl := goConst(l)
				_, okr := goConst(r)
				if okl && okr {
					if isArith(op) {
						emit(kase{stream: "matrix.const", arith: &arithProbe{op: op, l: l, r: r}})
					} else {
						emit(kase{t: bin(op, cst(l), cst(r)), data: []any{int64(0)}, stream: "matrix.const"})
					}
				}
				// placement 3: path on the left, constant on the right (and the reverse)
				if full && !isArith(op) {
					if !isRx(l) && okr {
						emit(kase{t: bin(op, pth(pathL), cst(r)), data: []any{elemLR(l, nothingV{})}, stream: "matrix.mixed"})
					}
					if !isRx(r) && okl {
						emit(kase{t: bin(op, cst(l), pth(pathR)), data: []any{elemLR(nothingV{}, r)}, stream: "matrix.mixed"})
					}
				}
			}
		}
	}
	for _, op := range unOps {
		for _, l := range vals {
			cells++
			if !isRx(l) {
				emit(kase{t: un(op, pth(pathL)), data: []any{elemLR(l, nothingV{})}, stream: "matrix.unary"})
				if op != "not" {
					// the function result is observed through comparisons
					for _, k := range []any{int64(0), int64(1), int64(2), nothingV{}} {
						emit(kase{t: bin("eq", un(op, pth(pathL)), cst(k)), data: []any{elemLR(l, nothingV{})}, stream: "matrix.unary"})
					}
				}
			}
			if _, ok := goConst(l); ok {
				emit(kase{t: un(op, cst(l)), data: []any{int64(0)}, stream: "matrix.unary"})
				if op != "not" {
					for _, k := range []any{int64(0), int64(1), nothingV{}} {
						emit(kase{t: bin("eq", un(op, cst(l)), cst(k)), data: []any{int64(0)}, stream: "matrix.unary"})
					}
				}
			}
		}
	}
	return
}

// multiFamily: sub-paths yielding zero, one or many values on both sides.
func multiFamily(full bool, emit func(kase)) {
	lists := [][]any{
		{}, {int64(1)}, {int64(1), int64(2)}, {int64(2), 1.0, "a"}, {nil, true}, {"a", "b", "c"},
		{[]any{}, int64(1)}, {int64(1), []any{}}, {[]any{}, []any{}}, {map[string]any{}, map[string]any{}}, {1.5, 2.5}, {float64(p53), p53 + 1},
	}
	ops := []string{"eq", "neq", "lt", "gte", "in", "and", "or", "add"}
	if full {
		ops = binOps
		lists = append(lists, []any{int64(3), int64(2), int64(1), int64(0)}, []any{"", "a"}, []any{[]any{int64(1)}, []any{int64(1)}, int64(1)})
	}
	wm := &pathT{frags: []frag{{kind: 'c', key: "m"}, {kind: 'w'}}}
	wn := &pathT{frags: []frag{{kind: 'c', key: "n"}, {kind: 'w'}}}
	for _, op := range ops {
		for _, m := range lists {
			if !plainData(m) {
				continue
			}
			for _, n := range lists {
				if !plainData(n) {
					continue
				}
				el := map[string]any{"m": m, "n": n}
				var t *tm
				if isArith(op) {
					t = bin("gt", bin(op, pth(wm), pth(wn)), cst(int64(2)))
				} else {
					t = bin(op, pth(wm), pth(wn))
				}
				emit(kase{t: t, data: []any{el}, stream: "multi"})
				emit(kase{t: bin(op, pth(wm), cst(int64(1))), data: []any{el, map[string]any{"m": n}}, stream: "multi"})
				emit(kase{t: bin("and", bin(op, pth(wm), pth(wm)), un("not", bin("eq", pth(wn), cst(int64(1))))), data: []any{el}, stream: "multi"})
			}
			emit(kase{t: bin("eq", un("count", pth(wm)), cst(int64(len(m)))), data: []any{map[string]any{"m": m}, map[string]any{}}, stream: "multi"})
			emit(kase{t: bin("lt", un("count", pth(wm)), cst(int64(2))), data: []any{map[string]any{"m": m}}, stream: "multi"})
		}
	}
}

// bareFamily: scripts that are a path only, Nothing and nil members, `$` paths.
func bareFamily(emit func(kase)) {
	els := []any{
		map[string]any{"a": true}, map[string]any{"a": false}, map[string]any{"a": int64(1)}, map[string]any{"a": nil},
		map[string]any{"b": true}, map[string]any{"a": []any{true, true}}, map[string]any{"a": []any{}}, true, nil, int64(3),
	}
	paths := []*pathT{
		child(false, "a"), child(false), child(true, "a"), child(true),
		{frags: []frag{{kind: 'c', key: "a"}, {kind: 'w'}}}, {frags: []frag{{kind: 'c', key: "a"}, {kind: 'n', idx: 0}}},
		{frags: []frag{{kind: 'c', key: "a"}, {kind: 'n', idx: -1}}}, {root: true, frags: []frag{{kind: 'n', idx: 0}, {kind: 'c', key: "a"}}},
	}
	for _, p := range paths {
		emit(kase{t: pth(p), data: els, stream: "bare"})
		for _, b := range []any{true, false, int64(1), nil} {
			emit(kase{t: bin("exists", pth(p), cst(b)), data: els, stream: "nothing"})
			emit(kase{t: bin("has", pth(p), cst(b)), data: els, stream: "nothing"})
		}
		emit(kase{t: bin("eq", pth(p), cst(nothingV{})), data: els, stream: "nothing"})
		emit(kase{t: bin("neq", pth(p), cst(nothingV{})), data: els, stream: "nothing"})
		emit(kase{t: bin("eq", pth(p), cst(nil)), data: els, stream: "nothing"})
		emit(kase{t: un("not", pth(p)), data: els, stream: "nothing"})
		emit(kase{t: bin("and", pth(p), pth(p)), data: els, stream: "nothing"})
	}
}

// bareMultiFamily: a script that is ONLY a path whose path is multi-valued (wildcards): 0, 1, 2 and more values,
// none / some / all of them `true`, `false`, null, numbers, containers, typed values. In Filter position the
// one-cell template is an existence test (evalWithRoot's `bare` branch, tested BEFORE the `multi` branch); through
// Script()/NewScript the path is laid out as `path exists true` and goes through the multi-valued expansion.
func bareMultiFamily(emit func(kase)) {
	lists := [][]any{
		{}, {true}, {false}, {nil}, {int64(1)}, {int64(1), int64(2)}, {false, false}, {true, false}, {false, true}, {true, true}, {nil, nil},
		{"x", nil}, {false, nil, int64(0)}, {[]any{}, map[string]any{}}, {[]any{int64(1), int64(2)}, []any{int64(3)}}, {[]any{}, []any{}},
		{int64(0), 0.0, ""},
		{map[string]any{"x": false}, map[string]any{"x": int64(1)}}, {map[string]any{"x": false}, map[string]any{"y": int64(1)}}, {map[string]any{"y": false}, map[string]any{"y": int64(1)}},
	}
	var els []any
	for _, l := range lists {
		els = append(els, map[string]any{"a": l})
	}
	els = append(els, map[string]any{"a": map[string]any{"p": false, "q": int64(2)}}, map[string]any{"a": map[string]any{"p": false}}, map[string]any{"a": map[string]any{}},
		map[string]any{"b": []any{int64(1), int64(2)}}, map[string]any{"a": int64(3)}, []any{int64(1), int64(2)}, []any{false, false}, []any{}, int64(3))
	// typed values as the selected values: only under paths that end at them (stepping INTO typed data is C05/C11)
	var elsTyped []any
	for _, l := range [][]any{{int8(1), []int{1}}, {[]int{1, 2}, []int{1, 2}}, {gen.Bool(false), gen.Bool(false)}, {gen.Bool(true), int64(1)}, {[]int{1}}, {myInt(1), nil}} {
		elsTyped = append(elsTyped, map[string]any{"a": l})
	}
	w := frag{kind: 'w'}
	for _, p := range []*pathT{{frags: []frag{{kind: 'c', key: "a"}, w}}, {root: true, frags: []frag{{kind: 'n', idx: 1}, {kind: 'c', key: "a"}, w}}} {
		emit(kase{t: pth(p), data: elsTyped, stream: "bare.multi"})
		emit(kase{t: bin("exists", pth(p), cst(true)), data: elsTyped, stream: "bare.multi"})
		emit(kase{t: bin("eq", pth(p), cst(true)), data: elsTyped, stream: "bare.multi"})
	}
	paths := []*pathT{
		{frags: []frag{{kind: 'c', key: "a"}, w}}, {frags: []frag{w}}, {frags: []frag{{kind: 'c', key: "a"}, w, w}}, {frags: []frag{{kind: 'c', key: "a"}, w, {kind: 'c', key: "x"}}},
		{frags: []frag{w, w}}, {frags: []frag{w, {kind: 'n', idx: 0}}}, {frags: []frag{{kind: 'c', key: "a"}, w, {kind: 'n', idx: -1}}},
		{root: true, frags: []frag{w, {kind: 'c', key: "a"}}}, {root: true, frags: []frag{{kind: 'n', idx: 1}, {kind: 'c', key: "a"}, w}},
	}
	for _, p := range paths {
		emit(kase{t: pth(p), data: els, stream: "bare.multi"})
		for i := 0; i+3 <= len(els); i += 3 {
			emit(kase{t: pth(p), data: els[i : i+3], stream: "bare.multi"})
		}
		emit(kase{t: bin("exists", pth(p), cst(true)), data: els, stream: "bare.multi"})
		emit(kase{t: bin("has", pth(p), cst(false)), data: els, stream: "bare.multi"})
		emit(kase{t: bin("eq", pth(p), cst(true)), data: els, stream: "bare.multi"})
		emit(kase{t: un("not", pth(p)), data: els, stream: "bare.multi"})
		emit(kase{t: bin("or", pth(p), pth(p)), data: els, stream: "bare.multi"})
	}
}

// ---- seeded random nested scripts ---------------------------------------------------------------

type rgen struct{ r *lib.Rng }

var rndScalars = []any{
	nil, true, false, int64(0), int64(1), int64(2), int64(-3), int64(7), p53, p53 + 1, int64(math.MaxInt64),
	0.0, 1.0, 1.5, 2.5, -0.5, 7.0, float64(p53), 1e300, 0.1,
	"", "a", "b", "ab", "abc",
}

func (g *rgen) scalar() any { return lib.Pick(g.r, rndScalars) }

// typed values that random elements hold as leaves (operands only: the random paths never step into them)
var rndTyped = []any{
	int8(1), uint64(1) << 63, float32(1.5), gen.Int(2), gen.String("a"), gen.Bool(true), myInt(1), myStr("a"),
	[]int{1, 2}, map[string]int{"k": 1}, gen.Array{gen.Int(1)}, ptrA, [2]int{1, 2}, ifaceStruct{X: []int{1}}, ifaceStruct{X: int64(1)},
}

func (g *rgen) value(depth int) any {
	switch n := g.r.Intn(12); {
	case n < 9 || depth <= 0:
		if g.r.Intn(12) == 0 {
			return lib.Pick(g.r, rndTyped)
		}
		return g.scalar()
	case n < 11:
		k := g.r.Intn(4)
		xs := make([]any, k)
		for i := range xs {
			xs[i] = g.value(depth - 1)
		}
		return xs
	default:
		m := map[string]any{}
		for i, k := 0, g.r.Intn(3); i < k; i++ {
			m[lib.Pick(g.r, []string{"a", "b", "k"})] = g.value(depth - 1)
		}
		return m
	}
}

func (g *rgen) element() any {
	if g.r.Intn(8) == 0 {
		return g.value(1)
	}
	m := map[string]any{}
	for _, k := range []string{"a", "b", "c"} {
		if g.r.Intn(5) != 0 {
			m[k] = g.value(1)
		}
	}
	if g.r.Intn(4) != 0 {
		k := g.r.Intn(4)
		xs := make([]any, k)
		for i := range xs {
			xs[i] = g.value(1)
		}
		m["m"] = xs
	}
	if g.r.Bool() {
		m["o"] = map[string]any{"k": g.value(0)}
	}
	return m
}

func (g *rgen) path() *pathT {
	switch g.r.Intn(12) {
	case 0:
		return child(false)
	case 1:
		return child(false, "z")
	case 2:
		return &pathT{frags: []frag{{kind: 'c', key: "m"}, {kind: 'w'}}}
	case 3:
		return &pathT{frags: []frag{{kind: 'c', key: "m"}, {kind: 'n', idx: g.r.Intn(4) - 1}}}
	case 4:
		return child(false, "o", "k")
	case 5:
		return child(true, lib.Pick(g.r, []string{"a", "b"}))
	case 6:
		return &pathT{root: true, frags: []frag{{kind: 'n', idx: g.r.Intn(3)}, {kind: 'c', key: lib.Pick(g.r, []string{"a", "b"})}}}
	default:
		return child(false, lib.Pick(g.r, []string{"a", "b", "c"}))
	}
}

func (g *rgen) leaf() *tm {
	if g.r.Intn(5) < 3 {
		return pth(g.path())
	}
	if g.r.Intn(10) == 0 {
		k := 1 + g.r.Intn(3)
		xs := make([]any, k)
		for i := range xs {
			xs[i] = g.scalar()
		}
		return cst(xs)
	}
	if g.r.Intn(25) == 0 {
		return cst(nothingV{})
	}
	return cst(g.scalar())
}

var (
	cmpOps   = []string{"eq", "neq", "lt", "gt", "lte", "gte"}
	logicOps = []string{"and", "or"}
	arithOps = []string{"add", "sub", "mult", "divide"}
	miscOps  = []string{"in", "empty", "has", "exists", "rx", "match", "search"}
)

// num builds an arithmetic-valued expression.
func (g *rgen) num(depth int) *tm {
	if depth <= 0 || g.r.Intn(3) == 0 {
		return g.leaf()
	}
	if g.r.Intn(8) == 0 {
		return un(lib.Pick(g.r, []string{"length", "count"}), pth(g.path()))
	}
	return bin(lib.Pick(g.r, arithOps), g.num(depth-1), g.num(depth-1))
}

// boolean builds a truth-valued expression.
func (g *rgen) boolean(depth int) *tm {
	if depth <= 0 {
		return g.leaf()
	}
	switch n := g.r.Intn(20); {
	case n < 7:
		return bin(lib.Pick(g.r, cmpOps), g.num(depth-1), g.num(depth-1))
	case n < 12:
		return bin(lib.Pick(g.r, logicOps), g.boolean(depth-1), g.boolean(depth-1))
	case n < 14:
		return un("not", g.boolean(depth-1))
	case n < 17:
		op := lib.Pick(g.r, miscOps)
		switch op {
		case "empty", "has", "exists":
			return bin(op, g.leaf(), cst(g.r.Bool()))
		case "rx", "match", "search":
			return bin(op, g.leaf(), cst(lib.Pick(g.r, []any{"a", "^a", "b$", "ab", "(", "", rxV{"a"}})))
		}
		return bin(op, g.leaf(), g.leaf())
	case n < 18:
		// anything with anything
		return bin(lib.Pick(g.r, binOps), g.boolean(depth-1), g.num(depth-1))
	default:
		return bin(lib.Pick(g.r, cmpOps), g.boolean(depth-1), g.boolean(depth-1))
	}
}

func (g *rgen) kase() kase {
	n := 1 + g.r.Intn(5)
	data := make([]any, n)
	for i := range data {
		data[i] = g.element()
	}
	return kase{t: g.boolean(1 + g.r.Intn(4)), data: data, stream: "random"}
}

// hasFnArgApp reports whether some match/search application has an operator application as its second
// argument: the parser's precedence correction takes such an argument apart (C12-fn-arg-rotation).
func hasFnArgApp(t *tm) bool {
	switch t.kind {
	case 'u':
		return hasFnArgApp(t.a)
	case 'b':
		if (t.op == "match" || t.op == "search") && (t.b.kind == 'u' || t.b.kind == 'b') {
			return true
		}
		return hasFnArgApp(t.a) || hasFnArgApp(t.b)
	}
	return false
}

// fnargFamily: match/search whose second argument is an operator application, in several contexts,
// together with the tree precedentCorrect turns the text into:
//
//	f(L, g(P))      is read as  g(f(L, P))        g in length, count, !
//	f(L, (A op B))  is read as  (f(L, A) op B)
func fnargFamily(emit func(kase)) {
	els := []any{
		map[string]any{"a": []any{int64(7)}, "s": "abc"}, map[string]any{"a": "b", "s": "b"},
		map[string]any{"a": []any{}, "s": ""}, map[string]any{"s": "1"}, int64(3),
	}
	ls := []*tm{cst("b"), cst("abc"), pth(child(false, "s"))}
	pa := pth(child(false, "a"))
	type pair struct{ orig, parsed *tm }
	var shapes []pair
	for _, f := range []string{"match", "search"} {
		for _, l := range ls {
			for _, g := range []string{"length", "count", "not"} {
				shapes = append(shapes, pair{bin(f, l, un(g, pa)), un(g, bin(f, l, pa))})
			}
			for _, op := range []string{"add", "or", "eq", "lt"} {
				for _, ab := range [][2]*tm{{cst("a"), cst("b")}, {pa, cst(int64(1))}, {cst(true), pth(child(false, "s"))}} {
					shapes = append(shapes, pair{bin(f, l, bin(op, ab[0], ab[1])), bin(op, bin(f, l, ab[0]), ab[1])})
				}
			}
		}
	}
	ctx := []func(*tm) *tm{
		func(t *tm) *tm { return t },
		func(t *tm) *tm { return bin("or", t, cst(true)) },
		func(t *tm) *tm { return bin("or", cst(false), t) },
		func(t *tm) *tm { return bin("and", cst(true), t) },
		func(t *tm) *tm { return bin("eq", t, cst(nothingV{})) },
		func(t *tm) *tm { return un("not", t) },
	}
	for _, sh := range shapes {
		for _, c := range ctx {
			emit(kase{t: c(sh.orig), parsed: c(sh.parsed), data: els, stream: "fnarg"})
		}
	}
}

// boundaryFamily: every comparison between an int64 and a float64 at the places where the exact
// comparison has a case split — zero, ±2^53 (float64 stops holding every integer), ±2^63 (the int64 range
// ends; -2^63 is both MinInt64 and a float64, +2^63 is a float64 only) — with the neighbouring values on
// both sides, in both operand orders and in all four placements (data/data, literal/literal,
// data/literal, literal/data). Runs in every tier.
func boundaryFamily(emit func(kase)) (n int) {
	ints := []int64{
		math.MinInt64, math.MinInt64 + 1, math.MinInt64 + 1024, -(1 << 62), -p53 - 2, -p53 - 1, -p53, -p53 + 1, -2, -1, 0, 1, 2,
		p53 - 1, p53, p53 + 1, p53 + 2, 1 << 62, math.MaxInt64 - 1024, math.MaxInt64 - 1, math.MaxInt64,
	}
	two63 := 9223372036854775808.0
	fs := []float64{
		-two63, math.Nextafter(-two63, 0), math.Nextafter(-two63, math.Inf(-1)), -two63 / 2,
		two63, math.Nextafter(two63, 0), math.Nextafter(two63, math.Inf(1)), two63 / 2,
		float64(p53), float64(p53) - 1, float64(p53) + 2, -float64(p53), -float64(p53) + 1, -float64(p53) - 2,
		0, math.Copysign(0, -1), 0.5, -0.5, 1, -1, 1.5, -1.5, 5e-324, -5e-324,
		math.Inf(1), math.Inf(-1), math.NaN(), math.MaxFloat64, -math.MaxFloat64,
	}
	for _, op := range cmpOps {
		for _, i := range ints {
			for _, f := range fs {
				for _, lr := range [][2]any{{i, f}, {f, i}} {
					l, r := lr[0], lr[1]
					emit(kase{t: bin(op, pth(pathL), pth(pathR)), data: []any{elemLR(l, r)}, stream: "boundary"})
					emit(kase{t: bin(op, cst(l), cst(r)), data: []any{int64(0)}, stream: "boundary"})
					emit(kase{t: bin(op, pth(pathL), cst(r)), data: []any{elemLR(l, nothingV{})}, stream: "boundary"})
					emit(kase{t: bin(op, cst(l), pth(pathR)), data: []any{elemLR(nothingV{}, r)}, stream: "boundary"})
					n += 4
				}
			}
		}
	}
	return
}
