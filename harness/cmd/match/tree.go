package main

import (
	"fmt"
	"strconv"
	"strings"

	"github.com/ohler55/ojg/jp"

	"verif/harness/lib"
)

// ---- documents -------------------------------------------------------------------------------

// T is a document tree with a known member order (document order comes from the text, never from
// a Go map).
type T struct {
	K    byte   // n t f i d(float text) b(big number text) s a o
	I    int64  // i
	S    string // s: value; d, b: number text
	Kids []*T
	Keys []string // o
}

func tNull() *T         { return &T{K: 'n'} }
func tBool(b bool) *T   { return &T{K: map[bool]byte{true: 't', false: 'f'}[b]} }
func tInt(i int64) *T   { return &T{K: 'i', I: i} }
func tFlt(s string) *T  { return &T{K: 'd', S: s} }
func tBig(s string) *T  { return &T{K: 'b', S: s} }
func tStr(s string) *T  { return &T{K: 's', S: s} }
func tArr(k ...*T) *T   { return &T{K: 'a', Kids: k} }
func (t *T) leaf() bool { return t.K != 'a' && t.K != 'o' }
func (t *T) size() int {
	n := 1
	for _, k := range t.Kids {
		n += k.size()
	}
	return n
}

func (t *T) hasDupKeys() bool {
	if t.K == 'o' {
		seen := map[string]bool{}
		for _, k := range t.Keys {
			if seen[k] {
				return true
			}
			seen[k] = true
		}
	}
	for _, k := range t.Kids {
		if k.hasDupKeys() {
			return true
		}
	}
	return false
}

func jsonString(sb *strings.Builder, s string) {
	sb.WriteByte('"')
	for i := 0; i < len(s); i++ {
		c := s[i]
		switch {
		case c == '"' || c == '\\':
			sb.WriteByte('\\')
			sb.WriteByte(c)
		case c < 0x20:
			fmt.Fprintf(sb, "\\u%04x", c)
		default:
			sb.WriteByte(c)
		}
	}
	sb.WriteByte('"')
}

// writeJSON renders the tree as JSON text. ws, if not nil, inserts random white space.
func (t *T) writeJSON(sb *strings.Builder, ws *lib.Rng) {
	sp := func() {
		if ws != nil {
			switch ws.Intn(6) {
			case 0:
				sb.WriteByte(' ')
			case 1:
				sb.WriteByte('\n')
			}
		}
	}
	switch t.K {
	case 'n':
		sb.WriteString("null")
	case 't':
		sb.WriteString("true")
	case 'f':
		sb.WriteString("false")
	case 'i':
		sb.WriteString(strconv.FormatInt(t.I, 10))
	case 'd', 'b':
		sb.WriteString(t.S)
	case 's':
		jsonString(sb, t.S)
	case 'a':
		sb.WriteByte('[')
		for i, k := range t.Kids {
			if i > 0 {
				sb.WriteByte(',')
			}
			sp()
			k.writeJSON(sb, ws)
			sp()
		}
		sb.WriteByte(']')
	case 'o':
		sb.WriteByte('{')
		for i, k := range t.Kids {
			if i > 0 {
				sb.WriteByte(',')
			}
			sp()
			jsonString(sb, t.Keys[i])
			sp()
			sb.WriteByte(':')
			sp()
			k.writeJSON(sb, ws)
			sp()
		}
		sb.WriteByte('}')
	}
}

func (t *T) json(ws *lib.Rng) string {
	var sb strings.Builder
	t.writeJSON(&sb, ws)
	return sb.String()
}

// senString writes a string for SEN: between single quotes when that is asked for and possible
// without an escape (no single quote, backslash or control character inside; a double quote inside
// is fine), otherwise as a JSON string (a single quote inside stands as it is).
func senString(sb *strings.Builder, s string, single bool) {
	if single {
		ok := true
		for i := 0; i < len(s); i++ {
			if s[i] == '\'' || s[i] == '\\' || s[i] < 0x20 {
				ok = false
			}
		}
		if ok {
			sb.WriteByte('\'')
			sb.WriteString(s)
			sb.WriteByte('\'')
			return
		}
	}
	jsonString(sb, s)
}

// senText renders the tree in SEN style: no commas, bare member names where they are plain words;
// single: strings and the other member names between single quotes where possible.
func (t *T) senText(sb *strings.Builder, single bool) {
	switch t.K {
	case 'a':
		sb.WriteByte('[')
		for i, k := range t.Kids {
			if i > 0 {
				sb.WriteByte(' ')
			}
			k.senText(sb, single)
		}
		sb.WriteByte(']')
	case 'o':
		sb.WriteByte('{')
		for i, k := range t.Kids {
			if i > 0 {
				sb.WriteByte(' ')
			}
			if plainWord(t.Keys[i]) && !single {
				sb.WriteString(t.Keys[i])
			} else {
				senString(sb, t.Keys[i], single)
			}
			sb.WriteByte(':')
			k.senText(sb, single)
		}
		sb.WriteByte('}')
	case 's':
		senString(sb, t.S, single)
	default:
		t.writeJSON(sb, nil)
	}
}

// senTight renders the tree with the token shapes only SEN has: plain-word strings bare, no white
// space inside an array where a bracket or brace already delimits the tokens (a bare word or a
// number directly followed by `[` or `{`, `]` or `}` directly followed by a word), and a `//` or
// `/* */` comment as the separator of some neighbours. Members of an object stay separated by a
// blank (a key must follow a value there).
func (t *T) senTight(sb *strings.Builder) {
	closed := func(b byte) bool { return b == ']' || b == '}' }
	opens := func(b byte) bool { return b == '[' || b == '{' }
	switch t.K {
	case 'a':
		sb.WriteByte('[')
		for i, k := range t.Kids {
			var one strings.Builder
			k.senTight(&one)
			txt := one.String()
			if i > 0 {
				cur := sb.String()
				if !(closed(cur[len(cur)-1]) || opens(txt[0])) {
					switch i % 3 {
					case 0:
						sb.WriteString("// c\n")
					case 2:
						sb.WriteString("/* c */")
					default:
						sb.WriteByte(' ')
					}
				}
			}
			sb.WriteString(txt)
		}
		sb.WriteByte(']')
	case 'o':
		sb.WriteByte('{')
		for i, k := range t.Kids {
			if i > 0 {
				sb.WriteByte(' ')
			}
			if plainWord(t.Keys[i]) {
				sb.WriteString(t.Keys[i])
			} else {
				senString(sb, t.Keys[i], i%2 == 0)
			}
			sb.WriteByte(':')
			k.senTight(sb)
		}
		sb.WriteByte('}')
	case 's':
		if plainWord(t.S) {
			sb.WriteString(t.S)
		} else {
			senString(sb, t.S, len(t.S)%2 == 0)
		}
	default:
		t.writeJSON(sb, nil)
	}
}

func plainWord(s string) bool {
	if s == "" || s == "null" || s == "true" || s == "false" {
		return false
	}
	for i := 0; i < len(s); i++ {
		c := s[i]
		if !(c >= 'a' && c <= 'z' || c >= 'A' && c <= 'Z') {
			return false
		}
	}
	return true
}

// canon is the text handed to the Lean driver: the format of JV.render, members in DOCUMENT order.
func (t *T) canon(sb *strings.Builder) {
	switch t.K {
	case 'n', 't', 'f':
		sb.WriteByte(t.K)
	case 'i':
		fmt.Fprintf(sb, "I(%d)", t.I)
	case 'd':
		sb.WriteString("F(" + lib.HexF([]byte(t.S)) + ")")
	case 'b':
		sb.WriteString("B(" + lib.HexF([]byte(t.S)) + ")")
	case 's':
		sb.WriteString("S(" + lib.HexF([]byte(t.S)) + ")")
	case 'a':
		sb.WriteByte('[')
		for i, k := range t.Kids {
			if i > 0 {
				sb.WriteByte(',')
			}
			k.canon(sb)
		}
		sb.WriteByte(']')
	case 'o':
		sb.WriteByte('{')
		for i, k := range t.Kids {
			if i > 0 {
				sb.WriteByte(',')
			}
			sb.WriteString("K(" + lib.HexF([]byte(t.Keys[i])) + ")")
			k.canon(sb)
		}
		sb.WriteByte('}')
	}
}

func (t *T) canonText() string {
	var sb strings.Builder
	t.canon(&sb)
	return sb.String()
}

// parseTree reads the canon format back (replay files).
func parseTree(s string) (*T, error) {
	t, rest, err := parseTree1(s)
	if err != nil {
		return nil, err
	}
	if rest != "" {
		return nil, fmt.Errorf("trailing %q", rest)
	}
	return t, nil
}

func parseTree1(s string) (*T, string, error) {
	if s == "" {
		return nil, "", fmt.Errorf("empty")
	}
	switch s[0] {
	case 'n', 't', 'f':
		return &T{K: s[0]}, s[1:], nil
	case 'I', 'F', 'B', 'S':
		e := strings.IndexByte(s, ')')
		if len(s) < 3 || s[1] != '(' || e < 0 {
			return nil, "", fmt.Errorf("bad atom %q", s)
		}
		body := s[2:e]
		if s[0] == 'I' {
			i, err := strconv.ParseInt(body, 10, 64)
			if err != nil {
				return nil, "", err
			}
			return tInt(i), s[e+1:], nil
		}
		b, err := lib.UnhexF(body)
		if err != nil {
			return nil, "", err
		}
		return &T{K: map[byte]byte{'F': 'd', 'B': 'b', 'S': 's'}[s[0]], S: string(b)}, s[e+1:], nil
	case '[':
		t := &T{K: 'a'}
		s = s[1:]
		if strings.HasPrefix(s, "]") {
			return t, s[1:], nil
		}
		for {
			k, rest, err := parseTree1(s)
			if err != nil {
				return nil, "", err
			}
			t.Kids = append(t.Kids, k)
			if strings.HasPrefix(rest, ",") {
				s = rest[1:]
				continue
			}
			if strings.HasPrefix(rest, "]") {
				return t, rest[1:], nil
			}
			return nil, "", fmt.Errorf("bad array at %q", rest)
		}
	case '{':
		t := &T{K: 'o'}
		s = s[1:]
		if strings.HasPrefix(s, "}") {
			return t, s[1:], nil
		}
		for {
			e := strings.IndexByte(s, ')')
			if !strings.HasPrefix(s, "K(") || e < 0 {
				return nil, "", fmt.Errorf("bad key at %q", s)
			}
			kb, err := lib.UnhexF(s[2:e])
			if err != nil {
				return nil, "", err
			}
			k, rest, err := parseTree1(s[e+1:])
			if err != nil {
				return nil, "", err
			}
			t.Keys = append(t.Keys, string(kb))
			t.Kids = append(t.Kids, k)
			if strings.HasPrefix(rest, ",") {
				s = rest[1:]
				continue
			}
			if strings.HasPrefix(rest, "}") {
				return t, rest[1:], nil
			}
			return nil, "", fmt.Errorf("bad object at %q", rest)
		}
	}
	return nil, "", fmt.Errorf("bad node %q", s)
}

// ---- normalized locations --------------------------------------------------------------------

// Seg is one element of a normalized path.
type Seg struct {
	IsKey bool
	Key   string
	Idx   int
}

type Loc []Seg

// text is the form used by the Lean driver: $ then .K(hex) or [n].
func (l Loc) text() string {
	var sb strings.Builder
	sb.WriteByte('$')
	for _, s := range l {
		if s.IsKey {
			sb.WriteString(".K(" + lib.HexF([]byte(s.Key)) + ")")
		} else {
			fmt.Fprintf(&sb, "[%d]", s.Idx)
		}
	}
	return sb.String()
}

// locOf converts a normalized jp.Expr ($ first). ok=false if it is not normalized.
func locOf(x jp.Expr) (Loc, bool) {
	if len(x) == 0 {
		return nil, false
	}
	if _, ok := x[0].(jp.Root); !ok {
		return nil, false
	}
	l := Loc{}
	for _, f := range x[1:] {
		switch tf := f.(type) {
		case jp.Child:
			l = append(l, Seg{IsKey: true, Key: string(tf)})
		case jp.Nth:
			l = append(l, Seg{Idx: int(tf)})
		default:
			return nil, false
		}
	}
	return l, true
}

// position gives the member positions along the path in the tree (document order key); ok=false if
// the path does not exist. For a name that occurs twice the last member is taken (what a map keeps).
func (t *T) position(l Loc) ([]int, bool) {
	cur := t
	var pos []int
	for _, s := range l {
		switch {
		case s.IsKey && cur.K == 'o':
			at := -1
			for i, k := range cur.Keys {
				if k == s.Key {
					at = i
				}
			}
			if at < 0 {
				return nil, false
			}
			pos = append(pos, at)
			cur = cur.Kids[at]
		case !s.IsKey && cur.K == 'a':
			if s.Idx < 0 || s.Idx >= len(cur.Kids) {
				return nil, false
			}
			pos = append(pos, s.Idx)
			cur = cur.Kids[s.Idx]
		default:
			return nil, false
		}
	}
	return pos, true
}

func lessPos(a, b []int) bool {
	for i := 0; i < len(a) && i < len(b); i++ {
		if a[i] != b[i] {
			return a[i] < b[i]
		}
	}
	return len(a) < len(b)
}

func isPrefix(a, b Loc) bool {
	if len(a) > len(b) {
		return false
	}
	for i := range a {
		if a[i] != b[i] {
			return false
		}
	}
	return true
}

// ---- target paths ----------------------------------------------------------------------------

// UM is a union member.
type UM struct {
	IsKey bool
	Key   string
	Idx   int
}

// Frag is one fragment of a target path.
type Frag struct {
	K     byte   // c child, n index, w wildcard, u union, s slice, d descent, f filter
	Key   string // c; f: member name compared ("" with FSelf: the element itself)
	N     int    // n; f: the integer compared with
	U     []UM
	Sl    []int // s: 0 to 3 numbers as in jp.Slice
	FSelf bool  // f: (@ == N) instead of (@.Key == N)
}

type Target []Frag

const maxEnd = 2147483647 // jp's "no end given"

func (tg Target) expr() jp.Expr {
	x := jp.R()
	for _, f := range tg {
		switch f.K {
		case 'c':
			x = x.C(f.Key)
		case 'n':
			x = x.N(f.N)
		case 'w':
			x = x.W()
		case 'u':
			ms := make([]any, len(f.U))
			for i, m := range f.U {
				if m.IsKey {
					ms[i] = m.Key
				} else {
					ms[i] = int64(m.Idx)
				}
			}
			x = x.U(ms...)
		case 's':
			x = append(x, jp.Slice(append([]int{}, f.Sl...)))
		case 'd':
			x = x.D()
		case 'f':
			if f.FSelf {
				x = x.F(jp.Eq(jp.Get(jp.A()), jp.ConstInt(int64(f.N))))
			} else {
				x = x.F(jp.Eq(jp.Get(jp.A().C(f.Key)), jp.ConstInt(int64(f.N))))
			}
		}
	}
	return x
}

// text is the form handed to the Lean driver: fragments joined by '/', "-" for the bare root.
func (tg Target) text() string {
	if len(tg) == 0 {
		return "-"
	}
	parts := make([]string, len(tg))
	for i, f := range tg {
		switch f.K {
		case 'c':
			parts[i] = "c:" + lib.HexF([]byte(f.Key))
		case 'n':
			parts[i] = fmt.Sprintf("n:%d", f.N)
		case 'w':
			parts[i] = "w"
		case 'u':
			ms := make([]string, len(f.U))
			for j, m := range f.U {
				if m.IsKey {
					ms[j] = "s" + lib.HexF([]byte(m.Key))
				} else {
					ms[j] = fmt.Sprintf("i%d", m.Idx)
				}
			}
			parts[i] = "u:" + strings.Join(ms, ",")
		case 's':
			st, en, sp := "0", "_", "1"
			if len(f.Sl) > 0 {
				st = fmt.Sprint(f.Sl[0])
			}
			if len(f.Sl) > 1 && f.Sl[1] != maxEnd {
				en = fmt.Sprint(f.Sl[1])
			}
			if len(f.Sl) > 2 {
				sp = fmt.Sprint(f.Sl[2])
			}
			parts[i] = "s:" + st + ":" + en + ":" + sp
		case 'd':
			parts[i] = "d"
		case 'f':
			if f.FSelf {
				parts[i] = fmt.Sprintf("f:@:%d", f.N)
			} else {
				parts[i] = fmt.Sprintf("f:%s:%d", lib.HexF([]byte(f.Key)), f.N)
			}
		}
	}
	return strings.Join(parts, "/")
}

func targetsText(ts []Target) string {
	parts := make([]string, len(ts))
	for i, t := range ts {
		parts[i] = t.text()
	}
	return strings.Join(parts, " ")
}

func parseTargets(s string) ([]Target, error) {
	var out []Target
	for _, ts := range strings.Fields(s) {
		if ts == "-" {
			out = append(out, Target{})
			continue
		}
		var tg Target
		for _, fs := range strings.Split(ts, "/") {
			p := strings.Split(fs, ":")
			bad := fmt.Errorf("bad fragment %q", fs)
			switch p[0] {
			case "c":
				if len(p) != 2 {
					return nil, bad
				}
				b, err := lib.UnhexF(p[1])
				if err != nil {
					return nil, bad
				}
				tg = append(tg, Frag{K: 'c', Key: string(b)})
			case "n":
				if len(p) != 2 {
					return nil, bad
				}
				n, err := strconv.Atoi(p[1])
				if err != nil {
					return nil, bad
				}
				tg = append(tg, Frag{K: 'n', N: n})
			case "w":
				tg = append(tg, Frag{K: 'w'})
			case "d":
				tg = append(tg, Frag{K: 'd'})
			case "u":
				if len(p) != 2 {
					return nil, bad
				}
				f := Frag{K: 'u'}
				for _, m := range strings.Split(p[1], ",") {
					if m == "" {
						return nil, bad
					}
					if m[0] == 's' {
						b, err := lib.UnhexF(m[1:])
						if err != nil {
							return nil, bad
						}
						f.U = append(f.U, UM{IsKey: true, Key: string(b)})
					} else {
						n, err := strconv.Atoi(m[1:])
						if err != nil {
							return nil, bad
						}
						f.U = append(f.U, UM{Idx: n})
					}
				}
				tg = append(tg, f)
			case "s":
				if len(p) != 4 {
					return nil, bad
				}
				st, e1 := strconv.Atoi(p[1])
				sp, e3 := strconv.Atoi(p[3])
				if e1 != nil || e3 != nil {
					return nil, bad
				}
				en := maxEnd
				if p[2] != "_" {
					var e2 error
					if en, e2 = strconv.Atoi(p[2]); e2 != nil {
						return nil, bad
					}
				}
				tg = append(tg, Frag{K: 's', Sl: []int{st, en, sp}})
			case "f":
				if len(p) != 3 {
					return nil, bad
				}
				n, err := strconv.Atoi(p[2])
				if err != nil {
					return nil, bad
				}
				if p[1] == "@" {
					tg = append(tg, Frag{K: 'f', FSelf: true, N: n})
				} else {
					b, err := lib.UnhexF(p[1])
					if err != nil {
						return nil, bad
					}
					tg = append(tg, Frag{K: 'f', Key: string(b), N: n})
				}
			default:
				return nil, bad
			}
		}
		out = append(out, tg)
	}
	return out, nil
}

// ---- syntactic classes of the recorded deviations --------------------------------------------

// features names the constructs of a target set for which the streaming matcher is known to
// deviate (ids of known_findings.json without the "C17-" prefix), wherever they stand in a target
// (also in front of a descent). descentDeviates: the matcher the code is compared with does not let
// a descent match the node itself (Dev.descentNoSelf; repaired in /repo), so a target that ends in
// a descent is a deviation of its own.
func features(ts []Target, descentDeviates bool) map[string]bool {
	m := map[string]bool{}
	for _, tg := range ts {
		for i, f := range tg {
			switch f.K {
			case 'n':
				if f.N < 0 {
					m["from-end-index"] = true
				}
			case 'u':
				for _, u := range f.U {
					if !u.IsKey && u.Idx < 0 {
						m["from-end-index"] = true
					}
				}
			case 's':
				// [:] (start 0, no end, step 1) selects every index, which is what the matcher does
				full := (len(f.Sl) < 1 || f.Sl[0] == 0) && (len(f.Sl) < 2 || f.Sl[1] == maxEnd) && (len(f.Sl) < 3 || f.Sl[2] == 1)
				if !full {
					m["slice-bounds"] = true
				}
			case 'f':
				m["filter-first-only"] = true
			case 'd':
				if descentDeviates && (i == len(tg)-1 || tg[i+1].K == 'f') {
					m["trailing-descent"] = true
				}
			}
		}
	}
	return m
}
