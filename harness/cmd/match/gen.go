package main

import (
	"verif/harness/lib"
)

// Case is one (document, target set) pair.
type Case struct {
	Doc     *T
	Targets []Target
	Stream  string
	WSeed   uint64 // white space seed for the JSON text (0: compact)
}

var keyPool = []string{"a", "b", "c", "x", "y"}
var oddKeys = []string{"", "a b", "k\"q", "é", "null", "0", "$", "a.b", "[0]", "it's", "\"", "'q' \"d\""}

func randLeaf(r *lib.Rng) *T {
	switch r.Intn(14) {
	case 0:
		return tNull()
	case 1:
		return tBool(r.Bool())
	case 2:
		return tStr(lib.Pick(r, []string{"", "a", "x y", "1", "q\"\\", "é☃", "a\"b", "it's", "say \"hi\" now", "\"", "'"}))
	case 3:
		return tFlt(lib.Pick(r, []string{"1.5", "-2.25e1", "0.25", "1e-2", "3.5E0"}))
	case 4:
		return tBig(lib.Pick(r, []string{"123456789012345678901234567890", "-98765432109876543210"}))
	case 5:
		return tInt(int64(r.Intn(2000)) - 1000)
	default:
		return tInt(int64(r.Intn(4)))
	}
}

func distinctKeys(r *lib.Rng, n int, odd bool) []string {
	pool := append([]string{}, keyPool...)
	if odd {
		pool = append(pool, oddKeys...)
	}
	// partial shuffle
	for i := 0; i < n && i < len(pool); i++ {
		j := i + r.Intn(len(pool)-i)
		pool[i], pool[j] = pool[j], pool[i]
	}
	if n > len(pool) {
		n = len(pool)
	}
	return pool[:n]
}

func randDoc(r *lib.Rng, depth, width int, odd bool) *T {
	if depth <= 0 || r.Intn(5) == 0 {
		return randLeaf(r)
	}
	n := r.Intn(width + 1)
	if r.Bool() {
		t := &T{K: 'a'}
		for i := 0; i < n; i++ {
			t.Kids = append(t.Kids, randDoc(r, depth-1, width, odd))
		}
		return t
	}
	t := &T{K: 'o'}
	for _, k := range distinctKeys(r, n, odd && r.Intn(4) == 0) {
		t.Keys = append(t.Keys, k)
		t.Kids = append(t.Kids, randDoc(r, depth-1, width, odd))
	}
	return t
}

// allLocs lists every location of the tree in document order (pre-order).
func (t *T) allLocs() []Loc {
	var out []Loc
	var walk func(n *T, at Loc)
	walk = func(n *T, at Loc) {
		out = append(out, append(Loc{}, at...))
		for i, k := range n.Kids {
			if n.K == 'o' {
				walk(k, append(at, Seg{IsKey: true, Key: n.Keys[i]}))
			} else {
				walk(k, append(at, Seg{Idx: i}))
			}
		}
	}
	walk(t, nil)
	return out
}

func (t *T) at(l Loc) *T {
	cur := t
	for _, s := range l {
		if s.IsKey {
			at := -1
			for i, k := range cur.Keys {
				if k == s.Key {
					at = i
				}
			}
			if at < 0 {
				return nil
			}
			cur = cur.Kids[at]
		} else {
			if cur.K != 'a' || s.Idx >= len(cur.Kids) {
				return nil
			}
			cur = cur.Kids[s.Idx]
		}
	}
	return cur
}

func randSlice(r *lib.Rng, idx, n int) []int {
	switch r.Intn(9) {
	case 0:
		return []int{} // [:]
	case 1:
		return []int{idx} // [idx:]
	case 2:
		return []int{0, idx + 1}
	case 3:
		return []int{idx, idx + 1, 1}
	case 4:
		return []int{r.Intn(3), r.Intn(5), 1 + r.Intn(3)}
	case 5:
		return []int{idx % 2, maxEnd, 2}
	case 6:
		return []int{-1 - r.Intn(3), maxEnd, 1} // from the end
	case 7:
		return []int{r.Intn(2), -1 - r.Intn(2), 1}
	default:
		return []int{r.Intn(4), r.Intn(4) - 1, r.Intn(5) - 2}
	}
}

func otherKey(r *lib.Rng, k string) string {
	for {
		o := lib.Pick(r, keyPool)
		if o != k {
			return o
		}
	}
}

func randFilter(r *lib.Rng) Frag {
	if r.Intn(4) == 0 {
		return Frag{K: 'f', FSelf: true, N: r.Intn(4)}
	}
	return Frag{K: 'f', Key: lib.Pick(r, keyPool), N: r.Intn(4)}
}

// targetFor generalises the path of a location of the document fragment by fragment, so that the
// target usually selects something. plainOnly restricts it to the constructs without a recorded
// deviation.
func targetFor(r *lib.Rng, doc *T, l Loc, plainOnly bool) Target {
	var tg Target
	cur := doc
	for _, s := range l {
		n := len(cur.Kids)
		if r.Intn(9) == 0 {
			tg = append(tg, Frag{K: 'd'})
		}
		if s.IsKey {
			switch r.Intn(8) {
			case 0, 1:
				tg = append(tg, Frag{K: 'w'})
			case 2:
				u := []UM{{IsKey: true, Key: s.Key}, {IsKey: true, Key: otherKey(r, s.Key)}}
				if r.Bool() {
					u[0], u[1] = u[1], u[0]
				}
				if r.Intn(3) == 0 {
					u = append(u, UM{Idx: r.Intn(3)})
				}
				tg = append(tg, Frag{K: 'u', U: u})
			case 3:
				if r.Intn(3) == 0 {
					tg = append(tg, Frag{K: 'c', Key: otherKey(r, s.Key)})
				} else {
					tg = append(tg, Frag{K: 'c', Key: s.Key})
				}
			default:
				tg = append(tg, Frag{K: 'c', Key: s.Key})
			}
		} else {
			c := r.Intn(12)
			if plainOnly && (c == 3 || c == 4 || c == 5 || c == 6) {
				c = 9
			}
			switch c {
			case 0, 1:
				tg = append(tg, Frag{K: 'w'})
			case 2:
				u := []UM{{Idx: s.Idx}, {Idx: r.Intn(4)}}
				if r.Intn(3) == 0 {
					u = append(u, UM{IsKey: true, Key: lib.Pick(r, keyPool)})
				}
				if !plainOnly && r.Intn(4) == 0 {
					u = append(u, UM{Idx: s.Idx - n})
				}
				tg = append(tg, Frag{K: 'u', U: u})
			case 3:
				tg = append(tg, Frag{K: 'n', N: s.Idx - n}) // the same element counted from the end
			case 4, 5, 6:
				tg = append(tg, Frag{K: 's', Sl: randSlice(r, s.Idx, n)})
			case 7:
				tg = append(tg, Frag{K: 'n', N: r.Intn(4)})
			default:
				tg = append(tg, Frag{K: 'n', N: s.Idx})
			}
		}
		if cur = cur.at(Loc{s}); cur == nil {
			break // (a repeated member name: the rest of the path is under the earlier member)
		}
	}
	if len(tg) > 0 && r.Intn(6) == 0 {
		tg = tg[:len(tg)-1]
	}
	if !plainOnly {
		switch r.Intn(14) {
		case 0, 1:
			tg = append(tg, randFilter(r))
		case 2:
			tg = append(tg, Frag{K: 'd'})
		}
	}
	if r.Intn(10) == 0 && (len(tg) == 0 || tg[len(tg)-1].K != 'f') {
		tg = append(tg, Frag{K: 'w'})
	}
	// a descent directly before a descent adds nothing; keep the text canonical
	var out Target
	for i, f := range tg {
		if f.K == 'd' && i > 0 && tg[i-1].K == 'd' {
			continue
		}
		out = append(out, f)
	}
	return out
}

func randFrag(r *lib.Rng, plainOnly bool) Frag {
	c := r.Intn(11)
	if plainOnly && c >= 7 {
		c = r.Intn(7)
	}
	switch c {
	case 0, 1:
		return Frag{K: 'c', Key: lib.Pick(r, keyPool)}
	case 2, 3:
		return Frag{K: 'n', N: r.Intn(4)}
	case 4:
		return Frag{K: 'w'}
	case 5:
		return Frag{K: 'u', U: []UM{{IsKey: true, Key: lib.Pick(r, keyPool)}, {Idx: r.Intn(3)}}}
	case 6:
		return Frag{K: 'd'}
	case 7:
		return Frag{K: 'n', N: -1 - r.Intn(3)}
	case 8:
		return Frag{K: 's', Sl: randSlice(r, r.Intn(3), 3)}
	case 9:
		return Frag{K: 'u', U: []UM{{Idx: -1 - r.Intn(2)}, {Idx: r.Intn(3)}}}
	default:
		return randFilter(r)
	}
}

func randTarget(r *lib.Rng, doc *T, locs []Loc, plainOnly bool) Target {
	if r.Intn(5) == 0 || len(locs) == 0 {
		n := r.Intn(4)
		var tg Target
		for i := 0; i < n; i++ {
			f := randFrag(r, plainOnly)
			if f.K == 'f' && i != n-1 {
				f = Frag{K: 'w'}
			}
			if f.K == 'd' && i > 0 && tg[i-1].K == 'd' {
				f = Frag{K: 'w'}
			}
			tg = append(tg, f)
		}
		if plainOnly && len(tg) > 0 && tg[len(tg)-1].K == 'd' {
			tg = append(tg, Frag{K: 'w'})
		}
		return tg
	}
	tg := targetFor(r, doc, lib.Pick(r, locs), plainOnly)
	if plainOnly && len(tg) > 0 && tg[len(tg)-1].K == 'd' {
		tg = append(tg, Frag{K: 'c', Key: lib.Pick(r, keyPool)})
	}
	return tg
}

// randomCases: seeded structured random documents and 1-3 targets; targets of one case are often
// derived from nested locations (a location and one of its descendants) to exercise "outermost".
func randomCases(full bool, r *lib.Rng, emit func(*Case)) {
	n := 6000
	if full {
		n = 120000
	}
	for i := 0; i < n; i++ {
		depth := 1 + r.Intn(4)
		doc := randDoc(r, depth, 1+r.Intn(4), r.Intn(6) == 0)
		if doc.leaf() && r.Intn(4) != 0 {
			doc = tArr(doc, randDoc(r, 2, 3, false))
		}
		locs := doc.allLocs()
		plain := r.Intn(3) == 0
		nt := 1 + r.Intn(3)
		var ts []Target
		for j := 0; j < nt; j++ {
			if j > 0 && r.Intn(3) == 0 && len(locs) > 1 {
				// nested: extend or cut a previous location
				base := lib.Pick(r, locs)
				var nested []Loc
				for _, l := range locs {
					if isPrefix(base, l) {
						nested = append(nested, l)
					}
				}
				ts = append(ts, targetFor(r, doc, lib.Pick(r, nested), plain))
				ts = append(ts, targetFor(r, doc, base, plain))
				j++
				continue
			}
			ts = append(ts, randTarget(r, doc, locs, plain))
		}
		if plain {
			for j, tg := range ts {
				if len(tg) > 0 && tg[len(tg)-1].K == 'd' {
					ts[j] = append(tg, Frag{K: 'w'})
				}
			}
		}
		stream := "random.mixed"
		if plain {
			stream = "random.plain"
		}
		var ws uint64
		if r.Intn(3) == 0 {
			ws = r.Next() | 1
		}
		emit(&Case{Doc: doc, Targets: ts, Stream: stream, WSeed: ws})
	}
}

func (t *T) depth() int {
	m := 0
	for _, k := range t.Kids {
		if d := k.depth() + 1; d > m {
			m = d
		}
	}
	return m
}

// ---- exhaustive boxes ------------------------------------------------------------------------

// smallDocs enumerates every tree over leaves {1, 2}, arrays of 0-2 elements and objects over the
// names a, b (0-2 members, both orders) up to the given depth.
func smallDocs(depth int) []*T {
	leaves := []*T{tInt(1), tInt(2)}
	if depth == 0 {
		return leaves
	}
	sub := smallDocs(depth - 1)
	out := append([]*T{}, leaves...)
	out = append(out, &T{K: 'a'}, &T{K: 'o'})
	for _, x := range sub {
		out = append(out, tArr(x))
		out = append(out, &T{K: 'o', Keys: []string{"a"}, Kids: []*T{x}})
		out = append(out, &T{K: 'o', Keys: []string{"b"}, Kids: []*T{x}})
	}
	for _, x := range sub {
		for _, y := range sub {
			out = append(out, tArr(x, y))
			out = append(out, &T{K: 'o', Keys: []string{"a", "b"}, Kids: []*T{x, y}})
			out = append(out, &T{K: 'o', Keys: []string{"b", "a"}, Kids: []*T{x, y}})
		}
	}
	return out
}

var boxFrags = []Frag{
	{K: 'c', Key: "a"},
	{K: 'c', Key: "b"},
	{K: 'n', N: 0},
	{K: 'n', N: 1},
	{K: 'n', N: -1},
	{K: 'w'},
	{K: 'u', U: []UM{{IsKey: true, Key: "a"}, {Idx: 1}}},
	{K: 'u', U: []UM{{Idx: -1}, {IsKey: true, Key: "b"}}},
	{K: 's', Sl: []int{}},
	{K: 's', Sl: []int{1}},
	{K: 's', Sl: []int{0, 1}},
	{K: 's', Sl: []int{0, maxEnd, 2}},
	{K: 's', Sl: []int{-1}},
	{K: 'd'},
	{K: 'f', Key: "a", N: 1},
	{K: 'f', FSelf: true, N: 2},
}

func boxTargets(maxLen int) []Target {
	out := []Target{{}}
	level := []Target{{}}
	for l := 1; l <= maxLen; l++ {
		var next []Target
		for _, p := range level {
			if len(p) > 0 && p[len(p)-1].K == 'f' {
				continue // a filter is the last fragment of a target
			}
			for _, f := range boxFrags {
				if f.K == 'd' && len(p) > 0 && p[len(p)-1].K == 'd' {
					continue
				}
				next = append(next, append(append(Target{}, p...), f))
			}
		}
		out = append(out, next...)
		level = next
	}
	return out
}

func boxCases(full bool, r *lib.Rng, emit func(*Case)) {
	docs := smallDocs(2)
	single := boxTargets(2)
	rep.Exhaustive = append(rep.Exhaustive,
		"documents: every tree of depth <= 2 over leaves {1,2}, arrays of 0-2 elements, objects over names a,b in both orders (1522 documents)",
		"single targets: every fragment sequence of length <= 2 over 16 fragments (child a/b, index 0/1/-1, wildcard, two unions, five slices, descent, two filters), times every such document")
	for _, d := range docs {
		for _, tg := range single {
			emit(&Case{Doc: d, Targets: []Target{tg}, Stream: "box.single"})
		}
	}
	if full {
		// length 3: every document of depth <= 1, and a quarter of the deeper ones (chosen by the seed)
		var three []Target
		for _, tg := range boxTargets(3) {
			if len(tg) == 3 {
				three = append(three, tg)
			}
		}
		rep.Exhaustive = append(rep.Exhaustive,
			"single targets of length 3 over the same fragments, times every document of depth <= 1 (and a seed-chosen quarter of the depth-2 documents)")
		pick := r.Intn(4)
		for i, d := range docs {
			if d.depth() > 1 && i%4 != pick {
				continue
			}
			for _, tg := range three {
				emit(&Case{Doc: d, Targets: []Target{tg}, Stream: "box.single3"})
			}
		}
	}
	// pairs of short targets on the depth <= 1 documents plus a sample of the deeper ones
	short := boxTargets(1)
	two := boxTargets(2)
	d1 := smallDocs(1)
	rep.Exhaustive = append(rep.Exhaustive,
		"target pairs: every ordered pair (length <= 1, length <= 2) of box targets on every document of depth <= 1")
	for _, d := range d1 {
		for _, a := range short {
			for _, b := range two {
				emit(&Case{Doc: d, Targets: []Target{a, b}, Stream: "box.pair"})
				if len(a) > 0 {
					emit(&Case{Doc: d, Targets: []Target{b, a}, Stream: "box.pair"})
				}
			}
		}
	}
	n := 4000
	if full {
		n = 60000
	}
	for i := 0; i < n; i++ {
		d := lib.Pick(r, docs)
		nt := 2 + r.Intn(2)
		var ts []Target
		for j := 0; j < nt; j++ {
			ts = append(ts, lib.Pick(r, two))
		}
		emit(&Case{Doc: d, Targets: ts, Stream: "box.sampled-multi"})
	}
}

// boundaryCases: the families the property names.
func boundaryCases(emit func(*Case)) {
	c := func(k string) Frag { return Frag{K: 'c', Key: k} }
	n := func(i int) Frag { return Frag{K: 'n', N: i} }
	w := Frag{K: 'w'}
	d := Frag{K: 'd'}
	obj := func(kv ...any) *T {
		t := &T{K: 'o'}
		for i := 0; i < len(kv); i += 2 {
			t.Keys = append(t.Keys, kv[i].(string))
			t.Kids = append(t.Kids, kv[i+1].(*T))
		}
		return t
	}
	i := func(v int64) *T { return tInt(v) }
	docs := []*T{
		tArr(tArr(tArr(i(1), tArr(i(2))))),                                                    // nested arrays
		tArr(obj("a", tArr(i(1), i(2)))),                                                      // nested map/array
		obj("a", obj("b", i(1), "c", obj("d", i(2)))),                                         // nested maps
		tArr(i(1), tArr(i(2), i(4), i(8)), i(3), i(4)),                                        // index bookkeeping after a container closes
		tArr(tArr(), tArr(tArr()), obj(), i(5), tArr(i(6))),                                   // empty containers
		tArr(obj("x", i(0), "y", i(0)), obj("x", i(1), "y", i(1)), obj("x", i(1), "y", i(2))), // filter candidates
		obj("a", tArr(obj("a", i(1)), obj("a", i(2), "b", tArr(obj("a", i(1))))), "b", obj("a", i(1))),
		i(7), tStr("s"), tNull(), tArr(), obj(),
		obj("a", tArr(i(0), i(1), i(2), i(3), i(4), i(5))),
	}
	targets := [][]Target{
		{{}}, {{w}}, {{w, w}}, {{w, w, w}}, {{d, c("a")}}, {{d, n(0)}}, {{d, w}}, {{d}},
		{{n(1)}}, {{n(1), n(2)}}, {{n(-1)}}, {{n(1), n(-1)}}, {{c("a")}}, {{c("a"), c("b")}},
		{{c("a")}, {c("a"), c("b")}}, {{c("a"), c("b")}, {c("a")}}, {{w}, {w, w}}, {{d, c("a")}, {c("a")}},
		{{n(1)}, {n(1), n(0)}, {n(3)}}, {{n(3)}, {n(1)}}, {{n(0)}, {n(0)}},
		{{Frag{K: 'f', Key: "x", N: 1}}}, {{Frag{K: 'f', Key: "x", N: 2}}}, {{Frag{K: 'f', Key: "x", N: 1}}, {n(2), c("y")}},
		{{n(2), c("y")}, {Frag{K: 'f', Key: "x", N: 1}}}, {{w}, {Frag{K: 'f', Key: "x", N: 1}}},
		{{c("a"), Frag{K: 's', Sl: []int{1, 5, 2}}}}, {{c("a"), Frag{K: 's', Sl: []int{2}}}}, {{c("a"), Frag{K: 's', Sl: []int{0, 2}}}},
		{{c("a"), Frag{K: 's', Sl: []int{-2}}}}, {{c("a"), Frag{K: 's', Sl: []int{4, 1, -1}}}},
		{{c("a"), Frag{K: 'u', U: []UM{{Idx: 0}, {Idx: -1}}}}}, {{c("a"), Frag{K: 'u', U: []UM{{Idx: 2}, {Idx: 2}, {Idx: 0}}}}},
		{{d, Frag{K: 'f', Key: "a", N: 1}}}, {{c("a"), d}},
	}
	for _, doc := range docs {
		for _, ts := range targets {
			emit(&Case{Doc: doc, Targets: ts, Stream: "boundary"})
			emit(&Case{Doc: doc, Targets: ts, Stream: "boundary", WSeed: 77})
		}
	}
}

// senShapeCases: documents whose SEN-tight text (T.senTight) puts a bare word or a number directly
// in front of `[` / `{` and directly behind `]` / `}`, with comments and single-quoted strings; the
// targets report every element, so a dropped or shifted token shows in a path or a value.
func senShapeCases(emit func(*Case)) {
	c := func(k string) Frag { return Frag{K: 'c', Key: k} }
	n := func(i int) Frag { return Frag{K: 'n', N: i} }
	w := Frag{K: 'w'}
	d := Frag{K: 'd'}
	obj := func(kv ...any) *T {
		t := &T{K: 'o'}
		for i := 0; i < len(kv); i += 2 {
			t.Keys = append(t.Keys, kv[i].(string))
			t.Kids = append(t.Kids, kv[i+1].(*T))
		}
		return t
	}
	i := func(v int64) *T { return tInt(v) }
	docs := []*T{
		tArr(tStr("abc"), tArr(i(1), i(2)), tStr("def")),                                  // [abc[1 2]def]
		tArr(i(1), tArr(i(2)), i(3), obj("a", tStr("b")), i(4)),                           // [1[2]3{a:b}4]
		tArr(tStr("abc"), obj("x", i(1)), tStr("d"), obj(), tStr("e"), tArr()),            // [abc{x:1}d{}e[]]
		tArr(tBool(true), tArr(i(1)), tNull(), obj(), tBool(false), tArr(tArr())),         // [true[1]null{}false[[]]]
		tArr(tFlt("1.5"), tArr(i(2)), tBig("123456789012345678901234567890"), tArr(i(3))), // numbers in front of [
		tArr(tStr("it's"), tArr(i(1)), tStr("x y"), obj("k", tStr("v w"))),                // quoted strings against brackets
		tArr(tStr("a"), tStr("b"), tStr("c"), tStr("d"), i(1), i(2), i(3)),                // comments as separators
		obj("a", tArr(tStr("abc"), tArr(tStr("x")), tStr("y")), "b", tStr("word")),        // inside an object
		tArr(tArr(tStr("abc"), tArr(tStr("de"), tArr(tStr("f"))))),                        // nested
		tArr(tStr("abc"), tArr(tArr(i(1), i(2))), tStr("def"), tArr(i(3))),
	}
	targets := [][]Target{
		{{w}}, {{w, w}}, {{d, w}}, {{d}}, {{n(0)}}, {{n(1)}}, {{n(2)}}, {{n(1), n(0)}}, {{n(1), n(1)}}, {{d, n(0)}}, {{d, n(1)}},
		{{n(0)}, {n(2)}}, {{n(2)}, {n(1), n(0)}}, {{c("a"), w}}, {{c("a"), n(1), n(0)}}, {{w, w, w}},
	}
	for _, doc := range docs {
		for _, ts := range targets {
			emit(&Case{Doc: doc, Targets: ts, Stream: "senshape"})
		}
	}
}

// quoteCases: strings and member names that hold the OTHER quote character (a double quote inside
// a SEN single-quoted string, a single quote inside a double-quoted one), every place a string can
// stand in, under targets that report it as a value, inside a collected container and as a path.
func quoteCases(emit func(*Case)) {
	strs := []string{"a\"b", "\"", "\"\"", "x\"y\"z", "say \"hi\"", "it's", "'", "a'b\"c", "\"'", "plain"}
	w := Frag{K: 'w'}
	d := Frag{K: 'd'}
	for _, s := range strs {
		for _, s2 := range []string{"k", s} {
			docs := []*T{
				tStr(s),
				tArr(tStr(s)),
				tArr(tStr(s), tInt(1), tStr(s2)),
				{K: 'o', Keys: []string{s}, Kids: []*T{tStr(s2)}},
				{K: 'o', Keys: []string{"a", s}, Kids: []*T{tStr(s), tArr(tStr(s2), tInt(2))}},
				tArr(&T{K: 'o', Keys: []string{s}, Kids: []*T{tArr(tStr(s))}}, tStr(s2)),
			}
			for _, doc := range docs {
				for _, ts := range [][]Target{{{}}, {{w}}, {{w, w}}, {{d, w}}, {{Frag{K: 'c', Key: s}}}, {{d, Frag{K: 'c', Key: s}}}, {{Frag{K: 'n', N: 0}}, {Frag{K: 'c', Key: s}, w}}} {
					emit(&Case{Doc: doc, Targets: ts, Stream: "quotes"})
				}
			}
		}
	}
}

// dupKeyCases: documents in which a member name occurs twice. They are outside the property's
// documents (formalisation choice, see Spec.lean); only the model is compared with the code.
func dupKeyCases(full bool, r *lib.Rng, emit func(*Case)) {
	n := 300
	if full {
		n = 5000
	}
	for i := 0; i < n; i++ {
		doc := randDoc(r, 3, 3, false)
		// duplicate one member somewhere
		var objs []*T
		var walk func(t *T)
		walk = func(t *T) {
			if t.K == 'o' && len(t.Keys) > 0 {
				objs = append(objs, t)
			}
			for _, k := range t.Kids {
				walk(k)
			}
		}
		walk(doc)
		if len(objs) == 0 {
			continue
		}
		locs := doc.allLocs() // of the document before the repetition: every one still exists
		o := lib.Pick(r, objs)
		k := lib.Pick(r, o.Keys)
		o.Keys = append(o.Keys, k)
		o.Kids = append(o.Kids, randDoc(r, 2, 2, false))
		nt := 1 + r.Intn(2)
		var ts []Target
		for j := 0; j < nt; j++ {
			ts = append(ts, randTarget(r, doc, locs, r.Bool()))
		}
		emit(&Case{Doc: doc, Targets: ts, Stream: "dupkeys"})
	}
}

// satisfies: does the element satisfy the filter fragment (the two filter forms the harness uses)
func satisfies(f Frag, t *T) bool {
	if f.FSelf {
		return t.K == 'i' && t.I == int64(f.N)
	}
	if t.K != 'o' {
		return false
	}
	for i := len(t.Keys) - 1; i >= 0; i-- {
		if t.Keys[i] == f.Key {
			return t.Kids[i].K == 'i' && t.Kids[i].I == int64(f.N)
		}
	}
	return false
}

// mapOrderDependent: some object of the document has two members that a filter of the targets
// accepts. The handler collects objects into Go maps and takes the "first" accepted member in map
// iteration order, so the callbacks of such a case differ from run to run.
func mapOrderDependent(c *Case) bool {
	var fs []Frag
	for _, tg := range c.Targets {
		for _, f := range tg {
			if f.K == 'f' {
				fs = append(fs, f)
			}
		}
	}
	if len(fs) == 0 {
		return false
	}
	var walk func(t *T) bool
	walk = func(t *T) bool {
		if t.K == 'o' {
			for _, f := range fs {
				n := 0
				seen := map[string]bool{}
				for i := len(t.Keys) - 1; i >= 0; i-- {
					if !seen[t.Keys[i]] && satisfies(f, t.Kids[i]) {
						n++
					}
					seen[t.Keys[i]] = true
				}
				if n >= 2 {
					return true
				}
			}
		}
		for _, k := range t.Kids {
			if walk(k) {
				return true
			}
		}
		return false
	}
	return walk(c.Doc)
}
