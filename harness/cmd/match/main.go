// Correspondence and oracle harness for the streaming matcher (property C17):
// oj.Match / MatchString / MatchLoad and sen.Match / MatchLoad against parse-then-locate.
//
// A case is a document (built as a tree with a known member order, written out as JSON text) and
// one to three target paths. Every case runs through the real entry points, MatchLoad under several
// chunkings of the reader, and the callback sequence (normalized path, canonical value) is compared
//
//	violation:    with what oj.Parse (sen.Parse) + Expr.Locate + Expr.First give for the OUTERMOST
//	              located elements in document order (order and "outermost" are computed here from
//	              the harness's own tree, never from a Go map), and between the entry points/chunkings;
//	known:        such a violation on a case whose targets use a construct with a recorded deviation
//	              (known_findings.json) while the Lean model of the current code reproduces the
//	              implementation's callbacks exactly;
//	disagreement: Lean model (Match/Model.lean) != implementation; Lean specification
//	              (Match/Spec.lean) != the parse-then-locate expectation; jp.PathMatch != model.
package main

import (
	"encoding/json"
	"flag"
	"fmt"
	"hash/fnv"
	"io"
	"os"
	"sort"
	"strings"
	"sync"
	"sync/atomic"

	"github.com/ohler55/ojg/jp"
	"github.com/ohler55/ojg/oj"
	"github.com/ohler55/ojg/sen"

	"verif/harness/lib"
)

var (
	prop    = flag.String("prop", "C17", "property id")
	tier    = flag.String("tier", "quick", "quick|thorough")
	seed    = flag.Uint64("seed", 1, "PRNG seed")
	driver  = flag.String("driver", "", "path of drv_match")
	outPath = flag.String("out", "", "report path")
	replay  = flag.String("replay", "", "replay file")
	corpus  = flag.String("corpus", "", "corpus file: lines '<doc canon>\\t<targets>'")
	known   = flag.String("known", "", "known_findings.json")
	workers = flag.Int("workers", 16, "parallel workers")
	devArg  = flag.String("dev", "cur", "deviation setting of the model the code is compared with: cur (Dev.cur), fixed, or letters s d (for trying a patched tree)")
)

var rep *lib.Report
var knownList []lib.Known

// descentDeviates: okTarget of the compared matcher rejects the target `$..` (asked of the driver once)
var descentDeviates bool

func askDescent() {
	if *driver == "" {
		return
	}
	d, err := lib.StartDriver(*driver)
	if err != nil {
		fmt.Fprintln(os.Stderr, "harness failure:", err)
		os.Exit(3)
	}
	defer d.Close()
	a, err := d.Ask1("ok\t" + *devArg + "\td")
	if err != nil || (a != "t" && a != "f") {
		fmt.Fprintln(os.Stderr, "harness failure: driver op ok:", a, err)
		os.Exit(3)
	}
	descentDeviates = a == "f"
}

// chunkReader delivers the input in the given chunk lengths (the rest in one piece), then io.EOF
// (copied from harness/cmd/json/impl.go).
type chunkReader struct {
	data   []byte
	chunks []int
	ci     int
}

func (r *chunkReader) Read(p []byte) (int, error) {
	if len(r.data) == 0 {
		return 0, io.EOF
	}
	n := len(r.data)
	if r.ci < len(r.chunks) {
		c := r.chunks[r.ci]
		if c < 0 {
			c = -c // a negative length repeats for ever
		} else {
			r.ci++
		}
		if c < n {
			n = c
		}
	}
	if n > len(p) {
		n = len(p)
	}
	if n <= 0 {
		n = 1
	}
	copy(p, r.data[:n])
	r.data = r.data[n:]
	return n, nil
}

// ---- running the implementation --------------------------------------------------------------

type collector struct {
	items []string
}

func (c *collector) onData(path jp.Expr, data any) {
	// the path slice is the handler's own and is overwritten later: take its text now
	l, ok := locOf(path)
	txt := "?" + path.String()
	if ok {
		txt = l.text()
	}
	c.items = append(c.items, txt+"|"+lib.Render(data))
}

func (c *collector) result(err error) string {
	if err != nil {
		return "error " + err.Error()
	}
	if len(c.items) == 0 {
		return "-"
	}
	return strings.Join(c.items, ";")
}

func safe(f func(c *collector) error) (res string) {
	c := &collector{}
	defer func() {
		if r := recover(); r != nil {
			res = fmt.Sprintf("panic %v", r)
		}
	}()
	return c.result(f(c))
}

func exprs(ts []Target) []jp.Expr {
	out := make([]jp.Expr, len(ts))
	for i, t := range ts {
		out[i] = t.expr()
	}
	return out
}

type run struct {
	entry string
	fam   string // oj | sen (which parser defines the expected values)
	res   string
}

func runAll(c *Case, text []byte, senTxt, senSq []byte) []run {
	ts := c.Targets
	var out []run
	add := func(entry, fam string, f func(col *collector) error) {
		out = append(out, run{entry, fam, safe(f)})
	}
	add("oj.Match", "oj", func(col *collector) error { return oj.Match(text, col.onData, exprs(ts)...) })
	add("oj.MatchString", "oj", func(col *collector) error { return oj.MatchString(string(text), col.onData, exprs(ts)...) })
	load := func(name string, chunks []int) {
		add("oj.MatchLoad/"+name, "oj", func(col *collector) error {
			return oj.MatchLoad(&chunkReader{data: append([]byte{}, text...), chunks: chunks}, col.onData, exprs(ts)...)
		})
	}
	load("whole", nil)
	load("1-byte", []int{-1})
	h := fnv.New32a()
	h.Write(text)
	h.Write([]byte(targetsText(ts)))
	k := int(h.Sum32() >> 2)
	// the whole battery on every case in the thorough tier, on a quarter of the cases otherwise
	heavy := *tier == "thorough" || k%4 == 0 || c.Stream == "boundary" || c.Stream == "quotes" || c.Stream == "replay" || c.Stream == "corpus"
	if len(text) > 1 {
		if heavy && len(text) <= 24 {
			for i := 1; i < len(text); i++ {
				load(fmt.Sprintf("split@%d", i), []int{i})
			}
		} else {
			load(fmt.Sprintf("split@%d", 1+k%(len(text)-1)), []int{1 + k%(len(text)-1)})
		}
		if heavy {
			load("3-byte", []int{-3})
			load("7-then-2", []int{7, -2})
		}
	}
	// a 4096-byte read buffer boundary inside the document: white space in front moves every
	// position of a short document, one or two of a longer one, onto the boundary
	var offs []int
	if len(text) > 1 {
		if heavy && len(text) <= 12 {
			for i := 1; i < len(text); i++ {
				offs = append(offs, i)
			}
		} else if heavy {
			offs = []int{1 + (k/3)%(len(text)-1), 1 + (k/7)%(len(text)-1)}
		} else {
			offs = []int{1 + (k/3)%(len(text)-1)}
		}
	}
	for _, o := range offs {
		padded := append([]byte(strings.Repeat(" ", 4096-o)), text...)
		add(fmt.Sprintf("oj.MatchLoad/4096@%d", o), "oj", func(col *collector) error {
			return oj.MatchLoad(&chunkReader{data: padded}, col.onData, exprs(ts)...)
		})
	}
	// a byte order mark in front of the document, the reader cut after and inside it
	bom := append([]byte{0xEF, 0xBB, 0xBF}, text...)
	add("oj.Match/bom", "oj", func(col *collector) error { return oj.Match(bom, col.onData, exprs(ts)...) })
	bomLoad := func(name string, chunks []int) {
		add("oj.MatchLoad/bom/"+name, "oj", func(col *collector) error {
			return oj.MatchLoad(&chunkReader{data: append([]byte{}, bom...), chunks: chunks}, col.onData, exprs(ts)...)
		})
	}
	bomLoad("1-byte", []int{-1})
	bomLoad("3", []int{3})
	if heavy {
		// an empty first Read in front of the mark (finding C17-empty-first-read-bom, fixed c109a1a)
		add("oj.MatchLoad/bom/empty-first-read", "oj", func(col *collector) error {
			return oj.MatchLoad(&listReader{chunks: [][]byte{{}, append([]byte{}, bom...)}}, col.onData, exprs(ts)...)
		})
		add("sen.MatchLoad/bom/empty-first-read", "sen", func(col *collector) error {
			return sen.MatchLoad(&listReader{chunks: [][]byte{{}, {}, append([]byte{}, bom[:2]...), append([]byte{}, bom[2:]...)}}, col.onData, exprs(ts)...)
		})
		bomLoad("whole", nil)
		bomLoad("1,2", []int{1, 2})
		bomLoad("2,1", []int{2, 1})
		bomLoad("3,1", []int{3, 1})
		bomLoad("2", []int{2})
		bomLoad("4", []int{4})
	}
	add("sen.Match", "sen", func(col *collector) error { return sen.Match(text, col.onData, exprs(ts)...) })
	add("sen.Match/sen-text", "sen", func(col *collector) error { return sen.Match(senTxt, col.onData, exprs(ts)...) })
	add("sen.Match/sen-single-quoted", "sen", func(col *collector) error { return sen.Match(senSq, col.onData, exprs(ts)...) })
	senLoad := func(name string, in []byte, chunks []int) {
		add("sen.MatchLoad/"+name, "sen", func(col *collector) error {
			return sen.MatchLoad(&chunkReader{data: append([]byte{}, in...), chunks: chunks}, col.onData, exprs(ts)...)
		})
	}
	senLoad("1-byte", text, []int{-1})
	senLoad("sen-single-quoted/whole", senSq, nil)
	if len(senSq) > 1 {
		senLoad(fmt.Sprintf("sen-single-quoted/split@%d", 1+k%(len(senSq)-1)), senSq, []int{1 + k%(len(senSq)-1)})
	}
	// SEN-only token shapes (bare words and numbers directly followed by a bracket, comments,
	// single-quoted strings): whole, byte by byte, and a cut at every position of a short text
	{
		var tb strings.Builder
		c.Doc.senTight(&tb)
		tight := []byte(tb.String())
		add("sen.Match/sen-tight", "sen", func(col *collector) error { return sen.Match(tight, col.onData, exprs(ts)...) })
		senLoad("sen-tight/1-byte", tight, []int{-1})
		if len(tight) > 1 {
			if (heavy && len(tight) <= 48) || c.Stream == "senshape" {
				for i := 1; i < len(tight); i++ {
					senLoad(fmt.Sprintf("sen-tight/split@%d", i), tight, []int{i})
				}
			} else {
				senLoad(fmt.Sprintf("sen-tight/split@%d", 1+(k/5)%(len(tight)-1)), tight, []int{1 + (k/5)%(len(tight)-1)})
			}
		}
		if heavy || c.Stream == "senshape" {
			senLoad("sen-tight/2-byte", tight, []int{-2})
			senLoad("sen-tight/3-byte", tight, []int{-3})
			if len(tight) > 1 { // the end of the 4096-byte read buffer inside the text
				o := 1 + (k/11)%(len(tight)-1)
				padded := append([]byte(strings.Repeat(" ", 4096-o)), tight...)
				add(fmt.Sprintf("sen.MatchLoad/sen-tight/4096@%d", o), "sen", func(col *collector) error {
					return sen.MatchLoad(&chunkReader{data: padded}, col.onData, exprs(ts)...)
				})
			}
		}
	}
	if heavy {
		senLoad("sen-single-quoted/1-byte", senSq, []int{-1})
		senLoad("sen-text/1-byte", senTxt, []int{-1})
		senLoad("sen-text/3-byte", senTxt, []int{-3})
		add("sen.Match/bom", "sen", func(col *collector) error { return sen.Match(bom, col.onData, exprs(ts)...) })
		senLoad("bom/1-byte", bom, []int{-1})
		senLoad("bom/3", bom, []int{3})
		senLoad("bom/1,2", bom, []int{1, 2})
	}
	return out
}

// ---- the parse-then-locate expectation -------------------------------------------------------

// expectation computes the callbacks the property demands. ok=false (with a reason) when the
// evaluators themselves do not give one answer for a target (Locate and Get disagree, a located
// path has no value, a panic): such a case has no oracle and is counted, not judged.
func expectation(c *Case, text []byte, fam string) (res string, ok bool, why string) {
	defer func() {
		if r := recover(); r != nil {
			res, ok, why = "", false, fmt.Sprintf("evaluator-panic %v", r)
		}
	}()
	var data any
	var err error
	if fam == "sen" {
		data, err = sen.Parse(text)
	} else {
		data, err = oj.Parse(text)
	}
	if err != nil {
		return "", false, "parse-error " + err.Error()
	}
	type item struct {
		loc Loc
		pos []int
		val string
	}
	var items []item
	seen := map[string]bool{}
	for _, tg := range c.Targets {
		x := tg.expr()
		locs := x.Locate(data, 0)
		got := x.Get(data)
		var lv, gv []string
		for _, lx := range locs {
			l, lok := locOf(lx)
			if !lok {
				return "", false, "locate-not-normalized"
			}
			if !lx.Has(data) {
				return "", false, "located-path-has-no-value"
			}
			v := lib.Render(lx.First(data))
			lv = append(lv, v)
			if seen[l.text()] {
				continue
			}
			seen[l.text()] = true
			pos, pok := c.Doc.position(l)
			if !pok {
				return "", false, "located-path-not-in-document"
			}
			items = append(items, item{l, pos, v})
		}
		for _, g := range got {
			gv = append(gv, lib.Render(g))
		}
		sort.Strings(lv)
		sort.Strings(gv)
		if strings.Join(lv, ";") != strings.Join(gv, ";") {
			return "", false, "locate-get-differ"
		}
	}
	// outermost: no other selected location is a proper prefix
	var outer []item
	for i, a := range items {
		nested := false
		for j, b := range items {
			if i != j && len(b.loc) < len(a.loc) && isPrefix(b.loc, a.loc) {
				nested = true
			}
		}
		if !nested {
			outer = append(outer, a)
		}
	}
	sort.SliceStable(outer, func(i, j int) bool { return lessPos(outer[i].pos, outer[j].pos) })
	if len(outer) == 0 {
		return "-", true, ""
	}
	parts := make([]string, len(outer))
	for i, it := range outer {
		parts[i] = it.loc.text() + "|" + it.val
	}
	return strings.Join(parts, ";"), true, ""
}

// ---- one case --------------------------------------------------------------------------------

type caseRun struct {
	c      *Case
	text   []byte
	senTxt []byte
	senSq  []byte
	doc    string
	tgs    string
	runs   []run
	expOj  string
	expSen string
	okOj   bool
	okSen  bool
	whyOj  string
	qModel int
	qSpec  int
	qOk    int

	hasStreamed bool
	qStreamed   [3]int // i, s, is
}

func prepare(c *Case, reqs *[]string) *caseRun {
	var ws *lib.Rng
	if c.WSeed != 0 {
		ws = lib.NewRng(c.WSeed)
	}
	cr := &caseRun{c: c, text: []byte(c.Doc.json(ws)), doc: c.Doc.canonText(), tgs: targetsText(c.Targets)}
	var sb strings.Builder
	c.Doc.senText(&sb, false)
	cr.senTxt = []byte(sb.String())
	var sq strings.Builder
	c.Doc.senText(&sq, true)
	cr.senSq = []byte(sq.String())
	cr.runs = runAll(c, cr.text, cr.senTxt, cr.senSq)
	cr.expOj, cr.okOj, cr.whyOj = expectation(c, cr.text, "oj")
	cr.expSen, cr.okSen, _ = expectation(c, cr.text, "sen")
	*reqs = append(*reqs, "run\t"+*devArg+"\t"+cr.tgs+"\t"+cr.doc)
	cr.qModel = len(*reqs) - 1
	*reqs = append(*reqs, "spec\t"+cr.tgs+"\t"+cr.doc)
	cr.qSpec = len(*reqs) - 1
	*reqs = append(*reqs, "ok\t"+*devArg+"\t"+cr.tgs)
	cr.qOk = len(*reqs) - 1
	// what the recorded deviations predict for THIS case (filter-free target sets with a
	// from-the-end index or a slice): the streamed readings, each alone and both
	if synt := features(c.Targets, false); (synt["from-end-index"] || synt["slice-bounds"]) && !synt["filter-first-only"] {
		cr.hasStreamed = true
		for i, mode := range []string{"i", "s", "is"} {
			*reqs = append(*reqs, "streamed\t"+*devArg+"\t"+mode+"\t"+cr.tgs+"\t"+cr.doc)
			cr.qStreamed[i] = len(*reqs) - 1
		}
	}
	return cr
}

func (cr *caseRun) replayOf(extra map[string]any) map[string]any {
	ts := make([]string, len(cr.c.Targets))
	for i, t := range cr.c.Targets {
		ts[i] = t.expr().String()
	}
	m := map[string]any{"doc": cr.doc, "targets": cr.tgs, "wseed": fmt.Sprint(cr.c.WSeed), "stream": cr.c.Stream,
		"json_hex": lib.HexF(cr.text), "json": string(cr.text), "sen_single_quoted": string(cr.senSq), "sen_tight": func() string { var b strings.Builder; cr.c.Doc.senTight(&b); return b.String() }(), "targets_jsonpath": ts}
	for k, v := range extra {
		m[k] = v
	}
	return m
}

func add(kind, class, what string, replay map[string]any) {
	rep.Add(lib.Finding{Kind: kind, Class: class, What: what, Replay: replay})
}

func items(s string) []string {
	if s == "-" || s == "" {
		return nil
	}
	return strings.Split(s, ";")
}

// diffClass names how a callback sequence departs from the expected one.
func diffClass(got, want string) string {
	if strings.HasPrefix(got, "panic") {
		return "panic"
	}
	if strings.HasPrefix(got, "error") {
		return "error"
	}
	g, w := items(got), items(want)
	gs, ws := map[string]int{}, map[string]int{}
	gp, wp := map[string]bool{}, map[string]bool{}
	for _, x := range g {
		gs[x]++
		gp[x[:strings.IndexByte(x, '|')]] = true
	}
	for _, x := range w {
		ws[x]++
		wp[x[:strings.IndexByte(x, '|')]] = true
	}
	missed, spurious, value := false, false, false
	for x := range ws {
		if gs[x] == 0 {
			if gp[x[:strings.IndexByte(x, '|')]] {
				value = true
			} else {
				missed = true
			}
		}
	}
	for x := range gs {
		if ws[x] == 0 && !wp[x[:strings.IndexByte(x, '|')]] {
			spurious = true
		}
	}
	switch {
	case missed && spurious:
		return "wrong-locations"
	case missed:
		return "missed"
	case spurious:
		return "spurious"
	case value:
		return "value"
	case len(g) != len(w):
		return "repeated"
	}
	return "order"
}

// explain decides, for ONE case whose callbacks differ from parse-then-locate, whether they are
// exactly what recorded deviations predict for this case, and which ones. outsideFeats are the named
// constructs of the targets outside okTarget (none: nothing to explain with).
//   - a target set without a filter: the prediction is the specification's expectation for the
//     targets in their streamed reading (C17_streamed): from-the-end indexes alone, slices alone, or
//     both; the smallest reading that gives the implementation's callbacks names the finding(s);
//   - a set with a filter target: the prediction is the model's run (checkRest with Locate(v,1)/First
//     and "no other target is looked at inside a collected container" have no reading as a target);
//     the named constructs of the outside targets are all listed.
//
// Anything else is a violation.
func explain(cr *caseRun, ans []string, res, model string, outsideFeats map[string]bool) ([]string, string) {
	if len(outsideFeats) == 0 {
		return nil, ""
	}
	allKnown := func(ids []string) bool {
		for _, f := range ids {
			if !lib.HasKnown(knownList, "C17-"+f) {
				return false
			}
		}
		return len(ids) > 0
	}
	onlyStreamable := true
	for f := range outsideFeats {
		if f != "from-end-index" && f != "slice-bounds" {
			onlyStreamable = false
		}
	}
	if cr.hasStreamed && onlyStreamable {
		var p [3]string
		na := false
		for i := range p {
			p[i] = lib.FloatTextToBits(ans[cr.qStreamed[i]])
			if ans[cr.qStreamed[i]] == "n/a" || ans[cr.qStreamed[i]] == "bad-op" {
				na = true
			}
		}
		if !na {
			var ids []string
			how := ""
			switch {
			case res == p[0] && outsideFeats["from-end-index"]:
				ids, how = []string{"from-end-index"}, "the expectation with from-the-end indexes read as selecting nothing"
			case res == p[1] && outsideFeats["slice-bounds"]:
				ids, how = []string{"slice-bounds"}, "the expectation with slices read as [:]"
			case res == p[2] && outsideFeats["from-end-index"] && outsideFeats["slice-bounds"]:
				ids, how = []string{"from-end-index", "slice-bounds"}, "the expectation with from-the-end indexes read as selecting nothing and slices as [:]"
			}
			if allKnown(ids) {
				return ids, how
			}
			return nil, ""
		}
	}
	if res != model {
		return nil, ""
	}
	var ids []string
	for f := range outsideFeats {
		ids = append(ids, f)
	}
	sort.Strings(ids)
	if allKnown(ids) {
		return ids, "the run of the model of the current code (a filter target: one callback per collected container, other targets not looked at inside it)"
	}
	return nil, ""
}

// hasFromEndSlice: a slice with a negative start or end, or a step that is not positive.
func hasFromEndSlice(ts []Target) bool {
	for _, tg := range ts {
		for _, f := range tg {
			if f.K != 's' {
				continue
			}
			if len(f.Sl) > 0 && f.Sl[0] < 0 || len(f.Sl) > 1 && f.Sl[1] < 0 || len(f.Sl) > 2 && f.Sl[2] <= 0 {
				return true
			}
		}
	}
	return false
}

// onlyExtraScalars: want is a subsequence of got and every additional item of got is a scalar.
func onlyExtraScalars(got, want string) bool {
	g, w := items(got), items(want)
	j := 0
	for _, x := range g {
		if j < len(w) && w[j] == x {
			j++
			continue
		}
		v := x[strings.IndexByte(x, '|')+1:]
		if strings.HasPrefix(v, "[") || strings.HasPrefix(v, "{") {
			return false
		}
	}
	return j == len(w)
}

func entryClass(e string) string {
	if i := strings.IndexByte(e, '/'); i >= 0 {
		return e[:i]
	}
	return e
}

func judge(cr *caseRun, ans []string) {
	c := cr.c
	model := lib.FloatTextToBits(ans[cr.qModel])
	spec := lib.FloatTextToBits(ans[cr.qSpec])
	if ans[cr.qModel] == "bad-op" || ans[cr.qSpec] == "bad-op" {
		add("disagreement", "driver-bad-op", "the driver refused the case", cr.replayOf(nil))
		return
	}
	// the constructs with a recorded deviation, taken from the targets that fall outside the
	// hypothesis of the C17 theorems (okTarget, answered by the driver)
	var outside []Target
	for i, tg := range c.Targets {
		if i >= len(ans[cr.qOk]) || ans[cr.qOk][i] != 't' {
			outside = append(outside, tg)
		}
	}
	feats := features(outside, descentDeviates)
	if len(outside) > 0 && len(feats) == 0 {
		add("disagreement", "okTarget-vs-features", "a target is outside the theorem's hypothesis but shows none of the named constructs", cr.replayOf(nil))
	}
	dup := c.Doc.hasDupKeys()
	nontrivial := int64(0)
	if cr.okOj && cr.expOj != "-" {
		nontrivial = 1
	}
	rep.AddEval(1, nontrivial)
	rep.Count("stream."+c.Stream, 1)
	rep.Count(fmt.Sprintf("targets.%d", len(c.Targets)), 1)
	for _, tg := range c.Targets {
		for _, f := range tg {
			rep.Count("fragment."+string(f.K), 1)
		}
	}
	if cr.okOj {
		n := len(items(cr.expOj))
		if n > 3 {
			n = 3
		}
		rep.Count(fmt.Sprintf("expected.callbacks.%d%s", n, map[bool]string{true: "+", false: ""}[n == 3]), 1)
	} else {
		rep.Count("no-oracle."+strings.Fields(cr.whyOj)[0], 1)
	}
	if len(feats) == 0 {
		rep.Count("targets.plain", 1)
	}
	for f := range feats {
		rep.Count("targets.with."+f, 1)
	}
	rep.Count("runs", int64(len(cr.runs)))
	// the specification's expectation against parse-then-locate
	// The evaluators do not enter a descent at a scalar that an earlier fragment reached ($.a..
	// selects nothing when a is a number) although they do at the root and below a container; the
	// specification lets a descent select the node itself everywhere. Where that is the whole
	// difference, the specification's expectation is the reference.
	descentQuirk := func(exp string) bool {
		return spec != exp && features(c.Targets, true)["trailing-descent"] && onlyExtraScalars(spec, exp)
	}
	// Only when every entry point gives exactly the model's callbacks: a case on which model and
	// implementation disagree keeps the evaluators' expectation (and is reported on both counts).
	implIsModel := true
	for _, r := range cr.runs {
		if r.res != model {
			implIsModel = false
		}
	}
	if cr.okOj && !dup && implIsModel && descentQuirk(cr.expOj) {
		rep.Count("expectation_from_model", 1)
		rep.Count("evaluator.descent-not-entered-at-scalar", 1)
		cr.expOj = spec
	}
	if cr.okSen && !dup && implIsModel && descentQuirk(cr.expSen) {
		cr.expSen = spec
	}
	if cr.okOj && !dup && spec != cr.expOj && hasFromEndSlice(c.Targets) {
		// Locate reads a negative end of a slice as inclusive and clamps a start beyond the length,
		// Get's inner branch selects the start element of an empty range ([1:-1:2] on two
		// elements): for slices with bounds from the end or a backward step the two agree with
		// each other only by accident, and there is no reference to compare the specification with.
		rep.Count("evaluator.slice-from-end-corner", 1)
	} else if cr.okOj && !dup && spec != cr.expOj {
		add("disagreement", "spec-vs-locate", "the Lean specification's expected callbacks differ from parse + Locate + First",
			cr.replayOf(map[string]any{"spec": spec, "locate": cr.expOj}))
	}
	// all entry points and chunkings agree (values of the sen family may differ in number kinds only
	// through sen.Parse, which the expectation of that family accounts for)
	first := cr.runs[0]
	for _, r := range cr.runs {
		if r.fam == first.fam && r.res != first.res {
			add("violation", "chunking", "entry points or chunkings of one family give different callbacks ("+r.entry+" vs "+first.entry+")",
				cr.replayOf(map[string]any{"entry": r.entry, "got": r.res, "reference_entry": first.entry, "reference": first.res}))
			break
		}
	}
	seenClass := map[string]bool{}
	for _, r := range cr.runs {
		exp, ok := cr.expOj, cr.okOj
		if r.fam == "sen" {
			exp, ok = cr.expSen, cr.okSen
		}
		info := map[string]any{"entry": r.entry, "impl": r.res, "model": model, "expected": exp, "spec": spec}
		// the tie: model of the current code == implementation (values of the model are the
		// document's own, so the comparison is made for the oj family and for sen on equal footing)
		if r.res != model && !seenClass["m"] {
			seenClass["m"] = true
			add("disagreement", "model:"+entryClass(r.entry), "model and implementation give different callbacks", cr.replayOf(info))
		}
		if !ok || dup {
			continue
		}
		if r.res == exp {
			continue
		}
		if seenClass["v"] { // one finding per case: the first entry point that departs
			continue
		}
		seenClass["v"] = true
		dc := diffClass(r.res, exp)
		if ids, how := explain(cr, ans, r.res, model, feats); len(ids) > 0 {
			info["explained_by"] = how
			for _, f := range ids {
				rep.Add(lib.Finding{Kind: "known", Class: "callbacks:" + f, KnownID: "C17-" + f,
					What: "callbacks differ from parse-then-locate (" + dc + ") and equal, on this case, " + how, Replay: cr.replayOf(info)})
			}
			continue
		}
		add("violation", "callbacks:"+dc, "callbacks of "+r.entry+" differ from parse-then-locate: "+dc, cr.replayOf(info))
	}
}

func processBatch(d *lib.Driver, batch []*Case) error {
	var reqs []string
	runs := make([]*caseRun, len(batch))
	for i, c := range batch {
		runs[i] = prepare(c, &reqs)
	}
	var ans []string
	if d != nil {
		var err error
		if ans, err = d.Ask(reqs); err != nil {
			return err
		}
	}
	for _, cr := range runs {
		if d == nil { // probing without a driver: judge against the expectation only
			ans = make([]string, len(reqs))
			ans[cr.qModel], ans[cr.qSpec], ans[cr.qOk] = cr.runs[0].res, cr.expOj, ""
			if cr.hasStreamed {
				for _, q := range cr.qStreamed {
					ans[q] = "n/a"
				}
			}
		}
		judge(cr, ans)
	}
	return nil
}

// ---- PathMatch against the model -------------------------------------------------------------

func pathMatchCases(d *lib.Driver, full bool) error {
	if d == nil {
		return nil
	}
	segs := []Seg{{IsKey: true, Key: "a"}, {IsKey: true, Key: "b"}, {Idx: 0}, {Idx: 1}, {Idx: 2}}
	paths := []Loc{{}}
	level := []Loc{{}}
	maxPath := 3
	for l := 1; l <= maxPath; l++ {
		var next []Loc
		for _, p := range level {
			for _, s := range segs {
				next = append(next, append(append(Loc{}, p...), s))
			}
		}
		paths = append(paths, next...)
		level = next
	}
	tl := 3
	if full {
		tl = 4
	}
	var targets []Target
	for _, tg := range boxTargets(tl) {
		// a filter ends the portion PathMatch is given by the handler, but PathMatch itself accepts it anywhere
		targets = append(targets, tg)
	}
	if !full { // quick: a third of the length-3 targets
		var keep []Target
		for i, tg := range targets {
			if len(tg) < 3 || i%3 == int(*seed%3) {
				keep = append(keep, tg)
			}
		}
		targets = keep
	}
	rep.Exhaustive = append(rep.Exhaustive, fmt.Sprintf(
		"jp.PathMatch vs model: box targets up to length %d (quick: a third of the longest) times every normalized path of length <= %d over a, b, [0], [1], [2]", tl, maxPath))
	var reqs []string
	type pm struct {
		tg   Target
		p    Loc
		impl string
	}
	var all []pm
	flush := func() error {
		ans, err := d.Ask(reqs)
		if err != nil {
			return err
		}
		for i, a := range ans {
			if a != all[i].impl {
				add("disagreement", "model:PathMatch", "jp.PathMatch and the model differ",
					map[string]any{"target": all[i].tg.text(), "target_jsonpath": all[i].tg.expr().String(), "path": all[i].p.text(), "impl": all[i].impl, "model": a})
			}
		}
		rep.Count("stream.pathmatch", int64(len(ans)))
		rep.AddEval(int64(len(ans)), int64(len(ans)))
		reqs, all = reqs[:0], all[:0]
		return nil
	}
	for _, tg := range targets {
		x := tg.expr()
		for _, p := range paths {
			px := jp.R()
			for _, s := range p {
				if s.IsKey {
					px = px.C(s.Key)
				} else {
					px = px.N(s.Idx)
				}
			}
			impl := func() (res string) {
				defer func() {
					if r := recover(); r != nil {
						res = fmt.Sprintf("panic %v", r)
					}
				}()
				if jp.PathMatch(x, px) {
					return "t"
				}
				return "f"
			}()
			all = append(all, pm{tg, p, impl})
			reqs = append(reqs, "pm\t"+*devArg+"\t"+tg.text()+"\t"+p.text())
			if len(reqs) >= 4096 {
				if err := flush(); err != nil {
					return err
				}
			}
		}
	}
	return flush()
}

// ---- main ------------------------------------------------------------------------------------

func main() {
	flag.Parse()
	rep = lib.NewReport(*prop, *tier, *seed)
	knownList = lib.LoadKnown(*known, *prop)
	askDescent()
	if *replay != "" {
		runReplay()
		return
	}
	full := *tier == "thorough"
	cases := make(chan []*Case, 64)
	var wg sync.WaitGroup
	var fatal atomic.Value
	for w := 0; w < *workers; w++ {
		wg.Add(1)
		go func(w int) {
			defer wg.Done()
			var d *lib.Driver
			if *driver != "" {
				var err error
				d, err = lib.StartDriver(*driver)
				if err != nil {
					fatal.Store(err.Error())
					for range cases {
					}
					return
				}
				defer d.Close()
			}
			if w == 0 {
				if err := pathMatchCases(d, full); err != nil {
					fatal.Store(err.Error())
				}
			}
			if w == 1%*workers {
				if sel := os.Getenv("VERIF_STREAMS"); sel == "" || strings.Contains(","+sel+",", ",tok,") {
					if err := tokCases(d, full, lib.NewRng(*seed).Fork(9)); err != nil {
						fatal.Store(err.Error())
					}
				}
			}
			for batch := range cases {
				if fatal.Load() != nil {
					continue
				}
				if err := processBatch(d, batch); err != nil {
					fatal.Store(err.Error())
				}
			}
		}(w)
	}
	var cur []*Case
	seen := map[uint64]struct{}{}
	sampled := 0
	emit := func(c *Case) {
		h := fnv.New64a()
		h.Write([]byte(c.Doc.canonText()))
		h.Write([]byte{0})
		h.Write([]byte(targetsText(c.Targets)))
		h.Write([]byte{0, byte(c.WSeed), byte(c.WSeed >> 8)})
		k := h.Sum64()
		if _, dup := seen[k]; dup {
			rep.Count("stream.duplicates_skipped", 1)
			return
		}
		seen[k] = struct{}{}
		if sampled < 12 && len(seen)%7001 == 13 {
			sampled++
			ts := make([]string, len(c.Targets))
			for i, t := range c.Targets {
				ts[i] = t.expr().String()
			}
			rep.Sample(map[string]any{"stream": c.Stream, "json": c.Doc.json(nil), "targets": ts})
		}
		if mapOrderDependent(c) {
			rep.Count("skipped.filter-on-object-members-map-order", 1)
			return
		}
		cur = append(cur, c)
		if len(cur) >= 128 {
			cases <- cur
			cur = nil
		}
	}
	on := func(name string) bool {
		sel := os.Getenv("VERIF_STREAMS")
		return sel == "" || strings.Contains(","+sel+",", ","+name+",")
	}
	rng := lib.NewRng(*seed)
	if on("corpus") {
		corpusCases(emit)
	}
	if on("boundary") {
		boundaryCases(emit)
	}
	if on("box") {
		boxCases(full, rng.Fork(1), emit)
	}
	if on("rand") {
		randomCases(full, rng.Fork(2), emit)
	}
	if on("quotes") {
		quoteCases(emit)
	}
	if on("dup") {
		dupKeyCases(full, rng.Fork(3), emit)
	}
	if on("senshape") {
		senShapeCases(emit)
	}
	if len(cur) > 0 {
		cases <- cur
	}
	close(cases)
	wg.Wait()
	if e := fatal.Load(); e != nil {
		fmt.Fprintln(os.Stderr, "harness failure:", e)
		os.Exit(3)
	}
	rep.Rule = "cases (document tree with known member order written as JSON text, 1-3 target paths): corpus; boundary families (nested arrays/maps, index bookkeeping after a container closes, empty containers, overlapping and nested targets, filters, slices, from-the-end indexes); exhaustive boxes of small documents times all short targets and target pairs; seeded random documents with targets generalised from the document's own locations (child, index, wildcard, union, slice, descent, trailing filter; nested pairs); documents with a repeated member name (model vs code only). Each case runs oj.Match, oj.MatchString, oj.MatchLoad (whole, 1-byte, 3-byte, every 2-chunk split of short texts, a 4096 read-buffer boundary moved through the text), the same text behind a byte order mark through oj.Match and oj.MatchLoad with the reader cut inside and right after the mark (1-byte, 3, 1+2, 2+1, 3+1, 2, 4) and with empty first reads in front of it, sen.Match on the JSON text, on the SEN text (bare names, no commas) and on the SEN text with strings and names between single quotes, sen.MatchLoad byte by byte, on the single-quoted text whole/split/byte by byte, and behind a byte order mark; sen.Match and sen.MatchLoad on the text written with the token shapes only SEN has (sen-tight: plain-word strings bare, a bare word or number directly followed by [ or {, ] or } directly followed by a word, // and /* */ comments as separators, single-quoted strings) whole, byte by byte, one cut (a cut at EVERY position for short texts and for the stream senshape), 2- and 3-byte reads and the end of the 4096-byte read buffer inside the text; stream senshape: fixed documents made of those shapes under targets that report every element; a stream of strings and member names holding the other quote character; stream tok: the handler calls of oj.Tokenizer.Load (recorded reads: whole, with io.EOF on the last read, byte by byte, every 2-chunk split of short texts, random cuts with empty reads, a text over the 4096-byte read buffer) and oj.Tokenizer.Parse on fixed texts (literals, numbers at the int64/float/big borders, escapes, malformed texts, several documents, byte order marks) and on random documents (truncated, one byte replaced, behind a byte order mark, followed by a second document) against the Lean tokenizer model tokEvents — every event with its argument, also before an error, and the error/no-error outcome; duplicates (same document, targets, white space) are dropped; distinct_nontrivial counts cases whose expectation has at least one callback; PathMatch cases count one each"
	rep.Rule += ". ORACLES: (a) parse-then-locate = oj.Parse/sen.Parse + Expr.Locate + Expr.First, outermost and document order computed from the harness's tree; a case has no such oracle (distribution no-oracle.*) when Locate and Get disagree on a target, and is then judged only by model == implementation and by agreement of the entry points. (b) expectation_from_model: on the counted cases the parse-then-locate oracle is SKIPPED and the Lean specification's `expected` (not the transducer model) is the reference: a target ends in a descent and the whole difference between the two is that Locate/Get do not enter a descent at a scalar reached by an earlier fragment ($.a.. with a number at a) while they do at the root and below containers; the branch is taken only if every entry point's callbacks equal the model's run, so a model/implementation disagreement can never be judged this way; those cases are still judged by implementation == specification, model == implementation and agreement of entry points and chunkings. (c) evaluator.slice-from-end-corner: only the cross-check specification vs parse-then-locate is skipped (Locate and Get agree there by accident), the implementation is still judged against parse-then-locate. KNOWN findings are decided per case: the implementation's callbacks must equal what the named deviation predicts for that case — for filter-free target sets the specification's expectation for the streamed reading of the targets (from-the-end indexes alone, slices alone, or both; driver op streamed, C17_streamed), for sets with a filter target the model's run — anything else is a violation"
	rep.Notes = append(rep.Notes, fmt.Sprintf("expectation_from_model=%d of %d cases (parse-then-locate skipped, Lean specification is the reference; only where implementation == model; see rule (b))",
		rep.Distribution["expectation_from_model"], rep.Evaluations))
	if err := rep.Write(*outPath); err != nil {
		fmt.Fprintln(os.Stderr, err)
		os.Exit(3)
	}
}

func corpusCases(emit func(*Case)) {
	if *corpus == "" {
		return
	}
	data, err := os.ReadFile(*corpus)
	if err != nil {
		return
	}
	for _, line := range strings.Split(string(data), "\n") {
		line = strings.TrimSpace(line)
		if line == "" || line[0] == '#' {
			continue
		}
		p := strings.SplitN(line, "\t", 2)
		if len(p) != 2 {
			continue
		}
		doc, e1 := parseTree(p[0])
		ts, e2 := parseTargets(p[1])
		if e1 != nil || e2 != nil {
			rep.Notes = append(rep.Notes, "bad corpus line: "+line)
			continue
		}
		emit(&Case{Doc: doc, Targets: ts, Stream: "corpus"})
	}
}

func runReplay() {
	data, err := os.ReadFile(*replay)
	if err != nil {
		fmt.Fprintln(os.Stderr, err)
		os.Exit(3)
	}
	var r struct {
		Replay map[string]any `json:"replay"`
	}
	if err := json.Unmarshal(data, &r); err != nil || r.Replay == nil {
		fmt.Fprintln(os.Stderr, "bad replay file")
		os.Exit(3)
	}
	str := func(k string) string { s, _ := r.Replay[k].(string); return s }
	doc, e1 := parseTree(str("doc"))
	ts, e2 := parseTargets(str("targets"))
	if e1 != nil || e2 != nil {
		fmt.Fprintln(os.Stderr, "bad replay case:", e1, e2)
		os.Exit(3)
	}
	var ws uint64
	fmt.Sscan(str("wseed"), &ws)
	var d *lib.Driver
	if *driver != "" {
		if d, err = lib.StartDriver(*driver); err != nil {
			fmt.Fprintln(os.Stderr, err)
			os.Exit(3)
		}
		defer d.Close()
	}
	if err := processBatch(d, []*Case{{Doc: doc, Targets: ts, Stream: "replay", WSeed: ws}}); err != nil {
		fmt.Fprintln(os.Stderr, err)
		os.Exit(3)
	}
	rep.Rule = "replay of one case"
	_ = rep.Write(*outPath)
	for _, f := range rep.Findings {
		fmt.Printf("%s %s: %s\n", f.Kind, f.Class, f.What)
	}
}
